package main

import (
	"bufio"
	"fmt"
	"strconv"
	"strings"

	"github.com/free5gc/nas/uePolicyContainer"
)

func init() {
	ops["idg"] = opIdg
	oracles["C20"] = oracleC20
	gens["idgen"] = genIdgen
}

type idOp struct {
	k    string
	a, b int64
}

func parseIdOps(s string) ([]idOp, bool) {
	var out []idOp
	for _, p := range strings.Split(s, ";") {
		f := strings.Split(p, ":")
		o := idOp{k: f[0]}
		var e1, e2 error
		switch f[0] {
		case "a":
		case "r":
			if len(f) != 3 {
				return nil, false
			}
			o.a, e1 = strconv.ParseInt(f[1], 10, 64)
			o.b, e2 = strconv.ParseInt(f[2], 10, 64)
			if o.a < 0 || o.b < 0 {
				return nil, false
			}
		case "f":
			if len(f) != 2 {
				return nil, false
			}
			o.a, e1 = strconv.ParseInt(f[1], 10, 64)
		default:
			return nil, false
		}
		if e1 != nil || e2 != nil {
			return nil, false
		}
		out = append(out, o)
	}
	return out, true
}

func runIdOps(min, max int64, l []idOp) []string {
	g := uePolicyContainer.NewGenerator(min, max)
	var res []string
	for _, o := range l {
		switch o.k {
		case "a":
			id, err := g.Allocate()
			if err != nil {
				res = append(res, "e")
			} else {
				res = append(res, fmt.Sprint(id))
			}
		case "r":
			id, err := g.Allocate_inRange(o.a, o.b)
			if err != nil {
				res = append(res, "e")
			} else {
				res = append(res, fmt.Sprint(id))
			}
		case "f":
			g.FreeID(o.a)
			res = append(res, "-")
		}
	}
	return res
}

// idg <min> <max> <op;op;…>   ops: a | r:<lo>:<hi> | f:<id>
func opIdg(args []string) string {
	if len(args) != 3 {
		return "bad-op"
	}
	min, e1 := strconv.ParseInt(args[0], 10, 64)
	max, e2 := strconv.ParseInt(args[1], 10, 64)
	l, ok := parseIdOps(args[2])
	if e1 != nil || e2 != nil || !ok || min > max {
		return "bad-op"
	}
	return "ok " + strings.Join(runIdOps(min, max, l), ",")
}

// the property on the real allocator, against an abstract live set
func oracleC20(op string, args []string) string {
	if op != "idg" || len(args) != 3 {
		return skip
	}
	min, e1 := strconv.ParseInt(args[0], 10, 64)
	max, e2 := strconv.ParseInt(args[1], 10, 64)
	l, ok := parseIdOps(args[2])
	if e1 != nil || e2 != nil || !ok || min > max {
		return skip
	}
	g := uePolicyContainer.NewGenerator(min, max)
	live := map[int64]bool{}
	check := func(i int, what string, id int64, err error) string {
		if err != nil {
			if what == "Allocate" && int64(len(live)) != max-min+1 {
				return fmt.Sprintf("FAIL op %d: Allocate failed although only %d of %d identifiers are live", i, len(live), max-min+1)
			}
			return ""
		}
		if id < min || id > max {
			return fmt.Sprintf("FAIL op %d: %s returned %d outside [%d, %d]", i, what, id, min, max)
		}
		if live[id] {
			return fmt.Sprintf("FAIL op %d: %s returned %d which is still live", i, what, id)
		}
		live[id] = true
		return ""
	}
	for i, o := range l {
		switch o.k {
		case "a":
			id, err := g.Allocate()
			if r := check(i, "Allocate", id, err); r != "" {
				return r
			}
		case "r":
			id, err := g.Allocate_inRange(o.a, o.b)
			if r := check(i, "Allocate_inRange", id, err); r != "" {
				return r
			}
		case "f":
			g.FreeID(o.a)
			delete(live, o.a)
			// a freed identifier becomes allocatable again: keep allocating (on this allocator, at the end of the
			// history only, so as not to disturb it) is checked below for the last free
		}
	}
	// after the history: every non-live identifier must be obtainable by repeated plain allocation
	free := max - min + 1 - int64(len(live))
	got := map[int64]bool{}
	for k := int64(0); k < free; k++ {
		id, err := g.Allocate()
		if err != nil {
			return fmt.Sprintf("FAIL after the history: Allocate failed with %d identifiers still free", free-k)
		}
		if id < min || id > max || live[id] || got[id] {
			return fmt.Sprintf("FAIL after the history: Allocate returned %d (live or out of range)", id)
		}
		got[id] = true
	}
	if _, err := g.Allocate(); err == nil {
		return "FAIL after the history: Allocate succeeded although every identifier is live"
	}
	return "pass"
}

func genIdgen(g *Gen, w *bufio.Writer) {
	emit := func(min, max int64, ops []string) {
		fmt.Fprintf(w, "idg %d %d %s\n", min, max, strings.Join(ops, ";"))
	}
	// exhaustive small histories: ranges of size 1..3 (thorough 1..4), depth <= 5 (thorough 6)
	maxSize, depth := int64(3), 5
	if g.Tier == "thorough" {
		maxSize, depth = 4, 6
	}
	for _, min := range []int64{0, 1, 7} {
		for size := int64(1); size <= maxSize; size++ {
			max := min + size - 1
			var alphabet []string
			alphabet = append(alphabet, "a")
			for id := min - 1; id <= max+1; id++ {
				alphabet = append(alphabet, fmt.Sprintf("f:%d", id))
			}
			if min == 0 {
				for lo := int64(0); lo <= size; lo++ {
					alphabet = append(alphabet, fmt.Sprintf("r:%d:%d", lo, size))
				}
			} else {
				alphabet = append(alphabet, fmt.Sprintf("r:%d:%d", g.Intn(int(size)+1), g.Intn(int(size)+2)))
			}
			var rec func(cur []string)
			rec = func(cur []string) {
				if len(cur) > 0 {
					// sample deeper levels when the alphabet is large
					if len(cur) <= 3 || g.Intn(1+len(alphabet)*len(cur)/4) == 0 || g.Tier == "thorough" && len(cur) <= 4 {
						emit(min, max, cur)
					}
				}
				if len(cur) == depth {
					return
				}
				for _, a := range alphabet {
					if len(cur) >= 3 && g.Intn(3) != 0 && g.Tier != "thorough" {
						continue
					}
					rec(append(append([]string{}, cur...), a))
				}
			}
			rec(nil)
		}
	}
	// long-lived allocators: thousands of allocate / free cycles on small ranges with a positive minimum while the three lowest
	// identifiers stay allocated the whole time (housekeeping that only runs after many operations), then allocation until full
	for i := 0; i < 3; i++ {
		min := int64(3 + g.Intn(7))
		size := int64(12 + g.Intn(30))
		ops := []string{"a", "a", "a"}
		for j := 0; j < 4200+g.Intn(300); j++ {
			ops = append(ops, "a", fmt.Sprintf("f:%d", min+3+int64(g.Intn(int(size)-3))))
		}
		for j := 0; j < int(size)+2; j++ {
			ops = append(ops, "a")
		}
		ops = append(ops, fmt.Sprintf("r:0:%d", 3+g.Intn(4)))
		emit(min, min+size-1, ops)
	}
	// random longer histories on larger ranges
	for i := 0; i < g.N; i++ {
		min := int64(g.Intn(20)) - 5
		size := int64(1 + g.Intn(12))
		max := min + size - 1
		n := 1 + g.Intn(40)
		var ops []string
		for j := 0; j < n; j++ {
			switch g.Intn(6) {
			case 0, 1, 2:
				ops = append(ops, "a")
			case 3:
				ops = append(ops, fmt.Sprintf("r:%d:%d", g.Intn(int(size)+3), g.Intn(int(size)+3)))
			default:
				ops = append(ops, fmt.Sprintf("f:%d", min-1+int64(g.Intn(int(size)+2))))
			}
		}
		emit(min, max, ops)
	}
}
