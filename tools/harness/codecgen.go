package main

import (
	"bufio"
	"bytes"
	"encoding/json"
	"fmt"
	"os"
	"path/filepath"
	"sort"
	"strings"
)

// facts written by tools/extract (this run)
type fGuard struct {
	Kind string `json:"kind"`
	Lo   int    `json:"lo"`
	Hi   int    `json:"hi"`
	L    []int  `json:"l"`
}
type fSlot struct {
	Name    string `json:"name"`
	Type    string `json:"type"`
	LenSize int    `json:"lenSize"`
	Guard   fGuard `json:"guard"`
	Store   string `json:"store"`
	ArrN    int    `json:"arrN"`
	Span    string `json:"span"`
	Alloc   bool   `json:"alloc"`
	Size    int    `json:"size"`
	Iei     int    `json:"iei"`
	Half    bool   `json:"half"`
	HasIei  bool   `json:"hasIei"`
}
type fMsg struct {
	Name       string  `json:"name"`
	DecMan     []fSlot `json:"decMan"`
	DecOpt     []fSlot `json:"decOpt"`
	StructSize int     `json:"structSize"`
}
type fCase struct {
	Const int    `json:"const"`
	Msg   string `json:"msg"`
}
type fDispatch struct {
	Family    string  `json:"family"`
	HeaderLen int     `json:"headerLen"`
	TypeIndex int     `json:"typeIndex"`
	Decode    []fCase `json:"decode"`
	Encode    []fCase `json:"encode"`
}
type fTables struct {
	Messages []fMsg      `json:"messages"`
	Dispatch []fDispatch `json:"dispatch"`
}

// tableSets: the pinned TS 24.501 tables (spec/tables.json) drive generation; if the tables extracted from the
// source on this run differ, they drive a second pass (inputs shaped by what the code now says).
func tableSets(dir string) []*fTables {
	sp := os.Getenv("VERIF_SPEC")
	if sp == "" {
		sp = "/verif/spec"
	}
	spec := loadTables(sp)
	cur := loadTables(dir)
	a, _ := json.Marshal(spec)
	b, _ := json.Marshal(cur)
	if string(a) == string(b) {
		return []*fTables{spec}
	}
	return []*fTables{spec, cur}
}

func loadTables(dir string) *fTables {
	b, err := os.ReadFile(filepath.Join(dir, "tables.json"))
	if err != nil {
		fmt.Fprintln(os.Stderr, "cannot read tables.json:", err)
		os.Exit(2)
	}
	var t fTables
	if err := json.Unmarshal(b, &t); err != nil {
		fmt.Fprintln(os.Stderr, "tables.json:", err)
		os.Exit(2)
	}
	return &t
}

func (t *fTables) msg(name string) *fMsg {
	for i := range t.Messages {
		if t.Messages[i].Name == name {
			return &t.Messages[i]
		}
	}
	return nil
}

func (s *fSlot) typeMax() int {
	switch s.LenSize {
	case 1:
		return 255
	case 2:
		return 65535
	}
	return 0
}

// legal length bounds implied by the guard (and, for array storage read up to Len, by the array)
func (s *fSlot) bounds() (lo, hi int) {
	lo, hi = 0, s.typeMax()
	switch s.Guard.Kind {
	case "range":
		lo, hi = s.Guard.Lo, s.Guard.Hi
	case "min":
		lo = s.Guard.Lo
	case "max":
		hi = s.Guard.Hi
	case "exact":
		lo, hi = s.Guard.Lo, s.Guard.Lo
	}
	return
}

func (s *fSlot) legalLens() []int {
	if s.LenSize == 0 {
		return []int{0}
	}
	if s.Guard.Kind == "oneOf" {
		return s.Guard.L
	}
	lo, hi := s.bounds()
	out := []int{lo}
	if hi > lo {
		out = append(out, hi)
	}
	if hi > lo+1 {
		out = append(out, (lo+hi)/2)
	}
	if hi > lo+2 {
		out = append(out, lo+1)
	}
	return out
}

// interesting (also illegal) declared lengths
func (s *fSlot) probeLens() []int {
	if s.LenSize == 0 {
		return []int{0}
	}
	set := map[int]bool{}
	add := func(v int) {
		if v >= 0 && v <= s.typeMax() {
			set[v] = true
		}
	}
	for _, l := range s.legalLens() {
		add(l - 1)
		add(l)
		add(l + 1)
	}
	add(0)
	add(s.typeMax())
	if s.Store == "arr" {
		add(s.ArrN - 1)
		add(s.ArrN)
		add(s.ArrN + 1)
		add(2*s.ArrN + 1)
	}
	var out []int
	for v := range set {
		out = append(out, v)
	}
	sortInts(out)
	return out
}

func sortInts(a []int) {
	for i := 1; i < len(a); i++ {
		for j := i; j > 0 && a[j] < a[j-1]; j-- {
			a[j], a[j-1] = a[j-1], a[j]
		}
	}
}

// contentLen: number of content octets on the wire for a declared length
func (s *fSlot) contentLen(l int) int {
	switch s.Store {
	case "octet":
		return 1
	case "arr":
		if s.Span == "toLen" {
			return l
		}
		return s.ArrN
	case "buf":
		if s.Alloc {
			return l
		}
		return 0
	}
	return 0
}

type ieVal struct {
	name string
	iei  int
	ln   int
	data []byte // whole storage
}

func (v ieVal) String() string { return fmt.Sprintf("%s=%d:%d:%s", v.name, v.iei, v.ln, hexs(v.data)) }

// render one element to the wire per its table entry (independent of the library)
func (s *fSlot) render(v ieVal, optional bool) []byte {
	var out []byte
	if optional && s.Half {
		return append(out, v.data...)
	}
	if optional {
		out = append(out, byte(v.iei))
	}
	switch s.LenSize {
	case 1:
		out = append(out, byte(v.ln))
	case 2:
		out = append(out, byte(v.ln>>8), byte(v.ln))
	}
	if s.Store == "arr" && s.Span == "toLen" {
		n := v.ln
		if n > len(v.data) {
			n = len(v.data)
		}
		return append(out, v.data[:n]...)
	}
	return append(out, v.data...)
}

// random well-formed value for a slot with declared length l
func (s *fSlot) value(g *Gen, l int, optional bool) ieVal {
	v := ieVal{name: s.Name, ln: l}
	if optional && s.Half {
		v.ln = 0
		v.data = []byte{byte(s.Iei<<4) | byte(g.Intn(16))}
		if g.Intn(8) == 0 { // the below-0x80 form that the decoder also dispatches to this element
			v.data = []byte{byte(s.Iei)}
		}
		return v
	}
	if optional && s.HasIei {
		v.iei = s.Iei
	}
	switch s.Store {
	case "octet":
		v.data = g.Bytes(1)
		if g.Intn(4) == 0 {
			v.data[0] = smallAlphabet[g.Intn(len(smallAlphabet))]
		}
	case "arr":
		v.data = make([]byte, s.ArrN)
		n := s.ArrN
		if s.Span == "toLen" {
			n = l
		}
		copy(v.data, g.Content(n))
	case "buf":
		if s.Alloc {
			v.data = g.Content(l)
		}
	}
	return v
}

func (g *Gen) pickLegal(s *fSlot) int {
	ls := s.legalLens()
	if s.LenSize > 0 && s.Guard.Kind != "oneOf" && g.Intn(3) == 0 {
		lo, hi := s.bounds()
		if hi > lo+300 && g.Intn(4) != 0 {
			hi = lo + 300
		}
		return lo + g.Intn(hi-lo+1)
	}
	l := ls[g.Intn(len(ls))]
	if l > 2000 && g.Intn(24) != 0 {
		// huge legal lengths are exercised, but rarely: they dominate run time without adding branches
		lo, _ := s.bounds()
		l = lo + g.Intn(64)
	}
	return l
}

type famInfo struct {
	d    *fDispatch
	name string
}

// header octets for message m of a family: first headerLen mandatory octets with the type octet set
func mandatory(g *Gen, m *fMsg, typ int, typeIndex int, epd int) []ieVal {
	return mandatoryL(g, m, typ, typeIndex, epd, false)
}

func mandatoryL(g *Gen, m *fMsg, typ int, typeIndex int, epd int, small bool) []ieVal {
	var vals []ieVal
	for i := range m.DecMan {
		s := &m.DecMan[i]
		l := g.pickLegal(s)
		if small {
			lo, hi := s.bounds()
			if s.LenSize > 0 && s.Guard.Kind != "oneOf" {
				l = lo + g.Intn(min(hi-lo, 6)+1)
			}
		}
		v := s.value(g, l, false)
		if i == 0 && epd >= 0 {
			v.data = []byte{byte(epd)}
		}
		if i == typeIndex && typ >= 0 {
			v.data = []byte{byte(typ)}
		}
		vals = append(vals, v)
	}
	return vals
}

func renderMsg(m *fMsg, man []ieVal, opt []*ieVal) []byte {
	var out []byte
	for i := range man {
		out = append(out, m.DecMan[i].render(man[i], false)...)
	}
	for i, v := range opt {
		if v != nil {
			out = append(out, m.DecOpt[i].render(*v, true)...)
		}
	}
	return out
}

func fieldsStr(man []ieVal, opt []*ieVal) string {
	var parts []string
	for _, v := range man {
		parts = append(parts, v.String())
	}
	for _, v := range opt {
		if v != nil {
			parts = append(parts, v.String())
		}
	}
	if len(parts) == 0 {
		return "-"
	}
	return strings.Join(parts, ";")
}

func epdOf(fam string) int {
	if fam == "gmm" {
		return 0x7e
	}
	return 0x2e
}

func init() {
	gens["codec-dec"] = genCodecDec
	gens["codec-enc"] = genCodecEnc
	gens["dispatch"] = genDispatch
}

// table-driven decode inputs: every message x slot x probe length x truncation points, plus malformed streams
func genCodecDec(g *Gen, w *bufio.Writer) {
	for _, t := range tableSets(g.Facts) {
		if len(g.Focus) > 0 {
			genCodecDecFocus(g, w, t)
			continue
		}
		genCodecDecT(g, w, t)
	}
}

func genCodecDecT(g *Gen, w *bufio.Writer, t *fTables) {
	emit := func(entry string, b []byte) { fmt.Fprintf(w, "dec %s %s\n", entry, hexs(b)) }
	bases := map[string][][]byte{} // family -> one valid message per type, for the recycled-Message pairs below
	defer func() {
		fams := make([]string, 0, len(bases))
		for f := range bases {
			fams = append(fams, f)
		}
		sort.Strings(fams)
		for _, f := range fams {
			bs := bases[f]
			for i := range bs {
				a, b := bs[i], bs[(i+1)%len(bs)]
				if len(a) < 2 || len(b) < 2 {
					continue // a message the translator could not read on this run has no table
				}
				c := bs[g.Intn(len(bs))]
				fmt.Fprintf(w, "dec2 plain %s %s\n", hexs(a), hexs(b))
				fmt.Fprintf(w, "dec2 %s %s %s\n", f, hexs(b), hexs(a))
				fmt.Fprintf(w, "dec2 plain %s %s\n", hexs(c), hexs(a))
				fmt.Fprintf(w, "dec2 plain %s %s\n", hexs(a[:len(a)-1]), hexs(b)) // failed decode, then a good one
				// the other family first (complete, and cut inside its header), then this message: must return
				for _, of := range fams {
					if of != f && len(bases[of]) > 0 {
						o := bases[of][g.Intn(len(bases[of]))]
						fmt.Fprintf(w, "dec2x %s %s\n", hexs(o), hexs(a))
						fmt.Fprintf(w, "dec2x %s %s\n", hexs(o[:2]), hexs(a))
						fmt.Fprintf(w, "dec2x %s %s\n", hexs(o), hexs(a[:min(len(a), 3)]))
					}
				}
				fmt.Fprintf(w, "dec2 plain %s %s\n", hexs(a), hexs(b[:1+g.Intn(len(b))])) // good one, then a truncated one
			}
		}
	}()
	fmt.Fprintln(w, "dec plain nil")
	fmt.Fprintln(w, "dec plain -")
	for _, d := range t.Dispatch {
		fam := d.Family
		for _, c := range d.Decode {
			m := t.msg(c.Msg)
			if m == nil {
				continue
			}
			man := mandatoryL(g, m, c.Const, d.TypeIndex, epdOf(fam), true)
			base := renderMsg(m, man, nil)
			if len(base) >= 2 {
				bases[fam] = append(bases[fam], base)
			}
			// every truncation of the mandatory part
			for k := 0; k <= len(base); k++ {
				emit("plain", base[:k])
			}
			emit(fam, base)
			// mandatory LV slots: probe lengths
			for i := range m.DecMan {
				s := &m.DecMan[i]
				if s.LenSize == 0 {
					continue
				}
				for _, l := range s.probeLens() {
					if l > 3000 && g.Tier != "thorough" && g.Intn(8) != 0 {
						continue
					}
					mv := append([]ieVal{}, man...)
					mv[i] = s.value(g, l, false)
					b := renderMsg(m, mv, nil)
					emit("plain", b)
					if len(b) > 2 {
						emit("plain", b[:len(b)-1])
					}
				}
			}
			// optional slots
			for i := range m.DecOpt {
				s := &m.DecOpt[i]
				for _, l := range s.probeLens() {
					if l > 3000 && g.Tier != "thorough" && g.Intn(8) != 0 {
						// a declared large length with little following is still emitted (cheap)
						emit("plain", append(append(append([]byte{}, base...), byte(s.Iei), byte(l>>8), byte(l)), g.Bytes(g.Intn(5))...))
						continue
					}
					v := s.value(g, l, true)
					if s.Store == "arr" && s.Span == "toLen" && l > s.ArrN {
						v.data = g.Bytes(l)
					}
					enc := s.render(v, true)
					if s.Store == "arr" && s.Span == "toLen" && l > s.ArrN {
						enc = append(enc[:1+s.LenSize], v.data...)
					}
					b := append(append([]byte{}, base...), enc...)
					emit("plain", b)
					// truncation points inside the element (all if short, sampled otherwise)
					if len(enc) <= 24 || g.Tier == "thorough" && len(enc) <= 300 {
						for k := 1; k < len(enc); k++ {
							emit("plain", b[:len(base)+k])
						}
					} else {
						for _, k := range []int{1, 1 + s.LenSize, 2 + s.LenSize, len(enc) / 2, len(enc) - 1} {
							if k > 0 && k < len(enc) {
								emit("plain", b[:len(base)+k])
							}
						}
					}
					// followed by another element / junk
					emit("plain", append(append([]byte{}, b...), g.Bytes(1+g.Intn(3))...))
				}
			}
			// the same element header again and again with a declared length just above its maximum, at the type's maximum and
			// (two-octet lengths) in between, nothing behind it: the first one is an error; a decoder that carries on instead
			// allocates for every repetition
			for i := range m.DecOpt {
				s := &m.DecOpt[i]
				if s.Half || s.LenSize == 0 || s.Store != "buf" {
					continue
				}
				_, hi := s.bounds()
				for _, l := range []int{hi + 1, s.typeMax(), (hi + 1 + s.typeMax()) / 2} {
					if l > s.typeMax() || l <= hi {
						continue
					}
					hd := []byte{byte(s.Iei)}
					if s.LenSize == 2 {
						hd = append(hd, byte(l>>8), byte(l))
					} else {
						hd = append(hd, byte(l))
					}
					reps := 64
					if g.Tier == "thorough" || i%4 == 0 {
						reps = (69000 - len(base)) / len(hd)
					}
					emit("plain", append(append([]byte{}, base...), bytes.Repeat(hd, reps)...))
				}
			}
			// reordered / duplicated / unknown optional elements
			for r := 0; r < 6; r++ {
				b := append([]byte{}, base...)
				k := 1 + g.Intn(5)
				for j := 0; j < k && len(m.DecOpt) > 0; j++ {
					s := &m.DecOpt[g.Intn(len(m.DecOpt))]
					b = append(b, s.render(s.value(g, g.pickLegal(s), true), true)...)
					if g.Intn(4) == 0 {
						b = append(b, byte(g.Intn(256)))
					}
				}
				emit("plain", b)
			}
		}
	}
	// the envelope and all codecs called directly
	for i := range t.Messages {
		m := &t.Messages[i]
		man := mandatoryL(g, m, -1, -1, -1, true)
		base := renderMsg(m, man, nil)
		emit(m.Name, base)
		// the same struct decoded into twice: mandatory parts with different lengths and contents, longer first and shorter first
		for k := 0; k < 3; k++ {
			m1 := renderMsg(m, mandatoryL(g, m, -1, -1, -1, k != 0), nil)
			m2 := renderMsg(m, mandatoryL(g, m, -1, -1, -1, true), nil)
			if len(m1) >= 1 && len(m2) >= 1 {
				fmt.Fprintf(w, "dec2 %s %s %s\n", m.Name, hexs(m1), hexs(m2))
				fmt.Fprintf(w, "dec2 %s %s %s\n", m.Name, hexs(m2), hexs(m1))
			}
		}
		for k := 0; k < len(base); k++ {
			emit(m.Name, base[:k])
		}
		emit(m.Name, append(append([]byte{}, base...), g.Bytes(1+g.Intn(6))...))
	}
	// malformed stream: random bytes behind a valid header; random edits of valid encodings
	for i := 0; i < g.N; i++ {
		d := &t.Dispatch[g.Intn(len(t.Dispatch))]
		c := d.Decode[g.Intn(len(d.Decode))]
		m := t.msg(c.Msg)
		var b []byte
		switch g.Intn(3) {
		case 0:
			hdr := make([]byte, d.HeaderLen)
			copy(hdr, g.Bytes(d.HeaderLen))
			hdr[0] = byte(epdOf(d.Family))
			hdr[d.TypeIndex] = byte(c.Const)
			b = append(hdr, g.Bytes(g.Intn(40))...)
		default:
			man := mandatory(g, m, c.Const, d.TypeIndex, epdOf(d.Family))
			opt := make([]*ieVal, len(m.DecOpt))
			for j := range m.DecOpt {
				if g.Intn(3) == 0 {
					s := &m.DecOpt[j]
					v := s.value(g, g.pickLegal(s), true)
					opt[j] = &v
				}
			}
			b = renderMsg(m, man, opt)
			for e := g.Intn(4); e > 0 && len(b) > 0; e-- {
				switch g.Intn(3) {
				case 0:
					b[g.Intn(len(b))] = byte(g.Intn(256))
				case 1:
					b = b[:g.Intn(len(b)+1)]
				case 2:
					p := g.Intn(len(b) + 1)
					b = append(b[:p], append(g.Bytes(1), b[p:]...)...)
				}
			}
		}
		emit("plain", b)
	}
	// long inputs
	if true {
		for _, d := range t.Dispatch {
			for _, c := range d.Decode {
				m := t.msg(c.Msg)
				for i := range m.DecOpt {
					s := &m.DecOpt[i]
					if s.LenSize != 2 {
						continue
					}
					man := mandatoryL(g, m, c.Const, d.TypeIndex, epdOf(d.Family), true)
					base := renderMsg(m, man, nil)
					// declared 0xFFFF with nothing following; and a maximal element
					emit("plain", append(append([]byte{}, base...), byte(s.Iei), 0xff, 0xff))
					_, hi := s.bounds()
					if g.Tier == "thorough" || i == 0 {
						v := s.value(g, hi, true)
						emit("plain", append(append([]byte{}, base...), s.render(v, true)...))
					}
				}
			}
		}
		// a maximal run of unknown IEIs / repeated half octets
		b := []byte{0x7e, 0x00, 0x44, 0x01}
		for i := 0; i < 70000; i++ {
			b = append(b, 0x01)
		}
		emit("plain", b)
	}
}

// well-formed messages: enc lines (fields) + the table-rendered wire bytes as dec / rt4 / canon lines
func genCodecEnc(g *Gen, w *bufio.Writer) {
	for _, t := range tableSets(g.Facts) {
		if len(g.Focus) > 0 {
			genCodecEncFocus(g, w, t)
			continue
		}
		genCodecEncT(g, w, t)
	}
}

func genCodecEncT(g *Gen, w *bufio.Writer, t *fTables) {
	lastWire := map[string][]byte{}
	one := func(fam string, d *fDispatch, c fCase, m *fMsg, present func(j int) bool) {
		typ, ti, epd := -1, -1, -1
		if d != nil {
			typ, ti, epd = c.Const, d.TypeIndex, epdOf(fam)
		}
		man := mandatory(g, m, typ, ti, epd)
		opt := make([]*ieVal, len(m.DecOpt))
		for j := range m.DecOpt {
			if present(j) {
				s := &m.DecOpt[j]
				v := s.value(g, g.pickLegal(s), true)
				opt[j] = &v
			}
		}
		wire := renderMsg(m, man, opt)
		hdr := "-"
		if d != nil {
			hdr = hexs(wire[:d.HeaderLen])
			if prev, ok := lastWire[fam]; ok && g.Intn(6) == 0 && len(prev) < 4000 && len(wire) < 4000 {
				fmt.Fprintf(w, "dec2 plain %s %s\n", hexs(prev), hexs(wire)) // a recycled Message in a receive loop
			}
			lastWire[fam] = wire
		}
		fmt.Fprintf(w, "enc %s hdr=%s %s %s\n", fam, hdr, m.Name, fieldsStr(man, opt))
		if d != nil && g.Intn(5) == 0 {
			// the usual caller-built message: only the message type is set in the header view, the other header octets live in
			// the body (not well-formed in C02's sense, so only purity and the model correspondence judge it)
			h := make([]byte, d.HeaderLen)
			h[d.TypeIndex] = wire[d.TypeIndex]
			fmt.Fprintf(w, "enc %s hdr=%s %s %s\n", fam, hexs(h), m.Name, fieldsStr(man, opt))
		}
		if d != nil && g.Intn(12) == 0 && len(d.Decode) > 1 {
			// the header view names another known type than the body attached (ill-formed; an encoder that fails or panics on it
			// must still leave the caller's buffer and the message alone)
			h := append([]byte{}, wire[:d.HeaderLen]...)
			other := d.Decode[g.Intn(len(d.Decode))].Const
			if byte(other) != h[d.TypeIndex] {
				h[d.TypeIndex] = byte(other)
				fmt.Fprintf(w, "enc %s hdr=%s %s %s\n", fam, hexs(h), m.Name, fieldsStr(man, opt))
			}
		}
		if d != nil && g.Intn(6) == 0 {
			// a stored Len that does not match the contents of a buffer-backed element (contents assigned directly, Len stale): not
			// well formed in C02's sense; the encoders write what is stored, and must leave the message as it is
			if sm, so, ok := staleLenMsg(g, m, man, opt); ok {
				fmt.Fprintf(w, "enc %s hdr=%s %s %s\n", fam, hdr, m.Name, fieldsStr(sm, so))
			}
		}
		if d != nil {
			fmt.Fprintf(w, "canon %s\n", hexs(wire))
			fmt.Fprintf(w, "dec plain %s\n", hexs(wire))
		} else {
			fmt.Fprintf(w, "dec %s %s\n", m.Name, hexs(wire))
		}
	}
	// "remaining octets" wrap-arounds: a decoder that compares an element's length with the number of octets left must do so in
	// full width. For every lengthed optional element i: a well-formed message in which the octets that follow i's length field
	// number exactly 256, 256 + L_i - 1 or 512 (one later element stretched to fit), so that a count narrowed to 8 bits is
	// smaller than L_i although everything is present.
	wraps := func(fam string, d *fDispatch, c fCase, m *fMsg) {
		wrapMessages(g, m, c.Const, d.TypeIndex, epdOf(fam), []int{256, -256, 512, 65536, -65536}, func(man []ieVal, opt []*ieVal) {
			wire := renderMsg(m, man, opt)
			fmt.Fprintf(w, "enc %s hdr=%s %s %s\n", fam, hexs(wire[:d.HeaderLen]), m.Name, fieldsStr(man, opt))
			fmt.Fprintf(w, "canon %s\n", hexs(wire))
			fmt.Fprintf(w, "dec plain %s\n", hexs(wire))
		})
	}
	for _, d := range t.Dispatch {
		d := d
		for _, c := range d.Decode {
			m := t.msg(c.Msg)
			if m == nil {
				continue
			}
			k := len(m.DecOpt)
			wraps(d.Family, &d, c, m)
			one(d.Family, &d, c, m, func(int) bool { return false })
			one(d.Family, &d, c, m, func(int) bool { return true })
			for j := 0; j < k; j++ {
				jj := j
				one(d.Family, &d, c, m, func(x int) bool { return x == jj })
				one(d.Family, &d, c, m, func(x int) bool { return x != jj })
			}
			if k <= 6 || (g.Tier == "thorough" && k <= 10) {
				for mask := 0; mask < 1<<k; mask++ {
					mm := mask
					one(d.Family, &d, c, m, func(x int) bool { return mm>>x&1 == 1 })
				}
			}
			reps := g.N / 50
			if reps < 4 {
				reps = 4
			}
			for r := 0; r < reps; r++ {
				one(d.Family, &d, c, m, func(int) bool { return g.Intn(2) == 0 })
			}
		}
	}
	// constant fills (00.., ff..) of every lengthed element at every legal length: content-dependent handling of reserved / "not
	// present" codings (an all-ones SD, a zero length indicator) is invisible to random content
	for di := range t.Dispatch {
		d := &t.Dispatch[di]
		for _, c := range d.Decode {
			m := t.msg(c.Msg)
			if m == nil {
				continue
			}
			nMan := len(m.DecMan)
			for i := 0; i < nMan+len(m.DecOpt); i++ {
				o := i >= nMan
				var s *fSlot
				if o {
					s = &m.DecOpt[i-nMan]
				} else {
					s = &m.DecMan[i]
				}
				if !lengthed(s) {
					continue
				}
				for _, l := range s.legalLens() {
					if l > 300 {
						continue
					}
					for _, f := range []byte{0x00, 0xff} {
						cont := make([]byte, l)
						for k := range cont {
							cont[k] = f
						}
						man := mandatoryL(g, m, c.Const, d.TypeIndex, epdOf(d.Family), true)
						opt := make([]*ieVal, len(m.DecOpt))
						v := s.withContent(cont, o)
						if o {
							opt[i-nMan] = &v
						} else {
							man[i] = v
						}
						wire := renderMsg(m, man, opt)
						fmt.Fprintf(w, "enc %s hdr=%s %s %s\n", d.Family, hexs(wire[:d.HeaderLen]), m.Name, fieldsStr(man, opt))
						fmt.Fprintf(w, "canon %s\n", hexs(wire))
						fmt.Fprintf(w, "dec plain %s\n", hexs(wire))
					}
				}
			}
		}
	}
	for i := range t.Messages {
		m := &t.Messages[i]
		for r := 0; r < 4; r++ {
			one("msg", nil, fCase{}, m, func(int) bool { return g.Intn(2) == 0 })
		}
	}
}

// wrapMessages builds, for every lengthed optional element i of m, well-formed messages in which the octets that follow i's
// length field number exactly T (targets > 0) or |T| + L_i - 1 (targets < 0), by stretching later elements; see genCodecEncT.
func wrapMessages(g *Gen, m *fMsg, typ, ti, epd int, targets []int, emit func(man []ieVal, opt []*ieVal)) {
	for i := range m.DecOpt {
		si := &m.DecOpt[i]
		if si.Half || si.LenSize == 0 {
			continue
		}
		loI, hiI := si.bounds()
		lens := []int{loI}
		if si.Guard.Kind == "oneOf" {
			lens = si.Guard.L
		} else if hiI > loI {
			lens = append(lens, min(hiI, loI+7))
		}
		for _, li := range lens {
			if li == 0 {
				continue
			}
			for _, tg := range targets {
				extra := tg
				if tg < 0 {
					extra = -tg + li - 1
				}
				man := mandatory(g, m, typ, ti, epd)
				opt := make([]*ieVal, len(m.DecOpt))
				vi := si.value(g, li, true)
				opt[i] = &vi
				rest := li
				for j := i + 1; j < len(m.DecOpt); j++ {
					sj := &m.DecOpt[j]
					lj := 0
					if sj.LenSize > 0 {
						lo, hi := sj.bounds()
						if sj.Guard.Kind == "oneOf" {
							lj = sj.Guard.L[0]
						} else {
							lj = lo + g.Intn(min(hi-lo, 4)+1)
						}
					}
					v := sj.value(g, lj, true)
					opt[j] = &v
					rest += len(sj.render(v, true))
				}
				if rest > extra {
					continue
				}
				done := rest == extra
				for j := len(m.DecOpt) - 1; j > i && !done; j-- {
					sj := &m.DecOpt[j]
					if sj.Half || sj.LenSize == 0 || sj.Guard.Kind == "oneOf" || sj.Store != "buf" || !sj.Alloc {
						continue
					}
					_, hi := sj.bounds()
					add := extra - rest
					if opt[j].ln+add > hi {
						add = hi - opt[j].ln // stretch this one as far as it goes, the next one takes the remainder
					}
					if add > 0 {
						v := sj.value(g, opt[j].ln+add, true)
						opt[j] = &v
						rest += add
					}
					done = rest == extra
				}
				if done {
					emit(man, opt)
				}
			}
		}
	}
}

// exhaustive (discriminator, message type) pairs at both header offsets + all short inputs
func genDispatch(g *Gen, w *bufio.Writer) {
	for _, t := range tableSets(g.Facts) {
		genDispatchT(g, w, t)
	}
}

func genDispatchT(g *Gen, w *bufio.Writer, t *fTables) {
	// minimal valid bodies per (family, type)
	body := map[string][]byte{}
	for _, d := range t.Dispatch {
		for _, c := range d.Decode {
			m := t.msg(c.Msg)
			if m == nil {
				continue
			}
			man := mandatory(g, m, c.Const, d.TypeIndex, epdOf(d.Family))
			body[fmt.Sprintf("%s/%d", d.Family, c.Const)] = renderMsg(m, man, nil)
		}
	}
	generic := g.Bytes(24)
	for epd := 0; epd < 256; epd++ {
		for typ := 0; typ < 256; typ++ {
			for _, d := range t.Dispatch {
				b, ok := body[fmt.Sprintf("%s/%d", d.Family, typ)]
				if ok {
					b = append([]byte{}, b...)
				} else {
					b = append([]byte{}, generic...)
				}
				b[0] = byte(epd)
				b[d.TypeIndex] = byte(typ)
				fmt.Fprintf(w, "dec plain %s\n", hexs(b))
				if epd == epdOf(d.Family) || epd%37 == 0 {
					fmt.Fprintf(w, "dec %s %s\n", d.Family, hexs(b))
				}
			}
		}
	}
	// a recycled Message: every ordered pair of message types of one family decoded into the same Message (plus an unknown type
	// and a header-only input in second place): exactly the body named by the second input
	for _, d := range t.Dispatch {
		var keys []int
		for _, c := range d.Decode {
			if _, ok := body[fmt.Sprintf("%s/%d", d.Family, c.Const)]; ok {
				keys = append(keys, c.Const)
			}
		}
		sort.Ints(keys)
		for _, x := range keys {
			bx := body[fmt.Sprintf("%s/%d", d.Family, x)]
			if len(bx) < d.HeaderLen {
				continue
			}
			for _, y := range keys {
				by := body[fmt.Sprintf("%s/%d", d.Family, y)]
				if x == y && g.Tier != "thorough" {
					continue
				}
				fmt.Fprintf(w, "dec2 plain %s %s\n", hexs(bx), hexs(by))
				if g.Intn(8) == 0 {
					fmt.Fprintf(w, "dec2 %s %s %s\n", d.Family, hexs(bx), hexs(by))
				}
			}
			unk := append([]byte{}, bx...)
			unk[d.TypeIndex] = 0xff
			fmt.Fprintf(w, "dec2 plain %s %s\n", hexs(bx), hexs(unk))
			fmt.Fprintf(w, "dec2 plain %s %s\n", hexs(bx), hexs(bx[:d.HeaderLen-1]))
		}
	}
	// all inputs of length 0..2, and length 3..4 behind both discriminators
	fmt.Fprintln(w, "dec plain nil")
	fmt.Fprintln(w, "dec plain -")
	for a := 0; a < 256; a++ {
		fmt.Fprintf(w, "dec plain %02x\n", a)
		for _, e := range []int{0x7e, 0x2e} {
			fmt.Fprintf(w, "dec plain %02x%02x\n", e, a)
			fmt.Fprintf(w, "dec gmm %02x%02x\n", e, a)
			fmt.Fprintf(w, "dec gsm %02x%02x\n", e, a)
			for b := 0; b < 256; b += 1 {
				fmt.Fprintf(w, "dec plain %02x%02x%02x\n", e, a, b)
				if a%16 == 0 {
					fmt.Fprintf(w, "dec plain %02x%02x%02x%02x\n", e, g.Intn(256), a, b)
				}
			}
		}
	}
	// encode dispatch: every type x (body present / absent / other body) through enc lines
	for _, d := range t.Dispatch {
		for typ := 0; typ < 256; typ++ {
			for _, c := range d.Decode {
				if c.Const != typ && g.Intn(40) != 0 {
					continue
				}
				m := t.msg(c.Msg)
				man := mandatory(g, m, c.Const, d.TypeIndex, epdOf(d.Family))
				wire := renderMsg(m, man, nil)
				hdr := append([]byte{}, wire[:d.HeaderLen]...)
				hdr[d.TypeIndex] = byte(typ)
				fmt.Fprintf(w, "enc %s hdr=%s %s %s\n", d.Family, hexs(hdr), m.Name, fieldsStr(man, nil))
			}
		}
	}
	// a recycled Message: the body of another message of the family is still attached (before and behind the named body in the
	// family struct); the header's message type decides
	for _, d := range t.Dispatch {
		for i, c := range d.Decode {
			m := t.msg(c.Msg)
			if m == nil {
				continue
			}
			for _, oi := range []int{(i + 1) % len(d.Decode), (i + len(d.Decode) - 1) % len(d.Decode), g.Intn(len(d.Decode))} {
				oc := d.Decode[oi]
				om := t.msg(oc.Msg)
				if om == nil || oc.Msg == c.Msg {
					continue
				}
				man := mandatory(g, m, c.Const, d.TypeIndex, epdOf(d.Family))
				oman := mandatory(g, om, oc.Const, d.TypeIndex, epdOf(d.Family))
				wire := renderMsg(m, man, nil)
				fmt.Fprintf(w, "enc2 %s hdr=%s %s %s %s %s\n", d.Family, hexs(wire[:d.HeaderLen]), m.Name, fieldsStr(man, nil), om.Name, fieldsStr(oman, nil))
			}
		}
	}
	// a header that names no known type although a body is attached (all-zero header, zero type, zero discriminator): an error,
	// whatever the body says about itself
	for _, d := range t.Dispatch {
		for _, c := range d.Decode {
			m := t.msg(c.Msg)
			if m == nil {
				continue
			}
			man := mandatory(g, m, c.Const, d.TypeIndex, epdOf(d.Family))
			wire := renderMsg(m, man, nil)
			for v := 0; v < 4; v++ {
				hdr := append([]byte{}, wire[:d.HeaderLen]...)
				switch v {
				case 0:
					for k := range hdr {
						hdr[k] = 0
					}
				case 1:
					hdr[d.TypeIndex] = 0
				case 2:
					hdr[0] = 0
				case 3:
					for k := range hdr {
						hdr[k] = 0
					}
					hdr[0] = byte(epdOf(d.Family))
				}
				fmt.Fprintf(w, "enc %s hdr=%s %s %s\n", d.Family, hexs(hdr), m.Name, fieldsStr(man, nil))
			}
		}
	}
	// a complete message of either family nested in a container element, with every low nibble of the single-octet mandatory
	// elements (container type): exactly the outer body is populated
	bases := allBases(g, t)
	if g.Tier != "thorough" && len(bases) > 6 {
		var few [][]byte
		for k := 0; k < 6; k++ {
			few = append(few, bases[(k*7+g.Intn(3))%len(bases)])
		}
		bases = few
	}
	genEntryFocusDec(g, w, t, bases)
	fmt.Fprintln(w, "encnone")
}

// ---- C04 streams: the same inputs, per message codec, in the spec's vocabulary ----

func init() {
	gens["spec"] = genSpec
}

func genSpec(g *Gen, w *bufio.Writer) {
	for _, t := range tableSets(g.Facts) {
		if len(g.Focus) > 0 {
			bases := allBases(g, t)
			for _, ft := range focusTargets(g, t) {
				m := ft.m
				focusFamilies(g, t, ft, bases, func(man []ieVal, opt []*ieVal) {
					if staleVals(m, man, opt) {
						return
					}
					sm := make([]ieVal, len(man))
					for i := range man {
						sm[i] = specValOf(&m.DecMan[i], man[i])
					}
					so := make([]*ieVal, len(opt))
					for i := range opt {
						if opt[i] != nil {
							v := specValOf(&m.DecOpt[i], *opt[i])
							so[i] = &v
						}
					}
					fmt.Fprintf(w, "senc %s %s\n", m.Name, fieldsStr(sm, so))
					fmt.Fprintf(w, "sdec %s %s\n", m.Name, hexs(renderMsg(m, man, opt)))
				})
			}
			continue
		}
		for _, d := range t.Dispatch {
			for _, c := range d.Decode {
				m := t.msg(c.Msg)
				if m == nil {
					continue
				}
				genSpecMsg(g, w, m, c.Const, d.TypeIndex, epdOf(d.Family))
			}
		}
		if m := t.msg("SecurityProtected5GSNASMessage"); m != nil {
			genSpecMsg(g, w, m, -1, -1, -1)
		}
	}
}

func specValOf(s *fSlot, v ieVal) ieVal {
	if s.LenSize > 0 && s.Store == "arr" && s.Span == "toLen" && v.ln <= len(v.data) {
		v.data = v.data[:v.ln]
	}
	return v
}

func genSpecMsg(g *Gen, w *bufio.Writer, m *fMsg, typ, ti, epd int) {
	specVal := specValOf
	if typ >= 0 {
		wrapMessages(g, m, typ, ti, epd, []int{-256, -65536}, func(man []ieVal, opt []*ieVal) {
			sm := make([]ieVal, len(man))
			for i := range man {
				sm[i] = specVal(&m.DecMan[i], man[i])
			}
			so := make([]*ieVal, len(opt))
			for i := range opt {
				if opt[i] != nil {
					v := specVal(&m.DecOpt[i], *opt[i])
					so[i] = &v
				}
			}
			fmt.Fprintf(w, "senc %s %s\n", m.Name, fieldsStr(sm, so))
			fmt.Fprintf(w, "sdec %s %s\n", m.Name, hexs(renderMsg(m, man, opt)))
		})
	}
	reps := g.N
	for r := 0; r < reps; r++ {
		man := mandatoryL(g, m, typ, ti, epd, r%3 != 0)
		opt := make([]*ieVal, len(m.DecOpt))
		for j := range m.DecOpt {
			if g.Intn(2) == 0 {
				s := &m.DecOpt[j]
				v := s.value(g, g.pickLegal(s), true)
				opt[j] = &v
			}
		}
		wire := renderMsg(m, man, opt)
		// canonical: encode side
		sm := make([]ieVal, len(man))
		for i := range man {
			sm[i] = specVal(&m.DecMan[i], man[i])
		}
		so := make([]*ieVal, len(opt))
		for i := range opt {
			if opt[i] != nil {
				v := specVal(&m.DecOpt[i], *opt[i])
				so[i] = &v
			}
		}
		fmt.Fprintf(w, "senc %s %s\n", m.Name, fieldsStr(sm, so))
		fmt.Fprintf(w, "sdec %s %s\n", m.Name, hexs(wire))
		// non-canonical: shuffled optionals, duplicates, unknown octets, boundary lengths, truncations
		b := renderMsg(m, man, nil)
		k := g.Intn(6)
		for j := 0; j < k && len(m.DecOpt) > 0; j++ {
			s := &m.DecOpt[g.Intn(len(m.DecOpt))]
			l := g.pickLegal(s)
			if g.Intn(5) == 0 {
				pl := s.probeLens()
				l = pl[g.Intn(len(pl))]
				if l > 600 {
					l = g.pickLegal(s)
				}
			}
			v := s.value(g, l, true)
			if s.Store == "arr" && s.Span == "toLen" && l > s.ArrN {
				continue
			}
			b = append(b, s.render(v, true)...)
			if g.Intn(5) == 0 {
				b = append(b, byte(g.Intn(256)))
			}
		}
		if g.Intn(3) == 0 && len(b) > 0 {
			b = b[:g.Intn(len(b)+1)]
		}
		fmt.Fprintf(w, "sdec %s %s\n", m.Name, hexs(b))
	}
}

// staleLenMsg: a copy of the message in which one present buffer-backed lengthed element declares another length than its contents have
func staleLenMsg(g *Gen, m *fMsg, man []ieVal, opt []*ieVal) ([]ieVal, []*ieVal, bool) {
	sm := append([]ieVal{}, man...)
	so := make([]*ieVal, len(opt))
	var cand []int
	for i := range m.DecMan {
		if m.DecMan[i].Store == "buf" && m.DecMan[i].LenSize > 0 {
			cand = append(cand, i)
		}
	}
	for j := range opt {
		if opt[j] != nil {
			v := *opt[j]
			so[j] = &v
			if m.DecOpt[j].Store == "buf" && m.DecOpt[j].LenSize > 0 {
				cand = append(cand, len(man)+j)
			}
		}
	}
	if len(cand) == 0 {
		return nil, nil, false
	}
	k := cand[g.Intn(len(cand))]
	bump := func(v *ieVal, lenSize int) {
		max := 1<<uint(8*lenSize) - 1
		n := v.ln + []int{1, 2, -1, 7}[g.Intn(4)]
		if n < 0 || n > max || n == v.ln {
			n = (v.ln + 1) % (max + 1)
		}
		v.ln = n
	}
	if k < len(man) {
		bump(&sm[k], m.DecMan[k].LenSize)
	} else {
		bump(so[k-len(man)], m.DecOpt[k-len(man)].LenSize)
	}
	return sm, so, true
}
