package main

import (
	"bufio"
	"encoding/json"
	"fmt"
	"os"
	"path/filepath"
	"reflect"
	"sort"
	"strconv"
)

var nasTypeRegistry = map[string]func() interface{}{}

func init() {
	ops["acc"] = opAcc
	ops["accr"] = opAccR
	oracles["C09"] = oracleC09
	gens["acc"] = genAcc
}

func setContents(v reflect.Value, c []byte) bool {
	if o := v.FieldByName("Octet"); o.IsValid() {
		if o.Kind() == reflect.Uint8 {
			if len(c) != 1 {
				return false
			}
			o.SetUint(uint64(c[0]))
			return true
		}
		if len(c) != o.Len() {
			return false
		}
		for i := range c {
			o.Index(i).SetUint(uint64(c[i]))
		}
		return true
	}
	if b := v.FieldByName("Buffer"); b.IsValid() {
		b.SetBytes(append([]byte{}, c...))
		return true
	}
	return false
}

func getContents(v reflect.Value) []byte {
	if o := v.FieldByName("Octet"); o.IsValid() {
		if o.Kind() == reflect.Uint8 {
			return []byte{byte(o.Uint())}
		}
		out := make([]byte, o.Len())
		for i := range out {
			out[i] = byte(o.Index(i).Uint())
		}
		return out
	}
	if b := v.FieldByName("Buffer"); b.IsValid() {
		return append([]byte{}, b.Bytes()...) // a snapshot, never the slice itself
	}
	return nil
}

func ieiLen(v reflect.Value) (uint64, uint64) {
	var i, l uint64
	if f := v.FieldByName("Iei"); f.IsValid() {
		i = f.Uint()
	}
	if f := v.FieldByName("Len"); f.IsValid() {
		l = f.Uint()
	}
	return i, l
}

type accRun struct {
	get0, get1 uint64
	after      []byte
	iei0, len0 uint64
	iei1, len1 uint64
}

func runAcc(typ, field string, contents []byte, val uint64) (*accRun, bool) {
	mk, ok := nasTypeRegistry[typ]
	if !ok {
		return nil, false
	}
	pv := reflect.ValueOf(mk())
	v := pv.Elem()
	if !setContents(v, contents) {
		return nil, false
	}
	if f := v.FieldByName("Iei"); f.IsValid() {
		f.SetUint(0x5a)
	}
	if f := v.FieldByName("Len"); f.IsValid() {
		f.SetUint(uint64(len(contents)))
		if o := v.FieldByName("Octet"); o.IsValid() && o.Kind() == reflect.Array && len(contents) > 0 {
			f.SetUint(uint64(int(contents[0]^contents[len(contents)-1]) % (len(contents) + 1)))
		}
	}
	g, s := pv.MethodByName("Get"+field), pv.MethodByName("Set"+field)
	if !g.IsValid() || !s.IsValid() {
		return nil, false
	}
	r := &accRun{}
	r.iei0, r.len0 = ieiLen(v)
	r.get0 = g.Call(nil)[0].Uint()
	arg := reflect.New(s.Type().In(0)).Elem()
	arg.SetUint(val) // truncates like a Go conversion would not: caller passes in-range values
	s.Call([]reflect.Value{arg})
	r.after = getContents(v)
	r.get1 = g.Call(nil)[0].Uint()
	r.iei1, r.len1 = ieiLen(v)
	return r, true
}

// acc <Type> <Field> <contents> <value>
func opAcc(args []string) string {
	if len(args) != 4 {
		return "bad-op"
	}
	c, ok := unhex(args[2])
	val, err := strconv.ParseUint(args[3], 10, 64)
	if !ok || err != nil {
		return "bad-op"
	}
	r, ok := runAcc(args[0], args[1], c, val)
	if !ok {
		return "bad-op"
	}
	return fmt.Sprintf("ok %d %s %d", r.get0, hexs(r.after), r.get1)
}

func runAccR(typ, field string, contents, val []byte) (get0, after, get1 []byte, il [4]uint64, ok bool) {
	get0, after, get1, il, ok, _ = runAccRA(typ, field, contents, val)
	return
}

// runAccRA also reports aliasing between the setter's argument / the getter's result and the element ("" = none)
func runAccRA(typ, field string, contents, val []byte) (get0, after, get1 []byte, il [4]uint64, ok bool, alias string) {
	mk, ok := nasTypeRegistry[typ]
	if !ok {
		return
	}
	pv := reflect.ValueOf(mk())
	v := pv.Elem()
	if !setContents(v, contents) {
		ok = false
		return
	}
	if f := v.FieldByName("Iei"); f.IsValid() {
		f.SetUint(0x5a)
	}
	if f := v.FieldByName("Len"); f.IsValid() {
		f.SetUint(uint64(len(contents)))
	}
	g, s := pv.MethodByName("Get"+field), pv.MethodByName("Set"+field)
	if !g.IsValid() || !s.IsValid() {
		ok = false
		return
	}
	tob := func(x reflect.Value) []byte {
		out := make([]byte, x.Len())
		for i := range out {
			out[i] = byte(x.Index(i).Uint())
		}
		return out
	}
	il[0], il[1] = ieiLen(v)
	get0 = tob(g.Call(nil)[0])
	at := s.Type().In(0)
	var arg reflect.Value
	if at.Kind() == reflect.Array {
		if len(val) != at.Len() {
			ok = false
			return
		}
		arg = reflect.New(at).Elem()
		for i := range val {
			arg.Index(i).SetUint(uint64(val[i]))
		}
	} else {
		arg = reflect.ValueOf(append([]byte{}, val...))
		if len(val) == 0 && len(contents)%2 == 1 {
			arg = reflect.Zero(at) // an empty value passed as a nil slice
		}
	}
	s.Call([]reflect.Value{arg})
	after = getContents(v)
	get1 = tob(g.Call(nil)[0])
	il[2], il[3] = ieiLen(v)
	ok = true
	// value semantics: the element must not keep the caller's slice, and a getter's result must not be a window onto the element
	if arg.Kind() == reflect.Slice && arg.Len() > 0 {
		av := arg.Bytes()
		for i := range av {
			av[i] ^= 0xff
		}
		if string(getContents(v)) != string(after) {
			alias = "the element keeps the caller's slice (writing into the argument afterwards changed the element)"
		}
		for i := range av {
			av[i] ^= 0xff
		}
	}
	if gr := g.Call(nil)[0]; gr.Kind() == reflect.Slice && gr.Len() > 0 && alias == "" {
		gb := gr.Bytes()
		for i := range gb {
			gb[i] ^= 0xff
		}
		if string(getContents(v)) != string(after) {
			alias = "the getter's result is a window onto the element (writing into it changed the element)"
		}
	}
	return
}

// accr <Type> <Field> <contents> <value-hex>
func opAccR(args []string) string {
	if len(args) != 4 {
		return "bad-op"
	}
	c, ok1 := unhex(args[2])
	val, ok2 := unhex(args[3])
	if !ok1 || !ok2 {
		return "bad-op"
	}
	g0, after, g1, _, ok := runAccR(args[0], args[1], c, val)
	if !ok {
		return "bad-op"
	}
	return fmt.Sprintf("ok %s %s %s", hexs(g0), hexs(after), hexs(g1))
}

// ---- pinned layout and the oracle ----

type layoutEntry struct {
	Type  string `json:"type"`
	Field string `json:"field"`
	R0    int    `json:"r0"`
	R1    int    `json:"r1"`
	SBit  int    `json:"sBit"`
	Len   int    `json:"len"`
	Inf   bool   `json:"inf"`
}

var specLayout map[string]layoutEntry

func loadLayout() map[string]layoutEntry {
	if specLayout != nil {
		return specLayout
	}
	p := os.Getenv("VERIF_SPEC")
	if p == "" {
		p = "/verif/spec"
	}
	b, err := os.ReadFile(filepath.Join(p, "accessor_layout.json"))
	if err != nil {
		fmt.Fprintln(os.Stderr, err)
		os.Exit(2)
	}
	var l []layoutEntry
	if err := json.Unmarshal(b, &l); err != nil {
		fmt.Fprintln(os.Stderr, err)
		os.Exit(2)
	}
	specLayout = map[string]layoutEntry{}
	for _, e := range l {
		specLayout[e.Type+"."+e.Field] = e
	}
	return specLayout
}

// position (octet, bit) of field bit p (0 = LSB), from the layout sentence
func posOf(e layoutEntry, p int) (int, int) {
	off := (8 - e.SBit) + (e.Len - 1 - p)
	return e.R0 + off/8, 7 - off%8
}

func fieldValue(e layoutEntry, c []byte) uint64 {
	var v uint64
	for p := 0; p < e.Len; p++ {
		i, j := posOf(e, p)
		if i < len(c) && c[i]>>uint(j)&1 == 1 {
			v |= 1 << uint(p)
		}
	}
	return v
}

func oracleC09(op string, args []string) string {
	if op == "accs" {
		return oracleAccS(args)
	}
	if op == "accl" {
		return oracleAccL(args)
	}
	if op == "accra" {
		return oracleAccRA(args)
	}
	lay := loadLayout()
	if len(args) != 4 {
		return skip
	}
	e, ok := lay[args[0]+"."+args[1]]
	if !ok {
		return "FAIL accessor pair is not in the pinned layout"
	}
	c, ok1 := unhex(args[2])
	if !ok1 {
		return skip
	}
	switch op {
	case "acc":
		val, err := strconv.ParseUint(args[3], 10, 64)
		if err != nil || e.Inf {
			return skip
		}
		if e.R1 >= len(c) {
			return skip // contents too short to contain the field
		}
		r, ok := runAcc(args[0], args[1], c, val)
		if !ok {
			return skip
		}
		if want := fieldValue(e, c); r.get0 != want {
			return fmt.Sprintf("FAIL getter returned %#x, documented bits hold %#x", r.get0, want)
		}
		mask := uint64(1)<<uint(e.Len) - 1
		if r.get1 != val&mask {
			return fmt.Sprintf("FAIL set(%#x) then get = %#x, expected %#x", val, r.get1, val&mask)
		}
		if len(r.after) != len(c) {
			return "FAIL setter changed the content length"
		}
		in := map[[2]int]bool{}
		for p := 0; p < e.Len; p++ {
			i, j := posOf(e, p)
			in[[2]int{i, j}] = true
		}
		for i := range c {
			for j := 0; j < 8; j++ {
				if !in[[2]int{i, j}] && (c[i]>>uint(j))&1 != (r.after[i]>>uint(j))&1 {
					return fmt.Sprintf("FAIL setter changed bit %d of octet %d, outside its field", j+1, i)
				}
			}
		}
		if r.iei0 != r.iei1 || r.len0 != r.len1 {
			return "FAIL setter changed the identifier or length"
		}
		return "pass"
	case "accr":
		val, ok2 := unhex(args[3])
		if !ok2 {
			return skip
		}
		lo, hi := e.R0, e.R1+1
		if e.Inf {
			hi = len(c)
		}
		if hi > len(c) || lo > hi {
			return skip
		}
		g0, after, g1, il, ok, alias := runAccRA(args[0], args[1], c, val)
		if !ok {
			return skip
		}
		if string(g0) != string(c[lo:hi]) {
			return fmt.Sprintf("FAIL getter returned %x, documented octets hold %x", g0, c[lo:hi])
		}
		if len(val) >= hi-lo && string(g1) != string(val[:hi-lo]) {
			return fmt.Sprintf("FAIL set then get = %x, expected %x", g1, val[:hi-lo])
		}
		if len(after) != len(c) {
			return "FAIL setter changed the content length"
		}
		n := len(val)
		if n > hi-lo {
			n = hi - lo
		}
		for i := range c {
			if (i < lo || i >= lo+n) && after[i] != c[i] {
				return fmt.Sprintf("FAIL setter changed octet %d, outside its field", i)
			}
		}
		if il[0] != il[2] || il[1] != il[3] {
			return "FAIL setter changed the identifier or length"
		}
		if alias != "" {
			return "FAIL " + alias
		}
		return "pass"
	}
	return skip
}

type accFact struct {
	Type, Field, Kind, Store string
	R0, R1, SBit, Len        int
	Inf                      bool
	RetW, Lo, Hi, ArrN       int
}

// factsFromLayout derives one generator fact per pinned accessor pair by reflection on the real type: the generator must not
// depend on what the translator managed to recognise (an accessor whose body falls outside the IR still has to be exercised).
func factsFromLayout() []accFact {
	lay := loadLayout()
	var keys []string
	for k := range lay {
		keys = append(keys, k)
	}
	sort.Strings(keys)
	var out []accFact
	for _, k := range keys {
		e := lay[k]
		mk, ok := nasTypeRegistry[e.Type]
		if !ok {
			continue
		}
		pv := reflect.ValueOf(mk())
		v := pv.Elem()
		g, s := pv.MethodByName("Get"+e.Field), pv.MethodByName("Set"+e.Field)
		if !g.IsValid() || !s.IsValid() || g.Type().NumOut() != 1 || s.Type().NumIn() != 1 {
			continue
		}
		f := accFact{Type: e.Type, Field: e.Field, R0: e.R0, R1: e.R1, SBit: e.SBit, Len: e.Len, Inf: e.Inf, Lo: e.R0, Hi: e.R1 + 1}
		if o := v.FieldByName("Octet"); o.IsValid() {
			if o.Kind() == reflect.Uint8 {
				f.Store = "octet"
			} else {
				f.Store, f.ArrN = "arr", o.Len()
			}
		} else if b := v.FieldByName("Buffer"); b.IsValid() {
			f.Store = "buf"
		} else {
			continue
		}
		rt := g.Type().Out(0)
		switch rt.Kind() {
		case reflect.Uint8, reflect.Uint16, reflect.Uint32, reflect.Uint64:
			f.Kind, f.RetW = "scalar", rt.Bits()
		case reflect.Array:
			f.Kind = "fixed"
		case reflect.Slice:
			f.Kind = "fixed"
			if e.Inf {
				f.Kind = "tail"
			}
		default:
			continue // text conversions (DNN) are C14's subject
		}
		out = append(out, f)
	}
	return out
}

func genAcc(g *Gen, w *bufio.Writer) {
	fs := factsFromLayout()
	per := g.N
	genAccDNN(g, w, per*10)
	genAccLen(g, w, per)
	genAccAlias(g, w, per/3+1)
	for _, f := range fs {
		size := 1
		switch f.Store {
		case "arr":
			size = f.ArrN
		case "buf":
			size = f.R1 + 1
			if f.Kind != "scalar" && f.Hi > size {
				size = f.Hi
			}
		}
		contents := func(k int) []byte {
			sz := size
			if f.Store == "buf" && k%3 != 0 {
				sz += 1 + g.Intn(3) // the minimal buffer that contains the field, and longer ones
			}
			c := make([]byte, sz)
			switch k {
			case 0:
			case 1:
				for i := range c {
					c[i] = 0xff
				}
			default:
				copy(c, g.Bytes(sz))
			}
			return c
		}
		if f.Kind == "scalar" {
			maxv := uint64(1)<<uint(f.RetW) - 1
			vals := func(k int) uint64 {
				switch k % 6 {
				case 0:
					return 0
				case 1:
					return maxv
				case 2:
					return (uint64(1) << uint(f.Len)) & maxv // one past the field width
				case 3:
					return (uint64(1)<<uint(f.Len) - 1) & maxv
				}
				return g.U64() & maxv
			}
			if g.Tier == "thorough" && f.R0 == f.R1 && f.RetW == 8 {
				// exhaustive: all prior contents of the field's octet x all values (neighbouring octets random)
				for o := 0; o < 256; o++ {
					c := contents(2)
					c[f.R0] = byte(o)
					for v := 0; v < 256; v++ {
						fmt.Fprintf(w, "acc %s %s %s %d\n", f.Type, f.Field, hexs(c), v)
					}
				}
				continue
			}
			for k := 0; k < per; k++ {
				fmt.Fprintf(w, "acc %s %s %s %d\n", f.Type, f.Field, hexs(contents(k%5)), vals(k))
			}
		} else {
			for k := 0; k < per; k++ {
				c := contents(k % 5)
				n := f.Hi - f.Lo
				if f.Kind == "tail" {
					n = len(c) - f.Lo
					if k%4 == 3 {
						n += g.Intn(3) // longer than the field: truncated
					}
					if k%4 == 1 && n > 0 {
						n -= 1 + g.Intn(n) // shorter than the field: the rest of the field keeps its prior contents
					}
				}
				if n < 0 {
					n = 0
				}
				fmt.Fprintf(w, "accr %s %s %s %s\n", f.Type, f.Field, hexs(c), hexs(g.Bytes(n)))
			}
		}
	}
}
