package main

// C13: slice and area lists. The oracle decodes what the library encoded with decoders written from the TS 24.501
// figures (independent of the library) and requires exactly the input lists; it also checks that the library's own
// NSSAI / LADN-indication decoders recover well-formed lists and that malformed NSSAI lengths are errors.

import (
	"bufio"
	"bytes"
	"fmt"
	"strconv"
	"strings"

	"github.com/free5gc/nas/nasConvert"
	"github.com/free5gc/nas/nasType"
	"github.com/free5gc/openapi/models"
)

func init() {
	oracles["C13"] = oracleC13
	gens["conv13"] = genConv13
}

type specSnssai struct {
	sst    byte
	sd     string // "" or 6 lower-case hex digits
	hasMap bool
	msst   byte
	msd    string
}

// specDecNssai: 9.11.3.37 / 9.11.2.8
func specDecNssai(b []byte) ([]specSnssai, bool) {
	var out []specSnssai
	for len(b) > 0 {
		l := int(b[0])
		if len(b) < 1+l {
			return nil, false
		}
		v := b[1 : 1+l]
		var s specSnssai
		switch l {
		case 1:
			s = specSnssai{sst: v[0]}
		case 2:
			s = specSnssai{sst: v[0], hasMap: true, msst: v[1]}
		case 4:
			s = specSnssai{sst: v[0], sd: fmt.Sprintf("%x", v[1:4])}
		case 5:
			s = specSnssai{sst: v[0], sd: fmt.Sprintf("%x", v[1:4]), hasMap: true, msst: v[4]}
		case 8:
			s = specSnssai{sst: v[0], sd: fmt.Sprintf("%x", v[1:4]), hasMap: true, msst: v[4], msd: fmt.Sprintf("%x", v[5:8])}
		default:
			return nil, false
		}
		out = append(out, s)
		b = b[1+l:]
	}
	return out, true
}

type specTai struct{ mcc, mnc, tac string }

// specDecTaiList: one partial list, 9.11.3.9 (types 00, 01, 10)
func specDecTaiList(b []byte) ([]specTai, bool) {
	if len(b) < 1 || b[0]&0x80 != 0 {
		return nil, false
	}
	typ, n := b[0]>>5&3, int(b[0]&0x1f)+1
	b = b[1:]
	var out []specTai
	switch typ {
	case 0:
		if len(b) != 3+3*n {
			return nil, false
		}
		mcc, mnc, ok := specPlmnText(b[:3])
		if !ok {
			return nil, false
		}
		for i := 0; i < n; i++ {
			out = append(out, specTai{mcc, mnc, fmt.Sprintf("%x", b[3+3*i:6+3*i])})
		}
	case 1:
		if len(b) != 6 {
			return nil, false
		}
		mcc, mnc, ok := specPlmnText(b[:3])
		if !ok {
			return nil, false
		}
		t := int(b[3])<<16 | int(b[4])<<8 | int(b[5])
		for i := 0; i < n; i++ {
			out = append(out, specTai{mcc, mnc, fmt.Sprintf("%06x", t+i)})
		}
	case 2:
		if len(b) != 6*n {
			return nil, false
		}
		for i := 0; i < n; i++ {
			mcc, mnc, ok := specPlmnText(b[6*i : 6*i+3])
			if !ok {
				return nil, false
			}
			out = append(out, specTai{mcc, mnc, fmt.Sprintf("%x", b[6*i+3:6*i+6])})
		}
	default:
		return nil, false
	}
	return out, true
}

func validTaiArgs(l []models.Tai) bool {
	if len(l) < 1 || len(l) > 16 {
		return false
	}
	for _, t := range l {
		if len(t.PlmnId.Mcc) != 3 || (len(t.PlmnId.Mnc) != 2 && len(t.PlmnId.Mnc) != 3) || !isDigits(t.PlmnId.Mcc) || !isDigits(t.PlmnId.Mnc) ||
			len(t.Tac) != 6 || !isHexText(t.Tac) {
			return false
		}
	}
	return true
}

func sameTais(got []specTai, want []models.Tai) string {
	if len(got) != len(want) {
		return fmt.Sprintf("%d elements decoded, %d encoded", len(got), len(want))
	}
	for i := range want {
		if got[i].mcc != want[i].PlmnId.Mcc || got[i].mnc != want[i].PlmnId.Mnc || got[i].tac != strings.ToLower(want[i].Tac) {
			return fmt.Sprintf("element %d decodes to %s/%s %s, encoded %s/%s %s", i, got[i].mcc, got[i].mnc, got[i].tac,
				want[i].PlmnId.Mcc, want[i].PlmnId.Mnc, want[i].Tac)
		}
	}
	return ""
}

func validSd(sd string) bool { return sd == "" || (len(sd) == 6 && isHexText(sd)) }

func oracleC13(op string, a []string) string {
	if op != "conv" || len(a) < 2 {
		return skip
	}
	if r := oracleC13pure(a); r != "" {
		return r
	}
	fn, a := a[0], a[1:]
	switch fn {
	case "snssai2n":
		sst, err := strconv.Atoi(a[0])
		sd, ok := unhex(a[1])
		if err != nil || !ok || sst < 0 || sst > 255 || !validSd(string(sd)) {
			return skip
		}
		w := nasConvert.SnssaiToNas(models.Snssai{Sst: int32(sst), Sd: string(sd)})
		d, okd := specDecNssai(w)
		if !okd || len(d) != 1 || d[0].sst != byte(sst) || d[0].sd != strings.ToLower(string(sd)) || d[0].hasMap {
			return fmt.Sprintf("FAIL S-NSSAI %d/%q coded %x, which a 9.11.2.8 decoder reads as %+v", sst, sd, w, d)
		}
		// the IE-level reader
		ie := nasType.SNSSAI{Len: w[0]}
		copy(ie.Octet[:], w[1:])
		back := nasConvert.SnssaiToModels(&ie)
		if uint8(back.Sst) != byte(sst) || back.Sd != strings.ToLower(string(sd)) {
			return fmt.Sprintf("FAIL S-NSSAI %d/%q -> IE -> %d/%q", sst, sd, back.Sst, back.Sd)
		}
		if r := staleResult(func() []byte { return nasConvert.SnssaiToNas(models.Snssai{Sst: int32(sst), Sd: string(sd)}) },
			func() []byte { return nasConvert.SnssaiToNas(models.Snssai{Sst: 255, Sd: "ffffff"}) }); r != "" {
			return "FAIL SnssaiToNas: " + r
		}
		return "pass"
	case "reqnssai":
		l, err := strconv.Atoi(a[0])
		b, ok := unhex(a[1])
		if err != nil || !ok || l != len(b) {
			return skip
		}
		want, okw := specDecNssai(b)
		got, e := nasConvert.RequestedNssaiToModels(&nasType.RequestedNSSAI{Len: uint8(l), Buffer: b})
		if !okw {
			if e == nil {
				return fmt.Sprintf("FAIL malformed NSSAI %x accepted", b)
			}
			return "pass"
		}
		if e != nil {
			return fmt.Sprintf("FAIL well-formed NSSAI %x rejected: %v", b, e)
		}
		if len(got) != len(want) {
			return fmt.Sprintf("FAIL NSSAI %x: %d entries decoded, %d present", b, len(got), len(want))
		}
		for i, w := range want {
			g := got[i]
			if g.ServingSnssai == nil || uint8(g.ServingSnssai.Sst) != w.sst || g.ServingSnssai.Sd != w.sd || (g.HomeSnssai != nil) != w.hasMap ||
				(w.hasMap && (uint8(g.HomeSnssai.Sst) != w.msst || g.HomeSnssai.Sd != w.msd)) {
				return fmt.Sprintf("FAIL NSSAI %x entry %d decoded differently from the 9.11.2.8 layout", b, i)
			}
		}
		// a result belongs to its caller: after this caller has overwritten every object its result points to, another
		// conversion of the same contents still gives the list above (results must not share objects between calls)
		for _, g := range got {
			if g.ServingSnssai != nil {
				g.ServingSnssai.Sst, g.ServingSnssai.Sd = 77, "zzzzzz"
			}
			if g.HomeSnssai != nil {
				g.HomeSnssai.Sst, g.HomeSnssai.Sd = 78, "yyyyyy"
			}
		}
		again, e2 := nasConvert.RequestedNssaiToModels(&nasType.RequestedNSSAI{Len: uint8(l), Buffer: b})
		if e2 != nil || len(again) != len(want) {
			return "FAIL a second conversion of the same contents differs after the first result was modified by its owner"
		}
		for i, w := range want {
			g := again[i]
			if g.ServingSnssai == nil || uint8(g.ServingSnssai.Sst) != w.sst || g.ServingSnssai.Sd != w.sd ||
				(w.hasMap && (g.HomeSnssai == nil || uint8(g.HomeSnssai.Sst) != w.msst || g.HomeSnssai.Sd != w.msd)) {
				return fmt.Sprintf("FAIL NSSAI %x entry %d: the result shares objects with an earlier result (changed when the earlier one was modified)", b, i)
			}
		}
		return "pass"
	case "rejnssai":
		l1, ok1 := parseSnssaiList(a[0])
		l2, ok2 := parseSnssaiList(a[1])
		if !ok1 || !ok2 {
			return skip
		}
		total := 0
		for _, s := range append(append([]models.Snssai{}, l1...), l2...) {
			if !validSd(s.Sd) || s.Sst < 0 || s.Sst > 255 {
				return skip
			}
			total += 2
			if s.Sd != "" {
				total += 3
			}
		}
		if total > 255 {
			return skip
		}
		r := nasConvert.RejectedNssaiToNas(l1, l2)
		b := r.Buffer
		if int(r.GetLen()) != len(b) {
			return "FAIL rejected NSSAI Len differs from contents"
		}
		idx := 0
		all := append(append([]models.Snssai{}, l1...), l2...)
		for len(b) > 0 {
			ln, cause := int(b[0]>>4), b[0]&0xf
			if (ln != 1 && ln != 4) || len(b) < 1+ln || idx >= len(all) {
				return fmt.Sprintf("FAIL rejected NSSAI %x is not a sequence of 9.11.3.46 elements", r.Buffer)
			}
			sd := ""
			if ln == 4 {
				sd = fmt.Sprintf("%x", b[2:5])
			}
			wantCause := byte(0)
			if idx >= len(l1) {
				wantCause = 1
			}
			if b[1] != uint8(all[idx].Sst) || sd != strings.ToLower(all[idx].Sd) || cause != wantCause {
				return fmt.Sprintf("FAIL rejected NSSAI element %d decodes to %d/%s cause %d", idx, b[1], sd, cause)
			}
			b = b[1+ln:]
			idx++
		}
		if idx != len(all) {
			return fmt.Sprintf("FAIL rejected NSSAI: %d elements decoded, %d encoded", idx, len(all))
		}
		return "pass"
	case "tailist":
		l, ok := parseTaiList(a[0])
		if !ok || !validTaiArgs(l) {
			return skip
		}
		w := nasConvert.TaiListToNas(l)
		got, okd := specDecTaiList(w)
		if !okd {
			return fmt.Sprintf("FAIL TAI list coded %x is not a 9.11.3.9 partial list", w)
		}
		if d := sameTais(got, l); d != "" {
			return fmt.Sprintf("FAIL TAI list coded %x: %s", w, d)
		}
		one := []models.Tai{{PlmnId: &models.PlmnId{Mcc: "999", Mnc: "99"}, Tac: "ffffff"}}
		if r := staleResult(func() []byte { return nasConvert.TaiListToNas(l) }, func() []byte { return nasConvert.TaiListToNas(one) }); r != "" {
			return "FAIL TaiListToNas: " + r
		}
		return "pass"
	case "sarea":
		mcc, ok1 := unhex(a[0])
		mnc, ok2 := unhex(a[1])
		if !ok1 || !ok2 || a[3] == "-" {
			return skip
		}
		var tais []models.Tai
		var areas []models.Area
		for i, t := range strings.Split(a[3], ",") {
			tb, ok := unhex(t)
			if !ok {
				return skip
			}
			tais = append(tais, models.Tai{PlmnId: &models.PlmnId{Mcc: string(mcc), Mnc: string(mnc)}, Tac: string(tb)})
			if i%2 == 0 {
				areas = append(areas, models.Area{})
			}
			areas[len(areas)-1].Tacs = append(areas[len(areas)-1].Tacs, string(tb))
		}
		if !validTaiArgs(tais) {
			return skip
		}
		rt := models.RestrictionType_NOT_ALLOWED_AREAS
		if a[2] == "1" {
			rt = models.RestrictionType_ALLOWED_AREAS
		}
		w := nasConvert.PartialServiceAreaListToNas(models.PlmnId{Mcc: string(mcc), Mnc: string(mnc)},
			junkRestriction(models.ServiceAreaRestriction{RestrictionType: rt, Areas: areas}, len(a[3])))
		if len(w) < 1 {
			return "FAIL empty service area list"
		}
		// 9.11.3.49: bit 8 = allowed type (0 = allowed), bits 7-6 type of list; type 00 has the TAI-list type 00 layout
		if (w[0]&0x80 == 0) != (a[2] == "1") {
			return fmt.Sprintf("FAIL allowed type bit of %x does not reflect the restriction type", w)
		}
		got, okd := specDecTaiList(append([]byte{w[0] & 0x7f}, w[1:]...))
		if !okd || w[0]>>5&3 != 0 {
			return fmt.Sprintf("FAIL service area list coded %x is not a 9.11.3.49 type-00 partial list", w)
		}
		if d := sameTais(got, tais); d != "" {
			return fmt.Sprintf("FAIL service area list coded %x: %s", w, d)
		}
		return "pass"
	case "ladn2n":
		d, ok1 := unhex(a[0])
		l, ok2 := parseTaiList(a[1])
		if !ok1 || !ok2 || len(d) > 255 || !validTaiArgs(l) {
			return skip
		}
		w := nasConvert.LadnToNas(string(d), l)
		// 9.11.3.30: length of DNN, DNN, then a TAI list element (length, contents)
		if len(w) < 1 || len(w) < 2+int(w[0]) || !bytes.Equal(w[1:1+int(w[0])], d) || int(w[0]) != len(d) {
			return fmt.Sprintf("FAIL LADN %x does not start with (length, DNN)", w)
		}
		rest := w[1+len(d):]
		if int(rest[0]) != len(rest)-1 {
			return fmt.Sprintf("FAIL LADN %x: TAI list length octet %d, %d octets follow", w, rest[0], len(rest)-1)
		}
		got, okd := specDecTaiList(rest[1:])
		if !okd {
			return fmt.Sprintf("FAIL LADN %x: TAI list is not a 9.11.3.9 partial list", w)
		}
		if dd := sameTais(got, l); dd != "" {
			return fmt.Sprintf("FAIL LADN %x: %s", w, dd)
		}
		return "pass"
	case "ladn2m":
		b, ok := unhex(a[0])
		if !ok {
			return skip
		}
		// well-formed = a sequence of complete (length, DNN) entries
		var want []string
		p := b
		for len(p) > 0 {
			l := int(p[0])
			if len(p) < 1+l {
				return skip
			}
			want = append(want, string(p[1:1+l]))
			p = p[1+l:]
		}
		got := nasConvert.LadnToModels(b)
		if len(got) != len(want) {
			return fmt.Sprintf("FAIL LADN indication %x: %d DNNs decoded, %d present", b, len(got), len(want))
		}
		for i := range want {
			if got[i] != want[i] {
				return fmt.Sprintf("FAIL LADN indication %x: DNN %d decoded %q", b, i, got[i])
			}
		}
		return "pass"
	}
	return skip
}

func (g *Gen) sdText() string {
	if g.Intn(3) == 0 {
		return ""
	}
	return g.hexText(6)
}

func (g *Gen) snssaiArg() string {
	sd := g.sdText()
	return fmt.Sprintf("%d:%s", g.Intn(256), hx(sd))
}

func (g *Gen) taiArg(n int, mode int) string {
	var parts []string
	mcc, mnc := g.plmn()
	for i := 0; i < n; i++ {
		m1, m2 := mcc, mnc
		switch mode {
		case 1: // several PLMNs, all different
			m1, m2 = g.plmn()
		case 2: // same MCC, different MNC for some entries
			if i > 0 && g.Bool() {
				m2 = g.digits(len(mnc))
			}
		case 3: // same digits, 2- vs 3-digit MNC
			if i > 0 && g.Bool() {
				if len(mnc) == 2 {
					m2 = mnc + "0"
				} else {
					m2 = mnc[:2]
				}
			}
		case 4: // only the last entry differs
			if i == n-1 && n > 1 {
				m1 = g.digits(3)
			}
		}
		parts = append(parts, fmt.Sprintf("%s:%s:%s", hx(m1), hx(m2), hx(g.hexText(6))))
	}
	return strings.Join(parts, ",")
}

// taiArgTacs: a single-PLMN list whose TACs come from a small arithmetic family base, base+1, ...: consecutive (shape 0), the same
// values shuffled (1), with a duplicate (2), first and last n-1 apart but arbitrary in between (3), descending (4). An encoder
// that picks a compact list form from a property of some entries must still let a decoder recover exactly this list.
func (g *Gen) taiArgTacs(n int, shape int) string {
	mcc, mnc := g.plmn()
	base := g.Intn(0xfffff0)
	tacs := make([]int, n)
	for i := range tacs {
		tacs[i] = base + i
	}
	switch shape {
	case 1:
		for i := n - 2; i > 1; i-- {
			j := 1 + g.Intn(i)
			tacs[i], tacs[j] = tacs[j], tacs[i]
		}
	case 2:
		if n > 2 {
			tacs[1+g.Intn(n-2)] = tacs[0]
		}
	case 3:
		for i := 1; i < n-1; i++ {
			tacs[i] = g.Intn(1 << 24)
		}
	case 4:
		for i := range tacs {
			tacs[i] = base + n - 1 - i
		}
	}
	var parts []string
	for _, t := range tacs {
		parts = append(parts, fmt.Sprintf("%s:%s:%s", hx(mcc), hx(mnc), hx(fmt.Sprintf("%06x", t))))
	}
	return strings.Join(parts, ",")
}

func genConv13(g *Gen, w *bufio.Writer) {
	thorough := g.Tier == "thorough"
	// S-NSSAI: every SST with and without SD
	for sst := 0; sst < 256; sst++ {
		fmt.Fprintf(w, "conv snssai2n %d -\n", sst)
		fmt.Fprintf(w, "conv snssai2n %d %s\n", sst, hx(g.hexText(6)))
		fmt.Fprintf(w, "conv rejsnssai %d - %d\n", sst, g.Intn(2))
		fmt.Fprintf(w, "conv rejsnssai %d %s %d\n", sst, hx(g.hexText(6)), g.Intn(2))
	}
	for _, sd := range []string{"000000", "ffffff", "FFFFFF", "010203", "abcdef"} {
		fmt.Fprintf(w, "conv snssai2n 1 %s\n", hx(sd))
	}
	for l := 0; l < 12; l++ {
		fmt.Fprintf(w, "conv snssai2m %d %s\n", l, hexs(g.Bytes(8)))
	}
	// requested NSSAI: an entry of every length 0..12 that is NOT one of the five forms, complete (all its octets present), alone, at
	// the head, in the middle and at the tail of an otherwise well-formed list: a malformed length is an error wherever it stands
	for bad := 0; bad <= 12; bad++ {
		if bad == 1 || bad == 2 || bad == 4 || bad == 5 || bad == 8 {
			continue
		}
		entry := append([]byte{byte(bad)}, g.Bytes(bad)...)
		good := func() []byte {
			l := []int{1, 2, 4, 5, 8}[g.Intn(5)]
			return append([]byte{byte(l)}, g.Bytes(l)...)
		}
		for _, shape := range [][3]int{{0, 0, 0}, {0, 0, 1}, {1, 0, 0}, {1, 0, 1}, {2, 0, 2}} {
			var b []byte
			for i := 0; i < shape[0]; i++ {
				b = append(b, good()...)
			}
			b = append(b, entry...)
			for i := 0; i < shape[2]; i++ {
				b = append(b, good()...)
			}
			fmt.Fprintf(w, "conv reqnssai %d %s\n", len(b), hexs(b))
		}
	}
	// requested NSSAI: lists of 1..8 (and 0, 9..12) entries of every form mix; the library's encoder output too
	forms := []int{1, 2, 4, 5, 8}
	for n := 0; n <= 12; n++ {
		reps := 20
		if thorough {
			reps = 300
		}
		for k := 0; k < reps; k++ {
			var b []byte
			for i := 0; i < n; i++ {
				l := forms[g.Intn(5)]
				if k%4 == 0 {
					l = forms[k/4%5] // homogeneous lists of each form
				}
				b = append(b, byte(l))
				c := g.Bytes(l)
				if k%3 == 1 { // a pool of two octet values: entries repeat or differ in one component only
					for x := range c {
						c[x] = []byte{1, 2}[g.Intn(2)]
					}
				}
				b = append(b, c...)
			}
			fmt.Fprintf(w, "conv reqnssai %d %s\n", len(b), hexs(b))
			if k%5 == 0 && len(b) > 0 { // malformed: truncate / corrupt a length octet
				c := b[:g.Intn(len(b))]
				fmt.Fprintf(w, "conv reqnssai %d %s\n", len(c), hexs(c))
				d := append([]byte{}, b...)
				d[0] = byte(g.Intn(256))
				fmt.Fprintf(w, "conv reqnssai %d %s\n", len(d), hexs(d))
			}
		}
	}
	for l := 0; l < 256; l++ { // every length octet at the head and after one valid entry
		b := append([]byte{byte(l)}, g.Bytes(8)...)
		fmt.Fprintf(w, "conv reqnssai %d %s\n", len(b), hexs(b))
		b = append([]byte{1, 9}, b...)
		fmt.Fprintf(w, "conv reqnssai %d %s\n", len(b), hexs(b))
	}
	// rejected NSSAI
	for i := 0; i < g.N*2; i++ {
		mk := func(n int) string {
			if n == 0 {
				return "-"
			}
			var p []string
			for j := 0; j < n; j++ {
				p = append(p, g.snssaiArg())
			}
			return strings.Join(p, ",")
		}
		fmt.Fprintf(w, "conv rejnssai %s %s\n", mk(g.Intn(9)), mk(g.Intn(9)))
	}
	fmt.Fprintf(w, "conv rejnssai - -\n")
	// TAI lists: 1..16 entries (and 17..20 for the correspondence) x the PLMN-mix modes
	for n := 1; n <= 20; n++ {
		for mode := 0; mode <= 4; mode++ {
			reps := 3
			if thorough {
				reps = 40
			}
			for k := 0; k < reps; k++ {
				fmt.Fprintf(w, "conv tailist %s\n", g.taiArg(n, mode))
				if n <= 16 {
					fmt.Fprintf(w, "conv tailist %s\n", g.taiArgTacs(n, mode))
				}
				if n <= 16 {
					fmt.Fprintf(w, "conv ladn2n %s %s\n", hexs(g.Bytes(g.Intn(20))), g.taiArg(n, mode))
				}
			}
		}
	}
	for _, dl := range []int{0, 1, 100, 254, 255} {
		fmt.Fprintf(w, "conv ladn2n %s %s\n", hexs(g.Bytes(dl)), g.taiArg(1+g.Intn(16), g.Intn(5)))
	}
	// service area lists: 1..16 TACs (0 and 17..20 for the correspondence), both restriction types, 2- and 3-digit MNC
	for n := 0; n <= 20; n++ {
		for al := 0; al < 2; al++ {
			for k := 0; k < 3; k++ {
				mcc, mnc := g.plmn()
				var tacs []string
				for i := 0; i < n; i++ {
					tacs = append(tacs, hx(g.hexText(6)))
				}
				t := "-"
				if n > 0 {
					t = strings.Join(tacs, ",")
				}
				fmt.Fprintf(w, "conv sarea %s %s %d %s\n", hx(mcc), hx(mnc), al, t)
			}
		}
	}
	// LADN indication
	for i := 0; i < g.N*3; i++ {
		b := g.validLadn()
		fmt.Fprintf(w, "conv ladn2m %s\n", hexs(b))
		if i%4 == 0 {
			fmt.Fprintf(w, "conv ladn2m %s\n", hexs(g.mutate(b)))
		}
	}
	for _, l := range []int{0, 1, 127, 128, 254, 255} {
		b := append([]byte{byte(l)}, g.Bytes(l)...)
		fmt.Fprintf(w, "conv ladn2m %s\n", hexs(b))
		fmt.Fprintf(w, "conv ladn2m %s\n", hexs(append(b, b...)))
	}
}

// a conversion is a function of its argument octets: same answer on a second call with the same slices, arguments untouched
func oracleC13pure(a []string) string {
	r := withTimeout(func() string { return convOp(a) })
	if i := strings.Index(r, " !"); i >= 0 {
		return "FAIL conversion " + a[0] + " is not a function of its arguments:" + r[i+1:]
	}
	return ""
}
