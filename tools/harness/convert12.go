package main

// C12: identities convert faithfully. The oracle holds an independent reading of TS 24.501 9.11.3.4 /
// TS 24.008 10.5.1.13 / TS 23.003 (octet layouts and text formats) and evaluates the property on the real functions.

import (
	"bufio"
	"bytes"
	"fmt"
	"strconv"
	"strings"

	"github.com/free5gc/nas/nasConvert"
	"github.com/free5gc/openapi/models"
)

func init() {
	oracles["C12"] = oracleC12
	gens["conv12"] = genConv12
}

func isDigits(s string) bool {
	for i := 0; i < len(s); i++ {
		if s[i] < '0' || s[i] > '9' {
			return false
		}
	}
	return true
}

func isHexText(s string) bool {
	for i := 0; i < len(s); i++ {
		c := s[i]
		if !(c >= '0' && c <= '9' || c >= 'a' && c <= 'f' || c >= 'A' && c <= 'F') {
			return false
		}
	}
	return true
}

// specPlmnText reads three PLMN octets per TS 24.008 10.5.1.13; ok=false when a nibble is not a digit (MNC digit 3 may be 1111)
func specPlmnText(o []byte) (mcc, mnc string, ok bool) {
	d := []byte{o[0] & 0xf, o[0] >> 4, o[1] & 0xf, o[2] & 0xf, o[2] >> 4, o[1] >> 4}
	for i, x := range d {
		if x > 9 && !(i == 5 && x == 15) {
			return "", "", false
		}
	}
	mcc = fmt.Sprintf("%d%d%d", d[0], d[1], d[2])
	mnc = fmt.Sprintf("%d%d", d[3], d[4])
	if d[5] != 15 {
		mnc += fmt.Sprintf("%d", d[5])
	}
	return mcc, mnc, true
}

func specAmfSplit(o []byte) (uint8, uint16, uint8) {
	v := uint32(o[0])<<16 | uint32(o[1])<<8 | uint32(o[2])
	return uint8(v >> 16), uint16(v >> 6 & 0x3ff), uint8(v & 0x3f)
}

func specAmfJoin(r uint8, s uint16, p uint8) []byte {
	v := uint32(r)<<16 | uint32(s&0x3ff)<<6 | uint32(p&0x3f)
	return []byte{byte(v >> 16), byte(v >> 8), byte(v)}
}

// bcdDigits unpacks octets two digits each, low nibble first; ok=false on a non-digit other than a final 1111 filler
func bcdDigits(o []byte) (string, bool) {
	var sb strings.Builder
	for i, x := range o {
		lo, hi := x&0xf, x>>4
		if lo > 9 {
			return "", false
		}
		sb.WriteByte('0' + lo)
		if hi == 15 && i == len(o)-1 {
			break
		}
		if hi > 9 {
			return "", false
		}
		sb.WriteByte('0' + hi)
	}
	return sb.String(), true
}

func oracleC12(op string, a []string) string {
	if op != "conv" || len(a) < 2 {
		return skip
	}
	if r := oracleC12pure(a); r != "" {
		return r
	}
	fn, a := a[0], a[1:]
	switch fn {
	case "plmn2n":
		mcc, ok1 := unhex(a[0])
		mnc, ok2 := unhex(a[1])
		if !ok1 || !ok2 || len(mcc) != 3 || (len(mnc) != 2 && len(mnc) != 3) || !isDigits(string(mcc)) || !isDigits(string(mnc)) {
			return skip
		}
		w := nasConvert.PlmnIDToNas(models.PlmnId{Mcc: string(mcc), Mnc: string(mnc)})
		if !bytes.Equal(w, plmnOctets(string(mcc), string(mnc))) {
			return fmt.Sprintf("FAIL PLMN %s/%s coded %x, TS 24.008 layout is %x", mcc, mnc, w, plmnOctets(string(mcc), string(mnc)))
		}
		if back := nasConvert.PlmnIDToString(w); back != string(mcc)+string(mnc) {
			return fmt.Sprintf("FAIL PLMN text -> wire -> text = %q", back)
		}
		if r := staleResult(func() []byte { return nasConvert.PlmnIDToNas(models.PlmnId{Mcc: string(mcc), Mnc: string(mnc)}) },
			func() []byte { return nasConvert.PlmnIDToNas(models.PlmnId{Mcc: "999", Mnc: "99"}) }); r != "" {
			return "FAIL PlmnIDToNas: " + r
		}
		return "pass"
	case "plmn2s":
		w, ok := unhex(a[0])
		if !ok || len(w) != 3 {
			return skip
		}
		mcc, mnc, valid := specPlmnText(w)
		if !valid {
			return skip
		}
		if t := nasConvert.PlmnIDToString(w); t != mcc+mnc {
			return fmt.Sprintf("FAIL PLMN octets %x rendered %q, expected %q", w, t, mcc+mnc)
		}
		if back := nasConvert.PlmnIDToNas(models.PlmnId{Mcc: mcc, Mnc: mnc}); !bytes.Equal(back, w) {
			return fmt.Sprintf("FAIL PLMN wire -> text -> wire = %x", back)
		}
		return "pass"
	case "amf2m":
		r, e1 := strconv.ParseUint(a[0], 10, 8)
		s, e2 := strconv.ParseUint(a[1], 10, 16)
		p, e3 := strconv.ParseUint(a[2], 10, 8)
		if e1 != nil || e2 != nil || e3 != nil || s > 1023 || p > 63 {
			return skip
		}
		t := nasConvert.AmfIdToModels(uint8(r), uint16(s), uint8(p))
		if want := fmt.Sprintf("%x", specAmfJoin(uint8(r), uint16(s), uint8(p))); t != want {
			return fmt.Sprintf("FAIL AMF id (%d,%d,%d) rendered %q, 8/10/6 layout is %q", r, s, p, t, want)
		}
		r2, s2, p2, err := nasConvert.AmfIdToNasWithError(t)
		if err != nil || uint64(r2) != r || uint64(s2) != s || uint64(p2) != p {
			return fmt.Sprintf("FAIL AMF id values -> text -> values = (%d,%d,%d) err=%v", r2, s2, p2, err)
		}
		return "pass"
	case "amf2n":
		tb, ok := unhex(a[0])
		if !ok {
			return skip
		}
		t := string(tb)
		r, s, p, err := nasConvert.AmfIdToNasWithError(t)
		if len(t) != 6 || !isHexText(t) {
			if err == nil {
				return fmt.Sprintf("FAIL invalid AMF id text %q accepted", t)
			}
			return "pass"
		}
		if err != nil {
			return fmt.Sprintf("FAIL valid AMF id text %q rejected: %v", t, err)
		}
		o, _ := unhex(strings.ToLower(t))
		r0, s0, p0 := specAmfSplit(o)
		if r != r0 || s != s0 || p != p0 {
			return fmt.Sprintf("FAIL AMF id %q split (%d,%d,%d), 8/10/6 split is (%d,%d,%d)", t, r, s, p, r0, s0, p0)
		}
		if back := nasConvert.AmfIdToModels(r, s, p); back != strings.ToLower(t) {
			return fmt.Sprintf("FAIL AMF id text -> values -> text = %q", back)
		}
		return "pass"
	case "guti2n":
		tb, ok := unhex(a[0])
		if !ok {
			return skip
		}
		t := string(tb)
		g, err := nasConvert.GutiToNasWithError(t)
		valid := (len(t) == 19 || len(t) == 20) && isDigits(t[:len(t)-14]) && isHexText(t[len(t)-14:])
		if !valid {
			if err == nil {
				return fmt.Sprintf("FAIL invalid GUTI text %q accepted", t)
			}
			return "pass"
		}
		if err != nil {
			return fmt.Sprintf("FAIL valid GUTI text %q rejected: %v", t, err)
		}
		n := len(t) - 14
		rest, _ := unhex(strings.ToLower(t[n:]))
		want := append([]byte{0xf2}, plmnOctets(t[:3], t[3:n])...)
		want = append(want, rest...)
		if !bytes.Equal(g.Octet[:], want) || g.Len != 11 {
			return fmt.Sprintf("FAIL GUTI %q coded %x (Len %d), Figure 9.11.3.4.1 layout is %x", t, g.Octet, g.Len, want)
		}
		guami, back, err2 := nasConvert.GutiToStringWithError(g.Octet[:])
		if err2 != nil || back != strings.ToLower(t) || guami.PlmnId == nil || guami.PlmnId.Mcc != t[:3] || guami.PlmnId.Mnc != t[3:n] ||
			guami.AmfId != strings.ToLower(t[n:n+6]) {
			return fmt.Sprintf("FAIL GUTI text -> wire -> text = %q guami=%+v err=%v", back, guami, err2)
		}
		return "pass"
	case "guti2s":
		w, ok := unhex(a[0])
		if !ok {
			return skip
		}
		guami, t, err := nasConvert.GutiToStringWithError(w)
		if len(w) != 11 {
			if err == nil {
				return "FAIL GUTI of wrong length accepted"
			}
			return "pass"
		}
		mcc, mnc, valid := specPlmnText(w[1:4])
		if !valid {
			return skip
		}
		if err != nil {
			return fmt.Sprintf("FAIL valid GUTI rejected: %v", err)
		}
		want := mcc + mnc + fmt.Sprintf("%x", w[4:])
		if t != want || guami.PlmnId == nil || guami.PlmnId.Mcc != mcc || guami.PlmnId.Mnc != mnc || guami.AmfId != fmt.Sprintf("%x", w[4:7]) {
			return fmt.Sprintf("FAIL GUTI %x rendered %q guami=%+v, expected %q", w, t, guami, want)
		}
		if w[0] == 0xf2 {
			g, err := nasConvert.GutiToNasWithError(t)
			if err != nil || !bytes.Equal(g.Octet[:], w) {
				return fmt.Sprintf("FAIL GUTI wire -> text -> wire = %x err=%v", g.Octet, err)
			}
		}
		return "pass"
	case "suci":
		w, ok := unhex(a[0])
		if ok && len(w) >= 2 && w[0]>>4&7 == 1 && w[0]&7 == 1 {
			// SUPI format NAI (TS 24.501 9.11.3.4): the NAI octets rendered as they are, every octet two hex digits
			want := fmt.Sprintf("nai-1-%x", w[1:])
			t, _, err := nasConvert.SuciToStringWithError(w)
			if err != nil || t != want {
				return fmt.Sprintf("FAIL NAI SUCI %x rendered %q err=%v, expected %q", w, t, err, want)
			}
			if m := mobileIdentity(w).GetSUCI(); m != want {
				return fmt.Sprintf("FAIL MobileIdentity5GS.GetSUCI (NAI) = %q, expected %q", m, want)
			}
			return "pass"
		}
		if !ok || len(w) < 9 || w[0]>>4 != 0 {
			return skip
		}
		mcc, mnc, valid := specPlmnText(w[1:4])
		ri, okRi := bcdDigits(w[4:6])
		if !valid || !okRi || w[6] > 15 {
			// a routing indicator may carry filler in both octets' high nibbles; only the all-digit / trailing-filler forms are specified here
			return skip
		}
		if i := strings.IndexByte(fmt.Sprintf("%x%x", w[4]&0xf|w[4]<<4, w[5]&0xf|w[5]<<4), 'f'); i >= 0 && i < len(ri) {
			return skip
		}
		var out string
		if w[6] == 0 {
			var okM bool
			out, okM = bcdDigits(w[8:])
			if !okM {
				return skip
			}
		} else {
			out = fmt.Sprintf("%x", w[8:])
		}
		want := fmt.Sprintf("suci-0-%s-%s-%s-%x-%d-%s", mcc, mnc, ri, w[6], w[7], out)
		t, plmn, err := nasConvert.SuciToStringWithError(w)
		if err != nil || t != want || plmn != mcc+mnc {
			return fmt.Sprintf("FAIL SUCI %x rendered %q plmn %q err=%v, expected %q", w, t, plmn, err, want)
		}
		if m := mobileIdentity(w).GetSUCI(); m != want {
			return fmt.Sprintf("FAIL MobileIdentity5GS.GetSUCI = %q, expected %q", m, want)
		}
		return "pass"
	case "pei":
		w, ok := unhex(a[0])
		if !ok || len(w) < 1 {
			return skip
		}
		typ := w[0] & 7
		if typ != 3 && typ != 5 {
			return skip
		}
		if w[0]>>4 > 9 {
			return skip
		}
		rest, okD := bcdDigits(w[1:])
		odd := w[0]&8 != 0
		if !okD || odd != (len(rest)%2 == 0) {
			return skip // odd/even indication inconsistent with the filler: not a well-formed identity
		}
		pre := "imei-"
		if typ == 5 {
			pre = "imeisv-"
		}
		want := pre + string('0'+w[0]>>4) + rest
		t, err := nasConvert.PeiToStringWithError(w)
		if err != nil || t != want {
			return fmt.Sprintf("FAIL PEI %x rendered %q err=%v, expected %q", w, t, err, want)
		}
		var m string
		if typ == 3 {
			m = mobileIdentity(w).GetIMEI()
		} else {
			m = mobileIdentity(w).GetIMEISV()
		}
		if m != want {
			return fmt.Sprintf("FAIL MobileIdentity5GS getter = %q, expected %q", m, want)
		}
		return "pass"
	case "mi":
		w, ok := unhex(a[1])
		if !ok || len(w) == 0 {
			return skip
		}
		if r := safely(func() string { return miGetter(a[0], w) }); strings.Contains(r, " !") {
			return "FAIL getter " + a[0] + " is not a pure read: " + r
		}
		m := mobileIdentity(w)
		switch {
		case w[0]&7 == 2 && len(w) == 11: // 5G-GUTI
			mcc, mnc, valid := specPlmnText(w[1:4])
			if !valid {
				return skip
			}
			r, s, p := specAmfSplit(w[4:7])
			want := map[string]string{"guti": mcc + mnc + fmt.Sprintf("%x", w[4:]), "mcc": mcc, "mnc": mnc, "plmn": mcc + mnc,
				"amfid": fmt.Sprintf("%x", w[4:7]), "region": fmt.Sprintf("%02x", r), "setid": fmt.Sprint(s), "ptr": fmt.Sprint(p),
				"tmsi": fmt.Sprintf("%x", w[7:]), "type": "5G-GUTI"}
			got := map[string]string{"guti": m.Get5GGUTI(), "mcc": m.GetMCC(), "mnc": m.GetMNC(), "plmn": m.GetPlmnID(), "amfid": m.GetAmfID(),
				"region": m.GetAmfRegionID(), "setid": m.GetAmfSetID(), "ptr": m.GetAmfPointer(), "tmsi": m.Get5GTMSI()}
			got["type"], _ = m.GetTypeOfIdentity()
			for k, v := range want {
				if got[k] != v {
					return fmt.Sprintf("FAIL MobileIdentity5GS(5G-GUTI %x) %s = %q, expected %q", w, k, got[k], v)
				}
			}
			return "pass"
		case w[0]&7 == 4 && len(w) == 7: // 5G-S-TMSI: set (10) | pointer (6) | TMSI (32)
			s := uint16(w[1])<<2 | uint16(w[2])>>6
			p := w[2] & 0x3f
			if g := m.GetAmfSetID(); g != fmt.Sprint(s) {
				return fmt.Sprintf("FAIL 5G-S-TMSI %x AMF set id %q, expected %d", w, g, s)
			}
			if g := m.GetAmfPointer(); g != fmt.Sprint(p) {
				return fmt.Sprintf("FAIL 5G-S-TMSI %x AMF pointer %q, expected %d", w, g, p)
			}
			if g := m.Get5GTMSI(); g != fmt.Sprintf("%x", w[3:7]) {
				return fmt.Sprintf("FAIL 5G-S-TMSI %x TMSI %q", w, g)
			}
			if g, _, err := m.Get5GSTMSI(); err != nil || g != fmt.Sprintf("%x", w[1:7]) {
				return fmt.Sprintf("FAIL 5G-S-TMSI %x text %q err=%v", w, g, err)
			}
			return "pass"
		}
		return skip
	}
	return skip
}

func genConv12(g *Gen, w *bufio.Writer) {
	thorough := g.Tier == "thorough"
	emitPlmn := func(mcc, mnc string) {
		fmt.Fprintf(w, "conv plmn2n %s %s\n", hx(mcc), hx(mnc))
		fmt.Fprintf(w, "conv plmn2s %s\n", hexs(plmnOctets(mcc, mnc)))
	}
	if thorough {
		for v := 0; v < 100000; v++ {
			s := fmt.Sprintf("%05d", v)
			emitPlmn(s[:3], s[3:])
		}
		for v := 0; v < 1000000; v++ {
			s := fmt.Sprintf("%06d", v)
			emitPlmn(s[:3], s[3:])
		}
	} else {
		for _, s := range []string{"00000", "99999", "000000", "999999", "20893", "310260", "001001", "90909", "123456"} {
			emitPlmn(s[:3], s[3:])
		}
		for i := 0; i < 2500; i++ {
			mcc, mnc := g.plmn()
			emitPlmn(mcc, mnc)
		}
	}
	// PLMN octets with non-digit nibbles (correspondence; the oracle skips them)
	for i := 0; i < 300; i++ {
		fmt.Fprintf(w, "conv plmn2s %s\n", hexs(g.Bytes(3)))
	}
	// AMF ids: boundaries of each field, then random (thorough: every set id x pointer for several regions)
	for _, r := range []int{0, 1, 0x7f, 0x80, 0xca, 0xff} {
		for _, s := range []int{0, 1, 2, 3, 4, 0xff, 0x100, 0x155, 0x1ff, 0x200, 0x2aa, 0x3fc, 0x3fe, 0x3ff} {
			for _, p := range []int{0, 1, 0x15, 0x2a, 0x3e, 0x3f} {
				fmt.Fprintf(w, "conv amf2m %d %d %d\n", r, s, p)
				fmt.Fprintf(w, "conv amf2n %s\n", hx(fmt.Sprintf("%x", specAmfJoin(uint8(r), uint16(s), uint8(p)))))
			}
		}
	}
	nAmf := 3000
	if thorough {
		nAmf = 200000
		for s := 0; s < 1024; s++ {
			for p := 0; p < 64; p++ {
				fmt.Fprintf(w, "conv amf2m %d %d %d\n", (s*7+p)&0xff, s, p)
			}
		}
		for v := 0; v < 65536; v++ {
			fmt.Fprintf(w, "conv amf2n %s\n", hx(fmt.Sprintf("%02x%04x", (v*13)&0xff, v)))
		}
	}
	for i := 0; i < nAmf; i++ {
		fmt.Fprintf(w, "conv amf2m %d %d %d\n", g.Intn(256), g.Intn(1024), g.Intn(64))
		t := []byte(g.hexText(6))
		fmt.Fprintf(w, "conv amf2n %s\n", hexs(t))
		if i%4 == 0 {
			fmt.Fprintf(w, "conv amf2n %s\n", hexs(g.mutate(t)))
		}
	}
	for l := 0; l <= 10; l++ {
		fmt.Fprintf(w, "conv amf2n %s\n", hx(g.hexText(l)))
	}
	bad := []byte{'g', 'G', ' ', '-', '+', 0x00, 0x80, 0xff, '/', ':', '@', '`', 'x'}
	// GUTI both directions
	for i := 0; i < g.N*4; i++ {
		t := []byte(g.validGutiText())
		fmt.Fprintf(w, "conv guti2n %s\n", hexs(t))
		if i%3 == 0 {
			c := append([]byte{}, t...)
			c[g.Intn(len(c))] = bad[g.Intn(len(bad))]
			fmt.Fprintf(w, "conv guti2n %s\n", hexs(c))
			fmt.Fprintf(w, "conv guti2n %s\n", hexs(g.mutate(t)))
			// a hex letter (valid further back in the text, and the TBCD filler) in one of the MCC / MNC digit positions
			d := append([]byte{}, t...)
			d[g.Intn(5)] = []byte{'f', 'F', 'a', 'A', 'e'}[g.Intn(5)]
			fmt.Fprintf(w, "conv guti2n %s\n", hexs(d))
		}
		wv := g.validGutiWire()
		if i%5 == 0 {
			wv[5], wv[6] = byte(0xff-g.Intn(4)), byte(g.Intn(256)) // high AMF set ids
		}
		fmt.Fprintf(w, "conv guti2s %s\n", hexs(wv))
		for _, m := range miGetters {
			fmt.Fprintf(w, "conv mi %s %s\n", m, hexs(wv))
		}
		if i%7 == 0 {
			fmt.Fprintf(w, "conv guti2s %s\n", hexs(g.mutate(wv)))
		}
	}
	// SUCI: every routing-indicator length, null and non-null schemes, MSIN / scheme-output lengths and last nibbles
	for i := 0; i < g.N*4; i++ {
		b := g.validSuci()
		if b[6] != 0 && i%2 == 0 {
			b[len(b)-1] = b[len(b)-1]&0xf0 | 0x0f // opaque scheme output ending in nibble 1111 is data, not filler
		}
		fmt.Fprintf(w, "conv suci %s\n", hexs(b))
		fmt.Fprintf(w, "conv mi suci %s\n", hexs(b))
		fmt.Fprintf(w, "conv mi mobid %s\n", hexs(b))
	}
	for last := 0; last < 256; last++ {
		for _, scheme := range []byte{0, 1, 2} {
			b := []byte{0x01, 0x02, 0xf8, 0x39, 0x21, 0x43, scheme, 7, 0x10, 0x32, byte(last)}
			fmt.Fprintf(w, "conv suci %s\n", hexs(b))
		}
	}
	// SUCI in NAI format: every last octet value, realistic NAIs ending in every printable character, lengths 1..40
	for last := 0; last < 256; last++ {
		fmt.Fprintf(w, "conv suci 11%s%02x\n", hexs([]byte("user17@example.")), last)
		fmt.Fprintf(w, "conv suci 11%02x\n", last)
	}
	for c := 0x20; c < 0x7f; c++ {
		fmt.Fprintf(w, "conv suci 11%s\n", hexs(append([]byte("type0.rid61.schid0.userid@5gc.mnc012.mcc345.3gppnetwork."), byte(c))))
	}
	for n := 1; n <= 40; n++ {
		fmt.Fprintf(w, "conv suci 11%s\n", hexs(g.Bytes(n)))
		fmt.Fprintf(w, "conv mi suci 11%s\n", hexs(g.Bytes(n)))
	}
	// PEI
	for i := 0; i < g.N*2; i++ {
		b := g.validPei()
		fmt.Fprintf(w, "conv pei %s\n", hexs(b))
		fmt.Fprintf(w, "conv mi imei %s\n", hexs(b))
		fmt.Fprintf(w, "conv mi imeisv %s\n", hexs(b))
		if i%4 == 0 {
			n := 1 + g.Intn(18) // other digit counts
			d := g.digits(n)
			first := (d[0]-'0')<<4 | []byte{3, 5}[g.Intn(2)]
			if n%2 == 1 {
				first |= 8
			}
			fmt.Fprintf(w, "conv pei %s\n", hexs(append([]byte{first}, bcd(d[1:])...)))
		}
	}
	// 5G-S-TMSI
	for i := 0; i < g.N; i++ {
		b := g.validStmsi()
		for _, m := range []string{"setid", "ptr", "tmsi", "stmsi", "type", "mobid"} {
			fmt.Fprintf(w, "conv mi %s %s\n", m, hexs(b))
		}
	}
}

// a conversion is a function of its argument octets: same answer on a second call with the same slices, arguments untouched
func oracleC12pure(a []string) string {
	r := withTimeout(func() string { return convOp(a) })
	if i := strings.Index(r, " !"); i >= 0 {
		return "FAIL conversion " + a[0] + " is not a function of its arguments:" + r[i+1:]
	}
	return ""
}
