package main

import (
	"bufio"
	"bytes"
	"fmt"
	"strconv"
	"strings"

	"github.com/free5gc/nas/nasConvert"
)

func init() {
	ops["psi2arr"] = func(a []string) string {
		if len(a) != 1 {
			return "bad-op"
		}
		b, ok := unhex(a[0])
		if !ok {
			return "bad-op"
		}
		arr := nasConvert.PSIToBooleanArray(b)
		return "ok " + bools(arr[:])
	}
	ops["psi2buf"] = func(a []string) string {
		if len(a) != 1 || len(a[0]) != 16 {
			return "bad-op"
		}
		var arr [16]bool
		for i := range arr {
			arr[i] = a[0][i] == '1'
		}
		return "ok " + hexs(nasConvert.PSIToBuf(arr))
	}
	ops["prr"] = func(a []string) string {
		if len(a) != 2 {
			return "bad-op"
		}
		var ids []byte
		if a[0] != "nil" {
			x, ok := unhex(a[0])
			if !ok {
				return "bad-op"
			}
			ids = x
		}
		c, ok := unhex(a[1])
		if !ok {
			return "bad-op"
		}
		return "ok " + hexs(nasConvert.PDUSessionReactivationResultErrorCauseToBuf(ids, c))
	}
	ops["pcomar"] = opPcoMar
	ops["pcounm"] = opPcoUnm
	oracles["C16"] = oracleC16
	gens["pco"] = genPco
}

func bools(b []bool) string {
	var sb strings.Builder
	for _, x := range b {
		if x {
			sb.WriteByte('1')
		} else {
			sb.WriteByte('0')
		}
	}
	return sb.String()
}

func parseUnits(s string) ([]*nasConvert.ProtocolOrContainerUnit, bool) {
	var out []*nasConvert.ProtocolOrContainerUnit
	if s == "-" {
		return out, true
	}
	for _, p := range strings.Split(s, ";") {
		f := strings.Split(p, ":")
		if len(f) != 3 {
			return nil, false
		}
		id, e1 := strconv.ParseUint(f[0], 10, 16)
		ln, e2 := strconv.ParseUint(f[1], 10, 8)
		c, ok := unhex(f[2])
		if e1 != nil || e2 != nil || !ok {
			return nil, false
		}
		out = append(out, &nasConvert.ProtocolOrContainerUnit{ProtocolOrContainerID: uint16(id), LengthOfContents: uint8(ln), Contents: c})
	}
	return out, true
}

func showUnits(l []*nasConvert.ProtocolOrContainerUnit) string {
	if len(l) == 0 {
		return "-"
	}
	var p []string
	for _, u := range l {
		p = append(p, fmt.Sprintf("%d:%d:%s", u.ProtocolOrContainerID, u.LengthOfContents, hexs(u.Contents)))
	}
	return strings.Join(p, ";")
}

func opPcoMar(a []string) string {
	if len(a) != 1 {
		return "bad-op"
	}
	l, ok := parseUnits(a[0])
	if !ok {
		return "bad-op"
	}
	pco := nasConvert.NewProtocolConfigurationOptions()
	pco.ProtocolOrContainerList = l
	return "ok " + hexs(pco.Marshal())
}

func opPcoUnm(a []string) string {
	if len(a) != 1 {
		return "bad-op"
	}
	b, ok := unhex(a[0])
	if !ok {
		return "bad-op"
	}
	pco := nasConvert.NewProtocolConfigurationOptions()
	if err := pco.UnMarshal(b); err != nil {
		return "err trunc"
	}
	return "ok " + showUnits(pco.ProtocolOrContainerList)
}

func oracleC16(op string, a []string) string {
	switch op {
	case "pcobuild":
		return oraclePcoBuild(a)
	case "psi2arr":
		b, ok := unhex(a[0])
		if !ok || len(b) != 2 {
			return skip
		}
		arr := nasConvert.PSIToBooleanArray(b)
		for i := 0; i < 16; i++ {
			if arr[i] != (b[i/8]>>uint(i%8)&1 == 1) {
				return fmt.Sprintf("FAIL entry %d does not reflect bit %d of octet %d", i, i%8+1, i/8+1)
			}
		}
		if back := nasConvert.PSIToBuf(arr); !bytes.Equal(back, b) {
			return "FAIL bitmap -> array -> bitmap = " + hexs(back)
		}
		return "pass"
	case "psi2buf":
		if len(a[0]) != 16 {
			return skip
		}
		var arr [16]bool
		for i := range arr {
			arr[i] = a[0][i] == '1'
		}
		buf := nasConvert.PSIToBuf(arr)
		if len(buf) != 2 {
			return "FAIL bitmap is not two octets"
		}
		if back := nasConvert.PSIToBooleanArray(buf); back != arr {
			return "FAIL array -> bitmap -> array differs"
		}
		var inv [16]bool
		for i := range inv {
			inv[i] = !arr[i]
		}
		if r := staleResult(func() []byte { return nasConvert.PSIToBuf(arr) }, func() []byte { return nasConvert.PSIToBuf(inv) }); r != "" {
			return "FAIL PSIToBuf: " + r
		}
		return "pass"
	case "pcomar":
		l, ok := parseUnits(a[0])
		if !ok {
			return skip
		}
		for _, u := range l {
			if int(u.LengthOfContents) != len(u.Contents) {
				return skip
			}
		}
		pco := nasConvert.NewProtocolConfigurationOptions()
		pco.ProtocolOrContainerList = l
		b := pco.Marshal()
		if len(b) == 0 || b[0] != 0x80 {
			return "FAIL first octet is not 0x80"
		}
		back := nasConvert.NewProtocolConfigurationOptions()
		if err := back.UnMarshal(b); err != nil {
			return "FAIL own serialisation does not parse: " + err.Error()
		}
		if showUnits(back.ProtocolOrContainerList) != showUnits(l) {
			return "FAIL round trip differs: " + showUnits(back.ProtocolOrContainerList)
		}
		if r := staleResult(func() []byte { return pco.Marshal() }, func() []byte {
			o := nasConvert.NewProtocolConfigurationOptions()
			o.AddDNSServerIPv4AddressRequest()
			return o.Marshal()
		}); r != "" {
			return "FAIL Marshal: " + r
		}
		return "pass"
	case "pcounm":
		b, ok := unhex(a[0])
		if !ok {
			return skip
		}
		pco := nasConvert.NewProtocolConfigurationOptions()
		_ = pco.UnMarshal(b)
		// every unit the list holds afterwards - also when an error is reported: a caller that logs or uses what was parsed so far
		// must not see contents that are not in the input - must sit in the input at the position the length octets dictate
		pos := 1
		for _, u := range pco.ProtocolOrContainerList {
			if pos+3 > len(b) || int(u.ProtocolOrContainerID) != int(b[pos])<<8|int(b[pos+1]) || u.LengthOfContents != b[pos+2] ||
				pos+3+int(u.LengthOfContents) > len(b) || !bytes.Equal(u.Contents, b[pos+3:pos+3+int(u.LengthOfContents)]) {
				return fmt.Sprintf("FAIL unit %d:%s is not in the input at offset %d", u.ProtocolOrContainerID, hexs(u.Contents), pos)
			}
			pos += 3 + int(u.LengthOfContents)
		}
		return "pass"
	}
	return skip
}

func genPco(g *Gen, w *bufio.Writer) {
	genPcoBuild(g, w, g.N)
	// all 65 536 bitmaps both ways (cheap)
	for v := 0; v < 65536; v++ {
		fmt.Fprintf(w, "psi2arr %02x%02x\n", v&0xff, v>>8)
		var sb strings.Builder
		for i := 0; i < 16; i++ {
			if v>>uint(i)&1 == 1 {
				sb.WriteByte('1')
			} else {
				sb.WriteByte('0')
			}
		}
		fmt.Fprintf(w, "psi2buf %s\n", sb.String())
	}
	fmt.Fprintln(w, "psi2arr -")
	fmt.Fprintln(w, "psi2arr ff")
	fmt.Fprintln(w, "psi2arr 010203")
	fmt.Fprintln(w, "prr nil -")
	fmt.Fprintln(w, "prr - -")
	fmt.Fprintln(w, "prr 01 -")
	for i := 0; i < 50; i++ {
		n := g.Intn(8)
		m := n
		if g.Intn(5) == 0 {
			m = g.Intn(8)
		}
		fmt.Fprintf(w, "prr %s %s\n", hexs(g.Bytes(n)), hexs(g.Bytes(m)))
	}
	unit := func(okLen bool) string {
		n := g.Intn(12)
		if g.Intn(8) == 0 {
			n = 255
		}
		if g.Intn(3) == 0 {
			n = 0
		}
		ln := n
		if !okLen && g.Intn(2) == 0 {
			ln = g.Intn(256)
		}
		id := g.Intn(65536)
		if g.Intn(2) == 0 {
			id = []int{0x000d, 0x0003, 0x000a, 0x0010, 0x000c, 0x8021, 0x0000, 0x0001, 0xffff, 0x00ff, 0xff00}[g.Intn(11)]
		}
		return fmt.Sprintf("%d:%d:%s", id, ln, hexs(g.Bytes(n)))
	}
	// every container identifier of the TS 24.008 10.5.6.3 lists (0x0001..0x0040) and the configuration protocol identifiers, each
	// with empty, short and 255-octet contents, alone and behind / before another unit: handling keyed on one identifier
	for _, id := range append([]int{0x8021, 0xc021, 0xc023, 0xc223, 0x0000, 0xfffe, 0xffff}, seqInts(1, 0x40)...) {
		for _, n := range []int{0, 1, 2, 4, 16, 255} {
			u := fmt.Sprintf("%d:%d:%s", id, n, hexs(g.Bytes(n)))
			fmt.Fprintf(w, "pcomar %s\n", u)
			fmt.Fprintf(w, "pcomar %s;%s\n", u, unit(true))
			fmt.Fprintf(w, "pcomar %s;%s;%s\n", unit(true), u, u)
		}
	}
	for i := 0; i < g.N; i++ {
		k := g.Intn(6)
		var us []string
		for j := 0; j < k; j++ {
			us = append(us, unit(i%4 != 3))
		}
		if k >= 2 && g.Intn(4) == 0 { // a repeated unit (same identifier, same or no contents), adjacent or apart
			us = append(us, us[g.Intn(k)])
		}
		s := "-"
		if len(us) > 0 {
			s = strings.Join(us, ";")
		}
		fmt.Fprintf(w, "pcomar %s\n", s)
	}
	// parse: exhaustive short inputs, valid encodings with truncation at every point, random bytes
	fmt.Fprintln(w, "pcounm -")
	for a := 0; a < 256; a++ {
		fmt.Fprintf(w, "pcounm %02x\n", a)
		fmt.Fprintf(w, "pcounm 80%02x\n", a)
		for b := 0; b < 256; b += 17 {
			fmt.Fprintf(w, "pcounm 80%02x%02x\n", a, b)
			fmt.Fprintf(w, "pcounm 80%02x%02x%02x\n", g.Intn(256), a, b)
			fmt.Fprintf(w, "pcounm 8000%02x%02x%02x\n", g.Intn(4), a, b)
		}
	}
	for i := 0; i < g.N; i++ {
		b := []byte{0x80}
		k := g.Intn(5)
		for j := 0; j < k; j++ {
			n := g.Intn(7)
			if g.Intn(3) == 0 {
				n = 0
			}
			b = append(b, byte(g.Intn(256)), byte(g.Intn(256)), byte(n))
			b = append(b, g.Bytes(n)...)
		}
		fmt.Fprintf(w, "pcounm %s\n", hexs(b))
		if len(b) > 1 {
			fmt.Fprintf(w, "pcounm %s\n", hexs(b[:1+g.Intn(len(b)-1)]))
		}
		if i%3 == 0 {
			fmt.Fprintf(w, "pcounm %s\n", hexs(g.Bytes(g.Intn(24))))
		}
	}
}

func seqInts(lo, hi int) []int {
	var out []int
	for i := lo; i <= hi; i++ {
		out = append(out, i)
	}
	return out
}
