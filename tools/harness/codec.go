package main

import (
	"bytes"
	"errors"
	"fmt"
	"io"
	"os"
	"reflect"
	"strconv"
	"strings"

	"github.com/free5gc/nas"
)

func init() {
	ops["dec"] = opDec
	ops["dec2"] = opDec2
	ops["dec2x"] = opDec2x
	ops["enc"] = opEnc
	ops["enc2"] = opEnc2
	ops["decsh"] = opDecSh
	ops["rt4"] = opRt4
	ops["canon"] = opCanon
	ops["encnone"] = func([]string) string {
		_, err := nas.NewMessage().PlainNasEncode()
		if err != nil {
			return "err " + errClass(err)
		}
		return "ok"
	}
}

// ---- canonical printing of decoded values (reflection over the real structs) ----

func errClass(err error) string {
	s := err.Error()
	switch {
	case errors.Is(err, io.EOF), errors.Is(err, io.ErrUnexpectedEOF):
		return "trunc"
	case strings.Contains(s, "invalid ie length"):
		return "badLen"
	case strings.Contains(s, "doesn't exist"), strings.Contains(s, "is not allowed"):
		return "unknown"
	case strings.Contains(s, "is nil"), strings.Contains(s, "empty"):
		return "empty"
	}
	return "other"
}

// showIE prints one nasType struct value as iei:len:hex
func showIE(name string, v reflect.Value) string {
	var iei, ln uint64
	var data []byte
	for i := 0; i < v.NumField(); i++ {
		f := v.Field(i)
		switch v.Type().Field(i).Name {
		case "Iei":
			iei = f.Uint()
		case "Len":
			ln = f.Uint()
		case "Octet":
			if f.Kind() == reflect.Uint8 {
				data = []byte{byte(f.Uint())}
			} else {
				data = make([]byte, f.Len())
				for j := range data {
					data[j] = byte(f.Index(j).Uint())
				}
			}
		case "Buffer":
			data = f.Bytes()
		}
	}
	return fmt.Sprintf("%s=%d:%d:%s", name, iei, ln, hexs(data))
}

func showBody(name string, body reflect.Value) string {
	var parts []string
	t := body.Type()
	for i := 0; i < body.NumField(); i++ {
		f := body.Field(i)
		if f.Kind() == reflect.Ptr {
			if f.IsNil() {
				continue
			}
			f = f.Elem()
		}
		parts = append(parts, showIE(t.Field(i).Name, f))
	}
	if len(parts) == 0 {
		return name + " -"
	}
	return name + " " + strings.Join(parts, ";")
}

func showFamily(fam string, hdr []byte, fv reflect.Value) string {
	var bodies []string
	for i := 1; i < fv.NumField(); i++ {
		f := fv.Field(i)
		if f.Kind() == reflect.Ptr && !f.IsNil() {
			bodies = append(bodies, showBody(fv.Type().Field(i).Name, f.Elem()))
		}
	}
	return fmt.Sprintf("%s hdr=%s %s", fam, hexs(hdr), strings.Join(bodies, " | "))
}

func showNas(m *nas.Message) string {
	var parts []string
	if m.GmmMessage != nil {
		parts = append(parts, showFamily("gmm", m.GmmMessage.GmmHeader.Octet[:], reflect.ValueOf(m.GmmMessage).Elem()))
	}
	if m.GsmMessage != nil {
		parts = append(parts, showFamily("gsm", m.GsmMessage.GsmHeader.Octet[:], reflect.ValueOf(m.GsmMessage).Elem()))
	}
	if len(parts) == 0 {
		return "none"
	}
	return strings.Join(parts, " && ")
}

// message struct registry: name -> pointer type, from the fields of GmmMessage / GsmMessage
var msgTypes = func() map[string]reflect.Type {
	m := map[string]reflect.Type{}
	for _, t := range []reflect.Type{reflect.TypeOf(nas.GmmMessage{}), reflect.TypeOf(nas.GsmMessage{})} {
		for i := 1; i < t.NumField(); i++ {
			m[t.Field(i).Name] = t.Field(i).Type
		}
	}
	return m
}()

func parseInput(s string) (*[]byte, bool) {
	if s == "nil" {
		return nil, true
	}
	b, ok := unhex(s)
	if !ok {
		return nil, false
	}
	return &b, true
}

func decodeEntry(entry string, in *[]byte) (*nas.Message, string) {
	m := nas.NewMessage()
	var err error
	switch entry {
	case "plain":
		err = m.PlainNasDecode(in)
	case "gmm":
		err = m.GmmMessageDecode(in)
	case "gsm":
		err = m.GsmMessageDecode(in)
	default:
		return nil, "bad-op"
	}
	if err != nil {
		return nil, "err " + errClass(err)
	}
	return m, "ok " + showNas(m)
}

func opDec(args []string) string {
	if len(args) != 2 {
		return "bad-op"
	}
	in, ok := parseInput(args[1])
	if !ok {
		return "bad-op"
	}
	if pt, ok := msgTypes[args[0]]; ok {
		if in == nil {
			return "bad-op"
		}
		body := reflect.New(pt.Elem())
		res := body.MethodByName("Decode" + args[0]).Call([]reflect.Value{reflect.ValueOf(in)})
		if !res[0].IsNil() {
			return "err " + errClass(res[0].Interface().(error))
		}
		return "ok " + showBody(args[0], body.Elem())
	}
	_, out := decodeEntry(args[0], in)
	return out
}

func decodeInto(m *nas.Message, entry string, in *[]byte) error {
	switch entry {
	case "plain":
		return m.PlainNasDecode(in)
	case "gmm":
		return m.GmmMessageDecode(in)
	case "gsm":
		return m.GsmMessageDecode(in)
	}
	return errors.New("bad entry")
}

// dec2 <entry> <hexA> <hexB>: decode A, then B, into the SAME Message (callers that recycle a Message). Within one family the
// decoder starts from a fresh family struct, so the outcome must be that of decoding B into a fresh Message. (Across families
// the other family's pointer is left as it was: outside C05's quantifier, which is over inputs; such pairs are not an op.)
func opDec2(args []string) string {
	if len(args) == 3 {
		if pt, ok := msgTypes[args[0]]; ok {
			// one message struct decoded into twice: the second result is that of a fresh struct (optional elements of the
			// first input that the second does not carry stay attached on the unchanged tree too, so only inputs without an
			// optional part are paired: the generator takes care of that)
			a, ok1 := unhex(args[1])
			b, ok2 := unhex(args[2])
			if !ok1 || !ok2 {
				return "bad-op"
			}
			body := reflect.New(pt.Elem())
			body.MethodByName("Decode" + args[0]).Call([]reflect.Value{reflect.ValueOf(&a)})
			res := body.MethodByName("Decode" + args[0]).Call([]reflect.Value{reflect.ValueOf(&b)})
			if !res[0].IsNil() {
				return "err " + errClass(res[0].Interface().(error))
			}
			return "ok " + showBody(args[0], body.Elem())
		}
	}
	if len(args) != 3 || (args[0] != "plain" && args[0] != "gmm" && args[0] != "gsm") {
		return "bad-op"
	}
	a, ok1 := unhex(args[1])
	b, ok2 := unhex(args[2])
	if !ok1 || !ok2 {
		return "bad-op"
	}
	if args[0] == "plain" && (len(a) == 0 || len(b) == 0 || a[0] != b[0]) {
		return "bad-op"
	}
	m := nas.NewMessage()
	_ = decodeInto(m, args[0], &a)
	if err := decodeInto(m, args[0], &b); err != nil {
		return "err " + errClass(err)
	}
	return "ok " + showNas(m)
}

// dec2x <hexA> <hexB>: A then B through PlainNasDecode into one Message, any two inputs (other family included). What the
// Message holds afterwards is not specified across families; that the second call returns is (C01): "done", or the harness
// reports the panic.
func opDec2x(args []string) string {
	if len(args) != 2 {
		return "bad-op"
	}
	a, ok1 := unhex(args[0])
	b, ok2 := unhex(args[1])
	if !ok1 || !ok2 {
		return "bad-op"
	}
	m := nas.NewMessage()
	_ = m.PlainNasDecode(&a)
	_ = m.PlainNasDecode(&b)
	return "done"
}

type ieSpec struct {
	name     string
	iei, len uint64
	data     []byte
}

func parseFields(s string) ([]ieSpec, bool) {
	if s == "-" {
		return nil, true
	}
	var out []ieSpec
	for _, p := range strings.Split(s, ";") {
		eq := strings.SplitN(p, "=", 2)
		if len(eq) != 2 {
			return nil, false
		}
		c := strings.Split(eq[1], ":")
		if len(c) != 3 {
			return nil, false
		}
		i, e1 := strconv.ParseUint(c[0], 10, 8)
		l, e2 := strconv.ParseUint(c[1], 10, 16)
		d, ok := unhex(c[2])
		if e1 != nil || e2 != nil || !ok {
			return nil, false
		}
		out = append(out, ieSpec{eq[0], i, l, d})
	}
	return out, true
}

// buildBody fills a message struct from field specs; returns false if a spec cannot be represented
func buildBody(pt reflect.Type, fs []ieSpec) (reflect.Value, bool) {
	body := reflect.New(pt.Elem())
	bv := body.Elem()
	for _, s := range fs {
		f := bv.FieldByName(s.name)
		if !f.IsValid() {
			return body, false
		}
		if f.Kind() == reflect.Ptr {
			f.Set(reflect.New(f.Type().Elem()))
			f = f.Elem()
		}
		if x := f.FieldByName("Iei"); x.IsValid() {
			x.SetUint(s.iei)
		} else if s.iei != 0 {
			return body, false
		}
		if x := f.FieldByName("Len"); x.IsValid() {
			if x.Kind() == reflect.Uint8 && s.len > 255 {
				return body, false
			}
			x.SetUint(s.len)
		} else if s.len != 0 {
			return body, false
		}
		if x := f.FieldByName("Octet"); x.IsValid() {
			if x.Kind() == reflect.Uint8 {
				if len(s.data) != 1 {
					return body, false
				}
				x.SetUint(uint64(s.data[0]))
			} else {
				if len(s.data) != x.Len() {
					return body, false
				}
				for j := range s.data {
					x.Index(j).SetUint(uint64(s.data[j]))
				}
			}
		} else if x := f.FieldByName("Buffer"); x.IsValid() {
			x.SetBytes(append([]byte{}, s.data...))
			if len(s.data) == 0 && (len(s.name)+int(s.iei))%2 == 0 {
				// a zero-length element as a constructor leaves it: Buffer nil, not an empty slice (half of them, chosen by name)
				x.Set(reflect.Zero(x.Type()))
			}
		} else if len(s.data) != 0 {
			return body, false
		}
	}
	return body, true
}

func buildMessage(fam string, hdr []byte, name string, fs []ieSpec) (*nas.Message, reflect.Value, bool) {
	pt, ok := msgTypes[name]
	if !ok {
		return nil, reflect.Value{}, false
	}
	body, ok := buildBody(pt, fs)
	if !ok {
		return nil, body, false
	}
	m := nas.NewMessage()
	switch fam {
	case "gmm":
		if len(hdr) != 3 {
			return nil, body, false
		}
		m.GmmMessage = nas.NewGmmMessage()
		copy(m.GmmMessage.GmmHeader.Octet[:], hdr)
		f := reflect.ValueOf(m.GmmMessage).Elem().FieldByName(name)
		if !f.IsValid() {
			return nil, body, false
		}
		f.Set(body)
	case "gsm":
		if len(hdr) != 4 {
			return nil, body, false
		}
		m.GsmMessage = nas.NewGsmMessage()
		copy(m.GsmMessage.GsmHeader.Octet[:], hdr)
		f := reflect.ValueOf(m.GsmMessage).Elem().FieldByName(name)
		if !f.IsValid() {
			return nil, body, false
		}
		f.Set(body)
	case "msg":
	default:
		return nil, body, false
	}
	return m, body, true
}

func encodeBuilt(fam, name string, m *nas.Message, body reflect.Value, pre []byte) ([]byte, error) {
	if fam == "msg" {
		buf := bytes.NewBuffer(pre)
		res := body.MethodByName("Encode" + name).Call([]reflect.Value{reflect.ValueOf(buf)})
		if !res[0].IsNil() {
			return nil, res[0].Interface().(error)
		}
		return buf.Bytes(), nil
	}
	out, err := m.PlainNasEncode()
	if err == nil {
		// the result is a value of its own: a later PlainNasEncode (of another message) must not overwrite it
		snap := append([]byte{}, out...)
		other := nas.NewMessage()
		ob := []byte{0x7e, 0x00, 0x55}
		if other.PlainNasDecode(&ob) == nil {
			_, _ = other.PlainNasEncode()
			_, _ = other.PlainNasEncode()
		}
		if !bytes.Equal(out, snap) {
			return nil, errStaleEncode
		}
	}
	return out, err
}

var errStaleEncode = errors.New("the bytes returned by PlainNasEncode were overwritten by a later PlainNasEncode")

// enc <gmm|gsm|msg> hdr=<hex> <Msg> <fields>
func opEnc(args []string) string {
	if len(args) != 4 || !strings.HasPrefix(args[1], "hdr=") {
		return "bad-op"
	}
	hdr, ok1 := unhex(args[1][4:])
	fs, ok2 := parseFields(args[3])
	if !ok1 || !ok2 {
		return "bad-op"
	}
	m, body, ok := buildMessage(args[0], hdr, args[2], fs)
	if !ok {
		return "bad-op"
	}
	out, err := encodeBuilt(args[0], args[2], m, body, nil)
	if err != nil {
		return "err " + errClass(err)
	}
	return "ok " + hexs(out)
}

func opRt4(args []string) string {
	if len(args) != 1 {
		return "bad-op"
	}
	in, ok := unhex(args[0])
	if !ok {
		return "bad-op"
	}
	m1, o := decodeEntry("plain", &in)
	if m1 == nil {
		return "dec1 " + o
	}
	b1, err := m1.PlainNasEncode()
	if err != nil {
		return "enc1 err " + errClass(err)
	}
	b1c := append([]byte{}, b1...)
	m2, o2 := decodeEntry("plain", &b1c)
	if m2 == nil {
		return "dec2 " + o2
	}
	b2, err := m2.PlainNasEncode()
	if err != nil {
		return "enc2 err " + errClass(err)
	}
	return fmt.Sprintf("ok %s %s same=%v", hexs(b1), hexs(b2), showNas(m1) == showNas(m2))
}

// canon <hex>: decode, re-encode; prints the re-encoding
func opCanon(args []string) string {
	if len(args) != 1 {
		return "bad-op"
	}
	in, ok := unhex(args[0])
	if !ok {
		return "bad-op"
	}
	m1, o := decodeEntry("plain", &in)
	if m1 == nil {
		return "dec " + o
	}
	b1, err := m1.PlainNasEncode()
	if err != nil {
		return "enc err " + errClass(err)
	}
	return "ok " + hexs(b1)
}

// ---- spec view (C04): values shown as the TS 24.501 value part, using the pinned tables ----

var specTables *fTables

func specT() *fTables {
	if specTables == nil {
		sp := os.Getenv("VERIF_SPEC")
		if sp == "" {
			sp = "/verif/spec"
		}
		specTables = loadTables(sp)
	}
	return specTables
}

func init() {
	ops["sdec"] = opSdec
	ops["senc"] = opSenc
	oracles["C04"] = func(op string, args []string) string { return skip }
}

// value part of an element as the spec sees it: the first Len octets for lengthed elements stored in arrays
func specValue(s *fSlot, v reflect.Value) (iei, ln uint64, val []byte) {
	if f := v.FieldByName("Iei"); f.IsValid() {
		iei = f.Uint()
	}
	if f := v.FieldByName("Len"); f.IsValid() {
		ln = f.Uint()
	}
	val = getContents(v)
	if s.LenSize > 0 && s.Store == "arr" && s.Span == "toLen" && int(ln) <= len(val) {
		val = val[:ln]
	}
	return
}

// sdec <Msg> <hex>: Decode<Msg> on the real code, shown in the spec's vocabulary
func opSdec(args []string) string {
	if len(args) != 2 {
		return "bad-op"
	}
	pt, ok := msgTypes[args[0]]
	in, ok2 := unhex(args[1])
	m := specT().msg(args[0])
	if !ok || !ok2 || m == nil {
		return "bad-op"
	}
	body := reflect.New(pt.Elem())
	res := body.MethodByName("Decode" + args[0]).Call([]reflect.Value{reflect.ValueOf(&in)})
	if !res[0].IsNil() {
		return "err"
	}
	var parts []string
	slots := append(append([]fSlot{}, m.DecMan...), m.DecOpt...)
	for i := range slots {
		f := body.Elem().FieldByName(slots[i].Name)
		if !f.IsValid() {
			return "bad-op"
		}
		if f.Kind() == reflect.Ptr {
			if f.IsNil() {
				continue
			}
			f = f.Elem()
		}
		iei, ln, val := specValue(&slots[i], f)
		parts = append(parts, fmt.Sprintf("%s=%d:%d:%s", slots[i].Name, iei, ln, hexs(val)))
	}
	if len(parts) == 0 {
		return "ok " + args[0] + " -"
	}
	return "ok " + args[0] + " " + strings.Join(parts, ";")
}

// senc <Msg> <fields (spec values)>: Encode<Msg> on the real code
func opSenc(args []string) string {
	if len(args) != 2 {
		return "bad-op"
	}
	pt, ok := msgTypes[args[0]]
	fs, ok2 := parseFields(args[1])
	m := specT().msg(args[0])
	if !ok || !ok2 || m == nil {
		return "bad-op"
	}
	// pad array-stored values back to the array size
	slots := append(append([]fSlot{}, m.DecMan...), m.DecOpt...)
	for i := range fs {
		for j := range slots {
			if slots[j].Name == fs[i].name && slots[j].Store == "arr" && len(fs[i].data) < slots[j].ArrN {
				fs[i].data = append(append([]byte{}, fs[i].data...), make([]byte, slots[j].ArrN-len(fs[i].data))...)
			}
		}
	}
	body, ok := buildBody(pt, fs)
	if !ok {
		return "bad-op"
	}
	out, err := encodeBuilt("msg", args[0], nil, body, nil)
	if err != nil {
		return "err"
	}
	return "ok " + hexs(out)
}

// enc2 <fam> hdr=<hex> <Msg> <fields> <StaleMsg> <staleFields>: the Message also holds the body of another message of the same
// family (an object that was used for an earlier message and then given a new header type and body): the encoders dispatch on
// the header's message type
func opEnc2(args []string) string {
	if len(args) != 6 || !strings.HasPrefix(args[1], "hdr=") || (args[0] != "gmm" && args[0] != "gsm") || args[2] == args[4] {
		return "bad-op"
	}
	hdr, ok1 := unhex(args[1][4:])
	fs, ok2 := parseFields(args[3])
	sfs, ok3 := parseFields(args[5])
	if !ok1 || !ok2 || !ok3 {
		return "bad-op"
	}
	m, body, ok := buildMessage(args[0], hdr, args[2], fs)
	spt, oks := msgTypes[args[4]]
	if !ok || !oks {
		return "bad-op"
	}
	stale, ok := buildBody(spt, sfs)
	if !ok {
		return "bad-op"
	}
	var fam reflect.Value
	if args[0] == "gmm" {
		fam = reflect.ValueOf(m.GmmMessage).Elem()
	} else {
		fam = reflect.ValueOf(m.GsmMessage).Elem()
	}
	f := fam.FieldByName(args[4])
	if !f.IsValid() {
		return "bad-op"
	}
	f.Set(stale)
	out, err := encodeBuilt(args[0], args[2], m, body, nil)
	if err != nil {
		return "err " + errClass(err)
	}
	return "ok " + hexs(out)
}

// decsh <security header type> <hex>: PlainNasDecode into a Message whose SecurityHeader the caller has already filled in (what
// an AMF does after stripping the outer security header of a protected message): the call returns
func opDecSh(args []string) string {
	if len(args) != 2 {
		return "bad-op"
	}
	sht, err := strconv.ParseUint(args[0], 10, 8)
	b, ok := unhex(args[1])
	if err != nil || !ok {
		return "bad-op"
	}
	m := nas.NewMessage()
	m.SecurityHeader = nas.SecurityHeader{ProtocolDiscriminator: 0x7e, SecurityHeaderType: uint8(sht), MessageAuthenticationCode: 0xdeadbeef, SequenceNumber: 7}
	_ = m.PlainNasDecode(&b)
	return "done"
}
