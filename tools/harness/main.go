// Differential harness: runs the real free5gc/nas code in-process on line-protocol ops.
//
//	harness gen <domain> [-seed N] [-n N] [-tier quick|thorough]   -> op lines on stdout
//	harness run                                                   -> reads op lines, prints outcome per line
//	harness oracle <Cxx>                                          -> reads op lines, prints pass / FAIL <detail> per line
package main

import (
	"bufio"
	"flag"
	"fmt"
	"io"
	"os"
	"strings"
	"time"

	"github.com/free5gc/nas/logger"
)

type opFunc func(args []string) string

var ops = map[string]opFunc{}

type oracleFunc func(op string, args []string) string

var oracles = map[string]oracleFunc{}

type genFunc func(g *Gen, w *bufio.Writer)

var gens = map[string]genFunc{}

func main() {
	logger.GetLogger().SetOutput(io.Discard) // the library logs through logrus; keep the protocol streams clean
	if len(os.Args) < 2 {
		fmt.Fprintln(os.Stderr, "usage: harness gen|run|oracle ...")
		os.Exit(2)
	}
	switch os.Args[1] {
	case "gen":
		fs := flag.NewFlagSet("gen", flag.ExitOnError)
		seed := fs.Uint64("seed", 1, "seed")
		n := fs.Int("n", 1000, "approximate number of random cases")
		tier := fs.String("tier", "quick", "tier")
		factsDir := fs.String("facts", "/verif/build/facts", "facts dir")
		focus := fs.String("focus", "", "comma-separated focus targets (msg:<Name>, type:<IEType>, entry, fn:<name>): deep search there only")
		if len(os.Args) < 3 {
			os.Exit(2)
		}
		dom := os.Args[2]
		fs.Parse(os.Args[3:])
		f, ok := gens[dom]
		if !ok {
			fmt.Fprintln(os.Stderr, "unknown generator", dom)
			os.Exit(2)
		}
		w := bufio.NewWriterSize(os.Stdout, 1<<20)
		g := &Gen{s: *seed*0x9E3779B97F4A7C15 + 0x1234567, N: *n, Tier: *tier, Facts: *factsDir}
		if *focus != "" {
			g.Focus = strings.Split(*focus, ",")
		}
		f(g, w)
		w.Flush()
	case "run":
		// every op runs under a watchdog: a call that does not return (a decoder that stops making progress, a helper
		// that loops forever) is reported as `hang` for that line and the process stops there, because the stuck goroutine
		// cannot be killed; the runner sees the short stream
		runLines(func(op string, args []string) string {
			f, ok := ops[op]
			if !ok {
				return "bad-op"
			}
			return withTimeoutD(limitFor(op), func() string { return f(args) })
		})
	case "conc":
		fs := flag.NewFlagSet("conc", flag.ExitOnError)
		g := fs.Int("g", 64, "goroutines")
		fs.Parse(os.Args[2:])
		concMain(*g)
	case "oracle":
		if len(os.Args) < 3 {
			os.Exit(2)
		}
		f, ok := oracles[os.Args[2]]
		if !ok {
			fmt.Fprintln(os.Stderr, "unknown oracle", os.Args[2])
			os.Exit(2)
		}
		// the oracles run with the library's logger at trace level (output still discarded): code that only runs when a debug or
		// trace line is enabled is part of the library too; the correspondence run keeps the default level, so both states are seen
		logger.GetLogger().SetLevel(logger.GetLogger().Level + 2)
		runLines(func(op string, args []string) string {
			r := withTimeoutD(limitFor(op), func() string { return f(op, args) })
			if r == "hang" {
				return "FAIL hang: the call did not return within the watchdog limit"
			}
			return r
		})
	default:
		os.Exit(2)
	}
}

// limitFor: decoders, encoders, helpers answer in milliseconds; only the long counter walks and cipher sweeps get more
func limitFor(op string) time.Duration {
	switch op {
	case "cnt", "cntwalk", "ks", "nea", "nia", "snea", "snia":
		return hangLimitOuter
	}
	return hangLimit
}

func safely(f func() string) (out string) {
	defer func() {
		if r := recover(); r != nil {
			out = "panic"
			if os.Getenv("VERIF_PANIC_DETAIL") != "" {
				out = fmt.Sprintf("panic %v", r)
			}
		}
	}()
	return f()
}

func runLines(f func(op string, args []string) string) {
	sc := bufio.NewScanner(os.Stdin)
	sc.Buffer(make([]byte, 1<<20), 1<<26)
	w := bufio.NewWriterSize(os.Stdout, 1<<20)
	defer w.Flush()
	for sc.Scan() {
		toks := strings.Fields(sc.Text())
		if len(toks) == 0 {
			fmt.Fprintln(w, "bad-op")
			continue
		}
		fmt.Fprintln(w, f(toks[0], toks[1:]))
		if hangExit { // a call did not return: its goroutine is still spinning, stop here (the runner sees the short stream)
			w.Flush()
			os.Exit(3)
		}
	}
}

// ---- PRNG: splitmix64, every random choice derives from it ----

type Gen struct {
	s     uint64
	N     int
	Tier  string
	Facts string
	Focus []string // non-empty: the run is a focused search (an obligation broke there); generators emit their deep families only
}

// focused reports whether a focus target `kind:name` (or the bare word kind) was requested
func (g *Gen) focused(kind, name string) bool {
	for _, f := range g.Focus {
		if f == kind || f == kind+":"+name || f == kind+":*" {
			return true
		}
	}
	return false
}

var smallAlphabet = []byte{0, 1, 2, 3, 4, 5, 8, 0x0f, 0x10, 0x2e, 0x7e, 0x7f, 0x80, 0xf0, 0xff}

// Content: n octets of element content. Uniform noise almost never looks like what a content-interpreting code path tests for,
// so most draws are structured: constant fills, a small alphabet, an embedded type/identifier/16-bit-length header (EAP-like), a
// counted list of 16-bit-length-prefixed entries, a run of 8-bit-length-prefixed entries.
func (g *Gen) Content(n int) []byte {
	b := make([]byte, n)
	switch g.Intn(12) {
	case 0:
	case 1:
		for i := range b {
			b[i] = 0xff
		}
	case 2:
		v := byte(g.U64())
		for i := range b {
			b[i] = v
		}
	case 3, 4:
		for i := range b {
			b[i] = smallAlphabet[g.Intn(len(smallAlphabet))]
		}
	case 5:
		copy(b, g.Bytes(n))
		if n >= 4 {
			b[0] = byte(1 + g.Intn(4))
			k := g.Intn(n + 2)
			b[2], b[3] = byte(k>>8), byte(k)
		}
	case 6:
		// [count][len16 entry]... consistent with n whenever possible
		if n >= 1 {
			pos, cnt := 1, 0
			for pos+2 <= n && cnt < 255 && (cnt == 0 || g.Intn(3) != 0) {
				room := n - pos - 2
				e := g.Intn(min(room, 3) + 1)
				if g.Intn(3) == 0 {
					e = room // last entry takes what is left
				}
				b[pos], b[pos+1] = byte(e>>8), byte(e)
				copy(b[pos+2:], g.Bytes(e))
				pos += 2 + e
				cnt++
			}
			b[0] = byte(cnt)
		}
	case 7:
		for pos := 0; pos < n; {
			e := g.Intn(min(n-pos-1, 6) + 1)
			b[pos] = byte(e)
			copy(b[pos+1:], g.Bytes(e))
			pos += 1 + e
		}
	default:
		copy(b, g.Bytes(n))
	}
	return b
}

func (g *Gen) U64() uint64 {
	g.s += 0x9E3779B97F4A7C15
	z := g.s
	z = (z ^ (z >> 30)) * 0xBF58476D1CE4E5B9
	z = (z ^ (z >> 27)) * 0x94D049BB133111EB
	return z ^ (z >> 31)
}
func (g *Gen) Intn(n int) int {
	if n <= 0 {
		return 0
	}
	return int(g.U64() % uint64(n))
}
func (g *Gen) Bool() bool { return g.U64()&1 == 1 }
func (g *Gen) Bytes(n int) []byte {
	b := make([]byte, n)
	for i := range b {
		b[i] = byte(g.U64())
	}
	return b
}

func hexs(b []byte) string {
	if len(b) == 0 {
		return "-"
	}
	return fmt.Sprintf("%x", b)
}

// unhex: the octets as a window of a larger buffer whose spare capacity is filled with a pattern — every byte slice handed to the
// library is what a caller's receive buffer looks like: something else lies behind the message. Code that reads through the
// capacity instead of the length then computes with those octets and its result differs from the model's / the specification's.
func unhex(s string) ([]byte, bool) {
	if s == "-" {
		return junkCap(0), true
	}
	if len(s)%2 != 0 {
		return nil, false
	}
	b := junkCap(len(s) / 2)
	for i := 0; i < len(b); i++ {
		h, ok1 := hv(s[2*i])
		l, ok2 := hv(s[2*i+1])
		if !ok1 || !ok2 {
			return nil, false
		}
		b[i] = h<<4 | l
	}
	return b, true
}

func junkCap(n int) []byte {
	buf := make([]byte, n+16)
	for i := n; i < len(buf); i++ {
		buf[i] = byte(0xa5 ^ i)
	}
	return buf[:n]
}

func hv(c byte) (byte, bool) {
	switch {
	case c >= '0' && c <= '9':
		return c - '0', true
	case c >= 'a' && c <= 'f':
		return c - 'a' + 10, true
	case c >= 'A' && c <= 'F':
		return c - 'A' + 10, true
	}
	return 0, false
}
