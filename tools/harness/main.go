// Differential harness: runs the real free5gc/nas code in-process on line-protocol ops.
//
//	harness gen <domain> [-seed N] [-n N] [-tier quick|thorough]   -> op lines on stdout
//	harness run                                                   -> reads op lines, prints outcome per line
//	harness oracle <Cxx>                                          -> reads op lines, prints pass / FAIL <detail> per line
package main

import (
	"bufio"
	"flag"
	"fmt"
	"io"
	"os"
	"strings"
	"time"

	"github.com/free5gc/nas/logger"
)

type opFunc func(args []string) string

var ops = map[string]opFunc{}

type oracleFunc func(op string, args []string) string

var oracles = map[string]oracleFunc{}

type genFunc func(g *Gen, w *bufio.Writer)

var gens = map[string]genFunc{}

func main() {
	logger.GetLogger().SetOutput(io.Discard) // the library logs through logrus; keep the protocol streams clean
	if len(os.Args) < 2 {
		fmt.Fprintln(os.Stderr, "usage: harness gen|run|oracle ...")
		os.Exit(2)
	}
	switch os.Args[1] {
	case "gen":
		fs := flag.NewFlagSet("gen", flag.ExitOnError)
		seed := fs.Uint64("seed", 1, "seed")
		n := fs.Int("n", 1000, "approximate number of random cases")
		tier := fs.String("tier", "quick", "tier")
		factsDir := fs.String("facts", "/verif/build/facts", "facts dir")
		if len(os.Args) < 3 {
			os.Exit(2)
		}
		dom := os.Args[2]
		fs.Parse(os.Args[3:])
		f, ok := gens[dom]
		if !ok {
			fmt.Fprintln(os.Stderr, "unknown generator", dom)
			os.Exit(2)
		}
		w := bufio.NewWriterSize(os.Stdout, 1<<20)
		g := &Gen{s: *seed*0x9E3779B97F4A7C15 + 0x1234567, N: *n, Tier: *tier, Facts: *factsDir}
		f(g, w)
		w.Flush()
	case "run":
		// every op runs under a watchdog: a call that does not return (a decoder that stops making progress, a helper
		// that loops forever) is reported as `hang` for that line and the process stops there, because the stuck goroutine
		// cannot be killed; the runner sees the short stream
		runLines(func(op string, args []string) string {
			f, ok := ops[op]
			if !ok {
				return "bad-op"
			}
			return withTimeoutD(limitFor(op), func() string { return f(args) })
		})
	case "conc":
		fs := flag.NewFlagSet("conc", flag.ExitOnError)
		g := fs.Int("g", 64, "goroutines")
		fs.Parse(os.Args[2:])
		concMain(*g)
	case "oracle":
		if len(os.Args) < 3 {
			os.Exit(2)
		}
		f, ok := oracles[os.Args[2]]
		if !ok {
			fmt.Fprintln(os.Stderr, "unknown oracle", os.Args[2])
			os.Exit(2)
		}
		runLines(func(op string, args []string) string {
			r := withTimeoutD(limitFor(op), func() string { return f(op, args) })
			if r == "hang" {
				return "FAIL hang: the call did not return within the watchdog limit"
			}
			return r
		})
	default:
		os.Exit(2)
	}
}

// limitFor: decoders, encoders, helpers answer in milliseconds; only the long counter walks and cipher sweeps get more
func limitFor(op string) time.Duration {
	switch op {
	case "cnt", "cntwalk", "ks", "nea", "nia", "snea", "snia":
		return hangLimitOuter
	}
	return hangLimit
}

func safely(f func() string) (out string) {
	defer func() {
		if r := recover(); r != nil {
			out = "panic"
			if os.Getenv("VERIF_PANIC_DETAIL") != "" {
				out = fmt.Sprintf("panic %v", r)
			}
		}
	}()
	return f()
}

func runLines(f func(op string, args []string) string) {
	sc := bufio.NewScanner(os.Stdin)
	sc.Buffer(make([]byte, 1<<20), 1<<26)
	w := bufio.NewWriterSize(os.Stdout, 1<<20)
	defer w.Flush()
	for sc.Scan() {
		toks := strings.Fields(sc.Text())
		if len(toks) == 0 {
			fmt.Fprintln(w, "bad-op")
			continue
		}
		fmt.Fprintln(w, f(toks[0], toks[1:]))
		if hangExit { // a call did not return: its goroutine is still spinning, stop here (the runner sees the short stream)
			w.Flush()
			os.Exit(3)
		}
	}
}

// ---- PRNG: splitmix64, every random choice derives from it ----

type Gen struct {
	s     uint64
	N     int
	Tier  string
	Facts string
}

func (g *Gen) U64() uint64 {
	g.s += 0x9E3779B97F4A7C15
	z := g.s
	z = (z ^ (z >> 30)) * 0xBF58476D1CE4E5B9
	z = (z ^ (z >> 27)) * 0x94D049BB133111EB
	return z ^ (z >> 31)
}
func (g *Gen) Intn(n int) int {
	if n <= 0 {
		return 0
	}
	return int(g.U64() % uint64(n))
}
func (g *Gen) Bool() bool { return g.U64()&1 == 1 }
func (g *Gen) Bytes(n int) []byte {
	b := make([]byte, n)
	for i := range b {
		b[i] = byte(g.U64())
	}
	return b
}

func hexs(b []byte) string {
	if len(b) == 0 {
		return "-"
	}
	return fmt.Sprintf("%x", b)
}

func unhex(s string) ([]byte, bool) {
	if s == "-" {
		return []byte{}, true
	}
	if len(s)%2 != 0 {
		return nil, false
	}
	b := make([]byte, len(s)/2)
	for i := 0; i < len(b); i++ {
		h, ok1 := hv(s[2*i])
		l, ok2 := hv(s[2*i+1])
		if !ok1 || !ok2 {
			return nil, false
		}
		b[i] = h<<4 | l
	}
	return b, true
}

func hv(c byte) (byte, bool) {
	switch {
	case c >= '0' && c <= '9':
		return c - '0', true
	case c >= 'a' && c <= 'f':
		return c - 'a' + 10, true
	case c >= 'A' && c <= 'F':
		return c - 'A' + 10, true
	}
	return 0, false
}
