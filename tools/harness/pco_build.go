package main

// C16: protocol-configuration-options lists built with the Add… builders of nasConvert (op `pcobuild <script>`; script =
// comma-separated calls d4r | d6r | ipa | d4:<ip hex> | pc4:<ip hex> | d6:<ip hex> | mtu:<n>). Model: Model/Pco.lean `build`.

import (
	"bufio"
	"bytes"
	"fmt"
	"net"
	"strconv"
	"strings"

	"github.com/free5gc/nas/nasConvert"
)

func init() {
	ops["pcobuild"] = func(a []string) string { return withTimeout(func() string { return pcoBuildOp(a) }) }
}

func runPcoScript(script string) (*nasConvert.ProtocolConfigurationOptions, string, bool) {
	pco := nasConvert.NewProtocolConfigurationOptions()
	var mask strings.Builder
	for _, c := range splitL(script, ",") {
		f := strings.SplitN(c, ":", 2)
		var err error
		ip := func() net.IP {
			if len(f) != 2 {
				return nil
			}
			b, _ := unhex(f[1])
			return net.IP(b)
		}
		switch f[0] {
		case "d4r":
			pco.AddDNSServerIPv4AddressRequest()
		case "d6r":
			pco.AddDNSServerIPv6AddressRequest()
		case "ipa":
			pco.AddIPAddressAllocationViaNASSignallingUL()
		case "d4":
			err = pco.AddDNSServerIPv4Address(ip())
		case "pc4":
			err = pco.AddPCSCFIPv4Address(ip())
		case "d6":
			err = pco.AddDNSServerIPv6Address(ip())
		case "mtu":
			if len(f) != 2 {
				return nil, "", false
			}
			n, e := strconv.ParseUint(f[1], 10, 16)
			if e != nil {
				return nil, "", false
			}
			err = pco.AddIPv4LinkMTU(uint16(n))
		default:
			return nil, "", false
		}
		if err != nil {
			mask.WriteByte('0')
		} else {
			mask.WriteByte('1')
		}
	}
	m := mask.String()
	if m == "" {
		m = "-"
	}
	return pco, m, true
}

func pcoBuildOp(a []string) string {
	if len(a) != 1 {
		return "bad-op"
	}
	pco, mask, ok := runPcoScript(a[0])
	if !ok {
		return "bad-op"
	}
	b := pco.Marshal()
	back := nasConvert.NewProtocolConfigurationOptions()
	dec := "err"
	if err := back.UnMarshal(b); err == nil {
		dec = showUnits(back.ProtocolOrContainerList)
	}
	return fmt.Sprintf("ok %s %s %s %s", mask, showUnits(pco.ProtocolOrContainerList), hexs(b), dec)
}

// the property on the implementation's own answer: what each builder must append (written from TS 24.008 10.5.6.3: container
// identifiers 0x000d / 0x0003 / 0x000a / 0x000c / 0x0010, address octets, MTU most significant octet first), and the round trip
func oraclePcoBuild(a []string) string {
	if len(a) != 1 {
		return skip
	}
	pco, mask, ok := runPcoScript(a[0])
	if !ok {
		return skip
	}
	var want []string
	calls := splitL(a[0], ",")
	for i, c := range calls {
		f := strings.SplitN(c, ":", 2)
		var arg []byte
		if len(f) == 2 && f[0] != "mtu" {
			arg, _ = unhex(f[1])
		}
		v4 := func() []byte {
			if len(arg) == 4 {
				return arg
			}
			if len(arg) == 16 && bytes.Equal(arg[:12], []byte{0, 0, 0, 0, 0, 0, 0, 0, 0, 0, 0xff, 0xff}) {
				return arg[12:]
			}
			return nil
		}
		exp := ""
		switch f[0] {
		case "d4r":
			exp = "13:0:-"
		case "d6r":
			exp = "3:0:-"
		case "ipa":
			exp = "10:0:-"
		case "d4":
			if x := v4(); x != nil {
				exp = "13:4:" + hexs(x)
			}
		case "pc4":
			if x := v4(); x != nil {
				exp = "12:4:" + hexs(x)
			}
		case "d6":
			if len(arg) == 16 {
				exp = "3:16:" + hexs(arg)
			}
		case "mtu":
			n, _ := strconv.Atoi(f[1])
			exp = fmt.Sprintf("16:2:%02x%02x", n>>8, n&0xff)
		}
		if (exp != "") != (mask[i] == '1') {
			return fmt.Sprintf("FAIL call %d (%s): accepted=%v, expected accepted=%v", i, c, mask[i] == '1', exp != "")
		}
		if exp != "" {
			want = append(want, exp)
		}
	}
	w := "-"
	if len(want) > 0 {
		w = strings.Join(want, ";")
	}
	if got := showUnits(pco.ProtocolOrContainerList); got != w {
		return fmt.Sprintf("FAIL built list %s, expected %s", got, w)
	}
	b := pco.Marshal()
	if len(b) == 0 || b[0] != 0x80 {
		return "FAIL first octet is not 0x80"
	}
	back := nasConvert.NewProtocolConfigurationOptions()
	if err := back.UnMarshal(b); err != nil {
		return "FAIL own serialisation does not parse: " + err.Error()
	}
	if showUnits(back.ProtocolOrContainerList) != w {
		return "FAIL round trip differs: " + showUnits(back.ProtocolOrContainerList)
	}
	return "pass"
}

func genPcoBuild(g *Gen, w *bufio.Writer, n int) {
	ipArg := func() string {
		switch g.Intn(8) {
		case 0:
			return hexs(g.Bytes([]int{0, 1, 3, 5, 15, 17}[g.Intn(6)]))
		case 1, 2:
			return hexs(g.Bytes(16))
		case 3:
			return hexs(append([]byte{0, 0, 0, 0, 0, 0, 0, 0, 0, 0, 0xff, 0xff}, g.Bytes(4)...))
		case 4:
			return hexs([]byte{[]byte{0, 255, 127, 10}[g.Intn(4)], 0, 0, []byte{0, 1, 255}[g.Intn(3)]})
		}
		return hexs(g.Bytes(4))
	}
	fmt.Fprintln(w, "pcobuild -")
	for _, m := range []int{0, 1, 255, 256, 1500, 65535} {
		fmt.Fprintf(w, "pcobuild mtu:%d\n", m)
	}
	for i := 0; i < n; i++ {
		var cs []string
		for k := 1 + g.Intn(6); k > 0; k-- {
			switch g.Intn(7) {
			case 0:
				cs = append(cs, "d4r")
			case 1:
				cs = append(cs, "d6r")
			case 2:
				cs = append(cs, "ipa")
			case 3:
				cs = append(cs, "d4:"+ipArg())
			case 4:
				cs = append(cs, "pc4:"+ipArg())
			case 5:
				cs = append(cs, "d6:"+ipArg())
			case 6:
				cs = append(cs, fmt.Sprintf("mtu:%d", g.edge16()))
			}
		}
		fmt.Fprintf(w, "pcobuild %s\n", strings.Join(cs, ","))
	}
}
