package main

// `qfd unm|mar|unk`, `qr unm|mar|unk`: QoS flow descriptions and QoS rules (nasType/qos_flow_desc.go, qos_rule.go) — C15.
// Text forms: descs `qfi:op:params|…`, params `-` or `id=hex;…`; rules `id:op:dqr:prec:seg:qfi:pfs|…`,
// pfs `-` or `id/dir/comps+…`, comps `-` or `type=hex,…` (hex = the fields in wire order; flow label as 4 octets).

import (
	"bufio"
	"bytes"
	"encoding/binary"
	"fmt"
	"net"
	"strconv"
	"strings"

	"github.com/free5gc/nas/nasType"
)

func init() {
	ops["qfd"] = func(a []string) string { return withTimeout(func() string { return qfdOp(a) }) }
	ops["qr"] = func(a []string) string { return withTimeout(func() string { return qrOp(a) }) }
	oracles["C15"] = oracleC15
	gens["qos"] = genQos
}

func splitL(s, sep string) []string {
	if s == "-" {
		return nil
	}
	return strings.Split(s, sep)
}

func joinL(l []string, sep string) string {
	if len(l) == 0 {
		return "-"
	}
	return strings.Join(l, sep)
}

// ---- flow descriptions

func paramOf(id int, b []byte) nasType.QoSFlowParameter {
	br := func() (nasType.QoSFlowBitRateUnit, uint16, bool) {
		if len(b) != 3 {
			return 0, 0, false
		}
		return nasType.QoSFlowBitRateUnit(b[0]), binary.BigEndian.Uint16(b[1:]), true
	}
	switch id {
	case 1:
		if len(b) == 1 {
			return &nasType.QoSFlow5QI{FiveQI: b[0]}
		}
	case 2:
		if u, v, ok := br(); ok {
			return &nasType.QoSFlowGFBRUplink{Unit: u, Value: v}
		}
	case 3:
		if u, v, ok := br(); ok {
			return &nasType.QoSFlowGFBRDownlink{Unit: u, Value: v}
		}
	case 4:
		if u, v, ok := br(); ok {
			return &nasType.QoSFlowMFBRUplink{Unit: u, Value: v}
		}
	case 5:
		if u, v, ok := br(); ok {
			return &nasType.QoSFlowMFBRDownlink{Unit: u, Value: v}
		}
	case 6:
		if len(b) == 2 {
			return &nasType.QoSFlowAveragingWindow{AverageWindow: binary.BigEndian.Uint16(b)}
		}
	case 7:
		if len(b) == 1 {
			return &nasType.QoSFlowEBI{EBI: b[0]}
		}
	}
	return nil
}

func paramFields(p nasType.QoSFlowParameter) (int, []byte) {
	br := func(u nasType.QoSFlowBitRateUnit, v uint16) []byte { return []byte{byte(u), byte(v >> 8), byte(v)} }
	switch x := p.(type) {
	case *nasType.QoSFlow5QI:
		return 1, []byte{x.FiveQI}
	case *nasType.QoSFlowGFBRUplink:
		return 2, br(x.Unit, x.Value)
	case *nasType.QoSFlowGFBRDownlink:
		return 3, br(x.Unit, x.Value)
	case *nasType.QoSFlowMFBRUplink:
		return 4, br(x.Unit, x.Value)
	case *nasType.QoSFlowMFBRDownlink:
		return 5, br(x.Unit, x.Value)
	case *nasType.QoSFlowAveragingWindow:
		return 6, []byte{byte(x.AverageWindow >> 8), byte(x.AverageWindow)}
	case *nasType.QoSFlowEBI:
		return 7, []byte{x.EBI}
	}
	return -1, nil
}

func parseDescsText(s string) (nasType.QoSFlowDescs, bool) {
	var out nasType.QoSFlowDescs
	for _, e := range splitL(s, "|") {
		f := strings.Split(e, ":")
		if len(f) != 3 {
			return nil, false
		}
		q, e1 := strconv.ParseUint(f[0], 10, 8)
		o, e2 := strconv.ParseUint(f[1], 10, 8)
		if e1 != nil || e2 != nil {
			return nil, false
		}
		d := nasType.QoSFlowDesc{QFI: uint8(q), OperationCode: nasType.QoSFlowOperationCode(o)}
		for _, ps := range splitL(f[2], ";") {
			kv := strings.Split(ps, "=")
			if len(kv) != 2 {
				return nil, false
			}
			id, e3 := strconv.Atoi(kv[0])
			b, ok := unhex(kv[1])
			if e3 != nil || !ok {
				return nil, false
			}
			p := paramOf(id, b)
			if p == nil {
				return nil, false
			}
			d.Parameters = append(d.Parameters, p)
		}
		out = append(out, d)
	}
	return out, true
}

func showDescs(l nasType.QoSFlowDescs) string {
	var ds []string
	for _, d := range l {
		var ps []string
		for _, p := range d.Parameters {
			id, b := paramFields(p)
			ps = append(ps, fmt.Sprintf("%d=%s", id, hexs(b)))
		}
		ds = append(ds, fmt.Sprintf("%d:%d:%s", d.QFI, d.OperationCode, joinL(ps, ";")))
	}
	return joinL(ds, "|")
}

func qfdOp(a []string) string {
	if len(a) != 2 {
		return "bad-op"
	}
	switch a[0] {
	case "unm", "unk":
		b, ok := unhex(a[1])
		if !ok {
			return "bad-op"
		}
		var l nasType.QoSFlowDescs
		if err := l.UnmarshalBinary(b); err != nil {
			return "err"
		}
		return "ok " + showDescs(l)
	case "unm2":
		// two inputs parsed one after the other into the same variable: the parser starts from an empty list each time
		hs := strings.Split(a[1], ",")
		if len(hs) != 2 {
			return "bad-op"
		}
		b1, ok1 := unhex(hs[0])
		b2, ok2 := unhex(hs[1])
		if !ok1 || !ok2 {
			return "bad-op"
		}
		var l nasType.QoSFlowDescs
		_ = l.UnmarshalBinary(b1)
		if err := l.UnmarshalBinary(b2); err != nil {
			return "err"
		}
		return "ok " + showDescs(l)
	case "mar":
		l, ok := parseDescsText(a[1])
		if !ok {
			return "bad-op"
		}
		b, err := l.MarshalBinary()
		if err != nil {
			return "err"
		}
		return "ok " + hexs(b)
	}
	return "bad-op"
}

// ---- rules

func compOf(t int, b []byte) nasType.PacketFilterComponent {
	u16 := func() (uint16, bool) {
		if len(b) != 2 {
			return 0, false
		}
		return binary.BigEndian.Uint16(b), true
	}
	ip := func() (net.IP, net.IPMask) {
		n := 4
		if len(b) < 4 {
			n = len(b)
		}
		return net.IP(b[:n]), net.IPMask(b[n:])
	}
	switch t {
	case 0x01:
		if len(b) == 0 {
			return &nasType.PacketFilterMatchAll{}
		}
	case 0x10:
		a, m := ip()
		return &nasType.PacketFilterIPv4RemoteAddress{Address: a, Mask: m}
	case 0x11:
		a, m := ip()
		return &nasType.PacketFilterIPv4LocalAddress{Address: a, Mask: m}
	case 0x30:
		if len(b) == 1 {
			return &nasType.PacketFilterProtocolIdentifier{Value: b[0]}
		}
	case 0x40:
		if v, ok := u16(); ok {
			return &nasType.PacketFilterSingleLocalPort{Value: v}
		}
	case 0x41:
		if len(b) == 4 {
			return &nasType.PacketFilterLocalPortRange{LowLimit: binary.BigEndian.Uint16(b), HighLimit: binary.BigEndian.Uint16(b[2:])}
		}
	case 0x50:
		if v, ok := u16(); ok {
			return &nasType.PacketFilterSingleRemotePort{Value: v}
		}
	case 0x51:
		if len(b) == 4 {
			return &nasType.PacketFilterRemotePortRange{LowLimit: binary.BigEndian.Uint16(b), HighLimit: binary.BigEndian.Uint16(b[2:])}
		}
	case 0x60:
		if len(b) == 4 {
			return &nasType.PacketFilterSecurityParameterIndex{Index: binary.BigEndian.Uint32(b)}
		}
	case 0x70:
		if len(b) == 2 {
			return &nasType.PacketFilterServiceClass{Class: b[0], Mask: b[1]}
		}
	case 0x80:
		if len(b) == 4 {
			return &nasType.PacketFilterFlowLabel{Label: binary.BigEndian.Uint32(b)}
		}
	case 0x81:
		return &nasType.PacketFilterDestinationMACAddress{MAC: net.HardwareAddr(b)}
	case 0x82:
		return &nasType.PacketFilterSourceMACAddress{MAC: net.HardwareAddr(b)}
	case 0x83:
		if v, ok := u16(); ok {
			return &nasType.PacketFilterCTagVID{VID: v}
		}
	case 0x84:
		if v, ok := u16(); ok {
			return &nasType.PacketFilterSTagVID{VID: v}
		}
	case 0x85:
		if len(b) == 1 {
			return &nasType.PacketFilterCTagPCPDEI{Value: b[0]}
		}
	case 0x86:
		if len(b) == 1 {
			return &nasType.PacketFilterSTagPCPDEI{Value: b[0]}
		}
	case 0x87:
		if v, ok := u16(); ok {
			return &nasType.PacketFilterEtherType{EtherType: v}
		}
	}
	return nil
}

func compFields(c nasType.PacketFilterComponent) (int, []byte) {
	be16 := func(v uint16) []byte { return []byte{byte(v >> 8), byte(v)} }
	be32 := func(v uint32) []byte { return []byte{byte(v >> 24), byte(v >> 16), byte(v >> 8), byte(v)} }
	cat := func(a, b []byte) []byte { return append(append([]byte{}, a...), b...) }
	switch x := c.(type) {
	case *nasType.PacketFilterMatchAll:
		return 0x01, nil
	case *nasType.PacketFilterIPv4RemoteAddress:
		return 0x10, cat(x.Address, x.Mask)
	case *nasType.PacketFilterIPv4LocalAddress:
		return 0x11, cat(x.Address, x.Mask)
	case *nasType.PacketFilterProtocolIdentifier:
		return 0x30, []byte{x.Value}
	case *nasType.PacketFilterSingleLocalPort:
		return 0x40, be16(x.Value)
	case *nasType.PacketFilterLocalPortRange:
		return 0x41, cat(be16(x.LowLimit), be16(x.HighLimit))
	case *nasType.PacketFilterSingleRemotePort:
		return 0x50, be16(x.Value)
	case *nasType.PacketFilterRemotePortRange:
		return 0x51, cat(be16(x.LowLimit), be16(x.HighLimit))
	case *nasType.PacketFilterSecurityParameterIndex:
		return 0x60, be32(x.Index)
	case *nasType.PacketFilterServiceClass:
		return 0x70, []byte{x.Class, x.Mask}
	case *nasType.PacketFilterFlowLabel:
		return 0x80, be32(x.Label)
	case *nasType.PacketFilterDestinationMACAddress:
		return 0x81, []byte(x.MAC)
	case *nasType.PacketFilterSourceMACAddress:
		return 0x82, []byte(x.MAC)
	case *nasType.PacketFilterCTagVID:
		return 0x83, be16(x.VID)
	case *nasType.PacketFilterSTagVID:
		return 0x84, be16(x.VID)
	case *nasType.PacketFilterCTagPCPDEI:
		return 0x85, []byte{x.Value}
	case *nasType.PacketFilterSTagPCPDEI:
		return 0x86, []byte{x.Value}
	case *nasType.PacketFilterEtherType:
		return 0x87, be16(x.EtherType)
	}
	return -1, nil
}

func parseRulesText(s string) (nasType.QoSRules, bool) {
	var out nasType.QoSRules
	for _, e := range splitL(s, "|") {
		f := strings.Split(e, ":")
		if len(f) != 7 {
			return nil, false
		}
		var n [4]uint64
		for i, j := range []int{0, 1, 3, 5} {
			v, err := strconv.ParseUint(f[j], 10, 8)
			if err != nil {
				return nil, false
			}
			n[i] = v
		}
		r := nasType.QoSRule{Identifier: uint8(n[0]), Operation: nasType.QoSRuleOperationCode(n[1]), DQR: f[2] == "1", Precedence: uint8(n[2]),
			Segregation: f[4] == "1", QFI: uint8(n[3])}
		for _, ps := range splitL(f[6], "+") {
			g := strings.Split(ps, "/")
			if len(g) != 3 {
				return nil, false
			}
			id, e1 := strconv.ParseUint(g[0], 10, 8)
			dir, e2 := strconv.ParseUint(g[1], 10, 8)
			if e1 != nil || e2 != nil {
				return nil, false
			}
			pf := nasType.PacketFilter{Identifier: uint8(id), Direction: nasType.PacketFilterDirection(dir)}
			for _, cs := range splitL(g[2], ",") {
				kv := strings.Split(cs, "=")
				if len(kv) != 2 {
					return nil, false
				}
				t, e3 := strconv.Atoi(kv[0])
				b, ok := unhex(kv[1])
				if e3 != nil || !ok {
					return nil, false
				}
				c := compOf(t, b)
				if c == nil {
					return nil, false
				}
				pf.Components = append(pf.Components, c)
			}
			r.PacketFilterList = append(r.PacketFilterList, pf)
		}
		out = append(out, r)
	}
	return out, true
}

func b01(b bool) string {
	if b {
		return "1"
	}
	return "0"
}

func showRules(l nasType.QoSRules) string {
	var rs []string
	for _, r := range l {
		var pfs []string
		for _, pf := range r.PacketFilterList {
			var cs []string
			for _, c := range pf.Components {
				t, b := compFields(c)
				cs = append(cs, fmt.Sprintf("%d=%s", t, hexs(b)))
			}
			pfs = append(pfs, fmt.Sprintf("%d/%d/%s", pf.Identifier, pf.Direction, joinL(cs, ",")))
		}
		rs = append(rs, fmt.Sprintf("%d:%d:%s:%d:%s:%d:%s", r.Identifier, r.Operation, b01(r.DQR), r.Precedence, b01(r.Segregation), r.QFI, joinL(pfs, "+")))
	}
	return joinL(rs, "|")
}

func qrOp(a []string) string {
	if len(a) != 2 {
		return "bad-op"
	}
	switch a[0] {
	case "unm", "unk":
		b, ok := unhex(a[1])
		if !ok {
			return "bad-op"
		}
		var l nasType.QoSRules
		if err := l.UnmarshalBinary(b); err != nil {
			return "err"
		}
		return "ok " + showRules(l)
	case "unm2":
		hs := strings.Split(a[1], ",")
		if len(hs) != 2 {
			return "bad-op"
		}
		b1, ok1 := unhex(hs[0])
		b2, ok2 := unhex(hs[1])
		if !ok1 || !ok2 {
			return "bad-op"
		}
		var l nasType.QoSRules
		_ = l.UnmarshalBinary(b1)
		if err := l.UnmarshalBinary(b2); err != nil {
			return "err"
		}
		return "ok " + showRules(l)
	case "mar":
		l, ok := parseRulesText(a[1])
		if !ok {
			return "bad-op"
		}
		b, err := l.MarshalBinary()
		if err != nil {
			return "err"
		}
		return "ok " + hexs(b)
	}
	return "bad-op"
}

// ---- independent encoders written from TS 24.501 Figures 9.11.4.12.x / 9.11.4.13.x (used to generate wire inputs and as the layout oracle)

var paramBodyLen = map[int]int{1: 1, 2: 3, 3: 3, 4: 3, 5: 3, 6: 2, 7: 1}
var compBodyLen = map[int]int{0x01: 0, 0x10: 8, 0x11: 8, 0x30: 1, 0x40: 2, 0x41: 4, 0x50: 2, 0x51: 4, 0x60: 4, 0x70: 2, 0x80: 3, 0x81: 6,
	0x82: 6, 0x83: 2, 0x84: 2, 0x85: 1, 0x86: 1, 0x87: 2}
var compTypes = []int{0x01, 0x10, 0x11, 0x30, 0x40, 0x41, 0x50, 0x51, 0x60, 0x70, 0x80, 0x81, 0x82, 0x83, 0x84, 0x85, 0x86, 0x87}

type sParam struct {
	id   int
	body []byte
}
type sDesc struct {
	qfi, op int
	params  []sParam
}

// specEncDescs: octet 1 QFI, octet 2 op code in bits 8..6, octet 3 = 0 | E | number of parameters (6 bits), then (id, length, contents)
func specEncDescs(l []sDesc) []byte {
	var b []byte
	for _, d := range l {
		e := 0
		if len(d.params) > 0 {
			e = 1
		}
		b = append(b, byte(d.qfi), byte(d.op<<5), byte(e<<6|len(d.params)))
		for _, p := range d.params {
			b = append(b, byte(p.id), byte(len(p.body)))
			b = append(b, p.body...)
		}
	}
	return b
}

func descsText(l []sDesc) string {
	var ds []string
	for _, d := range l {
		var ps []string
		for _, p := range d.params {
			ps = append(ps, fmt.Sprintf("%d=%s", p.id, hexs(p.body)))
		}
		ds = append(ds, fmt.Sprintf("%d:%d:%s", d.qfi, d.op, joinL(ps, ";")))
	}
	return joinL(ds, "|")
}

type sComp struct {
	t      int
	fields []byte // as in the text form (flow label: 4 octets)
}
type sPf struct {
	id, dir int
	comps   []sComp
}
type sRule struct {
	id, op int
	dqr    bool
	pfs    []sPf
	prec   int
	seg    bool
	qfi    int
}

func (c sComp) wire() []byte {
	if c.t == 0x80 {
		return c.fields[1:]
	}
	return c.fields
}

// specEncRules: rule id, length (2 octets), op (bits 8..6) | DQR (bit 5) | number of packet filters (4 bits), packet filter list
// (delete: identifiers only; otherwise direction|identifier, length, components), precedence, 0 | segregation | QFI (6 bits)
func specEncRules(l []sRule) []byte {
	var out []byte
	for _, r := range l {
		c := []byte{byte(r.op<<5 | btoi(r.dqr)<<4 | len(r.pfs))}
		for _, pf := range r.pfs {
			if r.op == 5 {
				c = append(c, byte(pf.id))
				continue
			}
			var cb []byte
			for _, x := range pf.comps {
				cb = append(cb, byte(x.t))
				cb = append(cb, x.wire()...)
			}
			c = append(c, byte(pf.dir<<4|pf.id), byte(len(cb)))
			c = append(c, cb...)
		}
		c = append(c, byte(r.prec), byte(btoi(r.seg)<<6|r.qfi))
		out = append(out, byte(r.id), byte(len(c)>>8), byte(len(c)))
		out = append(out, c...)
	}
	return out
}

func btoi(b bool) int {
	if b {
		return 1
	}
	return 0
}

func rulesText(l []sRule) string {
	var rs []string
	for _, r := range l {
		var pfs []string
		for _, pf := range r.pfs {
			var cs []string
			for _, c := range pf.comps {
				cs = append(cs, fmt.Sprintf("%d=%s", c.t, hexs(c.fields)))
			}
			pfs = append(pfs, fmt.Sprintf("%d/%d/%s", pf.id, pf.dir, joinL(cs, ",")))
		}
		rs = append(rs, fmt.Sprintf("%d:%d:%s:%d:%s:%d:%s", r.id, r.op, b01(r.dqr), r.prec, b01(r.seg), r.qfi, joinL(pfs, "+")))
	}
	return joinL(rs, "|")
}

// wfDescs / wfRules: the property's "well-formed" lists
func wfDescsText(l nasType.QoSFlowDescs) bool {
	for _, d := range l {
		if d.OperationCode > 7 || len(d.Parameters) > 63 {
			return false
		}
	}
	return true
}

func wfRulesGo(l nasType.QoSRules) bool {
	for _, r := range l {
		if r.Operation > 7 || len(r.PacketFilterList) > 15 || r.QFI > 63 {
			return false
		}
		for _, pf := range r.PacketFilterList {
			if pf.Identifier > 15 || pf.Direction > 15 {
				return false
			}
			if r.Operation == 5 && (pf.Direction != 0 || len(pf.Components) != 0) {
				return false
			}
			n := 0
			for _, c := range pf.Components {
				t, f := compFields(c)
				want := compBodyLen[t]
				if t == 0x80 {
					if len(f) != 4 || binary.BigEndian.Uint32(f) >= 1<<19 {
						return false
					}
				} else if len(f) != want {
					return false
				}
				switch x := c.(type) {
				case *nasType.PacketFilterIPv4RemoteAddress:
					if len(x.Address) != 4 || len(x.Mask) != 4 {
						return false
					}
				case *nasType.PacketFilterIPv4LocalAddress:
					if len(x.Address) != 4 || len(x.Mask) != 4 {
						return false
					}
				}
				n += 1 + want
			}
			if n > 255 {
				return false
			}
		}
	}
	return true
}

// ---- oracle

func oracleC15(op string, a []string) string {
	if (op != "qfd" && op != "qr") || len(a) != 2 {
		return skip
	}
	switch a[0] {
	case "unm2":
		var r, fresh string
		hs := strings.Split(a[1], ",")
		if len(hs) != 2 {
			return skip
		}
		if op == "qfd" {
			r = withTimeout(func() string { return qfdOp(a) })
			fresh = qfdOp([]string{"unm", hs[1]})
		} else {
			r = withTimeout(func() string { return qrOp(a) })
			fresh = qrOp([]string{"unm", hs[1]})
		}
		if r == "panic" || r == "hang" || r == "bad-op" {
			return "FAIL " + r
		}
		if r != fresh {
			return "FAIL parsing into a variable that was parsed into before differs from a fresh parse: " + r + " (fresh: " + fresh + ")"
		}
		return "pass"
	case "unm":
		// totality: a value or an error, never a panic, never a hang; a successful parse re-serialises and parses to the same list
		var r string
		if op == "qfd" {
			r = withTimeout(func() string { return qfdOp(a) })
		} else {
			r = withTimeout(func() string { return qrOp(a) })
		}
		if r == "panic" || r == "hang" || r == "bad-op" {
			return "FAIL " + r
		}
		return "pass"
	case "unk":
		// the input carries an unknown parameter / component identifier at a position where an identifier is read
		var r string
		if op == "qfd" {
			r = withTimeout(func() string { return qfdOp(a) })
		} else {
			r = withTimeout(func() string { return qrOp(a) })
		}
		if r != "err" {
			return "FAIL unknown identifier not reported as an error: " + r
		}
		return "pass"
	case "mar":
		if op == "qfd" {
			l, ok := parseDescsText(a[1])
			if !ok || !wfDescsText(l) {
				return skip
			}
			b, err := l.MarshalBinary()
			if err != nil {
				return "FAIL well-formed description list does not serialise: " + err.Error()
			}
			// layout: the independent 9.11.4.12 encoder on the same values
			var sl []sDesc
			for _, d := range l {
				sd := sDesc{qfi: int(d.QFI), op: int(d.OperationCode)}
				for _, p := range d.Parameters {
					id, body := paramFields(p)
					sd.params = append(sd.params, sParam{id, body})
				}
				sl = append(sl, sd)
			}
			if want := specEncDescs(sl); !bytes.Equal(b, want) {
				return fmt.Sprintf("FAIL serialised %x, TS 24.501 9.11.4.12 layout is %x", b, want)
			}
			var back nasType.QoSFlowDescs
			if err := back.UnmarshalBinary(b); err != nil {
				return "FAIL own serialisation does not parse: " + err.Error()
			}
			if showDescs(back) != showDescs(l) {
				return "FAIL round trip differs: " + showDescs(back)
			}
			other := nasType.QoSFlowDescs{{QFI: 63, OperationCode: 1, Parameters: nasType.QoSFlowParameterList{&nasType.QoSFlow5QI{FiveQI: 255}}}}
			if r := staleResult(func() []byte { x, _ := l.MarshalBinary(); return x }, func() []byte { x, _ := other.MarshalBinary(); return x }); r != "" {
				return "FAIL QoSFlowDescs.MarshalBinary: " + r
			}
			return "pass"
		}
		l, ok := parseRulesText(a[1])
		if !ok || !wfRulesGo(l) {
			return skip
		}
		b, err := l.MarshalBinary()
		if err != nil {
			return "FAIL well-formed rule list does not serialise: " + err.Error()
		}
		var sl []sRule
		for _, r := range l {
			sr := sRule{id: int(r.Identifier), op: int(r.Operation), dqr: r.DQR, prec: int(r.Precedence), seg: r.Segregation, qfi: int(r.QFI)}
			for _, pf := range r.PacketFilterList {
				sp := sPf{id: int(pf.Identifier), dir: int(pf.Direction)}
				for _, c := range pf.Components {
					t, f := compFields(c)
					sp.comps = append(sp.comps, sComp{t, f})
				}
				sr.pfs = append(sr.pfs, sp)
			}
			sl = append(sl, sr)
		}
		if want := specEncRules(sl); !bytes.Equal(b, want) {
			return fmt.Sprintf("FAIL serialised %x, TS 24.501 9.11.4.13 layout is %x", b, want)
		}
		var back nasType.QoSRules
		if err := back.UnmarshalBinary(b); err != nil {
			return "FAIL own serialisation does not parse: " + err.Error()
		}
		if showRules(back) != showRules(l) {
			return "FAIL round trip differs: " + showRules(back)
		}
		otherR := nasType.QoSRules{{Identifier: 255, Operation: 1, QFI: 63, Precedence: 255}}
		if r := staleResult(func() []byte { x, _ := l.MarshalBinary(); return x }, func() []byte { x, _ := otherR.MarshalBinary(); return x }); r != "" {
			return "FAIL QoSRules.MarshalBinary: " + r
		}
		return "pass"
	}
	return skip
}

// ---- generators

func (g *Gen) sParam() sParam {
	id := 1 + g.Intn(7)
	b := g.Bytes(paramBodyLen[id])
	if g.Intn(4) == 0 {
		for i := range b {
			b[i] = []byte{0, 0xff}[g.Intn(2)]
		}
	}
	return sParam{id, b}
}

func (g *Gen) sDesc() sDesc {
	d := sDesc{qfi: g.Intn(64), op: 1 + g.Intn(3)}
	if g.Intn(6) == 0 {
		d.qfi, d.op = g.Intn(256), g.Intn(8)
	}
	n := g.Intn(5)
	switch g.Intn(12) {
	case 0:
		n = 0
	case 1:
		n = 63
	case 2:
		n = 7
	}
	for i := 0; i < n; i++ {
		if n == 7 {
			d.params = append(d.params, sParam{i + 1, g.Bytes(paramBodyLen[i+1])})
		} else {
			d.params = append(d.params, g.sParam())
		}
	}
	return d
}

func (g *Gen) sComp() sComp {
	t := compTypes[g.Intn(len(compTypes))]
	f := g.Bytes(compBodyLen[t])
	if t == 0x80 {
		v := uint32(g.Intn(1 << 19))
		if g.Intn(4) == 0 {
			v = []uint32{0, 1<<19 - 1, 1 << 18}[g.Intn(3)]
		}
		f = []byte{byte(v >> 24), byte(v >> 16), byte(v >> 8), byte(v)}
	}
	return sComp{t, f}
}

func (g *Gen) sRule() sRule {
	r := sRule{id: g.Intn(256), op: 1 + g.Intn(6), dqr: g.Bool(), prec: g.Intn(256), seg: g.Bool(), qfi: g.Intn(64)}
	if g.Intn(8) == 0 {
		r.op = g.Intn(8)
	}
	n := g.Intn(4)
	switch g.Intn(10) {
	case 0:
		n = 0
	case 1:
		n = 15
	}
	for i := 0; i < n; i++ {
		pf := sPf{id: g.Intn(16), dir: 1 + g.Intn(3)}
		if r.op == 5 {
			pf.dir = 0
		} else {
			k := g.Intn(4)
			if g.Intn(12) == 0 {
				k = 18
			}
			for j := 0; j < k; j++ {
				if k == 18 {
					t := compTypes[j]
					c := g.sComp()
					for c.t != t {
						c = g.sComp()
					}
					pf.comps = append(pf.comps, c)
				} else {
					pf.comps = append(pf.comps, g.sComp())
				}
			}
		}
		r.pfs = append(r.pfs, pf)
	}
	return r
}

func genQos(g *Gen, w *bufio.Writer) {
	var prevQfd, prevQr []byte
	thorough := g.Tier == "thorough"
	// exhaustive short inputs
	for _, op := range []string{"qfd", "qr"} {
		fmt.Fprintf(w, "%s unm -\n", op)
		for x := 0; x < 256; x++ {
			fmt.Fprintf(w, "%s unm %02x\n", op, x)
		}
		n2 := 3000
		if thorough {
			n2 = 65536
		}
		for i := 0; i < n2; i++ {
			v := i
			if !thorough {
				v = g.Intn(65536)
			}
			fmt.Fprintf(w, "%s unm %04x\n", op, v)
		}
		for i := 0; i < g.N*3; i++ {
			fmt.Fprintf(w, "%s unm %s\n", op, hexs(g.Bytes(3+g.Intn(12))))
		}
	}
	// flow descriptions: well-formed lists both ways, every truncation, mutations, unknown identifiers
	for i := 0; i < g.N; i++ {
		var l []sDesc
		for k := g.Intn(4); k >= 0; k-- {
			l = append(l, g.sDesc())
		}
		if i%10 == 0 {
			l = nil
		}
		fmt.Fprintf(w, "qfd mar %s\n", descsText(l))
		b := specEncDescs(l)
		fmt.Fprintf(w, "qfd unm %s\n", hexs(b))
		if prevQfd != nil {
			// the same variable parsed into twice (a create list, then a delete list with no parameters at the same positions)
			fmt.Fprintf(w, "qfd unm2 %s,%s\n", hexs(prevQfd), hexs(b))
			del := []byte{}
			for k := 0; k < 3; k++ {
				del = append(del, byte(1+g.Intn(60)), 0x40, 0x00)
			}
			fmt.Fprintf(w, "qfd unm2 %s,%s\n", hexs(b), hexs(del))
		}
		prevQfd = b
		if i < g.N/3 {
			for cut := 0; cut < len(b); cut++ {
				fmt.Fprintf(w, "qfd unm %s\n", hexs(b[:cut]))
			}
		}
		for k := 0; k < 3; k++ {
			fmt.Fprintf(w, "qfd unm %s\n", hexs(g.mutate(b)))
		}
		// unknown parameter identifier in place of the first parameter's identifier
		for di, d := range l {
			if len(d.params) > 0 {
				off := 0
				for _, e := range l[:di] {
					off += len(specEncDescs([]sDesc{e}))
				}
				c := append([]byte{}, b...)
				c[off+3] = []byte{0, 8, 9, 0x10, 0x7f, 0x80, 0xff}[g.Intn(7)]
				fmt.Fprintf(w, "qfd unk %s\n", hexs(c))
				break
			}
		}
	}
	// parameter counts at the 6-bit boundary (64 and more are outside the property; compared with the model only)
	for _, n := range []int{62, 63, 64, 65, 127, 128, 255, 256, 257} {
		d := sDesc{qfi: 1, op: 1}
		for i := 0; i < n; i++ {
			d.params = append(d.params, sParam{1, []byte{byte(i)}})
		}
		fmt.Fprintf(w, "qfd mar %s\n", descsText([]sDesc{d}))
	}
	// parameter length octets that disagree with the parameter kind
	for id := 0; id <= 8; id++ {
		for ln := 0; ln <= 5; ln++ {
			b := []byte{5, 0x20, 0x41, byte(id), byte(ln)}
			b = append(b, g.Bytes(ln)...)
			fmt.Fprintf(w, "qfd unm %s\n", hexs(b))
			fmt.Fprintf(w, "qfd unm %s\n", hexs(append(b, 6, 0x20, 0)))
		}
	}
	// rules
	for i := 0; i < g.N; i++ {
		var l []sRule
		for k := g.Intn(3); k >= 0; k-- {
			l = append(l, g.sRule())
		}
		if i%10 == 0 {
			l = nil
		}
		fmt.Fprintf(w, "qr mar %s\n", rulesText(l))
		b := specEncRules(l)
		fmt.Fprintf(w, "qr unm %s\n", hexs(b))
		if prevQr != nil {
			fmt.Fprintf(w, "qr unm2 %s,%s\n", hexs(prevQr), hexs(b))
		}
		prevQr = b
		if i < g.N/3 {
			for cut := 0; cut < len(b); cut++ {
				fmt.Fprintf(w, "qr unm %s\n", hexs(b[:cut]))
			}
		}
		for k := 0; k < 3; k++ {
			fmt.Fprintf(w, "qr unm %s\n", hexs(g.mutate(b)))
		}
		// unknown component type in place of the first component's type
		for ri, r := range l {
			if r.op != 5 && len(r.pfs) > 0 && len(r.pfs[0].comps) > 0 {
				off := 0
				for _, e := range l[:ri] {
					off += len(specEncRules([]sRule{e}))
				}
				c := append([]byte{}, b...)
				c[off+6] = []byte{0x00, 0x02, 0x12, 0x20, 0x21, 0x23, 0x31, 0x42, 0x61, 0x88, 0xff}[g.Intn(11)]
				fmt.Fprintf(w, "qr unk %s\n", hexs(c))
				break
			}
		}
	}
	// values outside the well-formed set (compared with the model; the oracle skips them)
	fmt.Fprintf(w, "qr mar 1:1:0:0:0:1:1/1/128=00080000\n") // flow label 2^19
	fmt.Fprintf(w, "qr mar 1:1:0:0:0:1:1/1/16=0a000001ffff\n")
	fmt.Fprintf(w, "qr mar 1:1:0:0:0:1:1/1/129=0102\n")
	fmt.Fprintf(w, "qr mar 1:1:0:0:0:64:-\n")
	for _, n := range []int{15, 16, 17} {
		r := sRule{id: 1, op: 1, qfi: 1}
		for i := 0; i < n; i++ {
			r.pfs = append(r.pfs, sPf{id: i % 16, dir: 1, comps: []sComp{{0x01, nil}}})
		}
		fmt.Fprintf(w, "qr mar %s\n", rulesText([]sRule{r}))
	}
	// a filter whose components exceed 255 octets
	{
		pf := sPf{id: 1, dir: 3}
		for i := 0; i < 30; i++ {
			pf.comps = append(pf.comps, sComp{0x10, g.Bytes(8)})
		}
		fmt.Fprintf(w, "qr mar %s\n", rulesText([]sRule{{id: 1, op: 1, qfi: 1, pfs: []sPf{pf}}}))
	}
}
