package main

// C09, the one text-valued accessor pair of nasType: DNN.SetDNN / DNN.GetDNN (op `accs DNN <old buffer> <text>`)

import (
	"bufio"
	"bytes"
	"fmt"

	"github.com/free5gc/nas/nasType"
)

func init() {
	ops["accs"] = opAccS
}

func opAccS(args []string) string {
	if len(args) != 3 || args[0] != "DNN" {
		return "bad-op"
	}
	old, ok1 := unhex(args[1])
	text, ok2 := unhex(args[2])
	if !ok1 || !ok2 {
		return "bad-op"
	}
	d := nasType.NewDNN(0x25)
	d.SetLen(uint8(len(old)))
	copy(d.Buffer, old)
	d.SetDNN(string(text))
	return fmt.Sprintf("ok %s %d %s", hexs(d.Buffer), d.GetLen(), hexs([]byte(d.GetDNN())))
}

// dnnValid: what SetDNN accepts per its documentation (labels of at most 62 octets, coded form of at most 100 octets),
// and that coded form, computed independently of the library
func dnnValid(text []byte) ([]byte, bool) {
	var out []byte
	for _, l := range bytes.Split(text, []byte{'.'}) {
		if len(l) > 62 {
			return nil, false
		}
		out = append(append(out, byte(len(l))), l...)
	}
	return out, len(out) <= 100
}

func oracleAccS(args []string) string {
	if len(args) != 3 || args[0] != "DNN" {
		return skip
	}
	old, ok1 := unhex(args[1])
	text, ok2 := unhex(args[2])
	if !ok1 || !ok2 || len(old) > 255 {
		return skip
	}
	d := nasType.NewDNN(0x25)
	d.SetLen(uint8(len(old)))
	copy(d.Buffer, old)
	arg := string(text)
	d.SetDNN(arg)
	if d.GetIei() != 0x25 {
		return "FAIL setter changed the identifier"
	}
	want, valid := dnnValid(text)
	if !valid {
		if !bytes.Equal(d.Buffer, old) || int(d.GetLen()) != len(old) {
			return "FAIL a rejected text changed the element"
		}
		return "pass"
	}
	if got := d.GetDNN(); got != arg {
		return fmt.Sprintf("FAIL set-then-get: set %q, got %q", arg, got)
	}
	if !bytes.Equal(d.Buffer, want) || int(d.GetLen()) != len(want) {
		return fmt.Sprintf("FAIL contents %x (Len %d), the label coding of the text is %x", d.Buffer, d.GetLen(), want)
	}
	// value semantics: the stored contents do not change when the caller's text is reused (strings are immutable in Go, so
	// this is about a second SetDNN on another element)
	e := nasType.NewDNN(0x25)
	e.SetDNN("other.example")
	if d.GetDNN() != arg {
		return "FAIL a SetDNN on another element changed this one"
	}
	return "pass"
}

func genAccDNN(g *Gen, w *bufio.Writer, n int) {
	label := func(k int) []byte {
		b := make([]byte, k)
		for i := range b {
			b[i] = "abcdefghijklmnopqrstuvwxyz0123456789-"[g.Intn(37)]
			if g.Intn(40) == 0 {
				b[i] = byte(g.Intn(256))
				if b[i] == '.' {
					b[i] = 'x'
				}
			}
		}
		return b
	}
	emit := func(text []byte) {
		old := g.Bytes([]int{0, 0, 1, 9, 100}[g.Intn(5)])
		fmt.Fprintf(w, "accs DNN %s %s\n", hexs(old), hexs(text))
	}
	for _, s := range []string{"", ".", "..", "a", ".a", "a.", ".a.", "a..b", "internet", "ims.mnc093.mcc208.gprs", ".local", "a.b.c.d.e.f"} {
		emit([]byte(s))
	}
	for _, k := range []int{61, 62, 63, 64, 98, 99, 100, 101, 255, 256} {
		emit(label(k))
		emit(append(label(k%63), append([]byte{'.'}, label(k-k%63)...)...))
	}
	for i := 0; i < n; i++ {
		var t []byte
		for k := g.Intn(6); k >= 0; k-- {
			t = append(t, label([]int{0, 0, 1, 2, 3, 8, 20, 62, 63}[g.Intn(9)])...)
			if k > 0 {
				t = append(t, '.')
			}
		}
		emit(t)
	}
}
