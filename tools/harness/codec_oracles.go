package main

// Property oracles for the message codecs: they evaluate the property itself on the real code
// (used to search for a concrete failing input and to replay one). They state only what the
// property states.

import (
	"bytes"
	"encoding/json"
	"fmt"
	"os"
	"reflect"
	"runtime"
	"strings"
	"time"

	"github.com/free5gc/nas"
)

func init() {
	oracles["C01"] = oracleC01
	oracles["C02"] = oracleC02
	oracles["C03"] = oracleC03
	oracles["C05"] = oracleC05
	oracles["C10"] = oracleC10
}

const skip = "skip"

// ---- C01: no panic, bounded time, bounded allocation ----

func allocBound(n int) uint64 { return uint64(512*n + 4*65536 + 16384) }

func oracleC01(op string, args []string) string {
	if op == "decsh" {
		r := withTimeout(func() string { return safely(func() string { return opDecSh(args) }) })
		if r == "panic" || r == "hang" {
			return "FAIL " + r + " when decoding into a Message whose security header is already filled in"
		}
		return "pass"
	}
	if op == "dec2x" || op == "dec2" {
		var r string
		if op == "dec2x" {
			r = withTimeout(func() string { return safely(func() string { return opDec2x(args) }) })
		} else {
			r = withTimeout(func() string { return safely(func() string { return opDec2(args) }) })
		}
		if r == "panic" || r == "hang" {
			return "FAIL " + r + " on the second decode into the same object"
		}
		return "pass"
	}
	if op != "dec" || len(args) != 2 {
		return skip
	}
	in, ok := parseInput(args[1])
	if !ok {
		return skip
	}
	n := 0
	if in != nil {
		n = len(*in)
	}
	var res string
	var ms1, ms2 runtime.MemStats
	attempt := 0
again:
	res = ""
	runtime.ReadMemStats(&ms1)
	t0 := time.Now()
	func() {
		defer func() {
			if r := recover(); r != nil {
				res = fmt.Sprintf("FAIL panic: %v", r)
			}
		}()
		if _, isMsg := msgTypes[args[0]]; isMsg {
			if in == nil {
				res = skip
				return
			}
			body := reflect.New(msgTypes[args[0]].Elem())
			body.MethodByName("Decode" + args[0]).Call([]reflect.Value{reflect.ValueOf(in)})
			return
		}
		if in == nil && args[0] != "plain" {
			res = skip // GmmMessageDecode(nil): the API contract takes a non-nil pointer; only PlainNasDecode checks
			return
		}
		m, out := decodeEntry(args[0], in)
		if m == nil && !strings.HasPrefix(out, "err ") {
			res = "FAIL neither message nor error: " + out
		}
	}()
	el := time.Since(t0)
	runtime.ReadMemStats(&ms2)
	if res != "" {
		return res
	}
	// TotalAlloc and wall time are process-wide: another goroutine of the harness, the collector or a loaded machine can add to
	// one measurement. What the decoder itself allocates / takes is the same every time, so an excess counts only when it is
	// there in each of four measurements (the input is restored first: decoding does not modify it, C10).
	if d := ms2.TotalAlloc - ms1.TotalAlloc; el > 2*time.Second || d > allocBound(n) {
		if attempt < 3 {
			attempt++
			runtime.GC()
			in, _ = parseInput(args[1])
			goto again
		}
		if el > 2*time.Second {
			return fmt.Sprintf("FAIL slow: %v for %d octets", el, n)
		}
		return fmt.Sprintf("FAIL alloc: %d bytes for %d input octets (bound %d)", d, n, allocBound(n))
	}
	return "pass"
}

// ---- C02: dec(enc m) = m for well-formed m (enc lines carry the fields) ----

func oracleC02(op string, args []string) string {
	if op == "dec2" && len(args) == 3 {
		return oracleC05("dec2", args)
	}
	if op != "enc" || len(args) != 4 || !strings.HasPrefix(args[1], "hdr=") {
		return skip
	}
	hdr, ok1 := unhex(args[1][4:])
	fs, ok2 := parseFields(args[3])
	if !ok1 || !ok2 {
		return skip
	}
	fam, name := args[0], args[2]
	m, body, ok := buildMessage(fam, hdr, name, fs)
	if !ok {
		return skip
	}
	if staleBody(body) {
		return skip // well-formedness clause of the property: declared length equals content length
	}
	if fam != "msg" {
		// well-formedness clause of the property: the header view equals the body's own header octets
		var bh []byte
		for _, f := range fs {
			if len(bh) >= len(hdr) {
				break
			}
			bh = append(bh, f.data...)
		}
		if len(bh) < len(hdr) || !bytes.Equal(bh[:len(hdr)], hdr) {
			return skip
		}
	}
	want := name + " " + args[3]
	out, err := encodeBuilt(fam, name, m, body, nil)
	if err != nil {
		return "FAIL encode error: " + err.Error()
	}
	if fam == "msg" {
		b2 := reflect.New(msgTypes[name].Elem())
		res := b2.MethodByName("Decode" + name).Call([]reflect.Value{reflect.ValueOf(&out)})
		if !res[0].IsNil() {
			return "FAIL decode of own encoding: " + res[0].Interface().(error).Error() + " bytes=" + hexs(out)
		}
		if got := showBody(name, b2.Elem()); got != want {
			return "FAIL round trip differs: got " + got + " bytes=" + hexs(out)
		}
		return "pass"
	}
	m2, o := decodeEntry("plain", &out)
	if m2 == nil {
		return "FAIL decode of own encoding: " + o + " bytes=" + hexs(out)
	}
	wantAll := fmt.Sprintf("ok %s hdr=%s %s", fam, hexs(hdr), want)
	if o != wantAll {
		return "FAIL round trip differs: got " + o + " bytes=" + hexs(out)
	}
	// two messages in one buffer through the family-level encoder: both must still decode to what was encoded
	first := map[string][]byte{"gmm": {0x7e, 0x00, 0x4e}, "gsm": {0x2e, 0x01, 0x01, 0xcc}}[fam]
	_, firstWant := decodeEntry("plain", &first)
	buf := new(bytes.Buffer)
	buf.Write(first)
	var e3 error
	if fam == "gmm" {
		e3 = m.GmmMessageEncode(buf)
	} else {
		e3 = m.GsmMessageEncode(buf)
	}
	if e3 != nil {
		return "FAIL a well-formed message does not encode into a buffer that already holds another message: " + e3.Error()
	}
	if e3 == nil && buf.Len() >= len(first) {
		all := buf.Bytes()
		p1 := append([]byte{}, all[:len(first)]...)
		p2 := append([]byte{}, all[len(first):]...)
		if _, o1 := decodeEntry("plain", &p1); o1 != firstWant {
			return "FAIL a message encoded earlier into the same buffer no longer decodes to itself: " + hexs(all)
		}
		if _, o2 := decodeEntry("plain", &p2); o2 != wantAll {
			return "FAIL second message in a shared buffer does not round-trip: " + o2
		}
	}
	return "pass"
}

// ---- C03: dec;enc;dec;enc fixed point; canonical inputs byte exact ----

func oracleC03(op string, args []string) string {
	var in []byte
	canon := false
	switch {
	case op == "dec" && len(args) == 2 && args[0] == "plain" && args[1] != "nil":
		b, ok := unhex(args[1])
		if !ok {
			return skip
		}
		in = b
	case (op == "canon" || op == "rt4") && len(args) == 1:
		b, ok := unhex(args[0])
		if !ok {
			return skip
		}
		in = b
		canon = op == "canon"
	default:
		return skip
	}
	orig := append([]byte{}, in...)
	m1, _ := decodeEntry("plain", &in)
	if m1 == nil {
		if canon {
			return "FAIL canonical encoding rejected"
		}
		return skip // the property speaks about inputs that decode
	}
	b1, err := m1.PlainNasEncode()
	if err != nil {
		return "FAIL re-encode error: " + err.Error()
	}
	b1c := append([]byte{}, b1...)
	// re-encoding a batch: the bytes returned for this message must still be there after another message was encoded
	encodeOther()
	if !bytes.Equal(b1, b1c) {
		return "FAIL the re-encoding changed after another message was encoded: now " + hexs(b1) + ", was " + hexs(b1c)
	}
	m2, o2 := decodeEntry("plain", &b1c)
	if m2 == nil {
		return "FAIL re-encoding does not decode: " + o2 + " b1=" + hexs(b1)
	}
	if showNas(m1) != showNas(m2) {
		return "FAIL decode(encode(m)) != m: b1=" + hexs(b1)
	}
	b2, err := m2.PlainNasEncode()
	if err != nil {
		return "FAIL second encode error: " + err.Error()
	}
	if !bytes.Equal(b1, b2) {
		return "FAIL not a fixed point: b1=" + hexs(b1) + " b2=" + hexs(b2)
	}
	if canon && !bytes.Equal(b1, orig) {
		return "FAIL canonical input not reproduced: got " + hexs(b1)
	}
	return "pass"
}

// ---- C05: dispatch; expectations come from the pinned table /verif/spec/dispatch.json ----

type specDispatch struct {
	Gmm map[string]string `json:"gmm"` // type (decimal) -> message
	Gsm map[string]string `json:"gsm"`
}

var specDisp *specDispatch

func loadSpecDispatch() *specDispatch {
	if specDisp != nil {
		return specDisp
	}
	p := os.Getenv("VERIF_SPEC")
	if p == "" {
		p = "/verif/spec"
	}
	b, err := os.ReadFile(p + "/dispatch.json")
	if err != nil {
		fmt.Fprintln(os.Stderr, "spec/dispatch.json:", err)
		os.Exit(2)
	}
	var s specDispatch
	if err := json.Unmarshal(b, &s); err != nil {
		fmt.Fprintln(os.Stderr, "spec/dispatch.json:", err)
		os.Exit(2)
	}
	specDisp = &s
	return specDisp
}

func populated(fv reflect.Value) []string {
	var out []string
	for i := 1; i < fv.NumField(); i++ {
		f := fv.Field(i)
		if f.Kind() == reflect.Ptr && !f.IsNil() {
			out = append(out, fv.Type().Field(i).Name)
		}
	}
	return out
}

// first n octets of a body: its leading one-octet mandatory elements
func bodyHeader(body reflect.Value, n int) []byte {
	var out []byte
	for i := 0; i < body.NumField() && len(out) < n; i++ {
		f := body.Field(i)
		if f.Kind() != reflect.Struct {
			break
		}
		o := f.FieldByName("Octet")
		if !o.IsValid() || o.Kind() != reflect.Uint8 {
			break
		}
		out = append(out, byte(o.Uint()))
	}
	return out
}

func oracleC05(op string, args []string) string {
	sp := loadSpecDispatch()
	switch op {
	case "encnone":
		_, err := nas.NewMessage().PlainNasEncode()
		if err == nil {
			return "FAIL message with no body encodes without error"
		}
		return "pass"
	case "enc":
		if len(args) != 4 || (args[0] != "gmm" && args[0] != "gsm") {
			return skip
		}
		hdr, ok1 := unhex(args[1][4:])
		fs, ok2 := parseFields(args[3])
		if !ok1 || !ok2 {
			return skip
		}
		tbl, ti := sp.Gmm, 2
		if args[0] == "gsm" {
			tbl, ti = sp.Gsm, 3
		}
		if len(hdr) <= ti {
			return skip
		}
		want, known := tbl[fmt.Sprint(hdr[ti])]
		m, _, ok := buildMessage(args[0], hdr, args[2], fs)
		if !ok {
			return skip
		}
		if known && want != args[2] {
			return skip // header names another body than the one present: outside the property (ill-formed message)
		}
		_, err := m.PlainNasEncode()
		if !known && err == nil {
			return "FAIL unknown message type encodes without error"
		}
		if known && err != nil {
			return "FAIL known type with its body present: " + err.Error()
		}
		return "pass"
	case "enc2":
		if len(args) != 6 {
			return skip
		}
		got := safely(func() string { return opEnc2(args) })
		alone := safely(func() string { return opEnc(args[:4]) })
		if got == "bad-op" || alone == "bad-op" {
			return skip
		}
		if got != alone {
			return "FAIL a Message that also holds another body encodes differently from the body its header names: " + got + " (alone: " + alone + ")"
		}
		return "pass"
	case "dec2":
		// a Message that is decoded into twice (same family): exactly the body named by the second input, as from a fresh Message
		got := opDec2(args)
		if got == "bad-op" {
			return skip
		}
		b, _ := unhex(args[2])
		var fresh string
		if _, isMsg := msgTypes[args[0]]; isMsg {
			fresh = opDec([]string{args[0], args[2]})
		} else {
			_, fresh = decodeEntry(args[0], &b)
		}
		if got != fresh {
			return "FAIL decoding into a recycled Message differs from a fresh decode: " + got + " (fresh: " + fresh + ")"
		}
		return "pass"
	case "dec":
		if len(args) != 2 {
			return skip
		}
		entry := args[0]
		if entry != "plain" && entry != "gmm" && entry != "gsm" {
			return skip
		}
		in, ok := parseInput(args[1])
		if !ok || (in == nil && entry != "plain") {
			return skip
		}
		var cp *[]byte
		if in != nil {
			c := append([]byte{}, *in...)
			cp = &c
		}
		m, out := decodeEntry(entry, cp)
		isErr := m == nil
		mustErr := func(why string) string {
			if !isErr {
				return "FAIL " + why + " accepted: " + out
			}
			return "pass"
		}
		if in == nil {
			return mustErr("nil input")
		}
		b := *in
		if len(b) == 0 {
			return mustErr("empty input")
		}
		fam := entry
		if entry == "plain" {
			switch b[0] {
			case 0x7e:
				fam = "gmm"
			case 0x2e:
				fam = "gsm"
			default:
				return mustErr(fmt.Sprintf("discriminator %#x", b[0]))
			}
		}
		tbl, hl, ti := sp.Gmm, 3, 2
		if fam == "gsm" {
			tbl, hl, ti = sp.Gsm, 4, 3
		}
		if len(b) < hl {
			return mustErr("input shorter than the header")
		}
		want, known := tbl[fmt.Sprint(b[ti])]
		if !known {
			return mustErr(fmt.Sprintf("unknown message type %d", b[ti]))
		}
		if isErr {
			return "pass" // the body's own decoder rejected the rest
		}
		// exactly one family, exactly one body, the right one, header view = first octets = body's own header
		var fv reflect.Value
		var hdr []byte
		if fam == "gmm" {
			if m.GmmMessage == nil || m.GsmMessage != nil {
				return "FAIL wrong family populated: " + out
			}
			fv, hdr = reflect.ValueOf(m.GmmMessage).Elem(), m.GmmMessage.GmmHeader.Octet[:]
		} else {
			if m.GsmMessage == nil || m.GmmMessage != nil {
				return "FAIL wrong family populated: " + out
			}
			fv, hdr = reflect.ValueOf(m.GsmMessage).Elem(), m.GsmMessage.GsmHeader.Octet[:]
		}
		pop := populated(fv)
		if len(pop) != 1 || pop[0] != want {
			return fmt.Sprintf("FAIL bodies populated %v, expected exactly [%s]", pop, want)
		}
		if !bytes.Equal(hdr, b[:hl]) {
			return "FAIL header view differs from the input's header octets"
		}
		if bh := bodyHeader(fv.FieldByName(want).Elem(), hl); !bytes.Equal(bh, hdr) {
			return fmt.Sprintf("FAIL header view %x differs from the body's own header octets %x", hdr, bh)
		}
		// the header view through its accessors (and the two free helpers on the input) says the same
		if nas.GetEPD(b) != b[0] || nas.GetSecurityHeaderType(b) != b[1] {
			return "FAIL GetEPD / GetSecurityHeaderType do not return the first / second octet"
		}
		if fam == "gmm" {
			h := m.GmmMessage.GmmHeader
			if h.GetExtendedProtocolDiscriminator() != b[0] || h.GetMessageType() != b[2] {
				return "FAIL GmmHeader accessors disagree with the header octets"
			}
			h.SetMessageType(b[2] ^ 0x55)
			h.SetExtendedProtocolDiscriminator(b[0] ^ 0xaa)
			if h.Octet != [3]uint8{b[0] ^ 0xaa, b[1], b[2] ^ 0x55} || m.GmmMessage.GmmHeader.Octet != [3]uint8{b[0], b[1], b[2]} {
				return "FAIL GmmHeader setters write other octets than discriminator / message type (or reach through a copy)"
			}
		} else {
			h := m.GsmMessage.GsmHeader
			if h.GetExtendedProtocolDiscriminator() != b[0] || h.GetMessageType() != b[3] {
				return "FAIL GsmHeader accessors disagree with the header octets"
			}
			h.SetMessageType(b[3] ^ 0x55)
			h.SetExtendedProtocolDiscriminator(b[0] ^ 0xaa)
			if h.Octet != [4]uint8{b[0] ^ 0xaa, b[1], b[2], b[3] ^ 0x55} || m.GsmMessage.GsmHeader.Octet != [4]uint8{b[0], b[1], b[2], b[3]} {
				return "FAIL GsmHeader setters write other octets than discriminator / message type (or reach through a copy)"
			}
		}
		return "pass"
	}
	return skip
}

// ---- C10: purity ----

// mutate every byte reachable from a message body (Octet arrays are values; Buffers are slices)
func scribble(v reflect.Value) {
	switch v.Kind() {
	case reflect.Ptr:
		if !v.IsNil() {
			scribble(v.Elem())
		}
	case reflect.Struct:
		for i := 0; i < v.NumField(); i++ {
			scribble(v.Field(i))
		}
	case reflect.Slice:
		if v.Type().Elem().Kind() == reflect.Uint8 {
			b := v.Bytes()
			for i := range b {
				b[i] ^= 0xff
			}
			// also write into spare capacity: an aliasing decoder could expose it
			full := b[:cap(b)]
			for i := len(b); i < len(full); i++ {
				full[i] ^= 0xff
			}
		}
	}
}

func oracleC10(op string, args []string) string {
	switch op {
	case "dec2":
		if len(args) != 3 {
			return skip
		}
		pt, isMsg := msgTypes[args[0]]
		a, ok1 := unhex(args[1])
		b, ok2 := unhex(args[2])
		if !isMsg || !ok1 || !ok2 {
			return skip
		}
		// decode A, keep a copy of the struct (it holds the slices of the first result), decode B into the same struct:
		// what the first decode returned must still read the same — every decode writes into memory of its own
		body := reflect.New(pt.Elem())
		if res := body.MethodByName("Decode" + args[0]).Call([]reflect.Value{reflect.ValueOf(&a)}); !res[0].IsNil() {
			return skip
		}
		first := reflect.New(pt.Elem())
		first.Elem().Set(body.Elem())
		before := showBody(args[0], first.Elem())
		body.MethodByName("Decode" + args[0]).Call([]reflect.Value{reflect.ValueOf(&b)})
		if after := showBody(args[0], first.Elem()); after != before {
			return "FAIL the result of an earlier decode changed when the same struct was decoded into again (storage reused): " + after
		}
		return "pass"
	case "dec":
		if len(args) != 2 || args[1] == "nil" {
			return skip
		}
		b, ok := unhex(args[1])
		if !ok {
			return skip
		}
		entry := args[0]
		dec := func(in *[]byte) (string, reflect.Value, bool) {
			if pt, isMsg := msgTypes[entry]; isMsg {
				body := reflect.New(pt.Elem())
				res := body.MethodByName("Decode" + entry).Call([]reflect.Value{reflect.ValueOf(in)})
				if !res[0].IsNil() {
					return "err", body, false
				}
				return showBody(entry, body.Elem()), body, true
			}
			m, out := decodeEntry(entry, in)
			if m == nil {
				return "err", reflect.Value{}, false
			}
			return out, reflect.ValueOf(m), true
		}
		// give the input spare capacity so that an append-style alias would be visible
		in := make([]byte, len(b), len(b)+16)
		copy(in, b)
		snap1, mv, okDec := dec(&in)
		if !bytes.Equal(in, b) {
			return "FAIL decoding modified its input: " + hexs(in)
		}
		in2 := append([]byte{}, b...)
		snap2, _, _ := dec(&in2)
		if snap1 != snap2 {
			return "FAIL decoding is not deterministic"
		}
		if !okDec {
			return "pass"
		}
		// mutate the input afterwards: the message must not change
		for i := range in {
			in[i] ^= 0xff
		}
		var after string
		if _, isMsg := msgTypes[entry]; isMsg {
			after = showBody(entry, mv.Elem())
		} else {
			after = "ok " + showNas(mv.Interface().(*nas.Message))
		}
		if after != snap1 {
			return "FAIL decoded message aliases the input (changed after input mutation)"
		}
		// mutate the message: the input must not change
		flipped := append([]byte{}, in...)
		scribble(mv)
		if !bytes.Equal(in, flipped) {
			return "FAIL input aliases the decoded message (changed after message mutation)"
		}
		return "pass"
	case "enc":
		if len(args) != 4 || !strings.HasPrefix(args[1], "hdr=") {
			return skip
		}
		hdr, ok1 := unhex(args[1][4:])
		fs, ok2 := parseFields(args[3])
		if !ok1 || !ok2 {
			return skip
		}
		fam, name := args[0], args[2]
		m, body, ok := buildMessage(fam, hdr, name, fs)
		if !ok {
			return skip
		}
		before := showBody(name, body.Elem())
		whole := func() string { // header view and every body pointer of the Message, not only the body that is encoded
			if fam == "msg" || m == nil {
				return ""
			}
			return showNas(m)
		}
		beforeAll := whole()
		pre := []byte{0xde, 0xad, 0xbe, 0xef, 0x01}
		var out1, out2 []byte
		var e1, e2 error
		if fam == "msg" {
			buf := make([]byte, len(pre), len(pre)+7)
			copy(buf, pre)
			out1, e1 = encodeBuilt(fam, name, m, body, buf)
			out2, e2 = encodeBuilt(fam, name, m, body, append([]byte{}, pre...))
			if e1 == nil && (len(out1) < len(pre) || !bytes.Equal(out1[:len(pre)], pre)) {
				return "FAIL encoder did not append to the supplied buffer: " + hexs(out1)
			}
		} else {
			if known := func() (ok bool) {
				defer func() {
					if recover() != nil {
						ok = false
					}
				}()
				out1, e1 = m.PlainNasEncode()
				return true
			}(); !known || e1 != nil {
				// ill-formed (header names an absent body) or rejected: nothing is said about the output, but what the caller's
				// buffer held before the call is still there afterwards
				buf := new(bytes.Buffer)
				buf.Write(pre)
				func() {
					defer func() { _ = recover() }()
					if fam == "gmm" {
						_ = m.GmmMessageEncode(buf)
					} else {
						_ = m.GsmMessageEncode(buf)
					}
				}()
				if !bytes.HasPrefix(buf.Bytes(), pre) {
					return "FAIL a failing encode removed or changed what the supplied buffer already held: " + hexs(buf.Bytes())
				}
				if !known {
					return skip
				}
			}
			if e1 == nil {
				snap := append([]byte{}, out1...)
				encodeOther()
				if !bytes.Equal(out1, snap) {
					return "FAIL the encoding changed after another message was encoded (result shares storage with later results)"
				}
			}
			out2, e2 = m.PlainNasEncode()
			if e1 == nil {
				// the family-level encoders take the caller's buffer: what is already in it stays, the message is appended
				buf := new(bytes.Buffer)
				buf.Write(pre)
				var e3 error
				if fam == "gmm" {
					e3 = m.GmmMessageEncode(buf)
				} else {
					e3 = m.GsmMessageEncode(buf)
				}
				if e3 == nil && !bytes.Equal(buf.Bytes(), append(append([]byte{}, pre...), out1...)) {
					return "FAIL family encoder did not append to the supplied buffer: " + hexs(buf.Bytes())
				}
			}
		}
		if (e1 == nil) != (e2 == nil) || !bytes.Equal(out1, out2) {
			return "FAIL encoding is not deterministic"
		}
		if after := showBody(name, body.Elem()); after != before {
			return "FAIL encoding modified the message"
		}
		if afterAll := whole(); afterAll != beforeAll {
			return "FAIL encoding modified the message (header view): " + afterAll
		}
		if e1 == nil {
			// mutate the output: the message must not change
			for i := range out1 {
				out1[i] ^= 0xff
			}
			if after := showBody(name, body.Elem()); after != before {
				return "FAIL encoded bytes alias the message"
			}
		}
		return "pass"
	}
	return skip
}

// encodeOther encodes an unrelated message (twice) through PlainNasEncode
func encodeOther() {
	other := nas.NewMessage()
	ob := []byte{0x7e, 0x00, 0x55}
	if other.PlainNasDecode(&ob) == nil {
		_, _ = other.PlainNasEncode()
		_, _ = other.PlainNasEncode()
	}
}

// staleBody: some buffer-backed element of the message body declares a length other than the length of its contents
func staleBody(body reflect.Value) bool {
	for body.Kind() == reflect.Ptr {
		if body.IsNil() {
			return false
		}
		body = body.Elem()
	}
	if body.Kind() != reflect.Struct {
		return false
	}
	for i := 0; i < body.NumField(); i++ {
		f := body.Field(i)
		if f.Kind() == reflect.Ptr {
			if f.IsNil() {
				continue
			}
			f = f.Elem()
		}
		if f.Kind() != reflect.Struct {
			continue
		}
		l, b := f.FieldByName("Len"), f.FieldByName("Buffer")
		if l.IsValid() && b.IsValid() && b.Kind() == reflect.Slice && int(l.Uint()) != b.Len() {
			return true
		}
	}
	return false
}
