package main

import (
	"bufio"
	"bytes"
	"fmt"
	"strconv"
	"strings"

	"github.com/free5gc/nas/security"
	"github.com/free5gc/nas/security/snow3g"
	"github.com/free5gc/nas/security/zuc"
)

func init() {
	ops["ks"] = opKs
	ops["nea"] = opNea
	ops["nia"] = opNia
	ops["nasenc"] = opNasEnc
	ops["nasmac"] = opNasMac
	ops["leaf"] = opLeaf
	gens["security"] = genSecurity
	gens["secapi"] = genSecApi
	oracles["C08"] = oracleC08
}

func words(ws []uint32) string {
	var p []string
	for _, w := range ws {
		p = append(p, fmt.Sprintf("%08x", w))
	}
	if len(p) == 0 {
		return "-"
	}
	return strings.Join(p, ",")
}

func key16(s string) ([16]byte, bool) {
	var k [16]byte
	b, ok := unhex(s)
	if !ok || len(b) != 16 {
		return k, false
	}
	copy(k[:], b)
	return k, true
}

func be32s(b []byte) [4]uint32 {
	var w [4]uint32
	for i := 0; i < 4; i++ {
		w[i] = uint32(b[4*i])<<24 | uint32(b[4*i+1])<<16 | uint32(b[4*i+2])<<8 | uint32(b[4*i+3])
	}
	return w
}

// ks snow|zuc <key16> <iv16> <nwords>
func opKs(args []string) string {
	if len(args) != 4 {
		return "bad-op"
	}
	k, ok1 := unhex(args[1])
	iv, ok2 := unhex(args[2])
	n, err := strconv.Atoi(args[3])
	if !ok1 || !ok2 || err != nil || len(k) != 16 || len(iv) != 16 || n < 0 {
		return "bad-op"
	}
	switch args[0] {
	case "snow":
		return "ok " + words(snow3g.GetKeyStream(be32s(k), be32s(iv), n))
	case "zuc":
		return "ok " + words(zuc.Zuc(k, iv, uint32(n)))
	}
	return "bad-op"
}

type secArgs struct {
	alg         int
	key         [16]byte
	count       uint32
	bearer, dir uint64
	data        []byte
	isNil       bool
	bitlen      uint64
}

func parseSec(args []string, withLen bool) (secArgs, bool) {
	var a secArgs
	want := 6
	if withLen {
		want = 7
	}
	if len(args) != want {
		return a, false
	}
	var err error
	if a.alg, err = strconv.Atoi(args[0]); err != nil {
		return a, false
	}
	var ok bool
	if a.key, ok = key16(args[1]); !ok {
		return a, false
	}
	c, err := strconv.ParseUint(args[2], 10, 32)
	if err != nil {
		return a, false
	}
	a.count = uint32(c)
	if a.bearer, err = strconv.ParseUint(args[3], 10, 32); err != nil {
		return a, false
	}
	if a.dir, err = strconv.ParseUint(args[4], 10, 32); err != nil {
		return a, false
	}
	if args[5] == "nil" {
		a.isNil = true
	} else if a.data, ok = unhex(args[5]); !ok {
		return a, false
	}
	if withLen {
		if a.bitlen, err = strconv.ParseUint(args[6], 10, 32); err != nil {
			return a, false
		}
	}
	return a, true
}

// nea <1|2|3> <key> <count> <bearer> <dir> <hex> <bitlen>   (per-algorithm functions)
func opNea(args []string) string {
	a, ok := parseSec(args, true)
	if !ok || a.isNil {
		return "bad-op"
	}
	var out []byte
	var err error
	switch a.alg {
	case 1:
		out, err = security.NEA1(a.key, a.count, uint32(a.bearer), uint32(a.dir), a.data, uint32(a.bitlen))
	case 2:
		out, err = security.NEA2(a.key, a.count, uint8(a.bearer), uint8(a.dir), a.data)
	case 3:
		out, err = security.NEA3(a.key, a.count, uint8(a.bearer), uint8(a.dir), a.data, uint32(a.bitlen))
	default:
		return "bad-op"
	}
	if err != nil {
		return "err other"
	}
	return "ok " + hexs(out)
}

func opNia(args []string) string {
	a, ok := parseSec(args, true)
	if !ok || a.isNil {
		return "bad-op"
	}
	var out []byte
	var err error
	switch a.alg {
	case 1:
		out, err = security.NIA1(a.key, a.count, uint8(a.bearer), uint32(a.dir), a.data, a.bitlen)
	case 2:
		out, err = security.NIA2(a.key, a.count, uint8(a.bearer), uint8(a.dir), a.data)
	case 3:
		out, err = security.NIA3(a.key, a.count, uint8(a.bearer), uint8(a.dir), a.data, uint32(a.bitlen))
	default:
		return "bad-op"
	}
	if err != nil {
		return "err other"
	}
	return "ok " + hexs(out)
}

func payloadStr(p []byte) string {
	if p == nil {
		return "nil"
	}
	return hexs(p)
}

// nasenc <alg> <key> <count> <bearer> <dir> <hex|nil>  -> ok err=<bool> <payload after>
func opNasEnc(args []string) string {
	a, ok := parseSec(args, false)
	if !ok {
		return "bad-op"
	}
	var p []byte
	if !a.isNil {
		p = append([]byte{}, a.data...)
	}
	err := security.NASEncrypt(uint8(a.alg), a.key, a.count, uint8(a.bearer), uint8(a.dir), p)
	return fmt.Sprintf("ok err=%v %s", err != nil, payloadStr(p))
}

func opNasMac(args []string) string {
	a, ok := parseSec(args, false)
	if !ok {
		return "bad-op"
	}
	var p []byte
	if !a.isNil {
		p = append([]byte{}, a.data...)
	}
	mac, err := security.NASMacCalculate(uint8(a.alg), a.key, a.count, uint8(a.bearer), uint8(a.dir), p)
	if err != nil {
		return "ok err"
	}
	return "ok " + hexs(mac)
}

// leaf <fn> <args…>
func opLeaf(args []string) string {
	if len(args) < 2 {
		return "bad-op"
	}
	var v []uint64
	for _, s := range args[1:] {
		x, err := strconv.ParseUint(s, 10, 64)
		if err != nil {
			return "bad-op"
		}
		v = append(v, x)
	}
	switch args[0] {
	case "snow.mulx":
		return fmt.Sprint("ok ", snow3g.VerifMulx(byte(v[0]), byte(v[1])))
	case "snow.mulxPow":
		return fmt.Sprint("ok ", snow3g.VerifMulxPow(byte(v[0]), byte(v[1]), byte(v[2])))
	case "snow.s1":
		return fmt.Sprint("ok ", snow3g.VerifS1(uint32(v[0])))
	case "snow.s2":
		return fmt.Sprint("ok ", snow3g.VerifS2(uint32(v[0])))
	case "snow.mulAlpha":
		return fmt.Sprint("ok ", snow3g.VerifMulAlpha(byte(v[0])))
	case "snow.divAlpha":
		return fmt.Sprint("ok ", snow3g.VerifDivAlpha(byte(v[0])))
	case "zuc.l1":
		return fmt.Sprint("ok ", zuc.VerifL1(uint32(v[0])))
	case "zuc.l2":
		return fmt.Sprint("ok ", zuc.VerifL2(uint32(v[0])))
	case "zuc.lfsr": // init u c0..c15
		if len(v) != 18 {
			return "bad-op"
		}
		var s [16]uint32
		for i := range s {
			s[i] = uint32(v[2+i])
		}
		r := zuc.VerifLfsrState(s, v[0] == 1, uint32(v[1]))
		return "ok " + words(r[:])
	case "sec.mulx":
		return fmt.Sprint("ok ", security.VerifMulx(v[0], v[1]))
	case "sec.mulxPow":
		return fmt.Sprint("ok ", security.VerifMulxPow(v[0], v[1], v[2]))
	case "sec.mul":
		return fmt.Sprint("ok ", security.VerifMul(v[0], v[1], v[2]))
	case "sec.getWord": // i w0 w1 ...
		var st []uint32
		for _, x := range v[1:] {
			st = append(st, uint32(x))
		}
		return fmt.Sprint("ok ", security.VerifGetWord(st, int(v[0])))
	}
	return "bad-op"
}

// ---- generators ----

func genSecurity(g *Gen, w *bufio.Writer) {
	key := func() string { return hexs(g.Bytes(16)) }
	// keystreams
	for i := 0; i < 6+g.N/200; i++ {
		fmt.Fprintf(w, "ks snow %s %s %d\n", key(), key(), g.Intn(40))
		fmt.Fprintf(w, "ks zuc %s %s %d\n", key(), key(), g.Intn(40))
	}
	fmt.Fprintf(w, "ks snow %s %s 0\n", key(), key())
	fmt.Fprintf(w, "ks zuc %s %s 0\n", key(), key())
	fmt.Fprintf(w, "ks snow %s %s 1200\n", key(), key())
	fmt.Fprintf(w, "ks zuc %s %s 1200\n", key(), key())
	fmt.Fprintf(w, "ks zuc %s %s 3\n", strings.Repeat("ff", 16), strings.Repeat("ff", 16))
	fmt.Fprintf(w, "ks zuc %s %s 3\n", strings.Repeat("00", 16), strings.Repeat("00", 16))
	// leaf functions
	for i := 0; i < 256; i++ {
		fmt.Fprintf(w, "leaf snow.mulAlpha %d\nleaf snow.divAlpha %d\n", i, i)
		fmt.Fprintf(w, "leaf snow.mulx %d %d\n", i, g.Intn(256))
		fmt.Fprintf(w, "leaf snow.mulxPow %d %d %d\n", i, g.Intn(256), g.Intn(256))
	}
	for i := 0; i < 200+g.N/10; i++ {
		x := uint32(g.U64())
		if i < 32 {
			x = 1 << uint(i)
		}
		fmt.Fprintf(w, "leaf snow.s1 %d\nleaf snow.s2 %d\nleaf zuc.l1 %d\nleaf zuc.l2 %d\n", x, x, x, x)
		a, b := g.U64(), g.U64()
		if i < 64 {
			a = 1 << uint(i)
		} else if i < 70 {
			a = ^uint64(0)
		}
		fmt.Fprintf(w, "leaf sec.mulx %d 27\nleaf sec.mulxPow %d %d 27\nleaf sec.mul %d %d 27\n", a, a, g.Intn(64), a, b)
		// zuc lfsr on in-range cells (1..2^31-1) incl. extremes
		var cells []string
		for c := 0; c < 16; c++ {
			v := uint32(g.U64())&0x7fffffff | 1
			if g.Intn(6) == 0 {
				v = 0x7fffffff
			}
			if g.Intn(9) == 0 {
				v = 1
			}
			cells = append(cells, fmt.Sprint(v))
		}
		fmt.Fprintf(w, "leaf zuc.lfsr %d %d %s\n", g.Intn(2), uint32(g.U64())&0x7fffffff, strings.Join(cells, " "))
		n := 2 + g.Intn(5)
		var st []string
		for c := 0; c < n; c++ {
			st = append(st, fmt.Sprint(uint32(g.U64())))
		}
		fmt.Fprintf(w, "leaf sec.getWord %d %s\n", g.Intn(32*(n-1)), strings.Join(st, " "))
	}
	// per-algorithm functions: every bit length 0..130 (each residue mod 8/32/64), plus longer, all bearers, both directions
	for alg := 1; alg <= 3; alg++ {
		maxBits := 130
		if g.Tier == "thorough" {
			maxBits = 300
		}
		for bl := 0; bl <= maxBits; bl++ {
			nb := (bl + 7) / 8
			data := g.Bytes(nb)
			if alg != 2 && bl%8 != 0 && nb > 0 {
				// canonical packing for the MAC functions: pad bits zero (cipher functions take any)
			}
			bearer, dir := g.Intn(32), g.Intn(2)
			fmt.Fprintf(w, "nea %d %s %d %d %d %s %d\n", alg, key(), uint32(g.U64()), bearer, dir, hexs(data), bl)
			md := append([]byte{}, data...)
			if bl%8 != 0 && nb > 0 {
				md[nb-1] &= 0xff << uint(8-bl%8)
			}
			fmt.Fprintf(w, "nia %d %s %d %d %d %s %d\n", alg, key(), uint32(g.U64()), bearer, dir, hexs(md), bl)
			// surplus octets beyond ceil(length/8) (the cipher functions zero / ignore them)
			if bl%16 == 3 {
				fmt.Fprintf(w, "nea %d %s %d %d %d %s %d\n", alg, key(), uint32(g.U64()), bearer, dir, hexs(append(append([]byte{}, data...), g.Bytes(1+g.Intn(6))...)), bl)
			}
		}
		for b := 0; b < 32; b++ {
			for d := 0; d < 2; d++ {
				data := g.Bytes(5 + g.Intn(30))
				fmt.Fprintf(w, "nea %d %s %d %d %d %s %d\n", alg, key(), uint32(g.U64()), b, d, hexs(data), len(data)*8)
				fmt.Fprintf(w, "nia %d %s %d %d %d %s %d\n", alg, key(), uint32(g.U64()), b, d, hexs(data), len(data)*8)
			}
		}
		for i := 0; i < g.N/40; i++ {
			n := g.Intn(600)
			if i%7 == 0 {
				n = 64 * (1 + g.Intn(12))
				n /= 8
			}
			data := g.Bytes(n)
			cnt := uint32(g.U64())
			if i%5 == 0 {
				cnt = 0xffffffff
			}
			fmt.Fprintf(w, "nea %d %s %d %d %d %s %d\n", alg, key(), cnt, g.Intn(32), g.Intn(2), hexs(data), n*8)
			fmt.Fprintf(w, "nia %d %s %d %d %d %s %d\n", alg, key(), cnt, g.Intn(32), g.Intn(2), hexs(data), n*8)
		}
		fmt.Fprintf(w, "nea %d %s 7 3 1 %s %d\n", alg, key(), hexs(g.Bytes(4096)), 4096*8)
		fmt.Fprintf(w, "nia %d %s 7 3 1 %s %d\n", alg, key(), hexs(g.Bytes(2048)), 2048*8)
	}
}

// API level: algorithm ids x bearers x directions x payloads (incl. nil and empty)
func genSecApi(g *Gen, w *bufio.Writer) {
	key := func() string { return hexs(g.Bytes(16)) }
	algs := []int{0, 1, 2, 3, 4, 5, 7, 8, 16, 128, 255}
	bearers := []int{0, 1, 2, 15, 30, 31, 32, 33, 64, 128, 255}
	dirs := []int{0, 1, 2, 3, 128, 255}
	for _, alg := range algs {
		for _, b := range bearers {
			for _, d := range dirs {
				for _, pl := range []string{"nil", "-", hexs(g.Bytes(1)), hexs(g.Bytes(7 + g.Intn(40)))} {
					k := key()
					c := uint32(g.U64())
					fmt.Fprintf(w, "nasenc %d %s %d %d %d %s\n", alg, k, c, b, d, pl)
					fmt.Fprintf(w, "nasmac %d %s %d %d %d %s\n", alg, k, c, b, d, pl)
				}
			}
		}
	}
	for alg := 0; alg < 256; alg++ {
		fmt.Fprintf(w, "nasenc %d %s 1 1 1 %s\n", alg, key(), hexs(g.Bytes(9)))
		fmt.Fprintf(w, "nasmac %d %s 1 1 1 %s\n", alg, key(), hexs(g.Bytes(9)))
	}
	for alg := 0; alg <= 3; alg++ {
		for n := 0; n <= 70; n++ {
			fmt.Fprintf(w, "nasenc %d %s %d %d %d %s\n", alg, key(), uint32(g.U64()), g.Intn(32), g.Intn(2), hexs(g.Bytes(n)))
			fmt.Fprintf(w, "nasmac %d %s %d %d %d %s\n", alg, key(), uint32(g.U64()), g.Intn(32), g.Intn(2), hexs(g.Bytes(n)))
		}
		for i := 0; i < g.N/50; i++ {
			n := g.Intn(1500)
			fmt.Fprintf(w, "nasenc %d %s %d %d %d %s\n", alg, key(), uint32(g.U64()), g.Intn(32), g.Intn(2), hexs(g.Bytes(n)))
			fmt.Fprintf(w, "nasmac %d %s %d %d %d %s\n", alg, key(), uint32(g.U64()), g.Intn(32), g.Intn(2), hexs(g.Bytes(n)))
		}
		// long payloads, around every power of two up to 8 KiB (64 KiB in thorough) and with every residue modulo 4: block /
		// chunk boundaries of an implementation that produces its keystream piecewise
		top := 14
		if g.Tier == "thorough" {
			top = 16
		}
		// messages that end or begin with a run of zero octets, all-zero messages (word-wise skipping of "empty" input)
		for z := 1; z <= 17; z++ {
			for _, lead := range []int{0, 1, 5, 8} {
				d := append(g.Bytes(lead), make([]byte, z)...)
				fmt.Fprintf(w, "nasmac %d %s %d %d %d %s\n", alg, key(), uint32(g.U64()), g.Intn(32), g.Intn(2), hexs(d))
				fmt.Fprintf(w, "nasenc %d %s %d %d %d %s\n", alg, key(), uint32(g.U64()), g.Intn(32), g.Intn(2), hexs(d))
				e := append(make([]byte, z), g.Bytes(lead)...)
				fmt.Fprintf(w, "nasmac %d %s %d %d %d %s\n", alg, key(), uint32(g.U64()), g.Intn(32), g.Intn(2), hexs(e))
			}
		}
		for e := 7; e <= top; e++ {
			for _, dl := range []int{-3, -1, 0, 1, 2, 5} {
				if e >= 14 && dl != 1 {
					continue
				}
				n := 1<<uint(e) + dl
				fmt.Fprintf(w, "nasenc %d %s %d %d %d %s\n", alg, key(), uint32(g.U64()), g.Intn(32), g.Intn(2), hexs(g.Bytes(n)))
				if dl == 1 || dl == 0 {
					fmt.Fprintf(w, "nasmac %d %s %d %d %d %s\n", alg, key(), uint32(g.U64()), g.Intn(32), g.Intn(2), hexs(g.Bytes(n)))
				}
			}
		}
	}
}

// window returns data as a slice of a larger buffer (24 octets of spare capacity filled with a pattern) and a check that those
// octets, which belong to the caller and not to the message, are unchanged
func window(data []byte) ([]byte, func() bool) {
	buf := make([]byte, len(data)+24)
	copy(buf, data)
	for i := len(data); i < len(buf); i++ {
		buf[i] = byte(0x5a + i)
	}
	tail := append([]byte{}, buf[len(data):]...)
	return buf[:len(data)], func() bool { return bytes.Equal(buf[len(data):], tail) }
}

// ---- C08: the API laws, evaluated on the real code ----

func oracleC08(op string, args []string) string {
	a, ok := parseSec(args, false)
	if !ok {
		return skip
	}
	keyCopy := a.key
	switch op {
	case "nasenc":
		var p []byte
		tailOK := func() bool { return true }
		if !a.isNil {
			p, tailOK = window(a.data)
		}
		err := security.NASEncrypt(uint8(a.alg), a.key, a.count, uint8(a.bearer), uint8(a.dir), p)
		if !tailOK() {
			return "FAIL octets behind the payload (spare capacity of the caller's slice) were modified"
		}
		invalid := a.bearer > 31 || a.dir > 1 || a.isNil || a.alg > 3
		if invalid {
			if err == nil {
				return "FAIL invalid arguments accepted without error"
			}
			if !bytes.Equal(p, a.data) || (a.isNil != (p == nil)) {
				return "FAIL payload modified although an error was returned"
			}
			return "pass"
		}
		if err != nil {
			return "FAIL valid arguments rejected: " + err.Error()
		}
		if len(p) != len(a.data) {
			return "FAIL ciphering changed the length"
		}
		if a.key != keyCopy {
			return "FAIL key modified"
		}
		if a.alg == 0 {
			if !bytes.Equal(p, a.data) {
				return "FAIL algorithm 0 changed the payload"
			}
			return "pass"
		}
		// involution
		q := append([]byte{}, p...)
		if err := security.NASEncrypt(uint8(a.alg), a.key, a.count, uint8(a.bearer), uint8(a.dir), q); err != nil || !bytes.Equal(q, a.data) {
			return "FAIL ciphering twice does not return the plaintext"
		}
		// keystream independence of the plaintext: c xor p is the same for another plaintext of the same length
		other := make([]byte, len(a.data))
		for i := range other {
			other[i] = a.data[i] ^ byte(0xa5+i)
		}
		oc := append([]byte{}, other...)
		security.NASEncrypt(uint8(a.alg), a.key, a.count, uint8(a.bearer), uint8(a.dir), oc)
		for i := range p {
			if p[i]^a.data[i] != oc[i]^other[i] {
				return fmt.Sprintf("FAIL ciphertext xor plaintext depends on the plaintext (octet %d)", i)
			}
		}
		// prefix stability: every prefix length
		step := 1
		if len(a.data) > 80 {
			step = 1 + len(a.data)/40
		}
		for n := 0; n <= len(a.data); n += step {
			// the prefix as a window of the whole plaintext: what lies behind it belongs to the caller
			whole := append([]byte{}, a.data...)
			pre := whole[:n]
			security.NASEncrypt(uint8(a.alg), a.key, a.count, uint8(a.bearer), uint8(a.dir), pre)
			if !bytes.Equal(pre, p[:n]) {
				return fmt.Sprintf("FAIL ciphertext of the %d-octet prefix is not the prefix of the ciphertext", n)
			}
			if !bytes.Equal(whole[n:], a.data[n:]) {
				return fmt.Sprintf("FAIL ciphering the %d-octet prefix of a buffer modified the octets behind it", n)
			}
		}
		return "pass"
	case "nasmac":
		var p []byte
		tailOK := func() bool { return true }
		if !a.isNil {
			p, tailOK = window(a.data)
		}
		mac, err := security.NASMacCalculate(uint8(a.alg), a.key, a.count, uint8(a.bearer), uint8(a.dir), p)
		if !tailOK() {
			return "FAIL octets behind the message (spare capacity of the caller's slice) were modified"
		}
		invalid := a.bearer > 31 || a.dir > 1 || a.isNil || a.alg > 3
		if invalid {
			if err == nil {
				return "FAIL invalid arguments accepted without error"
			}
			return "pass"
		}
		if err != nil {
			return "FAIL valid arguments rejected: " + err.Error()
		}
		if len(mac) != 4 {
			return fmt.Sprintf("FAIL MAC has %d octets", len(mac))
		}
		if !bytes.Equal(p, a.data) {
			return "FAIL message modified"
		}
		if a.alg == 0 && !bytes.Equal(mac, []byte{0, 0, 0, 0}) {
			return "FAIL algorithm 0 MAC is not all zero"
		}
		mac2, _ := security.NASMacCalculate(uint8(a.alg), a.key, a.count, uint8(a.bearer), uint8(a.dir), p)
		if !bytes.Equal(mac, mac2) {
			return "FAIL MAC is not deterministic"
		}
		// a returned MAC belongs to the caller: writing into it must not change any other result, earlier or later
		keep := append([]byte{}, mac2...)
		full := mac[:cap(mac)]
		for i := range full {
			full[i] ^= 0xff
		}
		if !bytes.Equal(mac2, keep) {
			return "FAIL two returned MACs share memory (writing into one changed the other)"
		}
		mac3, _ := security.NASMacCalculate(uint8(a.alg), a.key, a.count, uint8(a.bearer), uint8(a.dir), p)
		if !bytes.Equal(mac3, keep) {
			return fmt.Sprintf("FAIL MAC changed after the caller wrote into an earlier result: %x, was %x", mac3, keep)
		}
		// the MAC of a prefix taken as a window of the message leaves the rest of the message alone
		for _, n := range []int{len(a.data) / 2, len(a.data) - 1, len(a.data) - 3, len(a.data) - 7} {
			if n < 0 {
				continue
			}
			whole := append([]byte{}, a.data...)
			security.NASMacCalculate(uint8(a.alg), a.key, a.count, uint8(a.bearer), uint8(a.dir), whole[:n])
			if !bytes.Equal(whole, a.data) {
				return fmt.Sprintf("FAIL the MAC over the first %d octets of a buffer modified the buffer", n)
			}
		}
		if !tailOK() {
			return "FAIL octets behind the message (spare capacity of the caller's slice) were modified"
		}
		return "pass"
	}
	return skip
}

// ---- spec view (C06/C07): the standard's functions define only the first LENGTH bits ----

func init() {
	ops["snea"] = opSnea
	ops["snia"] = opSnia
	ops["snasenc"] = func(args []string) string {
		a, ok := parseSec(args, false)
		if !ok || a.isNil || a.bearer > 31 || a.dir > 1 || a.alg < 1 || a.alg > 3 {
			return "bad-op"
		}
		p := append([]byte{}, a.data...)
		if err := security.NASEncrypt(uint8(a.alg), a.key, a.count, uint8(a.bearer), uint8(a.dir), p); err != nil {
			return "err " + err.Error()
		}
		return "ok " + hexs(p)
	}
	ops["snasmac"] = func(args []string) string {
		a, ok := parseSec(args, false)
		if !ok || a.isNil || a.bearer > 31 || a.dir > 1 || a.alg < 1 || a.alg > 3 {
			return "bad-op"
		}
		mac, err := security.NASMacCalculate(uint8(a.alg), a.key, a.count, uint8(a.bearer), uint8(a.dir), a.data)
		if err != nil {
			return "err " + err.Error()
		}
		return "ok " + hexs(mac)
	}
	ops["szuclfsr"] = func(args []string) string {
		if len(args) != 18 {
			return "bad-op"
		}
		var v [18]uint64
		for i := range args {
			x, err := strconv.ParseUint(args[i], 10, 32)
			if err != nil {
				return "bad-op"
			}
			v[i] = x
		}
		var st [16]uint32
		for i := range st {
			st[i] = uint32(v[2+i])
		}
		r := zuc.VerifLfsrState(st, v[0] == 1, uint32(v[1]))
		var out []string
		for _, x := range r {
			out = append(out, fmt.Sprint(x))
		}
		return "ok " + strings.Join(out, " ")
	}
	gens["secspec"] = genSecSpec
}

func opSnea(args []string) string {
	a, ok := parseSec(args, true)
	if !ok || a.isNil || a.bearer > 31 || a.dir > 1 {
		return "bad-op"
	}
	r := opNea(args)
	if !strings.HasPrefix(r, "ok ") || a.alg == 2 {
		return r
	}
	out, _ := unhex(r[3:])
	nb := int(a.bitlen+7) / 8
	if len(out) < nb {
		return "bad-op"
	}
	out = append([]byte{}, out[:nb]...)
	if a.bitlen%8 != 0 {
		out[nb-1] &= 0xff << uint(8-a.bitlen%8)
	}
	return "ok " + hexs(out)
}

func opSnia(args []string) string {
	a, ok := parseSec(args, true)
	if !ok || a.isNil || a.bearer > 31 || a.dir > 1 {
		return "bad-op"
	}
	return opNia(args)
}

// same distribution as genSecurity's nea/nia lines, restricted to the property's domain:
// len(data) = ceil(bitlen/8); MAC messages canonically packed (pad bits zero)
func genSecSpec(g *Gen, w *bufio.Writer) {
	key := func() string { return hexs(g.Bytes(16)) }
	for alg := 1; alg <= 3; alg++ {
		maxBits := 200
		if g.Tier == "thorough" {
			maxBits = 700
		}
		for bl := 0; bl <= maxBits; bl++ {
			if alg == 2 && bl%8 != 0 {
				continue
			}
			nb := (bl + 7) / 8
			data := g.Bytes(nb)
			md := append([]byte{}, data...)
			if bl%8 != 0 && nb > 0 {
				md[nb-1] &= 0xff << uint(8-bl%8)
			}
			fmt.Fprintf(w, "snea %d %s %d %d %d %s %d\n", alg, key(), uint32(g.U64()), g.Intn(32), g.Intn(2), hexs(data), bl)
			fmt.Fprintf(w, "snia %d %s %d %d %d %s %d\n", alg, key(), uint32(g.U64()), g.Intn(32), g.Intn(2), hexs(md), bl)
		}
		for b := 0; b < 32; b++ {
			for d := 0; d < 2; d++ {
				data := g.Bytes(1 + g.Intn(40))
				cnt := uint32(g.U64())
				if b%7 == 0 {
					cnt = 0xffffffff - uint32(b)
				}
				fmt.Fprintf(w, "snea %d %s %d %d %d %s %d\n", alg, key(), cnt, b, d, hexs(data), len(data)*8)
				fmt.Fprintf(w, "snia %d %s %d %d %d %s %d\n", alg, key(), cnt, b, d, hexs(data), len(data)*8)
			}
		}
		// the in-place / byte-length API: all 32 bearers x 2 directions, payload lengths 0..40 and longer
		for b := 0; b < 32; b++ {
			for d := 0; d < 2; d++ {
				data := g.Bytes(g.Intn(41))
				if b == 0 && d == 0 {
					data = nil
				}
				fmt.Fprintf(w, "snasenc %d %s %d %d %d %s\n", alg, key(), uint32(g.U64()), b, d, hexs(data))
				fmt.Fprintf(w, "snasmac %d %s %d %d %d %s\n", alg, key(), uint32(g.U64()), b, d, hexs(data))
			}
		}
		for n := 0; n <= 70; n++ {
			fmt.Fprintf(w, "snasenc %d %s %d %d %d %s\n", alg, key(), uint32(g.U64()), g.Intn(32), g.Intn(2), hexs(g.Bytes(n)))
			fmt.Fprintf(w, "snasmac %d %s %d %d %d %s\n", alg, key(), uint32(g.U64()), g.Intn(32), g.Intn(2), hexs(g.Bytes(n)))
		}
		for i := 0; i < g.N/100; i++ {
			n := g.Intn(400)
			data := g.Bytes(n)
			fmt.Fprintf(w, "snasenc %d %s %d %d %d %s\n", alg, key(), uint32(g.U64()), g.Intn(32), g.Intn(2), hexs(data))
			fmt.Fprintf(w, "snea %d %s %d %d %d %s %d\n", alg, key(), uint32(g.U64()), g.Intn(32), g.Intn(2), hexs(data), n*8)
			fmt.Fprintf(w, "snia %d %s %d %d %d %s %d\n", alg, key(), uint32(g.U64()), g.Intn(32), g.Intn(2), hexs(data), n*8)
		}
		// long payloads through the byte-length API: every power-of-two boundary of the bit length up to the largest NAS payload
		long := []int{2047, 2048, 4095, 4096, 4097, 8191, 8192, 8193}
		if g.Tier == "thorough" {
			long = append(long, 12000, 16383, 16384, 32768, 65535)
		}
		for _, n := range long {
			fmt.Fprintf(w, "snasenc %d %s %d %d %d %s\n", alg, key(), uint32(g.U64()), g.Intn(32), g.Intn(2), hexs(g.Bytes(n)))
			// the bit-level 128-EIA3 specification is quadratic in the message length: long MAC inputs only for EIA1 / EIA2
			if n <= 8193 && (alg != 3 || n <= 2048) {
				fmt.Fprintf(w, "snasmac %d %s %d %d %d %s\n", alg, key(), uint32(g.U64()), g.Intn(32), g.Intn(2), hexs(g.Bytes(n)))
			}
		}
		// messages with all-zero / all-one aligned blocks (64-bit for EIA1, 128-bit for EIA2, 32-bit words for EIA3): leading,
		// interior, trailing, several in a row
		for i := 0; i < 40; i++ {
			nblk := 2 + g.Intn(6)
			data := g.Bytes(8*nblk + []int{0, 0, 3, 8}[g.Intn(4)])
			fill := byte(0)
			if i%5 == 4 {
				fill = 0xff
			}
			for k := 0; k < 1+g.Intn(2); k++ {
				blk := g.Intn(nblk)
				w8 := 8
				if i%3 == 1 {
					w8 = 16
				}
				for j := blk * 8; j < blk*8+w8 && j < len(data); j++ {
					data[j] = fill
				}
			}
			fmt.Fprintf(w, "snasmac %d %s %d %d %d %s\n", alg, key(), uint32(g.U64()), g.Intn(32), g.Intn(2), hexs(data))
			fmt.Fprintf(w, "snia %d %s %d %d %d %s %d\n", alg, key(), uint32(g.U64()), g.Intn(32), g.Intn(2), hexs(data), len(data)*8)
			fmt.Fprintf(w, "snasenc %d %s %d %d %d %s\n", alg, key(), uint32(g.U64()), g.Intn(32), g.Intn(2), hexs(data))
		}
	}
	for alg := 1; alg <= 3; alg++ {
		for z := 1; z <= 17; z++ {
			for _, lead := range []int{0, 3, 8, 12} {
				d := append(g.Bytes(lead), make([]byte, z)...)
				fmt.Fprintf(w, "snasmac %d %s %d %d %d %s\n", alg, key(), uint32(g.U64()), g.Intn(32), g.Intn(2), hexs(d))
				d2 := append(append(g.Bytes(lead), make([]byte, z)...), g.Bytes(1+g.Intn(9))...)
				fmt.Fprintf(w, "snasmac %d %s %d %d %d %s\n", alg, key(), uint32(g.U64()), g.Intn(32), g.Intn(2), hexs(d2))
			}
		}
	}
	// the standard functions are defined on the first LENGTH bits only: octets behind ceil(LENGTH/8) and, for the functions
	// that read bit by bit (NEA1, NEA3, NIA3), the slack bits of the last octet do not matter. (NIA1 in this library hashes whole
	// octets; callers pad with zero bits, as the API path does - see DESIGN, C07.)
	for _, alg := range []int{1, 3} {
		for bits := 1; bits <= 70; bits++ {
			nb := (bits + 7) / 8
			d := g.Bytes(nb + []int{0, 1, 2, 3, 4, 5, 8, 12}[g.Intn(8)])
			fmt.Fprintf(w, "snea %d %s %d %d %d %s %d\n", alg, key(), uint32(g.U64()), g.Intn(32), g.Intn(2), hexs(d), bits)
			if alg == 3 {
				fmt.Fprintf(w, "snia 3 %s %d %d %d %s %d\n", key(), uint32(g.U64()), g.Intn(32), g.Intn(2), hexs(g.Bytes(nb)), bits)
			}
		}
	}
	// the algorithms interleaved in one process (a call must not see anything an earlier call with another algorithm, key,
	// COUNT, bearer or direction left behind): every ordered pair of algorithms back to back, then a random walk
	for a := 1; a <= 3; a++ {
		for b := 1; b <= 3; b++ {
			for _, n := range []int{1, 16, 17, 33} {
				fmt.Fprintf(w, "snasenc %d %s %d %d %d %s\n", a, key(), uint32(g.U64()), g.Intn(32), g.Intn(2), hexs(g.Bytes(n)))
				fmt.Fprintf(w, "snasenc %d %s %d %d %d %s\n", b, key(), uint32(g.U64()), g.Intn(32), g.Intn(2), hexs(g.Bytes(n)))
				fmt.Fprintf(w, "snasmac %d %s %d %d %d %s\n", a, key(), uint32(g.U64()), g.Intn(32), g.Intn(2), hexs(g.Bytes(n)))
				fmt.Fprintf(w, "snasmac %d %s %d %d %d %s\n", b, key(), uint32(g.U64()), g.Intn(32), g.Intn(2), hexs(g.Bytes(n)))
			}
		}
	}
	for i := 0; i < 200; i++ {
		fmt.Fprintf(w, "snasenc %d %s %d %d %d %s\n", 1+g.Intn(3), key(), uint32(g.U64()), g.Intn(32), g.Intn(2), hexs(g.Bytes(g.Intn(70))))
	}
	// the same key, COUNT, bearer and direction used again with other lengths (retransmission, a longer message after a shorter
	// one): each answer must still be the specification's, whatever an earlier call with the same parameters left behind
	for alg := 1; alg <= 3; alg++ {
		for _, seq := range [][]int{{13, 15}, {15, 5, 12}, {1, 2, 3, 4, 5, 6, 7, 8, 9}, {33, 31, 34, 64, 63, 65}, {100, 7, 99, 100, 101}, {0, 1, 0, 17}} {
			k, c, b, d := key(), uint32(g.U64()), g.Intn(32), g.Intn(2)
			for _, n := range seq {
				fmt.Fprintf(w, "snasenc %d %s %d %d %d %s\n", alg, k, c, b, d, hexs(g.Bytes(n)))
			}
			for _, n := range seq {
				data := g.Bytes(n)
				bits := n * 8
				if n > 0 {
					bits -= g.Intn(8)
					if r := uint(n*8 - bits); r > 0 {
						data[n-1] &= 0xff << r
					}
				}
				fmt.Fprintf(w, "snea %d %s %d %d %d %s %d\n", alg, k, c, b, d, hexs(data), bits)
			}
			for _, n := range seq {
				fmt.Fprintf(w, "snasmac %d %s %d %d %d %s\n", alg, k, c, b, d, hexs(g.Bytes(n)))
			}
			for _, n := range seq {
				fmt.Fprintf(w, "snasenc %d %s %d %d %d %s\n", alg, k, c, b, d, hexs(g.Bytes(n)))
				fmt.Fprintf(w, "snasmac %d %s %d %d %d %s\n", alg, k, c, b, d, hexs(g.Bytes(n)))
			}
		}
	}
	// neighbouring parameter sets back to back under one key: (COUNT, BEARER, DIRECTION) and the same with one or two bits
	// flipped (every single bit; every pair out of a selection that includes the top COUNT bit, the direction and every bearer
	// bit). Whatever a call remembers about its parameters must distinguish all of them.
	type flip struct {
		c    uint32
		b, d int
	}
	var items []flip
	for _, i := range []uint{31, 30, 24, 23, 16, 15, 8, 7, 1, 0} {
		items = append(items, flip{c: 1 << i})
	}
	for j := 0; j < 5; j++ {
		items = append(items, flip{b: 1 << uint(j)})
	}
	items = append(items, flip{d: 1})
	var flips []flip
	for i := uint(0); i < 32; i++ {
		flips = append(flips, flip{c: 1 << i})
	}
	flips = append(flips, items[10:]...)
	for i := range items {
		for j := i + 1; j < len(items); j++ {
			flips = append(flips, flip{items[i].c ^ items[j].c, items[i].b ^ items[j].b, items[i].d ^ items[j].d})
		}
	}
	for alg := 1; alg <= 3; alg++ {
		for _, op := range []string{"snasenc", "snasmac"} {
			k, c, b, d := key(), uint32(g.U64()), g.Intn(32), g.Intn(2)
			data := hexs(g.Bytes(9 + g.Intn(12)))
			for _, f := range flips {
				fmt.Fprintf(w, "%s %d %s %d %d %d %s\n", op, alg, k, c, b, d, data)
				fmt.Fprintf(w, "%s %d %s %d %d %d %s\n", op, alg, k, c^f.c, b^f.b, d^f.d, data)
			}
		}
	}
	// ZUC LFSR step against its definition over GF(2^31-1): random in-range states and states steered into the residue
	// class 0 (which the specification maps to 2^31-1), in both modes
	const M = uint64(0x7fffffff)
	rot := func(x uint64, k uint) uint64 { return (x << k) % M }
	for i := 0; i < 450; i++ {
		var c [16]uint64
		for j := range c {
			c[j] = g.U64()%M + 1
			if g.Intn(8) == 0 {
				c[j] = M
			}
		}
		init, u := g.Intn(2), uint64(0)
		if init == 1 {
			u = g.U64() & 0x7fffffff
		}
		if i%3 != 2 {
			// choose cell 4 so that the feedback sum is 0 mod 2^31-1: 2^20 * c4 = -(rest), and 2^-20 = 2^11
			// ... or a small non-zero residue t: the exact sum is then q*(2^31-1) + t = q*2^31 + (t - q), i.e. a low part just
			// below 2^31 plus a carry that pushes a once-folded value to 2^31 or beyond (needs the second fold)
			rest := (c[0] + rot(c[0], 8) + rot(c[10], 21) + rot(c[13], 17) + rot(c[15], 15) + u) % M
			t := []uint64{0, 1, 0, 2, 3, 0, 5, 6, M - 1}[i%9]
			c4 := ((t + M - rest) % M << 11) % M
			if c4 == 0 {
				c4 = M
			}
			c[4] = c4
		}
		var cells []string
		for _, x := range c {
			cells = append(cells, fmt.Sprint(x))
		}
		fmt.Fprintf(w, "szuclfsr %d %d %s\n", init, u, strings.Join(cells, " "))
	}
}
