package main

import (
	"bufio"
	"fmt"
	"strconv"
	"strings"

	"github.com/free5gc/nas/security"
)

func init() {
	ops["cnt"] = opCnt
	ops["cntwalk"] = opCntWalk
	oracles["C11"] = oracleC11
	gens["counter"] = genCounter
}

type cntOp struct {
	k    string
	a, b uint64
}

func parseCntOps(s string) ([]cntOp, bool) {
	var out []cntOp
	for _, p := range strings.Split(s, ";") {
		f := strings.Split(p, ":")
		o := cntOp{k: f[0]}
		var err1, err2 error
		switch f[0] {
		case "set":
			if len(f) != 3 {
				return nil, false
			}
			o.a, err1 = strconv.ParseUint(f[1], 10, 16)
			o.b, err2 = strconv.ParseUint(f[2], 10, 8)
		case "sqn":
			if len(f) != 2 {
				return nil, false
			}
			o.a, err1 = strconv.ParseUint(f[1], 10, 8)
		case "ovf":
			if len(f) != 2 {
				return nil, false
			}
			o.a, err1 = strconv.ParseUint(f[1], 10, 16)
		case "inc", "get", "rsqn", "rovf":
			if len(f) != 1 {
				return nil, false
			}
		default:
			return nil, false
		}
		if err1 != nil || err2 != nil {
			return nil, false
		}
		out = append(out, o)
	}
	return out, true
}

// cnt <op;op;…>  -> ok v1,v2,…  (result of every read, then the final Get)
func opCnt(args []string) string {
	if len(args) != 1 {
		return "bad-op"
	}
	l, ok := parseCntOps(args[0])
	if !ok {
		return "bad-op"
	}
	var c security.Count
	var res []string
	for _, o := range l {
		switch o.k {
		case "set":
			c.Set(uint16(o.a), uint8(o.b))
		case "sqn":
			c.SetSQN(uint8(o.a))
		case "ovf":
			c.SetOverflow(uint16(o.a))
		case "inc":
			c.AddOne()
		case "get":
			res = append(res, fmt.Sprint(c.Get()))
		case "rsqn":
			res = append(res, fmt.Sprint(c.SQN()))
		case "rovf":
			res = append(res, fmt.Sprint(c.Overflow()))
		}
	}
	res = append(res, fmt.Sprint(c.Get()))
	return "ok " + strings.Join(res, ",")
}

// cntwalk <start> <n>: n increments from start; prints final value and a checksum of all intermediate values
func opCntWalk(args []string) string {
	if len(args) != 2 {
		return "bad-op"
	}
	st, e1 := strconv.ParseUint(args[0], 10, 24)
	n, e2 := strconv.ParseUint(args[1], 10, 32)
	if e1 != nil || e2 != nil {
		return "bad-op"
	}
	var c security.Count
	c.Set(uint16(st>>8), uint8(st))
	var sum uint64
	for i := uint64(0); i < n; i++ {
		c.AddOne()
		sum = (sum*31 + uint64(c.Get())) % 1000000007
	}
	return fmt.Sprintf("ok %d %d", c.Get(), sum)
}

// the property, evaluated on the real code against the abstract (overflow, sqn) pair
func oracleC11(op string, args []string) string {
	switch op {
	case "cnt":
		l, ok := parseCntOps(args[0])
		if !ok {
			return skip
		}
		var c security.Count
		var ovf, sqn uint32
		for i, o := range l {
			switch o.k {
			case "set":
				c.Set(uint16(o.a), uint8(o.b))
				ovf, sqn = uint32(o.a), uint32(o.b)
			case "sqn":
				c.SetSQN(uint8(o.a))
				sqn = uint32(o.a)
			case "ovf":
				c.SetOverflow(uint16(o.a))
				ovf = uint32(o.a)
			case "inc":
				c.AddOne()
				v := (ovf*256 + sqn + 1) % (1 << 24)
				ovf, sqn = v>>8, v&0xff
			case "get":
				c.Get()
			case "rsqn":
				c.SQN()
			case "rovf":
				c.Overflow()
			}
			g, s, o2 := c.Get(), uint32(c.SQN()), uint32(c.Overflow())
			if g >= 1<<24 {
				return fmt.Sprintf("FAIL after op %d (%s): Get()=%#x is not below 2^24", i, o.k, g)
			}
			if g != o2*256+s {
				return fmt.Sprintf("FAIL after op %d (%s): Get()=%#x != Overflow()*256+SQN()=%#x", i, o.k, g, o2*256+s)
			}
			if o2 != ovf || s != sqn {
				return fmt.Sprintf("FAIL after op %d (%s): overflow/sqn = %d/%d, expected %d/%d", i, o.k, o2, s, ovf, sqn)
			}
			if g2 := c.Get(); g2 != g {
				return fmt.Sprintf("FAIL after op %d: a read changed the value", i)
			}
		}
		// the same history with no read other than the script's own: every prefix replayed on a fresh counter and read once at
		// its end, in the three read orders (a read that normalises the stored word would otherwise hide what the operations
		// left behind)
		for i := range l {
			for order := 0; order < 3; order++ {
				var c security.Count
				var ovf, sqn uint32
				for _, o := range l[:i+1] {
					switch o.k {
					case "set":
						c.Set(uint16(o.a), uint8(o.b))
						ovf, sqn = uint32(o.a), uint32(o.b)
					case "sqn":
						c.SetSQN(uint8(o.a))
						sqn = uint32(o.a)
					case "ovf":
						c.SetOverflow(uint16(o.a))
						ovf = uint32(o.a)
					case "inc":
						c.AddOne()
						v := (ovf*256 + sqn + 1) % (1 << 24)
						ovf, sqn = v>>8, v&0xff
					case "get":
						c.Get()
					case "rsqn":
						c.SQN()
					case "rovf":
						c.Overflow()
					}
				}
				var g, sq, ov uint32
				switch order {
				case 0:
					g, sq, ov = c.Get(), uint32(c.SQN()), uint32(c.Overflow())
				case 1:
					sq, ov = uint32(c.SQN()), uint32(c.Overflow())
					g = c.Get()
				case 2:
					ov, g, sq = uint32(c.Overflow()), c.Get(), uint32(c.SQN())
				}
				if g >= 1<<24 || g != ovf*256+sqn || sq != sqn || ov != ovf {
					return fmt.Sprintf("FAIL after the first %d ops (read once, order %d): Get()=%#x Overflow()=%d SQN()=%d, expected %d/%d",
						i+1, order, g, ov, sq, ovf, sqn)
				}
				if g2 := c.Get(); g2 != g {
					return fmt.Sprintf("FAIL after the first %d ops: a second Get() returns %#x after %#x", i+1, g2, g)
				}
			}
		}
		return "pass"
	case "cntwalk":
		st, e1 := strconv.ParseUint(args[0], 10, 24)
		n, e2 := strconv.ParseUint(args[1], 10, 32)
		if e1 != nil || e2 != nil {
			return skip
		}
		var c security.Count
		c.Set(uint16(st>>8), uint8(st))
		v := uint32(st)
		for i := uint64(0); i < n; i++ {
			c.AddOne()
			v = (v + 1) % (1 << 24)
			if g := c.Get(); g != v || uint32(c.Overflow())*256+uint32(c.SQN()) != v {
				return fmt.Sprintf("FAIL increment %d from %d: Get()=%#x Overflow=%d SQN=%d expected %#x", i, st, g, c.Overflow(), c.SQN(), v)
			}
		}
		return "pass"
	}
	return skip
}

func genCounter(g *Gen, w *bufio.Writer) {
	edge16 := []int{0, 1, 0xff, 0x100, 0xfffe, 0xffff, 0x8000}
	edge8 := []int{0, 1, 0x7f, 0x80, 0xfe, 0xff}
	p16 := func() int {
		if g.Intn(2) == 0 {
			return edge16[g.Intn(len(edge16))]
		}
		return g.Intn(65536)
	}
	p8 := func() int {
		if g.Intn(2) == 0 {
			return edge8[g.Intn(len(edge8))]
		}
		return g.Intn(256)
	}
	for i := 0; i < g.N; i++ {
		n := 1 + g.Intn(24)
		var parts []string
		for j := 0; j < n; j++ {
			switch g.Intn(9) {
			case 0:
				parts = append(parts, fmt.Sprintf("set:%d:%d", p16(), p8()))
			case 1:
				parts = append(parts, fmt.Sprintf("sqn:%d", p8()))
			case 2:
				parts = append(parts, fmt.Sprintf("ovf:%d", p16()))
			case 3, 4, 5:
				parts = append(parts, "inc")
			case 6:
				parts = append(parts, "get")
			case 7:
				parts = append(parts, "rsqn")
			case 8:
				parts = append(parts, "rovf")
			}
		}
		fmt.Fprintf(w, "cnt %s\n", strings.Join(parts, ";"))
	}
	// several wrap-arounds in one history, the counter put back near the top by each kind of setter, no read in between
	for i := 0; i < 60; i++ {
		var parts []string
		parts = append(parts, "set:65535:255", "inc")
		for k := 1 + g.Intn(4); k > 0; k-- {
			switch g.Intn(4) {
			case 0:
				parts = append(parts, "set:65535:255")
			case 1:
				parts = append(parts, "ovf:65535", "sqn:255")
			case 2:
				parts = append(parts, "sqn:255", "ovf:65535")
			case 3:
				parts = append(parts, "ovf:65535", fmt.Sprintf("sqn:%d", 253+g.Intn(3)), "inc")
			}
			for j := g.Intn(3); j >= 0; j-- {
				parts = append(parts, "inc")
			}
		}
		if i%3 == 0 {
			parts = append(parts, []string{"rsqn", "rovf", "get"}[g.Intn(3)])
		}
		fmt.Fprintf(w, "cnt %s\n", strings.Join(parts, ";"))
	}
	// every carry boundary (65 536 of them) and the wrap: 3 increments across xx..ff
	for o := 0; o < 65536; o++ {
		if g.Tier == "thorough" || o%16 == 0 || o > 65530 || o < 4 {
			fmt.Fprintf(w, "cnt set:%d:254;inc;rsqn;rovf;inc;rsqn;rovf;inc;rsqn;rovf\n", o)
		}
	}
	if g.Tier == "thorough" {
		// all 2^24 states once
		for s := 0; s < 1<<24; s += 1 << 20 {
			fmt.Fprintf(w, "cntwalk %d %d\n", s, 1<<20)
		}
		fmt.Fprintf(w, "cntwalk %d %d\n", (1<<24)-5, 10)
	} else {
		fmt.Fprintf(w, "cntwalk %d %d\n", (1<<24)-70000, 140000)
		fmt.Fprintf(w, "cntwalk %d %d\n", g.Intn(1<<24), 100000)
	}
}
