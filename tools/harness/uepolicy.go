package main

// `upc …` ops: the uePolicyContainer package (C18). Text forms are described in lean/NasVerif/Driver/UePolicyOps.lean.

import (
	"bufio"
	"bytes"
	"fmt"
	"strconv"
	"strings"

	"github.com/free5gc/nas/nasConvert"
	upc "github.com/free5gc/nas/uePolicyContainer"
	"github.com/free5gc/openapi/models"
)

func init() {
	ops["upc"] = func(a []string) string { return withTimeout(func() string { return upcOp(a) }) }
	oracles["C18"] = oracleC18
	gens["uepolicy"] = genUePolicy
}

func showParts(l upc.UEPolicySectionContents) string {
	var ps []string
	for _, p := range l {
		ps = append(ps, fmt.Sprintf("%d.%d.%s", p.Len, p.UEPolicyPartType.Octet, hexs(p.UEPolicyPartContents)))
	}
	return joinL(ps, ",")
}

func showInstrs(l upc.UEPolicySectionManagementSubListContents) string {
	var is []string
	for _, i := range l {
		is = append(is, fmt.Sprintf("%d/%d/%s", i.Len, i.Upsc, showParts(i.UEPolicySectionContents)))
	}
	return joinL(is, "+")
}

func ip(p *int) int {
	if p == nil {
		return -1
	}
	return *p
}

func showSubLists(l upc.UEPolicySectionManagementListContent) string {
	var ss []string
	for _, s := range l {
		ss = append(ss, fmt.Sprintf("%d:%02x%02x%02x:%d:%d:%s", s.Len, s.PlmnDigit1, s.PlmnDigit2, s.PlmnDigit3, ip(s.Mcc), ip(s.Mnc),
			showInstrs(s.UEPolicySectionManagementSubListContents)))
	}
	return joinL(ss, "|")
}

func showSubResults(l upc.UEPolicySectionManagementResultContent) string {
	var ss []string
	for _, s := range l {
		var rs []string
		for _, r := range s.UEPolicySectionManagementSubResultContents {
			rs = append(rs, fmt.Sprintf("%d.%d.%d", r.Upsc, r.FailInstructionOrder, r.Cause))
		}
		ss = append(ss, fmt.Sprintf("%d:%02x%02x%02x:%d:%d:%s", s.Len, s.PlmnDigit1, s.PlmnDigit2, s.PlmnDigit3, ip(s.Mcc), ip(s.Mnc), joinL(rs, ",")))
	}
	return joinL(ss, "|")
}

func atoiU(s string, bits int) (uint64, bool) {
	v, err := strconv.ParseUint(s, 10, bits)
	return v, err == nil
}

func parseSubListsText(s string) (upc.UEPolicySectionManagementListContent, bool) {
	var out upc.UEPolicySectionManagementListContent
	for _, e := range splitL(s, "|") {
		f := strings.Split(e, ":")
		if len(f) != 5 {
			return nil, false
		}
		l, ok1 := atoiU(f[0], 16)
		p, ok2 := unhex(f[1])
		mcc, e3 := strconv.Atoi(f[2])
		mnc, e4 := strconv.Atoi(f[3])
		if !ok1 || !ok2 || len(p) != 3 || e3 != nil || e4 != nil {
			return nil, false
		}
		sl := upc.UEPolicySectionManagementSubList{Len: uint16(l), PlmnDigit1: p[0], PlmnDigit2: p[1], PlmnDigit3: p[2], Mcc: &mcc, Mnc: &mnc}
		for _, is := range splitL(f[4], "+") {
			g := strings.Split(is, "/")
			if len(g) != 3 {
				return nil, false
			}
			il, ok1 := atoiU(g[0], 16)
			iu, ok2 := atoiU(g[1], 16)
			if !ok1 || !ok2 {
				return nil, false
			}
			ins := upc.Instruction{Len: uint16(il), Upsc: uint16(iu)}
			for _, ps := range splitL(g[2], ",") {
				h := strings.Split(ps, ".")
				if len(h) != 3 {
					return nil, false
				}
				pl, ok1 := atoiU(h[0], 16)
				pt, ok2 := atoiU(h[1], 8)
				pc, ok3 := unhex(h[2])
				if !ok1 || !ok2 || !ok3 {
					return nil, false
				}
				part := upc.UEPolicyPart{Len: uint16(pl), UEPolicyPartContents: pc}
				part.UEPolicyPartType.Octet = uint8(pt)
				ins.UEPolicySectionContents = append(ins.UEPolicySectionContents, part)
			}
			sl.UEPolicySectionManagementSubListContents = append(sl.UEPolicySectionManagementSubListContents, ins)
		}
		out = append(out, sl)
	}
	return out, true
}

func parseSubResultsText(s string) (upc.UEPolicySectionManagementResultContent, bool) {
	var out upc.UEPolicySectionManagementResultContent
	for _, e := range splitL(s, "|") {
		f := strings.Split(e, ":")
		if len(f) != 5 {
			return nil, false
		}
		l, ok1 := atoiU(f[0], 16)
		p, ok2 := unhex(f[1])
		mcc, e3 := strconv.Atoi(f[2])
		mnc, e4 := strconv.Atoi(f[3])
		if !ok1 || !ok2 || len(p) != 3 || e3 != nil || e4 != nil {
			return nil, false
		}
		sr := upc.UEPolicySectionManagementSubResult{Len: uint16(l), PlmnDigit1: p[0], PlmnDigit2: p[1], PlmnDigit3: p[2], Mcc: &mcc, Mnc: &mnc}
		for _, rs := range splitL(f[4], ",") {
			h := strings.Split(rs, ".")
			if len(h) != 3 {
				return nil, false
			}
			u, ok1 := atoiU(h[0], 16)
			o, ok2 := atoiU(h[1], 16)
			c, ok3 := atoiU(h[2], 8)
			if !ok1 || !ok2 || !ok3 {
				return nil, false
			}
			sr.UEPolicySectionManagementSubResultContents = append(sr.UEPolicySectionManagementSubResultContents,
				upc.Result{Upsc: uint16(u), FailInstructionOrder: uint16(o), Cause: uint8(c)})
		}
		out = append(out, sr)
	}
	return out, true
}

func showMsg(u *upc.UePolDeliverySer) string {
	switch {
	case u.ManageUEPolicyCommand != nil:
		m := u.ManageUEPolicyCommand
		cm := "-"
		if m.UEPolicyNetworkClassmark != nil {
			c := m.UEPolicyNetworkClassmark
			cm = fmt.Sprintf("%d.%d.%d.%d", c.Iei, c.Len, c.NSSUI, c.Spare)
		}
		return fmt.Sprintf("cmd:%d:%d:%d:%d:%s:%s", m.PTI.Octet, m.UePolicyDeliveryServiceMsgType.Octet, m.UEPolicySectionManagementList.Iei,
			m.UEPolicySectionManagementList.Len, hexs(m.UEPolicySectionManagementList.Buffer), cm)
	case u.ManageUEPolicyComplete != nil:
		m := u.ManageUEPolicyComplete
		return fmt.Sprintf("cpl:%d:%d", m.PTI.Octet, m.UePolicyDeliveryServiceMsgType.Octet)
	case u.ManageUEPolicyReject != nil:
		m := u.ManageUEPolicyReject
		return fmt.Sprintf("rej:%d:%d:%d:%d:%s", m.PTI.Octet, m.UePolicyDeliveryServiceMsgType.Octet, m.UEPolicySectionManagementResult.Iei,
			m.UEPolicySectionManagementResult.Len, hexs(m.UEPolicySectionManagementResult.Buffer))
	}
	return "other"
}

func parseMsgText(h1 uint8, s string) (*upc.UePolDeliverySer, bool) {
	u := upc.NewUePolDeliverySer()
	u.SetHeaderMessageType(h1)
	f := strings.Split(s, ":")
	n := func(i int, bits int) (uint64, bool) {
		if i >= len(f) {
			return 0, false
		}
		return atoiU(f[i], bits)
	}
	switch f[0] {
	case "cmd":
		if len(f) != 7 {
			return nil, false
		}
		pti, ok1 := n(1, 8)
		typ, ok2 := n(2, 8)
		iei, ok3 := n(3, 8)
		ln, ok4 := n(4, 16)
		b, ok5 := unhex(f[5])
		if !(ok1 && ok2 && ok3 && ok4 && ok5) {
			return nil, false
		}
		m := &upc.ManageUEPolicyCommand{}
		m.PTI.Octet = uint8(pti)
		m.UePolicyDeliveryServiceMsgType.Octet = uint8(typ)
		m.UEPolicySectionManagementList.Iei = uint8(iei)
		m.UEPolicySectionManagementList.Len = uint16(ln)
		m.UEPolicySectionManagementList.Buffer = b
		if f[6] != "-" {
			g := strings.Split(f[6], ".")
			if len(g) != 4 {
				return nil, false
			}
			var v [4]uint8
			for i := range g {
				x, ok := atoiU(g[i], 8)
				if !ok {
					return nil, false
				}
				v[i] = uint8(x)
			}
			m.UEPolicyNetworkClassmark = &upc.UEPolicyNetworkClassmark{Iei: v[0], Len: v[1], NSSUI: v[2], Spare: v[3]}
		}
		u.ManageUEPolicyCommand = m
	case "cpl":
		pti, ok1 := n(1, 8)
		typ, ok2 := n(2, 8)
		if len(f) != 3 || !ok1 || !ok2 {
			return nil, false
		}
		m := &upc.ManageUEPolicyComplete{}
		m.PTI.Octet = uint8(pti)
		m.UePolicyDeliveryServiceMsgType.Octet = uint8(typ)
		u.ManageUEPolicyComplete = m
	case "rej":
		if len(f) != 6 {
			return nil, false
		}
		pti, ok1 := n(1, 8)
		typ, ok2 := n(2, 8)
		iei, ok3 := n(3, 8)
		ln, ok4 := n(4, 16)
		b, ok5 := unhex(f[5])
		if !(ok1 && ok2 && ok3 && ok4 && ok5) {
			return nil, false
		}
		m := &upc.ManageUEPolicyReject{}
		m.PTI.Octet = uint8(pti)
		m.UePolicyDeliveryServiceMsgType.Octet = uint8(typ)
		m.UEPolicySectionManagementResult.Iei = uint8(iei)
		m.UEPolicySectionManagementResult.Len = uint16(ln)
		m.UEPolicySectionManagementResult.Buffer = b
		u.ManageUEPolicyReject = m
	case "other":
	default:
		return nil, false
	}
	return u, true
}

func upcOp(a []string) string {
	if len(a) < 2 {
		return "bad-op"
	}
	switch a[0] {
	case "apil", "apir", "apim":
		return upcAPIOp(a)
	case "dec":
		b, ok := unhex(a[1])
		if !ok {
			return "bad-op"
		}
		u := upc.NewUePolDeliverySer()
		if err := u.UePolDeliverySerDecode(b); err != nil {
			return "err"
		}
		return fmt.Sprintf("ok %d %d %s", u.Octet[0], u.Octet[1], showMsg(u))
	case "dec2":
		// decode A, then B, into the SAME UePolDeliverySer: the result must be that of decoding B alone
		if len(a) != 3 {
			return "bad-op"
		}
		b1, ok1 := unhex(a[1])
		b2, ok2 := unhex(a[2])
		if !ok1 || !ok2 || len(b1) < 2 || len(b2) < 2 || b1[1] != b2[1] {
			// only pairs of the same message type: a different type leaves the earlier sub-message attached on the unchanged
			// tree as well (C18 quantifies over inputs, not over recycled objects of another type)
			return "bad-op"
		}
		u := upc.NewUePolDeliverySer()
		_ = u.UePolDeliverySerDecode(b1)
		if err := u.UePolDeliverySerDecode(b2); err != nil {
			return "err"
		}
		return fmt.Sprintf("ok %d %d %s", u.Octet[0], u.Octet[1], showMsg(u))
	case "enc":
		if len(a) != 3 {
			return "bad-op"
		}
		h1, ok := atoiU(a[1], 8)
		if !ok {
			return "bad-op"
		}
		u, ok := parseMsgText(uint8(h1), a[2])
		if !ok {
			return "bad-op"
		}
		b, err := u.UePolDeliverySerEncode()
		if err != nil {
			return "err"
		}
		return "ok " + hexs(b)
	case "unl":
		b, ok := unhex(a[1])
		if !ok {
			return "bad-op"
		}
		var c upc.UEPolicySectionManagementListContent
		if err := c.UnmarshalBinary(b); err != nil {
			return "err"
		}
		return "ok " + showSubLists(c)
	case "mal":
		l, ok := parseSubListsText(a[1])
		if !ok {
			return "bad-op"
		}
		b, err := l.MarshalBinary()
		if err != nil {
			return "err"
		}
		return "ok " + hexs(b)
	case "unr":
		b, ok := unhex(a[1])
		if !ok {
			return "bad-op"
		}
		var c upc.UEPolicySectionManagementResultContent
		if err := c.UnmarshalBinary(b); err != nil {
			return "err"
		}
		return "ok " + showSubResults(c)
	case "mar":
		l, ok := parseSubResultsText(a[1])
		if !ok {
			return "bad-op"
		}
		b, err := l.MarshalBinary()
		if err != nil {
			return "err"
		}
		return "ok " + hexs(b)
	case "plmn2":
		// SetPlmnDigit twice on one object: the second PLMN is the object's PLMN (nothing of the first one is left in the octets)
		if len(a) != 6 {
			return "bad-op"
		}
		var v [4]int
		for i := range v {
			x, e := strconv.Atoi(a[2+i])
			if e != nil {
				return "bad-op"
			}
			v[i] = x
		}
		if a[1] == "l" {
			var s upc.UEPolicySectionManagementSubList
			_ = s.SetPlmnDigit(v[0], v[1])
			if err := s.SetPlmnDigit(v[2], v[3]); err != nil {
				return "err"
			}
			return fmt.Sprintf("ok %02x%02x%02x", s.PlmnDigit1, s.PlmnDigit2, s.PlmnDigit3)
		}
		var s upc.UEPolicySectionManagementSubResult
		_ = s.SetPlmnDigit(v[0], v[1])
		if err := s.SetPlmnDigit(v[2], v[3]); err != nil {
			return "err"
		}
		return fmt.Sprintf("ok %02x%02x%02x", s.PlmnDigit1, s.PlmnDigit2, s.PlmnDigit3)
	case "plmn":
		if len(a) != 4 {
			return "bad-op"
		}
		mcc, e1 := strconv.Atoi(a[2])
		mnc, e2 := strconv.Atoi(a[3])
		if e1 != nil || e2 != nil {
			return "bad-op"
		}
		if a[1] == "l" {
			var s upc.UEPolicySectionManagementSubList
			if err := s.SetPlmnDigit(mcc, mnc); err != nil {
				return "err"
			}
			return fmt.Sprintf("ok %02x%02x%02x", s.PlmnDigit1, s.PlmnDigit2, s.PlmnDigit3)
		}
		var s upc.UEPolicySectionManagementSubResult
		if err := s.SetPlmnDigit(mcc, mnc); err != nil {
			return "err"
		}
		return fmt.Sprintf("ok %02x%02x%02x", s.PlmnDigit1, s.PlmnDigit2, s.PlmnDigit3)
	}
	return "bad-op"
}

// ---- oracle

// normalise recomputes the length fields the marshalers overwrite, so "equal structures with lengths computed from content"
func normSubLists(l upc.UEPolicySectionManagementListContent) string {
	var ss []string
	for _, s := range l {
		slen := 3
		var is []string
		for _, i := range s.UEPolicySectionManagementSubListContents {
			ilen := 2
			var ps []string
			for _, p := range i.UEPolicySectionContents {
				pl := int(p.Len)
				if pl == 0 {
					pl = 1 + len(p.UEPolicyPartContents)
				}
				ps = append(ps, fmt.Sprintf("%d.%d.%s", pl, p.UEPolicyPartType.Octet, hexs(p.UEPolicyPartContents)))
				ilen += 3 + len(p.UEPolicyPartContents)
			}
			is = append(is, fmt.Sprintf("%d/%d/%s", ilen, i.Upsc, joinL(ps, ",")))
			slen += 2 + ilen
		}
		ss = append(ss, fmt.Sprintf("%d:%02x%02x%02x:%s", slen, s.PlmnDigit1, s.PlmnDigit2, s.PlmnDigit3, joinL(is, "+")))
	}
	return joinL(ss, "|")
}

func dropMccMnc(s string) string { // "len:plmn:mcc:mnc:rest" -> "len:plmn:rest" per sublist
	var out []string
	for _, e := range splitL(s, "|") {
		f := strings.SplitN(e, ":", 5)
		if len(f) == 5 {
			out = append(out, f[0]+":"+f[1]+":"+f[4])
		}
	}
	return joinL(out, "|")
}

func wfSubLists(l upc.UEPolicySectionManagementListContent) bool {
	for _, s := range l {
		if _, _, ok := specPlmnText([]byte{s.PlmnDigit1, s.PlmnDigit2, s.PlmnDigit3}); !ok {
			return false
		}
		total := 3
		for _, i := range s.UEPolicySectionManagementSubListContents {
			il := 2
			for _, p := range i.UEPolicySectionContents {
				// a part's declared length, when given, must be the length of its type octet + contents
				if p.Len != 0 && int(p.Len) != 1+len(p.UEPolicyPartContents) {
					return false
				}
				il += 3 + len(p.UEPolicyPartContents)
			}
			total += 2 + il
		}
		if total > 65535 {
			return false
		}
	}
	return true
}

func oracleC18(op string, a []string) string {
	if op != "upc" || len(a) < 2 {
		return skip
	}
	switch a[0] {
	case "apil", "apir", "apim":
		r := withTimeout(func() string { return oracleC18API(a) })
		if r == "panic" || r == "hang" || r == "bad-op" {
			return "FAIL " + r
		}
		return r
	case "dec", "unl", "unr":
		r := withTimeout(func() string { return upcOp(a) })
		if r == "panic" || r == "hang" || r == "bad-op" {
			return "FAIL " + r
		}
		// a decoded list edited through the accessors (a policy part grown with GetPartContent / append / SetPartContent /
		// SetLen_byContent) encodes like the same list edited on memory of its own: parts of a decoded list must not share storage
		if b, ok := unhex(a[1]); ok && a[0] == "unl" && strings.HasPrefix(r, "ok") {
			var c, ref upc.UEPolicySectionManagementListContent
			if c.UnmarshalBinary(append([]byte{}, b...)) != nil || ref.UnmarshalBinary(append([]byte{}, b...)) != nil {
				return "pass"
			}
			extra := []byte{0xe1, 0xe2, 0xe3, 0xe4, 0xe5}
			edited := false
			for i := range c {
				for j := range c[i].UEPolicySectionManagementSubListContents {
					parts := c[i].UEPolicySectionManagementSubListContents[j].UEPolicySectionContents
					rparts := ref[i].UEPolicySectionManagementSubListContents[j].UEPolicySectionContents
					if len(parts) < 2 || len(parts[0].GetPartContent())+len(extra) > 60000 {
						continue
					}
					p := &parts[0]
					p.SetPartContent(append(p.GetPartContent(), extra...))
					p.SetLen_byContent()
					rp := &rparts[0]
					rp.SetPartContent(append(append([]byte{}, rp.GetPartContent()...), extra...))
					rp.SetLen_byContent()
					edited = true
				}
			}
			if edited {
				b1, e1 := c.MarshalBinary()
				b2, e2 := ref.MarshalBinary()
				if (e1 == nil) != (e2 == nil) || !bytes.Equal(b1, b2) {
					return "FAIL a decoded list edited through the accessors encodes differently from the same list on its own memory (parts share storage): " + hexs(b1)
				}
			}
		}
		return "pass"
	case "dec2":
		r := withTimeout(func() string { return upcOp(a) })
		if r == "panic" || r == "hang" || r == "bad-op" {
			return "FAIL " + r
		}
		if fresh := upcOp([]string{"dec", a[2]}); fresh != r {
			return "FAIL decoding into a recycled UePolDeliverySer differs from a fresh decode: " + r + " (fresh: " + fresh + ")"
		}
		return "pass"
	case "mal":
		l, ok := parseSubListsText(a[1])
		if !ok || !wfSubLists(l) {
			return skip
		}
		want := normSubLists(l)
		b, err := l.MarshalBinary()
		if err != nil {
			return "FAIL well-formed list does not serialise: " + err.Error()
		}
		var back upc.UEPolicySectionManagementListContent
		if err := back.UnmarshalBinary(b); err != nil {
			return "FAIL own serialisation does not parse: " + err.Error()
		}
		if got := dropMccMnc(showSubLists(back)); got != want {
			return fmt.Sprintf("FAIL round trip: decoded %s, built %s (lengths from content)", got, want)
		}
		otherL := upc.UEPolicySectionManagementListContent{{PlmnDigit1: 0x99, PlmnDigit2: 0xf9, PlmnDigit3: 0x99}}
		if r := staleResult(func() []byte { x, _ := l.MarshalBinary(); return x }, func() []byte { x, _ := otherL.MarshalBinary(); return x }); r != "" {
			return "FAIL list MarshalBinary: " + r
		}
		// the decoded MCC / MNC are the digits of the PLMN octets in TS 24.008 order
		for i, s := range back {
			mcc, mnc, _ := specPlmnText([]byte{l[i].PlmnDigit1, l[i].PlmnDigit2, l[i].PlmnDigit3})
			if fmt.Sprintf("%03d", ip(s.Mcc)) != mcc || (fmt.Sprintf("%02d", ip(s.Mnc)) != mnc && fmt.Sprintf("%03d", ip(s.Mnc)) != mnc) {
				return fmt.Sprintf("FAIL sublist %d: PLMN octets %02x%02x%02x decoded as %d/%d, TS 24.008 reads %s/%s", i, s.PlmnDigit1, s.PlmnDigit2,
					s.PlmnDigit3, ip(s.Mcc), ip(s.Mnc), mcc, mnc)
			}
		}
		return "pass"
	case "mar":
		l, ok := parseSubResultsText(a[1])
		if !ok {
			return skip
		}
		for _, s := range l {
			if _, _, okp := specPlmnText([]byte{s.PlmnDigit1, s.PlmnDigit2, s.PlmnDigit3}); !okp || 3+5*len(s.UEPolicySectionManagementSubResultContents) > 65535 {
				return skip
			}
		}
		b, err := l.MarshalBinary()
		if err != nil {
			return "FAIL well-formed result does not serialise: " + err.Error()
		}
		var back upc.UEPolicySectionManagementResultContent
		if err := back.UnmarshalBinary(b); err != nil {
			return "FAIL own serialisation does not parse: " + err.Error()
		}
		if len(back) != len(l) {
			return "FAIL round trip: number of sub-results differs"
		}
		for i := range l {
			w, g := l[i], back[i]
			if g.PlmnDigit1 != w.PlmnDigit1 || g.PlmnDigit2 != w.PlmnDigit2 || g.PlmnDigit3 != w.PlmnDigit3 ||
				int(g.Len) != 3+5*len(w.UEPolicySectionManagementSubResultContents) ||
				len(g.UEPolicySectionManagementSubResultContents) != len(w.UEPolicySectionManagementSubResultContents) {
				return fmt.Sprintf("FAIL round trip: sub-result %d differs", i)
			}
			for j, r := range w.UEPolicySectionManagementSubResultContents {
				x := g.UEPolicySectionManagementSubResultContents[j]
				if x.Upsc != r.Upsc || x.FailInstructionOrder != r.FailInstructionOrder {
					return fmt.Sprintf("FAIL round trip: result %d of sub-result %d differs", j, i)
				}
			}
			mcc, mnc, _ := specPlmnText([]byte{w.PlmnDigit1, w.PlmnDigit2, w.PlmnDigit3})
			if fmt.Sprintf("%03d", ip(g.Mcc)) != mcc || (fmt.Sprintf("%02d", ip(g.Mnc)) != mnc && fmt.Sprintf("%03d", ip(g.Mnc)) != mnc) {
				return fmt.Sprintf("FAIL sub-result %d: PLMN octets %02x%02x%02x decoded as %d/%d, TS 24.008 reads %s/%s", i, g.PlmnDigit1,
					g.PlmnDigit2, g.PlmnDigit3, ip(g.Mcc), ip(g.Mnc), mcc, mnc)
			}
		}
		return "pass"
	case "enc":
		h1, ok := atoiU(a[1], 8)
		if !ok || len(a) != 3 {
			return skip
		}
		u, ok := parseMsgText(uint8(h1), a[2])
		if !ok {
			return skip
		}
		// built through the API: header type names the sub-message present, sub-message header = delivery header, Len = len(Buffer)
		var wf bool
		switch {
		case h1 == 1 && u.ManageUEPolicyCommand != nil:
			m := u.ManageUEPolicyCommand
			wf = m.UePolicyDeliveryServiceMsgType.Octet == 1 && int(m.UEPolicySectionManagementList.Len) == len(m.UEPolicySectionManagementList.Buffer)
		case h1 == 2 && u.ManageUEPolicyComplete != nil:
			wf = u.ManageUEPolicyComplete.UePolicyDeliveryServiceMsgType.Octet == 2
		case h1 == 3 && u.ManageUEPolicyReject != nil:
			m := u.ManageUEPolicyReject
			wf = m.UePolicyDeliveryServiceMsgType.Octet == 3 && int(m.UEPolicySectionManagementResult.Len) == len(m.UEPolicySectionManagementResult.Buffer)
		}
		if !wf {
			return skip
		}
		want := showMsg(u)
		b, err := u.UePolDeliverySerEncode()
		if err != nil {
			return "FAIL message built through the API does not encode: " + err.Error()
		}
		back := upc.NewUePolDeliverySer()
		if err := back.UePolDeliverySerDecode(b); err != nil {
			return "FAIL own encoding does not decode: " + err.Error()
		}
		if got := showMsg(back); got != want {
			return fmt.Sprintf("FAIL round trip: decoded %s, built %s", got, want)
		}
		return "pass"
	case "plmn2":
		if len(a) != 6 {
			return skip
		}
		mcc, e1 := strconv.Atoi(a[4])
		mnc, e2 := strconv.Atoi(a[5])
		if e1 != nil || e2 != nil || mcc < 100 || mcc > 999 || mnc < 9 || mnc > 999 {
			return skip
		}
		want := nasConvert.PlmnIDToNas(models.PlmnId{Mcc: fmt.Sprintf("%03d", mcc), Mnc: fmt.Sprintf("%02d", mnc)})
		if r := upcOp(a); r != "ok "+hexs(want) {
			return fmt.Sprintf("FAIL SetPlmnDigit(%s,%s) then SetPlmnDigit(%d,%d) on one object => %s, PlmnIDToNas gives %x", a[2], a[3], mcc, mnc, r, want)
		}
		return "pass"
	case "plmn":
		mcc, e1 := strconv.Atoi(a[2])
		mnc, e2 := strconv.Atoi(a[3])
		if e1 != nil || e2 != nil || mcc < 100 || mcc > 999 || mnc < 9 || mnc > 999 {
			return skip
		}
		// the same digit order as every other PLMN encoder of the library (TS 24.008 10.5.1.13)
		mncS := fmt.Sprintf("%02d", mnc)
		want := nasConvert.PlmnIDToNas(models.PlmnId{Mcc: fmt.Sprintf("%03d", mcc), Mnc: mncS})
		r := upcOp(a)
		if r != "ok "+hexs(want) {
			return fmt.Sprintf("FAIL SetPlmnDigit(%d,%d) => %s, PlmnIDToNas gives %x", mcc, mnc, r, want)
		}
		if !bytes.Equal(want, plmnOctets(fmt.Sprintf("%03d", mcc), mncS)) {
			return "FAIL PlmnIDToNas itself is off the TS 24.008 layout"
		}
		return "pass"
	}
	return skip
}

// ---- generator: independent encoders from TS 24.501 Annex D figures

type gPart struct {
	typ     int
	content []byte
}
type gInstr struct {
	upsc  int
	parts []gPart
}
type gSub struct {
	plmn   []byte
	instrs []gInstr
}

func encSubLists(l []gSub) []byte {
	var out []byte
	for _, s := range l {
		var body []byte
		for _, i := range s.instrs {
			var ib []byte
			for _, p := range i.parts {
				n := 1 + len(p.content)
				ib = append(ib, byte(n>>8), byte(n), byte(p.typ))
				ib = append(ib, p.content...)
			}
			n := 2 + len(ib)
			body = append(body, byte(n>>8), byte(n), byte(i.upsc>>8), byte(i.upsc))
			body = append(body, ib...)
		}
		n := 3 + len(body)
		out = append(out, byte(n>>8), byte(n))
		out = append(out, s.plmn...)
		out = append(out, body...)
	}
	return out
}

// staleLen, when non-nil, supplies the Len already stored in a sublist / instruction before it is marshalled (a structure that
// was decoded or encoded earlier and then edited): the encoders derive these lengths from the contents, whatever was stored
var staleLen func() int

func lenText() int {
	if staleLen != nil {
		return staleLen()
	}
	return 0
}

func subListsText(l []gSub, zeroPartLen bool) string {
	var ss []string
	for _, s := range l {
		var is []string
		for _, i := range s.instrs {
			var ps []string
			for _, p := range i.parts {
				pl := 1 + len(p.content)
				if zeroPartLen {
					pl = 0
				}
				ps = append(ps, fmt.Sprintf("%d.%d.%s", pl, p.typ, hexs(p.content)))
			}
			is = append(is, fmt.Sprintf("%d/%d/%s", lenText(), i.upsc, joinL(ps, ",")))
		}
		ss = append(ss, fmt.Sprintf("%d:%s:0:0:%s", lenText(), hexs(s.plmn)[0:6], joinL(is, "+")))
	}
	return joinL(ss, "|")
}

func (g *Gen) gSub() gSub {
	mcc, mnc := g.plmn()
	s := gSub{plmn: plmnOctets(mcc, mnc)}
	for k := g.Intn(4); k > 0; k-- {
		i := gInstr{upsc: g.Intn(65536)}
		for j := g.Intn(4); j > 0; j-- {
			n := g.Intn(8)
			if g.Intn(10) == 0 {
				n = 0
			}
			if g.Intn(40) == 0 {
				n = 300
			}
			i.parts = append(i.parts, gPart{typ: 1 + g.Intn(4), content: g.Bytes(n)})
		}
		s.instrs = append(s.instrs, i)
	}
	return s
}

func genUePolicy(g *Gen, w *bufio.Writer) {
	thorough := g.Tier == "thorough"
	genUePolicyAPI(g, w, g.N*2)
	// exhaustive short inputs to the three decoders
	for _, op := range []string{"dec", "unl", "unr"} {
		fmt.Fprintf(w, "upc %s -\n", op)
		for x := 0; x < 256; x++ {
			fmt.Fprintf(w, "upc %s %02x\n", op, x)
		}
		n2 := 4000
		if thorough {
			n2 = 65536
		}
		for i := 0; i < n2; i++ {
			v := i
			if !thorough {
				v = g.Intn(65536)
			}
			fmt.Fprintf(w, "upc %s %04x\n", op, v)
		}
		for i := 0; i < g.N*4; i++ {
			b := g.Bytes(3 + g.Intn(14))
			if op == "dec" {
				b[1] = byte(g.Intn(8))
			}
			if g.Bool() { // small length fields reach the nested parsers
				for j := range b {
					if g.Intn(3) == 0 {
						b[j] = byte(g.Intn(6))
					}
				}
			}
			fmt.Fprintf(w, "upc %s %s\n", op, hexs(b))
		}
	}
	// section-management lists: well-formed, every truncation, every 16-bit window zeroed / set to small values, mutations
	for i := 0; i < g.N; i++ {
		var l []gSub
		for k := g.Intn(3); k >= 0; k-- {
			l = append(l, g.gSub())
		}
		if i%12 == 0 {
			l = nil
		}
		b := encSubLists(l)
		fmt.Fprintf(w, "upc mal %s\n", subListsText(l, i%2 == 0))
		if i%3 == 1 {
			staleLen = func() int { return []int{1, 2, 4, 13, 0xffff, 1 + g.Intn(300)}[g.Intn(6)] }
			fmt.Fprintf(w, "upc mal %s\n", subListsText(l, i%2 == 0))
			staleLen = nil
		}
		fmt.Fprintf(w, "upc unl %s\n", hexs(b))
		cmd := append([]byte{byte(g.Intn(256)), 1, 0, byte(len(b) >> 8), byte(len(b))}, b...)
		fmt.Fprintf(w, "upc dec %s\n", hexs(cmd))
		if len(b) < 400 && i < g.N/3 {
			for cut := 0; cut < len(b); cut++ {
				fmt.Fprintf(w, "upc unl %s\n", hexs(b[:cut]))
			}
			for pos := 0; pos+1 < len(b); pos++ {
				for _, v := range []int{0, 1, 2, 3, 0xffff} {
					c := append([]byte{}, b...)
					c[pos], c[pos+1] = byte(v>>8), byte(v)
					fmt.Fprintf(w, "upc unl %s\n", hexs(c))
				}
			}
		}
		for k := 0; k < 3; k++ {
			fmt.Fprintf(w, "upc unl %s\n", hexs(g.mutate(b)))
		}
	}
	// results
	for i := 0; i < g.N; i++ {
		var parts []string
		var wire []byte
		for k := g.Intn(3); k >= 0; k-- {
			mcc, mnc := g.plmn()
			p := plmnOctets(mcc, mnc)
			n := g.Intn(4)
			var rs []string
			body := []byte{}
			for j := 0; j < n; j++ {
				u, o := g.Intn(65536), g.Intn(65536)
				rs = append(rs, fmt.Sprintf("%d.%d.%d", u, o, []int{0x6f, 0, 0xff}[g.Intn(3)]))
				body = append(body, byte(u>>8), byte(u), byte(o>>8), byte(o), byte(g.Intn(256)))
			}
			sl := 0
			if i%3 == 1 {
				sl = []int{1, 3, 8, 0xffff, 1 + g.Intn(300)}[g.Intn(5)]
			}
			parts = append(parts, fmt.Sprintf("%d:%s:0:0:%s", sl, hexs(p), joinL(rs, ",")))
			ln := 3 + len(body)
			wire = append(wire, byte(ln>>8), byte(ln))
			wire = append(wire, p...)
			wire = append(wire, body...)
		}
		fmt.Fprintf(w, "upc mar %s\n", joinL(parts, "|"))
		fmt.Fprintf(w, "upc unr %s\n", hexs(wire))
		rej := append([]byte{byte(g.Intn(256)), 3, 0, byte(len(wire) >> 8), byte(len(wire))}, wire...)
		fmt.Fprintf(w, "upc dec %s\n", hexs(rej))
		if i < g.N/3 {
			for cut := 0; cut < len(wire); cut++ {
				fmt.Fprintf(w, "upc unr %s\n", hexs(wire[:cut]))
			}
		}
		fmt.Fprintf(w, "upc unr %s\n", hexs(g.mutate(wire)))
	}
	// messages built through the API, and header / sub-message mismatches (correspondence only)
	for i := 0; i < g.N; i++ {
		pti := g.Intn(256)
		b := g.Bytes(g.Intn(20))
		cm := "-"
		if g.Bool() {
			cm = fmt.Sprintf("%d.2.%d.0", g.Intn(256), g.Intn(2))
		}
		fmt.Fprintf(w, "upc enc 1 cmd:%d:1:%d:%d:%s:%s\n", pti, g.Intn(256), len(b), hexs(b), cm)
		fmt.Fprintf(w, "upc enc 2 cpl:%d:2\n", pti)
		fmt.Fprintf(w, "upc enc 3 rej:%d:3:%d:%d:%s\n", pti, g.Intn(256), len(b), hexs(b))
		if i%10 == 0 {
			fmt.Fprintf(w, "upc enc %d cpl:%d:2\n", g.Intn(9), pti)
			fmt.Fprintf(w, "upc enc 1 cmd:%d:1:0:%d:%s:-\n", pti, g.Intn(30), hexs(b)) // Len differs from Buffer
			fmt.Fprintf(w, "upc enc %d other\n", g.Intn(9))
		}
	}
	// decode: every message type, truncated commands, trailing octets after the classmark
	for t := 0; t < 256; t++ {
		fmt.Fprintf(w, "upc dec %02x%02x\n", g.Intn(256), t)
		fmt.Fprintf(w, "upc dec %02x%02x%s\n", g.Intn(256), t, hexs(g.Bytes(1 + g.Intn(8)))[0:])
	}
	for extra := 0; extra <= 6; extra++ {
		b := []byte{7, 1, 0, 0, 2, 0xaa, 0xbb}
		b = append(b, g.Bytes(extra)...)
		fmt.Fprintf(w, "upc dec %s\n", hexs(b))
	}
	// a recycled UePolDeliverySer: every ordered pair of a small set of messages (command with / without the optional classmark,
	// complete, reject, an unknown type, a truncated command) decoded one after the other into the same object
	{
		list := []byte{0, 3, 0x02, 0xf8, 0x39}
		cmdNo := append([]byte{7, 1, 0, 0, byte(len(list))}, list...)
		cmdCm := append(append([]byte{}, cmdNo...), 0x41, 0x01, 0x03, 0x00)
		cmdCm2 := append(append([]byte{}, cmdNo...), 0x41, 0x01, 0x01, 0x00)
		msgs := [][]byte{cmdNo, cmdCm, cmdCm2, {9, 2}, {8, 2}, {9, 4, 0, 8, 0, 6, 0x02, 0xf8, 0x39, 0, 1, 0x6f}, {3, 4, 0, 3, 0x02, 0xf8, 0x39}, {1, 0x77}, cmdCm[:len(cmdCm)-2], cmdNo[:5]}
		for _, a := range msgs {
			for _, b := range msgs {
				if a[1] == b[1] {
					fmt.Fprintf(w, "upc dec2 %s %s\n", hexs(a), hexs(b))
				}
			}
		}
	}
	// PLMN digits: every MCC x a spread of MNCs (thorough: all), both setters, and values around the accepted range
	for mcc := 100; mcc <= 999; mcc++ {
		mncs := []int{10, 93, 99, 100, 260, 999, g.Intn(990) + 10}
		if thorough {
			mncs = nil
			for m := 10; m <= 999; m++ {
				mncs = append(mncs, m)
			}
		}
		for _, mnc := range mncs {
			fmt.Fprintf(w, "upc plmn l %d %d\n", mcc, mnc)
			fmt.Fprintf(w, "upc plmn r %d %d\n", mcc, mnc)
			if mnc%3 == 0 {
				// the object held another PLMN before (two- and three-digit MNCs in both orders)
				m2, n2 := 100+g.Intn(900), []int{10 + g.Intn(90), 100 + g.Intn(900)}[g.Intn(2)]
				fmt.Fprintf(w, "upc plmn2 l %d %d %d %d\n", m2, n2, mcc, mnc)
				fmt.Fprintf(w, "upc plmn2 r %d %d %d %d\n", mcc, mnc, m2, n2)
			}
		}
	}
	for _, v := range [][2]int{{0, 10}, {98, 10}, {99, 10}, {1000, 10}, {208, 0}, {208, 8}, {208, 9}, {208, 1000}, {208, 2550}} {
		fmt.Fprintf(w, "upc plmn l %d %d\n", v[0], v[1])
		fmt.Fprintf(w, "upc plmn r %d %d\n", v[0], v[1])
	}
}
