package main

// `harness conc [-g N]`: the C19 runtime part. Reads op lines, computes every outcome once sequentially, then runs all ops
// again from N goroutines (each line builds its own values, so the goroutines work on distinct messages and buffers; the lines
// are dealt round-robin and each goroutine walks its share in a different order), plus a shared-read scenario: messages decoded
// once are re-read and re-encoded by all goroutines at the same time. Every concurrent outcome must equal the sequential one.
// Built with -race the Go race detector reports any conflicting access (GORACE=halt_on_error makes that fatal).

import (
	"bufio"
	"fmt"
	"os"
	"reflect"
	"sort"
	"strings"
	"sync"
	"time"

	"github.com/free5gc/nas"
	"github.com/free5gc/nas/logger"
	"github.com/free5gc/nas/nasConvert"
	"github.com/free5gc/nas/nasType"
)

func runOp(line string) string {
	toks := strings.Fields(line)
	if len(toks) == 0 {
		return "bad-op"
	}
	f, ok := ops[toks[0]]
	if !ok {
		return "bad-op"
	}
	return safely(func() string { return f(toks[1:]) })
}

// plainWriter is an ordinary io.Writer without any locking of its own, as an application may install for the library's logger
// (a bytes.Buffer, a bufio.Writer): logrus serialises the writes of its entries; if the library switches that off, concurrent
// library calls race on it
type plainWriter struct {
	n   int
	buf []byte
}

func (p *plainWriter) Write(b []byte) (int, error) {
	p.n++
	if len(p.buf) > 1<<16 {
		p.buf = p.buf[:0]
	}
	p.buf = append(p.buf, b...)
	return len(b), nil
}

func concMain(g int) {
	logger.GetLogger().SetOutput(&plainWriter{})
	sc := bufio.NewScanner(os.Stdin)
	sc.Buffer(make([]byte, 1<<20), 1<<26)
	var lines []string
	for sc.Scan() {
		lines = append(lines, sc.Text())
	}
	// fixed PDUs whose elements have accessors that do real work (identity text conversions): a null-scheme IMSI SUCI, a 5G-GUTI,
	// an IMEISV, an NSSAI — shared read-only between all goroutines below
	fixed := []string{
		"7e004179000d0102f839f0ff00000000004778",
		"7e004179000bf202f839cafe0000000001",
		"7e004179000d0102f839f0ff000000000047782f020101",
		"7e005c000d0102f839f0ff00000000004778",
	}
	{
		// in front, so that they are always among the shared messages (the shared set is capped)
		var fl []string
		for _, h := range fixed {
			fl = append(fl, "dec plain "+h)
		}
		lines = append(fl, lines...)
	}
	// cold start: before anything has run in this process, one short line of every op kind from all goroutines at once. Whatever
	// the library sets up on first use (tables, caches, sync.Once-like guards) is set up under contention here; the answers are
	// compared with the sequential run below, and a goroutine that never returns is a failure.
	var cold []int
	{
		seen := map[string]bool{}
		for i, l := range lines {
			t := strings.Fields(l)
			if len(t) < 2 || len(l) > 600 {
				continue
			}
			k := t[0] + " " + t[1]
			if !seen[k] {
				seen[k] = true
				cold = append(cold, i)
			}
		}
	}
	coldRes := make([][]string, g)
	{
		var cw sync.WaitGroup
		start := make(chan struct{})
		for w := 0; w < g; w++ {
			cw.Add(1)
			coldRes[w] = make([]string, len(cold))
			go func(w int) {
				defer cw.Done()
				<-start
				for k := range cold {
					// all goroutines enter the same line together (a barrier per line): the first use of whatever that line
					// needs is made by all of them at once
					coldBarrier(k, g)
					coldRes[w][k] = runOp(lines[cold[k]])
				}
			}(w)
		}
		done := make(chan struct{})
		go func() { cw.Wait(); close(done) }()
		close(start)
		select {
		case <-done:
		case <-time.After(90 * time.Second):
			fmt.Printf("conc cold-start: goroutines still blocked after 90 s (first use of the library from %d goroutines at once)\n", g)
			os.Exit(1)
		}
	}
	seq := make([]string, len(lines))
	for i, l := range lines {
		seq[i] = runOp(l)
	}
	for w := range coldRes {
		for k, i := range cold {
			if coldRes[w][k] != seq[i] {
				fmt.Printf("conc cold-start mismatches=1\nfirst: %s => at first use under contention %s, sequential %s\n", lines[i], coldRes[w][k], seq[i])
				os.Exit(1)
			}
		}
	}
	// shared decoded messages (read-only use from all goroutines)
	type shared struct {
		in   []byte // the buffer the message was decoded from (goroutine 0 keeps overwriting it while the others read the message)
		m    *nas.Message
		show string
		enc  string
	}
	var sh []shared
	for _, l := range lines {
		t := strings.Fields(l)
		if len(t) == 3 && t[0] == "dec" && t[1] == "plain" && len(sh) < 200 {
			if b, ok := unhex(t[2]); ok {
				in := append([]byte{}, b...)
				if m, _ := decodeEntry("plain", &in); m != nil {
					s := shared{in: in, m: m, show: showNas(m) + readAll(m) + convReadAll(m)}
					s.enc = safely(func() string {
						out, err := m.PlainNasEncode()
						if err != nil {
							return "err"
						}
						return hexs(out)
					})
					sh = append(sh, s)
				}
			}
		}
	}
	// other shared values that callers only read from several goroutines: protocol configuration options (Marshal), QoS rules and
	// flow descriptions (MarshalBinary),
	type sharedVal struct {
		read func() string
		want string
	}
	var sv []sharedVal
	kindCount := map[string]int{}
	for _, l := range lines {
		t := strings.Fields(l)
		if len(t) < 2 {
			continue
		}
		if kindCount[t[0]] >= 50 {
			continue
		}
		switch {
		case len(t) == 2 && t[0] == "pcomar":
			kindCount[t[0]]++
			if us, ok := parseUnits(t[1]); ok {
				pco := nasConvert.NewProtocolConfigurationOptions()
				pco.ProtocolOrContainerList = us
				sv = append(sv, sharedVal{read: func() string { return hexs(pco.Marshal()) }})
			}
		case len(t) == 3 && t[0] == "qr" && t[1] == "unm":
			kindCount[t[0]]++
			if b, ok := unhex(t[2]); ok {
				var r nasType.QoSRules
				if r.UnmarshalBinary(b) == nil {
					rr := r
					sv = append(sv, sharedVal{read: func() string {
						o, err := rr.MarshalBinary()
						if err != nil {
							return "err"
						}
						return hexs(o)
					}})
				}
			}
		case len(t) == 3 && t[0] == "qfd" && t[1] == "unm":
			kindCount[t[0]]++
			if b, ok := unhex(t[2]); ok {
				var r nasType.QoSFlowDescs
				if r.UnmarshalBinary(b) == nil {
					rr := r
					sv = append(sv, sharedVal{read: func() string {
						o, err := rr.MarshalBinary()
						if err != nil {
							return "err"
						}
						return hexs(o)
					}})
				}
			}
		}
	}
	// (a shared security.Count is deliberately not among them: Get() stores the masked word back, so concurrent Get calls on one
	// counter race on the unchanged tree; a NAS COUNT belongs to one security context and C19 speaks of distinct values or a
	// shared decoded message - recorded in DESIGN 9.4e as an observation, not a finding)
	for i := range sv {
		sv[i].want = safely(sv[i].read)
	}
	// "hot" ops: a few lines of every op kind (first two tokens; the longest ones, which carry the most elements), run by EVERY
	// goroutine, so that each code path is executed by many goroutines at once (per-kind scratch state shows up as a race)
	var hot []int
	{
		byKind := map[string][]int{}
		var kinds []string
		for i, l := range lines {
			t := strings.Fields(l)
			if len(t) == 0 || len(l) > 4000 {
				continue
			}
			k := t[0]
			if len(t) > 1 {
				k += " " + t[1]
			}
			if _, ok := byKind[k]; !ok {
				kinds = append(kinds, k)
			}
			byKind[k] = append(byKind[k], i)
		}
		for _, k := range kinds {
			idx := byKind[k]
			sort.SliceStable(idx, func(a, b int) bool { return len(lines[idx[a]]) > len(lines[idx[b]]) })
			for j := 0; j < len(idx) && j < 4; j++ {
				hot = append(hot, idx[j])
			}
		}
	}
	var wg sync.WaitGroup
	var mu sync.Mutex
	mismatches := 0
	var first string
	note := func(s string) {
		mu.Lock()
		mismatches++
		if first == "" {
			first = s
		}
		mu.Unlock()
	}
	// "contended" phase: per op kind, every goroutine gets its OWN line of that kind (other keys, other values) and all of them
	// repeat their line at the same time. State that is shared between callers of one code path but properly locked shows no
	// race; it shows as a goroutine receiving the answer to somebody else's arguments.
	{
		byKind := map[string][]int{}
		var kinds []string
		for i, l := range lines {
			t := strings.Fields(l)
			if len(t) < 2 || len(l) > 3000 || strings.HasPrefix(seq[i], "bad-op") {
				continue
			}
			k := t[0] + " " + t[1]
			if _, ok := byKind[k]; !ok {
				kinds = append(kinds, k)
			}
			byKind[k] = append(byKind[k], i)
		}
		contended := 0
		for _, k := range kinds {
			idx := byKind[k]
			if len(idx) < 2 {
				continue
			}
			t0 := time.Now()
			runOp(lines[idx[0]])
			per := time.Since(t0)
			reps := 200
			if per > 0 {
				if r := int(6 * time.Millisecond / per); r < reps {
					reps = r
				}
			}
			if reps < 8 {
				reps = 8
			}
			contended++
			var cw sync.WaitGroup
			start := make(chan struct{})
			for w := 0; w < g; w++ {
				cw.Add(1)
				go func(w int) {
					defer cw.Done()
					i := idx[w%len(idx)]
					<-start
					for r := 0; r < reps; r++ {
						if got := runOp(lines[i]); got != seq[i] {
							note(fmt.Sprintf("%s => under contention %s, sequential %s", lines[i], got, seq[i]))
							return
						}
					}
				}(w)
			}
			close(start)
			cw.Wait()
		}
		_ = contended
	}
	for w := 0; w < g; w++ {
		wg.Add(1)
		go func(w int) {
			defer wg.Done()
			var mine []int
			for i := w; i < len(lines); i += g {
				mine = append(mine, i)
			}
			if w%2 == 1 { // walk the share backwards on odd goroutines
				for a, b := 0, len(mine)-1; a < b; a, b = a+1, b-1 {
					mine[a], mine[b] = mine[b], mine[a]
				}
			}
			for _, i := range mine {
				if r := runOp(lines[i]); r != seq[i] {
					note(fmt.Sprintf("%s => concurrent %s, sequential %s", lines[i], r, seq[i]))
				}
			}
			for k := range hot {
				i := hot[(k+w)%len(hot)]
				if r := runOp(lines[i]); r != seq[i] {
					note(fmt.Sprintf("%s => concurrent %s, sequential %s", lines[i], r, seq[i]))
				}
			}
			if w == 0 {
				// the receive buffers are reused by their owner: a decoded message that still points into one is a race
				for k := range sh {
					for i := range sh[k].in {
						sh[k].in[i] ^= 0xff
					}
				}
			}
			for k := range sv {
				v := sv[(k+w)%len(sv)]
				for rep := 0; rep < 20; rep++ {
					if got := safely(v.read); got != v.want {
						note("a shared value that is only read (Marshal / MarshalBinary / Get) answers differently under concurrent readers")
						break
					}
				}
			}
			for k := range sh {
				s := sh[(k+w)%len(sh)]
				if got := showNas(s.m) + readAll(s.m) + convReadAll(s.m); got != s.show {
					note("shared decoded message reads differently under concurrent readers")
				}
				enc := safely(func() string {
					out, err := s.m.PlainNasEncode()
					if err != nil {
						return "err"
					}
					return hexs(out)
				})
				if enc != s.enc {
					note("shared decoded message encodes differently under concurrent encoders")
				}
			}
		}(w)
	}
	wg.Wait()
	fmt.Printf("conc ops=%d goroutines=%d shared=%d sharedvalues=%d hot=%d mismatches=%d\n", len(lines), g, len(sh), len(sv), len(hot), mismatches)
	if first != "" {
		fmt.Println("first: " + first)
	}
	if mismatches > 0 {
		os.Exit(1)
	}
}

// readAll calls every argument-less Get* accessor of every element of a decoded message (the text conversions of identities
// included) and renders the results: read-only use of a shared message, as a caller would do from several goroutines
func readAll(m *nas.Message) string {
	var sb strings.Builder
	visitIE := func(name string, v reflect.Value) {
		if v.Kind() == reflect.Ptr {
			if v.IsNil() {
				return
			}
		} else if v.CanAddr() {
			v = v.Addr()
		} else {
			return
		}
		t := v.Type()
		for i := 0; i < t.NumMethod(); i++ {
			mt := t.Method(i)
			if !strings.HasPrefix(mt.Name, "Get") || mt.Type.NumIn() != 1 {
				continue
			}
			func() {
				defer func() {
					if r := recover(); r != nil {
						fmt.Fprintf(&sb, "%s.%s=panic;", name, mt.Name)
					}
				}()
				out := v.Method(i).Call(nil)
				fmt.Fprintf(&sb, "%s.%s=", name, mt.Name)
				for _, o := range out {
					fmt.Fprintf(&sb, "%v,", o.Interface())
				}
				sb.WriteString(";")
			}()
		}
	}
	visitFam := func(fv reflect.Value) {
		for i := 1; i < fv.NumField(); i++ {
			f := fv.Field(i)
			if f.Kind() != reflect.Ptr || f.IsNil() {
				continue
			}
			body := f.Elem()
			for j := 0; j < body.NumField(); j++ {
				visitIE(body.Type().Field(j).Name, body.Field(j))
			}
		}
	}
	if m.GmmMessage != nil {
		visitFam(reflect.ValueOf(m.GmmMessage).Elem())
	}
	if m.GsmMessage != nil {
		visitFam(reflect.ValueOf(m.GsmMessage).Elem())
	}
	return sb.String()
}

// convReadAll applies the read-only nasConvert helpers that take raw element contents to every byte buffer of a decoded message
// (identity renderings, PDU session bitmaps, LADN / NSSAI walkers, UE security capability): what an AMF does with a received
// message, possibly from several goroutines at once
func convReadAll(m *nas.Message) string {
	var sb strings.Builder
	try := func(name string, f func() string) {
		defer func() {
			if r := recover(); r != nil {
				fmt.Fprintf(&sb, "%s=panic;", name)
			}
		}()
		fmt.Fprintf(&sb, "%s=%s;", name, f())
	}
	visit := func(name string, v reflect.Value) {
		if v.Kind() == reflect.Ptr {
			if v.IsNil() {
				return
			}
			v = v.Elem()
		}
		if v.Kind() != reflect.Struct {
			return
		}
		bf := v.FieldByName("Buffer")
		if !bf.IsValid() || bf.Kind() != reflect.Slice || bf.Type().Elem().Kind() != reflect.Uint8 {
			return
		}
		b := bf.Bytes()
		try(name+".suci", func() string { s, p, err := nasConvert.SuciToStringWithError(b); return fmt.Sprint(s, p, err != nil) })
		try(name+".guti", func() string { _, s, err := nasConvert.GutiToStringWithError(b); return fmt.Sprint(s, err != nil) })
		try(name+".pei", func() string { s, err := nasConvert.PeiToStringWithError(b); return fmt.Sprint(s, err != nil) })
		try(name+".psi", func() string { return fmt.Sprint(nasConvert.PSIToBooleanArray(b)) })
		try(name+".ladn", func() string { return fmt.Sprint(nasConvert.LadnToModels(b)) })
		try(name+".uesec", func() string { return fmt.Sprint(nasConvert.UESecurityCapabilityToByteArray(b)) })
		try(name+".upu", func() string { s, err := nasConvert.UpuAckToModels(b); return fmt.Sprint(s, err != nil) })
		if len(b) >= 3 {
			try(name+".plmn", func() string { return nasConvert.PlmnIDToString(b[:3]) })
		}
	}
	visitFam := func(fv reflect.Value) {
		for i := 1; i < fv.NumField(); i++ {
			f := fv.Field(i)
			if f.Kind() != reflect.Ptr || f.IsNil() {
				continue
			}
			body := f.Elem()
			for j := 0; j < body.NumField(); j++ {
				visit(body.Type().Field(j).Name, body.Field(j))
			}
		}
	}
	if m.GmmMessage != nil {
		visitFam(reflect.ValueOf(m.GmmMessage).Elem())
	}
	if m.GsmMessage != nil {
		visitFam(reflect.ValueOf(m.GsmMessage).Elem())
	}
	return sb.String()
}

var (
	barrierMu   sync.Mutex
	barrierCond = sync.NewCond(&barrierMu)
	barrierCnt  = map[int]int{}
)

// coldBarrier blocks until n goroutines have arrived at step k
func coldBarrier(k, n int) {
	barrierMu.Lock()
	barrierCnt[k]++
	if barrierCnt[k] >= n {
		barrierCond.Broadcast()
	}
	for barrierCnt[k] < n {
		barrierCond.Wait()
	}
	barrierMu.Unlock()
}
