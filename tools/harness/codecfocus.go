package main

// Focused search for the message codecs. When a codec obligation breaks (a statement outside the translator's IR, a changed
// table, a changed IE helper) and the regular streams exhibit no failing input, the runner re-runs the generators with
// `-focus msg:<Name>,type:<IEType>,entry,...`; they then emit only the deep families below, for the messages named (or containing
// an element of a named type): the change is known to sit there, so the budget a quick run spreads over 45 messages is spent on
// what content-, value- or history-dependent code in that one place could be looking at.

import (
	"bufio"
	"fmt"
)

type focusTarget struct {
	fam string
	d   *fDispatch
	c   fCase
	m   *fMsg
}

func focusTargets(g *Gen, t *fTables) []focusTarget {
	var out []focusTarget
	for di := range t.Dispatch {
		d := &t.Dispatch[di]
		for _, c := range d.Decode {
			m := t.msg(c.Msg)
			if m == nil {
				continue
			}
			hit := g.focused("msg", m.Name)
			for i := range m.DecMan {
				hit = hit || g.focused("type", m.DecMan[i].Type)
			}
			for i := range m.DecOpt {
				hit = hit || g.focused("type", m.DecOpt[i].Type)
			}
			if hit {
				out = append(out, focusTarget{d.Family, d, c, m})
			}
		}
	}
	return out
}

// allBases: one small valid message per (family, type)
func allBases(g *Gen, t *fTables) [][]byte {
	var out [][]byte
	for di := range t.Dispatch {
		d := &t.Dispatch[di]
		for _, c := range d.Decode {
			if m := t.msg(c.Msg); m != nil {
				out = append(out, renderMsg(m, mandatoryL(g, m, c.Const, d.TypeIndex, epdOf(d.Family), true), nil))
			}
		}
	}
	return out
}

func lengthed(s *fSlot) bool {
	return s.LenSize > 0 && (s.Store == "buf" || (s.Store == "arr" && s.Span == "toLen"))
}

func legalHas(s *fSlot, l int) bool {
	lo, hi := s.bounds()
	if l < lo || l > hi {
		return false
	}
	if s.Guard.Kind == "oneOf" {
		for _, x := range s.Guard.L {
			if x == l {
				return true
			}
		}
		return false
	}
	return true
}

func (s *fSlot) withContent(c []byte, optional bool) ieVal {
	v := ieVal{name: s.Name, ln: len(c)}
	if optional && s.HasIei {
		v.iei = s.Iei
	}
	if s.Store == "arr" {
		v.data = make([]byte, s.ArrN)
		copy(v.data, c)
	} else {
		v.data = append([]byte{}, c...)
	}
	return v
}

// focusFamilies calls emit for every message of the deep families of one target
func focusFamilies(g *Gen, t *fTables, ft focusTarget, bases [][]byte, emit func(man []ieVal, opt []*ieVal)) {
	m := ft.m
	typ, ti, epd := ft.c.Const, ft.d.TypeIndex, epdOf(ft.fam)
	fresh := func(small bool) ([]ieVal, []*ieVal) {
		return mandatoryL(g, m, typ, ti, epd, small), make([]*ieVal, len(m.DecOpt))
	}
	// slots by position: index < len(DecMan) mandatory, else optional
	nMan := len(m.DecMan)
	slot := func(i int) (*fSlot, bool) {
		if i < nMan {
			return &m.DecMan[i], false
		}
		return &m.DecOpt[i-nMan], true
	}
	set := func(man []ieVal, opt []*ieVal, i int, c []byte) {
		s, o := slot(i)
		v := s.withContent(c, o)
		if o {
			opt[i-nMan] = &v
		} else {
			man[i] = v
		}
	}
	// the single-octet mandatory elements behind the header (a type / indicator nibble another element's handling may depend on)
	var octets []int
	for i := ft.d.HeaderLen; i < nMan; i++ {
		if m.DecMan[i].Store == "octet" && m.DecMan[i].LenSize == 0 {
			octets = append(octets, i)
		}
	}
	var halves []int
	for j := range m.DecOpt {
		if m.DecOpt[j].Half {
			halves = append(halves, j)
		}
	}

	// (a) structured random messages
	for r := 0; r < 1500; r++ {
		man, opt := fresh(r%2 == 0)
		for j := range m.DecOpt {
			if g.Intn(2) == 0 {
				s := &m.DecOpt[j]
				v := s.value(g, g.pickLegal(s), true)
				opt[j] = &v
			}
		}
		emit(man, opt)
		if r%4 == 3 {
			if sm, so, ok := staleLenMsg(g, m, man, opt); ok {
				emit(sm, so) // a stale stored length on one buffer-backed element
			}
		}
	}
	for i := 0; i < nMan+len(m.DecOpt); i++ {
		s, _ := slot(i)
		if !lengthed(s) {
			continue
		}
		// (b) every short content over a small alphabet, crossed with every nibble of each single-octet mandatory element and
		// with the presence / value nibble of each half-octet optional element
		alpha := []byte{0, 1, 2, 0xff}
		var contents [][]byte
		var rec func(cur []byte, l int)
		rec = func(cur []byte, l int) {
			if len(cur) == l {
				contents = append(contents, append([]byte{}, cur...))
				return
			}
			for _, a := range alpha {
				rec(append(cur, a), l)
			}
		}
		for l := 0; l <= 4; l++ {
			if legalHas(s, l) {
				if l == 4 {
					alpha = []byte{0, 1, 0xff}
				}
				rec(nil, l)
			}
		}
		for _, c := range contents {
			man, opt := fresh(true)
			set(man, opt, i, c)
			emit(man, opt)
			for _, oi := range octets {
				for nib := 0; nib < 16; nib++ {
					for _, hi := range []int{0, 1} {
						man, opt := fresh(true)
						set(man, opt, i, c)
						man[oi].data = []byte{byte(nib)<<(4*uint(hi)) | byte(g.Intn(16))<<(4*uint(1-hi))}
						emit(man, opt)
					}
				}
			}
			for _, hj := range halves {
				for nib := 0; nib < 16; nib += 1 + g.Intn(2) {
					man, opt := fresh(true)
					set(man, opt, i, c)
					v := ieVal{name: m.DecOpt[hj].Name, data: []byte{byte(m.DecOpt[hj].Iei<<4) | byte(nib)}}
					opt[hj] = &v
					emit(man, opt)
				}
			}
		}
		// (c) an embedded code / identifier / 16-bit length header, every length value around the content length
		for _, l := range []int{4, 5, 6, 8, 12, 16, 20, 64, 300, 1500} {
			if !legalHas(s, l) {
				continue
			}
			ks := []int{0, 1, 3, 4, 5, l - 2, l - 1, l, l + 1, 255, 256, 65535}
			if l <= 20 {
				ks = nil
				for k := 0; k <= l+1; k++ {
					ks = append(ks, k)
				}
			}
			for code := 0; code <= 6; code++ {
				for _, k := range ks {
					if k < 0 {
						continue
					}
					c := g.Bytes(l)
					c[0] = byte(code)
					c[2], c[3] = byte(k>>8), byte(k)
					man, opt := fresh(true)
					set(man, opt, i, c)
					emit(man, opt)
				}
			}
		}
		// (d) constant fills at every legal length
		ll := s.legalLens()
		for _, l := range ll {
			if l > 2100 {
				continue
			}
			for _, f := range []int{0x00, 0xff, 0x01, 0x80, g.Intn(256)} {
				c := make([]byte, l)
				for k := range c {
					c[k] = byte(f)
				}
				man, opt := fresh(true)
				set(man, opt, i, c)
				emit(man, opt)
			}
		}
		// (e) nested messages as content
		for _, b := range bases {
			if legalHas(s, len(b)) {
				man, opt := fresh(true)
				set(man, opt, i, b)
				emit(man, opt)
				for _, oi := range octets {
					for nib := 0; nib < 16; nib++ {
						man, opt := fresh(true)
						set(man, opt, i, b)
						man[oi].data = []byte{byte(nib) | byte(g.Intn(16))<<4}
						emit(man, opt)
					}
				}
			}
		}
		// (f) every value of the first octet, and of the second with a small first one, rest structured
		for _, l := range []int{1, 2, 3, 4, 8, 30} {
			if !legalHas(s, l) {
				continue
			}
			for x := 0; x < 256; x++ {
				c := g.Content(l)
				c[0] = byte(x)
				man, opt := fresh(true)
				set(man, opt, i, c)
				// together with every other optional element present (an encoder may key one element on another's content)
				if x%2 == 0 {
					for j := range m.DecOpt {
						if opt[j] == nil {
							sj := &m.DecOpt[j]
							v := sj.value(g, g.pickLegal(sj), true)
							opt[j] = &v
						}
					}
				}
				emit(man, opt)
				if l >= 2 {
					c2 := g.Content(l)
					c2[0], c2[1] = smallAlphabet[g.Intn(6)], byte(x)
					man, opt := fresh(true)
					set(man, opt, i, c2)
					emit(man, opt)
				}
			}
		}
	}
	// (g) pairs of optional elements present together, half-octet values swept (one element's handling keyed on another's octet)
	for a := range m.DecOpt {
		for b := range m.DecOpt {
			if a == b || !m.DecOpt[a].Half {
				continue
			}
			for nib := 0; nib < 16; nib++ {
				man, opt := fresh(true)
				va := ieVal{name: m.DecOpt[a].Name, data: []byte{byte(m.DecOpt[a].Iei<<4) | byte(nib)}}
				opt[a] = &va
				sb := &m.DecOpt[b]
				vb := sb.value(g, g.pickLegal(sb), true)
				opt[b] = &vb
				emit(man, opt)
			}
		}
	}
	// (h) fixed-size (V / TV) elements: fills and first-octet sweep
	for i := ft.d.HeaderLen; i < nMan+len(m.DecOpt); i++ {
		s, o := slot(i)
		if lengthed(s) || s.Half || (s.Store != "arr" && s.Store != "octet") {
			continue
		}
		n := 1
		if s.Store == "arr" {
			n = s.ArrN
		}
		for x := 0; x < 256; x++ {
			c := g.Content(n)
			c[0] = byte(x)
			man, opt := fresh(true)
			v := ieVal{name: s.Name, data: c}
			if s.LenSize > 0 {
				v.ln = n // a length field in front of fixed-size contents (TLV with one octet, LV with a whole array)
			}
			if o && s.HasIei {
				v.iei = s.Iei
			}
			if o {
				opt[i-nMan] = &v
			} else {
				man[i] = v
			}
			// with a few later optional elements behind it (a pre-check that misreads this element sees them as "what is left")
			for j := range m.DecOpt {
				if opt[j] == nil && g.Intn(3) == 0 {
					sj := &m.DecOpt[j]
					l := g.pickLegal(sj)
					if l > 40 {
						lo, _ := sj.bounds()
						l = lo
					}
					vj := sj.value(g, l, true)
					opt[j] = &vj
				}
			}
			emit(man, opt)
		}
	}
}

// focus families of the decode stream: the wire forms of the families above, plus runs of every octet value behind the
// mandatory part (per-octet work or allocation in the optional loop) and every truncation of a few structured messages
func genCodecDecFocus(g *Gen, w *bufio.Writer, t *fTables) {
	bases := allBases(g, t)
	for _, ft := range focusTargets(g, t) {
		m := ft.m
		focusFamilies(g, t, ft, bases, func(man []ieVal, opt []*ieVal) {
			fmt.Fprintf(w, "dec plain %s\n", hexs(renderMsg(m, man, opt)))
		})
		base := renderMsg(m, mandatoryL(g, m, ft.c.Const, ft.d.TypeIndex, epdOf(ft.fam), true), nil)
		for x := 0; x < 256; x++ {
			for _, n := range []int{1, 2, 3, 64, 300, 8192} {
				b := append([]byte{}, base...)
				for k := 0; k < n; k++ {
					b = append(b, byte(x))
				}
				fmt.Fprintf(w, "dec plain %s\n", hexs(b))
			}
		}
		for r := 0; r < 40; r++ {
			man := mandatoryL(g, m, ft.c.Const, ft.d.TypeIndex, epdOf(ft.fam), true)
			opt := make([]*ieVal, len(m.DecOpt))
			for j := range m.DecOpt {
				if g.Intn(2) == 0 {
					s := &m.DecOpt[j]
					l := g.pickLegal(s)
					if l > 60 {
						lo, _ := s.bounds()
						l = lo
					}
					v := s.value(g, l, true)
					opt[j] = &v
				}
			}
			b := renderMsg(m, man, opt)
			// one or two of the present optional elements once more behind the message (a repeated element, cut anywhere)
			for rep := 0; rep < 2; rep++ {
				j := g.Intn(len(m.DecOpt) + 1)
				if j < len(m.DecOpt) && opt[j] != nil && r%2 == 0 {
					b = append(b, m.DecOpt[j].render(*opt[j], true)...)
				}
			}
			for k := 0; k <= len(b); k++ {
				fmt.Fprintf(w, "dec plain %s\n", hexs(b[:k]))
			}
		}
		// every lengthed optional element twice in a row, every prefix
		for j := range m.DecOpt {
			sj := &m.DecOpt[j]
			if sj.LenSize == 0 {
				continue
			}
			lo, _ := sj.bounds()
			v := sj.value(g, lo, true)
			one := sj.render(v, true)
			b := append(append(append([]byte{}, base...), one...), one...)
			for k := len(base); k <= len(b); k++ {
				fmt.Fprintf(w, "dec plain %s\n", hexs(b[:k]))
			}
		}
	}
	if g.focused("entry", "") {
		genEntryFocusDec(g, w, t, bases)
	}
}

// entry-point focus (nas.go / nas_generated.go changed): nested messages inside every container-like element of every message
// with every nibble of the single-octet mandatory elements, two-step decodes, very short inputs
func genEntryFocusDec(g *Gen, w *bufio.Writer, t *fTables, bases [][]byte) {
	for di := range t.Dispatch {
		d := &t.Dispatch[di]
		for _, c := range d.Decode {
			m := t.msg(c.Msg)
			if m == nil {
				continue
			}
			nMan := len(m.DecMan)
			for i := 0; i < nMan+len(m.DecOpt); i++ {
				var s *fSlot
				o := i >= nMan
				if o {
					s = &m.DecOpt[i-nMan]
				} else {
					s = &m.DecMan[i]
				}
				if !lengthed(s) || s.LenSize != 2 {
					continue
				}
				for _, b := range bases {
					if !legalHas(s, len(b)) {
						continue
					}
					for nib := 0; nib < 16; nib++ {
						man := mandatoryL(g, m, c.Const, d.TypeIndex, epdOf(d.Family), true)
						opt := make([]*ieVal, len(m.DecOpt))
						v := s.withContent(b, o)
						if o {
							opt[i-nMan] = &v
						} else {
							man[i] = v
						}
						for k := d.HeaderLen; k < nMan; k++ {
							if m.DecMan[k].Store == "octet" && m.DecMan[k].LenSize == 0 {
								man[k].data = []byte{byte(nib) | byte(g.Intn(16))<<4}
							}
						}
						wire := renderMsg(m, man, opt)
						fmt.Fprintf(w, "dec plain %s\n", hexs(wire))
						fmt.Fprintf(w, "dec %s %s\n", d.Family, hexs(wire))
					}
				}
			}
		}
	}
	// the receiving Message already carries the outer security header (types 1..4): every input of up to two octets behind both
	// discriminators, and the small messages
	for sht := 0; sht <= 4; sht++ {
		fmt.Fprintf(w, "decsh %d -\n", sht)
		for _, e := range []int{0x7e, 0x2e, 0x00} {
			fmt.Fprintf(w, "decsh %d %02x\n", sht, e)
			for x := 0; x < 256; x += 5 {
				fmt.Fprintf(w, "decsh %d %02x%02x\n", sht, e, x)
				fmt.Fprintf(w, "decsh %d %02x%02x%02x\n", sht, e, x, g.Intn(256))
			}
		}
		for k, b := range bases {
			if k%3 == sht%3 {
				fmt.Fprintf(w, "decsh %d %s\n", sht, hexs(b))
			}
		}
	}
	// a message behind a length prefix (NAS over TCP framing, TS 24.502 9.4) or behind another message's header: the entry points
	// take exactly the octets they are given
	for _, b := range bases {
		fmt.Fprintf(w, "dec plain %04x%s\n", len(b), hexs(b))
		fmt.Fprintf(w, "dec plain %02x%s\n", len(b)&0xff, hexs(b))
		fmt.Fprintf(w, "dec plain %04x%s\n", len(b)+2, hexs(b))
	}
	// a message nested in its own container element, to depths of 2, 8, 64 and as deep as 60 000 octets allow: work and
	// allocation stay linear however deep the nesting is
	for di := range t.Dispatch {
		d := &t.Dispatch[di]
		for _, c := range d.Decode {
			m := t.msg(c.Msg)
			if m == nil {
				continue
			}
			nMan := len(m.DecMan)
			for i := 0; i < nMan+len(m.DecOpt); i++ {
				var s *fSlot
				o := i >= nMan
				if o {
					s = &m.DecOpt[i-nMan]
				} else {
					s = &m.DecMan[i]
				}
				_, hi := s.bounds()
				if !lengthed(s) || s.LenSize != 2 || hi < 60000 {
					continue
				}
				inner := []byte{}
				for depth := 1; ; depth++ {
					man := mandatoryL(g, m, c.Const, d.TypeIndex, epdOf(d.Family), true)
					for k := d.HeaderLen; k < nMan; k++ {
						if lengthed(&m.DecMan[k]) && k != i {
							lo, _ := m.DecMan[k].bounds()
							man[k] = m.DecMan[k].withContent(make([]byte, lo), false)
						}
					}
					// a plain header in front: security header type 0
					if len(man) > 1 && len(man[1].data) == 1 {
						man[1].data = []byte{0}
					}
					opt := make([]*ieVal, len(m.DecOpt))
					v := s.withContent(inner, o)
					if o {
						opt[i-nMan] = &v
					} else {
						man[i] = v
					}
					wire := renderMsg(m, man, opt)
					if len(wire) > 60000 {
						break
					}
					if depth == 2 || depth == 8 || depth == 64 || depth%1500 == 0 {
						fmt.Fprintf(w, "dec plain %s\n", hexs(wire))
					}
					inner = wire
				}
				if len(inner) > 0 {
					fmt.Fprintf(w, "dec plain %s\n", hexs(inner))
				}
			}
		}
	}
	for i := range bases {
		for j := range bases {
			if (i+j)%7 == 0 {
				fmt.Fprintf(w, "dec2 plain %s %s\n", hexs(bases[i]), hexs(bases[j]))
			}
		}
	}
}

// focus families of the encode stream: enc (fields) + canon + dec of the table-rendered wire form
func genCodecEncFocus(g *Gen, w *bufio.Writer, t *fTables) {
	bases := allBases(g, t)
	for _, ft := range focusTargets(g, t) {
		ft := ft
		focusFamilies(g, t, ft, bases, func(man []ieVal, opt []*ieVal) {
			wire := renderMsg(ft.m, man, opt)
			fmt.Fprintf(w, "enc %s hdr=%s %s %s\n", ft.fam, hexs(wire[:ft.d.HeaderLen]), ft.m.Name, fieldsStr(man, opt))
			if staleVals(ft.m, man, opt) {
				return // a stale stored length: the rendering is not a canonical encoding of anything
			}
			fmt.Fprintf(w, "canon %s\n", hexs(wire))
			fmt.Fprintf(w, "dec plain %s\n", hexs(wire))
		})
	}
}

func staleVals(m *fMsg, man []ieVal, opt []*ieVal) bool {
	for i := range man {
		if m.DecMan[i].Store == "buf" && m.DecMan[i].LenSize > 0 && man[i].ln != len(man[i].data) {
			return true
		}
	}
	for j := range opt {
		if opt[j] != nil && m.DecOpt[j].Store == "buf" && m.DecOpt[j].LenSize > 0 && opt[j].ln != len(opt[j].data) {
			return true
		}
	}
	return false
}
