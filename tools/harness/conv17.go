package main

import (
	"bufio"
	"fmt"
	"strconv"
	"strings"
	"sync"
	"time"
	_ "time/tzdata"

	"github.com/free5gc/nas/nasConvert"
	"github.com/free5gc/nas/nasType"
	"github.com/free5gc/openapi/models"
)

func init() {
	ops["t2"] = func(a []string) string {
		v, err := strconv.Atoi(a[0])
		if err != nil || v < 0 {
			return "bad-op"
		}
		return fmt.Sprint("ok ", nasConvert.GPRSTimer2ToNas(v))
	}
	ops["t3"] = func(a []string) string {
		v, err := strconv.Atoi(a[0])
		if err != nil || v < 0 {
			return "bad-op"
		}
		return fmt.Sprint("ok ", nasConvert.GPRSTimer3ToNas(v))
	}
	ops["ambr"] = func(a []string) string {
		if len(a) != 2 {
			return "bad-op"
		}
		r := nasConvert.ModelsToSessionAMBR(&models.Ambr{Uplink: unesc(a[0]), Downlink: unesc(a[1])})
		return "ok " + hexs(r.Octet[:])
	}
	ops["tzenc"] = func(a []string) string {
		r := nasConvert.EncodeLocalTimeZoneToNas(unesc(a[0]))
		return fmt.Sprint("ok ", r.GetTimeZone())
	}
	ops["tzdec"] = func(a []string) string {
		v, err := strconv.ParseUint(a[0], 10, 8)
		if err != nil {
			return "bad-op"
		}
		var z nasType.LocalTimeZone
		z.SetTimeZone(uint8(v))
		return "ok " + nasConvert.DecodeLocalTimeZone(z)
	}
	ops["dstenc"] = func(a []string) string {
		r := nasConvert.EncodeDaylightSavingTimeToNas(unesc(a[0]))
		return fmt.Sprint("ok ", r.Getvalue())
	}
	ops["dstdec"] = func(a []string) string {
		v, err := strconv.ParseUint(a[0], 10, 8)
		if err != nil {
			return "bad-op"
		}
		var d nasType.NetworkDaylightSavingTime
		d.SetLen(1)
		d.Setvalue(uint8(v))
		s := nasConvert.DecodeDaylightSavingTime(d)
		if s == "" {
			s = "-"
		}
		return "ok " + s
	}
	ops["utc"] = opUtc
	ops["nname"] = func(a []string) string {
		if len(a) != 2 {
			return "bad-op"
		}
		b, ok := unhex(a[1])
		if !ok {
			return "bad-op"
		}
		if a[0] == "full" {
			r := nasConvert.FullNetworkNameToNas(string(b))
			return fmt.Sprintf("ok %d %s", r.GetLen(), hexs(r.Buffer))
		}
		r := nasConvert.ShortNetworkNameToNas(string(b))
		return fmt.Sprintf("ok %d %s", r.GetLen(), hexs(r.Buffer))
	}
	oracles["C17"] = oracleC17
	gens["conv17"] = genConv17
}

func unesc(s string) string {
	if s == "-" {
		return ""
	}
	return strings.ReplaceAll(s, "~", " ")
}

func parseUtc(a []string) (y, mo, d, h, mi, s, off int, ok bool) {
	if len(a) != 7 && len(a) != 8 {
		return
	}
	v := make([]int, 7)
	for i := range a[:7] {
		x, err := strconv.Atoi(a[i])
		if err != nil {
			return
		}
		v[i] = x
	}
	return v[0], v[1], v[2], v[3], v[4], v[5], v[6], true
}

// utc Y M D h m s offsetSeconds -> the seven octets
func opUtc(a []string) string {
	y, mo, d, h, mi, s, off, ok := parseUtc(a)
	if !ok {
		return "bad-op"
	}
	loc := time.FixedZone("x", off)
	if len(a) == 8 {
		// a named zone: one location object per name for the whole process, as an application holding `time.Local` or the
		// result of one LoadLocation call would pass it
		loc = sharedLoc(a[7])
		if loc == nil {
			return "bad-op"
		}
	}
	t := time.Date(y, time.Month(mo), d, h, mi, s, 0, loc)
	if _, o := t.Zone(); o != off {
		return "bad-op"
	}
	r := nasConvert.EncodeUniversalTimeAndLocalTimeZoneToNas(t)
	return "ok " + hexs(r.Octet[:])
}

var (
	locMu  sync.Mutex
	locMap = map[string]*time.Location{}
)

func sharedLoc(name string) *time.Location {
	locMu.Lock()
	defer locMu.Unlock()
	if l, ok := locMap[name]; ok {
		return l
	}
	l, err := time.LoadLocation(name)
	if err != nil {
		l = nil
	}
	locMap[name] = l
	return l
}

// ---- independent spec decoders ----

func specTimer2(o uint8) int {
	v := int(o & 31)
	switch o >> 5 {
	case 0:
		return 2 * v
	case 1:
		return 60 * v
	case 2:
		return 360 * v
	case 7:
		return 0
	}
	return 60 * v
}

func specTimer3(o uint8) int {
	v := int(o & 31)
	switch o >> 5 {
	case 0:
		return 600 * v
	case 1:
		return 3600 * v
	case 2:
		return 36000 * v
	case 3:
		return 2 * v
	case 4:
		return 30 * v
	case 5:
		return 60 * v
	case 6:
		return 1152000 * v
	}
	return 0
}

// TS 24.008 10.5.3.8 / TS 23.040 9.2.3.11: semi-octet BCD quarters, bit 3 of the first semi-octet is the sign
func specZoneQuarters(o uint8) int {
	q := int(o>>4) + int(o&0x07)*10
	if o&0x08 != 0 {
		return -q
	}
	return q
}

func unpack7(buf []byte, n int) []byte {
	out := make([]byte, n)
	for i := 0; i < n; i++ {
		var c byte
		for b := 0; b < 7; b++ {
			pos := 7*i + b
			if pos/8 < len(buf) && buf[pos/8]>>uint(pos%8)&1 == 1 {
				c |= 1 << uint(b)
			}
		}
		out[i] = c
	}
	return out
}

func oracleC17(op string, a []string) string {
	switch op {
	case "t2", "t3":
		v, err := strconv.Atoi(a[0])
		if err != nil || v < 0 {
			return skip
		}
		var got, max int
		var units []int
		if op == "t2" {
			got, max, units = specTimer2(nasConvert.GPRSTimer2ToNas(v)), 11160, []int{2, 60, 360}
		} else {
			got, max, units = specTimer3(nasConvert.GPRSTimer3ToNas(v)), 1116000, []int{2, 30, 60, 600, 3600, 36000}
		}
		if v > max {
			return skip
		}
		if got > v {
			return fmt.Sprintf("FAIL %d s encoded to a timer that decodes to %d s (more than requested)", v, got)
		}
		for _, u := range units {
			if v%u == 0 && v/u <= 31 && got != v {
				return fmt.Sprintf("FAIL representable duration %d s (= %d x %d s) decodes to %d s", v, v/u, u, got)
			}
		}
		return "pass"
	case "ambr":
		codes := map[string]byte{"Kbps": 1, "Mbps": 6, "Gbps": 0x0b, "Tbps": 0x10, "Pbps": 0x15}
		var want []byte
		for _, side := range []string{unesc(a[1]), unesc(a[0])} { // downlink first in the IE
			f := strings.Split(side, " ")
			if len(f) != 2 {
				return skip
			}
			n, err := strconv.ParseUint(f[0], 10, 64)
			c, okc := codes[f[1]]
			if err != nil || n > 65535 || !okc || strings.HasPrefix(f[0], "+") {
				return skip
			}
			want = append(want, c, byte(n>>8), byte(n))
		}
		r := nasConvert.ModelsToSessionAMBR(&models.Ambr{Uplink: unesc(a[0]), Downlink: unesc(a[1])})
		if hexs(r.Octet[:]) != hexs(want) {
			return fmt.Sprintf("FAIL encoded %s, expected %s", hexs(r.Octet[:]), hexs(want))
		}
		return "pass"
	case "tzenc":
		s := unesc(a[0])
		// domain: ±HH:MM with MM on the quarter-hour grid, optional +1/+2
		if len(s) < 6 || (s[0] != '+' && s[0] != '-') || s[3] != ':' {
			return skip
		}
		hh, e1 := strconv.Atoi(s[1:3])
		mm, e2 := strconv.Atoi(s[4:6])
		if e1 != nil || e2 != nil || mm%15 != 0 || mm > 45 || hh > 19 {
			return skip
		}
		dst := 0
		switch s[6:] {
		case "":
		case "+1":
			dst = 1
		case "+2":
			dst = 2
		default:
			return skip
		}
		q := hh*4 + mm/15
		if s[0] == '-' {
			q = -q
		}
		q += 4 * dst
		if q > 79 || q < -79 {
			return skip
		}
		enc := nasConvert.EncodeLocalTimeZoneToNas(s)
		o := enc.GetTimeZone()
		if got := specZoneQuarters(o); got != q {
			return fmt.Sprintf("FAIL %q encoded to %#02x = %d quarters, expected %d", s, o, got, q)
		}
		d := nasConvert.EncodeDaylightSavingTimeToNas(s)
		if want := []string{"", "+1", "+2"}[dst]; nasConvert.DecodeDaylightSavingTime(d) != want {
			return "FAIL daylight saving adjustment does not round-trip"
		}
		return "pass"
	case "utc":
		y, mo, d, h, mi, s, off, ok := parseUtc(a)
		if !ok || y < 2000 || y > 2099 || off%900 != 0 || off > 79*900 || off < -79*900 {
			return skip
		}
		loc := time.FixedZone("x", off)
		if len(a) == 8 {
			if loc = sharedLoc(a[7]); loc == nil {
				return skip
			}
		}
		t := time.Date(y, time.Month(mo), d, h, mi, s, 0, loc)
		if _, o := t.Zone(); o != off {
			return skip
		}
		if t.Year() != y { // normalised out of the century
			return skip
		}
		back := nasConvert.DecodeUniversalTimeAndLocalTimeZone(nasConvert.EncodeUniversalTimeAndLocalTimeZoneToNas(t))
		_, boff := back.Zone()
		if !back.Equal(t) || boff != off {
			return fmt.Sprintf("FAIL %v decodes to %v", t, back)
		}
		return "pass"
	case "nname":
		b, ok := unhex(a[1])
		if !ok {
			return skip
		}
		for _, c := range b {
			if c >= 128 {
				return skip
			}
		}
		var buf []byte
		var ln uint8
		if a[0] == "full" {
			r := nasConvert.FullNetworkNameToNas(string(b))
			buf, ln = r.Buffer, r.GetLen()
		} else {
			r := nasConvert.ShortNetworkNameToNas(string(b))
			buf, ln = r.Buffer, r.GetLen()
		}
		if len(buf) == 0 || int(ln) != len(buf) {
			return "FAIL length octet does not match the contents"
		}
		n := len(b)
		if len(buf)-1 != (7*n+7)/8 {
			return fmt.Sprintf("FAIL %d characters packed into %d octets, expected %d", n, len(buf)-1, (7*n+7)/8)
		}
		if spare := int(buf[0] & 7); spare != (8-7*n%8)%8 {
			return fmt.Sprintf("FAIL spare bit count %d, expected %d", spare, (8-7*n%8)%8)
		}
		if buf[0]&0x80 == 0 || buf[0]&0x70 != 0 {
			return "FAIL header octet is not ext=1, coding scheme 0"
		}
		if got := unpack7(buf[1:], n); string(got) != string(b) {
			return fmt.Sprintf("FAIL unpacks to %q", got)
		}
		return "pass"
	}
	return skip
}

func genConv17(g *Gen, w *bufio.Writer) {
	// timers: full ranges are cheap on both sides
	step2, step3 := 1, 7
	if g.Tier == "thorough" {
		step3 = 1
	}
	for v := 0; v <= 11200; v += step2 {
		fmt.Fprintf(w, "t2 %d\n", v)
	}
	for v := 0; v <= 1116100; v += step3 {
		fmt.Fprintf(w, "t3 %d\n", v)
	}
	for _, u := range []int{2, 30, 60, 600, 3600, 36000} {
		for k := 0; k <= 32; k++ {
			fmt.Fprintf(w, "t3 %d\nt3 %d\nt3 %d\n", u*k, u*k+1, u*k-1+1)
		}
	}
	// AMBR: boundary values x units x directions + random
	units := []string{"Kbps", "Mbps", "Gbps", "Tbps", "Pbps", "bps", "kbps", ""}
	vals := []int{0, 1, 255, 256, 32767, 32768, 40000, 65534, 65535, 65536, 100000}
	for _, v := range vals {
		for _, u := range units[:5] {
			fmt.Fprintf(w, "ambr %d~%s %d~%s\n", v, u, g.Intn(65536), units[g.Intn(5)])
			fmt.Fprintf(w, "ambr %d~%s %d~%s\n", g.Intn(65536), units[g.Intn(5)], v, u)
		}
	}
	nv := 3000
	if g.Tier == "thorough" {
		nv = 65536
	}
	for i := 0; i < nv; i++ {
		v := i
		if g.Tier != "thorough" {
			v = g.Intn(65536)
		}
		fmt.Fprintf(w, "ambr %d~%s %d~%s\n", v, units[g.Intn(5)], g.Intn(65536), units[g.Intn(5)])
	}
	fmt.Fprintln(w, "ambr 10~bps 10~xbps")
	fmt.Fprintln(w, "ambr abc~Mbps -5~Mbps")
	fmt.Fprintln(w, "ambr 10Mbps 10~Mbps")
	fmt.Fprintln(w, "ambr 007~Mbps 1~Gbps~x")
	// time zones: the whole grid x DST
	for _, sign := range []string{"+", "-"} {
		for h := 0; h < 20; h++ {
			for _, m := range []int{0, 15, 30, 45} {
				for _, d := range []string{"", "+1", "+2"} {
					fmt.Fprintf(w, "tzenc %s%02d:%02d%s\n", sign, h, m, d)
					fmt.Fprintf(w, "dstenc %s%02d:%02d%s\n", sign, h, m, d)
				}
			}
		}
	}
	fmt.Fprintln(w, "tzenc +05:20")
	fmt.Fprintln(w, "tzenc +5:00")
	fmt.Fprintln(w, "tzenc -")
	fmt.Fprintln(w, "dstenc -")
	fmt.Fprintln(w, "dstenc +")
	for v := 0; v < 256; v++ {
		fmt.Fprintf(w, "tzdec %d\ndstdec %d\n", v, v)
	}
	// universal time: month/year boundaries, leap days, random instants, all quarter-hour zones
	days := [][3]int{{2000, 1, 1}, {2000, 2, 29}, {2023, 2, 28}, {2024, 2, 29}, {2024, 12, 31}, {2099, 12, 31}, {2050, 6, 30}, {2038, 1, 19}}
	for _, d := range days {
		for _, hms := range [][3]int{{0, 0, 0}, {23, 59, 59}, {12, 30, 15}} {
			for _, off := range []int{0, 900, -900, 19800, -16200, 71100, -71100, 3600} {
				fmt.Fprintf(w, "utc %d %d %d %d %d %d %d\n", d[0], d[1], d[2], hms[0], hms[1], hms[2], off)
			}
		}
	}
	for i := 0; i < g.N; i++ {
		fmt.Fprintf(w, "utc %d %d %d %d %d %d %d\n", 2000+g.Intn(100), 1+g.Intn(12), 1+g.Intn(28), g.Intn(24), g.Intn(60), g.Intn(60), (g.Intn(159)-79)*900)
	}
	// named zones with daylight saving, winter and summer instants alternating through one shared location object per zone
	// (whatever the encoder derives from the location must follow the instant)
	for _, zn := range []string{"Europe/Paris", "America/New_York", "Australia/Sydney", "Asia/Kolkata", "America/St_Johns", "Pacific/Chatham", "Australia/Lord_Howe", "Europe/Dublin", "Africa/Casablanca"} {
		loc := sharedLoc(zn)
		if loc == nil {
			continue
		}
		for k := 0; k < 6; k++ {
			y, mo := 2001+g.Intn(98), []int{1, 7}[k%2]
			t := time.Date(y, time.Month(mo), 1+g.Intn(28), 12, g.Intn(60), g.Intn(60), 0, loc)
			_, off := t.Zone()
			fmt.Fprintf(w, "utc %d %d %d %d %d %d %d %s\n", t.Year(), int(t.Month()), t.Day(), t.Hour(), t.Minute(), t.Second(), off, zn)
		}
	}
	// network names: every length 0..64 (and a few longer), both kinds
	for n := 0; n <= 70; n++ {
		for r := 0; r < 3; r++ {
			b := make([]byte, n)
			for i := range b {
				switch r {
				case 0:
					b[i] = byte(0x20 + g.Intn(95))
				case 1:
					b[i] = 0x7f
				default:
					b[i] = byte(g.Intn(128))
				}
			}
			fmt.Fprintf(w, "nname full %s\nnname short %s\n", hexs(b), hexs(b))
		}
	}
	fmt.Fprintf(w, "nname full %s\n", hexs([]byte("free5GC")))
	fmt.Fprintf(w, "nname full %s\n", hexs([]byte{0x80, 0xff, 0x41}))
}
