package main

// `conv <fn> …` ops: the identity / slice / area-list helpers of nasConvert and the MobileIdentity5GS / DNN text
// getters of nasType (properties C12, C13, C14). Texts and octets travel as hex.

import (
	"bufio"
	"bytes"
	"fmt"
	"strconv"
	"strings"
	"time"

	"github.com/free5gc/nas/nasConvert"
	"github.com/free5gc/nas/nasType"
	"github.com/free5gc/openapi/models"
)

// withTimeout runs f (already panic-safe) and reports `hang` if it does not return: a helper that loops forever on
// some input must not take the whole run down silently. After a hang the process cannot be trusted (the goroutine
// keeps running), so the line is flushed and the process exits; the runner sees the short stream.
func withTimeout(f func() string) string { return withTimeoutD(hangLimit, f) }

func withTimeoutD(limit time.Duration, f func() string) string {
	ch := make(chan string, 1)
	go func() { ch <- safely(f) }()
	select {
	case r := <-ch:
		return r
	case <-time.After(limit):
		hangExit = true
		return "hang"
	}
}

var hangExit bool

// helpers and parsers answer in microseconds: 5 s is an endless loop (and keeps a loop that allocates from exhausting memory)
var hangLimit = 5 * time.Second

// for every other op (a 70 kB decode, a 2^24-step counter walk are the slowest legitimate ones)
var hangLimitOuter = 60 * time.Second

func hx(s string) string { return hexs([]byte(s)) }

func parseSnssaiList(s string) ([]models.Snssai, bool) {
	var out []models.Snssai
	if s == "-" {
		return out, true
	}
	for _, e := range strings.Split(s, ",") {
		p := strings.Split(e, ":")
		if len(p) != 2 {
			return nil, false
		}
		sst, err := strconv.Atoi(p[0])
		sd, ok := unhex(p[1])
		if err != nil || !ok {
			return nil, false
		}
		out = append(out, models.Snssai{Sst: int32(sst), Sd: string(sd)})
	}
	return out, true
}

func parseTaiList(s string) ([]models.Tai, bool) {
	var out []models.Tai
	if s == "-" {
		return out, true
	}
	for _, e := range strings.Split(s, ",") {
		p := strings.Split(e, ":")
		if len(p) != 3 {
			return nil, false
		}
		mcc, ok1 := unhex(p[0])
		mnc, ok2 := unhex(p[1])
		tac, ok3 := unhex(p[2])
		if !ok1 || !ok2 || !ok3 {
			return nil, false
		}
		out = append(out, models.Tai{PlmnId: &models.PlmnId{Mcc: string(mcc), Mnc: string(mnc)}, Tac: string(tac)})
	}
	return out, true
}

func showSnssai(s *models.Snssai) string {
	sd := "-"
	if s.Sd != "" {
		sd = hx(s.Sd)
	}
	return fmt.Sprintf("%d/%s", uint8(s.Sst), sd)
}

func mobileIdentity(b []byte) *nasType.MobileIdentity5GS {
	return &nasType.MobileIdentity5GS{Len: uint16(len(b)), Buffer: b}
}

// miGetter: the getter on an element holding b, called twice on the same element: a getter is a read, so the second call answers
// like the first and the element's contents are what they were (anything else is appended to the answer and fails the oracle)
func miGetter(g string, b []byte) string {
	orig := append([]byte{}, b...)
	m := mobileIdentity(append([]byte{}, b...))
	first := miGetter1(g, m)
	if first == "bad-op" {
		return first
	}
	second := miGetter1(g, m)
	if second != first {
		return first + " !second-call:" + strings.ReplaceAll(second, " ", "_")
	}
	if !bytes.Equal(m.Buffer, orig) || int(m.Len) != len(orig) {
		return first + " !contents-changed:" + hexs(m.Buffer)
	}
	return first
}

func miGetter1(g string, m *nasType.MobileIdentity5GS) string {
	switch g {
	case "type":
		s, err := m.GetTypeOfIdentity()
		if err != nil {
			return "err"
		}
		return "ok " + hx(s)
	case "mobid":
		s, t, err := m.GetMobileIdentity()
		if err != nil {
			return "err"
		}
		return "ok " + hx(s) + " " + hx(t)
	case "suci":
		return "ok " + hx(m.GetSUCI())
	case "plmn":
		return "ok " + hx(m.GetPlmnID())
	case "mcc":
		return "ok " + hx(m.GetMCC())
	case "mnc":
		return "ok " + hx(m.GetMNC())
	case "guti":
		return "ok " + hx(m.Get5GGUTI())
	case "amfid":
		return "ok " + hx(m.GetAmfID())
	case "region":
		return "ok " + hx(m.GetAmfRegionID())
	case "setid":
		return "ok " + hx(m.GetAmfSetID())
	case "ptr":
		return "ok " + hx(m.GetAmfPointer())
	case "tmsi":
		return "ok " + hx(m.Get5GTMSI())
	case "imei":
		return "ok " + hx(m.GetIMEI())
	case "imeisv":
		return "ok " + hx(m.GetIMEISV())
	case "stmsi":
		s, _, err := m.Get5GSTMSI()
		if err != nil {
			return "err"
		}
		return "ok " + hx(s)
	}
	return "bad-op"
}

var miGetters = []string{"type", "mobid", "suci", "plmn", "mcc", "mnc", "guti", "amfid", "region", "setid", "ptr", "tmsi", "imei", "imeisv", "stmsi"}

// convOp: every conversion is called twice with the very same argument slices: a conversion is a function of the octets it is
// given, so the second answer equals the first and the argument octets are what they were (anything else is appended to the
// answer, which then disagrees with the model and fails the oracles)
func convOp(a []string) string {
	if len(a) < 2 {
		return "bad-op"
	}
	cache := map[int][]byte{}
	first := convOp1(a, cache)
	if first == "bad-op" || first == "panic" {
		return first
	}
	second := convOp1(a, cache)
	if second != first {
		return first + " !second-call:" + strings.ReplaceAll(second, " ", "_")
	}
	for i, b := range cache {
		if orig, ok := unhex(a[1+i]); ok && !bytes.Equal(orig, b) {
			return first + " !argument-modified:" + hexs(b)
		}
	}
	return first
}

func convOp1(a []string, cache map[int][]byte) string {
	fn, a := a[0], a[1:]
	bytesArg := func(i int) ([]byte, bool) {
		if i >= len(a) {
			return nil, false
		}
		if b, ok := cache[i]; ok {
			return b, true
		}
		b, ok := unhex(a[i])
		if ok {
			cache[i] = b
		}
		return b, ok
	}
	switch fn {
	case "suci":
		b, ok := bytesArg(0)
		if !ok {
			return "bad-op"
		}
		s, p, err := nasConvert.SuciToStringWithError(b)
		if err != nil {
			return "err"
		}
		return "ok " + hx(s) + " " + hx(p)
	case "nai":
		b, ok := bytesArg(0)
		if !ok {
			return "bad-op"
		}
		s := nasConvert.NaiToString(b)
		if s == "" {
			return "err"
		}
		return "ok " + hx(s)
	case "guti2s":
		b, ok := bytesArg(0)
		if !ok {
			return "bad-op"
		}
		g, s, err := nasConvert.GutiToStringWithError(b)
		if err != nil {
			return "err"
		}
		return fmt.Sprintf("ok %s %s %s %s", hx(g.PlmnId.Mcc), hx(g.PlmnId.Mnc), hx(g.AmfId), hx(s))
	case "guti2n":
		b, ok := bytesArg(0)
		if !ok {
			return "bad-op"
		}
		g, err := nasConvert.GutiToNasWithError(string(b))
		if err != nil {
			return "err"
		}
		if g.Len != 11 || g.Iei != 0 {
			return fmt.Sprintf("ok %s len=%d iei=%d", hexs(g.Octet[:]), g.Len, g.Iei)
		}
		return "ok " + hexs(g.Octet[:])
	case "pei":
		b, ok := bytesArg(0)
		if !ok {
			return "bad-op"
		}
		s, err := nasConvert.PeiToStringWithError(b)
		if err != nil {
			return "err"
		}
		return "ok " + hx(s)
	case "plmn2s":
		b, ok := bytesArg(0)
		if !ok {
			return "bad-op"
		}
		return "ok " + hx(nasConvert.PlmnIDToString(b))
	case "plmn2n":
		mcc, ok1 := bytesArg(0)
		mnc, ok2 := bytesArg(1)
		if !ok1 || !ok2 {
			return "bad-op"
		}
		return "ok " + hexs(nasConvert.PlmnIDToNas(models.PlmnId{Mcc: string(mcc), Mnc: string(mnc)}))
	case "amf2n":
		b, ok := bytesArg(0)
		if !ok {
			return "bad-op"
		}
		r, s, p, err := nasConvert.AmfIdToNasWithError(string(b))
		if err != nil {
			return "err"
		}
		return fmt.Sprintf("ok %d %d %d", r, s, p)
	case "amf2m":
		if len(a) != 3 {
			return "bad-op"
		}
		r, e1 := strconv.ParseUint(a[0], 10, 8)
		s, e2 := strconv.ParseUint(a[1], 10, 16)
		p, e3 := strconv.ParseUint(a[2], 10, 8)
		if e1 != nil || e2 != nil || e3 != nil {
			return "bad-op"
		}
		return "ok " + hx(nasConvert.AmfIdToModels(uint8(r), uint16(s), uint8(p)))
	case "reqnssai":
		if len(a) != 2 {
			return "bad-op"
		}
		l, err := strconv.ParseUint(a[0], 10, 8)
		b, ok := bytesArg(1)
		if err != nil || !ok {
			return "bad-op"
		}
		ms, e := nasConvert.RequestedNssaiToModels(&nasType.RequestedNSSAI{Len: uint8(l), Buffer: b})
		if e != nil {
			return "err"
		}
		if len(ms) == 0 {
			return "ok -"
		}
		var parts []string
		for _, m := range ms {
			h := "nil"
			if m.HomeSnssai != nil {
				h = showSnssai(m.HomeSnssai)
			}
			parts = append(parts, showSnssai(m.ServingSnssai)+"|"+h)
		}
		// the result is the caller's: it overwrites what it was given (a later conversion must not notice)
		for _, m := range ms {
			if m.HomeSnssai != nil {
				m.HomeSnssai.Sst, m.HomeSnssai.Sd = 78, "yyyyyy"
			}
			if m.ServingSnssai != nil {
				m.ServingSnssai.Sst, m.ServingSnssai.Sd = 77, "zzzzzz"
			}
		}
		return "ok " + strings.Join(parts, ",")
	case "snssai2m":
		if len(a) != 2 {
			return "bad-op"
		}
		l, err := strconv.ParseUint(a[0], 10, 8)
		b, ok := bytesArg(1)
		if err != nil || !ok || len(b) != 8 {
			return "bad-op"
		}
		ie := nasType.SNSSAI{Len: uint8(l)}
		copy(ie.Octet[:], b)
		s := nasConvert.SnssaiToModels(&ie)
		return "ok " + showSnssai(&s)
	case "snssai2n":
		if len(a) != 2 {
			return "bad-op"
		}
		sst, err := strconv.Atoi(a[0])
		sd, ok := bytesArg(1)
		if err != nil || !ok {
			return "bad-op"
		}
		return "ok " + hexs(nasConvert.SnssaiToNas(models.Snssai{Sst: int32(sst), Sd: string(sd)}))
	case "rejsnssai":
		if len(a) != 3 {
			return "bad-op"
		}
		sst, err := strconv.Atoi(a[0])
		sd, ok := bytesArg(1)
		c, err2 := strconv.ParseUint(a[2], 10, 8)
		if err != nil || !ok || err2 != nil {
			return "bad-op"
		}
		return "ok " + hexs(nasConvert.RejectedSnssaiToNas(models.Snssai{Sst: int32(sst), Sd: string(sd)}, uint8(c)))
	case "rejnssai":
		if len(a) != 2 {
			return "bad-op"
		}
		l1, ok1 := parseSnssaiList(a[0])
		l2, ok2 := parseSnssaiList(a[1])
		if !ok1 || !ok2 {
			return "bad-op"
		}
		r := nasConvert.RejectedNssaiToNas(l1, l2)
		return fmt.Sprintf("ok %d %s", r.GetLen(), hexs(r.Buffer))
	case "tailist":
		l, ok := parseTaiList(a[0])
		if !ok {
			return "bad-op"
		}
		return "ok " + hexs(nasConvert.TaiListToNas(l))
	case "sarea":
		if len(a) != 4 {
			return "bad-op"
		}
		mcc, ok1 := bytesArg(0)
		mnc, ok2 := bytesArg(1)
		if !ok1 || !ok2 {
			return "bad-op"
		}
		rt := models.RestrictionType_NOT_ALLOWED_AREAS
		if a[2] == "1" {
			rt = models.RestrictionType_ALLOWED_AREAS
		}
		// the TAC strings are spread over areas of at most two TACs each (the layout does not depend on the grouping)
		var areas []models.Area
		if a[3] != "-" {
			for i, t := range strings.Split(a[3], ",") {
				tb, ok := unhex(t)
				if !ok {
					return "bad-op"
				}
				if i%2 == 0 {
					areas = append(areas, models.Area{})
				}
				areas[len(areas)-1].Tacs = append(areas[len(areas)-1].Tacs, string(tb))
			}
		}
		return "ok " + hexs(nasConvert.PartialServiceAreaListToNas(models.PlmnId{Mcc: string(mcc), Mnc: string(mnc)},
			junkRestriction(models.ServiceAreaRestriction{RestrictionType: rt, Areas: areas}, len(a[3]))))
	case "ladn2n":
		if len(a) != 2 {
			return "bad-op"
		}
		d, ok1 := bytesArg(0)
		l, ok2 := parseTaiList(a[1])
		if !ok1 || !ok2 {
			return "bad-op"
		}
		return "ok " + hexs(nasConvert.LadnToNas(string(d), l))
	case "ladn2m":
		b, ok := bytesArg(0)
		if !ok {
			return "bad-op"
		}
		ds := nasConvert.LadnToModels(b)
		if len(ds) == 0 {
			return "ok nil"
		}
		var parts []string
		for _, d := range ds {
			parts = append(parts, hx(d))
		}
		return "ok " + strings.Join(parts, ",")
	case "uesec":
		b, ok := bytesArg(0)
		if !ok {
			return "bad-op"
		}
		n1, n2, n3, n4 := nasConvert.UESecurityCapabilityToByteArray(b)
		if n1[1] != 0 || n2[1] != 0 || n3[1] != 0 || n4[1] != 0 {
			return "ok second octets not zero"
		}
		return fmt.Sprintf("ok %d %d %d %d", n1[0], n2[0], n3[0], n4[0])
	case "psi":
		b, ok := bytesArg(0)
		if !ok {
			return "bad-op"
		}
		arr := nasConvert.PSIToBooleanArray(b)
		var sb strings.Builder
		for _, x := range arr {
			if x {
				sb.WriteByte('1')
			} else {
				sb.WriteByte('0')
			}
		}
		return "ok " + sb.String()
	case "upuack":
		b, ok := bytesArg(0)
		if !ok {
			return "bad-op"
		}
		s, err := nasConvert.UpuAckToModels(b)
		if err != nil {
			return "err"
		}
		return "ok " + hx(s)
	case "dnn":
		b, ok := bytesArg(0)
		if !ok {
			return "bad-op"
		}
		d := nasType.DNN{Len: uint8(len(b)), Buffer: b}
		return "ok " + hx(d.GetDNN())
	case "mi":
		if len(a) != 2 {
			return "bad-op"
		}
		b, ok := bytesArg(1)
		if !ok {
			return "bad-op"
		}
		return miGetter(a[0], b)
	}
	return "bad-op"
}

func init() {
	ops["conv"] = func(a []string) string { return withTimeout(func() string { return convOp(a) }) }
	oracles["C14"] = oracleC14
	gens["conv14"] = genConv14
}

// ---------------------------------------------------------------- C14: no panic, no hang

// helpers of the property's list, by conv name; the others (model -> NAS encoders fed by the network function) are outside C14
var c14Fns = map[string]bool{"suci": true, "nai": true, "guti2s": true, "guti2n": true, "pei": true, "amf2n": true,
	"reqnssai": true, "snssai2m": true, "ladn2m": true, "uesec": true, "psi": true, "upuack": true, "dnn": true, "mi": true}

func oracleC14(op string, a []string) string {
	switch op {
	case "conv":
		if len(a) < 2 || !c14Fns[a[0]] {
			return skip
		}
		if a[0] == "reqnssai" {
			// the helper is fed a decoded IE: Len equals the length of Buffer (decoder output invariant, C03 decode_wf)
			l, err := strconv.Atoi(a[1])
			b, ok := unhex(a[2])
			if err != nil || !ok || l != len(b) {
				return skip
			}
		}
		r := withTimeout(func() string { return convOp(a) })
		if r == "panic" || r == "hang" || r == "bad-op" {
			return "FAIL " + r
		}
		return "pass"
	case "tzdec", "dstdec":
		r := safely(func() string { return ops[op](a) })
		if r == "panic" {
			return "FAIL panic"
		}
		return "pass"
	}
	return skip
}

func (g *Gen) digits(n int) string {
	b := make([]byte, n)
	for i := range b {
		b[i] = byte('0' + g.Intn(10))
	}
	return string(b)
}

func (g *Gen) hexText(n int) string {
	const h = "0123456789abcdefABCDEF"
	b := make([]byte, n)
	for i := range b {
		b[i] = h[g.Intn(len(h))]
	}
	return string(b)
}

// bcd packs a digit string two per octet, low nibble first, filler 0xf
func bcd(d string) []byte {
	var out []byte
	for i := 0; i < len(d); i += 2 {
		lo := d[i] - '0'
		hi := byte(0x0f)
		if i+1 < len(d) {
			hi = d[i+1] - '0'
		}
		out = append(out, hi<<4|lo)
	}
	return out
}

func plmnOctets(mcc, mnc string) []byte {
	m3 := byte(0x0f)
	if len(mnc) == 3 {
		m3 = mnc[2] - '0'
	}
	return []byte{(mcc[1]-'0')<<4 | (mcc[0] - '0'), m3<<4 | (mcc[2] - '0'), (mnc[1]-'0')<<4 | (mnc[0] - '0')}
}

func (g *Gen) plmn() (string, string) {
	return g.digits(3), g.digits(2 + g.Intn(2))
}

// validSuci builds IMSI-format SUCI contents
func (g *Gen) validSuci() []byte {
	mcc, mnc := g.plmn()
	b := []byte{0x01}
	b = append(b, plmnOctets(mcc, mnc)...)
	ri := bcd(g.digits(1 + g.Intn(4)))
	for len(ri) < 2 {
		ri = append(ri, 0xff)
	}
	b = append(b, ri...)
	scheme := byte(g.Intn(3))
	if g.Intn(6) == 0 {
		scheme = byte(g.Intn(16))
	}
	b = append(b, scheme, byte(g.Intn(256)))
	if scheme == 0 {
		b = append(b, bcd(g.digits(1+g.Intn(10)))...)
	} else {
		b = append(b, g.Bytes(1+g.Intn(40))...)
	}
	return b
}

func (g *Gen) validGutiWire() []byte {
	mcc, mnc := g.plmn()
	b := []byte{0xf2}
	b = append(b, plmnOctets(mcc, mnc)...)
	b = append(b, g.Bytes(7)...)
	return b
}

func (g *Gen) validGutiText() string {
	mcc, mnc := g.plmn()
	return mcc + mnc + g.hexText(6) + g.hexText(8)
}

func (g *Gen) validPei() []byte {
	n := 15
	typ := byte(3)
	if g.Bool() {
		n, typ = 16, 5
	}
	d := g.digits(n)
	first := (d[0]-'0')<<4 | typ
	if n%2 == 1 {
		first |= 0x08
	}
	b := []byte{first}
	b = append(b, bcd(d[1:])...)
	return b
}

func (g *Gen) validStmsi() []byte {
	b := []byte{0xf4}
	return append(b, g.Bytes(6)...)
}

func (g *Gen) mutate(b []byte) []byte {
	c := append([]byte{}, b...)
	switch g.Intn(5) {
	case 0:
		if len(c) > 0 {
			c = c[:g.Intn(len(c))]
		}
	case 1:
		if len(c) > 0 {
			c[g.Intn(len(c))] = byte(g.U64())
		}
	case 2:
		c = append(c, g.Bytes(1+g.Intn(4))...)
	case 3:
		if len(c) > 0 {
			c[g.Intn(len(c))] |= 0xf0
		}
	case 4:
		if len(c) > 0 {
			c[g.Intn(len(c))] |= 0x0f
		}
	}
	return c
}

func (g *Gen) validNssai() []byte {
	var b []byte
	n := 1 + g.Intn(8)
	if g.Intn(5) == 0 {
		// more than eight values in no more than 72 octets: the short forms only
		for k := 9 + g.Intn(28); k > 0 && len(b) < 70; k-- {
			l := []int{1, 1, 2}[g.Intn(3)]
			b = append(b, byte(l))
			b = append(b, g.Bytes(l)...)
		}
		return b
	}
	// half of the lists draw their octets from a pool of two values, so that entries repeat or differ in one component only
	// (the same SST / SD with and without a mapped part, in either order)
	pool := g.Intn(2) == 0
	for i := 0; i < n; i++ {
		l := []int{1, 2, 4, 5, 8}[g.Intn(5)]
		b = append(b, byte(l))
		c := g.Bytes(l)
		if pool {
			for k := range c {
				c[k] = []byte{1, 2}[g.Intn(2)]
			}
		}
		b = append(b, c...)
	}
	return b
}

func (g *Gen) validLadn() []byte {
	var b []byte
	n := g.Intn(5)
	for i := 0; i < n; i++ {
		l := g.Intn(12)
		if g.Intn(6) == 0 {
			l = 0
		}
		b = append(b, byte(l))
		b = append(b, g.Bytes(l)...)
	}
	return b
}

func (g *Gen) validDnn() []byte {
	var b []byte
	n := 1 + g.Intn(4)
	for i := 0; i < n; i++ {
		l := g.Intn(10)
		b = append(b, byte(l))
		for j := 0; j < l; j++ {
			b = append(b, byte('a'+g.Intn(26)))
		}
	}
	return b
}

var rawFns = []string{"suci", "nai", "guti2s", "pei", "ladn2m", "uesec", "psi", "upuack", "dnn"}

func emitRaw(w *bufio.Writer, b []byte) {
	for _, f := range rawFns {
		fmt.Fprintf(w, "conv %s %s\n", f, hexs(b))
	}
	if len(b) < 256 {
		fmt.Fprintf(w, "conv reqnssai %d %s\n", len(b), hexs(b))
	}
	for _, m := range miGetters {
		fmt.Fprintf(w, "conv mi %s %s\n", m, hexs(b))
	}
}

func genConv14(g *Gen, w *bufio.Writer) {
	thorough := g.Tier == "thorough"
	// exhaustive short contents for every raw helper
	emitRaw(w, nil)
	for x := 0; x < 256; x++ {
		emitRaw(w, []byte{byte(x)})
	}
	for x := 0; x < 256; x++ {
		for y := 0; y < 256; y++ {
			if thorough || (y < 10 || y%37 == 0 || y == 255 || g.Intn(24) == 0) && (x < 16 || x%16 < 6 || g.Intn(4) == 0) {
				emitRaw(w, []byte{byte(x), byte(y)})
			}
		}
	}
	n3 := 2000
	if thorough {
		n3 = 120000
	}
	for i := 0; i < n3; i++ {
		emitRaw(w, g.Bytes(3))
	}
	// every identity type x every length 0..20 x a few fillings
	for typ := 0; typ < 8; typ++ {
		for fmtNib := 0; fmtNib < 3; fmtNib++ {
			for l := 1; l <= 20; l++ {
				for k := 0; k < 3; k++ {
					b := g.Bytes(l)
					if k == 1 {
						for i := range b {
							b[i] = 0xff
						}
					}
					if k == 2 {
						for i := range b {
							b[i] = 0
						}
					}
					b[0] = byte(fmtNib)<<4 | byte(typ) | b[0]&0x88
					if l > 6 && k == 0 {
						b[6] = byte(g.Intn(2)) // null / non-null protection scheme
					}
					emitRaw(w, b)
				}
			}
		}
	}
	// structured valid values, their truncations at every length, and mutations
	for i := 0; i < g.N; i++ {
		var b []byte
		switch i % 8 {
		case 0:
			b = g.validSuci()
		case 1:
			b = g.validGutiWire()
		case 2:
			b = g.validPei()
		case 3:
			b = g.validStmsi()
		case 4:
			b = g.validNssai()
		case 5:
			b = g.validLadn()
		case 6:
			b = g.validDnn()
		case 7:
			b = append([]byte{0x01}, g.Bytes(16)...) // UPU ack
		}
		emitRaw(w, b)
		if i < g.N/4 {
			for l := 0; l < len(b); l++ {
				emitRaw(w, b[:l])
			}
		}
		for k := 0; k < 3; k++ {
			emitRaw(w, g.mutate(b))
		}
	}
	// identities: a valid header (type octet / PLMN / routing indicator / scheme / key id) followed by every short tail over an
	// alphabet of digit-pair extremes (00, ff = two fillers, f0/0f = one filler, f1/1f) and by uniform fillings of longer tails:
	// the BCD / filler handling is where these helpers branch
	alphabet := []byte{0x00, 0xff, 0xf0, 0x0f, 0xf1, 0x1f}
	var tails [][]byte
	tails = append(tails, nil)
	for _, a := range alphabet {
		tails = append(tails, []byte{a})
		for _, b := range alphabet {
			tails = append(tails, []byte{a, b})
			for _, c := range alphabet {
				tails = append(tails, []byte{a, b, c})
			}
		}
		for l := 4; l <= 9; l++ {
			tails = append(tails, bytes.Repeat([]byte{a}, l))
		}
	}
	for kind := 0; kind < 4; kind++ {
		var v []byte
		switch kind {
		case 0:
			v = g.validSuci()
		case 1:
			v = g.validGutiWire()
		case 2:
			v = g.validPei()
		case 3:
			v = g.validStmsi()
		}
		for _, h := range []int{1, 4, 7, 8} {
			if h > len(v) {
				continue
			}
			for _, sch := range []int{-1, 0, 1} {
				hd := append([]byte{}, v[:h]...)
				if sch >= 0 {
					if kind != 0 || h < 7 {
						continue
					}
					hd[6] = byte(sch) // SUCI protection scheme: null / profile A
				}
				for _, t := range tails {
					emitRaw(w, append(append([]byte{}, hd...), t...))
				}
			}
		}
	}
	// NSSAI: every length octet value at the head and after one valid entry; declared Len different from the contents
	for l := 0; l < 256; l++ {
		for _, tail := range []int{0, 1, 2, 4, 5, 8, 9, 254, 255} {
			if tail+1 > 255 {
				continue
			}
			b := append([]byte{byte(l)}, g.Bytes(tail)...)
			fmt.Fprintf(w, "conv reqnssai %d %s\n", len(b), hexs(b))
			b2 := append([]byte{1, 7}, b...)
			if len(b2) < 256 {
				fmt.Fprintf(w, "conv reqnssai %d %s\n", len(b2), hexs(b2))
			}
		}
	}
	for i := 0; i < 200; i++ {
		b := g.validNssai()
		fmt.Fprintf(w, "conv reqnssai %d %s\n", g.Intn(len(b)+1), hexs(b)) // Len shorter than Buffer (correspondence only)
	}
	// S-NSSAI IE values
	for l := 0; l < 12; l++ {
		fmt.Fprintf(w, "conv snssai2m %d %s\n", l, hexs(g.Bytes(8)))
	}
	// LADN / DNN: length octets beyond the contents, zero lengths
	for l := 0; l < 256; l++ {
		for _, tail := range []int{0, 1, 3, 255} {
			b := append([]byte{byte(l)}, g.Bytes(tail)...)
			fmt.Fprintf(w, "conv ladn2m %s\n", hexs(b))
			fmt.Fprintf(w, "conv dnn %s\n", hexs(b))
			fmt.Fprintf(w, "conv ladn2m %s\n", hexs(append([]byte{0, 0, 2, 'a', 'b'}, b...)))
			fmt.Fprintf(w, "conv dnn %s\n", hexs(append([]byte{0, 0, 2, 'a', 'b'}, b...)))
		}
	}
	// text variants: every string length around the accepted ones, digits / hex / other bytes at every position
	for l := 0; l <= 24; l++ {
		fmt.Fprintf(w, "conv guti2n %s\n", hx(g.digits(l)))
		fmt.Fprintf(w, "conv guti2n %s\n", hx(g.hexText(l)))
		fmt.Fprintf(w, "conv guti2n %s\n", hexs(g.Bytes(l)))
		fmt.Fprintf(w, "conv amf2n %s\n", hx(g.hexText(l)))
		fmt.Fprintf(w, "conv amf2n %s\n", hexs(g.Bytes(l)))
	}
	bad := []byte{'g', 'G', ' ', '-', '+', 0x00, 0x80, 0xff, '/', ':', '@', '`'}
	for i := 0; i < g.N; i++ {
		t := []byte(g.validGutiText())
		fmt.Fprintf(w, "conv guti2n %s\n", hexs(t))
		for pos := 0; pos < len(t); pos++ {
			if i < 4 || g.Intn(8) == 0 {
				c := append([]byte{}, t...)
				c[pos] = bad[g.Intn(len(bad))]
				fmt.Fprintf(w, "conv guti2n %s\n", hexs(c))
			}
		}
		fmt.Fprintf(w, "conv guti2n %s\n", hexs(g.mutate(t)))
		a := []byte(g.hexText(6))
		fmt.Fprintf(w, "conv amf2n %s\n", hexs(a))
		fmt.Fprintf(w, "conv amf2n %s\n", hexs(g.mutate(a)))
	}
	// time-zone / DST decoders: every octet value
	for v := 0; v < 256; v++ {
		fmt.Fprintf(w, "tzdec %d\n", v)
		fmt.Fprintf(w, "dstdec %d\n", v)
	}
}

// staleResult: a byte slice returned by the library belongs to the caller. f and other are two calls returning slices;
// the result of f must survive a later call (same or different arguments) and a caller writing into another result.
func staleResult(f, other func() []byte) string {
	r1 := f()
	keep := append([]byte{}, r1...)
	r2 := other()
	if !bytes.Equal(r1, keep) {
		return "an earlier result changed when the function was called again (results share memory)"
	}
	full := r2[:cap(r2)]
	for i := range full {
		full[i] ^= 0xff
	}
	if !bytes.Equal(r1, keep) {
		return "writing into one result changed another (results share memory)"
	}
	r3 := f()
	if !bytes.Equal(r3, keep) {
		return "the result changed after the caller wrote into an earlier result"
	}
	return ""
}

// junkRestriction fills the attributes of a provisioned service area restriction that the NAS coding does not carry (maximum
// numbers of tracking areas, area codes): what the network function hands over is the whole subscription object, and the list
// on the wire is the list of TACs whatever those attributes say
func junkRestriction(r models.ServiceAreaRestriction, salt int) models.ServiceAreaRestriction {
	r.MaxNumOfTAs = int32(1 + salt%3)
	r.MaxNumOfTAsForNotAllowedAreas = int32(1 + salt%2)
	for i := range r.Areas {
		r.Areas[i].AreaCode = "area-" + strconv.Itoa(salt+i)
	}
	return r
}
