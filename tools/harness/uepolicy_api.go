package main

// C18, "messages and nested lists built through the API": ops `upc apil|apir|apim` build their value with nothing but the exported
// constructors / setters / appenders of the uePolicyContainer package and read every result back through the getters
// (model: lean/NasVerif/Model/UePolicyApi.lean). The package ships no tests of its own, so these functions are otherwise unexercised.

import (
	"bufio"
	"fmt"
	"strconv"
	"strings"

	upc "github.com/free5gc/nas/uePolicyContainer"
)

// ---- read back through the getters

func showPartsG(l upc.UEPolicySectionContents) string {
	var ps []string
	for i := range l {
		p := &l[i]
		ps = append(ps, fmt.Sprintf("%d.%d.%s", p.GetLen(), p.UEPolicyPartType.GetPartType(), hexs(p.GetPartContent())))
	}
	return joinL(ps, ",")
}

func showInstrsG(l upc.UEPolicySectionManagementSubListContents) string {
	var is []string
	for k := range l {
		i := &l[k]
		is = append(is, fmt.Sprintf("%d/%d/%s", i.GetLen(), i.GetUpsc(), showPartsG(i.UEPolicySectionContents)))
	}
	return joinL(is, "+")
}

func showSubListsG(l upc.UEPolicySectionManagementListContent) string {
	var ss []string
	for k := range l {
		s := &l[k]
		mcc, mnc := s.GetPlmnDigit()
		ss = append(ss, fmt.Sprintf("%d:%02x%02x%02x:%d:%d:%s", s.GetLen(), s.PlmnDigit1, s.PlmnDigit2, s.PlmnDigit3, mcc, mnc,
			showInstrsG(s.UEPolicySectionManagementSubListContents)))
	}
	return joinL(ss, "|")
}

func showSubResultsG(l upc.UEPolicySectionManagementResultContent) string {
	var ss []string
	for k := range l {
		s := &l[k]
		var rs []string
		for j := range s.UEPolicySectionManagementSubResultContents {
			r := &s.UEPolicySectionManagementSubResultContents[j]
			rs = append(rs, fmt.Sprintf("%d.%d.%d", r.GetUpsc(), r.FailInstructionOrder, r.Cause))
		}
		mcc, mnc := s.GetPlmnDigit()
		ss = append(ss, fmt.Sprintf("%d:%02x%02x%02x:%d:%d:%s", s.GetLen(), s.PlmnDigit1, s.PlmnDigit2, s.PlmnDigit3, mcc, mnc, joinL(rs, ",")))
	}
	return joinL(ss, "|")
}

func showMsgG(u *upc.UePolDeliverySer) string {
	switch {
	case u.ManageUEPolicyCommand != nil:
		m := u.ManageUEPolicyCommand
		cm := "-"
		if m.UEPolicyNetworkClassmark != nil {
			c := m.UEPolicyNetworkClassmark
			cm = fmt.Sprintf("%d.%d.%d.%d", c.GetIei(), c.GetLen(), c.GetNSSUI(), c.GetSpare())
		}
		return fmt.Sprintf("cmd:%d:%d:%d:%d:%s:%s", m.PTI.GetPTI(), m.UePolicyDeliveryServiceMsgType.GetMessageIdentity(0),
			m.UEPolicySectionManagementList.GetIei(), m.UEPolicySectionManagementList.GetLen(),
			hexs(m.UEPolicySectionManagementList.GetUEPolicySectionManagementListContent()), cm)
	case u.ManageUEPolicyComplete != nil:
		m := u.ManageUEPolicyComplete
		return fmt.Sprintf("cpl:%d:%d", m.PTI.GetPTI(), m.UePolicyDeliveryServiceMsgType.GetMessageIdentity(0))
	case u.ManageUEPolicyReject != nil:
		m := u.ManageUEPolicyReject
		return fmt.Sprintf("rej:%d:%d:%d:%d:%s", m.PTI.GetPTI(), m.UePolicyDeliveryServiceMsgType.GetMessageIdentity(0),
			m.UEPolicySectionManagementResult.GetIei(), m.UEPolicySectionManagementResult.GetLen(),
			hexs(m.UEPolicySectionManagementResult.GetUEPolicySectionManagementResultContent()))
	}
	return "other"
}

// ---- construction scripts

// buildListAPI: sublists `len:mcc:mnc:instrs|…`, instrs `len/upsc/parts+…`, parts `len.bycontent.typ.hex,…`
func buildListAPI(s string) (upc.UEPolicySectionManagementListContent, string) {
	var out upc.UEPolicySectionManagementListContent
	for _, e := range splitL(s, "|") {
		f := strings.Split(e, ":")
		if len(f) != 4 {
			return nil, "bad-op"
		}
		l, ok1 := atoiU(f[0], 16)
		mcc, e2 := strconv.Atoi(f[1])
		mnc, e3 := strconv.Atoi(f[2])
		if !ok1 || e2 != nil || e3 != nil {
			return nil, "bad-op"
		}
		var sl upc.UEPolicySectionManagementSubList
		sl.SetLen(uint16(l))
		if err := sl.SetPlmnDigit(mcc, mnc); err != nil {
			return nil, "err"
		}
		for _, is := range splitL(f[3], "+") {
			g := strings.Split(is, "/")
			if len(g) != 3 {
				return nil, "bad-op"
			}
			il, ok1 := atoiU(g[0], 16)
			iu, ok2 := atoiU(g[1], 16)
			if !ok1 || !ok2 {
				return nil, "bad-op"
			}
			var ins upc.Instruction
			ins.SetLen(uint16(il))
			ins.SetUpsc(uint16(iu))
			for _, ps := range splitL(g[2], ",") {
				h := strings.Split(ps, ".")
				if len(h) != 4 {
					return nil, "bad-op"
				}
				pl, ok1 := atoiU(h[0], 16)
				bc, ok2 := atoiU(h[1], 8)
				pt, ok3 := atoiU(h[2], 8)
				pc, ok4 := unhex(h[3])
				if !ok1 || !ok2 || !ok3 || !ok4 {
					return nil, "bad-op"
				}
				var part upc.UEPolicyPart
				part.SetLen(uint16(pl))
				part.UEPolicyPartType.SetPartType(uint8(pt))
				part.SetPartContent(pc)
				if bc != 0 {
					if got := part.SetLen_byContent(); got != part.GetLen() {
						return nil, "FAIL SetLen_byContent returns a value other than the stored length"
					}
				}
				ins.UEPolicySectionContents.AppendUEPolicyPart(&part)
			}
			sl.UEPolicySectionManagementSubListContents.AppendInstruction(ins)
		}
		out.AppendSublist(sl)
	}
	return out, ""
}

// buildResultAPI: sub-results `len:mcc:mnc:results|…`, results `upsc.order,…`
func buildResultAPI(s string) (upc.UEPolicySectionManagementResultContent, string) {
	var out upc.UEPolicySectionManagementResultContent
	for _, e := range splitL(s, "|") {
		f := strings.Split(e, ":")
		if len(f) != 4 {
			return nil, "bad-op"
		}
		l, ok1 := atoiU(f[0], 16)
		mcc, e2 := strconv.Atoi(f[1])
		mnc, e3 := strconv.Atoi(f[2])
		if !ok1 || e2 != nil || e3 != nil {
			return nil, "bad-op"
		}
		var sr upc.UEPolicySectionManagementSubResult
		sr.SetLen(uint16(l))
		if err := sr.SetPlmnDigit(mcc, mnc); err != nil {
			return nil, "err"
		}
		for _, rs := range splitL(f[3], ",") {
			h := strings.Split(rs, ".")
			if len(h) != 2 {
				return nil, "bad-op"
			}
			u, ok1 := atoiU(h[0], 16)
			o, ok2 := atoiU(h[1], 16)
			if !ok1 || !ok2 {
				return nil, "bad-op"
			}
			r := upc.NewResult()
			r.SetUpsc(uint16(u))
			r.FailInstructionOrder = uint16(o) // the package has no setter for this field
			sr.UEPolicySectionManagementSubResultContents.AppendResult(r)
		}
		out.AppendSublist(sr)
	}
	return out, ""
}

func encDecMsg(u *upc.UePolDeliverySer) string {
	b, err := u.UePolDeliverySerEncode()
	if err != nil {
		return "err"
	}
	d := upc.NewUePolDeliverySer()
	if err := d.UePolDeliverySerDecode(b); err != nil {
		return hexs(b) + " err"
	}
	return fmt.Sprintf("%s %d %d %s", hexs(b), d.GetHeaderPTI(), d.GetHeaderMessageType(), showMsgG(d))
}

func upcAPIOp(a []string) string {
	switch a[0] {
	case "apil":
		if len(a) != 2 {
			return "bad-op"
		}
		l, st := buildListAPI(a[1])
		if st != "" {
			return st
		}
		before := showSubListsG(l)
		b, err := l.MarshalBinary()
		if err != nil {
			return "err"
		}
		var back upc.UEPolicySectionManagementListContent
		dec := "err"
		if err := back.UnmarshalBinary(b); err == nil {
			dec = showSubListsG(back)
		}
		return fmt.Sprintf("ok %s %s %s", before, hexs(b), dec)
	case "apir":
		if len(a) != 2 {
			return "bad-op"
		}
		l, st := buildResultAPI(a[1])
		if st != "" {
			return st
		}
		before := showSubResultsG(l)
		b, err := l.MarshalBinary()
		if err != nil {
			return "err"
		}
		var back upc.UEPolicySectionManagementResultContent
		dec := "err"
		if err := back.UnmarshalBinary(b); err == nil {
			dec = showSubResultsG(back)
		}
		return fmt.Sprintf("ok %s %s %s", before, hexs(b), dec)
	case "apim":
		if len(a) < 3 {
			return "bad-op"
		}
		pti, ok := atoiU(a[2], 8)
		if !ok {
			return "bad-op"
		}
		u := upc.NewUePolDeliverySer()
		u.SetHeaderPTI(uint8(pti))
		switch a[1] {
		case "cmd":
			if len(a) != 6 {
				return "bad-op"
			}
			iei, ok1 := atoiU(a[3], 8)
			b, ok2 := unhex(a[4])
			if !ok1 || !ok2 {
				return "bad-op"
			}
			u.SetHeaderMessageType(upc.MsgTypeManageUEPolicyCommand)
			m := upc.NewManageUEPolicyCommand(upc.MsgTypeManageUEPolicyCommand)
			m.SetPTI(uint8(pti))
			l := upc.NewUEPolicySectionManagementList(uint8(iei))
			l.SetLen(uint16(len(b)))
			l.SetUEPolicySectionManagementListContent(b)
			m.UEPolicySectionManagementList = *l
			if a[5] != "-" {
				g := strings.Split(a[5], ".")
				if len(g) != 2 {
					return "bad-op"
				}
				ci, ok1 := atoiU(g[0], 8)
				n, ok2 := atoiU(g[1], 8)
				if !ok1 || !ok2 {
					return "bad-op"
				}
				c := upc.NewUEPolicyNetworkClassmark()
				c.SetIei(uint8(ci))
				if err := c.SetNSSUI(uint8(n)); err != nil {
					return "err"
				}
				m.UEPolicyNetworkClassmark = c
			}
			u.ManageUEPolicyCommand = m
		case "rej":
			if len(a) != 5 {
				return "bad-op"
			}
			iei, ok1 := atoiU(a[3], 8)
			b, ok2 := unhex(a[4])
			if !ok1 || !ok2 {
				return "bad-op"
			}
			u.SetHeaderMessageType(upc.MsgTypeManageUEPolicyReject)
			m := upc.NewManageUEPolicyReject(upc.MsgTypeManageUEPolicyReject)
			m.SetPTI(uint8(pti))
			r := upc.NewUEPolicySectionManagementResult(uint8(iei))
			r.SetLen(uint16(len(b)))
			r.SetUEPolicySectionManagementResultContent(b)
			m.UEPolicySectionManagementResult = *r
			u.ManageUEPolicyReject = m
		case "cpl":
			if len(a) != 3 {
				return "bad-op"
			}
			u.SetHeaderMessageType(upc.MsgTypeManageUEPolicyComplete)
			m := upc.NewManageUEPolicyComplete(upc.MsgTypeManageUEPolicyComplete)
			m.SetPTI(uint8(pti))
			u.ManageUEPolicyComplete = m
		default:
			return "bad-op"
		}
		return "ok " + encDecMsg(u)
	}
	return "bad-op"
}

// oracle for the API ops (the property itself, on the implementation's own answer): the structure read back through the getters
// before encoding is the described one; decoding the encoding gives the described structure with lengths from content, the
// TS 24.008 PLMN octets and the MCC / MNC that were set; a message decodes to itself.
func oracleC18API(a []string) string {
	r := upcAPIOp(a)
	f := strings.Split(r, " ")
	switch a[0] {
	case "apil", "apir":
		if f[0] != "ok" {
			// SetPlmnDigit rejected: in the property's domain only when the numbers are outside 100..999 / 10..999
			ok := true
			for _, e := range splitL(a[1], "|") {
				g := strings.Split(e, ":")
				mcc, _ := strconv.Atoi(g[1])
				mnc, _ := strconv.Atoi(g[2])
				if mcc < 100 || mcc > 999 || mnc < 9 || mnc > 999 {
					ok = false
				}
			}
			if ok && f[0] == "err" {
				return "FAIL valid description rejected: " + r
			}
			if strings.HasPrefix(r, "FAIL") {
				return r
			}
			return "skip"
		}
		if len(f) != 4 {
			return "FAIL malformed answer " + r
		}
		want, wf := expectAPI(a[0], a[1])
		if !wf {
			return "skip"
		}
		if f[3] != want {
			return fmt.Sprintf("FAIL built through the API, encoded and decoded: got %s, the description says %s", f[3], want)
		}
		return "pass"
	case "apim":
		if f[0] != "ok" {
			if a[1] == "cmd" && a[5] != "-" && !strings.HasSuffix(a[5], ".0") && !strings.HasSuffix(a[5], ".1") {
				return "pass" // SetNSSUI accepts 0 and 1 only
			}
			return "FAIL message built through the API is rejected: " + r
		}
		b, _ := unhex(a[len(a)-1])
		if a[1] != "cpl" {
			b, _ = unhex(a[4])
		}
		if len(b) > 65535 {
			return "skip"
		}
		var want string
		switch a[1] {
		case "cmd":
			cm := "-"
			if a[5] != "-" {
				g := strings.Split(a[5], ".")
				cm = fmt.Sprintf("%s.2.%s.0", g[0], g[1])
			}
			want = fmt.Sprintf("%s 1 cmd:%s:1:%s:%d:%s:%s", a[2], a[2], a[3], len(b), hexs(b), cm)
		case "rej":
			want = fmt.Sprintf("%s 3 rej:%s:3:%s:%d:%s", a[2], a[2], a[3], len(b), hexs(b))
		case "cpl":
			want = fmt.Sprintf("%s 2 cpl:%s:2", a[2], a[2])
		}
		if len(f) < 3 || strings.Join(f[2:], " ") != want {
			return fmt.Sprintf("FAIL message built through the API decodes to %q, expected %q", strings.Join(f[2:], " "), want)
		}
		return "pass"
	}
	return "skip"
}

// expectAPI: the decoder's view of a description, computed independently of the package (lengths from content, PLMN octets per
// TS 24.008 10.5.1.13); second result false when the description is outside the property's domain (oversize bodies)
func expectAPI(kind, s string) (string, bool) {
	var ss []string
	for _, e := range splitL(s, "|") {
		g := strings.Split(e, ":")
		mcc, _ := strconv.Atoi(g[1])
		mnc, _ := strconv.Atoi(g[2])
		if mcc < 100 || mcc > 999 || mnc < 9 || mnc > 999 {
			return "", false
		}
		d := []int{mcc / 100, mcc / 10 % 10, mcc % 10}
		var o [3]int
		o[0] = d[1]<<4 | d[0]
		if mnc < 100 {
			o[1] = 0xf0 | d[2]
			o[2] = (mnc%10)<<4 | mnc/10
		} else {
			o[1] = (mnc%10)<<4 | d[2]
			o[2] = (mnc/10%10)<<4 | mnc/100
		}
		total := 3
		var body string
		if kind == "apil" {
			var is []string
			for _, x := range splitL(g[3], "+") {
				h := strings.Split(x, "/")
				ilen := 2
				var ps []string
				for _, p := range splitL(h[2], ",") {
					q := strings.Split(p, ".")
					c, _ := unhex(q[3])
					pl, _ := strconv.Atoi(q[0])
					if q[1] == "0" && pl != 0 && pl != 1+len(c) {
						return "", false // a stored part length that contradicts the contents is kept by the encoder
					}
					if 1+len(c) > 65535 {
						return "", false
					}
					ilen += 3 + len(c)
					ps = append(ps, fmt.Sprintf("%d.%s.%s", 1+len(c), q[2], hexs(c)))
				}
				if ilen > 65535 {
					return "", false
				}
				total += 2 + ilen
				is = append(is, fmt.Sprintf("%d/%s/%s", ilen, h[1], joinL(ps, ",")))
			}
			body = joinL(is, "+")
		} else {
			var rs []string
			for _, x := range splitL(g[3], ",") {
				q := strings.Split(x, ".")
				total += 5
				rs = append(rs, fmt.Sprintf("%s.%s.111", q[0], q[1]))
			}
			body = joinL(rs, ",")
		}
		if total > 65535 {
			return "", false
		}
		ss = append(ss, fmt.Sprintf("%d:%02x%02x%02x:%d:%d:%s", total, o[0], o[1], o[2], mcc, mnc, body))
	}
	return joinL(ss, "|"), true
}

// ---- generator

func (g *Gen) apiParts() string {
	var ps []string
	for k := g.Intn(4); k > 0; k-- {
		n := []int{0, 0, 1, 2, 5, 40, 300}[g.Intn(7)]
		c := g.Bytes(n)
		l, bc := 0, 0
		switch g.Intn(4) {
		case 0:
			l = 1 + n
		case 1:
			bc = 1
			l = g.Intn(70000) % 65536
		case 2:
			bc = 1
		}
		if g.Intn(16) == 0 { // a stale stored length without SetLen_byContent: outside the property, compared with the model only
			l, bc = 1+g.Intn(400), 0
		}
		ps = append(ps, fmt.Sprintf("%d.%d.%d.%s", l, bc, g.Intn(256), hexs(c)))
	}
	return joinL(ps, ",")
}

func (g *Gen) apiPlmn() (int, int) {
	switch g.Intn(12) {
	case 0:
		return []int{98, 99, 100, 999, 1000, 0}[g.Intn(6)], 10 + g.Intn(990)
	case 1:
		return 100 + g.Intn(900), []int{0, 8, 9, 10, 99, 100, 999, 1000}[g.Intn(8)]
	}
	mnc := 10 + g.Intn(90)
	if g.Intn(2) == 0 {
		mnc = 100 + g.Intn(900)
	}
	return 100 + g.Intn(900), mnc
}

func genUePolicyAPI(g *Gen, w *bufio.Writer, n int) {
	// bodies in the upper half of the 16-bit length range (one part of 33 000 / 40 000 / 65 000 octets)
	for _, big := range []int{32765, 33000, 40000, 65000} {
		fmt.Fprintf(w, "upc apil 0:208:93:0/7/0.1.1.%s\n", hexs(g.Bytes(big)))
	}
	for i := 0; i < n; i++ {
		var ss []string
		// every other list draws its PLMNs from a pool around one PLMN: the same PLMN again, and PLMNs that differ from it in the
		// third MCC digit or the third MNC digit only (octet 2 of the three), so that neighbouring sublists are equal or nearly so
		var pool [][2]int
		if i%2 == 1 {
			m := 100 + g.Intn(900)
			c := 100 + g.Intn(900)
			pool = [][2]int{{m, c}, {m, c}, {m - m%10 + (m+1)%10, c}, {m, c - c%10 + (c+3)%10}, {m, c / 10}}
		}
		plmn := func() (int, int) {
			if pool != nil {
				p := pool[g.Intn(len(pool))]
				return p[0], p[1]
			}
			return g.apiPlmn()
		}
		for k := g.Intn(4); k > 0; k-- {
			mcc, mnc := plmn()
			var is []string
			for j := g.Intn(4); j > 0; j-- {
				is = append(is, fmt.Sprintf("%d/%d/%s", []int{0, 0, 2, 7, 65535}[g.Intn(5)], g.edge16(), g.apiParts()))
			}
			ss = append(ss, fmt.Sprintf("%d:%d:%d:%s", []int{0, 0, 3, 65535}[g.Intn(4)], mcc, mnc, joinL(is, "+")))
		}
		fmt.Fprintf(w, "upc apil %s\n", joinL(ss, "|"))
		ss = nil
		for k := g.Intn(4); k > 0; k-- {
			mcc, mnc := plmn()
			var rs []string
			for j := g.Intn(5); j > 0; j-- {
				rs = append(rs, fmt.Sprintf("%d.%d", g.edge16(), g.edge16()))
			}
			ss = append(ss, fmt.Sprintf("%d:%d:%d:%s", []int{0, 0, 3, 65535}[g.Intn(4)], mcc, mnc, joinL(rs, ",")))
		}
		fmt.Fprintf(w, "upc apir %s\n", joinL(ss, "|"))
		body := g.Bytes([]int{0, 1, 5, 19, 64, 300}[g.Intn(6)])
		cm := "-"
		if g.Intn(2) == 0 {
			cm = fmt.Sprintf("%d.%d", g.Intn(256), []int{0, 1, 0, 1, 2, 255}[g.Intn(6)])
		}
		fmt.Fprintf(w, "upc apim cmd %d %d %s %s\n", g.Intn(256), g.Intn(256), hexs(body), cm)
		fmt.Fprintf(w, "upc apim rej %d %d %s\n", g.Intn(256), g.Intn(256), hexs(body))
		fmt.Fprintf(w, "upc apim cpl %d\n", g.Intn(256))
	}
}

func (g *Gen) edge16() int {
	switch g.Intn(6) {
	case 0:
		return 0
	case 1:
		return 65535
	case 2:
		return 255 + g.Intn(3)
	case 3:
		return 1 << uint(g.Intn(16))
	}
	return g.Intn(65536)
}
