package main

// C09: the identifier and length accessors themselves. Op `accl <Type> <contents> <iei> <len> <newlen> <newiei>`: an array-backed
// element (Octet [n]uint8 with a Len field: SetLen stores the length, nothing is reallocated) holding the given contents,
// identifier and length; SetLen(newlen), SetIei(newiei); answer = contents, GetIei(), GetLen() afterwards. The contents must not
// change (a length setter that "clears dropped octets" changes other fields), and each getter returns what its setter stored.
// Buffer-backed elements are not judged: their SetLen allocates fresh zeroed contents by design (the decoders rely on it).

import (
	"bufio"
	"fmt"
	"reflect"
	"sort"
	"strconv"
)

func init() {
	ops["accl"] = opAccL
}

func arrayBacked(typ string) (reflect.Value, bool) {
	mk, ok := nasTypeRegistry[typ]
	if !ok {
		return reflect.Value{}, false
	}
	pv := reflect.ValueOf(mk())
	v := pv.Elem()
	o := v.FieldByName("Octet")
	if !o.IsValid() || o.Kind() != reflect.Array || !v.FieldByName("Len").IsValid() || !v.FieldByName("Iei").IsValid() {
		return reflect.Value{}, false
	}
	for _, m := range []string{"SetLen", "GetLen", "SetIei", "GetIei"} {
		if !pv.MethodByName(m).IsValid() {
			return reflect.Value{}, false
		}
	}
	return pv, true
}

func runAccL(args []string) (string, bool) {
	if len(args) != 6 {
		return "", false
	}
	pv, ok := arrayBacked(args[0])
	c, ok2 := unhex(args[1])
	var n [4]uint64
	for i := range n {
		x, err := strconv.ParseUint(args[2+i], 10, 16)
		if err != nil {
			return "", false
		}
		n[i] = x
	}
	if !ok || !ok2 {
		return "", false
	}
	v := pv.Elem()
	if !setContents(v, c) {
		return "", false
	}
	lt := v.FieldByName("Len").Type()
	if n[1] >= 1<<uint(lt.Bits()) || n[2] >= 1<<uint(lt.Bits()) || n[0] > 255 || n[3] > 255 {
		return "", false
	}
	v.FieldByName("Iei").SetUint(n[0])
	v.FieldByName("Len").SetUint(n[1])
	arg := reflect.New(lt).Elem()
	arg.SetUint(n[2])
	pv.MethodByName("SetLen").Call([]reflect.Value{arg})
	ia := reflect.New(v.FieldByName("Iei").Type()).Elem()
	ia.SetUint(n[3])
	pv.MethodByName("SetIei").Call([]reflect.Value{ia})
	return fmt.Sprintf("ok %s %d %d", hexs(getContents(v)), pv.MethodByName("GetIei").Call(nil)[0].Uint(), pv.MethodByName("GetLen").Call(nil)[0].Uint()), true
}

func opAccL(args []string) string {
	r, ok := runAccL(args)
	if !ok {
		return "bad-op"
	}
	return r
}

func oracleAccL(args []string) string {
	r, ok := runAccL(args)
	if !ok {
		return skip
	}
	c, _ := unhex(args[1])
	pv, _ := arrayBacked(args[0])
	full := make([]byte, pv.Elem().FieldByName("Octet").Len())
	copy(full, c)
	want := fmt.Sprintf("ok %s %s %s", hexs(full), args[5], args[4])
	if r != want {
		return fmt.Sprintf("FAIL after SetLen(%s), SetIei(%s): contents / identifier / length %s, expected %s", args[4], args[5], r[3:], want[3:])
	}
	return "pass"
}

func genAccLen(g *Gen, w *bufio.Writer, per int) {
	var names []string
	for n := range nasTypeRegistry {
		if _, ok := arrayBacked(n); ok {
			names = append(names, n)
		}
	}
	sort.Strings(names)
	for _, n := range names {
		pv, _ := arrayBacked(n)
		size := pv.Elem().FieldByName("Octet").Len()
		max := 1<<uint(pv.Elem().FieldByName("Len").Type().Bits()) - 1
		for k := 0; k < per; k++ {
			c := g.Bytes(size)
			if k%4 == 0 {
				for i := range c {
					c[i] = 0xff
				}
			}
			// shrink, grow, keep: every (old, new) pair of lengths within the array for small arrays, sampled otherwise
			ol, nl := g.Intn(size+1), g.Intn(size+1)
			if k%7 == 6 {
				nl = []int{0, max, size + 1}[g.Intn(3)] % (max + 1)
			}
			fmt.Fprintf(w, "accl %s %s %d %d %d %d\n", n, hexs(c), g.Intn(256), ol, nl, g.Intn(256))
		}
	}
}

// accra <Type> <Field> <contents> <off> <k>: a slice-typed setter called with a window of the element's own Buffer as its argument
// (`a.SetX(a.Buffer[off:off+k])`); the result is that of setting a private copy of the window (copy has memmove semantics)
func runAccRAlias(args []string) (string, bool) {
	if len(args) != 5 {
		return "", false
	}
	mk, ok := nasTypeRegistry[args[0]]
	c, ok2 := unhex(args[2])
	off, e1 := strconv.Atoi(args[3])
	k, e2 := strconv.Atoi(args[4])
	if !ok || !ok2 || e1 != nil || e2 != nil || off < 0 || k < 0 || off+k > len(c) {
		return "", false
	}
	pv := reflect.ValueOf(mk())
	v := pv.Elem()
	bf := v.FieldByName("Buffer")
	if !bf.IsValid() || bf.Kind() != reflect.Slice || !setContents(v, c) {
		return "", false
	}
	if f := v.FieldByName("Len"); f.IsValid() {
		f.SetUint(uint64(len(c)))
	}
	g, s := pv.MethodByName("Get"+args[1]), pv.MethodByName("Set"+args[1])
	if !g.IsValid() || !s.IsValid() || s.Type().NumIn() != 1 || s.Type().In(0).Kind() != reflect.Slice {
		return "", false
	}
	s.Call([]reflect.Value{bf.Slice(off, off+k)})
	out := g.Call(nil)[0]
	gb := make([]byte, out.Len())
	for i := range gb {
		gb[i] = byte(out.Index(i).Uint())
	}
	return fmt.Sprintf("ok %s %s", hexs(getContents(v)), hexs(gb)), true
}

func init() {
	ops["accra"] = func(a []string) string {
		r, ok := runAccRAlias(a)
		if !ok {
			return "bad-op"
		}
		return r
	}
}

// oracle: the same call with a private copy of the window on a second element gives the same contents
func oracleAccRA(args []string) string {
	r, ok := runAccRAlias(args)
	if !ok {
		return skip
	}
	c, _ := unhex(args[2])
	off, _ := strconv.Atoi(args[3])
	k, _ := strconv.Atoi(args[4])
	_, after, g1, _, ok := runAccR(args[0], args[1], c, append([]byte{}, c[off:off+k]...))
	if !ok {
		return skip
	}
	if want := fmt.Sprintf("ok %s %s", hexs(after), hexs(g1)); r != want {
		return fmt.Sprintf("FAIL setter called with a window of the element's own contents: %s, with a private copy of the same octets: %s", r[3:], want[3:])
	}
	return "pass"
}

func genAccAlias(g *Gen, w *bufio.Writer, per int) {
	lay := factsFromLayout()
	for _, f := range lay {
		if f.Store != "buf" || f.Kind == "scalar" {
			continue
		}
		mk, ok := nasTypeRegistry[f.Type]
		if !ok {
			continue
		}
		if sm := reflect.ValueOf(mk()).MethodByName("Set" + f.Field); !sm.IsValid() || sm.Type().NumIn() != 1 || sm.Type().In(0).Kind() != reflect.Slice {
			continue // array-typed arguments are passed by value: they cannot share memory with the element
		}
		for k := 0; k < per; k++ {
			size := f.Lo + 2 + g.Intn(12)
			if f.Kind != "tail" && f.Hi > size {
				size = f.Hi + g.Intn(4)
			}
			c := g.Bytes(size)
			n := size - f.Lo
			if f.Kind != "tail" {
				n = f.Hi - f.Lo
			}
			if n <= 0 {
				continue
			}
			off := g.Intn(size - n + 1)
			if k%2 == 0 && f.Lo > 0 { // a window starting just before the field: source and destination overlap
				off = f.Lo - 1 - g.Intn(min(f.Lo, 2))
				if off < 0 {
					off = 0
				}
				if off+n > size {
					n = size - off
				}
			}
			fmt.Fprintf(w, "accra %s %s %s %d %d\n", f.Type, f.Field, hexs(c), off, n)
		}
	}
}
