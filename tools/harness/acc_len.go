package main

// C09: the identifier and length accessors themselves. Op `accl <Type> <contents> <iei> <len> <newlen> <newiei>`: an array-backed
// element (Octet [n]uint8 with a Len field: SetLen stores the length, nothing is reallocated) holding the given contents,
// identifier and length; SetLen(newlen), SetIei(newiei); answer = contents, GetIei(), GetLen() afterwards. The contents must not
// change (a length setter that "clears dropped octets" changes other fields), and each getter returns what its setter stored.
// Buffer-backed elements are not judged: their SetLen allocates fresh zeroed contents by design (the decoders rely on it).

import (
	"bufio"
	"fmt"
	"reflect"
	"sort"
	"strconv"
)

func init() {
	ops["accl"] = opAccL
}

func arrayBacked(typ string) (reflect.Value, bool) {
	mk, ok := nasTypeRegistry[typ]
	if !ok {
		return reflect.Value{}, false
	}
	pv := reflect.ValueOf(mk())
	v := pv.Elem()
	o := v.FieldByName("Octet")
	if !o.IsValid() || o.Kind() != reflect.Array || !v.FieldByName("Len").IsValid() || !v.FieldByName("Iei").IsValid() {
		return reflect.Value{}, false
	}
	for _, m := range []string{"SetLen", "GetLen", "SetIei", "GetIei"} {
		if !pv.MethodByName(m).IsValid() {
			return reflect.Value{}, false
		}
	}
	return pv, true
}

func runAccL(args []string) (string, bool) {
	if len(args) != 6 {
		return "", false
	}
	pv, ok := arrayBacked(args[0])
	c, ok2 := unhex(args[1])
	var n [4]uint64
	for i := range n {
		x, err := strconv.ParseUint(args[2+i], 10, 16)
		if err != nil {
			return "", false
		}
		n[i] = x
	}
	if !ok || !ok2 {
		return "", false
	}
	v := pv.Elem()
	if !setContents(v, c) {
		return "", false
	}
	lt := v.FieldByName("Len").Type()
	if n[1] >= 1<<uint(lt.Bits()) || n[2] >= 1<<uint(lt.Bits()) || n[0] > 255 || n[3] > 255 {
		return "", false
	}
	v.FieldByName("Iei").SetUint(n[0])
	v.FieldByName("Len").SetUint(n[1])
	arg := reflect.New(lt).Elem()
	arg.SetUint(n[2])
	pv.MethodByName("SetLen").Call([]reflect.Value{arg})
	ia := reflect.New(v.FieldByName("Iei").Type()).Elem()
	ia.SetUint(n[3])
	pv.MethodByName("SetIei").Call([]reflect.Value{ia})
	return fmt.Sprintf("ok %s %d %d", hexs(getContents(v)), pv.MethodByName("GetIei").Call(nil)[0].Uint(), pv.MethodByName("GetLen").Call(nil)[0].Uint()), true
}

func opAccL(args []string) string {
	r, ok := runAccL(args)
	if !ok {
		return "bad-op"
	}
	return r
}

func oracleAccL(args []string) string {
	r, ok := runAccL(args)
	if !ok {
		return skip
	}
	c, _ := unhex(args[1])
	pv, _ := arrayBacked(args[0])
	full := make([]byte, pv.Elem().FieldByName("Octet").Len())
	copy(full, c)
	want := fmt.Sprintf("ok %s %s %s", hexs(full), args[5], args[4])
	if r != want {
		return fmt.Sprintf("FAIL after SetLen(%s), SetIei(%s): contents / identifier / length %s, expected %s", args[4], args[5], r[3:], want[3:])
	}
	return "pass"
}

func genAccLen(g *Gen, w *bufio.Writer, per int) {
	var names []string
	for n := range nasTypeRegistry {
		if _, ok := arrayBacked(n); ok {
			names = append(names, n)
		}
	}
	sort.Strings(names)
	for _, n := range names {
		pv, _ := arrayBacked(n)
		size := pv.Elem().FieldByName("Octet").Len()
		max := 1<<uint(pv.Elem().FieldByName("Len").Type().Bits()) - 1
		for k := 0; k < per; k++ {
			c := g.Bytes(size)
			if k%4 == 0 {
				for i := range c {
					c[i] = 0xff
				}
			}
			// shrink, grow, keep: every (old, new) pair of lengths within the array for small arrays, sampled otherwise
			ol, nl := g.Intn(size+1), g.Intn(size+1)
			if k%7 == 6 {
				nl = []int{0, max, size + 1}[g.Intn(3)] % (max + 1)
			}
			fmt.Fprintf(w, "accl %s %s %d %d %d %d\n", n, hexs(c), g.Intn(256), ol, nl, g.Intn(256))
		}
	}
}
