module verif/tools

go 1.21

require github.com/free5gc/nas v0.0.0

replace github.com/free5gc/nas => /repo
