module verif/tools

go 1.21

require (
	github.com/free5gc/nas v0.0.0
	github.com/free5gc/openapi v1.0.9-0.20240730084323-449098e08462
)

require (
	github.com/aead/cmac v0.0.0-20160719120800-7af84192f0b1 // indirect
	github.com/golang-jwt/jwt/v5 v5.2.1 // indirect
	github.com/sirupsen/logrus v1.8.1 // indirect
	github.com/tim-ywliu/nested-logrus-formatter v1.3.2 // indirect
	golang.org/x/sys v0.18.0 // indirect
)

replace github.com/free5gc/nas => /repo
