#!/usr/bin/env python3
"""One-off (not run by checks): pin the accessor layout annotations of the pinned commit as Spec/AccessorLayout.lean + spec/accessor_layout.json."""
import json
js = json.load(open('/verif/build/facts/accessors.json'))
rows = [(j['Type'], j['Field'], j['R0'], j['R1'], j['SBit'], j['Len'], j['Inf']) for j in js]
json.dump([dict(type=r[0], field=r[1], r0=r[2], r1=r[3], sBit=r[4], len=r[5], inf=r[6]) for r in rows],
          open('/verif/spec/accessor_layout.json', 'w'), indent=0)
kinds = [j['Kind'] for j in js]
with open('/verif/lean/NasVerif/Spec/AccessorLayout.lean', 'w') as f:
    f.write("/-! Pinned layout of every IE field (type, field, first row, last row, start bit, length in bits; 0 = INF):\n"
            "the `Row, sBit, len` annotations of nasType at the pinned commit (TS 24.501 figure layouts). Reviewed; not regenerated. -/\n"
            "namespace NasVerif.Spec\n\n")
    for name, sel in (("scalarLayout", lambda k: k == 'scalar'), ("rangeLayout", lambda k: k != 'scalar')):
        f.write("def %s : List (String × String × Nat × Nat × Nat × Nat) := [\n" % name)
        f.write(",\n".join('  ("%s", "%s", %d, %d, %d, %d)' % r[:6] for r, k in zip(rows, kinds) if sel(k)))
        f.write("\n]\n\n")
    f.write("end NasVerif.Spec\n")
print(len(rows))
