package main

// Pure leaf functions of security/** -> Lean `BitVec` definitions (Gen/CryptoLeaf.lean), regenerated on every run and proved
// equal to the hand-written model's definitions in Props/CryptoLeafTie.lean. Recognised: functions over uintN parameters (an `int`
// parameter is a shift count: Nat) whose body is a sequence of `x := e` / `x = e`, closed by `return e` or by
// `if c { return a } else { return b }` / `if c { return a }; return b`; expressions of intx plus indexing of a package-level
// lookup table and calls of other translated functions; and the one recursive shape `if i == 0 { return V } else { return
// g(self(V, i-1, c), c) }`, emitted as structural recursion on the counter (a Nat, as in the model).

import (
	"fmt"
	"go/ast"
	"go/constant"
	"go/token"
	"go/types"
	"path/filepath"
	"strings"
)

func init() {
	extraParts = append(extraParts, part{"leaf", "Crypto", extractLeaf})
}

type leafSpec struct {
	pkg, prefix string
	fns         []string
	tables      map[string]string // Go table name -> Lean List Nat constant of Gen.Crypto
}

var leafSpecs = []leafSpec{
	{"security/snow3g", "snow_", []string{"mulx", "mulxPow", "s1", "s2", "mulAlpha", "divAlpha"}, map[string]string{"sr": "snow_sr", "sq": "snow_sq"}},
	{"security/zuc", "zuc_", []string{"rot", "l1", "l2", "makeU32"}, map[string]string{"sbox0": "zuc_s0", "sbox1": "zuc_s1"}},
	{"security", "sec_", []string{"mulx", "mulxPow"}, nil},
}

type leafx struct {
	intx
	tables  map[string]string
	natArgs map[string]map[int]bool // function -> indices of Nat-typed parameters
	natVars map[string]bool         // current function's Nat parameters
	self    string
}

func (x *leafx) e(e ast.Expr) string {
	// extensions first, then the integer translator (which recurses through x.expr, not through here: so extensions are applied
	// by pre-rewriting sub-expressions we own)
	switch t := e.(type) {
	case *ast.ParenExpr:
		return x.e(t.X)
	case *ast.IndexExpr:
		if id, ok := t.X.(*ast.Ident); ok {
			if _, isTab := x.tables[id.Name]; isTab {
				w := uintWidth(x.typeOf(t.Index))
				if w == 0 {
					return x.fail("table index of non-uint type: %s", exprStr(e))
				}
				idx := x.e(t.Index)
				if w != 32 {
					idx = fmt.Sprintf("((%s).setWidth 32)", idx)
				}
				return fmt.Sprintf("(%stab_%s %s)", x.prefix, id.Name, idx)
			}
		}
		return x.fail("index %s", exprStr(e))
	case *ast.CallExpr:
		if ftv, ok := x.p.Info.Types[t.Fun]; ok && ftv.IsType() && len(t.Args) == 1 {
			w := uintWidth(ftv.Type)
			ws := uintWidth(x.typeOf(t.Args[0]))
			if w == 0 || ws == 0 {
				return x.fail("conversion %s", exprStr(e))
			}
			if w == ws {
				return x.e(t.Args[0])
			}
			return fmt.Sprintf("((%s).setWidth %d)", x.e(t.Args[0]), w)
		}
		if id, ok := t.Fun.(*ast.Ident); ok {
			if _, isFn := x.p.Info.Uses[id].(*types.Func); isFn {
				var args []string
				for i, a := range t.Args {
					if x.natArgs[id.Name][i] {
						args = append(args, x.nat(a))
					} else {
						args = append(args, x.e(a))
					}
				}
				return "(" + x.prefix + id.Name + " " + strings.Join(args, " ") + ")"
			}
		}
		return x.fail("call %s", exprStr(e))
	case *ast.BinaryExpr:
		tv, has := x.p.Info.Types[e]
		if has && tv.Value != nil {
			return x.expr(e)
		}
		switch t.Op {
		case token.SHL, token.SHR:
			op := "<<<"
			if t.Op == token.SHR {
				op = ">>>"
			}
			if uintWidth(x.typeOf(t.X)) == 0 {
				return x.fail("shift of non-uint %s", exprStr(t.X))
			}
			if ctv, ok := x.p.Info.Types[t.Y]; ok && ctv.Value != nil {
				n, _ := constant.Uint64Val(constant.ToInt(ctv.Value))
				return fmt.Sprintf("(%s %s %d)", x.e(t.X), op, n)
			}
			if uintWidth(x.typeOf(t.Y)) != 0 {
				return fmt.Sprintf("(%s %s (%s).toNat)", x.e(t.X), op, x.e(t.Y))
			}
			return fmt.Sprintf("(%s %s %s)", x.e(t.X), op, x.nat(t.Y))
		}
		a, b := x.e(t.X), x.e(t.Y)
		wa, wb := uintWidth(x.typeOf(t.X)), uintWidth(x.typeOf(t.Y))
		if wa == 0 || wa != wb {
			return x.fail("operands of %s are not same-width uints: %s", t.Op, exprStr(e))
		}
		sym := map[token.Token]string{token.ADD: "+", token.SUB: "-", token.MUL: "*", token.AND: "&&&", token.OR: "|||", token.XOR: "^^^",
			token.EQL: "==", token.NEQ: "!="}[t.Op]
		if sym == "" {
			return x.fail("binary %s", t.Op)
		}
		return "(" + a + " " + sym + " " + b + ")"
	}
	return x.expr(e)
}

// nat: an `int` expression used as a shift count or as the recursion counter: constants, Nat parameters, c - p, p - c
func (x *leafx) nat(e ast.Expr) string {
	if tv, ok := x.p.Info.Types[e]; ok && tv.Value != nil {
		n, _ := constant.Uint64Val(constant.ToInt(tv.Value))
		return fmt.Sprint(n)
	}
	switch t := e.(type) {
	case *ast.ParenExpr:
		return x.nat(t.X)
	case *ast.Ident:
		if x.natVars[t.Name] {
			return t.Name
		}
	case *ast.BinaryExpr:
		if t.Op == token.SUB || t.Op == token.ADD {
			op := "-"
			if t.Op == token.ADD {
				op = "+"
			}
			return "(" + x.nat(t.X) + " " + op + " " + x.nat(t.Y) + ")"
		}
	}
	return x.fail("shift count / counter %s", exprStr(e))
}

func extractLeaf() {
	var sb strings.Builder
	sb.WriteString("import NasVerif.Gen.CryptoTables\n-- REGENERATED by tools/extract (leaf.go) from /repo/security/** on every run; do not edit.\nnamespace NasVerif.Gen.Leaf\n\n")
	var done []string
	for _, spec := range leafSpecs {
		p := loadPkg(spec.pkg)
		fns := p.funcs()
		for g, l := range spec.tables {
			fmt.Fprintf(&sb, "def %stab_%s (i : BitVec 32) : BitVec 8 := BitVec.ofNat 8 (NasVerif.Gen.Crypto.%s.getD i.toNat 0)\n", spec.prefix, g, l)
		}
		// Nat-typed parameters: `int` parameters, and the counter of the recursive shape
		natArgs := map[string]map[int]bool{}
		recursive := map[string]bool{}
		for _, name := range spec.fns {
			fd := fns[name]
			if fd == nil {
				continue
			}
			natArgs[name] = map[int]bool{}
			i := 0
			for _, f := range fd.Type.Params.List {
				for range f.Names {
					if b, ok := p.Info.Types[f.Type].Type.Underlying().(*types.Basic); ok && b.Kind() == types.Int {
						natArgs[name][i] = true
					}
					i++
				}
			}
			ast.Inspect(fd.Body, func(n ast.Node) bool {
				if c, ok := n.(*ast.CallExpr); ok {
					if id, ok := c.Fun.(*ast.Ident); ok && id.Name == name {
						recursive[name] = true
					}
				}
				return true
			})
			if recursive[name] {
				natArgs[name][1] = true // (V, i, c): the counter
			}
		}
		for _, name := range spec.fns {
			fd := fns[name]
			if fd == nil {
				unrec(p.Fset, token.NoPos, "%s.%s: function not found", spec.pkg, name)
				continue
			}
			src, why := translateLeaf(p, fd, spec, natArgs, recursive[name])
			if why != "" {
				unrec(p.Fset, fd.Pos(), "%s.%s: %s", spec.pkg, name, why)
				continue
			}
			sb.WriteString(src + "\n")
			done = append(done, spec.prefix+name)
		}
	}
	sb.WriteString("def translated : List String := " + leanStrList(done) + "\n\nend NasVerif.Gen.Leaf\n")
	writeFile(filepath.Join(*outDir, "CryptoLeaf.lean"), sb.String())
}

func translateLeaf(p *Pkg, fd *ast.FuncDecl, spec leafSpec, natArgs map[string]map[int]bool, rec bool) (string, string) {
	x := &leafx{intx: intx{p: p, env: map[string]string{}, fields: map[string]string{}, ok: true, prefix: spec.prefix}, tables: spec.tables,
		natArgs: natArgs, natVars: map[string]bool{}, self: fd.Name.Name}
	if fd.Recv != nil {
		return "", "method"
	}
	if fd.Type.Results == nil || len(fd.Type.Results.List) != 1 || len(fd.Type.Results.List[0].Names) > 0 {
		return "", "result shape"
	}
	retW := uintWidth(p.Info.Types[fd.Type.Results.List[0].Type].Type)
	if retW == 0 {
		return "", "result of non-uint type"
	}
	var params []string
	var pnames []string
	i := 0
	for _, f := range fd.Type.Params.List {
		w := uintWidth(p.Info.Types[f.Type].Type)
		for _, n := range f.Names {
			if natArgs[fd.Name.Name][i] {
				params = append(params, fmt.Sprintf("(%s : Nat)", n.Name))
				x.natVars[n.Name] = true
			} else {
				if w == 0 {
					return "", "parameter of unsupported type"
				}
				params = append(params, fmt.Sprintf("(%s : BitVec %d)", n.Name, w))
				x.env[n.Name] = n.Name
			}
			pnames = append(pnames, n.Name)
			i++
		}
	}
	name := spec.prefix + fd.Name.Name
	if rec {
		// if i == 0 { return V } else { return g(self(V, i-1, c), c) }
		if len(fd.Body.List) != 1 || len(pnames) != 3 {
			return "", "recursive function of unrecognised shape"
		}
		is, ok := fd.Body.List[0].(*ast.IfStmt)
		if !ok || is.Init != nil || is.Else == nil || strings.ReplaceAll(exprStr(is.Cond), " ", "") != pnames[1]+"==0" {
			return "", "recursive function of unrecognised shape"
		}
		r0 := singleReturn(is.Body)
		eb, _ := is.Else.(*ast.BlockStmt)
		r1 := singleReturn(eb)
		if r0 == nil || r1 == nil || exprStr(r0) != pnames[0] {
			return "", "recursive function of unrecognised shape"
		}
		call, ok := r1.(*ast.CallExpr)
		if !ok || len(call.Args) != 2 || exprStr(call.Args[1]) != pnames[2] {
			return "", "recursive function of unrecognised shape"
		}
		g, ok := call.Fun.(*ast.Ident)
		inner, ok2 := call.Args[0].(*ast.CallExpr)
		if !ok || !ok2 || strings.ReplaceAll(exprStr(inner), " ", "") != fmt.Sprintf("%s(%s,%s-1,%s)", fd.Name.Name, pnames[0], pnames[1], pnames[2]) {
			return "", "recursive function of unrecognised shape"
		}
		w := uintWidth(p.Info.Types[fd.Type.Params.List[0].Type].Type)
		return fmt.Sprintf("def %s (%s : BitVec %d) : Nat → BitVec %d → BitVec %d\n  | 0, _ => %s\n  | i+1, %s => %s%s (%s %s i %s) %s\n",
			name, pnames[0], w, w, w, pnames[0], pnames[2], spec.prefix, g.Name, name, pnames[0], pnames[2], pnames[2]), ""
	}
	var lets []string
	gen := 0
	ret := ""
	for k, s := range fd.Body.List {
		if ret != "" {
			return "", "statement after return"
		}
		switch t := s.(type) {
		case *ast.AssignStmt:
			if len(t.Lhs) != 1 || len(t.Rhs) != 1 || (t.Tok != token.ASSIGN && t.Tok != token.DEFINE) {
				return "", "assignment shape"
			}
			id, ok := t.Lhs[0].(*ast.Ident)
			if !ok {
				return "", "assignment target"
			}
			w := uintWidth(x.typeOf(t.Rhs[0]))
			if w == 0 {
				return "", "local of non-uint type"
			}
			rhs := x.e(t.Rhs[0])
			gen++
			n := fmt.Sprintf("%s_%d", id.Name, gen)
			lets = append(lets, fmt.Sprintf("let %s : BitVec %d := %s", n, w, rhs))
			x.env[id.Name] = n
		case *ast.ReturnStmt:
			if len(t.Results) != 1 {
				return "", "return shape"
			}
			ret = x.e(t.Results[0])
		case *ast.IfStmt:
			if t.Init != nil {
				return "", "if with init"
			}
			a := singleReturn(t.Body)
			var b ast.Expr
			if t.Else != nil {
				eb, _ := t.Else.(*ast.BlockStmt)
				b = singleReturn(eb)
			} else if k+2 == len(fd.Body.List) {
				if rs, ok := fd.Body.List[k+1].(*ast.ReturnStmt); ok && len(rs.Results) == 1 {
					b = rs.Results[0]
				}
			}
			if a == nil || b == nil {
				return "", "if of unrecognised shape"
			}
			ret = fmt.Sprintf("if %s then %s else %s", x.e(t.Cond), x.e(a), x.e(b))
			if t.Else == nil {
				if !x.ok {
					return "", x.why
				}
				return finishLeaf(name, params, retW, lets, ret), ""
			}
		default:
			return "", fmt.Sprintf("statement %T", s)
		}
		if !x.ok {
			return "", x.why
		}
	}
	if ret == "" {
		return "", "missing return"
	}
	return finishLeaf(name, params, retW, lets, ret), ""
}

func finishLeaf(name string, params []string, retW int, lets []string, ret string) string {
	var sb strings.Builder
	fmt.Fprintf(&sb, "def %s %s : BitVec %d :=\n", name, strings.Join(params, " "), retW)
	for _, l := range lets {
		sb.WriteString("  " + l + "\n")
	}
	sb.WriteString("  " + ret + "\n")
	return sb.String()
}

func singleReturn(b *ast.BlockStmt) ast.Expr {
	if b == nil || len(b.List) != 1 {
		return nil
	}
	rs, ok := b.List[0].(*ast.ReturnStmt)
	if !ok || len(rs.Results) != 1 {
		return nil
	}
	return rs.Results[0]
}
