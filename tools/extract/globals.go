package main

// Part "globals" (C19): package-level variables of every package of the module, and every place outside `init`
// where one could be written or handed out by reference. Conservative and syntactic on typed ASTs:
//   assign   x = …, x op= …, x++ / x-- , x[i] = …, x.f = …, *x = …   (root of the left-hand side is the variable)
//   addr     &x, &x[i], &x.f, x[:] of an array, and a call of a pointer-receiver method on x (implicit &x)
//   escape   any other use of a variable of reference type (slice, map, pointer, chan, func, interface) except as the operand
//            of an index read, len/cap, or a range source
// Variables whose type comes from another module (the logrus logger handles) are listed separately: they are external,
// internally synchronised objects and are named in the trusted base.

import (
	"fmt"
	"go/ast"
	"go/token"
	"go/types"
	"os"
	"path/filepath"
	"sort"
	"strings"
)

func init() {
	extraParts = append(extraParts, part{"globals", "Globals", extractGlobals})
	partNames = append(partNames, "Globals")
}

func modulePackages() []string {
	var out []string
	filepath.Walk(*repo, func(path string, fi os.FileInfo, err error) error {
		if err != nil {
			return nil
		}
		if fi.IsDir() {
			n := fi.Name()
			if path != *repo && (strings.HasPrefix(n, ".") || n == "testdata" || n == "vendor") {
				return filepath.SkipDir
			}
			ents, _ := os.ReadDir(path)
			for _, e := range ents {
				if strings.HasSuffix(e.Name(), ".go") && !strings.HasSuffix(e.Name(), "_test.go") {
					rel, _ := filepath.Rel(*repo, path)
					out = append(out, rel)
					break
				}
			}
		}
		return nil
	})
	sort.Strings(out)
	return out
}

func rootIdent(e ast.Expr) *ast.Ident {
	for {
		switch t := e.(type) {
		case *ast.Ident:
			return t
		case *ast.ParenExpr:
			e = t.X
		case *ast.IndexExpr:
			e = t.X
		case *ast.SelectorExpr:
			// pkg.Var: the selector's Sel is the variable
			if id, ok := t.X.(*ast.Ident); ok {
				if _, isPkg := curInfo.Uses[id].(*types.PkgName); isPkg {
					return t.Sel
				}
			}
			e = t.X
		case *ast.StarExpr:
			e = t.X
		case *ast.SliceExpr:
			e = t.X
		default:
			return nil
		}
	}
}

var curInfo *types.Info

func isRefType(t types.Type) bool {
	switch t.Underlying().(type) {
	case *types.Slice, *types.Map, *types.Pointer, *types.Chan, *types.Signature, *types.Interface:
		return true
	}
	return false
}

func extractGlobals() {
	type gvar struct{ pkg, name, typ string }
	var globals []gvar
	var writers, writerPkgs, external, externalPkgs, unsafeImports []string
	modPrefix := "github.com/free5gc/nas"
	var excluded []string
	for _, rel := range modulePackages() {
		// the code generator under internal/tools is a build-time tool (reached only through `go generate`), not library code
		if strings.HasPrefix(rel, "internal/tools") {
			excluded = append(excluded, rel)
			continue
		}
		p := loadPkg(rel)
		curInfo = p.Info
		isGlobal := func(id *ast.Ident) *types.Var {
			if id == nil {
				return nil
			}
			obj := p.Info.Uses[id]
			if obj == nil {
				obj = p.Info.Defs[id]
			}
			v, ok := obj.(*types.Var)
			if !ok || v.IsField() || v.Pkg() == nil || v.Parent() != v.Pkg().Scope() {
				return nil
			}
			if !strings.HasPrefix(v.Pkg().Path(), modPrefix) {
				return nil // another module's variable (e.g. os.Stderr): not this library's state
			}
			return v
		}
		for _, f := range p.Files {
			for _, imp := range f.Imports {
				if imp.Path.Value == `"unsafe"` || imp.Path.Value == `"C"` {
					unsafeImports = append(unsafeImports, fmt.Sprintf("%s imports %s", rel, imp.Path.Value))
				}
			}
		}
		scope := p.Types.Scope()
		for _, n := range scope.Names() {
			if v, ok := scope.Lookup(n).(*types.Var); ok {
				ts := types.TypeString(v.Type(), func(q *types.Package) string { return q.Name() })
				globals = append(globals, gvar{rel, n, ts})
				if named := namedOf(v.Type()); named != nil && named.Obj().Pkg() != nil && !strings.HasPrefix(named.Obj().Pkg().Path(), modPrefix) {
					external = append(external, fmt.Sprintf("%s.%s : %s", rel, n, ts))
					externalPkgs = append(externalPkgs, rel)
				}
			}
		}
		isExternal := func(v *types.Var) bool {
			named := namedOf(v.Type())
			return named != nil && named.Obj().Pkg() != nil && !strings.HasPrefix(named.Obj().Pkg().Path(), modPrefix)
		}
		for _, f := range p.Files {
			for _, d := range f.Decls {
				fd, ok := d.(*ast.FuncDecl)
				if !ok || fd.Body == nil {
					continue
				}
				fname := fd.Name.Name
				if fd.Recv != nil && len(fd.Recv.List) == 1 {
					fname = recvTypeName(fd.Recv.List[0].Type) + "." + fname
				}
				if fd.Recv == nil && fd.Name.Name == "init" {
					continue
				}
				report := func(v *types.Var, pos token.Pos, how string) {
					if isExternal(v) {
						return
					}
					writers = append(writers, fmt.Sprintf("%s.%s in %s.%s (%s:%d): %s", v.Pkg().Name(), v.Name(), rel, fname,
						filepath.Base(p.Fset.Position(pos).Filename), p.Fset.Position(pos).Line, how))
					writerPkgs = append(writerPkgs, rel)
				}
				benign := map[*ast.Ident]bool{} // occurrences already classified as reads
				ast.Inspect(fd.Body, func(n ast.Node) bool {
					switch t := n.(type) {
					case *ast.AssignStmt:
						for _, l := range t.Lhs {
							if v := isGlobal(rootIdent(l)); v != nil {
								report(v, l.Pos(), "assign")
								benign[rootIdent(l)] = true
							}
						}
					case *ast.IncDecStmt:
						if v := isGlobal(rootIdent(t.X)); v != nil {
							report(v, t.Pos(), "assign")
							benign[rootIdent(t.X)] = true
						}
					case *ast.UnaryExpr:
						if t.Op == token.AND {
							if v := isGlobal(rootIdent(t.X)); v != nil {
								report(v, t.Pos(), "addr")
								benign[rootIdent(t.X)] = true
							}
						}
					case *ast.SliceExpr:
						if id := rootIdent(t.X); id != nil {
							if v := isGlobal(id); v != nil {
								if _, isArr := v.Type().Underlying().(*types.Array); isArr {
									report(v, t.Pos(), "addr (slice of array)")
									benign[id] = true
								}
							}
						}
					case *ast.CallExpr:
						if sel, ok := t.Fun.(*ast.SelectorExpr); ok {
							if s := p.Info.Selections[sel]; s != nil && s.Kind() == types.MethodVal {
								if id := rootIdent(sel.X); id != nil {
									if v := isGlobal(id); v != nil {
										if sig, ok := s.Obj().Type().(*types.Signature); ok && sig.Recv() != nil {
											if _, ptrRecv := sig.Recv().Type().(*types.Pointer); ptrRecv {
												if _, isPtr := v.Type().Underlying().(*types.Pointer); !isPtr {
													report(v, t.Pos(), "addr (pointer-receiver method "+s.Obj().Name()+")")
													benign[id] = true
												}
											}
										}
									}
								}
							}
						}
						// len(x), cap(x): reads
						if id, ok := t.Fun.(*ast.Ident); ok && (id.Name == "len" || id.Name == "cap") && len(t.Args) == 1 {
							if a := rootIdent(t.Args[0]); a != nil {
								benign[a] = true
							}
						}
					case *ast.IndexExpr:
						// x[i] as a value: a read of x (writes through it were classified by the assignment case)
						if id, ok := t.X.(*ast.Ident); ok {
							benign[id] = true
						}
						if sel, ok := t.X.(*ast.SelectorExpr); ok {
							benign[sel.Sel] = true
						}
					case *ast.RangeStmt:
						if id := rootIdent(t.X); id != nil {
							benign[id] = true
						}
					}
					return true
				})
				ast.Inspect(fd.Body, func(n ast.Node) bool {
					id, ok := n.(*ast.Ident)
					if !ok || benign[id] {
						return true
					}
					if v := isGlobal(id); v != nil && p.Info.Uses[id] != nil && isRefType(v.Type()) {
						report(v, id.Pos(), "escape (reference-typed value used)")
					}
					return true
				})
			}
		}
	}
	sort.Strings(writers)
	sort.Strings(writerPkgs)
	sort.Strings(external)
	sort.Strings(unsafeImports)
	var sb strings.Builder
	sb.WriteString("-- REGENERATED by tools/extract from every package of /repo on every run; do not edit.\nnamespace NasVerif.Gen.Globals\n\n")
	sb.WriteString("/-- package-level variables: (package directory, name, type) -/\ndef globals : List (String × String × String) := [\n")
	for i, g := range globals {
		sep := ","
		if i == len(globals)-1 {
			sep = ""
		}
		fmt.Fprintf(&sb, "  (%q, %q, %q)%s\n", g.pkg, g.name, g.typ, sep)
	}
	sb.WriteString("]\n\n")
	list := func(name, doc string, l []string) {
		fmt.Fprintf(&sb, "/-- %s -/\ndef %s : List String := [\n", doc, name)
		for i, x := range l {
			sep := ","
			if i == len(l)-1 {
				sep = ""
			}
			fmt.Fprintf(&sb, "  %q%s\n", x, sep)
		}
		sb.WriteString("]\n\n")
	}
	list("writersOutsideInit", "every place outside `init` where a package-level variable of this module is assigned, has its address taken, or (reference types) is used other than for an index read", writers)
	list("writerPkgs", "the package directory of each entry of writersOutsideInit (sorted; one per entry)", writerPkgs)
	list("externalShared", "package-level variables whose type belongs to another module (external, internally synchronised objects)", external)
	list("externalSharedPkgs", "the package directory of each entry of externalShared", externalPkgs)
	list("unsafeImports", "imports of unsafe / cgo", unsafeImports)
	list("excludedPackages", "packages not analysed: build-time tools that no library package imports", excluded)
	sb.WriteString("end NasVerif.Gen.Globals\n")
	writeFile(filepath.Join(*outDir, "Globals.lean"), sb.String())
	writeJSON(filepath.Join(*facts, "globals.json"), map[string]interface{}{"globals": globals, "writers": writers, "external": external, "unsafe": unsafeImports})
}

func namedOf(t types.Type) *types.Named {
	for {
		switch x := t.(type) {
		case *types.Pointer:
			t = x.Elem()
		case *types.Named:
			return x
		default:
			return nil
		}
	}
}
