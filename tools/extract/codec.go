package main

import (
	"fmt"
	"go/ast"
	"go/constant"
	"go/token"
	"go/types"
	"path/filepath"
	"sort"
	"strings"
)

// ---- IR (mirrors lean/NasVerif/Codec/Defs.lean) ----

type Guard struct {
	Kind string `json:"kind"` // none range min max exact oneOf
	Lo   int64  `json:"lo,omitempty"`
	Hi   int64  `json:"hi,omitempty"`
	L    []int64 `json:"l,omitempty"`
}

type Slot struct {
	Name    string `json:"name"`
	Type    string `json:"type"`
	LenSize int    `json:"lenSize"`
	Guard   Guard  `json:"guard"`
	Store   string `json:"store"` // octet arr buf unit
	ArrN    int64  `json:"arrN,omitempty"`
	Span    string `json:"span"` // all toLen
	Alloc   bool   `json:"alloc"`
	Size    int64  `json:"size"`
	// optional only
	Iei    int64 `json:"iei"`
	Half   bool  `json:"half"`
	HasIei bool  `json:"hasIei"`
}

type EncSlot struct {
	Name      string `json:"name"`
	WritesIei bool   `json:"writesIei"`
	LenSize   int    `json:"lenSize"`
	Store     string `json:"store"`
	ArrN      int64  `json:"arrN,omitempty"`
	Span      string `json:"span"`
}

type MsgFacts struct {
	Name   string    `json:"name"`
	DecMan []Slot    `json:"decMan"`
	DecOpt []Slot    `json:"decOpt"`
	EncMan []EncSlot `json:"encMan"`
	EncOpt []EncSlot `json:"encOpt"`
	StructSize int64 `json:"structSize"`
	Fields []string  `json:"fields"` // struct field order (embedded type names); "*" prefix = pointer
}

type DispatchCase struct {
	Const  int64  `json:"const"`
	Msg    string `json:"msg"`
}

type DispatchFacts struct {
	Family     string         `json:"family"` // gmm gsm
	HeaderLen  int64          `json:"headerLen"`
	TypeIndex  int64          `json:"typeIndex"`
	Decode     []DispatchCase `json:"decode"`
	Encode     []DispatchCase `json:"encode"`
}

type TypeInfo struct {
	Name     string
	HasIei   bool
	LenSize  int
	Store    string
	ArrN     int64
	Alloc    bool // SetLen allocates
	Size     int64
	HalfIei  bool // SetIei writes high nibble of Octet
	CtorOK   bool
}

type codecCtx struct {
	nt     *Pkg
	nm     *Pkg
	types  map[string]*TypeInfo
}

// ---------- nasType struct facts ----------

func (c *codecCtx) typeInfo(name string) *TypeInfo {
	if ti, ok := c.types[name]; ok {
		return ti
	}
	obj := c.nt.Types.Scope().Lookup(name)
	if obj == nil {
		return nil
	}
	st, ok := obj.Type().Underlying().(*types.Struct)
	if !ok {
		return nil
	}
	ti := &TypeInfo{Name: name, Store: "unit"}
	sizes := types.SizesFor("gc", "amd64")
	ti.Size = sizes.Sizeof(obj.Type())
	for i := 0; i < st.NumFields(); i++ {
		f := st.Field(i)
		switch f.Name() {
		case "Iei":
			ti.HasIei = true
		case "Len":
			if b, ok := f.Type().(*types.Basic); ok {
				switch b.Kind() {
				case types.Uint8:
					ti.LenSize = 1
				case types.Uint16:
					ti.LenSize = 2
				default:
					ti.LenSize = -1
				}
			}
		case "Octet":
			switch t := f.Type().(type) {
			case *types.Basic:
				if t.Kind() == types.Uint8 {
					ti.Store = "octet"
				} else {
					ti.Store = "?"
				}
			case *types.Array:
				ti.Store = "arr"
				ti.ArrN = t.Len()
			default:
				ti.Store = "?"
			}
		case "Buffer":
			ti.Store = "buf"
		default:
			ti.Store = "?" // unknown field: not in the IR
		}
	}
	c.types[name] = ti
	return ti
}

// checkTypeMethods verifies the shapes of NewT / SetIei / GetIei / SetLen / GetLen that the codec IR relies on.
func (c *codecCtx) checkTypeMethods(fns map[string]*ast.FuncDecl, ti *TypeInfo) {
	fset := c.nt.Fset
	// SetLen
	if fd, ok := fns[ti.Name+".SetLen"]; ok {
		// a.Len = len [; a.Buffer = make([]uint8, a.Len)]
		ok1 := len(fd.Body.List) >= 1 && isAssign(fd.Body.List[0], "a.Len", paramName(fd, 0))
		switch len(fd.Body.List) {
		case 1:
			ti.Alloc = false
		case 2:
			as, ok := fd.Body.List[1].(*ast.AssignStmt)
			if ok && len(as.Lhs) == 1 && exprStr(as.Lhs[0]) == "a.Buffer" && exprStr(as.Rhs[0]) == "make([]uint8, a.Len)" && as.Tok == token.ASSIGN {
				ti.Alloc = true
			} else {
				ok1 = false
			}
		default:
			ok1 = false
		}
		if !ok1 {
			unrec(fset, fd.Pos(), "nasType.%s.SetLen body not in IR", ti.Name)
		}
	} else if ti.LenSize != 0 {
		unrec(fset, token.NoPos, "nasType.%s has Len but no SetLen", ti.Name)
	}
	if fd, ok := fns[ti.Name+".GetLen"]; ok {
		if !(len(fd.Body.List) == 1 && isReturn(fd.Body.List[0], "a.Len")) {
			unrec(fset, fd.Pos(), "nasType.%s.GetLen body not in IR", ti.Name)
		}
	}
	if fd, ok := fns[ti.Name+".GetIei"]; ok {
		if ti.HasIei {
			if !(len(fd.Body.List) == 1 && isReturn(fd.Body.List[0], "a.Iei")) {
				unrec(fset, fd.Pos(), "nasType.%s.GetIei body not in IR", ti.Name)
			}
		}
	}
	if fd, ok := fns[ti.Name+".SetIei"]; ok {
		if ti.HasIei {
			if !(len(fd.Body.List) == 1 && isAssign(fd.Body.List[0], "a.Iei", paramName(fd, 0))) {
				unrec(fset, fd.Pos(), "nasType.%s.SetIei body not in IR", ti.Name)
			}
		} else {
			// half-octet: a.Octet = (a.Octet & 15) + ((iei & 15) << 4)  -- only writes Octet (overwritten by the decoder)
			ti.HalfIei = true
			good := false
			if len(fd.Body.List) == 1 {
				if as, ok := fd.Body.List[0].(*ast.AssignStmt); ok && len(as.Lhs) == 1 && exprStr(as.Lhs[0]) == "a.Octet" {
					good = true
				}
			}
			if !good {
				unrec(fset, fd.Pos(), "nasType.%s.SetIei (no Iei field) body not in IR", ti.Name)
			}
		}
	}
	// constructor: x = &T{}; x.SetIei(iei); return x     (or without SetIei when no param)
	if fd, ok := fns["New"+ti.Name]; ok {
		good := false
		l := fd.Body.List
		if len(l) == 3 {
			as, ok1 := l[0].(*ast.AssignStmt)
			es, ok2 := l[1].(*ast.ExprStmt)
			rs, ok3 := l[2].(*ast.ReturnStmt)
			if ok1 && ok2 && ok3 && len(as.Lhs) == 1 && exprStr(as.Rhs[0]) == "&"+ti.Name+"{}" {
				v := exprStr(as.Lhs[0])
				if exprStr(es.X) == v+".SetIei("+paramName(fd, 0)+")" && len(rs.Results) == 1 && exprStr(rs.Results[0]) == v {
					good = true
				}
			}
		} else if len(l) == 2 {
			as, ok1 := l[0].(*ast.AssignStmt)
			rs, ok3 := l[1].(*ast.ReturnStmt)
			if ok1 && ok3 && len(as.Lhs) == 1 && exprStr(as.Rhs[0]) == "&"+ti.Name+"{}" && len(rs.Results) == 1 && exprStr(rs.Results[0]) == exprStr(as.Lhs[0]) {
				good = true
			}
		}
		ti.CtorOK = good
		if !good {
			unrec(fset, fd.Pos(), "nasType.New%s body not in IR", ti.Name)
		}
	}
}

func paramName(fd *ast.FuncDecl, i int) string {
	k := 0
	for _, f := range fd.Type.Params.List {
		for _, n := range f.Names {
			if k == i {
				return n.Name
			}
			k++
		}
	}
	return "?"
}

func isAssign(s ast.Stmt, lhs, rhs string) bool {
	as, ok := s.(*ast.AssignStmt)
	return ok && as.Tok == token.ASSIGN && len(as.Lhs) == 1 && len(as.Rhs) == 1 && exprStr(as.Lhs[0]) == lhs && exprStr(as.Rhs[0]) == rhs
}

func isReturn(s ast.Stmt, e string) bool {
	rs, ok := s.(*ast.ReturnStmt)
	return ok && len(rs.Results) == 1 && exprStr(rs.Results[0]) == e
}

func exprStr(e ast.Expr) string {
	return types.ExprString(e)
}

// ---------- statement recognisers ----------

// errReturnOK: body is exactly `return fmt.Errorf(<string literal>, ...)` ; if needErr, last arg must be `err`.
func errReturnOK(b *ast.BlockStmt, needErr bool) bool {
	if b == nil || len(b.List) != 1 {
		return false
	}
	rs, ok := b.List[0].(*ast.ReturnStmt)
	if !ok || len(rs.Results) != 1 {
		return false
	}
	call, ok := rs.Results[0].(*ast.CallExpr)
	if !ok || exprStr(call.Fun) != "fmt.Errorf" || len(call.Args) < 1 {
		return false
	}
	if needErr {
		return exprStr(call.Args[len(call.Args)-1]) == "err"
	}
	return true
}

// ioCall: `if err := binary.<fn>(buffer, binary.BigEndian, X); err != nil { return fmt.Errorf(..., err) }` → X
func ioCall(s ast.Stmt, fn string) (ast.Expr, bool) {
	is, ok := s.(*ast.IfStmt)
	if !ok || is.Init == nil || is.Else != nil {
		return nil, false
	}
	as, ok := is.Init.(*ast.AssignStmt)
	if !ok || as.Tok != token.DEFINE || len(as.Lhs) != 1 || exprStr(as.Lhs[0]) != "err" || len(as.Rhs) != 1 {
		return nil, false
	}
	call, ok := as.Rhs[0].(*ast.CallExpr)
	if !ok || exprStr(call.Fun) != "binary."+fn || len(call.Args) != 3 {
		return nil, false
	}
	if exprStr(call.Args[0]) != "buffer" || exprStr(call.Args[1]) != "binary.BigEndian" {
		return nil, false
	}
	if exprStr(is.Cond) != "err != nil" {
		return nil, false
	}
	if !errReturnOK(is.Body, true) {
		return nil, false
	}
	return call.Args[2], true
}

// target forms. returns field, kind
// kinds: octetPtr (&a.F.Octet), lenPtr (&a.F.Len), buf (a.F.Buffer), arrAll (a.F.Octet[:]), arrToLen (a.F.Octet[:a.F.GetLen()]),
// unitPtr (&a.F), ieiN (&ieiN), octetVal (a.F.Octet), getIei, getLen
func classifyTarget(e ast.Expr) (field, kind string) {
	s := exprStr(e)
	if s == "&ieiN" {
		return "", "ieiN"
	}
	parts := strings.Split(s, ".")
	if strings.HasPrefix(s, "&a.") {
		switch len(parts) {
		case 2:
			return parts[1], "unitPtr"
		case 3:
			if parts[2] == "Octet" {
				return parts[1], "octetPtr"
			}
			if parts[2] == "Len" {
				return parts[1], "lenPtr"
			}
		}
		return "", "?"
	}
	if strings.HasPrefix(s, "a.") && len(parts) >= 3 {
		f := parts[1]
		switch s {
		case "a." + f + ".Buffer":
			return f, "buf"
		case "a." + f + ".Octet":
			return f, "octetVal"
		case "a." + f + ".Octet[:]":
			return f, "arrAll"
		case "a." + f + ".Octet[:a." + f + ".GetLen()]":
			return f, "arrToLen"
		case "a." + f + ".GetIei()":
			return f, "getIei"
		case "a." + f + ".GetLen()":
			return f, "getLen"
		}
	}
	return "", "?"
}

func (c *codecCtx) constVal(p *Pkg, e ast.Expr) (int64, bool) {
	tv, ok := p.Info.Types[e]
	if !ok || tv.Value == nil {
		return 0, false
	}
	v, ok := constant.Int64Val(constant.ToInt(tv.Value))
	return v, ok
}

// parseGuard: `if a.F.Len <cond> { return fmt.Errorf(...) }`
func (c *codecCtx) parseGuard(s ast.Stmt, field string) (Guard, bool) {
	is, ok := s.(*ast.IfStmt)
	if !ok || is.Init != nil || is.Else != nil || !errReturnOK(is.Body, false) {
		return Guard{}, false
	}
	lenExpr := "a." + field + ".Len"
	type atom struct {
		op token.Token
		v  int64
	}
	var atoms []atom
	var join token.Token
	var walk func(e ast.Expr) bool
	walk = func(e ast.Expr) bool {
		be, ok := e.(*ast.BinaryExpr)
		if !ok {
			return false
		}
		if be.Op == token.LOR || be.Op == token.LAND {
			if join != 0 && join != be.Op {
				return false
			}
			join = be.Op
			return walk(be.X) && walk(be.Y)
		}
		if exprStr(be.X) != lenExpr {
			return false
		}
		v, ok := c.constVal(c.nm, be.Y)
		if !ok {
			return false
		}
		atoms = append(atoms, atom{be.Op, v})
		return true
	}
	if !walk(is.Cond) {
		return Guard{}, false
	}
	switch {
	case len(atoms) == 1 && atoms[0].op == token.LSS:
		return Guard{Kind: "min", Lo: atoms[0].v}, true
	case len(atoms) == 1 && atoms[0].op == token.GTR:
		return Guard{Kind: "max", Hi: atoms[0].v}, true
	case len(atoms) == 1 && atoms[0].op == token.NEQ:
		return Guard{Kind: "exact", Lo: atoms[0].v}, true
	case len(atoms) == 2 && join == token.LOR && atoms[0].op == token.LSS && atoms[1].op == token.GTR:
		return Guard{Kind: "range", Lo: atoms[0].v, Hi: atoms[1].v}, true
	case len(atoms) >= 2 && join == token.LAND:
		var l []int64
		for _, a := range atoms {
			if a.op != token.NEQ {
				return Guard{}, false
			}
			l = append(l, a.v)
		}
		return Guard{Kind: "oneOf", L: l}, true
	}
	return Guard{}, false
}

type stmtCursor struct {
	l []ast.Stmt
	i int
}

func (sc *stmtCursor) peek() ast.Stmt {
	if sc.i < len(sc.l) {
		return sc.l[sc.i]
	}
	return nil
}
func (sc *stmtCursor) next() ast.Stmt { s := sc.peek(); sc.i++; return s }

// parseDecSlotBody parses the statements of one element after (for optional) the constructor lines.
// Accepted sequence: [readLen; [guard]; SetLen;] readContent [; guardBufLen]
func (c *codecCtx) parseDecSlotBody(sc *stmtCursor, msg string, wantField string) (Slot, bool) {
	fset := c.nm.Fset
	var sl Slot
	sl.Guard.Kind = "none"
	sl.Span = "all"
	first := sc.peek()
	if first == nil {
		return sl, false
	}
	tgt, ok := ioCall(first, "Read")
	if !ok {
		unrec(fset, first.Pos(), "%s: statement not in decoder IR", msg)
		sc.next()
		return sl, false
	}
	field, kind := classifyTarget(tgt)
	if wantField != "" && field != wantField {
		unrec(fset, first.Pos(), "%s: read targets %s, expected field %s", msg, exprStr(tgt), wantField)
		sc.next()
		return sl, false
	}
	sl.Name = field
	ti := c.fieldType(msg, field)
	if ti == nil {
		unrec(fset, first.Pos(), "%s: unknown field %s", msg, field)
		sc.next()
		return sl, false
	}
	sl.Type = ti.Name
	sl.Size = ti.Size
	sl.HasIei = ti.HasIei
	if kind == "lenPtr" {
		sc.next()
		sl.LenSize = ti.LenSize
		if ti.LenSize != 1 && ti.LenSize != 2 {
			unrec(fset, first.Pos(), "%s/%s: Len field of unsupported type", msg, field)
		}
		// optional guard
		if g, ok := c.parseGuard(sc.peek(), field); ok {
			sl.Guard = g
			sc.next()
		}
		// SetLen
		s := sc.peek()
		es, ok := s.(*ast.ExprStmt)
		if !ok || exprStr(es.X) != fmt.Sprintf("a.%s.SetLen(a.%s.GetLen())", field, field) {
			if s != nil {
				unrec(fset, s.Pos(), "%s/%s: expected SetLen(GetLen()) after length", msg, field)
			} else {
				unrec(fset, first.Pos(), "%s/%s: missing SetLen", msg, field)
			}
			return sl, false
		}
		sc.next()
		sl.Alloc = ti.Alloc
		cs := sc.peek()
		tgt, ok = ioCall(cs, "Read")
		if !ok {
			if cs != nil {
				unrec(fset, cs.Pos(), "%s/%s: expected content read", msg, field)
			} else {
				unrec(fset, first.Pos(), "%s/%s: missing content read", msg, field)
			}
			return sl, false
		}
		var f2 string
		f2, kind = classifyTarget(tgt)
		if f2 != field {
			unrec(fset, cs.Pos(), "%s/%s: content read targets other field %s", msg, field, f2)
			sc.next()
			return sl, false
		}
	}
	cs := sc.next()
	switch kind {
	case "octetPtr":
		switch ti.Store {
		case "octet":
			sl.Store = "octet"
		case "arr":
			sl.Store, sl.ArrN = "arr", ti.ArrN
		default:
			unrec(fset, cs.Pos(), "%s/%s: &Octet of store %s", msg, field, ti.Store)
			return sl, false
		}
	case "arrAll":
		if ti.Store != "arr" {
			unrec(fset, cs.Pos(), "%s/%s: Octet[:] of non-array", msg, field)
			return sl, false
		}
		sl.Store, sl.ArrN = "arr", ti.ArrN
	case "arrToLen":
		if ti.Store != "arr" {
			unrec(fset, cs.Pos(), "%s/%s: Octet[:Len] of non-array", msg, field)
			return sl, false
		}
		sl.Store, sl.ArrN, sl.Span = "arr", ti.ArrN, "toLen"
	case "buf":
		if ti.Store != "buf" {
			unrec(fset, cs.Pos(), "%s/%s: Buffer of non-buffer type", msg, field)
			return sl, false
		}
		sl.Store = "buf"
	case "unitPtr":
		if ti.Store != "unit" || ti.HasIei || ti.LenSize != 0 {
			unrec(fset, cs.Pos(), "%s/%s: &struct read of a non-empty struct", msg, field)
			return sl, false
		}
		sl.Store = "unit"
	default:
		unrec(fset, cs.Pos(), "%s/%s: read target %s not in IR", msg, field, exprStr(tgt))
		return sl, false
	}
	// optional hand edit: if len(a.F.Buffer) != int(a.F.Len) { return err }  (always false after a successful read)
	if is, ok := sc.peek().(*ast.IfStmt); ok && is.Init == nil && is.Else == nil &&
		strings.ReplaceAll(exprStr(is.Cond), " ", "") == fmt.Sprintf("len(a.%s.Buffer)!=int(a.%s.Len)", field, field) &&
		errReturnOK(is.Body, false) && sl.Store == "buf" && sl.Alloc {
		sc.next()
	}
	return sl, true
}

var msgStructs = map[string]map[string]string{} // msg -> field -> type name
var msgPtr = map[string]map[string]bool{}

func (c *codecCtx) fieldType(msg, field string) *TypeInfo {
	tn, ok := msgStructs[msg][field]
	if !ok {
		return nil
	}
	return c.typeInfo(tn)
}

func (c *codecCtx) loadMsgStruct(msg string) (fields []string, size int64, ok bool) {
	obj := c.nm.Types.Scope().Lookup(msg)
	if obj == nil {
		return nil, 0, false
	}
	st, ok := obj.Type().Underlying().(*types.Struct)
	if !ok {
		return nil, 0, false
	}
	msgStructs[msg] = map[string]string{}
	msgPtr[msg] = map[string]bool{}
	for i := 0; i < st.NumFields(); i++ {
		f := st.Field(i)
		t := f.Type()
		ptr := false
		if p, ok := t.(*types.Pointer); ok {
			t = p.Elem()
			ptr = true
		}
		named, ok := t.(*types.Named)
		if !ok || named.Obj().Pkg() == nil || named.Obj().Pkg().Name() != "nasType" || !f.Embedded() {
			unrec(c.nm.Fset, f.Pos(), "%s: struct field %s is not an embedded nasType", msg, f.Name())
			continue
		}
		msgStructs[msg][f.Name()] = named.Obj().Name()
		msgPtr[msg][f.Name()] = ptr
		pfx := ""
		if ptr {
			pfx = "*"
		}
		fields = append(fields, pfx+f.Name())
	}
	return fields, types.SizesFor("gc", "amd64").Sizeof(obj.Type()), true
}

func (c *codecCtx) parseDecode(msg string, fd *ast.FuncDecl) (man, opt []Slot) {
	fset := c.nm.Fset
	l := fd.Body.List
	if len(l) < 3 {
		unrec(fset, fd.Pos(), "%s: decoder too short", msg)
		return
	}
	// buffer := bytes.NewBuffer(*byteArray)
	if as, ok := l[0].(*ast.AssignStmt); !ok || as.Tok != token.DEFINE || exprStr(as.Lhs[0]) != "buffer" || exprStr(as.Rhs[0]) != "bytes.NewBuffer(*byteArray)" {
		unrec(fset, l[0].Pos(), "%s: decoder does not start with buffer := bytes.NewBuffer(*byteArray)", msg)
	}
	if !isReturn(l[len(l)-1], "nil") {
		unrec(fset, l[len(l)-1].Pos(), "%s: decoder does not end with return nil", msg)
	}
	forStmt, ok := l[len(l)-2].(*ast.ForStmt)
	if !ok {
		unrec(fset, l[len(l)-2].Pos(), "%s: decoder has no optional-element loop before return", msg)
		return
	}
	sc := &stmtCursor{l: l[1 : len(l)-2]}
	for sc.peek() != nil {
		sl, ok := c.parseDecSlotBody(sc, msg, "")
		if ok {
			if msgPtr[msg][sl.Name] {
				unrec(fset, fd.Pos(), "%s/%s: mandatory element stored through a pointer field", msg, sl.Name)
			}
			man = append(man, sl)
		}
	}
	// loop
	if forStmt.Init != nil || forStmt.Post != nil || exprStr(forStmt.Cond) != "buffer.Len() > 0" {
		unrec(fset, forStmt.Pos(), "%s: loop header is not `for buffer.Len() > 0`", msg)
	}
	b := forStmt.Body.List
	good := len(b) == 5
	if good {
		good = declIs(b[0], "ieiN", "uint8") && declIs(b[1], "tmpIeiN", "uint8")
		if tgt, ok := ioCall(b[2], "Read"); !ok || exprStr(tgt) != "&ieiN" {
			good = false
		}
		is, ok := b[3].(*ast.IfStmt)
		if !ok || is.Init != nil {
			good = false
		} else {
			cond := is.Cond.(*ast.BinaryExpr)
			v, okc := c.constVal(c.nm, cond.Y)
			if exprStr(cond.X) != "ieiN" || cond.Op != token.GEQ || !okc || v != 0x80 {
				good = false
			}
			eb, okb := is.Else.(*ast.BlockStmt)
			if !okb || len(is.Body.List) != 1 || len(eb.List) != 1 || !isAssign(eb.List[0], "tmpIeiN", "ieiN") {
				good = false
			} else if as, ok := is.Body.List[0].(*ast.AssignStmt); !ok || exprStr(as.Lhs[0]) != "tmpIeiN" {
				good = false
			} else {
				// (ieiN & 0xf0) >> 4
				be, ok := as.Rhs[0].(*ast.BinaryExpr)
				if !ok || be.Op != token.SHR {
					good = false
				} else {
					sh, ok1 := c.constVal(c.nm, be.Y)
					pe, ok2 := be.X.(*ast.ParenExpr)
					if !ok1 || sh != 4 || !ok2 {
						good = false
					} else if ae, ok := pe.X.(*ast.BinaryExpr); !ok || ae.Op != token.AND || exprStr(ae.X) != "ieiN" {
						good = false
					} else if m, ok := c.constVal(c.nm, ae.Y); !ok || m != 0xf0 {
						good = false
					}
				}
			}
		}
	}
	if !good {
		unrec(fset, forStmt.Pos(), "%s: loop prologue (read ieiN / tmpIeiN computation) not in IR", msg)
		return
	}
	sw, ok := b[4].(*ast.SwitchStmt)
	if !ok || sw.Init != nil || exprStr(sw.Tag) != "tmpIeiN" {
		unrec(fset, b[4].Pos(), "%s: expected switch tmpIeiN", msg)
		return
	}
	sawDefault := false
	for _, cs := range sw.Body.List {
		cc := cs.(*ast.CaseClause)
		if cc.List == nil {
			sawDefault = true
			if len(cc.Body) != 0 {
				unrec(fset, cc.Pos(), "%s: default case is not empty", msg)
			}
			continue
		}
		if len(cc.List) != 1 {
			unrec(fset, cc.Pos(), "%s: case with several constants", msg)
			continue
		}
		iei, ok := c.constVal(c.nm, cc.List[0])
		if !ok {
			unrec(fset, cc.Pos(), "%s: case label is not a constant", msg)
			continue
		}
		if len(cc.Body) < 2 {
			unrec(fset, cc.Pos(), "%s: case body too short", msg)
			continue
		}
		// a.F = nasType.NewF(ieiN)
		as, ok := cc.Body[0].(*ast.AssignStmt)
		if !ok || as.Tok != token.ASSIGN || len(as.Lhs) != 1 {
			unrec(fset, cc.Body[0].Pos(), "%s: case does not start with constructor assignment", msg)
			continue
		}
		lhs := exprStr(as.Lhs[0])
		if !strings.HasPrefix(lhs, "a.") || strings.Count(lhs, ".") != 1 {
			unrec(fset, as.Pos(), "%s: constructor assigned to %s", msg, lhs)
			continue
		}
		field := lhs[2:]
		ti := c.fieldType(msg, field)
		if ti == nil || !msgPtr[msg][field] {
			unrec(fset, as.Pos(), "%s: optional field %s unknown or not a pointer", msg, field)
			continue
		}
		if exprStr(as.Rhs[0]) != "nasType.New"+ti.Name+"(ieiN)" {
			unrec(fset, as.Pos(), "%s/%s: constructor call %s not in IR", msg, field, exprStr(as.Rhs[0]))
			continue
		}
		// half?
		if len(cc.Body) == 2 && isAssign(cc.Body[1], "a."+field+".Octet", "ieiN") {
			if ti.Store != "octet" || ti.HasIei || ti.LenSize != 0 {
				unrec(fset, cc.Body[1].Pos(), "%s/%s: half-octet assignment on a type with Iei/Len", msg, field)
				continue
			}
			opt = append(opt, Slot{Name: field, Type: ti.Name, Iei: iei, Half: true, HasIei: false, Store: "octet", Span: "all",
				Guard: Guard{Kind: "none"}, Size: ti.Size})
			continue
		}
		sc := &stmtCursor{l: cc.Body[1:]}
		sl, ok := c.parseDecSlotBody(sc, msg, field)
		if sc.peek() != nil {
			unrec(fset, sc.peek().Pos(), "%s/%s: trailing statements in case", msg, field)
			ok = false
		}
		if ok {
			sl.Iei = iei
			opt = append(opt, sl)
		}
	}
	if !sawDefault {
		// a switch without default behaves the same (unknown IEI skipped)
	}
	return
}

func declIs(s ast.Stmt, name, typ string) bool {
	ds, ok := s.(*ast.DeclStmt)
	if !ok {
		return false
	}
	gd, ok := ds.Decl.(*ast.GenDecl)
	if !ok || gd.Tok != token.VAR || len(gd.Specs) != 1 {
		return false
	}
	vs := gd.Specs[0].(*ast.ValueSpec)
	return len(vs.Names) == 1 && vs.Names[0].Name == name && vs.Values == nil && exprStr(vs.Type) == typ
}

func (c *codecCtx) parseEncSlot(sc *stmtCursor, msg string, optional bool) (EncSlot, bool) {
	fset := c.nm.Fset
	var es EncSlot
	es.Span = "all"
	first := sc.peek()
	tgt, ok := ioCall(first, "Write")
	if !ok {
		unrec(fset, first.Pos(), "%s: statement not in encoder IR", msg)
		sc.next()
		return es, false
	}
	field, kind := classifyTarget(tgt)
	ti := c.fieldType(msg, field)
	if ti == nil {
		unrec(fset, first.Pos(), "%s: encoder writes unknown %s", msg, exprStr(tgt))
		sc.next()
		return es, false
	}
	es.Name = field
	if kind == "getIei" {
		if !ti.HasIei {
			unrec(fset, first.Pos(), "%s/%s: GetIei() written for a type without Iei field", msg, field)
		}
		es.WritesIei = true
		sc.next()
		tgt, ok = ioCall(sc.peek(), "Write")
		if !ok {
			unrec(fset, first.Pos(), "%s/%s: nothing follows the IEI", msg, field)
			return es, false
		}
		var f2 string
		f2, kind = classifyTarget(tgt)
		if f2 != field {
			unrec(fset, sc.peek().Pos(), "%s/%s: encoder mixes fields (%s)", msg, field, f2)
			return es, false
		}
	}
	if kind == "getLen" {
		es.LenSize = ti.LenSize
		sc.next()
		tgt, ok = ioCall(sc.peek(), "Write")
		if !ok {
			unrec(fset, first.Pos(), "%s/%s: nothing follows the length", msg, field)
			return es, false
		}
		var f2 string
		f2, kind = classifyTarget(tgt)
		if f2 != field {
			unrec(fset, sc.peek().Pos(), "%s/%s: encoder mixes fields (%s)", msg, field, f2)
			return es, false
		}
	}
	cs := sc.next()
	switch kind {
	case "octetVal":
		switch ti.Store {
		case "octet":
			es.Store = "octet"
		case "arr":
			es.Store, es.ArrN = "arr", ti.ArrN
		default:
			unrec(fset, cs.Pos(), "%s/%s: Octet written for store %s", msg, field, ti.Store)
			return es, false
		}
	case "arrAll":
		es.Store, es.ArrN = "arr", ti.ArrN
	case "arrToLen":
		es.Store, es.ArrN, es.Span = "arr", ti.ArrN, "toLen"
	case "buf":
		es.Store = "buf"
	case "unitPtr":
		es.Store = "unit"
	default:
		unrec(fset, cs.Pos(), "%s/%s: write source %s not in IR", msg, field, exprStr(tgt))
		return es, false
	}
	if (es.Store == "arr") != (ti.Store == "arr") || (es.Store == "buf") != (ti.Store == "buf") {
		unrec(fset, cs.Pos(), "%s/%s: write source does not match the type's storage", msg, field)
		return es, false
	}
	return es, true
}

func (c *codecCtx) parseEncode(msg string, fd *ast.FuncDecl) (man, opt []EncSlot) {
	fset := c.nm.Fset
	l := fd.Body.List
	if len(l) < 1 || !isReturn(l[len(l)-1], "nil") {
		unrec(fset, fd.Pos(), "%s: encoder does not end with return nil", msg)
		return
	}
	sc := &stmtCursor{l: l[:len(l)-1]}
	inOpt := false
	for sc.peek() != nil {
		s := sc.peek()
		if is, ok := s.(*ast.IfStmt); ok && is.Init == nil {
			// if a.F != nil { ... }
			cond := exprStr(is.Cond)
			if !strings.HasPrefix(cond, "a.") || !strings.HasSuffix(cond, " != nil") || is.Else != nil {
				unrec(fset, s.Pos(), "%s: encoder condition %s not in IR", msg, cond)
				sc.next()
				continue
			}
			field := strings.TrimSuffix(cond[2:], " != nil")
			inOpt = true
			isc := &stmtCursor{l: is.Body.List}
			es, ok := c.parseEncSlot(isc, msg, true)
			if isc.peek() != nil {
				unrec(fset, isc.peek().Pos(), "%s/%s: trailing statements in optional encoder block", msg, field)
				ok = false
			}
			if ok && es.Name != field {
				unrec(fset, s.Pos(), "%s: block guarded by %s writes %s", msg, field, es.Name)
				ok = false
			}
			if ok && !msgPtr[msg][field] {
				unrec(fset, s.Pos(), "%s/%s: nil test on non-pointer", msg, field)
				ok = false
			}
			if ok {
				opt = append(opt, es)
			}
			sc.next()
			continue
		}
		if inOpt {
			unrec(fset, s.Pos(), "%s: unconditional write after optional elements", msg)
			sc.next()
			continue
		}
		es, ok := c.parseEncSlot(sc, msg, false)
		if ok {
			if msgPtr[msg][es.Name] {
				unrec(fset, s.Pos(), "%s/%s: pointer field written without nil test", msg, es.Name)
			}
			man = append(man, es)
		}
	}
	return
}

// ---------- dispatch ----------

func (c *codecCtx) parseDispatch(top *Pkg, family, hdrField, bodyField string) DispatchFacts {
	fset := top.Fset
	df := DispatchFacts{Family: family}
	fns := top.funcs()
	// header facts
	hobj := top.Types.Scope().Lookup(hdrField)
	if hobj != nil {
		if st, ok := hobj.Type().Underlying().(*types.Struct); ok && st.NumFields() == 1 {
			if arr, ok := st.Field(0).Type().(*types.Array); ok {
				df.HeaderLen = arr.Len()
			}
		}
	}
	if fd, ok := fns[hdrField+".GetMessageType"]; ok {
		// messageType = a.Octet[k]; return messageType
		good := false
		if len(fd.Body.List) == 2 {
			if as, ok := fd.Body.List[0].(*ast.AssignStmt); ok && len(as.Rhs) == 1 {
				if ie, ok := as.Rhs[0].(*ast.IndexExpr); ok && exprStr(ie.X) == "a.Octet" {
					if v, ok := c.constVal(top, ie.Index); ok && isReturn(fd.Body.List[1], exprStr(as.Lhs[0])) {
						df.TypeIndex = v
						good = true
					}
				}
			}
		}
		if !good {
			unrec(fset, fd.Pos(), "%s.GetMessageType not in IR", hdrField)
		}
	}
	msgExpr := "a." + bodyField + "." + hdrField + ".GetMessageType()"
	// Decode
	decName := "Message." + bodyField + "Decode"
	if fd, ok := fns[decName]; !ok {
		unrec(fset, token.NoPos, "%s missing", decName)
	} else {
		l := fd.Body.List
		good := len(l) == 4 &&
			stmtStr(fset, l[0]) == "buffer := bytes.NewBuffer(*byteArray)" &&
			stmtStr(fset, l[1]) == "a."+bodyField+" = New"+bodyField+"()"
		if good {
			is, ok := l[2].(*ast.IfStmt)
			if !ok || is.Else != nil || exprStr(is.Cond) != "err != nil" || !errReturnOK(is.Body, true) {
				good = false
			} else if as, ok := is.Init.(*ast.AssignStmt); !ok || exprStr(as.Rhs[0]) != "binary.Read(buffer, binary.BigEndian, &a."+bodyField+"."+hdrField+")" {
				good = false
			}
		}
		if !good {
			unrec(fset, fd.Pos(), "%s prologue not in IR", decName)
		} else if sw, ok := l[3].(*ast.SwitchStmt); !ok || sw.Init != nil || exprStr(sw.Tag) != msgExpr {
			unrec(fset, l[3].Pos(), "%s: expected switch on message type", decName)
		} else {
			sawDefault := false
			for _, cs := range sw.Body.List {
				cc := cs.(*ast.CaseClause)
				if cc.List == nil {
					sawDefault = true
					if len(cc.Body) != 1 {
						unrec(fset, cc.Pos(), "%s: default is not a single error return", decName)
					} else if rs, ok := cc.Body[0].(*ast.ReturnStmt); !ok || len(rs.Results) != 1 || !strings.HasPrefix(exprStr(rs.Results[0]), "fmt.Errorf(") {
						unrec(fset, cc.Pos(), "%s: default does not return an error", decName)
					}
					continue
				}
				if len(cc.List) != 1 || len(cc.Body) != 2 {
					unrec(fset, cc.Pos(), "%s: case shape not in IR", decName)
					continue
				}
				v, ok := c.constVal(top, cc.List[0])
				if !ok {
					unrec(fset, cc.Pos(), "%s: non-constant case", decName)
					continue
				}
				cname := exprStr(cc.List[0])
				as, ok := cc.Body[0].(*ast.AssignStmt)
				if !ok || as.Tok != token.ASSIGN {
					unrec(fset, cc.Pos(), "%s: case %s does not assign a body", decName, cname)
					continue
				}
				lhs := exprStr(as.Lhs[0])
				pfx := "a." + bodyField + "."
				if !strings.HasPrefix(lhs, pfx) {
					unrec(fset, cc.Pos(), "%s: case %s assigns %s", decName, cname, lhs)
					continue
				}
				m := lhs[len(pfx):]
				if exprStr(as.Rhs[0]) != "nasMessage.New"+m+"("+cname+")" {
					unrec(fset, cc.Pos(), "%s: case %s constructs %s", decName, cname, exprStr(as.Rhs[0]))
					continue
				}
				if !isReturn(cc.Body[1], pfx+"Decode"+m+"(byteArray)") {
					unrec(fset, cc.Pos(), "%s: case %s does not return Decode%s(byteArray)", decName, cname, m)
					continue
				}
				// the body field must be a pointer to nasMessage.<m> embedded in the family struct
				df.Decode = append(df.Decode, DispatchCase{Const: v, Msg: m})
			}
			if !sawDefault {
				unrec(fset, sw.Pos(), "%s: switch has no default error", decName)
			}
		}
	}
	encName := "Message." + bodyField + "Encode"
	if fd, ok := fns[encName]; !ok {
		unrec(fset, token.NoPos, "%s missing", encName)
	} else {
		l := fd.Body.List
		if sw, ok := l[0].(*ast.SwitchStmt); len(l) != 1 || !ok || sw.Init != nil || exprStr(sw.Tag) != msgExpr {
			unrec(fset, fd.Pos(), "%s: body is not a single switch on message type", encName)
		} else {
			sawDefault := false
			for _, cs := range sw.Body.List {
				cc := cs.(*ast.CaseClause)
				if cc.List == nil {
					sawDefault = true
					if len(cc.Body) != 1 {
						unrec(fset, cc.Pos(), "%s: default is not a single error return", encName)
					} else if rs, ok := cc.Body[0].(*ast.ReturnStmt); !ok || len(rs.Results) != 1 || !strings.HasPrefix(exprStr(rs.Results[0]), "fmt.Errorf(") {
						unrec(fset, cc.Pos(), "%s: default does not return an error", encName)
					}
					continue
				}
				if len(cc.List) != 1 || len(cc.Body) != 1 {
					unrec(fset, cc.Pos(), "%s: case shape not in IR", encName)
					continue
				}
				v, ok := c.constVal(top, cc.List[0])
				if !ok {
					unrec(fset, cc.Pos(), "%s: non-constant case", encName)
					continue
				}
				rs, ok := cc.Body[0].(*ast.ReturnStmt)
				pfx := "a." + bodyField + ".Encode"
				if !ok || len(rs.Results) != 1 || !strings.HasPrefix(exprStr(rs.Results[0]), pfx) || !strings.HasSuffix(exprStr(rs.Results[0]), "(buffer)") {
					unrec(fset, cc.Pos(), "%s: case does not return Encode<M>(buffer)", encName)
					continue
				}
				m := strings.TrimSuffix(exprStr(rs.Results[0])[len(pfx):], "(buffer)")
				df.Encode = append(df.Encode, DispatchCase{Const: v, Msg: m})
			}
			if !sawDefault {
				unrec(fset, sw.Pos(), "%s: switch has no default error", encName)
			}
		}
	}
	return df
}

func stmtStr(fset *token.FileSet, s ast.Stmt) string {
	switch t := s.(type) {
	case *ast.AssignStmt:
		var l, r []string
		for _, e := range t.Lhs {
			l = append(l, exprStr(e))
		}
		for _, e := range t.Rhs {
			r = append(r, exprStr(e))
		}
		return strings.Join(l, ", ") + " " + t.Tok.String() + " " + strings.Join(r, ", ")
	case *ast.ExprStmt:
		return exprStr(t.X)
	}
	return "?"
}

// ---------- Lean rendering ----------

func leanGuard(g Guard) string {
	switch g.Kind {
	case "none":
		return ".none"
	case "range":
		return fmt.Sprintf("(.range %d %d)", g.Lo, g.Hi)
	case "min":
		return fmt.Sprintf("(.min %d)", g.Lo)
	case "max":
		return fmt.Sprintf("(.max %d)", g.Hi)
	case "exact":
		return fmt.Sprintf("(.exact %d)", g.Lo)
	case "oneOf":
		var s []string
		for _, v := range g.L {
			s = append(s, fmt.Sprint(v))
		}
		return "(.oneOf [" + strings.Join(s, ", ") + "])"
	}
	return "?"
}

func leanStore(store string, n int64) string {
	if store == "arr" {
		return fmt.Sprintf("(.arr %d)", n)
	}
	return "." + store
}

func leanBool(b bool) string {
	if b {
		return "true"
	}
	return "false"
}

func leanSlot(s Slot) string {
	return fmt.Sprintf("⟨%d, %s, %s, .%s, %s, %d⟩", s.LenSize, leanGuard(s.Guard), leanStore(s.Store, s.ArrN), s.Span, leanBool(s.Alloc), s.Size)
}

func leanOptSlot(s Slot) string {
	return fmt.Sprintf("⟨%d, %s, %s, %s⟩", s.Iei, leanBool(s.Half), leanBool(s.HasIei), leanSlot(s))
}

func leanEncSlot(s EncSlot) string {
	return fmt.Sprintf("⟨%s, %d, %s, .%s⟩", leanBool(s.WritesIei), s.LenSize, leanStore(s.Store, s.ArrN), s.Span)
}

func leanStrList(l []string) string {
	var q []string
	for _, s := range l {
		q = append(q, fmt.Sprintf("%q", s))
	}
	return "[" + strings.Join(q, ", ") + "]"
}

func extractCodec() {
	c := &codecCtx{types: map[string]*TypeInfo{}}
	c.nt = loadPkg("nasType")
	c.nm = loadPkg("nasMessage")
	top := loadPkg(".")
	ntFns := c.nt.funcs()
	nmFns := c.nm.funcs()

	// message list: every type with Decode<M>/Encode<M> methods
	var msgs []string
	for name := range nmFns {
		if i := strings.Index(name, ".Decode"); i > 0 && name[:i] == name[i+7:] {
			msgs = append(msgs, name[:i])
		}
	}
	sort.Strings(msgs)
	var all []MsgFacts
	for _, m := range msgs {
		mf := MsgFacts{Name: m}
		var ok bool
		mf.Fields, mf.StructSize, ok = c.loadMsgStruct(m)
		if !ok {
			unrec(c.nm.Fset, token.NoPos, "%s: struct not found", m)
			continue
		}
		for _, tn := range msgStructs[m] {
			if _, seen := c.types[tn]; !seen {
				ti := c.typeInfo(tn)
				if ti != nil {
					c.checkTypeMethods(ntFns, ti)
				}
			}
		}
		// constructor NewM(iei): m = &M{}; return m
		if fd, ok := nmFns["New"+m]; !ok || len(fd.Body.List) != 2 {
			unrec(c.nm.Fset, token.NoPos, "nasMessage.New%s not in IR", m)
		} else if as, ok := fd.Body.List[0].(*ast.AssignStmt); !ok || exprStr(as.Rhs[0]) != "&"+m+"{}" || !isReturn(fd.Body.List[1], exprStr(as.Lhs[0])) {
			unrec(c.nm.Fset, fd.Pos(), "nasMessage.New%s not in IR", m)
		}
		mf.DecMan, mf.DecOpt = c.parseDecode(m, nmFns[m+".Decode"+m])
		if enc, ok := nmFns[m+".Encode"+m]; ok {
			mf.EncMan, mf.EncOpt = c.parseEncode(m, enc)
		} else {
			unrec(c.nm.Fset, token.NoPos, "%s: no encoder", m)
		}
		all = append(all, mf)
	}
	gmm := c.parseDispatch(top, "gmm", "GmmHeader", "GmmMessage")
	gsm := c.parseDispatch(top, "gsm", "GsmHeader", "GsmMessage")
	c.checkTop(top)

	writeJSON(filepath.Join(*facts, "tables.json"), map[string]interface{}{"messages": all, "dispatch": []DispatchFacts{gmm, gsm}})

	var sb strings.Builder
	sb.WriteString("import NasVerif.Codec.Defs\nimport NasVerif.Codec.Dispatch\n-- REGENERATED by tools/extract on every run from /repo/nasMessage, /repo/nasType, /repo/nas*.go; do not edit.\nnamespace NasVerif.Gen\nopen NasVerif.Codec\n\n")
	for _, m := range all {
		fmt.Fprintf(&sb, "def dec_%s : MsgDef := {\n  man := [\n", m.Name)
		for i, s := range m.DecMan {
			fmt.Fprintf(&sb, "    %s%s  -- %s\n", leanSlot(s), comma(i, len(m.DecMan)), s.Name)
		}
		sb.WriteString("  ],\n  opt := [\n")
		for i, s := range m.DecOpt {
			fmt.Fprintf(&sb, "    %s%s  -- %s\n", leanOptSlot(s), comma(i, len(m.DecOpt)), s.Name)
		}
		sb.WriteString("  ] }\n")
		fmt.Fprintf(&sb, "def enc_%s : EncDef := {\n  man := [\n", m.Name)
		for i, s := range m.EncMan {
			fmt.Fprintf(&sb, "    %s%s  -- %s\n", leanEncSlot(s), comma(i, len(m.EncMan)), s.Name)
		}
		sb.WriteString("  ],\n  opt := [\n")
		for i, s := range m.EncOpt {
			fmt.Fprintf(&sb, "    %s%s  -- %s\n", leanEncSlot(s), comma(i, len(m.EncOpt)), s.Name)
		}
		sb.WriteString("  ] }\n")
		var dn, en, dt []string
		for _, s := range m.DecMan {
			dn = append(dn, s.Name)
			dt = append(dt, s.Type)
		}
		for _, s := range m.DecOpt {
			dn = append(dn, s.Name)
			dt = append(dt, s.Type)
		}
		for _, s := range m.EncMan {
			en = append(en, s.Name)
		}
		for _, s := range m.EncOpt {
			en = append(en, s.Name)
		}
		fmt.Fprintf(&sb, "def decNames_%s : List String := %s\n", m.Name, leanStrList(dn))
		fmt.Fprintf(&sb, "def encNames_%s : List String := %s\n", m.Name, leanStrList(en))
		fmt.Fprintf(&sb, "def fields_%s : List String := %s\n\n", m.Name, leanStrList(m.Fields))
	}
	sb.WriteString("def messages : List MsgEntry := [\n")
	for i, m := range all {
		fmt.Fprintf(&sb, "  ⟨%q, dec_%s, enc_%s, decNames_%s, encNames_%s, fields_%s, %d⟩%s\n", m.Name, m.Name, m.Name, m.Name, m.Name, m.Name, m.StructSize, comma(i, len(all)))
	}
	sb.WriteString("]\n\n")
	for _, d := range []DispatchFacts{gmm, gsm} {
		fmt.Fprintf(&sb, "def dispatch_%s : Dispatch := {\n  headerLen := %d, typeIndex := %d,\n  decode := [", d.Family, d.HeaderLen, d.TypeIndex)
		for i, cse := range d.Decode {
			fmt.Fprintf(&sb, "(%d, %q)%s", cse.Const, cse.Msg, comma(i, len(d.Decode)))
		}
		sb.WriteString("],\n  encode := [")
		for i, cse := range d.Encode {
			fmt.Fprintf(&sb, "(%d, %q)%s", cse.Const, cse.Msg, comma(i, len(d.Encode)))
		}
		sb.WriteString("] }\n\n")
	}
	fmt.Fprintf(&sb, "def epdGmm : Nat := %d\ndef epdGsm : Nat := %d\n", topFacts.EpdGmm, topFacts.EpdGsm)
	fmt.Fprintf(&sb, "def plainDecodeShapeOK : Bool := %s\ndef plainEncodeShapeOK : Bool := %s\n", leanBool(topFacts.DecodeOK), leanBool(topFacts.EncodeOK))
	sb.WriteString("\nend NasVerif.Gen\n")
	writeFile(filepath.Join(*outDir, "Tables.lean"), sb.String())
}

func comma(i, n int) string {
	if i == n-1 {
		return ""
	}
	return ","
}

var topFacts struct {
	EpdGmm, EpdGsm     int64
	DecodeOK, EncodeOK bool
}

// checkTop recognises PlainNasDecode / PlainNasEncode of nas.go
func (c *codecCtx) checkTop(top *Pkg) {
	fns := top.funcs()
	fset := top.Fset
	if fd, ok := fns["Message.PlainNasDecode"]; ok {
		want := []string{
			`if byteArray == nil {return errors.New(...)}`,
			`if len(*byteArray) == 0 {return errors.New(...)}`,
		}
		_ = want
		l := fd.Body.List
		good := len(l) == 5
		if good {
			good = ifErrNew(l[0], "byteArray == nil") && ifErrNew(l[1], "len(*byteArray) == 0") &&
				stmtStr(fset, l[2]) == "epd := GetEPD(*byteArray)"
		}
		if good {
			sw, ok := l[3].(*ast.SwitchStmt)
			if !ok || exprStr(sw.Tag) != "epd" || len(sw.Body.List) != 2 {
				good = false
			} else {
				for i, cs := range sw.Body.List {
					cc := cs.(*ast.CaseClause)
					if len(cc.List) != 1 || len(cc.Body) != 1 {
						good = false
						break
					}
					v, ok := c.constVal(top, cc.List[0])
					if !ok {
						good = false
						break
					}
					if i == 0 && isReturn(cc.Body[0], "a.GmmMessageDecode(byteArray)") {
						topFacts.EpdGmm = v
					} else if i == 1 && isReturn(cc.Body[0], "a.GsmMessageDecode(byteArray)") {
						topFacts.EpdGsm = v
					} else {
						good = false
					}
				}
			}
			if rs, ok := l[4].(*ast.ReturnStmt); !ok || len(rs.Results) != 1 || !strings.HasPrefix(exprStr(rs.Results[0]), "fmt.Errorf(") {
				good = false
			}
		}
		// GetEPD: return byteArray[0]
		if g, ok := fns["GetEPD"]; !ok || len(g.Body.List) != 1 || !isReturn(g.Body.List[0], "byteArray[0]") {
			good = false
		}
		topFacts.DecodeOK = good
		if !good {
			unrec(fset, fd.Pos(), "PlainNasDecode not in IR")
		}
	} else {
		unrec(fset, token.NoPos, "PlainNasDecode missing")
	}
	if fd, ok := fns["Message.PlainNasEncode"]; ok {
		l := fd.Body.List
		good := len(l) == 3 && stmtStr(fset, l[0]) == "data := new(bytes.Buffer)"
		if good {
			is, ok := l[1].(*ast.IfStmt)
			if !ok || exprStr(is.Cond) != "a.GmmMessage != nil" || len(is.Body.List) != 2 ||
				stmtStr(fset, is.Body.List[0]) != "err := a.GmmMessageEncode(data)" || !isReturn2(is.Body.List[1], "data.Bytes()", "err") {
				good = false
			} else if e2, ok := is.Else.(*ast.IfStmt); !ok || exprStr(e2.Cond) != "a.GsmMessage != nil" || e2.Else != nil || len(e2.Body.List) != 2 ||
				stmtStr(fset, e2.Body.List[0]) != "err := a.GsmMessageEncode(data)" || !isReturn2(e2.Body.List[1], "data.Bytes()", "err") {
				good = false
			}
			if rs, ok := l[2].(*ast.ReturnStmt); !ok || len(rs.Results) != 2 || exprStr(rs.Results[0]) != "nil" || !strings.HasPrefix(exprStr(rs.Results[1]), "fmt.Errorf(") {
				good = false
			}
		}
		topFacts.EncodeOK = good
		if !good {
			unrec(fset, fd.Pos(), "PlainNasEncode not in IR")
		}
	} else {
		unrec(fset, token.NoPos, "PlainNasEncode missing")
	}
}

func ifErrNew(s ast.Stmt, cond string) bool {
	is, ok := s.(*ast.IfStmt)
	if !ok || is.Init != nil || is.Else != nil || exprStr(is.Cond) != cond || len(is.Body.List) != 1 {
		return false
	}
	rs, ok := is.Body.List[0].(*ast.ReturnStmt)
	return ok && len(rs.Results) == 1 && strings.HasPrefix(exprStr(rs.Results[0]), "errors.New(")
}

func isReturn2(s ast.Stmt, a, b string) bool {
	rs, ok := s.(*ast.ReturnStmt)
	return ok && len(rs.Results) == 2 && exprStr(rs.Results[0]) == a && exprStr(rs.Results[1]) == b
}
