package main

// nasType accessors -> Acc.E expressions (deep embedding) + documented layout annotations.

import (
	"fmt"
	"go/ast"
	"go/constant"
	"go/token"
	"go/types"
	"path/filepath"
	"regexp"
	"sort"
	"strings"
)

func init() {
	extraParts = append(extraParts, part{"acc", "Acc", extractAccessors})
	partNames = append(partNames, "Acc")
}

type accAnn struct {
	R0, R1, SBit, Len int
	Inf               bool
	NoRow             bool
}

type accPair struct {
	Type, Field string
	Ann         accAnn
	Kind        string // scalar | range | tail | whole
	RetW        int
	Get         string
	Set         []string // "(k, E)"
	Store       string   // octet arr buf
	Lo, Hi      int      // for range/tail
	ArrN        int
}

var annRe = regexp.MustCompile(`^\s*(\w+)\s+Row, sBit, len = \[\s*(\d*)\s*,?\s*(\d*)\s*\],\s*(\d+)\s*,\s*(\d+|INF)\s*$`)

type accx struct {
	p     *Pkg
	ok    bool
	why   string
	param string // setter parameter name
	subst map[string]string
	mask  *ast.FuncDecl
	depth int
}

func (x *accx) fail(f string, a ...interface{}) string {
	if x.ok {
		x.ok, x.why = false, fmt.Sprintf(f, a...)
	}
	return "(.const 0)"
}

func (x *accx) width(e ast.Expr) int {
	if tv, ok := x.p.Info.Types[e]; ok {
		return uintWidth(tv.Type)
	}
	return 0
}

func (x *accx) expr(e ast.Expr) string {
	if tv, ok := x.p.Info.Types[e]; ok && tv.Value != nil && tv.Value.Kind() == constant.Int {
		v, exact := constant.Uint64Val(tv.Value)
		if !exact {
			return x.fail("constant %s", exprStr(e))
		}
		return fmt.Sprintf("(.const %d)", v)
	}
	switch t := e.(type) {
	case *ast.ParenExpr:
		return x.expr(t.X)
	case *ast.Ident:
		if s, ok := x.subst[t.Name]; ok {
			return s
		}
		if t.Name == x.param && x.param != "" {
			return ".arg"
		}
		return x.fail("identifier %s", t.Name)
	case *ast.SelectorExpr:
		if exprStr(t) == "a.Octet" && x.width(t) == 8 {
			return "(.oct 0)"
		}
		return x.fail("selector %s", exprStr(t))
	case *ast.IndexExpr:
		base := exprStr(t.X)
		if base == "a.Octet" || base == "a.Buffer" {
			if tv, ok := x.p.Info.Types[t.Index]; ok && tv.Value != nil {
				i, _ := constant.Int64Val(tv.Value)
				return fmt.Sprintf("(.oct %d)", i)
			}
		}
		return x.fail("index %s", exprStr(t))
	case *ast.BinaryExpr:
		w := x.width(t)
		a, b := x.expr(t.X), x.expr(t.Y)
		switch t.Op {
		case token.AND:
			return "(.and " + a + " " + b + ")"
		case token.OR:
			return "(.or " + a + " " + b + ")"
		case token.XOR:
			return "(.xor " + a + " " + b + ")"
		case token.ADD:
			return fmt.Sprintf("(.add %d %s %s)", w, a, b)
		case token.SUB:
			return fmt.Sprintf("(.sub %d %s %s)", w, a, b)
		case token.SHL:
			return fmt.Sprintf("(.shl %d %s %s)", x.width(t.X), a, b)
		case token.SHR:
			return fmt.Sprintf("(.shr %s %s)", a, b)
		case token.AND_NOT:
			// a &^ b  =  a & (b ^ all-ones) at the width of the expression
			if w > 0 && w <= 64 {
				return fmt.Sprintf("(.and %s (.xor %s (.const %d)))", a, b, uint64(1)<<uint(w)-1)
			}
		}
		return x.fail("operator %s", t.Op)
	case *ast.UnaryExpr:
		// ^x: bitwise complement at the width of the expression
		if w := x.width(t); t.Op == token.XOR && w > 0 && w <= 64 {
			return fmt.Sprintf("(.xor %s (.const %d))", x.expr(t.X), uint64(1)<<uint(w)-1)
		}
		return x.fail("unary operator %s", t.Op)
	case *ast.CallExpr:
		if ftv, ok := x.p.Info.Types[t.Fun]; ok && ftv.IsType() && len(t.Args) == 1 {
			w := uintWidth(ftv.Type)
			if w == 0 {
				return x.fail("conversion %s", exprStr(t))
			}
			return fmt.Sprintf("(.conv %d %s)", w, x.expr(t.Args[0]))
		}
		if id, ok := t.Fun.(*ast.Ident); ok {
			// all arguments constant: evaluate the helper here (straight-line code with if/else over unsigned integers), so
			// that a mask helper written with a conditional still yields the constant it computes
			if fd := x.p.funcs()[id.Name]; fd != nil && fd.Recv == nil && fd.Body != nil {
				var cargs []uint64
				allConst := len(t.Args) > 0
				for _, a := range t.Args {
					tv, ok := x.p.Info.Types[a]
					if !ok || tv.Value == nil || tv.Value.Kind() != constant.Int {
						allConst = false
						break
					}
					v, exact := constant.Uint64Val(tv.Value)
					if !exact {
						allConst = false
						break
					}
					cargs = append(cargs, v)
				}
				if allConst {
					if v, ok := evalConstCall(x.p, fd, cargs); ok {
						// truncated to the helper's result width: keeps the symbolic bit strings as short as the inlined form did
						if w := x.width(t); w > 0 {
							return fmt.Sprintf("(.conv %d (.const %d))", w, v)
						}
						return fmt.Sprintf("(.const %d)", v)
					}
				}
			}
			// a package-level helper with a straight-line body (`x := e` / `x = e` statements, then `return e` or a bare return
			// of the named result): inline it, arguments and locals substituted (GetBitMask is the one the generator uses)
			fd := x.p.funcs()[id.Name]
			if fd != nil && fd.Recv == nil && fd.Body != nil && fd.Type.Results != nil && len(fd.Type.Results.List) == 1 && x.depth < 4 {
				inner := &accx{p: x.p, ok: true, subst: map[string]string{}, depth: x.depth + 1}
				np := 0
				for _, f := range fd.Type.Params.List {
					np += len(f.Names)
				}
				if np != len(t.Args) {
					return x.fail("call %s: arity", exprStr(t))
				}
				for i, a := range t.Args {
					inner.subst[paramName(fd, i)] = x.expr(a)
				}
				named := ""
				if r := fd.Type.Results.List[0]; len(r.Names) == 1 {
					named = r.Names[0].Name
				}
				for i, st := range fd.Body.List {
					switch u := st.(type) {
					case *ast.AssignStmt:
						if len(u.Lhs) != 1 || len(u.Rhs) != 1 || (u.Tok != token.DEFINE && u.Tok != token.ASSIGN) {
							return x.fail("%s body: statement %d not in IR", id.Name, i)
						}
						l, ok := u.Lhs[0].(*ast.Ident)
						if !ok {
							return x.fail("%s body: assignment target", id.Name)
						}
						inner.subst[l.Name] = inner.expr(u.Rhs[0])
					case *ast.ReturnStmt:
						if i != len(fd.Body.List)-1 {
							return x.fail("%s body: early return", id.Name)
						}
						var out string
						if len(u.Results) == 1 {
							out = inner.expr(u.Results[0])
						} else if len(u.Results) == 0 && named != "" {
							out = inner.subst[named]
						}
						if !inner.ok || out == "" {
							return x.fail("%s body: %s", id.Name, inner.why)
						}
						return out
					default:
						return x.fail("%s body: statement %d not in IR", id.Name, i)
					}
				}
				return x.fail("%s body: no return", id.Name)
			}
		}
		return x.fail("call %s", exprStr(t))
	}
	return x.fail("expression %s", exprStr(e))
}

func extractAccessors() {
	p := loadPkg("nasType")
	fns := p.funcs()
	mask := fns["GetBitMask"]
	if mask == nil {
		unrec(p.Fset, 0, "GetBitMask not found")
	}
	var pairs []accPair
	var typeNames []string
	scope := p.Types.Scope()
	for _, n := range scope.Names() {
		if _, ok := scope.Lookup(n).(*types.TypeName); ok {
			if _, ok := scope.Lookup(n).Type().Underlying().(*types.Struct); ok {
				typeNames = append(typeNames, n)
			}
		}
	}
	sort.Strings(typeNames)
	skipped := map[string]bool{}
	nTypes := 0
	allAccTypes := map[string]bool{}
	for _, tn := range typeNames {
		st := scope.Lookup(tn).Type().Underlying().(*types.Struct)
		store, arrN := "", 0
		for i := 0; i < st.NumFields(); i++ {
			f := st.Field(i)
			switch f.Name() {
			case "Octet":
				if a, ok := f.Type().(*types.Array); ok {
					store, arrN = "arr", int(a.Len())
				} else {
					store = "octet"
				}
			case "Buffer":
				store = "buf"
			}
		}
		// collect setters
		var fields []string
		hasIeiField := false
		for i := 0; i < st.NumFields(); i++ {
			if st.Field(i).Name() == "Iei" {
				hasIeiField = true
			}
		}
		for name := range fns {
			if strings.HasPrefix(name, tn+".Set") {
				f := name[len(tn)+4:]
				if (f == "Iei" && hasIeiField) || f == "Len" {
					continue // plain struct fields, recognised structurally with the codecs (checkTypeMethods)
				}
				if _, ok := fns[tn+".Get"+f]; ok {
					fields = append(fields, f)
				}
			}
		}
		sort.Strings(fields)
		if len(fields) > 0 {
			nTypes++
			allAccTypes[tn] = true // the harness registry covers every type with accessors, recognised or not
		}
		for _, f := range fields {
			g, s := fns[tn+".Get"+f], fns[tn+".Set"+f]
			ap := accPair{Type: tn, Field: f, Store: store, ArrN: arrN}
			// annotation (must agree between getter and setter)
			ag, okg := parseAnn(g, f)
			as, oks := parseAnn(s, f)
			if !okg && !oks && f == "Iei" && !hasIeiField && store == "octet" {
				// hand-written half-octet type without annotations: the type-1 IE layout (IEI in bits 8..5 of octet 0)
				ag, as, okg, oks = accAnn{R0: 0, R1: 0, SBit: 8, Len: 4}, accAnn{R0: 0, R1: 0, SBit: 8, Len: 4}, true, true
			}
			if !okg || !oks || ag != as {
				if hand[tn+"."+f] {
					skipped[tn+"."+f] = true
					continue
				}
				unrec(p.Fset, g.Pos(), "%s.%s: layout annotation missing or getter/setter annotations differ", tn, f)
				continue
			}
			ap.Ann = ag
			if !classifyPair(p, mask, g, s, &ap) {
				if hand[tn+"."+f] {
					skipped[tn+"."+f] = true
					continue
				}
				unrec(p.Fset, g.Pos(), "%s.%s: accessor bodies not in IR (%s)", tn, f, ap.Get)
				continue
			}
			pairs = append(pairs, ap)
		}
	}
	// emit
	var sb strings.Builder
	sb.WriteString("import NasVerif.Acc.Layout\nimport NasVerif.Acc.Range\n-- REGENERATED by tools/extract from /repo/nasType on every run; do not edit.\nnamespace NasVerif.Gen.Acc\nopen NasVerif.Acc\n\n")
	sb.WriteString("def pairs : List Pair := [\n")
	first := true
	ns, nr := 0, 0
	for _, ap := range pairs {
		if ap.Kind != "scalar" {
			continue
		}
		ns++
		if !first {
			sb.WriteString(",\n")
		}
		first = false
		fmt.Fprintf(&sb, "  { type := %q, field := %q, ann := ⟨%d, %d, %d, %d⟩, retW := %d,\n    get := %s,\n    set := [%s] }",
			ap.Type, ap.Field, ap.Ann.R0, ap.Ann.R1, ap.Ann.SBit, ap.Ann.Len, ap.RetW, ap.Get, strings.Join(ap.Set, ", "))
	}
	sb.WriteString("\n]\n\ndef ranges : List RangePair := [\n")
	first = true
	for _, ap := range pairs {
		if ap.Kind == "scalar" {
			continue
		}
		nr++
		if !first {
			sb.WriteString(",\n")
		}
		first = false
		inf := "false"
		if ap.Ann.Inf {
			inf = "true"
		}
		fmt.Fprintf(&sb, "  { type := %q, field := %q, r0 := %d, r1 := %d, sBit := %d, len := %d, inf := %s, kind := .%s, isBuf := %s, lo := %d, hi := %d, size := %d }",
			ap.Type, ap.Field, ap.Ann.R0, ap.Ann.R1, ap.Ann.SBit, ap.Ann.Len, inf, ap.Kind, leanBool(ap.Store == "buf"), ap.Lo, ap.Hi, ap.ArrN)
	}
	sb.WriteString("\n]\n\n")
	var sk []string
	for k := range skipped {
		sk = append(sk, k)
	}
	sort.Strings(sk)
	fmt.Fprintf(&sb, "/-- accessor pairs outside the bit-layout IR (text conversions; covered by C12/C14) -/\ndef handModelled : List String := %s\n", leanStrList(sk))
	fmt.Fprintf(&sb, "def typeCount : Nat := %d\n", nTypes)
	sb.WriteString("\nend NasVerif.Gen.Acc\n")
	writeFile(filepath.Join(*outDir, "Accessors.lean"), sb.String())

	// facts for the harness + registry source
	type jf struct {
		Type, Field, Kind, Store string
		R0, R1, SBit, Len        int
		Inf                      bool
		RetW, Lo, Hi, ArrN       int
	}
	var js []jf
	regTypes := map[string]bool{}
	for _, ap := range pairs {
		js = append(js, jf{ap.Type, ap.Field, ap.Kind, ap.Store, ap.Ann.R0, ap.Ann.R1, ap.Ann.SBit, ap.Ann.Len, ap.Ann.Inf, ap.RetW, ap.Lo, ap.Hi, ap.ArrN})
		regTypes[ap.Type] = true
	}
	writeJSON(filepath.Join(*facts, "accessors.json"), js)
	var rt []string
	for t := range allAccTypes {
		regTypes[t] = true
	}
	for t := range regTypes {
		rt = append(rt, t)
	}
	sort.Strings(rt)
	var rs strings.Builder
	rs.WriteString("// Code generated by tools/extract on every run; DO NOT EDIT.\npackage main\n\nimport \"github.com/free5gc/nas/nasType\"\n\nfunc init() {\n")
	for _, t := range rt {
		fmt.Fprintf(&rs, "\tnasTypeRegistry[%q] = func() interface{} { return &nasType.%s{} }\n", t, t)
	}
	rs.WriteString("}\n")
	if *registry != "" {
		writeFile(*registry, rs.String())
	}
	fmt.Printf("extract: accessors: %d scalar pairs, %d range pairs, %d hand-modelled, %d types\n", ns, nr, len(sk), nTypes)
}

// pairs that are text conversions, not bit fields (modelled under C12/C14)
var hand = map[string]bool{"DNN.DNN": true}

func parseAnn(fd *ast.FuncDecl, field string) (accAnn, bool) {
	if fd.Doc == nil {
		return accAnn{}, false
	}
	for _, c := range fd.Doc.List {
		m := annRe.FindStringSubmatch(strings.TrimPrefix(c.Text, "//"))
		if m == nil || m[1] != field {
			continue
		}
		var a accAnn
		if m[2] == "" {
			a.NoRow = true
		} else {
			fmt.Sscan(m[2], &a.R0)
			a.R1 = a.R0
			if m[3] != "" {
				fmt.Sscan(m[3], &a.R1)
			}
		}
		fmt.Sscan(m[4], &a.SBit)
		if m[5] == "INF" {
			a.Inf = true
		} else {
			fmt.Sscan(m[5], &a.Len)
		}
		return a, true
	}
	return accAnn{}, false
}

func constInt(p *Pkg, e ast.Expr) (int, bool) {
	if e == nil {
		return 0, false
	}
	if tv, ok := p.Info.Types[e]; ok && tv.Value != nil {
		v, ok := constant.Int64Val(constant.ToInt(tv.Value))
		return int(v), ok
	}
	return 0, false
}

func classifyPair(p *Pkg, mask *ast.FuncDecl, g, s *ast.FuncDecl, ap *accPair) bool {
	gb, sbd := g.Body.List, s.Body.List
	// ---- scalar: getter `return <expr>`, setter `a.Octet[k] = <expr>` ... ----
	if len(gb) == 1 {
		if rs, ok := gb[0].(*ast.ReturnStmt); ok && len(rs.Results) == 1 {
			w := uintWidth(p.Info.Types[rs.Results[0]].Type)
			if w != 0 && len(s.Type.Params.List) == 1 && len(s.Type.Params.List[0].Names) == 1 &&
				uintWidth(p.Info.Types[s.Type.Params.List[0].Type].Type) == w {
				gx := &accx{p: p, ok: true, mask: mask}
				ap.Get = gx.expr(rs.Results[0])
				if !gx.ok {
					ap.Get = gx.why
					return false
				}
				sx := &accx{p: p, ok: true, mask: mask, param: s.Type.Params.List[0].Names[0].Name}
				for _, st := range sbd {
					as, ok := st.(*ast.AssignStmt)
					if !ok || as.Tok != token.ASSIGN || len(as.Lhs) != 1 || len(as.Rhs) != 1 {
						ap.Get = "setter statement"
						return false
					}
					k := -1
					switch l := as.Lhs[0].(type) {
					case *ast.SelectorExpr:
						if exprStr(l) == "a.Octet" && ap.Store == "octet" {
							k = 0
						}
					case *ast.IndexExpr:
						b := exprStr(l.X)
						if (b == "a.Octet" && ap.Store == "arr") || (b == "a.Buffer" && ap.Store == "buf") {
							if v, ok := constInt(p, l.Index); ok {
								k = v
							}
						}
					}
					if k < 0 {
						ap.Get = "setter target " + exprStr(as.Lhs[0])
						return false
					}
					e := sx.expr(as.Rhs[0])
					if !sx.ok {
						ap.Get = sx.why
						return false
					}
					ap.Set = append(ap.Set, fmt.Sprintf("(%d, %s)", k, e))
				}
				if ap.Ann.Inf || ap.Ann.NoRow {
					ap.Get = "scalar accessor with INF/row-less annotation"
					return false
				}
				ap.Kind, ap.RetW = "scalar", w
				return true
			}
		}
	}
	// ---- ranges ----
	src := "a.Octet"
	if ap.Store == "buf" {
		src = "a.Buffer"
	}
	ret := ""
	if g.Type.Results != nil && len(g.Type.Results.List) == 1 && len(g.Type.Results.List[0].Names) == 1 {
		ret = g.Type.Results.List[0].Names[0].Name
	}
	par := ""
	if len(s.Type.Params.List) == 1 && len(s.Type.Params.List[0].Names) == 1 {
		par = s.Type.Params.List[0].Names[0].Name
	}
	if ret == "" || par == "" {
		ap.Get = "unnamed result/parameter"
		return false
	}
	sliceOf := func(e ast.Expr) (lo, hi int, okk bool, open bool) {
		se, ok := e.(*ast.SliceExpr)
		if !ok || exprStr(se.X) != src {
			return 0, 0, false, false
		}
		lo, ok1 := constInt(p, se.Low)
		if se.Low == nil {
			lo, ok1 = 0, true
		}
		if se.High == nil {
			return lo, 0, ok1, true
		}
		hi, ok2 := constInt(p, se.High)
		return lo, hi, ok1 && ok2, false
	}
	callCopy := func(st ast.Stmt) (dst, srcE ast.Expr, ok bool) {
		es, ok := st.(*ast.ExprStmt)
		if !ok {
			return nil, nil, false
		}
		c, ok := es.X.(*ast.CallExpr)
		if !ok || exprStr(c.Fun) != "copy" || len(c.Args) != 2 {
			return nil, nil, false
		}
		return c.Args[0], c.Args[1], true
	}
	// fixed range: copy(R[:], src[lo:hi]); return R   /   copy(src[lo:hi], V[:])
	if len(gb) == 2 && len(sbd) == 1 && isReturn(gb[1], ret) {
		if d, se, ok := callCopy(gb[0]); ok && exprStr(d) == ret+"[:]" {
			if lo, hi, ok, open := sliceOf(se); ok && !open {
				if d2, s2, ok := callCopy(sbd[0]); ok && exprStr(s2) == par+"[:]" {
					if lo2, hi2, ok, open2 := sliceOf(d2); ok && !open2 && lo2 == lo && hi2 == hi {
						// result array length must be hi-lo
						if arr, ok := p.Info.Types[g.Type.Results.List[0].Type].Type.(*types.Array); ok && int(arr.Len()) == hi-lo {
							ap.Kind, ap.Lo, ap.Hi = "range", lo, hi
							return true
						}
					}
				}
			}
		}
	}
	// whole / tail of Buffer: R = make([]uint8, len(a.Buffer)[-lo]); copy(R, a.Buffer[lo:]); return R  /  copy(a.Buffer[lo:], V)
	if len(gb) == 3 && len(sbd) == 1 && isReturn(gb[2], ret) && ap.Store == "buf" {
		as, ok := gb[0].(*ast.AssignStmt)
		if ok && len(as.Lhs) == 1 && exprStr(as.Lhs[0]) == ret {
			mk := strings.ReplaceAll(exprStr(as.Rhs[0]), " ", "")
			if d, se, ok := callCopy(gb[1]); ok && exprStr(d) == ret {
				lo := -1
				if exprStr(se) == "a.Buffer" && mk == "make([]uint8,len(a.Buffer))" {
					lo = 0
				} else if l, _, ok, open := sliceOf(se); ok && open && mk == fmt.Sprintf("make([]uint8,len(a.Buffer)-%d)", l) {
					lo = l
				}
				if lo >= 0 {
					if d2, s2, ok := callCopy(sbd[0]); ok && exprStr(s2) == par {
						okd := false
						if lo == 0 && exprStr(d2) == "a.Buffer" {
							okd = true
						} else if l2, _, ok, open := sliceOf(d2); ok && open && l2 == lo {
							okd = true
						}
						if okd {
							ap.Kind, ap.Lo = "tail", lo
							return true
						}
					}
				}
			}
		}
	}
	ap.Get = "shape"
	return false
}

// ---- a small evaluator for helper functions over unsigned integers (used only when every argument is a constant) ----

type cval struct {
	v uint64
	w int // width in bits (0: boolean)
}

type cenv struct {
	p    *Pkg
	vars map[string]cval
	ret  *cval
	ok   bool
}

func maskW(v uint64, w int) uint64 {
	if w <= 0 || w >= 64 {
		return v
	}
	return v & (uint64(1)<<uint(w) - 1)
}

func evalConstCall(p *Pkg, fd *ast.FuncDecl, args []uint64) (uint64, bool) {
	if fd.Type.Results == nil || len(fd.Type.Results.List) != 1 {
		return 0, false
	}
	e := &cenv{p: p, vars: map[string]cval{}, ok: true}
	i := 0
	for _, f := range fd.Type.Params.List {
		w := uintWidth(p.Info.TypeOf(f.Type))
		if w == 0 {
			return 0, false
		}
		for _, n := range f.Names {
			if i >= len(args) {
				return 0, false
			}
			e.vars[n.Name] = cval{maskW(args[i], w), w}
			i++
		}
	}
	if i != len(args) {
		return 0, false
	}
	rw := uintWidth(p.Info.TypeOf(fd.Type.Results.List[0].Type))
	if rw == 0 {
		return 0, false
	}
	named := ""
	if r := fd.Type.Results.List[0]; len(r.Names) == 1 {
		named = r.Names[0].Name
		e.vars[named] = cval{0, rw}
	}
	e.block(fd.Body.List, named)
	if !e.ok || e.ret == nil {
		return 0, false
	}
	return maskW(e.ret.v, rw), true
}

func (e *cenv) block(list []ast.Stmt, named string) {
	for _, st := range list {
		if !e.ok || e.ret != nil {
			return
		}
		switch u := st.(type) {
		case *ast.AssignStmt:
			if len(u.Lhs) != 1 || len(u.Rhs) != 1 {
				e.ok = false
				return
			}
			id, ok := u.Lhs[0].(*ast.Ident)
			if !ok {
				e.ok = false
				return
			}
			r := e.expr(u.Rhs[0])
			switch u.Tok {
			case token.DEFINE:
				w := uintWidth(e.p.Info.TypeOf(id))
				if w == 0 {
					e.ok = false
					return
				}
				e.vars[id.Name] = cval{maskW(r.v, w), w}
			case token.ASSIGN:
				old, ok := e.vars[id.Name]
				if !ok {
					e.ok = false
					return
				}
				e.vars[id.Name] = cval{maskW(r.v, old.w), old.w}
			default:
				op := map[token.Token]token.Token{token.ADD_ASSIGN: token.ADD, token.SUB_ASSIGN: token.SUB, token.AND_ASSIGN: token.AND,
					token.OR_ASSIGN: token.OR, token.XOR_ASSIGN: token.XOR, token.SHL_ASSIGN: token.SHL, token.SHR_ASSIGN: token.SHR,
					token.AND_NOT_ASSIGN: token.AND_NOT}[u.Tok]
				old, ok := e.vars[id.Name]
				if !ok || op == token.ILLEGAL {
					e.ok = false
					return
				}
				e.vars[id.Name] = cval{maskW(e.binop(op, old, r).v, old.w), old.w}
			}
		case *ast.IfStmt:
			if u.Init != nil {
				e.ok = false
				return
			}
			c := e.expr(u.Cond)
			if c.v != 0 {
				e.block(u.Body.List, named)
			} else if u.Else != nil {
				switch el := u.Else.(type) {
				case *ast.BlockStmt:
					e.block(el.List, named)
				case *ast.IfStmt:
					e.block([]ast.Stmt{el}, named)
				default:
					e.ok = false
				}
			}
		case *ast.ReturnStmt:
			if len(u.Results) == 1 {
				r := e.expr(u.Results[0])
				e.ret = &r
			} else if len(u.Results) == 0 && named != "" {
				r := e.vars[named]
				e.ret = &r
			} else {
				e.ok = false
			}
		case *ast.BlockStmt:
			e.block(u.List, named)
		default:
			e.ok = false
		}
	}
}

func (e *cenv) binop(op token.Token, a, b cval) cval {
	w := a.w
	bool2 := func(c bool) cval {
		if c {
			return cval{1, 0}
		}
		return cval{0, 0}
	}
	switch op {
	case token.ADD:
		return cval{maskW(a.v+b.v, w), w}
	case token.SUB:
		return cval{maskW(a.v-b.v, w), w}
	case token.MUL:
		return cval{maskW(a.v*b.v, w), w}
	case token.AND:
		return cval{a.v & b.v, w}
	case token.OR:
		return cval{a.v | b.v, w}
	case token.XOR:
		return cval{a.v ^ b.v, w}
	case token.AND_NOT:
		return cval{a.v &^ b.v, w}
	case token.SHL:
		if b.v >= 64 {
			return cval{0, w}
		}
		return cval{maskW(a.v<<b.v, w), w}
	case token.SHR:
		if b.v >= 64 {
			return cval{0, w}
		}
		return cval{a.v >> b.v, w}
	case token.LSS:
		return bool2(a.v < b.v)
	case token.LEQ:
		return bool2(a.v <= b.v)
	case token.GTR:
		return bool2(a.v > b.v)
	case token.GEQ:
		return bool2(a.v >= b.v)
	case token.EQL:
		return bool2(a.v == b.v)
	case token.NEQ:
		return bool2(a.v != b.v)
	case token.LAND:
		return bool2(a.v != 0 && b.v != 0)
	case token.LOR:
		return bool2(a.v != 0 || b.v != 0)
	}
	e.ok = false
	return cval{}
}

func (e *cenv) expr(x ast.Expr) cval {
	if tv, ok := e.p.Info.Types[x]; ok && tv.Value != nil && tv.Value.Kind() == constant.Int {
		v, exact := constant.Uint64Val(tv.Value)
		if !exact {
			e.ok = false
			return cval{}
		}
		w := uintWidth(tv.Type)
		return cval{maskW(v, w), w}
	}
	switch t := x.(type) {
	case *ast.ParenExpr:
		return e.expr(t.X)
	case *ast.Ident:
		if v, ok := e.vars[t.Name]; ok {
			return v
		}
	case *ast.BinaryExpr:
		a, b := e.expr(t.X), e.expr(t.Y)
		r := e.binop(t.Op, a, b)
		if w := uintWidth(e.p.Info.TypeOf(t)); w != 0 {
			r = cval{maskW(r.v, w), w}
		}
		return r
	case *ast.UnaryExpr:
		a := e.expr(t.X)
		switch t.Op {
		case token.XOR:
			return cval{maskW(^a.v, a.w), a.w}
		case token.NOT:
			if a.v == 0 {
				return cval{1, 0}
			}
			return cval{0, 0}
		case token.SUB:
			return cval{maskW(-a.v, a.w), a.w}
		}
	case *ast.CallExpr:
		if ftv, ok := e.p.Info.Types[t.Fun]; ok && ftv.IsType() && len(t.Args) == 1 {
			if w := uintWidth(ftv.Type); w != 0 {
				return cval{maskW(e.expr(t.Args[0]).v, w), w}
			}
		}
	}
	e.ok = false
	return cval{}
}
