package main

// Integer-expression translator: typed Go expressions over uintN -> Lean `BitVec N` terms (shallow), and
// straight-line methods on a struct of scalar fields -> state-passing Lean definitions.

import (
	"fmt"
	"go/ast"
	"go/constant"
	"go/token"
	"go/types"
	"strings"
)

type intx struct {
	p      *Pkg
	env    map[string]string // Go identifier -> Lean term (current SSA name)
	recv   string            // receiver name
	fields map[string]string // receiver field -> Lean term (current value)
	ok     bool
	why    string
	// calls to other methods of the same receiver type: name -> (lean name, hasResult)
	methods map[string]bool
	prefix  string
}

func (x *intx) fail(format string, a ...interface{}) string {
	if x.ok {
		x.ok = false
		x.why = fmt.Sprintf(format, a...)
	}
	return "sorryNotTranslated"
}

func uintWidth(t types.Type) int {
	if t == nil {
		return 0
	}
	b, ok := t.Underlying().(*types.Basic)
	if !ok {
		return 0
	}
	switch b.Kind() {
	case types.Uint8:
		return 8
	case types.Uint16:
		return 16
	case types.Uint32:
		return 32
	case types.Uint64:
		return 64
	}
	return 0
}

func (x *intx) typeOf(e ast.Expr) types.Type {
	if tv, ok := x.p.Info.Types[e]; ok {
		return tv.Type
	}
	return nil
}

// expr translates e to a Lean term of type BitVec w (w from the Go type) or Bool.
func (x *intx) expr(e ast.Expr) string {
	tv, has := x.p.Info.Types[e]
	if has && tv.Value != nil {
		// constant: typed by context
		switch tv.Value.Kind() {
		case constant.Bool:
			if constant.BoolVal(tv.Value) {
				return "true"
			}
			return "false"
		case constant.Int:
			w := uintWidth(tv.Type)
			if w == 0 {
				return x.fail("constant %s of non-uint type %v", exprStr(e), tv.Type)
			}
			v, _ := constant.Uint64Val(tv.Value)
			return fmt.Sprintf("%d#%d", v, w)
		}
		return x.fail("constant kind %v", tv.Value.Kind())
	}
	switch t := e.(type) {
	case *ast.ParenExpr:
		return x.expr(t.X)
	case *ast.Ident:
		if v, ok := x.env[t.Name]; ok {
			return v
		}
		return x.fail("free identifier %s", t.Name)
	case *ast.SelectorExpr:
		if id, ok := t.X.(*ast.Ident); ok && id.Name == x.recv {
			if v, ok := x.fields[t.Sel.Name]; ok {
				return v
			}
		}
		return x.fail("selector %s", exprStr(e))
	case *ast.UnaryExpr:
		switch t.Op {
		case token.XOR:
			return "(~~~" + x.expr(t.X) + ")"
		case token.NOT:
			return "(!" + x.expr(t.X) + ")"
		}
		return x.fail("unary %s", t.Op)
	case *ast.BinaryExpr:
		a := x.expr(t.X)
		switch t.Op {
		case token.SHL, token.SHR:
			op := "<<<"
			if t.Op == token.SHR {
				op = ">>>"
			}
			if uintWidth(x.typeOf(t.X)) == 0 {
				return x.fail("shift of non-uint %s", exprStr(t.X))
			}
			if ctv, ok := x.p.Info.Types[t.Y]; ok && ctv.Value != nil {
				n, _ := constant.Uint64Val(constant.ToInt(ctv.Value))
				return fmt.Sprintf("(%s %s %d)", a, op, n)
			}
			if uintWidth(x.typeOf(t.Y)) == 0 {
				return x.fail("shift count of non-uint type %s", exprStr(t.Y))
			}
			return fmt.Sprintf("(%s %s (%s).toNat)", a, op, x.expr(t.Y))
		}
		b := x.expr(t.Y)
		wa, wb := uintWidth(x.typeOf(t.X)), uintWidth(x.typeOf(t.Y))
		isBool := func(e ast.Expr) bool {
			bt, ok := x.typeOf(e).Underlying().(*types.Basic)
			return ok && bt.Info()&types.IsBoolean != 0
		}
		switch t.Op {
		case token.LAND:
			return "(" + a + " && " + b + ")"
		case token.LOR:
			return "(" + a + " || " + b + ")"
		}
		if wa == 0 || wa != wb {
			if (t.Op == token.EQL || t.Op == token.NEQ) && isBool(t.X) {
				if t.Op == token.EQL {
					return "(" + a + " == " + b + ")"
				}
				return "(" + a + " != " + b + ")"
			}
			return x.fail("operands of %s are not same-width uints: %s", t.Op, exprStr(e))
		}
		switch t.Op {
		case token.ADD:
			return "(" + a + " + " + b + ")"
		case token.SUB:
			return "(" + a + " - " + b + ")"
		case token.MUL:
			return "(" + a + " * " + b + ")"
		case token.AND:
			return "(" + a + " &&& " + b + ")"
		case token.OR:
			return "(" + a + " ||| " + b + ")"
		case token.XOR:
			return "(" + a + " ^^^ " + b + ")"
		case token.AND_NOT:
			return "(" + a + " &&& ~~~" + b + ")"
		case token.EQL:
			return "(" + a + " == " + b + ")"
		case token.NEQ:
			return "(" + a + " != " + b + ")"
		case token.LSS:
			return "(decide (" + a + " < " + b + "))"
		case token.LEQ:
			return "(decide (" + a + " ≤ " + b + "))"
		case token.GTR:
			return "(decide (" + a + " > " + b + "))"
		case token.GEQ:
			return "(decide (" + a + " ≥ " + b + "))"
		case token.QUO, token.REM:
			// only by a non-zero constant (division by zero panics in Go)
			if ctv, ok := x.p.Info.Types[t.Y]; ok && ctv.Value != nil && constant.Sign(ctv.Value) != 0 {
				if t.Op == token.QUO {
					return "(" + a + " / " + b + ")"
				}
				return "(" + a + " % " + b + ")"
			}
			return x.fail("division by a non-constant: %s", exprStr(e))
		}
		return x.fail("binary %s", t.Op)
	case *ast.CallExpr:
		// conversion T(x)
		if ftv, ok := x.p.Info.Types[t.Fun]; ok && ftv.IsType() && len(t.Args) == 1 {
			w := uintWidth(ftv.Type)
			ws := uintWidth(x.typeOf(t.Args[0]))
			if w == 0 || ws == 0 {
				return x.fail("conversion %s", exprStr(e))
			}
			if w == ws {
				return x.expr(t.Args[0])
			}
			return fmt.Sprintf("((%s).setWidth %d)", x.expr(t.Args[0]), w)
		}
		// pure call to a translated package function
		if id, ok := t.Fun.(*ast.Ident); ok {
			if _, isFn := x.p.Info.Uses[id].(*types.Func); isFn {
				var args []string
				for _, a := range t.Args {
					args = append(args, x.expr(a))
				}
				return "(" + x.prefix + id.Name + " " + strings.Join(args, " ") + ")"
			}
		}
		return x.fail("call %s", exprStr(e))
	}
	return x.fail("expression %s (%T)", exprStr(e), e)
}

// ---------- straight-line methods over a struct of scalar uint fields ----------

type methodDef struct {
	Name    string
	Lean    string
	Params  []string // "name : BitVec w"
	Result  string   // "" or BitVec type
	OK      bool
}

// translateMethod: receiver *T with scalar fields `fieldOrder`; body straight-line.
// Lean: def <prefix><Name> (st : State) (params) : State × Ret   where State = product of fields (single field: BitVec w)
func translateMethod(p *Pkg, fd *ast.FuncDecl, fieldOrder []string, fieldW map[string]int, prefix string, methods map[string]*ast.FuncDecl) (string, bool, string) {
	x := &intx{p: p, env: map[string]string{}, fields: map[string]string{}, ok: true, prefix: prefix}
	if fd.Recv == nil || len(fd.Recv.List) != 1 || len(fd.Recv.List[0].Names) != 1 {
		return "", false, "no receiver"
	}
	x.recv = fd.Recv.List[0].Names[0].Name
	var params []string
	for _, f := range fd.Type.Params.List {
		w := uintWidth(p.Info.Types[f.Type].Type)
		if w == 0 {
			return "", false, "parameter of non-uint type"
		}
		for _, n := range f.Names {
			params = append(params, fmt.Sprintf("(%s : BitVec %d)", n.Name, w))
			x.env[n.Name] = n.Name
		}
	}
	retW := 0
	if fd.Type.Results != nil {
		if len(fd.Type.Results.List) != 1 || len(fd.Type.Results.List[0].Names) > 0 {
			return "", false, "result shape"
		}
		retW = uintWidth(p.Info.Types[fd.Type.Results.List[0].Type].Type)
		if retW == 0 {
			return "", false, "result of non-uint type"
		}
	}
	var stParams []string
	for _, f := range fieldOrder {
		x.fields[f] = "s_" + f
		stParams = append(stParams, fmt.Sprintf("(s_%s : BitVec %d)", f, fieldW[f]))
	}
	var lets []string
	gen := 0
	fresh := func(base string) string { gen++; return fmt.Sprintf("%s_%d", base, gen) }
	assignField := func(f, val string) {
		n := fresh("s_" + f)
		lets = append(lets, fmt.Sprintf("let %s : BitVec %d := %s", n, fieldW[f], val))
		x.fields[f] = n
	}
	stateTuple := func() string {
		var v []string
		for _, f := range fieldOrder {
			v = append(v, x.fields[f])
		}
		if len(v) == 1 {
			return v[0]
		}
		return "(" + strings.Join(v, ", ") + ")"
	}
	ret := ""
	binop := map[token.Token]token.Token{token.ADD_ASSIGN: token.ADD, token.SUB_ASSIGN: token.SUB, token.AND_ASSIGN: token.AND,
		token.OR_ASSIGN: token.OR, token.XOR_ASSIGN: token.XOR, token.SHL_ASSIGN: token.SHL, token.SHR_ASSIGN: token.SHR, token.AND_NOT_ASSIGN: token.AND_NOT}
	fieldOf := func(e ast.Expr) (string, bool) {
		se, ok := e.(*ast.SelectorExpr)
		if !ok {
			return "", false
		}
		id, ok := se.X.(*ast.Ident)
		if !ok || id.Name != x.recv {
			return "", false
		}
		_, ok = fieldW[se.Sel.Name]
		return se.Sel.Name, ok
	}
	for i, s := range fd.Body.List {
		if ret != "" {
			return "", false, "statement after return"
		}
		switch t := s.(type) {
		case *ast.AssignStmt:
			if len(t.Lhs) != 1 || len(t.Rhs) != 1 {
				return "", false, "multi-assign"
			}
			var rhs string
			if op, isOp := binop[t.Tok]; isOp {
				rhs = x.expr(&ast.BinaryExpr{X: t.Lhs[0], Op: op, Y: t.Rhs[0]})
				// synthesized node has no type info: translate by hand
				if !x.ok {
					x.ok, x.why = true, ""
					a, b := x.expr(t.Lhs[0]), x.expr(t.Rhs[0])
					sym := map[token.Token]string{token.ADD: "+", token.SUB: "-", token.AND: "&&&", token.OR: "|||", token.XOR: "^^^"}[op]
					if sym == "" {
						return "", false, "op-assign " + t.Tok.String()
					}
					rhs = "(" + a + " " + sym + " " + b + ")"
				}
			} else if t.Tok == token.ASSIGN || t.Tok == token.DEFINE {
				rhs = x.expr(t.Rhs[0])
			} else {
				return "", false, "assignment token " + t.Tok.String()
			}
			if f, ok := fieldOf(t.Lhs[0]); ok {
				assignField(f, rhs)
			} else if id, ok := t.Lhs[0].(*ast.Ident); ok {
				w := uintWidth(x.typeOf(t.Lhs[0]))
				if w == 0 {
					if o := p.Info.Defs[id]; o != nil {
						w = uintWidth(o.Type())
					}
				}
				if w == 0 {
					return "", false, "local of non-uint type"
				}
				n := fresh(id.Name)
				lets = append(lets, fmt.Sprintf("let %s : BitVec %d := %s", n, w, rhs))
				x.env[id.Name] = n
			} else {
				return "", false, "assignment target " + exprStr(t.Lhs[0])
			}
		case *ast.IncDecStmt:
			f, ok := fieldOf(t.X)
			if !ok {
				return "", false, "inc/dec target"
			}
			op := "+"
			if t.Tok == token.DEC {
				op = "-"
			}
			assignField(f, fmt.Sprintf("(%s %s 1#%d)", x.fields[f], op, fieldW[f]))
		case *ast.ExprStmt:
			// call of another method on the same receiver: recv.M(args)
			call, ok := t.X.(*ast.CallExpr)
			if !ok {
				return "", false, "expression statement"
			}
			se, ok := call.Fun.(*ast.SelectorExpr)
			if !ok {
				return "", false, "call shape"
			}
			id, ok := se.X.(*ast.Ident)
			if !ok || id.Name != x.recv {
				return "", false, "call on other object"
			}
			if _, ok := methods[se.Sel.Name]; !ok {
				return "", false, "call of unknown method " + se.Sel.Name
			}
			var args []string
			for _, a := range call.Args {
				args = append(args, x.expr(a))
			}
			var cur []string
			for _, f := range fieldOrder {
				cur = append(cur, x.fields[f])
			}
			r := fresh("r")
			lets = append(lets, fmt.Sprintf("let %s := %s%s %s %s", r, prefix, se.Sel.Name, strings.Join(cur, " "), strings.Join(args, " ")))
			// state components of the result
			for k, f := range fieldOrder {
				proj := r + ".1"
				if len(fieldOrder) > 1 {
					proj = fmt.Sprintf("%s.1.%d", r, k+1) // not needed for single-field structs
				}
				assignField(f, proj)
			}
		case *ast.ReturnStmt:
			if len(t.Results) != 1 || retW == 0 {
				return "", false, "return shape"
			}
			ret = x.expr(t.Results[0])
			_ = i
		default:
			return "", false, fmt.Sprintf("statement %T", s)
		}
		if !x.ok {
			return "", false, x.why
		}
	}
	var sb strings.Builder
	retT := "Unit"
	retV := "()"
	if retW != 0 {
		if ret == "" {
			return "", false, "missing return"
		}
		retT = fmt.Sprintf("BitVec %d", retW)
		retV = ret
	}
	stT := fmt.Sprintf("BitVec %d", fieldW[fieldOrder[0]])
	if len(fieldOrder) > 1 {
		return "", false, "multi-field state not supported yet"
	}
	fmt.Fprintf(&sb, "def %s%s %s %s : %s × %s :=\n", prefix, fd.Name.Name, strings.Join(stParams, " "), strings.Join(params, " "), stT, retT)
	for _, l := range lets {
		sb.WriteString("  " + l + "\n")
	}
	fmt.Fprintf(&sb, "  (%s, %s)\n", stateTuple(), retV)
	return sb.String(), true, ""
}
