#!/bin/sh
# setup_cmd: build the framework offline from files on disk only.
set -e
cd "$(dirname "$0")"
export GOFLAGS=-mod=mod GOPROXY=off GOSUMDB=off GOTOOLCHAIN=local CGO_ENABLED=0
mkdir -p build/facts lean/NasVerif/Gen evidence
cp /repo/go.sum tools/go.sum
(cd tools && go build -o ../build/extract ./extract)
rm -f lean/NasVerif/Gen/*.lean tools/harness/zz_registry_gen.go
./build/extract -repo /repo -out lean/NasVerif/Gen -facts build/facts -registry tools/harness/zz_registry_gen.go
(cd tools && go build -tags verif -o ../build/harness ./harness)
(cd lean && lake build NasVerif driver)
echo setup ok
