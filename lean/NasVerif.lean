import NasVerif.Prelude.Basic
import NasVerif.Codec.Defs
