import NasVerif.Prelude.Basic
import NasVerif.Codec.Defs
import NasVerif.Codec.Dispatch
import NasVerif.Codec.Theorems
import NasVerif.Gen.Tables
import NasVerif.Gen.Unrecognised
