import NasVerif.Driver.CodecOps
import NasVerif.Driver.SpecOps
import NasVerif.Driver.CounterOps
import NasVerif.Driver.AccOps
import NasVerif.Driver.SecOps
import NasVerif.Driver.IdGenOps
import NasVerif.Driver.PcoOps
import NasVerif.Driver.Conv17Ops
import NasVerif.Driver.ConvertOps
import NasVerif.Driver.QosOps
import NasVerif.Driver.UePolicyOps
open NasVerif NasVerif.Driver

def step (line : String) : String :=
  let toks := (line.trimAscii.toString.splitOn " ").filter (· ≠ "")
  match (codecOp toks <|> specOp toks <|> counterOp toks <|> accOp toks <|> secOp toks <|> idgOp toks <|> pcoOp toks <|> conv17Op toks <|> convOp toks <|> qosOp toks <|> upcOp toks) with
  | some r => r
  | none => "bad-op"

partial def loop (h : IO.FS.Stream) (out : IO.FS.Stream) : IO Unit := do
  let line ← h.getLine
  if line.isEmpty then return ()
  out.putStrLn (step line)
  loop h out

def main : IO Unit := do
  let out ← IO.getStdout
  loop (← IO.getStdin) out
