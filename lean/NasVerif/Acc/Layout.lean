import NasVerif.Acc.Sound
/-!
# Documented layout of a field (`Row, sBit, len = [r0, r1], sBit, len`), the per-pair checker, and what a passed
check means (theorems `get_spec`, `set_spec`, `set_get`, `set_frame`).

The field is the big-endian bit string of `len` bits that starts at bit `sBit` (1 = LSB … 8 = MSB) of octet `r0`
and continues from bit 8 of the following octets.
-/
namespace NasVerif.Acc

/-- position (octet, bit 0..7) of bit `p` (0 = least significant) of the field -/
def posOf (r0 sBit len p : Nat) : Nat × Nat :=
  let off := (8 - sBit) + (len - 1 - p)
  (r0 + off / 8, 7 - off % 8)

def expectedGet (r0 sBit len : Nat) : SV :=
  (List.range len).map (fun p => Bit.o (posOf r0 sBit len p).1 (posOf r0 sBit len p).2)

/-- index `p` of the field bit stored at (octet i, bit j), if any -/
def findPos (r0 sBit len i j : Nat) : Option Nat :=
  (List.range len).find? (fun p => posOf r0 sBit len p == (i, j))

def expectedSet (r0 sBit len i : Nat) : SV :=
  (List.range 8).map (fun j => match findPos r0 sBit len i j with | some p => Bit.a p | none => Bit.o i j)

abbrev Store := List (Nat × SV)     -- symbolic contents of the octets assigned so far

def Store.get (s : Store) (i : Nat) : SV :=
  match s.lookup i with
  | some bs => bs
  | none => octBits i

structure Ann where
  r0 : Nat
  r1 : Nat
  sBit : Nat
  len : Nat
deriving DecidableEq, Repr, Inhabited

structure Pair where
  type   : String
  field  : String
  ann    : Ann
  retW   : Nat                    -- width of the getter's result / setter's parameter
  get    : E
  set    : List (Nat × E)         -- `a.Octet[k] = e`, in source order
deriving Repr, Inhabited

/-- equal as bit strings with implicit trailing zeros -/
def trimEq (a b : SV) : Bool :=
  (List.range (max a.length b.length)).all (fun j => a.getD j .zero == b.getD j .zero)

def getOK (p : Pair) : Bool :=
  match sym octBits 0 p.get with
  | some bs => trimEq bs (expectedGet p.ann.r0 p.ann.sBit p.ann.len)
  | none => false

def symSet (aw : Nat) : List (Nat × E) → Store → Option Store
  | [], s => some s
  | (k, e) :: r, s =>
    match sym s.get aw e with
    | some bs => symSet aw r ((k, bs) :: s)
    | none => none

def annOK (a : Ann) (w : Nat) : Bool :=
  decide (1 ≤ a.sBit ∧ a.sBit ≤ 8 ∧ 1 ≤ a.len ∧ a.len ≤ w ∧ a.r0 ≤ a.r1 ∧
    a.r1 = a.r0 + ((8 - a.sBit) + (a.len - 1)) / 8)

def setOK (p : Pair) : Bool :=
  match symSet p.retW p.set [] with
  | some s =>
    (List.range (p.ann.r1 - p.ann.r0 + 1)).all (fun d =>
      trimEq (s.get (p.ann.r0 + d)) (expectedSet p.ann.r0 p.ann.sBit p.ann.len (p.ann.r0 + d))) &&
    p.set.all (fun (k, _) => decide (p.ann.r0 ≤ k ∧ k ≤ p.ann.r1))
  | none => false

def pairOK (p : Pair) : Bool := annOK p.ann p.retW && getOK p && setOK p

/-! ## concrete execution of a setter -/

def upd (f : Nat → Nat) (k v : Nat) : Nat → Nat := fun i => if i = k then v else f i

def execSet (arg : Nat) : List (Nat × E) → (Nat → Nat) → (Nat → Nat)
  | [], cur => cur
  | (k, e) :: r, cur => execSet arg r (upd cur k (eval ⟨cur, arg⟩ e))

/-! ## lemmas -/

theorem bitAt_of_trimEq (env : Env) (a b : SV) (h : trimEq a b = true) (j : Nat) : bitAt env a j = bitAt env b j := by
  unfold trimEq at h
  rw [List.all_eq_true] at h
  unfold bitAt
  by_cases hj : j < max a.length b.length
  · have := h j (by simpa using hj)
    have : a.getD j .zero = b.getD j .zero := by simpa using this
    rw [this]
  · have ha : a.length ≤ j := by omega
    have hb : b.length ≤ j := by omega
    simp [List.getD_eq_getElem?_getD, List.getElem?_eq_none ha, List.getElem?_eq_none hb]

theorem agree_octBits (env : Env) (h : ∀ i, env.oct i < 256) : Agree env octBits env.oct := by
  intro i j
  simp only [octBits, bitAt_map_range, Bit.ev]
  by_cases hj : j < 8
  · simp [hj]
  · have h8 : 8 ≤ j := by omega
    have : (env.oct i).testBit j = false :=
      Nat.testBit_lt_two_pow (Nat.lt_of_lt_of_le (h i) (Nat.pow_le_pow_right (n := 2) (by omega) h8))
    simp [hj, this]

theorem bitAt_expectedGet (env : Env) (r0 sBit len p : Nat) :
    bitAt env (expectedGet r0 sBit len) p =
      (decide (p < len) && (env.oct (posOf r0 sBit len p).1).testBit (posOf r0 sBit len p).2) := by
  simp [expectedGet, bitAt_map_range, Bit.ev]

/-- **getter**: bit `j` of the result is bit `posOf j` of the element's contents, for `j < len`; higher bits are 0 -/
theorem get_spec (p : Pair) (h : getOK p = true) (octs : Nat → Nat) (ho : ∀ i, octs i < 256) (j : Nat) :
    (eval ⟨octs, 0⟩ p.get).testBit j =
      (decide (j < p.ann.len) && (octs (posOf p.ann.r0 p.ann.sBit p.ann.len j).1).testBit (posOf p.ann.r0 p.ann.sBit p.ann.len j).2) := by
  unfold getOK at h
  split at h
  · rename_i bs hs
    have hs0 := sym_sound ⟨octs, 0⟩ 0 (by simp) octBits octs (agree_octBits ⟨octs, 0⟩ ho) p.get bs hs j
    rw [hs0, bitAt_of_trimEq _ _ _ h, bitAt_expectedGet]
  · simp at h

/-! ### setters -/

theorem agree_cons (env : Env) (s : Store) (cur : Nat → Nat) (k : Nat) (bs : SV) (v : Nat)
    (hag : Agree env s.get cur) (hv : ∀ j, v.testBit j = bitAt env bs j) :
    Agree env (Store.get ((k, bs) :: s)) (upd cur k v) := by
  intro i j
  unfold Store.get upd
  by_cases h : i = k
  · subst h; simp [List.lookup, hv]
  · have : (i == k) = false := by simpa using h
    simp only [List.lookup, this, h, if_false]
    exact hag i j

theorem symSet_sound (env : Env) (aw : Nat) (harg : env.arg < 2^aw) :
    ∀ (l : List (Nat × E)) (s sf : Store) (cur : Nat → Nat), Agree env s.get cur → symSet aw l s = some sf →
      Agree env sf.get (execSet env.arg l cur) := by
  intro l
  induction l with
  | nil => intro s sf cur hag h; simp [symSet] at h; subst h; exact hag
  | cons ke r ih =>
    intro s sf cur hag h
    obtain ⟨k, e⟩ := ke
    simp only [symSet] at h
    split at h
    · rename_i bs hs
      have hv := sym_sound env aw harg s.get cur hag e bs hs
      exact ih _ sf _ (agree_cons env s cur k bs _ hag hv) h
    · simp at h

theorem execSet_other (arg : Nat) : ∀ (l : List (Nat × E)) (cur : Nat → Nat) (i : Nat),
    (∀ ke ∈ l, ke.1 ≠ i) → execSet arg l cur i = cur i := by
  intro l
  induction l with
  | nil => intro cur i _; rfl
  | cons ke r ih =>
    intro cur i h
    obtain ⟨k, e⟩ := ke
    simp only [execSet]
    rw [ih _ i (fun x hx => h x (List.mem_cons_of_mem _ hx))]
    have : k ≠ i := h (k, e) (List.mem_cons_self ..)
    simp [upd, Ne.symm this]

theorem bitAt_expectedSet (env : Env) (r0 sBit len i j : Nat) :
    bitAt env (expectedSet r0 sBit len i) j =
      (decide (j < 8) && (match findPos r0 sBit len i j with
        | some p => env.arg.testBit p
        | none => (env.oct i).testBit j)) := by
  simp only [expectedSet, bitAt_map_range]
  cases findPos r0 sBit len i j <;> simp [Bit.ev]

/-- **setter**: after the setter, the bit at (octet i, bit j) is bit `p` of the argument when (i, j) is position `p`
of the field, and is unchanged otherwise (every other field, and octets outside the field's rows, keep their value) -/
theorem set_spec (p : Pair) (h : setOK p = true) (octs : Nat → Nat) (ho : ∀ i, octs i < 256)
    (v : Nat) (hv : v < 2^p.retW) (i j : Nat) (hj : j < 8) :
    (execSet v p.set octs i).testBit j =
      (match findPos p.ann.r0 p.ann.sBit p.ann.len i j with
       | some q => if p.ann.r0 ≤ i ∧ i ≤ p.ann.r1 then v.testBit q else (octs i).testBit j
       | none => (octs i).testBit j) := by
  unfold setOK at h
  split at h
  · rename_i sf hs
    simp only [Bool.and_eq_true, List.all_eq_true] at h
    obtain ⟨hrows, hks⟩ := h
    have hag := symSet_sound ⟨octs, v⟩ p.retW hv p.set [] sf octs
      (by have := agree_octBits ⟨octs, v⟩ ho; intro i j; simpa [Store.get, List.lookup] using this i j) hs
    by_cases hin : p.ann.r0 ≤ i ∧ i ≤ p.ann.r1
    · have hd := hrows (i - p.ann.r0) (by simp; omega)
      have e : p.ann.r0 + (i - p.ann.r0) = i := by omega
      rw [e] at hd
      rw [hag i j, bitAt_of_trimEq _ _ _ hd, bitAt_expectedSet]
      simp only [hj, decide_true, Bool.true_and, hin, and_self, if_true]
    · have : execSet v p.set octs i = octs i := by
        apply execSet_other
        intro ke hke
        have := hks ke hke
        simp at this
        omega
      rw [this]
      cases findPos p.ann.r0 p.ann.sBit p.ann.len i j <;> simp [hin]
  · simp at h

theorem execSet_lt (p : Pair) (h : setOK p = true) (octs : Nat → Nat) (ho : ∀ i, octs i < 256)
    (v : Nat) (hv : v < 2^p.retW) (i : Nat) : execSet v p.set octs i < 256 := by
  have h' := h
  unfold setOK at h
  split at h
  · rename_i sf hs
    simp only [Bool.and_eq_true, List.all_eq_true] at h
    obtain ⟨hrows, hks⟩ := h
    have hag := symSet_sound ⟨octs, v⟩ p.retW hv p.set [] sf octs
      (by have := agree_octBits ⟨octs, v⟩ ho; intro i j; simpa [Store.get, List.lookup] using this i j) hs
    by_cases hin : p.ann.r0 ≤ i ∧ i ≤ p.ann.r1
    · have hd := hrows (i - p.ann.r0) (by simp; omega)
      have e : p.ann.r0 + (i - p.ann.r0) = i := by omega
      rw [e] at hd
      apply Nat.lt_pow_two_of_testBit (n := 8)
      intro j hj
      rw [hag i j, bitAt_of_trimEq _ _ _ hd, bitAt_expectedSet]
      have : ¬ j < 8 := by omega
      simp [this]
    · have : execSet v p.set octs i = octs i := by
        apply execSet_other
        intro ke hke
        have := hks ke hke
        simp at this
        omega
      rw [this]; exact ho i
  · simp at h

theorem posOf_inj (r0 sBit len a b : Nat) (hs : 1 ≤ sBit ∧ sBit ≤ 8) (ha : a < len) (hb : b < len)
    (h : posOf r0 sBit len a = posOf r0 sBit len b) : a = b := by
  unfold posOf at h
  simp only [Prod.mk.injEq] at h
  omega

theorem findPos_posOf (r0 sBit len q : Nat) (hs : 1 ≤ sBit ∧ sBit ≤ 8) (hq : q < len) :
    findPos r0 sBit len (posOf r0 sBit len q).1 (posOf r0 sBit len q).2 = some q := by
  unfold findPos
  rw [List.find?_eq_some_iff_getElem]
  refine ⟨by simp, q, by simpa using hq, by simp, ?_⟩
  intro j hj
  simp only [List.getElem_range]
  have hne : posOf r0 sBit len j ≠ posOf r0 sBit len q := by
    intro hc
    have := posOf_inj r0 sBit len j q hs (by omega) hq hc
    omega
  simpa using hne

theorem posOf_range (a : Ann) (w : Nat) (ha : annOK a w = true) (q : Nat) (hq : q < a.len) :
    a.r0 ≤ (posOf a.r0 a.sBit a.len q).1 ∧ (posOf a.r0 a.sBit a.len q).1 ≤ a.r1 ∧ (posOf a.r0 a.sBit a.len q).2 < 8 := by
  unfold annOK at ha
  simp at ha
  unfold posOf
  simp only
  omega

/-- **set then get** returns the value truncated to the field width -/
theorem set_get (p : Pair) (h : pairOK p = true) (octs : Nat → Nat) (ho : ∀ i, octs i < 256)
    (v : Nat) (hv : v < 2^p.retW) :
    eval ⟨execSet v p.set octs, 0⟩ p.get = v % 2^p.ann.len := by
  unfold pairOK at h
  simp only [Bool.and_eq_true] at h
  obtain ⟨⟨hann, hget⟩, hset⟩ := h
  apply Nat.eq_of_testBit_eq
  intro j
  rw [get_spec p hget _ (execSet_lt p hset octs ho v hv) j, Nat.testBit_mod_two_pow]
  by_cases hj : j < p.ann.len
  · obtain ⟨h1, h2, h3⟩ := posOf_range p.ann p.retW hann j hj
    have hs : 1 ≤ p.ann.sBit ∧ p.ann.sBit ≤ 8 := by
      unfold annOK at hann; simp at hann; omega
    rw [set_spec p hset octs ho v hv _ _ h3, findPos_posOf _ _ _ _ hs hj]
    simp [hj, h1, h2]
  · simp [hj]

/-- **frame**: a setter changes no bit outside its own field -/
theorem set_frame (p : Pair) (h : pairOK p = true) (octs : Nat → Nat) (ho : ∀ i, octs i < 256)
    (v : Nat) (hv : v < 2^p.retW) (i j : Nat) (hj : j < 8)
    (hout : ∀ q, q < p.ann.len → posOf p.ann.r0 p.ann.sBit p.ann.len q ≠ (i, j)) :
    (execSet v p.set octs i).testBit j = (octs i).testBit j := by
  unfold pairOK at h
  simp only [Bool.and_eq_true] at h
  rw [set_spec p h.2 octs ho v hv i j hj]
  have : findPos p.ann.r0 p.ann.sBit p.ann.len i j = none := by
    unfold findPos
    rw [List.find?_eq_none]
    intro q hq
    simp at hq
    simpa using hout q hq
  rw [this]

end NasVerif.Acc
