/-!
# IE field accessors: expression IR, concrete semantics, and a symbolic bit-level executor

The translator emits every scalar getter / setter body of `nasType` as an `E` (a literal, typed transcription of the
Go expression; `GetBitMask` is inlined from its own body). `eval` is Go's semantics on `uintN` (wrap-around
addition, shifts, conversions). `sym` computes, for every output bit, which input bit (or constant) it is; it is
proved sound w.r.t. `eval` once (`Acc/Sound.lean`), so a per-accessor obligation is a closed `decide`.
-/
namespace NasVerif.Acc

inductive E
  | oct (i : Nat)                       -- a.Octet[i] / a.Octet / a.Buffer[i]
  | arg                                 -- the setter's parameter
  | const (v : Nat)
  | and (a b : E) | or (a b : E) | xor (a b : E)
  | add (w : Nat) (a b : E)             -- uintW addition (wraps)
  | sub (w : Nat) (a b : E)             -- uintW subtraction (wraps)
  | shl (w : Nat) (a n : E)             -- uintW << n
  | shr (a n : E)
  | conv (w : Nat) (a : E)              -- uintW(a)
deriving DecidableEq, Repr, Inhabited

structure Env where
  oct : Nat → Nat
  arg : Nat

def eval (env : Env) : E → Nat
  | .oct i => env.oct i
  | .arg => env.arg
  | .const v => v
  | .and a b => eval env a &&& eval env b
  | .or a b => eval env a ||| eval env b
  | .xor a b => eval env a ^^^ eval env b
  | .add w a b => (eval env a + eval env b) % 2^w
  | .sub w a b => (eval env a + (2^w - eval env b % 2^w)) % 2^w
  | .shl w a n => (eval env a <<< eval env n) % 2^w
  | .shr a n => eval env a >>> eval env n
  | .conv w a => eval env a % 2^w

/-! ## symbolic bits -/

inductive Bit
  | zero | one
  | o (i j : Nat)      -- bit j of octet i (of the element's prior contents)
  | a (j : Nat)        -- bit j of the setter's argument
deriving DecidableEq, Repr, Inhabited

def Bit.ev (env : Env) : Bit → Bool
  | .zero => false
  | .one => true
  | .o i j => (env.oct i).testBit j
  | .a j => env.arg.testBit j

abbrev SV := List Bit   -- LSB first; bits beyond the list are zero

def bitAt (env : Env) (bs : SV) (j : Nat) : Bool := (bs.getD j .zero).ev env

def andBit : Bit → Bit → Option Bit
  | .zero, _ => some .zero
  | _, .zero => some .zero
  | .one, x => some x
  | x, .one => some x
  | x, y => if x = y then some x else none

def orBit : Bit → Bit → Option Bit
  | .zero, x => some x
  | x, .zero => some x
  | .one, _ => some .one
  | _, .one => some .one
  | x, y => if x = y then some x else none

def xorBit : Bit → Bit → Option Bit
  | .zero, x => some x
  | x, .zero => some x
  | x, y => if x = y then some .zero else none

/-- addition without carries: at every position at most one operand bit can be set -/
def addBit : Bit → Bit → Option Bit
  | .zero, x => some x
  | x, .zero => some x
  | _, _ => none

def mapR (f : Bit → Bit → Option Bit) : SV → Option SV
  | [] => some []
  | y :: ys =>
    match f .zero y, mapR f ys with
    | some z, some zs => some (z :: zs)
    | _, _ => none

/-- position-wise combination of two bit strings (the shorter one continues with zeros); structural on the first -/
def zipD (f : Bit → Bit → Option Bit) : SV → SV → Option SV
  | [], ys => mapR f ys
  | x :: xs, ys =>
    match f x (ys.headD .zero), zipD f xs ys.tail with
    | some z, some zs => some (z :: zs)
    | _, _ => none

/-- value of an all-constant bit list -/
def constVal : SV → Option Nat
  | [] => some 0
  | .zero :: r => (constVal r).map (2 * ·)
  | .one :: r => (constVal r).map (2 * · + 1)
  | _ :: _ => none

def natBits : (fuel : Nat) → Nat → SV
  | 0, _ => []
  | f+1, v => (if v % 2 = 1 then Bit.one else Bit.zero) :: natBits f (v / 2)

def octBits (i : Nat) : SV := (List.range 8).map (Bit.o i)
def argBits (w : Nat) : SV := (List.range w).map Bit.a

/-- `σ i` = current symbolic contents of octet `i` (identity before any assignment); `aw` = width of the argument -/
def sym (σ : Nat → SV) (aw : Nat) : E → Option SV
  | .oct i => some (σ i)
  | .arg => some (argBits aw)
  | .const v => if v < 2^64 then some (natBits 64 v) else none
  | .and a b => do let x ← sym σ aw a; let y ← sym σ aw b; zipD andBit x y
  | .or a b => do let x ← sym σ aw a; let y ← sym σ aw b; zipD orBit x y
  | .xor a b => do let x ← sym σ aw a; let y ← sym σ aw b; zipD xorBit x y
  | .add w a b => do
      let x ← sym σ aw a; let y ← sym σ aw b
      match constVal x, constVal y with
      | some u, some v => if w ≤ 64 then some (natBits w ((u + v) % 2^w)) else none
      | _, _ => (zipD addBit x y).map (·.take w)
  | .sub w a b => do
      let x ← sym σ aw a; let y ← sym σ aw b
      match constVal x, constVal y with
      | some u, some v => if w ≤ 64 then some (natBits w ((u + (2^w - v % 2^w)) % 2^w)) else none
      | _, _ => none
  | .shl w a n => do
      let x ← sym σ aw a; let y ← sym σ aw n
      match constVal y with
      | some k => some ((List.replicate k Bit.zero ++ x).take w)
      | none => none
  | .shr a n => do
      let x ← sym σ aw a; let y ← sym σ aw n
      match constVal y with
      | some k => some (x.drop k)
      | none => none
  | .conv w a => do let x ← sym σ aw a; some (x.take w)

/-- drop trailing zero bits (canonical form for comparison) -/
def trim (bs : SV) : SV := (bs.reverse.dropWhile (· = .zero)).reverse

end NasVerif.Acc
