import NasVerif.Prelude.Basic
/-!
# Octet-range accessors (`copy(r[:], a.Octet[lo:hi])`, `copy(a.Buffer[lo:], v)`, …)

Contents are `List UInt8` (the `n` octets of an array, or the whole `Buffer`). Go's `copy` moves
`min(len dst, len src)` octets and never changes a length.
-/
namespace NasVerif.Acc
open NasVerif

inductive RKind | range | tail
deriving DecidableEq, Repr, Inhabited

structure RangePair where
  type  : String
  field : String
  r0 : Nat
  r1 : Nat
  sBit : Nat
  len : Nat
  inf : Bool
  kind : RKind
  isBuf : Bool
  lo : Nat
  hi : Nat
  size : Nat      -- array size (0 for buffers)
deriving Repr, Inhabited

/-- the copied range is exactly the documented rows: whole octets from bit 8 of row r0 to bit 1 of row r1 -/
def rangeOK (p : RangePair) : Bool :=
  match p.kind with
  | .range => !p.inf && decide (p.sBit = 8 ∧ p.r0 = p.lo ∧ p.r1 + 1 = p.hi ∧ p.len = 8 * (p.hi - p.lo) ∧ p.lo < p.hi) &&
      (p.isBuf || decide (p.hi ≤ p.size))
  | .tail => p.inf && p.isBuf && decide (p.r0 = p.lo)   -- `INF` fields: whole octets from row r0 to the end (the annotation's sBit is not meaningful for them)

/-- `copy(r[:], c[lo:hi])` for an `[hi-lo]uint8` result: slicing panics when `hi` exceeds the capacity -/
def getRange (c : Bytes) (lo hi : Nat) : Outcome Bytes :=
  if hi ≤ c.length then .ok ((c.drop lo).take (hi - lo)) else .panic

/-- `copy(c[lo:hi], v[:])` with `v : [hi-lo]uint8` -/
def setRange (c : Bytes) (lo hi : Nat) (v : Bytes) : Outcome Bytes :=
  if hi ≤ c.length then .ok (c.take lo ++ v.take (hi - lo) ++ c.drop hi) else .panic

/-- `r = make([]uint8, len(c)-lo); copy(r, c[lo:])` -/
def getTail (c : Bytes) (lo : Nat) : Outcome Bytes :=
  if lo ≤ c.length then .ok (c.drop lo) else .panic

/-- `copy(c[lo:], v)` -/
def setTail (c : Bytes) (lo : Nat) (v : Bytes) : Outcome Bytes :=
  if lo ≤ c.length then
    let n := min v.length (c.length - lo)
    .ok (c.take lo ++ v.take n ++ c.drop (lo + n))
  else .panic

theorem splice_get (c v : Bytes) (lo hi : Nat) (h : lo ≤ hi) (hv : v.length = hi - lo) (hc : hi ≤ c.length) (i : Nat) :
    (c.take lo ++ (v ++ c.drop hi))[i]? = if i < lo then c[i]? else if i < hi then v[i - lo]? else c[i]? := by
  have h1 : (c.take lo).length = lo := by simp; omega
  by_cases a : i < lo
  · rw [List.getElem?_append_left (by omega)]
    simp [List.getElem?_take, a]
  · rw [List.getElem?_append_right (by omega), h1]
    by_cases b : i < hi
    · rw [List.getElem?_append_left (by omega)]
      simp [a, b]
    · rw [List.getElem?_append_right (by omega), List.getElem?_drop]
      simp only [a, b, if_false]
      congr 1; omega

theorem setRange_ok (c v : Bytes) (lo hi : Nat) (hv : v.length = hi - lo) (hc : hi ≤ c.length) :
    setRange c lo hi v = .ok (c.take lo ++ (v ++ c.drop hi)) := by
  simp [setRange, hc, List.take_of_length_le (by omega : v.length ≤ hi - lo)]

theorem splice_length (c v : Bytes) (lo hi : Nat) (h : lo ≤ hi) (hv : v.length = hi - lo) (hc : hi ≤ c.length) :
    (c.take lo ++ (v ++ c.drop hi)).length = c.length := by simp; omega

theorem setRange_length (c v : Bytes) (lo hi : Nat) (h : lo ≤ hi) (hv : v.length = hi - lo) (c' : Bytes)
    (hs : setRange c lo hi v = .ok c') : c'.length = c.length := by
  by_cases hc : hi ≤ c.length
  · rw [setRange_ok c v lo hi hv hc] at hs
    injection hs with hs; subst hs
    exact splice_length c v lo hi h hv hc
  · simp [setRange, hc] at hs

/-- set then get returns the value -/
theorem getRange_setRange (c v : Bytes) (lo hi : Nat) (h : lo ≤ hi) (hv : v.length = hi - lo) (hc : hi ≤ c.length) :
    ∃ c', setRange c lo hi v = .ok c' ∧ getRange c' lo hi = .ok v := by
  refine ⟨_, setRange_ok c v lo hi hv hc, ?_⟩
  unfold getRange
  rw [splice_length c v lo hi h hv hc]
  simp only [hc, if_true]
  congr 1
  apply List.ext_getElem?
  intro i
  rw [List.getElem?_take]
  by_cases hi' : i < hi - lo
  · simp only [hi', if_true, List.getElem?_drop, splice_get c v lo hi h hv hc]
    have a : ¬ (lo + i < lo) := by omega
    have b : lo + i < hi := by omega
    simp [a, b]
  · simp only [hi', if_false]
    rw [List.getElem?_eq_none (by omega)]

/-- frame: octets outside [lo, hi) keep their value -/
theorem setRange_frame (c v : Bytes) (lo hi : Nat) (h : lo ≤ hi) (hv : v.length = hi - lo) (c' : Bytes)
    (hs : setRange c lo hi v = .ok c') (i : Nat) (hi' : i < lo ∨ hi ≤ i) : c'[i]? = c[i]? := by
  by_cases hc : hi ≤ c.length
  · rw [setRange_ok c v lo hi hv hc] at hs
    injection hs with hs; subst hs
    rw [splice_get c v lo hi h hv hc]
    rcases hi' with a | a
    · simp [a]
    · have : ¬ i < lo := by omega
      have : ¬ i < hi := by omega
      simp [*]
  · simp [setRange, hc] at hs

/-- tail of a buffer: `copy(c[lo:], v)` with a value at least as long as the tail writes the whole tail -/
theorem getTail_setTail (c v : Bytes) (lo : Nat) (hc : lo ≤ c.length) (hv : c.length - lo ≤ v.length) :
    ∃ c', setTail c lo v = .ok c' ∧ c'.length = c.length ∧ getTail c' lo = .ok (v.take (c.length - lo)) := by
  have hn : min v.length (c.length - lo) = c.length - lo := by omega
  have e : lo + (c.length - lo) = c.length := by omega
  have hs : setTail c lo v = .ok (c.take lo ++ v.take (c.length - lo)) := by
    simp only [setTail, hc, if_true, hn, e, List.drop_length, List.append_nil]
  have hl : (c.take lo ++ v.take (c.length - lo)).length = c.length := by simp; omega
  refine ⟨_, hs, hl, ?_⟩
  unfold getTail
  rw [hl]
  simp only [hc, if_true]
  congr 1
  rw [List.drop_append_of_le_length (by simp; omega)]
  simp

theorem setTail_frame (c v : Bytes) (lo : Nat) (c' : Bytes) (hs : setTail c lo v = .ok c') (i : Nat) (hi : i < lo) :
    c'[i]? = c[i]? := by
  unfold setTail at hs
  split at hs
  · simp only [Outcome.ok.injEq] at hs; subst hs
    rw [List.append_assoc, List.getElem?_append_left (by simp; omega)]
    simp [List.getElem?_take, hi]
  · simp at hs

end NasVerif.Acc
