import NasVerif.Acc.Defs
/-! # Soundness of the symbolic bit executor `sym` w.r.t. the concrete semantics `eval` -/
namespace NasVerif.Acc

theorem bitAt_nil (env : Env) (j : Nat) : bitAt env [] j = false := by simp [bitAt, Bit.ev]

theorem bitAt_cons_zero (env : Env) (b : Bit) (bs : SV) : bitAt env (b :: bs) 0 = b.ev env := by simp [bitAt]

theorem bitAt_cons_succ (env : Env) (b : Bit) (bs : SV) (j : Nat) : bitAt env (b :: bs) (j+1) = bitAt env bs j := by
  simp [bitAt]

/-! ## bit combinators -/

theorem andBit_sound (env : Env) (p q r : Bit) (h : andBit p q = some r) : r.ev env = (p.ev env && q.ev env) := by
  cases p <;> cases q <;> simp [andBit] at h <;> (try subst h) <;> simp [Bit.ev] <;>
    (try (obtain ⟨h1, h2⟩ := h; subst h2; (try obtain ⟨rfl, rfl⟩ := h1); (try subst h1); simp [Bit.ev]))

theorem orBit_sound (env : Env) (p q r : Bit) (h : orBit p q = some r) : r.ev env = (p.ev env || q.ev env) := by
  cases p <;> cases q <;> simp [orBit] at h <;> (try subst h) <;> simp [Bit.ev] <;>
    (try (obtain ⟨h1, h2⟩ := h; subst h2; (try obtain ⟨rfl, rfl⟩ := h1); (try subst h1); simp [Bit.ev]))

theorem xorBit_sound (env : Env) (p q r : Bit) (h : xorBit p q = some r) : r.ev env = (p.ev env ^^ q.ev env) := by
  cases p <;> cases q <;> simp [xorBit] at h <;> (try subst h) <;> simp [Bit.ev] <;>
    (try (obtain ⟨h1, h2⟩ := h; subst h2; (try obtain ⟨rfl, rfl⟩ := h1); (try subst h1); simp [Bit.ev]))

theorem addBit_sound (env : Env) (p q r : Bit) (h : addBit p q = some r) :
    r.ev env = (p.ev env || q.ev env) ∧ ¬ (p.ev env = true ∧ q.ev env = true) := by
  cases p <;> cases q <;> simp [addBit] at h <;> (try subst h) <;> simp [Bit.ev]

theorem bitAt_tail (env : Env) (ys : SV) (j : Nat) : bitAt env ys.tail j = bitAt env ys (j+1) := by
  cases ys <;> simp [bitAt, Bit.ev]

theorem bitAt_head (env : Env) (ys : SV) : (ys.headD .zero).ev env = bitAt env ys 0 := by
  cases ys <;> simp [bitAt, Bit.ev]

theorem mapR_sound (env : Env) (f : Bit → Bit → Option Bit) (op : Bool → Bool → Bool) (hop : op false false = false)
    (hf : ∀ p q r, f p q = some r → r.ev env = op (p.ev env) (q.ev env)) :
    ∀ (y z : SV), mapR f y = some z → ∀ j, bitAt env z j = op false (bitAt env y j) := by
  intro y
  induction y with
  | nil => intro z h j; simp [mapR] at h; subst h; simp [bitAt_nil, hop]
  | cons b ys ih =>
    intro z h j
    simp only [mapR] at h
    split at h
    · rename_i z0 zs h0 hs
      simp at h; subst h
      cases j with
      | zero => simp only [bitAt_cons_zero]; have := hf _ _ _ h0; simpa [Bit.ev] using this
      | succ j => simp only [bitAt_cons_succ]; exact ih zs hs j
    · simp at h

theorem zipD_sound (env : Env) (f : Bit → Bit → Option Bit) (op : Bool → Bool → Bool) (hop : op false false = false)
    (hf : ∀ p q r, f p q = some r → r.ev env = op (p.ev env) (q.ev env)) :
    ∀ (x y z : SV), zipD f x y = some z → ∀ j, bitAt env z j = op (bitAt env x j) (bitAt env y j) := by
  intro x
  induction x with
  | nil =>
    intro y z h j
    simp only [zipD] at h
    rw [mapR_sound env f op hop hf y z h j, bitAt_nil]
  | cons a xs ihx =>
    intro y z h j
    simp only [zipD] at h
    split at h
    · rename_i z0 zs h0 hs
      simp at h; subst h
      cases j with
      | zero => simp only [bitAt_cons_zero]; rw [hf _ _ _ h0, bitAt_head]
      | succ j => simp only [bitAt_cons_succ]; rw [ihx y.tail zs hs j, bitAt_tail]
    · simp at h

/-! ## constants -/

theorem constVal_sound (env : Env) : ∀ (x : SV) (v : Nat), constVal x = some v → ∀ j, bitAt env x j = v.testBit j := by
  intro x
  induction x with
  | nil => intro v h j; simp [constVal] at h; subst h; simp [bitAt_nil]
  | cons b r ih =>
    intro v h j
    cases b with
    | zero =>
      simp [constVal] at h
      obtain ⟨u, hu, rfl⟩ := h
      cases j with
      | zero => simp [bitAt_cons_zero, Bit.ev, Nat.testBit_zero] <;> omega
      | succ j =>
        rw [bitAt_cons_succ, ih u hu j, Nat.testBit_succ]
        congr 1; omega
    | one =>
      simp [constVal] at h
      obtain ⟨u, hu, rfl⟩ := h
      cases j with
      | zero => simp [bitAt_cons_zero, Bit.ev, Nat.testBit_zero] <;> omega
      | succ j =>
        rw [bitAt_cons_succ, ih u hu j, Nat.testBit_succ]
        congr 1; omega
    | o i k => simp [constVal] at h
    | a k => simp [constVal] at h

theorem natBits_sound (env : Env) : ∀ (f v j : Nat), bitAt env (natBits f v) j = (decide (j < f) && v.testBit j) := by
  intro f
  induction f with
  | zero => intro v j; simp [natBits, bitAt_nil]
  | succ f ih =>
    intro v j
    cases j with
    | zero =>
      simp only [natBits, bitAt_cons_zero, Nat.testBit_zero]
      by_cases h : v % 2 = 1 <;> simp [h, Bit.ev]
    | succ j =>
      simp only [natBits, bitAt_cons_succ, ih, Nat.testBit_succ]
      by_cases h : j < f <;> simp [h]

theorem bitAt_map_range (env : Env) (g : Nat → Bit) (n j : Nat) :
    bitAt env ((List.range n).map g) j = (decide (j < n) && (g j).ev env) := by
  unfold bitAt
  by_cases h : j < n
  · simp [h, List.getD_eq_getElem?_getD]
  · simp [h, List.getD_eq_getElem?_getD, Bit.ev]

theorem bitAt_take (env : Env) (x : SV) (w j : Nat) : bitAt env (x.take w) j = (decide (j < w) && bitAt env x j) := by
  unfold bitAt
  by_cases h : j < w
  · simp [h, List.getD_eq_getElem?_getD, List.getElem?_take]
  · simp [h, List.getD_eq_getElem?_getD, List.getElem?_take, Bit.ev]

theorem bitAt_drop (env : Env) (x : SV) (k j : Nat) : bitAt env (x.drop k) j = bitAt env x (k + j) := by
  unfold bitAt
  simp [List.getD_eq_getElem?_getD, List.getElem?_drop]

theorem bitAt_shift (env : Env) (x : SV) (k j : Nat) :
    bitAt env (List.replicate k Bit.zero ++ x) j = (decide (k ≤ j) && bitAt env x (j - k)) := by
  unfold bitAt
  by_cases h : k ≤ j
  · simp [h, List.getD_eq_getElem?_getD, List.getElem?_append_right]
  · have : j < k := by omega
    simp [h, List.getD_eq_getElem?_getD, List.getElem?_append_left, this, Bit.ev]

/-! ## carry-free addition -/

theorem add_testBit_disjoint (w a b : Nat) (h : ∀ j, ¬ (a.testBit j = true ∧ b.testBit j = true)) (j : Nat) :
    ((a + b) % 2^w).testBit j = (decide (j < w) && (a.testBit j || b.testBit j)) := by
  have hz : BitVec.ofNat w a &&& BitVec.ofNat w b = 0#w := by
    apply BitVec.eq_of_getLsbD_eq
    intro i hi
    simp only [BitVec.getLsbD_and, BitVec.getLsbD_ofNat, BitVec.getLsbD_zero]
    have := h i
    cases ha : a.testBit i <;> cases hb : b.testBit i <;> simp_all
  have key := BitVec.add_eq_or_of_and_eq_zero _ _ hz
  have h1 : ((a + b) % 2^w).testBit j = (BitVec.ofNat w a + BitVec.ofNat w b).getLsbD j := by
    rw [BitVec.getLsbD, BitVec.toNat_add, BitVec.toNat_ofNat, BitVec.toNat_ofNat, Nat.add_mod]
  rw [h1, key]
  simp only [BitVec.getLsbD_or, BitVec.getLsbD_ofNat]
  by_cases hj : j < w <;> simp [hj]

/-! ## the executor -/

/-- `σ` describes the current concrete octets `cur` in terms of the base environment -/
def Agree (env : Env) (σ : Nat → SV) (cur : Nat → Nat) : Prop := ∀ i j, (cur i).testBit j = bitAt env (σ i) j

theorem sym_sound (env : Env) (aw : Nat) (harg : env.arg < 2^aw) (σ : Nat → SV) (cur : Nat → Nat)
    (hag : Agree env σ cur) :
    ∀ (e : E) (bs : SV), sym σ aw e = some bs → ∀ j, (eval ⟨cur, env.arg⟩ e).testBit j = bitAt env bs j := by
  intro e
  induction e with
  | oct i => intro bs h j; simp [sym] at h; subst h; exact hag i j
  | arg =>
    intro bs h j
    simp [sym] at h; subst h
    simp only [eval, argBits, bitAt_map_range, Bit.ev]
    by_cases hj : j < aw
    · simp [hj]
    · have : env.arg.testBit j = false :=
        Nat.testBit_lt_two_pow (Nat.lt_of_lt_of_le harg (Nat.pow_le_pow_right (by omega) (by omega)))
      simp [hj, this]
  | const v =>
    intro bs h j
    simp only [sym] at h
    split at h
    · rename_i hv
      simp at h; subst h
      simp only [eval, natBits_sound]
      by_cases hj : j < 64
      · simp [hj]
      · have : v.testBit j = false :=
          Nat.testBit_lt_two_pow (Nat.lt_of_lt_of_le hv (Nat.pow_le_pow_right (by omega) (by omega)))
        simp [hj, this]
    · simp at h
  | and a b iha ihb =>
    intro bs h j
    simp only [sym, Option.bind_eq_bind] at h
    cases hx : sym σ aw a with
    | none => simp [hx] at h
    | some x =>
      cases hy : sym σ aw b with
      | none => simp [hx, hy] at h
      | some y =>
        simp [hx, hy] at h
        rw [eval, Nat.testBit_and, iha x hx j, ihb y hy j]
        exact (zipD_sound env andBit (· && ·) rfl (andBit_sound env) x y bs h j).symm
  | or a b iha ihb =>
    intro bs h j
    simp only [sym, Option.bind_eq_bind] at h
    cases hx : sym σ aw a with
    | none => simp [hx] at h
    | some x =>
      cases hy : sym σ aw b with
      | none => simp [hx, hy] at h
      | some y =>
        simp [hx, hy] at h
        rw [eval, Nat.testBit_or, iha x hx j, ihb y hy j]
        exact (zipD_sound env orBit (· || ·) rfl (orBit_sound env) x y bs h j).symm
  | xor a b iha ihb =>
    intro bs h j
    simp only [sym, Option.bind_eq_bind] at h
    cases hx : sym σ aw a with
    | none => simp [hx] at h
    | some x =>
      cases hy : sym σ aw b with
      | none => simp [hx, hy] at h
      | some y =>
        simp [hx, hy] at h
        rw [eval, Nat.testBit_xor, iha x hx j, ihb y hy j]
        exact (zipD_sound env xorBit (· ^^ ·) rfl (xorBit_sound env) x y bs h j).symm
  | add w a b iha ihb =>
    intro bs h j
    simp only [sym, Option.bind_eq_bind] at h
    cases hx : sym σ aw a with
    | none => simp [hx] at h
    | some x =>
      cases hy : sym σ aw b with
      | none => simp [hx, hy] at h
      | some y =>
        simp only [hx, hy, Option.bind_some] at h
        have ea : eval ⟨cur, env.arg⟩ a = eval ⟨cur, env.arg⟩ a := rfl
        split at h
        · rename_i u v hu hv
          split at h
          · simp at h; subst h
            have e1 : eval ⟨cur, env.arg⟩ a = u :=
              Nat.eq_of_testBit_eq (fun i => by rw [iha x hx i, constVal_sound env x u hu i])
            have e2 : eval ⟨cur, env.arg⟩ b = v :=
              Nat.eq_of_testBit_eq (fun i => by rw [ihb y hy i, constVal_sound env y v hv i])
            rw [eval, e1, e2, natBits_sound, Nat.testBit_mod_two_pow]
            cases decide (j < w) <;> simp
          · simp at h
        · simp at h
          obtain ⟨z, hz, rfl⟩ := h
          have hdis : ∀ i, ¬ ((eval ⟨cur, env.arg⟩ a).testBit i = true ∧ (eval ⟨cur, env.arg⟩ b).testBit i = true) := by
            intro i
            rw [iha x hx i, ihb y hy i]
            -- from addBit at position i
            have := zipD_sound env addBit (· || ·) rfl (fun p q r h => (addBit_sound env p q r h).1) x y z hz i
            -- need the disjointness: use a second pass with the stronger statement
            intro hboth
            have hposR : ∀ (y z : SV), mapR addBit y = some z → ∀ i, ¬ (false = true ∧ bitAt env y i = true) := by
              intro y z _ i hb; simp at hb
            have hpos : ∀ (x y z : SV), zipD addBit x y = some z → ∀ i, ¬ (bitAt env x i = true ∧ bitAt env y i = true) := by
              intro x
              induction x with
              | nil => intro y z _ i hb; simp [bitAt_nil] at hb
              | cons p xs ihx =>
                intro y z hz i hb
                simp only [zipD] at hz
                split at hz
                · rename_i z0 zs h0 hs
                  cases i with
                  | zero =>
                    simp only [bitAt_cons_zero] at hb
                    rw [← bitAt_head] at hb
                    exact (addBit_sound env p _ z0 h0).2 hb
                  | succ i =>
                    simp only [bitAt_cons_succ] at hb
                    rw [← bitAt_tail] at hb
                    exact ihx y.tail zs hs i hb
                · simp at hz
            exact hpos x y z hz i hboth
          rw [eval, add_testBit_disjoint w _ _ hdis j, bitAt_take, iha x hx j, ihb y hy j]
          congr 1
          exact (zipD_sound env addBit (· || ·) rfl (fun p q r h => (addBit_sound env p q r h).1) x y z hz j).symm
  | sub w a b iha ihb =>
    intro bs h j
    simp only [sym, Option.bind_eq_bind] at h
    cases hx : sym σ aw a with
    | none => simp [hx] at h
    | some x =>
      cases hy : sym σ aw b with
      | none => simp [hx, hy] at h
      | some y =>
        simp only [hx, hy, Option.bind_some] at h
        split at h
        · rename_i u v hu hv
          split at h
          · simp at h; subst h
            have e1 : eval ⟨cur, env.arg⟩ a = u :=
              Nat.eq_of_testBit_eq (fun i => by rw [iha x hx i, constVal_sound env x u hu i])
            have e2 : eval ⟨cur, env.arg⟩ b = v :=
              Nat.eq_of_testBit_eq (fun i => by rw [ihb y hy i, constVal_sound env y v hv i])
            rw [eval, e1, e2, natBits_sound, Nat.testBit_mod_two_pow]
            cases decide (j < w) <;> simp
          · simp at h
        · simp at h
  | shl w a n iha ihn =>
    intro bs h j
    simp only [sym, Option.bind_eq_bind] at h
    cases hx : sym σ aw a with
    | none => simp [hx] at h
    | some x =>
      cases hy : sym σ aw n with
      | none => simp [hx, hy] at h
      | some y =>
        simp only [hx, hy, Option.bind_some] at h
        split at h
        · rename_i k hk
          simp at h; subst h
          have e2 : eval ⟨cur, env.arg⟩ n = k :=
            Nat.eq_of_testBit_eq (fun i => by rw [ihn y hy i, constVal_sound env y k hk i])
          rw [eval, e2, Nat.testBit_mod_two_pow, Nat.testBit_shiftLeft, bitAt_take, bitAt_shift, iha x hx]
        · simp at h
  | shr a n iha ihn =>
    intro bs h j
    simp only [sym, Option.bind_eq_bind] at h
    cases hx : sym σ aw a with
    | none => simp [hx] at h
    | some x =>
      cases hy : sym σ aw n with
      | none => simp [hx, hy] at h
      | some y =>
        simp only [hx, hy, Option.bind_some] at h
        split at h
        · rename_i k hk
          simp at h; subst h
          have e2 : eval ⟨cur, env.arg⟩ n = k :=
            Nat.eq_of_testBit_eq (fun i => by rw [ihn y hy i, constVal_sound env y k hk i])
          rw [eval, e2, Nat.testBit_shiftRight, bitAt_drop, iha x hx]
        · simp at h
  | conv w a iha =>
    intro bs h j
    simp only [sym, Option.bind_eq_bind] at h
    cases hx : sym σ aw a with
    | none => simp [hx] at h
    | some x =>
      simp [hx] at h; subst h
      rw [eval, Nat.testBit_mod_two_pow, bitAt_take, iha x hx]

end NasVerif.Acc
