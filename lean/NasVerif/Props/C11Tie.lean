import NasVerif.Gen.Counter
import NasVerif.Spec.CounterCanon
import Std.Tactic.BVDecide
/-!
# C11 — the tie between the regenerated counter and the canonical definitions

For each API method: `Gen.Counter.f = Spec.CounterCanon.f`. Both sides are unfolded; while `counter.go` translates to the same
terms the two sides are then syntactically equal and the goal closes there (kernel-checked, no extra axiom). Fallback, for a
source that was rewritten: the remaining bit-vector equation is decided with `bv_decide` — a SAT certificate checked by compiled Lean code, which adds an
axiom `tie_*._native.bv_decide.ax_*`; the runner reports it in the evidence (`axioms seen`) and allows it for `tie_*`
theorems only. A change of behaviour makes both attempts fail.
-/
namespace NasVerif.Props.C11Tie
open NasVerif.Gen.Counter
open NasVerif.Spec

macro "counter_tie" : tactic => `(tactic|
  (repeat (apply funext; intro _)
   counter_unfold
   simp only [CounterCanon.maskTo24Bits, CounterCanon.AddOne, CounterCanon.Get, CounterCanon.Overflow, CounterCanon.SQN,
     CounterCanon.SetOverflow, CounterCanon.SetSQN, CounterCanon.Set, Prod.mk.injEq, and_true, true_and, and_self]
   first | done | bv_decide))

theorem tie_AddOne : AddOne = CounterCanon.AddOne := by counter_tie
theorem tie_Get : Get = CounterCanon.Get := by counter_tie
theorem tie_Overflow : Overflow = CounterCanon.Overflow := by counter_tie
theorem tie_SQN : SQN = CounterCanon.SQN := by counter_tie
theorem tie_SetOverflow : SetOverflow = CounterCanon.SetOverflow := by counter_tie
theorem tie_SetSQN : SetSQN = CounterCanon.SetSQN := by counter_tie
theorem tie_Set : Set = CounterCanon.Set := by counter_tie

end NasVerif.Props.C11Tie
