import NasVerif.Model.Security
import NasVerif.Spec.EEA
import NasVerif.Proofs.Snow3gRefine
import NasVerif.Proofs.ZucRefine
import NasVerif.Proofs.EncBits
import NasVerif.Gen.Unrecognised
import NasVerif.Gen.Globals
/-!
# C06 — NEA1/NEA2/NEA3 equal the standard 128-EEA1/2/3 functions

Proved here (kernel-checked): the lookup tables regenerated from the source equal the standards' tables; the models of
`snow3g.go` and `zuc.go` generate exactly the SNOW 3G / ZUC keystreams of the specifications for every key, IV and length;
NEA1 is UEA2 f8 and NEA3 is 128-EEA3 for every bit length (`Proofs/EncBits.lean`), NEA2 is 128-EEA2 for every block cipher;
the in-place API is those functions at LENGTH = 8·octets. The implementation-vs-specification differential stream
(`secspec`) still runs on every check as the tie of the model to the code.
-/
namespace NasVerif.Props.C06
open NasVerif NasVerif.Model

theorem translator_total : Gen.unrecognisedCrypto = [] := by decide

set_option maxRecDepth 100000 in
/-- the five lookup tables in the source are the standards' tables -/
theorem tables_eq :
    Gen.Crypto.snow_sr = Spec.Tab.snow_sr ∧ Gen.Crypto.snow_sq = Spec.Tab.snow_sq ∧
    Gen.Crypto.zuc_s0 = Spec.Tab.zuc_s0 ∧ Gen.Crypto.zuc_s1 = Spec.Tab.zuc_s1 ∧ Gen.Crypto.zuc_d = Spec.Tab.zuc_d := by
  decide

/-- SNOW 3G: for every key, IV and number of words the modelled `GetKeyStream` is the specification's keystream -/
theorem snow3g_keystream (k iv : List (BitVec 32)) (n : Nat) :
    Snow3g.GetKeyStream k iv n = Spec.Snow3G.keystream k iv n :=
  Proofs.Snow3gRefine.GetKeyStream_eq ⟨tables_eq.1, tables_eq.2.1⟩ k iv n

theorem octet5 : ∀ b, b < 32 → ∀ d, d < 2 →
    ((UInt8.ofNat b <<< 3) ||| (UInt8.ofNat d <<< 2)) = UInt8.ofNat (b * 8 + d * 4) := by decide

/-- 128-EEA2 for every block cipher `E`, key, COUNT, bearer 0–31, direction 0–1 and payload -/
theorem nea2_spec (E : Bytes → Bytes → Bytes) (key : Bytes) (count : BitVec 32) (b d : Nat) (hb : b < 32) (hd : d < 2)
    (ibs : Bytes) :
    Security.NEA2 E key count (UInt8.ofNat b) (UInt8.ofNat d) ibs = .ok (Spec.eea2 (E key) count.toNat b d ibs) := by
  simp [Security.NEA2, Spec.eea2, Security.counterBlock, Spec.t1, Security.put32, octet5 b hb d hd]

/-- in-place API, algorithm 2 -/
theorem nasEncrypt2_spec (E : Bytes → Bytes → Bytes) (key : Bytes) (count : BitVec 32) (b d : Nat) (hb : b < 32) (hd : d < 2)
    (p : Bytes) (hlen : (Spec.eea2 (E key) count.toNat b d p).length = p.length) :
    Security.NASEncrypt E 2 key count (UInt8.ofNat b) (UInt8.ofNat d) (some p) =
      .ok ⟨false, some (Spec.eea2 (E key) count.toNat b d p)⟩ := by
  have hb' : ¬ (UInt8.ofNat b > 0x1f) := by
    have : (UInt8.ofNat b).toNat = b := by simp [UInt8.toNat_ofNat']; omega
    simp [UInt8.lt_iff_toNat_lt, this]; omega
  have hd' : ¬ (UInt8.ofNat d > 1) := by
    have : (UInt8.ofNat d).toNat = d := by simp [UInt8.toNat_ofNat']; omega
    simp [UInt8.lt_iff_toNat_lt, this]; omega
  simp only [Security.NASEncrypt, hb', hd', if_false, nea2_spec E key count b d hb hd]
  simp [hlen]
  rw [← hlen, List.take_length]

/-! ### ZUC, NEA1, NEA3 -/

/-- ZUC: the model of zuc.go generates the specification's keystream, for every key, IV and number of words
(the LFSR refinement: end-around-carry fold = reduction mod 2^31 - 1 on representatives in [1, p]) -/
theorem zuc_keystream (k iv : Bytes) (n : Nat) :
    Zuc.Zuc (Security.toBV8 k) (Security.toBV8 iv) n = Spec.ZUC.keystream (k.map (·.toNat)) (iv.map (·.toNat)) n := by
  have h := Proofs.ZucRefine.Zuc_eq ⟨tables_eq.2.2.1, tables_eq.2.2.2.1, tables_eq.2.2.2.2⟩ (Security.toBV8 k) (Security.toBV8 iv) n
  have e (l : Bytes) : (Security.toBV8 l).map BitVec.toNat = l.map (·.toNat) := by
    simp [Security.toBV8, List.map_map, Function.comp_def]
  rw [e, e] at h
  exact h

theorem f8_iv : ∀ b, b < 32 → ∀ d, d < 2 →
    ((BitVec.ofNat 32 b <<< 27) ||| (BitVec.ofNat 32 d <<< 26)) = BitVec.ofNat 32 (b * 2^27 + d * 2^26) := by decide

/-- NEA1 = UEA2 f8 (128-EEA1) for every key, COUNT, bearer 0–31, direction, input and every bit length LENGTH ≤ 8·|input|:
the call succeeds, the output has the input's length, and its first LENGTH bits are f8 of the first LENGTH input bits -/
theorem nea1_spec (ck : Bytes) (count b d : Nat) (ibs : Bytes) (length : Nat) (hb : b < 32) (hd : d < 2)
    (hlen : length ≤ 8 * ibs.length) :
    ∃ out, Security.NEA1 ck (BitVec.ofNat 32 count) (BitVec.ofNat 32 b) (BitVec.ofNat 32 d) ibs length = .ok out ∧
      out.length = ibs.length ∧
      (Spec.bytesBits out).take length = Spec.f8 ck count b d ((Spec.bytesBits ibs).take length) := by
  obtain ⟨out, hrun, hl, hbits⟩ := Proofs.EncBits.nea1_bits ck (BitVec.ofNat 32 count) (BitVec.ofNat 32 b) (BitVec.ofNat 32 d) ibs length
    (by omega)
  refine ⟨out, hrun, hl, ?_⟩
  rw [hbits]
  have hn : ((Spec.bytesBits ibs).take length).length = length := by
    rw [List.length_take, Proofs.BitLists.bytesBits_length]; omega
  unfold Spec.f8
  simp only [hn]
  have hk : Security.keyWords ck = Spec.f8Key ck := by
    simp [Security.keyWords, Spec.f8Key, Security.be32, Spec.word, List.range, List.range.loop]
  have hiv : Proofs.EncLoops.snowIv (BitVec.ofNat 32 count) (BitVec.ofNat 32 b) (BitVec.ofNat 32 d) = Spec.f8IV count b d := by
    simp only [Proofs.EncLoops.snowIv, Spec.f8IV, f8_iv b hb d hd]
  rw [hk, hiv, snow3g_keystream]

/-- NEA3 = 128-EEA3 for every key, COUNT, bearer 0–31, direction, input and every bit length -/
theorem nea3_spec (ck : Bytes) (count b d : Nat) (ibs : Bytes) (length : Nat) (hb : b < 32) (hd : d < 2)
    (hlen : length ≤ 8 * ibs.length) :
    ∃ out, Security.NEA3 ck (BitVec.ofNat 32 count) (UInt8.ofNat b) (UInt8.ofNat d) ibs length = .ok out ∧
      out.length = ibs.length ∧
      (Spec.bytesBits out).take length = Spec.eea3 ck count b d ((Spec.bytesBits ibs).take length) := by
  obtain ⟨out, hrun, hl, hbits⟩ := Proofs.EncBits.nea3_bits ck (BitVec.ofNat 32 count) (UInt8.ofNat b) (UInt8.ofNat d) ibs length
    (by omega)
  refine ⟨out, hrun, hl, ?_⟩
  rw [hbits]
  have hn : ((Spec.bytesBits ibs).take length).length = length := by
    rw [List.length_take, Proofs.BitLists.bytesBits_length]; omega
  unfold Spec.eea3
  simp only [hn]
  unfold Proofs.EncLoops.zucStream
  simp only []
  rw [zuc_keystream]
  have hiv : (Security.put32 (BitVec.ofNat 32 count) ++ [(UInt8.ofNat b <<< 3) ||| (UInt8.ofNat d <<< 2), 0, 0, 0] ++
      (Security.put32 (BitVec.ofNat 32 count) ++ [(UInt8.ofNat b <<< 3) ||| (UInt8.ofNat d <<< 2), 0, 0, 0])).map (·.toNat) =
      Spec.eea3IV count b d := by
    rw [octet5 b hb d hd]
    have h5 : (UInt8.ofNat (b * 8 + d * 4)).toNat = b * 8 + d * 4 := by
      rw [UInt8.toNat_ofNat_of_lt' (show b * 8 + d * 4 < 256 by omega)]
    simp only [Security.put32, Spec.eea3IV, List.map_append, List.map_cons, List.map_nil, h5, BitVec.toNat_ofNat,
      UInt8.toNat_ofNat']
    have e0 : count % 2 ^ 32 / 2 ^ 24 % 2 ^ 8 = count / 2 ^ 24 % 256 := by omega
    have e1 : count % 2 ^ 32 / 2 ^ 16 % 2 ^ 8 = count / 2 ^ 16 % 256 := by omega
    have e2 : count % 2 ^ 32 / 2 ^ 8 % 2 ^ 8 = count / 2 ^ 8 % 256 := by omega
    have e3 : count % 2 ^ 32 % 2 ^ 8 = count % 256 := by omega
    simp [e0, e1, e2, e3]
  rw [hiv]

/-- in-place API, algorithms 1 and 3: the payload is replaced by the f8 / 128-EEA3 ciphertext of its 8·|payload| bits
(this is where the wrapper's octet-length → bit-length mapping and the copy back over the payload are pinned) -/
theorem nasEncrypt13_spec (E : Bytes → Bytes → Bytes) (key : Bytes) (count b d : Nat) (hb : b < 32) (hd : d < 2) (p : Bytes) :
    (∃ out, Security.NASEncrypt E 1 key (BitVec.ofNat 32 count) (UInt8.ofNat b) (UInt8.ofNat d) (some p) = .ok ⟨false, some out⟩ ∧
      out.length = p.length ∧ Spec.bytesBits out = Spec.f8 key count b d (Spec.bytesBits p)) ∧
    (∃ out, Security.NASEncrypt E 3 key (BitVec.ofNat 32 count) (UInt8.ofNat b) (UInt8.ofNat d) (some p) = .ok ⟨false, some out⟩ ∧
      out.length = p.length ∧ Spec.bytesBits out = Spec.eea3 key count b d (Spec.bytesBits p)) := by
  have hbn : (UInt8.ofNat b).toNat = b := UInt8.toNat_ofNat_of_lt' (show b < 256 by omega)
  have hdn : (UInt8.ofNat d).toNat = d := UInt8.toNat_ofNat_of_lt' (show d < 256 by omega)
  have hb' : ¬ (UInt8.ofNat b > 0x1f) := by simp [UInt8.lt_iff_toNat_lt, hbn]; omega
  have hd' : ¬ (UInt8.ofNat d > 1) := by simp [UInt8.lt_iff_toNat_lt, hdn]; omega
  have hfull (out : Bytes) (hl : out.length = p.length) : (Spec.bytesBits out).take (p.length * 8) = Spec.bytesBits out := by
    apply List.take_of_length_le; rw [Proofs.BitLists.bytesBits_length, hl]; omega
  have hfullp : (Spec.bytesBits p).take (p.length * 8) = Spec.bytesBits p := by
    apply List.take_of_length_le; rw [Proofs.BitLists.bytesBits_length]; omega
  constructor
  · obtain ⟨out, hrun, hl, hbits⟩ := nea1_spec key count b d p (p.length * 8) hb hd (by omega)
    refine ⟨out, ?_, hl, by rw [← hfull out hl, hbits, hfullp]⟩
    simp only [Security.NASEncrypt, hb', hd', if_false, hbn, hdn, hrun]
    simp [Proofs.EncLoops.copy_same p out hl]
  · obtain ⟨out, hrun, hl, hbits⟩ := nea3_spec key count b d p (p.length * 8) hb hd (by omega)
    refine ⟨out, ?_, hl, by rw [← hfull out hl, hbits, hfullp]⟩
    simp only [Security.NASEncrypt, hb', hd', if_false, hrun]
    simp [Proofs.EncLoops.copy_same p out hl]

/-- The models take the ciphering and integrity functions to be functions of their arguments. On the facts regenerated from the
source on this run: no function of the security packages (other than `init`) assigns a package-level variable, takes its
address or hands out a reference to it — no cache, pool or scratch buffer through which one call could influence another. -/
theorem security_stateless :
    ∀ p ∈ Gen.Globals.writerPkgs, p ≠ "security" ∧ p ≠ "security/snow3g" ∧ p ≠ "security/zuc" := by decide

set_option maxRecDepth 1000000 in
/-- non-vacuity: published SNOW 3G test set 1 through the model -/
example : (Snow3g.GetKeyStream [0x2BD6459F#32, 0x82C5B300#32, 0x952C4910#32, 0x4881FF48#32]
    [0xEA024714#32, 0xAD5C4D84#32, 0xDF1F9B25#32, 0x1C0BF45F#32] 2) = [0xabee9704#32, 0x7ac31373#32] := by decide

end NasVerif.Props.C06
