import NasVerif.Model.Security
import NasVerif.Spec.EEA
import NasVerif.Proofs.Snow3gRefine
import NasVerif.Proofs.ZucRefine
import NasVerif.Gen.Unrecognised
/-!
# C06 — NEA1/NEA2/NEA3 equal the standard 128-EEA1/2/3 functions

Proved here (kernel-checked): the lookup tables regenerated from the source equal the standards' tables; the model of
`snow3g.go` generates exactly the SNOW 3G keystream of the specification for every key, IV and length; NEA2 is
128-EEA2 for every block cipher; the model of `zuc.go` generates the ZUC keystream of the specification
(`Proofs/ZucRefine.lean`). The remaining refinement steps (the byte loops of NEA1/NEA3
against the bit-string definitions of f8 / 128-EEA3) are stated below as `…_statement` and are checked on every run by
the direct implementation-vs-specification differential stream (`secspec`), not yet by proof: level is "proof, partial".
-/
namespace NasVerif.Props.C06
open NasVerif NasVerif.Model

theorem translator_total : Gen.unrecognisedCrypto = [] := by decide

set_option maxRecDepth 100000 in
/-- the five lookup tables in the source are the standards' tables -/
theorem tables_eq :
    Gen.Crypto.snow_sr = Spec.Tab.snow_sr ∧ Gen.Crypto.snow_sq = Spec.Tab.snow_sq ∧
    Gen.Crypto.zuc_s0 = Spec.Tab.zuc_s0 ∧ Gen.Crypto.zuc_s1 = Spec.Tab.zuc_s1 ∧ Gen.Crypto.zuc_d = Spec.Tab.zuc_d := by
  decide

/-- SNOW 3G: for every key, IV and number of words the modelled `GetKeyStream` is the specification's keystream -/
theorem snow3g_keystream (k iv : List (BitVec 32)) (n : Nat) :
    Snow3g.GetKeyStream k iv n = Spec.Snow3G.keystream k iv n :=
  Proofs.Snow3gRefine.GetKeyStream_eq ⟨tables_eq.1, tables_eq.2.1⟩ k iv n

theorem octet5 : ∀ b, b < 32 → ∀ d, d < 2 →
    ((UInt8.ofNat b <<< 3) ||| (UInt8.ofNat d <<< 2)) = UInt8.ofNat (b * 8 + d * 4) := by decide

/-- 128-EEA2 for every block cipher `E`, key, COUNT, bearer 0–31, direction 0–1 and payload -/
theorem nea2_spec (E : Bytes → Bytes → Bytes) (key : Bytes) (count : BitVec 32) (b d : Nat) (hb : b < 32) (hd : d < 2)
    (ibs : Bytes) :
    Security.NEA2 E key count (UInt8.ofNat b) (UInt8.ofNat d) ibs = .ok (Spec.eea2 (E key) count.toNat b d ibs) := by
  simp [Security.NEA2, Spec.eea2, Security.counterBlock, Spec.t1, Security.put32, octet5 b hb d hd]

/-- in-place API, algorithm 2 -/
theorem nasEncrypt2_spec (E : Bytes → Bytes → Bytes) (key : Bytes) (count : BitVec 32) (b d : Nat) (hb : b < 32) (hd : d < 2)
    (p : Bytes) (hlen : (Spec.eea2 (E key) count.toNat b d p).length = p.length) :
    Security.NASEncrypt E 2 key count (UInt8.ofNat b) (UInt8.ofNat d) (some p) =
      .ok ⟨false, some (Spec.eea2 (E key) count.toNat b d p)⟩ := by
  have hb' : ¬ (UInt8.ofNat b > 0x1f) := by
    have : (UInt8.ofNat b).toNat = b := by simp [UInt8.toNat_ofNat']; omega
    simp [UInt8.lt_iff_toNat_lt, this]; omega
  have hd' : ¬ (UInt8.ofNat d > 1) := by
    have : (UInt8.ofNat d).toNat = d := by simp [UInt8.toNat_ofNat']; omega
    simp [UInt8.lt_iff_toNat_lt, this]; omega
  simp only [Security.NASEncrypt, hb', hd', if_false, nea2_spec E key count b d hb hd]
  simp [hlen]
  rw [← hlen, List.take_length]

/-! ### not yet proved (checked by the `secspec` differential stream on every run) -/

/-- ZUC: the model of zuc.go generates the specification's keystream, for every key, IV and number of words
(the LFSR refinement: end-around-carry fold = reduction mod 2^31 - 1 on representatives in [1, p]) -/
theorem zuc_keystream (k iv : Bytes) (n : Nat) :
    Zuc.Zuc (Security.toBV8 k) (Security.toBV8 iv) n = Spec.ZUC.keystream (k.map (·.toNat)) (iv.map (·.toNat)) n := by
  have h := Proofs.ZucRefine.Zuc_eq ⟨tables_eq.2.2.1, tables_eq.2.2.2.1, tables_eq.2.2.2.2⟩ (Security.toBV8 k) (Security.toBV8 iv) n
  have e (l : Bytes) : (Security.toBV8 l).map BitVec.toNat = l.map (·.toNat) := by
    simp [Security.toBV8, List.map_map, Function.comp_def]
  rw [e, e] at h
  exact h

/-- NEA1 = UEA2 f8 on the first LENGTH bits; the rest of the output is what the code leaves (input octets untouched
beyond ⌈LENGTH/8⌉ are zero) -/
def nea1_statement : Prop :=
  ∀ (ck : Bytes) (count b d : Nat) (ibs : Bytes) (length : Nat),
    ck.length = 16 → count < 2^32 → b < 32 → d < 2 → length ≤ 8 * ibs.length → length + 31 < 2^32 →
    ∃ out, Security.NEA1 ck (BitVec.ofNat 32 count) (BitVec.ofNat 32 b) (BitVec.ofNat 32 d) ibs length = .ok out ∧
      out.length = ibs.length ∧
      (Spec.bytesBits out).take length = Spec.f8 ck count b d ((Spec.bytesBits ibs).take length)

def nea3_statement : Prop :=
  ∀ (ck : Bytes) (count b d : Nat) (ibs : Bytes) (length : Nat),
    ck.length = 16 → count < 2^32 → b < 32 → d < 2 → length ≤ 8 * ibs.length → length + 31 < 2^32 →
    ∃ out, Security.NEA3 ck (BitVec.ofNat 32 count) (UInt8.ofNat b) (UInt8.ofNat d) ibs length = .ok out ∧
      out.length = ibs.length ∧
      (Spec.bytesBits out).take length = Spec.eea3 ck count b d ((Spec.bytesBits ibs).take length)

set_option maxRecDepth 1000000 in
/-- non-vacuity: published SNOW 3G test set 1 through the model -/
example : (Snow3g.GetKeyStream [0x2BD6459F#32, 0x82C5B300#32, 0x952C4910#32, 0x4881FF48#32]
    [0xEA024714#32, 0xAD5C4D84#32, 0xDF1F9B25#32, 0x1C0BF45F#32] 2) = [0xabee9704#32, 0x7ac31373#32] := by decide

end NasVerif.Props.C06
