import NasVerif.Proofs.UePolicyLemmas
import NasVerif.Proofs.UePolicyApiLemmas
/-!
# C18 — UE policy container codec is total, round-trips, and codes PLMNs per TS 24.008

Model: `Model/UePolicy.lean` (the uePolicyContainer package), tied to the Go code by the correspondence run.
* totality: the three decoders return a value or an error for every byte string; every nested list walker finishes within
  its fuel because each element parsed consumes at least 3..5 octets (fuel exhaustion is a `panic` in the model);
* round trip: lists / results / messages built through the API (`WF…` in `Proofs/UePolicyLemmas.lean`: every nested body fits
  its 16-bit length field, a policy part's `Len` is 0 or matches its contents, PLMN octets carry valid digits) decode to the
  same structure with every length recomputed from content (`norm…`);
* PLMN: `SetPlmnDigit` yields the TS 24.008 10.5.1.13 octets — the ones `PlmnIDToNas` produces for the same MCC / MNC — for
  every MCC 100..999 and MNC 9..999 (the setter rejects 0..8; an MNC below 100 is a two-digit MNC, so 9 is "09"), and the parsers read the same numbers back.
Defects F9, F10 and F17 were repaired in /repo.
-/
namespace NasVerif.Props.C18
open NasVerif NasVerif.Model.Qos NasVerif.Model.UePolicy NasVerif.Proofs.Qos NasVerif.Proofs.UePolicy NasVerif.Spec.Identity NasVerif.Proofs.Identity
set_option linter.unusedSimpArgs false
set_option linter.unusedVariables false

/-- decoding arbitrary bytes as a section-management list terminates with a value or an error -/
theorem unmarshalList_total (b : Bytes) : NoPanic (unmarshalList b) := subListLoop_total _ _ _ (by omega)

/-- decoding arbitrary bytes as a section-management result terminates with a value or an error -/
theorem unmarshalResult_total (b : Bytes) : NoPanic (unmarshalResult b) := subResultLoop_total _ _ _ (by omega)

/-- decoding arbitrary bytes as a UE policy delivery service message terminates with a value or an error -/
theorem decodeMsg_total (b : Bytes) : NoPanic (decodeMsg b) := by
  unfold decodeMsg
  split
  · exact np_err _
  · exact np_err _
  · next h0 h1 t =>
    split
    · apply np_bind (np_readU8 _); intro x _; obtain ⟨a, r1⟩ := x
      apply np_bind (np_readU8 _); intro y _; obtain ⟨c, r2⟩ := y
      apply np_bind (np_readIe _); intro z _; obtain ⟨iei, len, buf, r3⟩ := z
      dsimp only
      split
      · apply np_bind (np_readU8 _); intro x1 _; obtain ⟨a1, s1⟩ := x1
        apply np_bind (np_readU8 _); intro x2 _; obtain ⟨a2, s2⟩ := x2
        apply np_bind (np_readU8 _); intro x3 _; obtain ⟨a3, s3⟩ := x3
        apply np_bind (np_readU8 _); intro x4 _; obtain ⟨a4, s4⟩ := x4
        dsimp only
        split
        · exact np_err _
        · exact np_pure _
      · exact np_pure _
    · split
      · apply np_bind (np_readU8 _); intro x _; obtain ⟨a, r1⟩ := x
        apply np_bind (np_readU8 _); intro y _; obtain ⟨c, r2⟩ := y
        exact np_pure _
      · split
        · apply np_bind (np_readU8 _); intro x _; obtain ⟨a, r1⟩ := x
          apply np_bind (np_readU8 _); intro y _; obtain ⟨c, r2⟩ := y
          apply np_bind (np_readIe _); intro z _; obtain ⟨iei, len, buf, r3⟩ := z
          exact np_pure _
        · split
          · exact np_pure _
          · exact np_err _

/-- `SetPlmnDigit` (sublist and sub-result) produces the TS 24.008 10.5.1.13 octets of the PLMN, the same as `PlmnIDToNas` -/
theorem setPlmnDigit_spec (mcc mnc : Nat) (h1 : 100 ≤ mcc) (h2 : mcc ≤ 999) (h3 : 9 ≤ mnc) (h4 : mnc ≤ 999) :
    ∃ a b c, setPlmnDigit mcc mnc = .ok (a, b, c) ∧ [a, b, c] = (plmnOfNumbers mcc mnc).octets ∧
      plmnNumbers a b c = some (mcc, mnc) := by
  have hd1 : mcc / 100 < 10 := by omega
  have hd2 : mcc % 100 / 10 < 10 := by omega
  have hd3 : mcc % 10 < 10 := by omega
  have o1 := (oct_facts (mcc % 100 / 10) (by omega) (mcc / 100) (by omega)).2.2.2.2.1
  have n1 := oct_nibbles (mcc % 100 / 10) (by omega) (mcc / 100) (by omega)
  unfold setPlmnDigit
  rw [if_neg (by omega), if_neg (by omega)]
  by_cases hm : mnc < 100
  · have o2 := f0_or (mcc % 10) (by omega)
    have o3 := (oct_facts (mnc % 10) (by omega) (mnc / 10) (by omega)).2.2.2.2.1
    have n2 := oct_nibbles 15 (by omega) (mcc % 10) (by omega)
    have n3 := oct_nibbles (mnc % 10) (by omega) (mnc / 10) (by omega)
    simp only [hm, if_true, o1, o2, o3, pure]
    refine ⟨_, _, _, rfl, by simp [plmnOfNumbers, hm, Plmn.octets], ?_⟩
    simp only [plmnNumbers, n1.1, n1.2, n2.1, n2.2, n3.1, n3.2]
    rw [if_neg (by omega)]
    simp; omega
  · have o2 := (oct_facts (mnc % 10) (by omega) (mcc % 10) (by omega)).2.2.2.2.1
    have o3 := (oct_facts (mnc % 100 / 10) (by omega) (mnc / 100) (by omega)).2.2.2.2.1
    have n2 := oct_nibbles (mnc % 10) (by omega) (mcc % 10) (by omega)
    have n3 := oct_nibbles (mnc % 100 / 10) (by omega) (mnc / 100) (by omega)
    simp only [hm, if_false, o1, o2, o3, pure]
    refine ⟨_, _, _, rfl, by simp [plmnOfNumbers, hm, Plmn.octets], ?_⟩
    simp only [plmnNumbers, n1.1, n1.2, n2.1, n2.2, n3.1, n3.2]
    rw [if_neg (by omega), if_neg (by omega)]
    simp; omega

/-- ... and that PLMN is the one whose text the other converters of the library produce / accept: `PlmnIDToNas` on the
decimal text of the same numbers gives the same three octets -/
theorem setPlmnDigit_eq_plmnIDToNas (mcc mnc : Nat) (h1 : 100 ≤ mcc) (h2 : mcc ≤ 999) (h3 : 9 ≤ mnc) (h4 : mnc ≤ 999) :
    ∃ a b c, setPlmnDigit mcc mnc = .ok (a, b, c) ∧
      NasVerif.Model.Convert.plmnIDToNas (plmnOfNumbers mcc mnc).mccText (plmnOfNumbers mcc mnc).mncText = .ok [a, b, c] := by
  obtain ⟨a, b, c, hs, ho, _⟩ := setPlmnDigit_spec mcc mnc h1 h2 h3 h4
  refine ⟨a, b, c, hs, ?_⟩
  rw [ho]
  apply NasVerif.Props.C12.text_to_plmn
  unfold plmnOfNumbers
  split <;> simp [Plmn.Valid] <;> omega

/-- a section-management list built through the API encodes to bytes that decode to the same structure with every length
field computed from the content (and MCC / MNC read from the PLMN octets) -/
theorem list_roundtrip (l : List SubList) (hw : ∀ s ∈ l, WFSubList s) :
    unmarshalList (marshalList l) = .ok (l.map normSubList) := by
  have hfl := flatMap_len_ge marshalSubList 5 marshalSubList_len l
  have := subListLoop_marshal l hw ((marshalList l).length + 1) (by unfold marshalList; omega) []
  simpa [unmarshalList] using this

/-- a section-management result built through the API encodes to bytes that decode to the same structure with lengths
computed from the content, causes set to 0110 1111 and MCC / MNC read from the PLMN octets -/
theorem result_roundtrip (l : List SubResult) (hw : ∀ s ∈ l, WFSubResult s) :
    unmarshalResult (marshalResult l) = .ok (l.map normSubResult) := by
  have hfl := flatMap_len_ge marshalSubResult 5 marshalSubResult_len l
  have := subResultLoop_marshal l hw ((marshalResult l).length + 1) (by unfold marshalResult; omega) []
  simpa [unmarshalResult] using this

/-- MANAGE UE POLICY COMMAND built through the API (message type 1 in header and body, `Len` = length of the list contents)
decodes to itself -/
theorem command_roundtrip (pti iei : UInt8) (buf : Bytes) (cm : Option Classmark) (h : buf.length < 65536) :
    (encodeMsg 1 (.command pti 1 iei (UInt16.ofNat buf.length) buf cm) >>= decodeMsg) =
      .ok (pti, 1, .command pti 1 iei (UInt16.ofNat buf.length) buf cm) := by
  cases cm with
  | none =>
    have := readIe_marshal iei buf [] h
    simp only [List.append_nil, List.cons_append] at this
    simp [encodeMsg, decodeMsg, bind, Outcome.bind, pure, readU8, this]
  | some c =>
    have := readIe_marshal iei buf [c.iei, c.len, c.nssui, c.spare] h
    simp only [List.cons_append, List.append_assoc] at this
    simp [encodeMsg, decodeMsg, bind, Outcome.bind, pure, readU8, this]

theorem complete_roundtrip (pti : UInt8) :
    (encodeMsg 2 (.complete pti 2) >>= decodeMsg) = .ok (pti, 2, .complete pti 2) := by
  simp [encodeMsg, decodeMsg, bind, Outcome.bind, pure, readU8]

theorem reject_roundtrip (pti iei : UInt8) (buf : Bytes) (h : buf.length < 65536) :
    (encodeMsg 3 (.reject pti 3 iei (UInt16.ofNat buf.length) buf) >>= decodeMsg) =
      .ok (pti, 3, .reject pti 3 iei (UInt16.ofNat buf.length) buf) := by
  have := readIe_marshal iei buf [] h
  simp only [List.append_nil, List.cons_append] at this
  simp [encodeMsg, decodeMsg, bind, Outcome.bind, pure, readU8, this]

/-- an unknown message type is an error in both directions -/
theorem unknown_type_err (h0 h1 : UInt8) (rest : Bytes) (m : Msg) (h : ¬ (1 ≤ h1 ∧ h1 ≤ 6)) :
    decodeMsg (h0 :: h1 :: rest) = .err .unknown ∧ encodeMsg h1 m = .err .unknown := by
  have hn : h1 ≠ 1 ∧ h1 ≠ 2 ∧ h1 ≠ 3 ∧ h1 ≠ 4 ∧ h1 ≠ 5 ∧ h1 ≠ 6 := by
    refine ⟨?_, ?_, ?_, ?_, ?_, ?_⟩ <;> (intro he; subst he; exact h (by decide))
  obtain ⟨a, b, c, d, e, f⟩ := hn
  simp [decodeMsg, encodeMsg, a, b, c, d, e, f]

/-! ## built through the API (`Model/UePolicyApi.lean`: one definition per exported constructor / setter / appender) -/

/-- one sublist built through the API: the script succeeds, the value is well formed, and its normal form (what decoding its
encoding returns) is the expectation computed from the description alone -/
theorem buildSubList_ok (d : SubListD) (h : ValidSubListD d) :
    ∃ s, buildSubList d = .ok s ∧ WFSubList s ∧ normSubList s = expectSubList d := by
  obtain ⟨h1, h2, h3, h4, hi, hl⟩ := h
  obtain ⟨a, b, c, hs, ho, hn⟩ := setPlmnDigit_spec d.mcc d.mnc h1 h2 h3 h4
  refine ⟨_, buildSubList_fields d a b c hs, ⟨?_, ?_, ?_⟩, ?_⟩
  · intro i hi'
    simp only [List.mem_map] at hi'
    obtain ⟨x, hx, rfl⟩ := hi'
    exact wf_buildInstr x (hi x hx)
  · show 3 + ((d.instrs.map buildInstr).flatMap marshalInstr).length < 65536
    rw [marshal_buildInstrs d.instrs hi]; exact hl
  · show (plmnNumbers a b c).isSome = true
    rw [hn]; rfl
  · simp only [normSubList, expectSubList, hn, marshal_buildInstrs d.instrs hi, List.map_map, ← ho]
    simp only [Option.getD_some, List.getD_cons_zero, List.getD_cons_succ]
    congr 1
    apply List.map_congr_left
    intro x hx
    exact norm_buildInstr x (hi x hx)

theorem buildList_ok (ds : List SubListD) (hv : ∀ d ∈ ds, ValidSubListD d) (acc : List SubList) :
    ∃ l, buildList ds acc = .ok (acc ++ l) ∧ (∀ s ∈ l, WFSubList s) ∧ l.map normSubList = ds.map expectSubList := by
  induction ds generalizing acc with
  | nil => exact ⟨[], by simp [buildList, pure], by simp, rfl⟩
  | cons d r ih =>
    obtain ⟨s, hs, hw, hn⟩ := buildSubList_ok d (hv d (by simp))
    obtain ⟨l, hl, hwl, hnl⟩ := ih (fun x hx => hv x (by simp [hx])) (appendSubList acc s)
    refine ⟨s :: l, ?_, ?_, ?_⟩
    · simp only [appendSubList] at hl
      simp only [buildList, hs, bind, Outcome.bind, appendSubList, hl]
      simp
    · intro x hx
      rcases List.mem_cons.mp hx with rfl | hx
      · exact hw
      · exact hwl x hx
    · simp [hn, hnl]

/-- **a section-management list built through the API** (constructors, `SetLen`, `SetUpsc`, `SetPartType`, `SetPartContent`,
`SetLen_byContent`, `SetPlmnDigit`, `Append…`) from any description whose numbers are a valid PLMN and whose nested bodies fit
their 16-bit length fields: the script succeeds, and decoding the encoding of the result yields exactly the described
structure with every length computed from content, the PLMN octets of TS 24.008 and the MCC / MNC that were set -/
theorem api_list_roundtrip (ds : List SubListD) (hv : ∀ d ∈ ds, ValidSubListD d) :
    ∃ l, buildList ds [] = .ok l ∧ unmarshalList (marshalList l) = .ok (ds.map expectSubList) := by
  obtain ⟨l, hl, hw, hn⟩ := buildList_ok ds hv []
  refine ⟨l, by simpa using hl, ?_⟩
  rw [list_roundtrip l hw, hn]

/-- a `SetPlmnDigit` outside the accepted range aborts the script with an error (nothing is encoded) -/
theorem api_list_bad_plmn (d : SubListD) (ds : List SubListD) (acc : List SubList) (h : d.mcc < 99 ∨ d.mcc > 999 ∨ d.mnc < 9) :
    ∃ e, buildList (d :: ds) acc = .err e := by
  have : ∃ e, setPlmnDigit d.mcc d.mnc = .err e := by
    unfold setPlmnDigit
    by_cases h1 : d.mcc < 99 ∨ d.mcc > 999
    · exact ⟨_, by rw [if_pos h1]⟩
    · rw [if_neg h1]
      have : d.mnc < 9 := by omega
      exact ⟨_, by rw [if_pos this]⟩
  obtain ⟨e, he⟩ := this
  exact ⟨e, by simp [buildList, buildSubList_err d e he, bind, Outcome.bind]⟩


theorem buildSubResult_ok (d : SubResultD) (h : ValidSubResultD d) :
    ∃ s, buildSubResult d = .ok s ∧ WFSubResult s ∧ normSubResult s = expectSubResult d := by
  obtain ⟨h1, h2, h3, h4, hl⟩ := h
  obtain ⟨a, b, c, hs, ho, hn⟩ := setPlmnDigit_spec d.mcc d.mnc h1 h2 h3 h4
  refine ⟨_, buildSubResult_fields d a b c hs, ⟨?_, ?_⟩, ?_⟩
  · show 3 + ((d.results.map buildRes).flatMap marshalRes).length < 65536
    rw [flatMap_marshalRes_len, List.length_map]; exact hl
  · show (plmnNumbers a b c).isSome = true
    rw [hn]; rfl
  · simp only [normSubResult, expectSubResult, hn, flatMap_marshalRes_len, List.length_map, List.map_map, ← ho]
    simp only [Option.getD_some, List.getD_cons_zero, List.getD_cons_succ]
    rfl

theorem buildResult_ok (ds : List SubResultD) (hv : ∀ d ∈ ds, ValidSubResultD d) (acc : List SubResult) :
    ∃ l, buildResult ds acc = .ok (acc ++ l) ∧ (∀ s ∈ l, WFSubResult s) ∧ l.map normSubResult = ds.map expectSubResult := by
  induction ds generalizing acc with
  | nil => exact ⟨[], by simp [buildResult, pure], by simp, rfl⟩
  | cons d r ih =>
    obtain ⟨s, hs, hw, hn⟩ := buildSubResult_ok d (hv d (by simp))
    obtain ⟨l, hl, hwl, hnl⟩ := ih (fun x hx => hv x (by simp [hx])) (appendSubResult acc s)
    refine ⟨s :: l, ?_, ?_, ?_⟩
    · simp only [appendSubResult] at hl
      simp only [buildResult, hs, bind, Outcome.bind, appendSubResult, hl]
      simp
    · intro x hx
      rcases List.mem_cons.mp hx with rfl | hx
      · exact hw
      · exact hwl x hx
    · simp [hn, hnl]

/-- **a section-management result built through the API** (`NewResult`, `SetUpsc`, `AppendResult`, `SetPlmnDigit`,
`AppendSublist`): decoding its encoding yields the described structure, lengths from content, cause 0110 1111 -/
theorem api_result_roundtrip (ds : List SubResultD) (hv : ∀ d ∈ ds, ValidSubResultD d) :
    ∃ l, buildResult ds [] = .ok l ∧ unmarshalResult (marshalResult l) = .ok (ds.map expectSubResult) := by
  obtain ⟨l, hl, hw, hn⟩ := buildResult_ok ds hv []
  refine ⟨l, by simpa using hl, ?_⟩
  rw [result_roundtrip l hw, hn]

/-- **MANAGE UE POLICY COMMAND / REJECT / COMPLETE built through the API** decode to themselves, header included -/
theorem api_command_roundtrip (pti iei : UInt8) (contents : Bytes) (cm : Option (UInt8 × UInt8)) (h : contents.length < 65536)
    (hc : ∀ x, cm = some x → x.2 = 0 ∨ x.2 = 1) :
    ∃ m, buildCommand pti iei contents cm = .ok (1, m) ∧ (encodeMsg 1 m >>= decodeMsg) = .ok (pti, 1, m) ∧
      m = .command pti 1 iei (UInt16.ofNat contents.length) contents (cm.map fun x => ⟨x.1, 2, x.2, 0⟩) := by
  cases cm with
  | none =>
    refine ⟨_, rfl, ?_, rfl⟩
    exact command_roundtrip pti iei contents none h
  | some x =>
    obtain ⟨ci, n⟩ := x
    rcases hc (ci, n) rfl with h0 | h1
    · simp only at h0; subst h0
      refine ⟨.command pti 1 iei (UInt16.ofNat contents.length) contents (some ⟨ci, 2, 0, 0⟩), rfl, ?_, rfl⟩
      exact command_roundtrip pti iei contents _ h
    · simp only at h1; subst h1
      refine ⟨.command pti 1 iei (UInt16.ofNat contents.length) contents (some ⟨ci, 2, 1, 0⟩), rfl, ?_, rfl⟩
      exact command_roundtrip pti iei contents _ h

theorem api_reject_roundtrip (pti iei : UInt8) (contents : Bytes) (h : contents.length < 65536) :
    (encodeMsg (buildReject pti iei contents).1 (buildReject pti iei contents).2 >>= decodeMsg) =
      .ok (pti, 3, .reject pti 3 iei (UInt16.ofNat contents.length) contents) :=
  reject_roundtrip pti iei contents h

theorem api_complete_roundtrip (pti : UInt8) :
    (encodeMsg (buildComplete pti).1 (buildComplete pti).2 >>= decodeMsg) = .ok (pti, 2, .complete pti 2) :=
  complete_roundtrip pti

/-- `SetNSSUI` accepts exactly 0 and 1 -/
theorem setNSSUI_domain (c : Classmark) (v : UInt8) : (∃ c', c.setNSSUI v = .ok c' ∧ c'.nssui = v) ↔ (v = 0 ∨ v = 1) := by
  unfold Classmark.setNSSUI
  by_cases h0 : v = 0
  · subst h0; simp [pure]
  · by_cases h1 : v = 1
    · subst h1; simp [pure]
    · simp [h0, h1]

/-! non-vacuity of the API theorems -/
def dl1 : SubListD := ⟨0, 208, 93, [⟨0, 7, [⟨0, false, 1, [0xaa, 0xbb]⟩, ⟨9, true, 2, []⟩]⟩, ⟨0, 9, []⟩]⟩
example : buildList [dl1] [] = .ok [⟨0, 0x02, 0xf8, 0x39, 208, 93, [⟨0, 7, [⟨0, 1, [0xaa, 0xbb]⟩, ⟨1, 2, []⟩]⟩, ⟨0, 9, []⟩]⟩] := by decide
example : (buildList [dl1] []).bind (fun l => unmarshalList (marshalList l)) = .ok [expectSubList dl1] := by decide
example : (buildResult [⟨0, 310, 260, [(5, 1)]⟩] []).bind (fun l => unmarshalResult (marshalResult l)) =
    .ok [⟨8, 0x13, 0x00, 0x62, 310, 260, [⟨5, 1, 0x6f⟩]⟩] := by decide


/-! ## non-vacuity -/

def sl1 : SubList := ⟨0, 0x02, 0xf8, 0x39, 0, 0, [⟨0, 7, [⟨0, 1, [0xaa, 0xbb]⟩, ⟨0, 2, []⟩]⟩, ⟨0, 9, []⟩]⟩
example : marshalList [sl1] = [0, 19, 0x02, 0xf8, 0x39, 0, 10, 0, 7, 0, 3, 1, 0xaa, 0xbb, 0, 1, 2, 0, 2, 0, 9] := by decide
example : unmarshalList (marshalList [sl1]) = .ok [normSubList sl1] := by decide
example : (normSubList sl1).mcc = 208 ∧ (normSubList sl1).mnc = 93 := by decide
example : setPlmnDigit 208 93 = .ok (0x02, 0xf8, 0x39) := by decide
example : setPlmnDigit 310 260 = .ok (0x13, 0x00, 0x62) := by decide
example : (unmarshalList [0, 3, 0x0a, 0, 0]).isErr = true := by decide

end NasVerif.Props.C18
