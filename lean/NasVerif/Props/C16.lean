import NasVerif.Model.Pco
/-! # C16 — protocol configuration options and PDU session bitmaps round-trip -/
namespace NasVerif.Props.C16
open NasVerif NasVerif.Model.Pco

/-! ## PDU session status bitmap: all 65 536 values, by proof (each octet separately) -/

def octBits (x : UInt8) : List Bool := (List.range 8).map (fun i => (x &&& (1 <<< UInt8.ofNat i)) != 0)

theorem psi_arr_eq (a b : UInt8) : psiToBooleanArray [a, b] = octBits a ++ octBits b := by
  simp [psiToBooleanArray, octBits, List.range, List.range.loop]

set_option maxRecDepth 100000 in
theorem bits_pack : ∀ a : Fin 256, packOctet (octBits (UInt8.ofNat a.val)) = UInt8.ofNat a.val := by decide

theorem octBits_length (x : UInt8) : (octBits x).length = 8 := by simp [octBits]

/-- two octets → 16 booleans → two octets is the identity -/
theorem psi_buf_roundtrip (a b : UInt8) : psiToBuf (psiToBooleanArray [a, b]) = [a, b] := by
  have ha := bits_pack ⟨a.toNat, a.toNat_lt⟩
  have hb := bits_pack ⟨b.toNat, b.toNat_lt⟩
  simp only [UInt8.ofNat_toNat] at ha hb
  rw [psi_arr_eq, psiToBuf]
  rw [List.take_left' (octBits_length a), List.drop_left' (octBits_length a), ha, hb]

theorem pack_bits : ∀ b0 b1 b2 b3 b4 b5 b6 b7 : Bool,
    octBits (packOctet [b0, b1, b2, b3, b4, b5, b6, b7]) = [b0, b1, b2, b3, b4, b5, b6, b7] := by decide

/-- 16 booleans → two octets → 16 booleans is the identity -/
theorem psi_array_roundtrip (b0 b1 b2 b3 b4 b5 b6 b7 c0 c1 c2 c3 c4 c5 c6 c7 : Bool) :
    psiToBooleanArray (psiToBuf [b0, b1, b2, b3, b4, b5, b6, b7, c0, c1, c2, c3, c4, c5, c6, c7]) =
      [b0, b1, b2, b3, b4, b5, b6, b7, c0, c1, c2, c3, c4, c5, c6, c7] := by
  have hb := pack_bits b0 b1 b2 b3 b4 b5 b6 b7
  have hc := pack_bits c0 c1 c2 c3 c4 c5 c6 c7
  simp only [psiToBuf, List.take, List.drop]
  rw [psi_arr_eq, hb, hc]
  rfl

/-- fewer than two octets: every entry is false (no panic) -/
theorem psi_short (buf : Bytes) (h : buf.length < 2) : psiToBooleanArray buf = List.replicate 16 false := by
  simp [psiToBooleanArray, h]

/-- the error-cause list interleaves identifiers and causes -/
theorem reactivation_interleaves (ids causes : Bytes) (h : ids.length = causes.length) :
    reactivationErrorCauseToBuf (some ids) causes = (ids.zip causes).flatMap (fun (a, b) => [a, b]) := by
  simp [reactivationErrorCauseToBuf, h]

/-! ## protocol configuration options -/

def UnitOK (u : PcoUnit) : Prop := u.id < 65536 ∧ u.len < 256 ∧ u.len = u.contents.length

theorem marshal_head (l : List PcoUnit) : (marshal l).head? = some 0x80 := rfl

theorem unmarshalLoop_marshal : ∀ (l : List PcoUnit) (acc : List PcoUnit) (fuel : Nat),
    (∀ u ∈ l, UnitOK u) → (marshalUnits l).length ≤ fuel →
    unmarshalLoop fuel (marshalUnits l) acc = .ok (acc ++ l) := by
  intro l
  induction l with
  | nil => intro acc fuel _ _; cases fuel <;> simp [marshalUnits, unmarshalLoop]
  | cons u us ih =>
    intro acc fuel hok hf
    obtain ⟨hid, hlen, hcl⟩ := hok u (List.mem_cons_self ..)
    have hrest : ∀ u' ∈ us, UnitOK u' := fun u' h => hok u' (List.mem_cons_of_mem _ h)
    have h1 : (UInt8.ofNat (u.id / 256)).toNat * 256 + (UInt8.ofNat u.id).toNat = u.id := by
      simp [UInt8.toNat_ofNat']; omega
    have h2 : (UInt8.ofNat u.len).toNat = u.len := by simp [UInt8.toNat_ofNat']; omega
    have hle : (marshalUnits (u :: us)).length = 3 + u.contents.length + (marshalUnits us).length := by
      simp [marshalUnits, unitBytes]; omega
    cases fuel with
    | zero => omega
    | succ fuel =>
      have hf' : u.contents.length + (marshalUnits us).length + 2 ≤ fuel := by omega
      simp only [marshalUnits, unitBytes, List.cons_append, unmarshalLoop, h1, h2]
      by_cases h0 : u.len = 0
      · have hc : u.contents = [] := List.length_eq_zero_iff.mp (by omega)
        have hz : UInt8.ofNat u.len = 0 := by rw [h0]; rfl
        simp only [hz, if_true, hc, List.nil_append]
        rw [ih _ fuel hrest (by omega)]
        have : u = ⟨u.id, 0, []⟩ := by cases u; simp_all
        rw [← this]; simp
      · have hz : ¬ (UInt8.ofNat u.len = 0) := by
          intro hc
          have := congrArg UInt8.toNat hc
          rw [h2] at this; simp at this; exact h0 this
        have hne : ¬ (u.contents ++ marshalUnits us = []) := by
          intro hc
          have := congrArg List.length hc
          simp only [List.length_append, List.length_nil] at this
          omega
        have hlt : ¬ ((u.contents ++ marshalUnits us).length < u.len) := by simp; omega
        simp only [hz, if_false, hne, hlt]
        rw [hcl, List.take_left, List.drop_left]
        rw [ih _ fuel hrest (by omega)]
        have : u = ⟨u.id, u.contents.length, u.contents⟩ := by cases u; simp_all
        rw [← this]; simp

/-- serialising a container list and parsing it back yields the same identifiers, lengths and contents in the same order -/
theorem pco_roundtrip (l : List PcoUnit) (h : ∀ u ∈ l, UnitOK u) : unmarshal (marshal l) = .ok l := by
  have := unmarshalLoop_marshal l [] (marshalUnits l).length h (Nat.le_refl _)
  simpa [unmarshal, marshal] using this

theorem unmarshalLoop_no_panic : ∀ (fuel : Nat) (bs : Bytes) (acc : List PcoUnit), unmarshalLoop fuel bs acc ≠ .panic := by
  intro fuel
  induction fuel with
  | zero => intro bs acc; simp [unmarshalLoop]
  | succ fuel ih =>
    intro bs acc
    match bs with
    | [] => simp [unmarshalLoop]
    | [_] => simp [unmarshalLoop]
    | [_, _] => simp [unmarshalLoop]
    | h :: l :: n :: rest =>
      simp only [unmarshalLoop]
      split
      · exact ih _ _
      · split
        · simp
        · split
          · simp
          · exact ih _ _

/-- parsing arbitrary bytes never panics -/
theorem pco_unmarshal_total (data : Bytes) : unmarshal data ≠ .panic := by
  unfold unmarshal
  cases data with
  | nil => simp
  | cons _ rest => exact unmarshalLoop_no_panic _ _ _

/-- every parsed unit's contents are a contiguous part of the input, right after its identifier and length octets -/
def InInput (data : Bytes) (u : PcoUnit) : Prop :=
  ∃ pre post, data = pre ++ unitBytes u ++ post

theorem unmarshalLoop_in_input : ∀ (fuel : Nat) (pre bs : Bytes) (acc out : List PcoUnit),
    (∀ u ∈ acc, InInput (pre ++ bs) u) → unmarshalLoop fuel bs acc = .ok out → ∀ u ∈ out, InInput (pre ++ bs) u := by
  intro fuel
  induction fuel with
  | zero => intro pre bs acc out ha h; simp [unmarshalLoop] at h; subst h; exact ha
  | succ fuel ih =>
    intro pre bs acc out ha h
    match bs with
    | [] => simp [unmarshalLoop] at h; subst h; exact ha
    | [_] => simp [unmarshalLoop] at h
    | [_, _] => simp [unmarshalLoop] at h; subst h; exact ha
    | x :: y :: n :: rest =>
      simp only [unmarshalLoop] at h
      have hidx : UInt8.ofNat ((x.toNat * 256 + y.toNat) / 256) = x ∧ UInt8.ofNat (x.toNat * 256 + y.toNat) = y := by
        have := x.toNat_lt; have := y.toNat_lt
        constructor <;> apply UInt8.toNat_inj.mp <;> simp [UInt8.toNat_ofNat'] <;> omega
      split at h
      · rename_i hn
        have key := ih (pre ++ [x, y, n]) rest _ out ?_ h
        · intro u hu; have := key u hu; simpa using this
        · intro u hu
          rcases List.mem_append.mp hu with hu | hu
          · have := ha u hu; simpa using this
          · simp at hu; subst hu
            refine ⟨pre, rest, ?_⟩
            simp [unitBytes, hidx.1, hidx.2, hn]
      · split at h
        · simp at h; subst h; exact ha
        · split at h
          · simp at h
          · rename_i hn hne hlen
            have hsplit : rest = rest.take n.toNat ++ rest.drop n.toNat := (List.take_append_drop _ _).symm
            have key := ih (pre ++ [x, y, n] ++ rest.take n.toNat) (rest.drop n.toNat) _ out ?_ h
            · intro u hu
              have := key u hu
              rw [List.append_assoc, List.append_assoc, ← hsplit] at this
              simpa using this
            · intro u hu
              rcases List.mem_append.mp hu with hu | hu
              · have := ha u hu
                rw [List.append_assoc, List.append_assoc, ← hsplit]
                simpa using this
              · simp at hu; subst hu
                refine ⟨pre, rest.drop n.toNat, ?_⟩
                simp [unitBytes, hidx.1, hidx.2]

/-- parsing never yields contents that are not in the input -/
theorem pco_contents_in_input (data : Bytes) (out : List PcoUnit) (h : unmarshal data = .ok out) :
    ∀ u ∈ out, InInput data u := by
  unfold unmarshal at h
  cases data with
  | nil => simp at h
  | cons b rest =>
    have := unmarshalLoop_in_input rest.length [b] rest [] out (by simp) h
    simpa using this

/-- non-vacuity -/
example : unmarshal [0x80, 0x00, 0x0d, 0x04, 8, 8, 8, 8, 0x00, 0x0a, 0x00] = .ok [⟨13, 4, [8, 8, 8, 8]⟩, ⟨10, 0, []⟩] := by decide

/-! ## lists built with the `Add…` builders -/

theorem ipTo4_len {ip a : Bytes} (h : ipTo4 ip = some a) : a.length = 4 := by
  unfold ipTo4 at h
  split at h
  · next h4 => cases h; exact h4
  · split at h
    · next h16 => cases h; simp [List.length_drop, h16.1]
    · cases h

theorem ipTo16_len {ip a : Bytes} (h : ipTo16 ip = some a) : a.length = 16 := by
  unfold ipTo16 at h
  split at h
  · next h4 => cases h; simp [h4]
  · split at h
    · next h16 => cases h; exact h16
    · cases h

/-- every builder appends a unit whose declared length is the length of its contents -/
theorem buildUnit_ok (b : Build) (u : PcoUnit) (h : buildUnit b = some u) : UnitOK u := by
  cases b with
  | dns4Req => cases h; exact ⟨by simp, by simp, rfl⟩
  | dns6Req => cases h; exact ⟨by simp, by simp, rfl⟩
  | ipAllocNas => cases h; exact ⟨by simp, by simp, rfl⟩
  | dns4 ip =>
    simp only [buildUnit, Option.map_eq_some_iff] at h
    obtain ⟨a, ha, rfl⟩ := h
    exact ⟨by simp, by simp, (ipTo4_len ha).symm⟩
  | pcscf4 ip =>
    simp only [buildUnit, Option.map_eq_some_iff] at h
    obtain ⟨a, ha, rfl⟩ := h
    exact ⟨by simp, by simp, (ipTo4_len ha).symm⟩
  | dns6 ip =>
    simp only [buildUnit] at h
    split at h
    · simp only [Option.map_eq_some_iff] at h
      obtain ⟨a, ha, rfl⟩ := h
      exact ⟨by simp, by simp, (ipTo16_len ha).symm⟩
    · cases h
  | mtu4 m => cases h; exact ⟨by simp, by simp, rfl⟩

theorem build_ok (bs : List Build) : ∀ u ∈ (build bs).1, UnitOK u := by
  induction bs with
  | nil => simp [build]
  | cons b r ih =>
    intro u hu
    unfold build at hu
    cases hb : buildUnit b with
    | none => simp only [hb] at hu; exact ih u hu
    | some x =>
      simp only [hb] at hu
      rcases List.mem_cons.mp hu with rfl | h
      · exact buildUnit_ok b _ hb
      · exact ih u h

/-- **a list built with the `Add…` builders round-trips**: serialising it and parsing the octets back yields the same
identifiers, lengths and contents in the same order (configuration-protocol octet 0x80 first) -/
theorem built_roundtrip (bs : List Build) : unmarshal (marshal (build bs).1) = .ok (build bs).1 :=
  pco_roundtrip _ (build_ok bs)

/-- what the address builders store: an IPv4 address (given in 4 or in IPv4-mapped 16 octets) as its four octets, an IPv6
address as its sixteen octets; anything else is an error and appends nothing; the MTU as two octets, most significant first -/
theorem builders_spec (a b c d : UInt8) :
    buildUnit (.dns4 [a, b, c, d]) = some ⟨13, 4, [a, b, c, d]⟩ ∧
    buildUnit (.dns4 ([0, 0, 0, 0, 0, 0, 0, 0, 0, 0, 0xff, 0xff, a, b, c, d])) = some ⟨13, 4, [a, b, c, d]⟩ ∧
    buildUnit (.pcscf4 [a, b, c, d]) = some ⟨12, 4, [a, b, c, d]⟩ ∧
    buildUnit (.dns6 [a, b, c, d]) = none ∧
    (∀ m, m < 65536 → buildUnit (.mtu4 m) = some ⟨16, 2, [UInt8.ofNat (m / 256), UInt8.ofNat m]⟩) := by
  refine ⟨rfl, ?_, rfl, rfl, fun _ _ => rfl⟩
  simp [buildUnit, ipTo4]

theorem dns6_spec (ip : Bytes) (h : ip.length = 16) : buildUnit (.dns6 ip) = some ⟨3, 16, ip⟩ := by
  simp [buildUnit, ipTo16, h]

theorem dns4_rejects (ip : Bytes) (h4 : ip.length ≠ 4) (h16 : ip.length ≠ 16) : buildUnit (.dns4 ip) = none := by
  simp [buildUnit, ipTo4, h4, h16]

example : (build [.dns4Req, .dns4 [8, 8, 8, 8], .dns6 [1, 2], .mtu4 1500]).1 =
    [⟨13, 0, []⟩, ⟨13, 4, [8, 8, 8, 8]⟩, ⟨16, 2, [5, 220]⟩] := by decide
example : marshal (build [.dns4 [8, 8, 8, 8], .mtu4 1500]).1 = [0x80, 0, 13, 4, 8, 8, 8, 8, 0, 16, 2, 5, 220] := by decide

end NasVerif.Props.C16
