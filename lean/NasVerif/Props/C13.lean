import NasVerif.Proofs.ListLemmas
/-!
# C13 — slice and area lists encode to the specified layout and decode back

`Spec/Lists.lean` holds decoders written from the TS 24.501 figures (S-NSSAI 9.11.2.8, NSSAI 9.11.3.37, rejected NSSAI
9.11.3.46, TAI list 9.11.3.9, service area list 9.11.3.49, LADN 9.11.3.29/30). The theorems say that those independent
decoders recover exactly the lists the library encoded — for every SST/SD, every list length the property names, one or
several PLMNs — and that the library's own NSSAI decoder *is* the specification decoder on every byte string (so
malformed lengths are errors), and its LADN-indication decoder recovers every well-formed list.
Models: `Model/Convert.lean`, tied to the Go functions by the correspondence run.
-/
namespace NasVerif.Props.C13
open NasVerif NasVerif.Model.Convert NasVerif.Spec.Lists NasVerif.Spec.Identity NasVerif.Proofs.Identity NasVerif.Proofs.Lists NasVerif.Props.C12
set_option linter.unusedSimpArgs false
set_option linter.unusedVariables false

/-- `SnssaiToNas` output (SST with or without a 24-bit SD) is read back by the specification decoder, whatever follows -/
theorem snssaiToNas_layout (v : SnssaiV) (r : Bytes) : decSnssaiLV (v.enc ++ r) = some (v.toMapped, r) := snssai_enc_dec v r

/-- `SnssaiToModels` on the S-NSSAI IE carrying `v` returns `v` -/
theorem snssaiIe_roundtrip (v : SnssaiV) (pad : Bytes) :
    snssaiIeToModels (v.enc.getD 0 0) (v.enc.drop 1 ++ pad) = v.toSnssai := by
  obtain ⟨sst, sd⟩ := v
  cases sd with
  | none => simp [SnssaiV.enc, SnssaiV.sdText, snssaiToNas, snssaiIeToModels, SnssaiV.toSnssai]
  | some t =>
    obtain ⟨a, b, c⟩ := t
    simp [SnssaiV.enc, SnssaiV.sdText, snssaiToNas, hexText_ne_nil, sdBytes_hexText, snssaiIeToModels, SnssaiV.toSnssai]

/-- `RequestedNssaiToModels` on a decoded IE (Len = length of Buffer) decodes exactly what the specification decoder does,
and reports everything else (reserved length octets, truncated elements) as an error -/
theorem requestedNssai_spec (buf : Bytes) :
    Agrees (requestedNssaiToModels buf.length buf) (decNssai buf.length buf) := by
  have := reqNssaiLoop_spec buf.length (buf.length + 1) buf 0 [] (by omega) (by omega) (by omega) (by omega)
  simpa [requestedNssaiToModels, Agrees] using this

/-- requested NSSAI: the library's decoder recovers every list of S-NSSAIs encoded by `SnssaiToNas` (any number of
entries that fits the IE) -/
theorem requestedNssai_roundtrip (l : List SnssaiV) :
    requestedNssaiToModels (l.flatMap SnssaiV.enc).length (l.flatMap SnssaiV.enc) = .ok (l.map SnssaiV.toMapped) := by
  have h := requestedNssai_spec (l.flatMap SnssaiV.enc)
  rw [nssai_enc_dec l _ (Nat.le_refl _)] at h
  exact h

/-- `LadnToModels` recovers every well-formed LADN indication (a sequence of complete (length, DNN) entries) exactly -/
theorem ladnToModels_spec (buf : Bytes) (l : List Bytes) (h : decLadnInd buf.length buf = some l) :
    ladnToModels buf = .ok l := by
  have := ladnLoop_spec buf.length (buf.length + 1) buf 0 [] l (by omega) (by omega) (by omega) (by simpa using h)
  simpa [ladnToModels] using this

/-- every list of DNNs (each at most 255 octets) written as an LADN indication is recovered by `LadnToModels` -/
theorem ladn_indication_roundtrip (l : List Bytes) (hl : ∀ d ∈ l, d.length < 256) :
    ladnToModels (l.flatMap encDnn) = .ok l :=
  ladnToModels_spec _ _ (ladnInd_enc_dec l hl _ (Nat.le_refl _))

/-- TAI list (9.11.3.9): for 1..16 identities over one PLMN (type 00) or several (type 10), the specification decoder
recovers exactly the input list -/
theorem taiList_enc_dec (l : List TaiV) (h1 : 1 ≤ l.length) (h16 : l.length ≤ 16) (hv : ∀ t ∈ l, t.plmn.Valid) :
    ∃ w, taiListToNas (l.map TaiV.toModel) = .ok w ∧ decTaiList w = some (l.map TaiV.toOctets) := by
  have hh := tai_header l.length h1 h16
  match l, h1 with
  | t0 :: r, _ =>
    have hp0 := text_to_plmn t0.plmn (hv t0 (by simp))
    have hlen : (t0 :: r).length = r.length + 1 := rfl
    rw [hlen] at hh
    unfold taiListToNas
    simp only [List.map_cons, List.length_cons, List.length_map]
    generalize ((2 : UInt8) <<< 5) + (UInt8.ofNat (r.length + 1) - 1) = hdr2 at hh ⊢
    generalize ((0 : UInt8) <<< 5) + (UInt8.ofNat (r.length + 1) - 1) = hdr0 at hh ⊢
    obtain ⟨⟨a1, a2, a3⟩, ⟨b1, b2, b3⟩⟩ := hh
    split
    · next hmixed =>
      obtain ⟨body, hb, ht⟩ := taiBodyMixed_spec (t0 :: r) hv
      simp only [List.map_cons, List.length_cons] at hb ht
      refine ⟨hdr2 :: body, by rw [hb]; rfl, ?_⟩
      simp only [decTaiList, b1, b2, b3, ne_eq, not_true_eq_false, if_false, if_true, ht]
      rw [if_neg (by decide)]
    · next hsame =>
      -- every entry has the first entry's PLMN text, hence its octets
      have hall : ∀ t ∈ r, t.plmn.octets = t0.plmn.octets := by
        intro t ht
        have hne : ¬ ((TaiV.toModel t).mcc ≠ (TaiV.toModel t0).mcc ∨ (TaiV.toModel t).mnc ≠ (TaiV.toModel t0).mnc) := by
          intro hcon
          apply hsame
          simp only [List.any_cons, List.any_map, Bool.or_eq_true, List.any_eq_true]
          right; exact ⟨t, ht, by simpa using hcon⟩
        have hm : t.plmn.mccText = t0.plmn.mccText ∧ t.plmn.mncText = t0.plmn.mncText := by
          simp only [TaiV.toModel] at hne
          constructor
          · exact Classical.byContradiction fun h => hne (Or.inl h)
          · exact Classical.byContradiction fun h => hne (Or.inr h)
        have e1 := text_to_plmn t.plmn (hv t (by simp [ht]))
        rw [hm.1, hm.2, hp0] at e1
        exact (Outcome.ok.inj e1).symm
      have hbody := taiBodySame_spec (t0 :: r) t0.plmn.octets
      simp only [List.map_cons, List.length_cons] at hbody
      obtain ⟨x, y, z, hxyz⟩ := plmn_octets3 t0.plmn
      refine ⟨hdr0 :: (t0.plmn.octets ++ taiBodySame (TaiV.toModel t0 :: List.map TaiV.toModel r)), ?_, ?_⟩
      · simp only [TaiV.toModel] at hp0 ⊢
        rw [hp0]; rfl
      · rw [hxyz] at hbody ⊢
        simp only [decTaiList, List.cons_append, List.nil_append, a1, a2, a3, ne_eq, not_true_eq_false, if_false, if_true, hbody]
        simp only [Option.some.injEq, List.cons.injEq, TaiV.toOctets, hxyz, true_and]
        apply List.map_congr_left
        intro t ht
        unfold TaiV.toOctets
        rw [hall t ht, hxyz]

/-- service area list (9.11.3.49, type of list 00): for 1..16 TACs the specification decoder recovers the allowed type,
the PLMN and exactly the TACs -/
theorem serviceArea_enc_dec (p : Plmn) (hv : p.Valid) (allowed : Bool) (l : List (UInt8 × UInt8 × UInt8))
    (h1 : 1 ≤ l.length) (h16 : l.length ≤ 16) :
    ∃ w, partialServiceAreaListToNas p.mccText p.mncText allowed (l.map fun (a, b, c) => hexText [a, b, c]) = .ok w ∧
      decServiceArea w = some (!allowed, l.map fun (a, b, c) => ⟨p.octets, [a, b, c]⟩) := by
  have hp := text_to_plmn p hv
  have hh := sarea_header (l.length - 1) (by omega) allowed
  obtain ⟨x, y, z, hxyz⟩ := plmn_octets3 p
  unfold partialServiceAreaListToNas
  simp only [tacsOf_spec, hp, bind, Outcome.bind, pure, if_pos (show l.length > 0 by omega)]
  generalize ((((if allowed then 0 else 1 : UInt8) <<< 7) &&& 0x80) + (UInt8.ofNat (l.length - 1) &&& 0x1f)) = hdr at hh ⊢
  obtain ⟨a1, a2, a3⟩ := hh
  refine ⟨_, rfl, ?_⟩
  rw [hxyz]
  simp only [decServiceArea, List.cons_append, List.nil_append, a1, if_true, a2, show l.length - 1 + 1 = l.length by omega, takeTacs_flat,
    Option.map_some]
  cases allowed <;> simp_all

/-- rejected NSSAI (9.11.3.46): the specification decoder recovers every S-NSSAI with its cause (0 = not available in the
current PLMN, 1 = not available in the current registration area), as long as the contents fit the one-octet length -/
theorem rejectedNssai_enc_dec (inPlmn inTa : List SnssaiV)
    (hfit : ((inPlmn.map (·, 0) ++ inTa.map (·, 1)).flatMap encRej).length ≤ 255) :
    let (len, buf) := rejectedNssaiToNas (inPlmn.map fun v => (v.sst, v.sdText)) (inTa.map fun v => (v.sst, v.sdText))
    len = buf.length ∧
    decRejected buf.length buf = some ((inPlmn.map fun v => (v.toSnssai, 0)) ++ (inTa.map fun v => (v.toSnssai, 1))) := by
  have hall : ((inPlmn.map fun v => (v.sst, v.sdText)).flatMap fun (s, d) => rejectedSnssaiToNas s d 0) ++
      ((inTa.map fun v => (v.sst, v.sdText)).flatMap fun (s, d) => rejectedSnssaiToNas s d 1) =
      (inPlmn.map (·, 0) ++ inTa.map (·, 1)).flatMap encRej := by
    simp [List.flatMap_append, List.flatMap_map, encRej]
  have hd := rejected_enc_dec (inPlmn.map (·, 0) ++ inTa.map (·, 1)) (by
    intro e he; simp at he; rcases he with ⟨_, _, rfl⟩ | ⟨_, _, rfl⟩ <;> simp) _ (Nat.le_refl _)
  simp only [rejectedNssaiToNas, hall]
  have hlen : ((inPlmn.map (·, 0) ++ inTa.map (·, 1)).flatMap encRej).length % 256 = ((inPlmn.map (·, 0) ++ inTa.map (·, 1)).flatMap encRej).length := by omega
  rw [hlen, List.take_length]
  refine ⟨rfl, ?_⟩
  rw [hd]; simp
  constructor <;> (apply List.map_congr_left; intro v _; rfl)

/-- LADN (9.11.3.30): DNN and tracking area identity list written by `LadnToNas` are recovered by the specification decoder -/
theorem ladn_enc_dec (dnn : Bytes) (hd : dnn.length < 256) (l : List TaiV) (h1 : 1 ≤ l.length) (h16 : l.length ≤ 16)
    (hv : ∀ t ∈ l, t.plmn.Valid) :
    ∃ w, ladnToNas dnn (l.map TaiV.toModel) = .ok w ∧ decLadn w = some (dnn, l.map TaiV.toOctets) := by
  obtain ⟨t, ht, hdec⟩ := taiList_enc_dec l h1 h16 hv
  have htl := decTaiList_len hdec
  refine ⟨UInt8.ofNat dnn.length :: dnn ++ (UInt8.ofNat t.length :: t), by simp [ladnToNas, ht, bind, Outcome.bind, pure], ?_⟩
  have e1 : (UInt8.ofNat dnn.length).toNat = dnn.length := by simp; omega
  have e2 : (UInt8.ofNat t.length).toNat = t.length := by simp; omega
  simp only [List.cons_append, decLadn, e1, List.length_append, List.length_cons, List.drop_left, List.take_left, e2, hdec, if_true, Option.map_some]
  rw [if_pos (by omega)]

/-- a reserved length octet (anything but 1, 2, 4, 5, 8) at the head of the NSSAI contents is an error -/
theorem requestedNssai_bad_length (l : UInt8) (rest : Bytes) (h : l ≠ 1 ∧ l ≠ 2 ∧ l ≠ 4 ∧ l ≠ 5 ∧ l ≠ 8) :
    (requestedNssaiToModels (l :: rest).length (l :: rest)).isErr = true := by
  have := requestedNssai_spec (l :: rest)
  have hd : decSnssaiLV (l :: rest) = none := by
    unfold decSnssaiLV
    split <;> simp_all
  simp only [List.length_cons, decNssai, hd] at this
  exact this

/-- an S-NSSAI element cut short by the end of the contents is an error -/
theorem requestedNssai_truncated : (requestedNssaiToModels 3 [4, 1, 2]).isErr = true ∧ (requestedNssaiToModels 1 [1]).isErr = true := by
  decide

/-! ## non-vacuity -/

def v1 : SnssaiV := ⟨1, some (0x01, 0x02, 0x03)⟩
def v2 : SnssaiV := ⟨2, none⟩
example : [v1, v2].flatMap SnssaiV.enc = [4, 1, 1, 2, 3, 1, 2] := by decide
example : requestedNssaiToModels 7 [4, 1, 1, 2, 3, 1, 2] = .ok [v1.toMapped, v2.toMapped] := by decide
example : decTaiList [0x01, 0x02, 0xf8, 0x39, 0, 0, 1, 0, 0, 2] =
    some [⟨[0x02, 0xf8, 0x39], [0, 0, 1]⟩, ⟨[0x02, 0xf8, 0x39], [0, 0, 2]⟩] := by decide
example : ladnToModels [2, 97, 98, 1, 99] = .ok [[97, 98], [99]] := by decide

end NasVerif.Props.C13
