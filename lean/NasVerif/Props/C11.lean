import NasVerif.Gen.Counter
import NasVerif.Spec.CounterCanon
import NasVerif.Gen.Unrecognised
import NasVerif.Proofs.Bits
/-!
# C11 — NAS COUNT behaves as a 24-bit overflow‖sequence-number counter

All theorems are about the canonical definitions `Spec.CounterCanon` (the translation of `security/counter.go` at the pinned
commit); `Props/C11Tie.lean` proves on every run that the definitions regenerated from `/repo/security/counter.go`
(`NasVerif.Gen.Counter`) are equal to them: a changed mask or shift makes that tie fail.
-/
namespace NasVerif.Props.C11
open NasVerif.Spec.CounterCanon NasVerif.Bits

theorem translator_total : NasVerif.Gen.unrecognisedCounter = [] := by decide
/-- the seven API methods of `security.Count` are all translated on this run (helpers may come and go) -/
theorem methods_covered :
    ["AddOne", "Get", "Overflow", "SQN", "Set", "SetOverflow", "SetSQN"].all (NasVerif.Gen.Counter.methods.contains ·) = true := by
  decide

/-- the state space of the counter -/
def Inv (c : BitVec 32) : Prop := c.toNat < 2^24

inductive Op
  | set (o : BitVec 16) (s : BitVec 8) | setSQN (s : BitVec 8) | setOverflow (o : BitVec 16)
  | addOne | get | sqn | overflow

def step (c : BitVec 32) : Op → BitVec 32
  | .set o s => (Set c o s).1
  | .setSQN s => (SetSQN c s).1
  | .setOverflow o => (SetOverflow c o).1
  | .addOne => (AddOne c).1
  | .get => (Get c).1
  | .sqn => (SQN c).1
  | .overflow => (Overflow c).1

def run (ops : List Op) (c : BitVec 32) : BitVec 32 := ops.foldl step c

/-! constants of the source, as masks -/
theorem k24 : (16777215#32) = lowMask 32 24 := by decide
theorem k8 : (255#32) = lowMask 32 8 := by decide
theorem kMid : (16776960#32) = lowMask 32 16 <<< 8 := by decide
theorem kNotLow : (4294967040#32) = ~~~ (lowMask 32 8) := by decide
theorem kNotMid : (4278190335#32) = ~~~ (lowMask 32 16 <<< 8) := by decide

theorem sqn_toNat (c : BitVec 32) : (SQN c).2.toNat = c.toNat % 256 := by
  simp only [SQN, k8, BitVec.toNat_setWidth, toNat_and_lowMask 32 8 (by omega)]
  omega

theorem overflow_toNat (c : BitVec 32) : (Overflow c).2.toNat = c.toNat / 256 % 65536 := by
  have h : ((c &&& 16776960#32) >>> 8) = (c >>> 8) &&& lowMask 32 16 := by
    rw [kMid]
    apply BitVec.eq_of_getLsbD_eq
    intro i hi
    simp only [BitVec.getLsbD_ushiftRight, BitVec.getLsbD_and, BitVec.getLsbD_shiftLeft, getLsbD_lowMask 32 16 _ (by omega)]
    have e : 8 + i - 8 = i := by omega
    rw [e]
    by_cases h1 : 8 + i < 32
    · have : ¬ (8 + i < 8) := by omega
      simp [h1, this]
    · have : c.getLsbD (8 + i) = false := BitVec.getLsbD_of_ge _ _ (by omega)
      simp [this]
  simp only [Overflow, h, BitVec.toNat_setWidth, toNat_and_lowMask 32 16 (by omega), BitVec.toNat_ushiftRight,
    Nat.shiftRight_eq_div_pow]
  omega

/-- the value always equals overflow × 256 + sequence number -/
theorem value_decomposition (c : BitVec 32) (h : Inv c) :
    (Get c).2.toNat = (Overflow c).2.toNat * 256 + (SQN c).2.toNat := by
  unfold Inv at h
  rw [sqn_toNat, overflow_toNat]
  simp only [Get, maskTo24Bits, k24, toNat_and_lowMask 32 24 (by omega)]
  omega

theorem get_lt (c : BitVec 32) : (Get c).2.toNat < 2^24 := by
  simp only [Get, maskTo24Bits, k24, toNat_and_lowMask 32 24 (by omega)]
  omega

/-- reads do not change the value -/
theorem get_pure (c : BitVec 32) (h : Inv c) : (Get c).1 = c ∧ (Get c).2 = c := by
  unfold Inv at h
  have : (c &&& 16777215#32) = c := by
    apply BitVec.eq_of_toNat_eq
    rw [k24, toNat_and_lowMask 32 24 (by omega)]
    omega
  simp [Get, maskTo24Bits, this]
theorem sqn_pure (c : BitVec 32) : (SQN c).1 = c := rfl
theorem overflow_pure (c : BitVec 32) : (Overflow c).1 = c := rfl

/-- incrementing adds one modulo 2^24 -/
theorem addOne_spec (c : BitVec 32) (h : Inv c) : (AddOne c).1.toNat = (c.toNat + 1) % 2^24 := by
  unfold Inv at h
  simp only [AddOne, maskTo24Bits, k24, toNat_and_lowMask 32 24 (by omega), BitVec.toNat_add]
  simp

/-- sequence number 255 rolls to 0 and carries into the overflow part (which wraps at 2^16) -/
theorem addOne_carry (c : BitVec 32) (h : Inv c) :
    ((SQN c).2.toNat = 255 →
      (SQN (AddOne c).1).2.toNat = 0 ∧ (Overflow (AddOne c).1).2.toNat = ((Overflow c).2.toNat + 1) % 65536) ∧
    ((SQN c).2.toNat ≠ 255 →
      (SQN (AddOne c).1).2.toNat = (SQN c).2.toNat + 1 ∧ (Overflow (AddOne c).1).2.toNat = (Overflow c).2.toNat) := by
  have h1 := addOne_spec c h
  unfold Inv at h
  simp only [sqn_toNat, overflow_toNat, h1]
  omega

/-- setting the sequence number: new SQN is the argument, overflow part unchanged -/
theorem setSQN_spec (c : BitVec 32) (s : BitVec 8) :
    (SQN (SetSQN c s).1).2 = s ∧ (Overflow (SetSQN c s).1).2 = (Overflow c).2 := by
  constructor
  · simp only [SQN, SetSQN, k8, kNotLow]
    apply BitVec.eq_of_getLsbD_eq
    intro i hi
    simp only [BitVec.getLsbD_setWidth, BitVec.getLsbD_and, BitVec.getLsbD_or, BitVec.getLsbD_not,
      getLsbD_lowMask 32 8 _ (by omega)]
    have : i < 32 := by omega
    simp [hi, this]
  · simp only [Overflow, SetSQN, kMid, kNotLow]
    apply BitVec.eq_of_getLsbD_eq
    intro i hi
    simp only [BitVec.getLsbD_setWidth, BitVec.getLsbD_ushiftRight, BitVec.getLsbD_and, BitVec.getLsbD_or,
      BitVec.getLsbD_not, BitVec.getLsbD_shiftLeft, getLsbD_lowMask 32 8 _ (by omega), getLsbD_lowMask 32 16 _ (by omega)]
    have h1 : 8 + i < 32 := by omega
    have h2 : ¬ (8 + i < 8) := by omega
    simp [hi, h1, h2]

/-- setting the overflow part: new overflow is the argument, sequence number unchanged -/
theorem setOverflow_spec (c : BitVec 32) (o : BitVec 16) :
    (Overflow (SetOverflow c o).1).2 = o ∧ (SQN (SetOverflow c o).1).2 = (SQN c).2 := by
  constructor
  · simp only [Overflow, SetOverflow, kMid, kNotMid]
    apply BitVec.eq_of_getLsbD_eq
    intro i hi
    simp only [BitVec.getLsbD_setWidth, BitVec.getLsbD_ushiftRight, BitVec.getLsbD_and, BitVec.getLsbD_or,
      BitVec.getLsbD_not, BitVec.getLsbD_shiftLeft, getLsbD_lowMask 32 16 _ (by omega)]
    have h1 : 8 + i < 32 := by omega
    have h2 : ¬ (8 + i < 8) := by omega
    have h3 : 8 + i - 8 = i := by omega
    have h4 : i < 32 := by omega
    simp [hi, h1, h2, h3, h4]
  · simp only [SQN, SetOverflow, k8, kNotMid]
    apply BitVec.eq_of_getLsbD_eq
    intro i hi
    simp only [BitVec.getLsbD_setWidth, BitVec.getLsbD_and, BitVec.getLsbD_or, BitVec.getLsbD_not,
      BitVec.getLsbD_shiftLeft, getLsbD_lowMask 32 8 _ (by omega), getLsbD_lowMask 32 16 _ (by omega)]
    have h1 : i < 32 := by omega
    have h2 : i < 8 := hi
    simp [hi, h1, h2]

theorem set_spec (c : BitVec 32) (o : BitVec 16) (s : BitVec 8) :
    (Overflow (Set c o s).1).2 = o ∧ (SQN (Set c o s).1).2 = s := by
  have a := setOverflow_spec c o
  have b := setSQN_spec (SetOverflow c o).1 s
  simp only [Set]
  exact ⟨b.2.trans a.1, b.1⟩

/-! ### the invariant holds in every reachable state -/

theorem inv_setSQN (c : BitVec 32) (s : BitVec 8) (h : Inv c) : Inv (SetSQN c s).1 := by
  unfold Inv at *
  rw [toNat_lt_iff] at *
  intro i hi
  have := h i hi
  simp only [SetSQN, kNotLow, BitVec.getLsbD_or, BitVec.getLsbD_and, BitVec.getLsbD_setWidth, this]
  have : ¬ (i < 8) := by omega
  simp [BitVec.getLsbD_of_ge s i (by omega)]

theorem inv_setOverflow (c : BitVec 32) (o : BitVec 16) (h : Inv c) : Inv (SetOverflow c o).1 := by
  unfold Inv at *
  rw [toNat_lt_iff] at *
  intro i hi
  have := h i hi
  simp only [SetOverflow, BitVec.getLsbD_or, BitVec.getLsbD_and, BitVec.getLsbD_setWidth, BitVec.getLsbD_shiftLeft, this]
  simp [BitVec.getLsbD_of_ge o (i - 8) (by omega)]

theorem inv_addOne (c : BitVec 32) : Inv (AddOne c).1 := by
  unfold Inv
  simp only [AddOne, maskTo24Bits, k24, toNat_and_lowMask 32 24 (by omega)]
  omega

theorem inv_step (c : BitVec 32) (op : Op) (h : Inv c) : Inv (step c op) := by
  cases op with
  | set o s => exact inv_setSQN _ s (inv_setOverflow c o h)
  | setSQN s => exact inv_setSQN c s h
  | setOverflow o => exact inv_setOverflow c o h
  | addOne => exact inv_addOne c
  | get => simp only [step, (get_pure c h).1]; exact h
  | sqn => exact h
  | overflow => exact h

theorem inv_init : Inv 0#32 := by unfold Inv; decide

/-- every state reachable from a fresh counter by any operation sequence is below 2^24 -/
theorem inv_reachable (ops : List Op) : Inv (run ops 0#32) := by
  suffices ∀ c, Inv c → Inv (run ops c) from this _ inv_init
  induction ops with
  | nil => intro c h; exact h
  | cons op ops ih => intro c h; exact ih _ (inv_step c op h)

/-- and every one of the 2^24 values is reachable (so the theorems above are about all of them) -/
theorem all_reachable (n : Nat) (h : n < 2^24) : ∃ ops, (run ops 0#32).toNat = n := by
  refine ⟨[.set (BitVec.ofNat 16 (n / 256)) (BitVec.ofNat 8 (n % 256))], ?_⟩
  have hinv : Inv (run [.set (BitVec.ofNat 16 (n / 256)) (BitVec.ofNat 8 (n % 256))] 0#32) := inv_reachable _
  have hd := value_decomposition _ hinv
  have hs := set_spec 0#32 (BitVec.ofNat 16 (n / 256)) (BitVec.ofNat 8 (n % 256))
  simp only [run, List.foldl, step] at hd hinv ⊢
  rw [hs.1, hs.2, (get_pure _ hinv).2] at hd
  rw [hd]
  simp [BitVec.toNat_ofNat]
  omega

/-- non-vacuity: the wrap-around state is reachable and wraps to 0 -/
example : (run [.set 0xffff#16 0xff#8, .addOne] 0#32) = 0#32 := by decide

end NasVerif.Props.C11
