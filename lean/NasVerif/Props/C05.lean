import NasVerif.Props.Codec
/-! # C05 — dispatch on protocol discriminator and message type is exact -/
namespace NasVerif.Props.C05
open NasVerif NasVerif.Codec NasVerif.Props.Codec

theorem nil_rejected : ∃ e, plainDecode Model.top none = .err e := ⟨_, rfl⟩
theorem empty_rejected : ∃ e, plainDecode Model.top (some []) = .err e := ⟨_, rfl⟩

/-- a first octet other than 0x7E / 0x2E is an error -/
theorem unknown_epd_rejected (b : UInt8) (rest : Bytes) (h1 : b.toNat ≠ 0x7e) (h2 : b.toNat ≠ 0x2e) :
    plainDecode Model.top (some (b :: rest)) = .err .unknown := by
  simp [plainDecode, Model.top, Gen.epdGmm, Gen.epdGsm, h1, h2]

/-- inputs shorter than the family's header are an error -/
theorem short_rejected_gmm (bs : Bytes) (h : bs.length < 3) : famDecode Model.top.msgs Model.top.gmm bs = .err .trunc := by
  simp [famDecode, Model.top, Gen.dispatch_gmm, h]
theorem short_rejected_gsm (bs : Bytes) (h : bs.length < 4) : famDecode Model.top.msgs Model.top.gsm bs = .err .trunc := by
  simp [famDecode, Model.top, Gen.dispatch_gsm, h]

/-- a message type not in the family's table is an error -/
theorem unknown_type_rejected (dp : Dispatch) (bs : Bytes) (hl : ¬ bs.length < dp.headerLen)
    (h : lookupType dp.decode ((bs.take dp.headerLen).getD dp.typeIndex 0).toNat = none) :
    famDecode Model.top.msgs dp bs = .err .unknown := by
  simp only [famDecode, hl, if_false, h]

/-- a successful decode populates exactly one family and in it exactly one body — the one named by the message
type octet — every element of which is well formed, and the header view equals the body's own header octets -/
theorem decode_exact (inp : Option Bytes) (m : NasMsg) (h : plainDecode Model.top inp = .ok m) :
    WFNas Model.top m :=
  plainDecode_sound Model.top top_wf inp m h

/-- encoding: no body at all is an error -/
theorem encode_no_body : ∃ e, plainEncode Model.top ⟨none, none⟩ = .err e := ⟨_, rfl⟩

/-- encoding: a message type that is not in the table is an error (whatever bodies are set) -/
theorem encode_unknown_type (dp : Dispatch) (f : Family)
    (h : lookupType dp.encode (f.header.getD dp.typeIndex 0).toNat = none) :
    famEncode Model.top.msgs dp f = .err .unknown := by
  simp only [famEncode, h]

/-- encoding dispatches symmetrically: a known type with its body present runs that body's encoder -/
theorem encode_dispatch (dp : Dispatch) (f : Family) (name : String) (v : MsgVal) (e : MsgEntry)
    (h : lookupType dp.encode (f.header.getD dp.typeIndex 0).toNat = some name)
    (hb : f.bodies.lookup name = some v) (he : findMsg Model.top.msgs name = some e) :
    famEncode Model.top.msgs dp f = encode e.dec v := by
  simp only [famEncode, h, hb, he]

/-- the 44 dispatchable types (28 + 16), and the decode and encode switches agree -/
example : Gen.dispatch_gmm.decode.length = 28 ∧ Gen.dispatch_gsm.decode.length = 16 ∧
    Gen.dispatch_gmm.decode = Gen.dispatch_gmm.encode ∧ Gen.dispatch_gsm.decode = Gen.dispatch_gsm.encode := by decide

end NasVerif.Props.C05
