import NasVerif.Codec.TopTheorems
import NasVerif.Model.Nas
import NasVerif.Gen.Unrecognised
/-!
Run obligations shared by C01–C05, C10: the tables regenerated from /repo on this run are well formed.
Re-decided by the kernel on every run (`decide`, no `native_decide`).
-/
namespace NasVerif.Props.Codec
open NasVerif NasVerif.Codec

/-- every statement of the 90 codec functions, the dispatchers and the IE helper methods was mapped to the IR -/
theorem translator_total : Gen.unrecognisedCodec = [] := by decide

set_option maxRecDepth 100000 in
/-- all 45 regenerated tables, both dispatch tables and their cross-consistency -/
theorem top_wf : Model.top.wf = true := by decide

theorem msgs_wf : Model.top.msgs.all (fun e => e.dec.wf && e.compat) = true := by
  have := top_wf; unfold Top.wf at this; simp only [Bool.and_eq_true] at this; exact this.1.1.1.1.1

theorem entry_wf (name : String) (e : MsgEntry) (h : findMsg Model.top.msgs name = some e) : e.dec.wf = true := by
  have := List.all_eq_true.mp msgs_wf e (findMsg_mem _ _ _ h).1
  simp at this; exact this.1

end NasVerif.Props.Codec
