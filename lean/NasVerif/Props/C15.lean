import NasVerif.Proofs.QosLemmas
/-!
# C15 — QoS rules and QoS flow descriptions: total parser, exact round trip

Models: `Model/Qos.lean` (nasType/qos_flow_desc.go, qos_rule.go), tied to the Go code by the correspondence run.
* totality: for every byte string both parsers return a value or an error; the loops finish within their fuel because every
  iteration consumes at least one octet (running out of fuel is a `panic` in the model);
* unknown identifiers: an unknown parameter identifier / packet-filter component type that is reached is an error;
* round trip: for every well-formed list (`WFDesc`: at most 63 parameters, operation code ≤ 7; `WFRule`: operation code ≤ 7,
  at most 15 packet filters with identifiers and directions below 16, QFI below 64, IPv4 address/mask of 4 octets, MAC
  addresses of 6 octets, flow labels below 2^19, at most 255 octets of components per filter, delete-operation filters
  carrying identifiers only) serialising then parsing returns the list;
* layout: the serialised form spelled out in plain numbers, as in Figures 9.11.4.12.x / 9.11.4.13.x.
-/
namespace NasVerif.Props.C15
open NasVerif NasVerif.Model.Qos NasVerif.Proofs.Qos
set_option linter.unusedSimpArgs false
set_option linter.unusedVariables false

/-- parsing arbitrary bytes as QoS flow descriptions terminates with a value or an error -/
theorem unmarshalDescs_total (b : Bytes) : NoPanic (unmarshalDescs b) :=
  unmarshalDescsLoop_total _ _ _ (by omega)

/-- a parameter list in which an unknown identifier is reached is an error (`unknown`), whatever its declared length and contents -/
theorem parseParamList_unknown (n : Nat) (id len : UInt8) (rest : Bytes) (h : ¬ KnownParamId id) :
    parseParamList (n + 1) (id :: len :: rest) = .err .unknown := by
  simp [parseParamList, readU8, bind, Outcome.bind, (parseParam_none_iff id _).mpr h]

/-- a flow description whose first parameter identifier is unknown makes the whole parse an error -/
theorem unmarshalDescs_unknown_first (qfi op num id len : UInt8) (rest : Bytes) (hn : num &&& 63 ≠ 0) (h : ¬ KnownParamId id) :
    unmarshalDescs (qfi :: op :: num :: id :: len :: rest) = .err .unknown := by
  have hnum : num ≠ 0 := by intro h0; subst h0; exact hn (by decide)
  obtain ⟨k, hk⟩ : ∃ k, (num &&& 63).toNat = k + 1 := by
    cases hq : (num &&& 63).toNat with
    | zero => exact absurd (UInt8.toNat_inj.mp (by simpa using hq)) hn
    | succ k => exact ⟨k, rfl⟩
  simp [unmarshalDescs, unmarshalDescsLoop, parseFlowDesc, readU8, bind, Outcome.bind, hnum, hk, parseParamList_unknown _ _ _ _ h]

/-- serialising a well-formed description list and parsing it returns the list -/
theorem descs_roundtrip (l : List FlowDesc) (hw : ∀ d ∈ l, WFDesc d) : unmarshalDescs (marshalDescs l) = .ok l := by
  have := marshalDescs_len l
  have h := unmarshalDescsLoop_marshal l hw ((marshalDescs l).length + 1) (by omega) []
  simpa [unmarshalDescs] using h

/-- parsing arbitrary bytes as QoS rules terminates with a value or an error -/
theorem unmarshalRules_total (b : Bytes) : NoPanic (unmarshalRules b) :=
  unmarshalRulesLoop_total _ _ _ (by omega)

/-- an unknown packet-filter component type is an error (`unknown`) -/
theorem parseComps_unknown (fuel : Nat) (t : UInt8) (rest : Bytes) (acc : List Comp) (h : compLen t = none) :
    parseComps (fuel + 1) (t :: rest) acc = .err .unknown := by
  simp [parseComps, h]

/-- serialising a well-formed rule list and parsing it returns the list -/
theorem rules_roundtrip (l : List Rule) (hw : ∀ r ∈ l, WFRule r) :
    ∃ bytes, marshalRules l = .ok bytes ∧ unmarshalRules bytes = .ok l := by
  obtain ⟨bytes, hb, hlen, hp⟩ := rules_roundtrip_loop l hw
  exact ⟨bytes, hb, by simpa [unmarshalRules] using hp (bytes.length + 1) [] (by omega)⟩

/-- a flow description is: QFI octet; operation code in bits 8..6; E bit (bit 7, set iff parameters follow) and the number
of parameters in bits 6..1; then for each parameter its identifier, the length of its contents, its contents -/
theorem marshalDesc_layout (d : FlowDesc) (hw : WFDesc d) :
    marshalDesc d = [d.qfi, UInt8.ofNat (d.op.toNat * 32), UInt8.ofNat ((if d.params.length = 0 then 0 else 64) + d.params.length)] ++
      d.params.flatMap (fun p => p.ident :: UInt8.ofNat p.body.length :: p.body) := by
  obtain ⟨hn, ho⟩ := hw
  have hb := desc_layout_bits d.op.toNat (le7 ho) d.params.length (by omega)
  simp only [UInt8.ofNat_toNat] at hb
  have hh := desc_header d.params.length (by omega)
  simp only at hh
  unfold marshalDesc marshalParams
  simp only [hb.1, hb.2]
  by_cases hz : d.params.length = 0
  · have : d.params = [] := List.eq_nil_of_length_eq_zero hz
    simp [this]
  · have e1 : (if UInt8.ofNat d.params.length ≠ 0 then (1 : UInt8) else 0) = 1 := hh.2.2.2.mpr hz
    simp [e1]

/-- a QoS rule is: rule identifier; length of the rest (2 octets); operation code (bits 8..6) | DQR (bit 5) | number of packet
filters (bits 4..1); the packet filter list; precedence; segregation (bit 7) | QFI (bits 6..1) -/
theorem marshalRule_layout (r : Rule) (hw : WFRule r) :
    ∃ pfb, (if r.op = 5 then (pure (buildPfDeleteList r.pfs) : Outcome Bytes) else buildPfList r.pfs) = .ok pfb ∧
      marshalRule r = .ok (r.id :: be16 (UInt16.ofNat (pfb.length + 3)) ++
        (UInt8.ofNat (r.op.toNat * 32 + (if r.dqr then 16 else 0) + r.pfs.length) :: pfb ++
          [r.prec, UInt8.ofNat ((if r.seg then 64 else 0) + r.qfi.toNat)])) := by
  obtain ⟨hop, hn, hq, hpf⟩ := hw
  have h1 := rule_layout_bits r.op.toNat (le7 hop) r.pfs.length (by omega) r.dqr
  have h2 := rule_qfi_bits r.qfi.toNat (lt64 hq) r.seg
  simp only [UInt8.ofNat_toNat] at h1 h2
  have hl : ∀ (hdr x y : UInt8) (pfb : Bytes), (hdr :: pfb ++ [x, y]).length = pfb.length + 3 := by intros; simp
  by_cases h5 : r.op = 5
  · refine ⟨buildPfDeleteList r.pfs, by rw [if_pos h5]; rfl, ?_⟩
    unfold marshalRule
    simp only [if_pos h5, bind, Outcome.bind, pure, h1, h2, hl]
  · rw [if_neg h5] at hpf
    obtain ⟨pb, hpb, _⟩ := pfs_roundtrip r.pfs hpf
    refine ⟨pb, by rw [if_neg h5]; exact hpb, ?_⟩
    unfold marshalRule
    simp only [if_neg h5, hpb, bind, Outcome.bind, pure, h1, h2, hl]

/-! ## non-vacuity -/

example : WFDesc ⟨9, 1, [.fiveQI 9, .gfbrUl 6 100, .avgWindow 2000]⟩ := by unfold WFDesc; decide
example : unmarshalDescs (marshalDescs [⟨9, 1, [.fiveQI 9, .gfbrUl 6 100, .avgWindow 2000]⟩, ⟨5, 2, []⟩]) =
    .ok [⟨9, 1, [.fiveQI 9, .gfbrUl 6 100, .avgWindow 2000]⟩, ⟨5, 2, []⟩] := by decide
example : unmarshalDescs [0x01, 0x20, 0x41, 0x09, 0x00] = .err .unknown := by decide
example : (marshalRules [⟨1, 1, true, [⟨1, 3, [.matchAll, .proto 17, .remotePort 5060]⟩], 255, false, 9⟩]).isOk = true := by decide
example : unmarshalRules [1, 0, 6, 0x21, 0x31, 1, 0x21, 0xff, 5] = .err .unknown := by decide

end NasVerif.Props.C15
