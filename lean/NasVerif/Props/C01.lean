import NasVerif.Props.Codec
import NasVerif.Codec.Alloc
/-! # C01 — decoding arbitrary bytes never panics, hangs or over-allocates -/
namespace NasVerif.Props.C01
open NasVerif NasVerif.Codec NasVerif.Props.Codec

/-- `PlainNasDecode` returns a message or an error for every input, including nil and empty -/
theorem plainDecode_total (inp : Option Bytes) :
    (∃ m, plainDecode Model.top inp = .ok m) ∨ (∃ e, plainDecode Model.top inp = .err e) := by
  have := plainDecode_no_panic Model.top top_wf inp
  cases h : plainDecode Model.top inp <;> simp_all

/-- `GmmMessageDecode` never panics on any byte string -/
theorem gmmDecode_no_panic (bs : Bytes) : famDecode Model.top.msgs Model.top.gmm bs ≠ .panic :=
  famDecode_no_panic _ msgs_wf _ _

/-- `GsmMessageDecode` never panics on any byte string -/
theorem gsmDecode_no_panic (bs : Bytes) : famDecode Model.top.msgs Model.top.gsm bs ≠ .panic :=
  famDecode_no_panic _ msgs_wf _ _

/-- every one of the 45 `Decode<Msg>` functions, called directly, never panics -/
theorem msgDecode_no_panic (name : String) (e : MsgEntry) (h : findMsg Model.top.msgs name = some e) (bs : Bytes) :
    decode e.dec bs ≠ .panic :=
  decode_no_panic _ (entry_wf name e h) _

/-- termination: the optional-element loop makes progress on every iteration, so its result does not depend on
the fuel once the fuel covers the remaining input (the model's fuel is not what makes it terminate) -/
theorem loop_terminates (name : String) (e : MsgEntry) (_h : findMsg Model.top.msgs name = some e)
    (fuel : Nat) (bs : Bytes) (s : Slots) (hf : bs.length ≤ fuel) :
    decLoop e.dec.opt fuel bs s = decLoop e.dec.opt bs.length bs s :=
  decLoop_fuel _ _ _ _ hf

/-- on the tables regenerated on this run: no optional element's struct is larger than 47 octets (`go/types` sizes, amd64) -/
theorem opt_struct_sizes : ∀ e ∈ Model.top.msgs, maxOptSize e.dec ≤ 47 := by decide

/-- allocation: for each of the 45 decoders and every input, the octets requested while decoding — every `make` of `SetLen`
(done after the length guard and before the content is read, so also the one that precedes a truncation error) and the struct
of every optional element met — are at most 48 · |input| plus one maximum-size element (65 535 octets) -/
theorem decode_alloc_bound (name : String) (e : MsgEntry) (h : findMsg Model.top.msgs name = some e) (bs : Bytes) :
    allocDecode e.dec bs ≤ 48 * bs.length + 65535 := by
  have h1 := allocDecode_le e.dec bs
  have h2 := opt_struct_sizes e (findMsg_mem _ _ _ h).1
  have : (maxOptSize e.dec + 1) * bs.length ≤ 48 * bs.length := Nat.mul_le_mul_right _ (by omega)
  omega

/-- non-vacuity of the bound's second term: a declared 65 535-octet element with nothing behind it does request 64 KiB -/
example : allocDecode Gen.dec_DLNASTransport [0x7e, 0x00, 0x68, 0x01, 0xff, 0xff] = 65535 := by decide

/-- non-vacuity: a real table and a real input reach the loop and an optional element -/
example : decode Gen.dec_RegistrationReject [0x7e, 0x00, 0x44, 0x01, 0x16, 0x01, 0xaa]
    = .ok ⟨[⟨0,0,[0x7e]⟩, ⟨0,0,[0x00]⟩, ⟨0,0,[0x44]⟩, ⟨0,0,[0x01]⟩], [none, some ⟨0x16, 1, [0xaa]⟩, none]⟩ := by decide

end NasVerif.Props.C01
