import NasVerif.Gen.Globals
/-!
# C19 — safe for concurrent use on independent values (partial: what a model can carry)

Two parts.

1. An abstract interleaving semantics: a shared store `G` that no step writes, per-thread stores, and threads whose steps
   read `G` and read/write only their own store. For **every schedule** each thread ends in exactly the state of its own
   sequential run, and `G` is never changed — so there are no conflicting accesses and the results are those of a
   sequential execution.
2. The tie to the code: `Gen/Globals.lean` is regenerated from every library package on every run and lists the
   package-level variables and every place outside `init` where one of them is assigned, has its address taken (explicitly,
   by slicing an array, or implicitly through a pointer-receiver method) or — for reference types — is used other than for an
   index read. The run obligation is that this list is empty and that the module imports neither `unsafe` nor cgo; the only
   shared objects handed out are the logrus handles, which are external and internally synchronised (trusted).
   With no writable package-level state a library call is a function of read-only globals and of its arguments, i.e. a step of
   the abstract semantics when the goroutines' arguments are distinct.

What this cannot carry (named in the evidence): the Go memory model itself, races inside the standard library or logrus,
and data reachable from two goroutines' arguments (the property's "distinct values" hypothesis). The runtime half of the check
runs the real library from 64 goroutines under the race detector and compares every result with the sequential run.
-/
namespace NasVerif.Props.C19

/-! ## abstract interleaving -/

structure Sys (G L : Type) where
  shared : G
  locals : Nat → L

/-- one step of thread `i`: reads the shared store and its own store, writes only its own store -/
def stepThread {G L} (prog : Nat → G → L → L) (s : Sys G L) (i : Nat) : Sys G L :=
  { s with locals := fun j => if j = i then prog i s.shared (s.locals i) else s.locals j }

/-- run a schedule: the list of thread ids in the order in which they take steps -/
def run {G L} (prog : Nat → G → L → L) (s : Sys G L) (sched : List Nat) : Sys G L :=
  sched.foldl (stepThread prog) s

/-- `n` steps of thread `i` on its own -/
def seqRun {G L} (prog : Nat → G → L → L) (g : G) (i : Nat) : Nat → L → L
  | 0, l => l
  | n + 1, l => seqRun prog g i n (prog i g l)

theorem seqRun_succ {G L} (prog : Nat → G → L → L) (g : G) (i n : Nat) (l : L) :
    seqRun prog g i (n + 1) l = prog i g (seqRun prog g i n l) := by
  induction n generalizing l with
  | zero => rfl
  | succ k ih => simp only [seqRun] at ih ⊢; exact ih _

/-- no schedule ever changes the shared store -/
theorem shared_never_written {G L} (prog : Nat → G → L → L) (s : Sys G L) (sched : List Nat) :
    (run prog s sched).shared = s.shared := by
  induction sched generalizing s with
  | nil => rfl
  | cons i r ih => simp only [run, List.foldl_cons] at ih ⊢; rw [ih]; rfl

/-- for every schedule, every thread ends exactly where its own sequential run of as many steps ends -/
theorem schedule_independent {G L} (prog : Nat → G → L → L) (s : Sys G L) (sched : List Nat) (i : Nat) :
    (run prog s sched).locals i = seqRun prog s.shared i (sched.count i) (s.locals i) := by
  induction sched generalizing s with
  | nil => rfl
  | cons j r ih =>
    have := ih (stepThread prog s j)
    simp only [run, List.foldl_cons] at this ⊢
    rw [this]
    simp only [stepThread]
    by_cases hji : i = j
    · subst hji
      simp only [if_true, List.count_cons_self, seqRun]
    · have hc : List.count i (j :: r) = List.count i r := by
        rw [List.count_cons]; simp [Ne.symm hji]
      simp only [hji, if_false, hc]

/-- two schedules with the same number of steps per thread give the same final state: the outcome is that of a sequential execution -/
theorem same_result_any_interleaving {G L} (prog : Nat → G → L → L) (s : Sys G L) (s1 s2 : List Nat)
    (h : ∀ i, s1.count i = s2.count i) (i : Nat) : (run prog s s1).locals i = (run prog s s2).locals i := by
  rw [schedule_independent, schedule_independent, h]

/-! ## the tie to the code: run obligations on the regenerated facts -/

/-- no function other than `init` assigns a package-level variable, takes its address or hands out a reference to it -/
theorem no_writers_outside_init : Gen.Globals.writersOutsideInit = [] := by decide

/-- neither `unsafe` nor cgo is imported by the library -/
theorem no_unsafe : Gen.Globals.unsafeImports = [] := by decide

/-- the only externally typed shared objects are the logrus handles of package logger -/
theorem external_shared_are_loggers :
    Gen.Globals.externalSharedPkgs.all (fun s => s == "logger") = true := by decide

/-- non-vacuity: three threads, a schedule and its reversal give the same result -/
example : (run (fun i g l => l + g * (i + 1)) ⟨2, fun _ => 0⟩ [0, 1, 2, 1, 0, 0]).locals 0 =
    (run (fun i g l => l + g * (i + 1)) ⟨2, fun _ => 0⟩ [0, 0, 1, 2, 1, 0]).locals 0 := by decide

end NasVerif.Props.C19
