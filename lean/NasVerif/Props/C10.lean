import NasVerif.Proofs.HeapLemmas
import NasVerif.Props.Codec
/-!
# C10 — decode and encode are pure: no input mutation, no aliasing, deterministic

`Codec/Heap.lean` is the codec interpreter with explicit memory (heap = list of byte regions; the input slice is one region;
a decoded `Buffer` is a slice header pointing to a region; `Octet` storage lives in the message struct). The theorems hold for
**every** table, hence for the 45 tables regenerated from /repo on this run (`Props.Codec.translator_total`: every statement of
the 90 codec functions was mapped to this IR, which has no aliasing or input-writing construct — a statement such as
`a.X.Buffer = buffer.Next(n)` is outside the IR, fails the run, and is then searched with the aliasing oracles on the real code).
Modelled rather than verified: that `bytes.NewBuffer` only reads its argument, that `binary.Read` copies, that `make` returns
fresh memory, that `binary.Write` appends (Go library semantics).
-/
namespace NasVerif.Props.C10
open NasVerif NasVerif.Codec NasVerif.Codec.HeapSem NasVerif.Props.Codec

/-- decoding (accepted input) leaves every pre-existing region — the input bytes included — exactly as it was -/
theorem decode_leaves_memory (d : MsgDef) (h : Heap) (inp : Nat) (m : MsgValH) (h' : Heap)
    (hd : decodeH d h inp = .ok (m, h')) (r : Nat) (hr : r < h.length) : h'.getD r [] = h.getD r [] := by
  have := decodeH_sim d h inp
  rw [hd] at this
  obtain ⟨⟨ext, he⟩, _, _⟩ := this
  rw [he]; simp [List.getD_eq_getElem?_getD, List.getElem?_append_left hr]

/-- rejected input: the decoder returns no heap at all — nothing it could have written is observable; the outcome is the
value-level decoder's error -/
theorem decode_rejects_purely (d : MsgDef) (h : Heap) (inp : Nat) (e : Err) (hd : decodeH d h inp = .err e) :
    decode d (h.getD inp []) = .err e := by
  have := decodeH_sim d h inp
  rw [hd] at this; exact this

/-- every slice reachable from the decoded message lies in a region created during the call: it is not the input region and
not any region that existed before -/
theorem decode_fresh (d : MsgDef) (h : Heap) (inp : Nat) (m : MsgValH) (h' : Heap)
    (hd : decodeH d h inp = .ok (m, h')) (x : Nat) (hx : x ∈ m.refs) : h.length ≤ x ∧ x < h'.length := by
  have := decodeH_sim d h inp
  rw [hd] at this
  exact this.2.2 x hx

/-- no two elements of the decoded message share a region: the slices reachable from it are pairwise distinct regions (each was
allocated by its own `make`, and an element that is decoded twice leaves its first region unreferenced) -/
theorem decode_elements_disjoint (d : MsgDef) (h : Heap) (inp : Nat) (m : MsgValH) (h' : Heap)
    (hd : decodeH d h inp = .ok (m, h')) : m.refs.Nodup :=
  decodeH_nodup d h inp m h' hd

/-- the decoded message, read through the heap, is what the heap-free decoder of C01–C04 returns on the input contents -/
theorem decode_erasure (d : MsgDef) (h : Heap) (inp : Nat) (m : MsgValH) (h' : Heap)
    (hd : decodeH d h inp = .ok (m, h')) : decode d (h.getD inp []) = .ok (m.erase h') := by
  have := decodeH_sim d h inp
  rw [hd] at this
  exact this.2.1

theorem erase_set_other (m : MsgValH) (h : Heap) (r : Nat) (x : Bytes) (hr : r ∉ m.refs) : m.erase (h.set r x) = m.erase h := by
  have hv : ∀ v : IEValH, r ∉ v.refs → v.erase (h.set r x) = v.erase h := by
    intro v hn
    unfold IEValH.erase
    cases hs : v.st with
    | inline d => simp [Storage.resolve]
    | nilSlice => simp [Storage.resolve]
    | ref q =>
      have hne : q ≠ r := by intro he; apply hn; simp [IEValH.refs, hs, he]
      simp [Storage.resolve, List.getD_eq_getElem?_getD, List.getElem?_set, Ne.symm hne]
  unfold MsgValH.erase
  congr 1
  · apply List.map_congr_left
    intro v hvm
    apply hv
    intro hc; apply hr
    simp only [MsgValH.refs, List.mem_append, List.mem_flatMap]
    exact Or.inl ⟨v, hvm, hc⟩
  · apply List.map_congr_left
    intro o ho
    cases o with
    | none => rfl
    | some v =>
      simp only [Option.map_some]
      congr 1
      apply hv
      intro hc; apply hr
      simp only [MsgValH.refs, List.mem_append, List.mem_flatMap]
      exact Or.inr ⟨some v, ho, hc⟩

/-- mutating the input after decoding does not affect the message -/
theorem input_mutation_invisible (d : MsgDef) (h : Heap) (inp : Nat) (hin : inp < h.length) (m : MsgValH) (h' : Heap)
    (hd : decodeH d h inp = .ok (m, h')) (x : Bytes) : m.erase (h'.set inp x) = m.erase h' := by
  apply erase_set_other
  intro hc
  have := (decode_fresh d h inp m h' hd inp hc).1
  omega

/-- mutating any slice of the message after decoding does not affect the input (nor any other pre-existing region) -/
theorem message_mutation_invisible (d : MsgDef) (h : Heap) (inp : Nat) (m : MsgValH) (h' : Heap)
    (hd : decodeH d h inp = .ok (m, h')) (r : Nat) (hr : r ∈ m.refs) (x : Bytes) (q : Nat) (hq : q < h.length) :
    (h'.set r x).getD q [] = h.getD q [] := by
  have hf := (decode_fresh d h inp m h' hd r hr).1
  have hne : r ≠ q := by omega
  rw [← decode_leaves_memory d h inp m h' hd q hq]
  simp [List.getD_eq_getElem?_getD, List.getElem?_set, hne]

/-- determinism: the decoded value depends only on the input contents — not on where the input lives, nor on anything else in memory -/
theorem decode_deterministic (d : MsgDef) (h1 h2 : Heap) (i1 i2 : Nat) (hsame : h1.getD i1 [] = h2.getD i2 [])
    (m1 m2 : MsgValH) (g1 g2 : Heap) (hd1 : decodeH d h1 i1 = .ok (m1, g1)) (hd2 : decodeH d h2 i2 = .ok (m2, g2)) :
    m1.erase g1 = m2.erase g2 := by
  have e1 := decode_erasure d h1 i1 m1 g1 hd1
  have e2 := decode_erasure d h2 i2 m2 g2 hd2
  rw [hsame] at e1
  rw [e1] at e2
  exact Outcome.ok.inj e2

/-- encoding appends the value-level encoding to the output region and changes no other region; with the output buffer distinct
from the message's own slices the message reads the same afterwards -/
theorem encode_appends (d : MsgDef) (m : MsgValH) (h : Heap) (out : Nat) (hout : out < h.length) (h' : Heap)
    (he : encodeH d m h out = .ok h') :
    ∃ bytes, encode d (m.erase h) = .ok bytes ∧ h'.getD out [] = h.getD out [] ++ bytes ∧
      (∀ r, r ≠ out → h'.getD r [] = h.getD r []) ∧ (out ∉ m.refs → m.erase h' = m.erase h) := by
  unfold encodeH at he
  cases hb : encode d (m.erase h) with
  | ok bytes =>
    simp only [hb] at he
    cases he
    refine ⟨bytes, rfl, ?_, ?_, ?_⟩
    · simp [List.getD_eq_getElem?_getD, List.getElem?_set, hout]
    · intro r hr; simp [List.getD_eq_getElem?_getD, List.getElem?_set, Ne.symm hr]
    · intro hn; exact erase_set_other m h out _ hn
  | err e => simp [hb] at he
  | panic => simp [hb] at he

/-- instantiation: every one of the 45 regenerated `Decode<Msg>` tables (the run obligation is that the translator mapped every
statement of the codec functions to the IR) -/
theorem msgDecode_pure (name : String) (e : MsgEntry) (_h : findMsg Model.top.msgs name = some e) (hp : Heap) (inp : Nat)
    (m : MsgValH) (h' : Heap) (hd : decodeH e.dec hp inp = .ok (m, h')) :
    (∀ r, r < hp.length → h'.getD r [] = hp.getD r []) ∧ (∀ x ∈ m.refs, hp.length ≤ x) ∧
      decode e.dec (hp.getD inp []) = .ok (m.erase h') :=
  ⟨fun r hr => decode_leaves_memory _ _ _ _ _ hd r hr, fun x hx => (decode_fresh _ _ _ _ _ hd x hx).1, decode_erasure _ _ _ _ _ hd⟩

/-- non-vacuity: a real table, an input with an optional TLV-E element living at region 1 of a heap with other contents; the
decoded Buffer lands in a new region 2 and nothing else changes -/
example : decodeH Gen.dec_RegistrationReject [[0xde, 0xad], [0x7e, 0x00, 0x44, 0x01, 0x78, 0x00, 0x04, 0xaa, 0xbb, 0xcc, 0xdd]] 1 =
    .ok (⟨[⟨0, 0, .inline [0x7e]⟩, ⟨0, 0, .inline [0x00]⟩, ⟨0, 0, .inline [0x44]⟩, ⟨0, 0, .inline [0x01]⟩],
          [none, none, some ⟨0x78, 4, .ref 2⟩]⟩,
         [[0xde, 0xad], [0x7e, 0x00, 0x44, 0x01, 0x78, 0x00, 0x04, 0xaa, 0xbb, 0xcc, 0xdd], [0xaa, 0xbb, 0xcc, 0xdd]]) := by decide

end NasVerif.Props.C10
