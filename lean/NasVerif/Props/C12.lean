import NasVerif.Proofs.IdentityLemmas
import NasVerif.Props.C14
/-!
# C12 — subscriber and network identities convert faithfully between wire and text

Specification side (`Spec/Identity.lean`): the octet layouts of TS 24.501 9.11.3.4 / TS 24.008 10.5.1.13 and the text
formats of TS 23.003, written independently of the Go code over digits and nibbles.
Theorems are about the hand models (`Model/Convert.lean`), tied to the Go functions by the correspondence run;
each quantifies over *all* valid identities (every MCC/MNC with 2- or 3-digit MNC, all 2^24 AMF identifiers, all
2^32 TMSIs, every routing indicator of 1..4 digits, every MSIN / scheme output / IMEI / IMEISV digit string).
-/
namespace NasVerif.Props.C12
open NasVerif NasVerif.Model.Convert NasVerif.Spec.Identity NasVerif.Proofs.Identity
set_option linter.unusedSimpArgs false
set_option linter.unusedVariables false

/-! ## PLMN (TS 24.008 10.5.1.13 digit order) -/

theorem plmn_to_text (p : Plmn) (hv : p.Valid) : plmnIDToString p.octets = .ok p.text := by
  obtain ⟨h1, h2, h3, h4, h5, h6⟩ := hv
  have a := oct_facts p.mcc2 (by omega) p.mcc1 (by omega)
  have c := oct_facts p.mnc2 (by omega) p.mnc1 (by omega)
  have a' := oct_facts p.mcc1 (by omega) p.mcc2 (by omega)
  have d1 := digit_char _ h1
  have d2 := digit_char _ h2
  have d3 := digit_char _ h3
  have d4 := digit_char _ h4
  have d5 := digit_char _ h5
  cases hm : p.mnc3 with
  | none =>
    have b := oct_facts 15 (by omega) p.mcc3 (by omega)
    have e := oct_facts p.mcc3 (by omega) p.mnc1 (by omega)
    have f := oct_facts p.mnc2 (by omega) 15 (by omega)
    simp only [Plmn.octets, hm, Option.getD, plmnIDToString_cons3, a.1, a.2.1, b.1, b.2.1, c.1, c.2.1, a'.2.2.2.2.1, e.2.2.2.2.1, f.2.2.2.2.1]
    rw [hexEnc_oct _ _ (by omega) (by omega), hexEnc_oct _ _ (by omega) (by omega), hexEnc_oct _ _ (by omega) (by omega)]
    simp [hexEnc, hexDigitChar_15, d1.1, d2.1, d3.1, d4.1, d5.1, Plmn.text, Plmn.mccText, Plmn.mncText, hm]
  | some d =>
    have hd := h6 d hm
    have d6 := digit_char _ hd
    have b := oct_facts d (by omega) p.mcc3 (by omega)
    have e := oct_facts p.mcc3 (by omega) p.mnc1 (by omega)
    have f := oct_facts p.mnc2 (by omega) d (by omega)
    simp only [Plmn.octets, hm, Option.getD, plmnIDToString_cons3, a.1, a.2.1, b.1, b.2.1, c.1, c.2.1, a'.2.2.2.2.1, e.2.2.2.2.1, f.2.2.2.2.1]
    rw [hexEnc_oct _ _ (by omega) (by omega), hexEnc_oct _ _ (by omega) (by omega), hexEnc_oct _ _ (by omega) (by omega)]
    simp [hexEnc, d1.1, d2.1, d3.1, d4.1, d5.1, d6.1, d6.2.1, Plmn.text, Plmn.mccText, Plmn.mncText, hm]

theorem text_to_plmn (p : Plmn) (hv : p.Valid) : plmnIDToNas p.mccText p.mncText = .ok p.octets := by
  obtain ⟨h1, h2, h3, h4, h5, h6⟩ := hv
  have d1 := digit_char _ h1
  have d2 := digit_char _ h2
  have d3 := digit_char _ h3
  have d4 := digit_char _ h4
  have d5 := digit_char _ h5
  have a := oct_facts p.mcc2 (by omega) p.mcc1 (by omega)
  have c := oct_facts p.mnc2 (by omega) p.mnc1 (by omega)
  cases hm : p.mnc3 with
  | none =>
    have b := oct_facts 15 (by omega) p.mcc3 (by omega)
    simp [plmnIDToNas, Plmn.mccText, Plmn.mncText, hm, idx, bind, Outcome.bind, pure, digitOr, d1.2.2, d2.2.2, d3.2.2, d4.2.2, d5.2.2,
      Plmn.octets, a.2.2.2.2.1, c.2.2.2.2.1]
    exact b.2.2.2.2.1
  | some d =>
    have hd := h6 d hm
    have d6 := digit_char _ hd
    have b := oct_facts d (by omega) p.mcc3 (by omega)
    simp [plmnIDToNas, Plmn.mccText, Plmn.mncText, hm, idx, bind, Outcome.bind, pure, digitOr, d1.2.2, d2.2.2, d3.2.2, d4.2.2, d5.2.2, d6.2.2,
      Plmn.octets, a.2.2.2.2.1, b.2.2.2.2.1, c.2.2.2.2.1]

/-- text → (region, set, pointer): the 8/10/6 split of TS 23.003 -/
theorem amfId_text_to_nas (r s p : Nat) (hr : r < 256) (hs : s < 1024) (hp : p < 64) :
    amfIdToNas (hexText (amfOctets r s p)) = .ok (UInt8.ofNat r, UInt16.ofNat s, UInt8.ofNat p) := by
  have hi := amf_set_hi (s / 4) (by omega) (s % 4) (by omega)
  have lo := amf_set_lo (s % 4) (by omega) p hp
  have hs' : s / 4 * 4 + s % 4 = s := by omega
  rw [← hexEnc_eq_hexText]
  simp only [amfIdToNas, hexDec_hexEnc, amfOctets, idx3, bind, Outcome.bind, pure, lo.1, lo.2.1, hi.1, hs', List.length_cons,
    List.length_nil, ne_eq, not_true_eq_false, if_false, Nat.zero_add, Nat.reduceAdd]

/-- (region, set, pointer) → text -/
theorem amfId_nas_to_text (r s p : Nat) (hr : r < 256) (hs : s < 1024) (hp : p < 64) :
    amfIdToModels (UInt8.ofNat r) (UInt16.ofNat s) (UInt8.ofNat p) = hexText (amfOctets r s p) := by
  have hi := amf_set_hi (s / 4) (by omega) (s % 4) (by omega)
  have lo := amf_set_lo (s % 4) (by omega) p hp
  have hs' : s / 4 * 4 + s % 4 = s := by omega
  rw [hs'] at hi
  rw [← hexEnc_eq_hexText]
  simp only [amfIdToModels, amfOctets, hi.2.1, hi.2.2, lo.2.2]

theorem text_to_guti (p : Plmn) (hv : p.Valid) (a0 a1 a2 t0 t1 t2 t3 : UInt8) :
    gutiToNas (gutiText p [a0, a1, a2] [t0, t1, t2, t3]) = .ok (gutiOctets p [a0, a1, a2] [t0, t1, t2, t3]) := by
  obtain ⟨h1, h2, h3, h4, h5, h6⟩ := hv
  have d1 := digit_char _ h1
  have d2 := digit_char _ h2
  have d3 := digit_char _ h3
  have d4 := digit_char _ h4
  have d5 := digit_char _ h5
  have re := guti_amf_reassemble a1 a2
  have hamf := amfIdToNas_hexText a0 a1 a2
  have htm : hexDec (hexText [t0, t1, t2, t3]) = some [t0, t1, t2, t3] := by rw [← hexEnc_eq_hexText, hexDec_hexEnc]
  simp only [hexText] at hamf htm
  have s1 := setBits_oct p.mcc2 (by omega) p.mcc1 (by omega)
  have s3 := setBits_oct p.mnc2 (by omega) p.mnc1 (by omega)
  cases hm : p.mnc3 with
  | none =>
    have s2 := setBits_oct 15 (by omega) p.mcc3 (by omega)
    simp only [gutiText, Plmn.text, Plmn.mccText, Plmn.mncText, hm, gutiToNas]
    simp [hexText, atoiAt, idx, slice, sliceFrom, bind, Outcome.bind, pure, d1.2.2, d2.2.2, d3.2.2, d4.2.2, d5.2.2, hamf, htm,
      guti_o0, s1, s3, gutiOctets, Plmn.octets, hm, copy4]
    refine ⟨?_, re.1, ?_⟩
    · exact s2
    · have := re.2; simpa using this
  | some d =>
    have hd := h6 d hm
    have d6 := digit_char _ hd
    have s2 := setBits_oct d (by omega) p.mcc3 (by omega)
    simp only [gutiText, Plmn.text, Plmn.mccText, Plmn.mncText, hm, gutiToNas]
    simp [hexText, atoiAt, idx, slice, sliceFrom, bind, Outcome.bind, pure, d1.2.2, d2.2.2, d3.2.2, d4.2.2, d5.2.2, d6.2.2, hamf, htm,
      guti_o0, s1, s3, gutiOctets, Plmn.octets, hm, copy4]
    refine ⟨?_, re.1, ?_⟩
    · exact s2
    · have := re.2; simpa using this

theorem guti_to_text (p : Plmn) (hv : p.Valid) (a0 a1 a2 t0 t1 t2 t3 : UInt8) :
    gutiToString (gutiOctets p [a0, a1, a2] [t0, t1, t2, t3]) =
      .ok { mcc := p.mccText, mnc := p.mncText, amfId := hexText [a0, a1, a2], guti := gutiText p [a0, a1, a2] [t0, t1, t2, t3] } := by
  have ht := plmn_to_text p hv
  simp only [Plmn.octets] at ht
  cases hm : p.mnc3 with
  | none =>
    simp only [hm, Option.getD_none] at ht
    simp [gutiToString, gutiOctets, Plmn.octets, hm, slice, sliceFrom, bind, Outcome.bind, pure, ht, hexEnc_eq_hexText, gutiText,
      Plmn.text, Plmn.mccText, Plmn.mncText]
  | some d =>
    simp only [hm, Option.getD_some] at ht
    simp [gutiToString, gutiOctets, Plmn.octets, hm, slice, sliceFrom, bind, Outcome.bind, pure, ht, hexEnc_eq_hexText, gutiText,
      Plmn.text, Plmn.mccText, Plmn.mncText]

/-- IMEI / IMEISV: the digits of the identity, with the prefix selected by the type of identity -/
theorem pei_to_text (typ d1 : Nat) (rest : List Nat) (ht : typ < 8) (hd : ∀ d ∈ d1 :: rest, d < 10) :
    peiToString (peiOctets typ d1 rest) =
      .ok ((if typ = 3 then ascii "imei-" else ascii "imeisv-") ++ digitsText (d1 :: rest)) := by
  have hd1 : d1 < 10 := hd d1 (by simp)
  have hrest : ∀ d ∈ rest, d < 10 := fun d h => hd d (by simp [h])
  have f := pei_first d1 (by omega) typ ht
  have hx := peiDigits_hex d1 rest (by omega) (fun d h => by have := hrest d h; omega)
  have hm := map_digit (d1 :: rest) hd
  rw [peiHex_eq, hm] at hx
  have hpre : (if UInt8.ofNat typ = 3 then ascii "imei-" else ascii "imeisv-") = (if typ = 3 then ascii "imei-" else ascii "imeisv-") := by
    by_cases h3 : typ = 3
    · rw [if_pos h3, if_pos (f.2.2.mpr h3)]
    · rw [if_neg h3, if_neg (fun h => h3 (f.2.2.mp h))]
  unfold peiToString peiDigitText
  by_cases hp : rest.length % 2 = 0
  · have h1 : ¬ rest.length % 2 = 1 := by omega
    rw [if_neg h1] at hx
    simp only [peiOctets, if_pos hp, List.length_cons, idx, sliceFrom, bind, Outcome.bind, pure, List.getD_cons_zero, List.drop_succ_cons,
      List.drop_zero, f.1.1, f.1.2.1, f.1.2.2, hx, chop1_append_one, hpre]
    simp
    simp only [f.1.1, f.1.2.1, f.1.2.2, hx, chop1_append_one, hpre]
    simp
  · have h1 : rest.length % 2 = 1 := by omega
    rw [if_pos h1] at hx
    have e : digitsText (d1 :: rest) ++ [hexDigitChar 15, hexDigitChar 0] = (digitsText (d1 :: rest) ++ [hexDigitChar 15]) ++ [hexDigitChar 0] := by simp
    rw [e] at hx
    simp only [peiOctets, if_neg hp, List.length_cons, idx, sliceFrom, bind, Outcome.bind, pure, List.getD_cons_zero, List.drop_succ_cons,
      List.drop_zero, f.2.1.1, f.2.1.2.1, f.2.1.2.2, hx, chop1_append_one, hpre]
    simp
    have f2 := f.2.1
    simp only [Nat.zero_add] at f2
    simp only [f2.1, f2.2.1, f2.2.2, hx, chop1_append_one, hpre]
    simp [chop1_append_one]

theorem suci_assemble (p : Plmn) (hv : p.Valid) (ri : List Nat) (hl : 1 ≤ ri.length ∧ ri.length ≤ 4) (hri : ∀ d ∈ ri, d < 10)
    (s hnpk : Nat) (hs : s < 16) (hk : hnpk < 256) (out soTxt : Bytes) (hout : out ≠ [])
    (hso : schemeOutputText (UInt8.ofNat s) out = .ok soTxt) :
    suciToString (suciOctets p ri s hnpk out) = .ok (suciText p ri [hexDigitChar s] (fmtDec hnpk) soTxt, p.text) := by
  obtain ⟨b4, b5, hb, hr⟩ := suci_ri ri hl hri
  have hmcc := suci_mcc p hv (p.mnc3.getD 15) (by
    obtain ⟨_, _, _, _, _, h6⟩ := hv
    cases hm : p.mnc3 with
    | none => simp
    | some d => have := h6 d hm; simp; omega)
  have hmnc := suci_mnc p hv
  have hlen : 0 < out.length := List.length_pos_iff.mpr hout
  have hkk : (UInt8.ofNat hnpk).toNat = hnpk := by simp; omega
  simp only [suciOctets, Plmn.octets, hb, List.cons_append, List.nil_append]
  unfold suciToString
  simp [idx, sliceFrom, bind, Outcome.bind, pure, hmcc, hmnc, hr, hso, hkk, (scheme_hex s hs).2]
  rw [if_neg (by decide), if_neg (by omega)]
  simp [join, suciText, dash, dashB, Plmn.text, ascii]

/-- whatever `GutiToNasWithError` accepts has 19 or 20 characters, decimal digits in the five leading positions -/
theorem gutiToNas_ok_valid {g w : Bytes} (h : gutiToNas g = .ok w) :
    (g.length = 19 ∨ g.length = 20) ∧ ∀ i, i < 5 → (atoi1 (g.getD i 0)).isSome := by
  unfold gutiToNas at h
  split at h
  · cases h
  · next hl =>
    refine ⟨by omega, ?_⟩
    obtain ⟨d0, h0, h⟩ := bind_ok_inv h
    obtain ⟨d1, h1, h⟩ := bind_ok_inv h
    obtain ⟨d2, h2, h⟩ := bind_ok_inv h
    obtain ⟨d3, h3, h⟩ := bind_ok_inv h
    obtain ⟨d4, h4, h⟩ := bind_ok_inv h
    intro i hi
    have : i = 0 ∨ i = 1 ∨ i = 2 ∨ i = 3 ∨ i = 4 := by omega
    rcases this with rfl | rfl | rfl | rfl | rfl
    · rw [atoiAt_ok h0]; rfl
    · rw [atoiAt_ok h1]; rfl
    · rw [atoiAt_ok h2]; rfl
    · rw [atoiAt_ok h3]; rfl
    · rw [atoiAt_ok h4]; rfl

theorem amfIdToNas_ok_valid {s : Bytes} {r : UInt8 × UInt16 × UInt8} (h : amfIdToNas s = .ok r) :
    ∃ a0 a1 a2, hexDec s = some [a0, a1, a2] := by
  unfold amfIdToNas at h
  split at h
  · cases h
  · next bs hb =>
    split at h
    · cases h
    · next hl =>
      match bs, hl with
      | [a, b, c], _ => exact ⟨a, b, c, hb⟩
      | [], hl => simp at hl
      | [_], hl => simp at hl
      | [_, _], hl => simp at hl
      | _ :: _ :: _ :: _ :: _, hl => simp at hl

/-! ## round trips -/

/-- PLMN: text → wire → text -/
theorem plmn_text_wire_text (p : Plmn) (hv : p.Valid) :
    (plmnIDToNas p.mccText p.mncText >>= plmnIDToString) = .ok p.text := by
  rw [text_to_plmn p hv]; exact plmn_to_text p hv

/-- AMF identifier: (region, set, pointer) → text → (region, set, pointer), all 2^24 identifiers -/
theorem amfId_nas_text_nas (r s p : Nat) (hr : r < 256) (hs : s < 1024) (hp : p < 64) :
    amfIdToNas (amfIdToModels (UInt8.ofNat r) (UInt16.ofNat s) (UInt8.ofNat p)) = .ok (UInt8.ofNat r, UInt16.ofNat s, UInt8.ofNat p) := by
  rw [amfId_nas_to_text r s p hr hs hp]; exact amfId_text_to_nas r s p hr hs hp

/-- AMF identifier: text → (region, set, pointer) → text, for the lower-case text of any three octets -/
theorem amfId_text_nas_text (a0 a1 a2 : UInt8) :
    (amfIdToNas (hexText [a0, a1, a2]) >>= fun (r, s, p) => (pure (amfIdToModels r s p) : Outcome Bytes)) = .ok (hexText [a0, a1, a2]) := by
  have re := guti_amf_reassemble a1 a2
  rw [amfIdToNas_hexText]
  simp only [bind, Outcome.bind, pure, amfIdToModels, ← hexEnc_eq_hexText]
  have h5 : (((a1.toUInt16 <<< 2) + ((a2.toUInt16 &&& 0x00c0) >>> 6)) >>> 2).toUInt8 &&& 0xff = a1 := re.1
  have h6 := re.2
  have e : ((((a1.toUInt16 <<< 2) + ((a2.toUInt16 &&& 0x00c0) >>> 6)) &&& 0x03).toUInt8 <<< 6) + ((a2 &&& 0x3f) &&& 0x3f) = a2 := by
    have : ∀ x : UInt8, setBits 0 63 x 255 6 &&& (192 : UInt8) = x <<< (6 : UInt8) := by
      intro x
      have hx : x = UInt8.ofNat x.toNat := by simp
      rw [hx]; exact amf_shift_mask x.toNat x.toNat_lt
    rw [this] at h6; exact h6
  rw [h5, e]

/-- 5G-GUTI: text → wire → text -/
theorem guti_text_wire_text (p : Plmn) (hv : p.Valid) (a0 a1 a2 t0 t1 t2 t3 : UInt8) :
    (gutiToNas (gutiText p [a0, a1, a2] [t0, t1, t2, t3]) >>= gutiToString) =
      .ok { mcc := p.mccText, mnc := p.mncText, amfId := hexText [a0, a1, a2], guti := gutiText p [a0, a1, a2] [t0, t1, t2, t3] } := by
  rw [text_to_guti p hv]; exact guti_to_text p hv a0 a1 a2 t0 t1 t2 t3

/-- 5G-GUTI: wire → text → wire -/
theorem guti_wire_text_wire (p : Plmn) (hv : p.Valid) (a0 a1 a2 t0 t1 t2 t3 : UInt8) :
    (gutiToString (gutiOctets p [a0, a1, a2] [t0, t1, t2, t3]) >>= fun t => gutiToNas t.guti) =
      .ok (gutiOctets p [a0, a1, a2] [t0, t1, t2, t3]) := by
  rw [guti_to_text p hv]; exact text_to_guti p hv a0 a1 a2 t0 t1 t2 t3

/-! ## SUCI (SUPI format IMSI) -/

/-- null protection scheme: the scheme output is the BCD-coded MSIN -/
theorem suci_to_text_null (p : Plmn) (hv : p.Valid) (ri : List Nat) (hl : 1 ≤ ri.length ∧ ri.length ≤ 4) (hri : ∀ d ∈ ri, d < 10)
    (hnpk : Nat) (hk : hnpk < 256) (msin : List Nat) (hm : ∀ d ∈ msin, d < 10) (hne : msin ≠ []) :
    suciToString (suciOctets p ri 0 hnpk (bcdPack msin)) =
      .ok (suciText p ri (ascii "0") (fmtDec hnpk) (digitsText msin), p.text) := by
  have hb : bcdPack msin ≠ [] := by
    match msin, hne with
    | [a], _ => simp [bcdPack]
    | a :: b :: r, _ => simp [bcdPack]
  exact suci_assemble p hv ri hl hri 0 hnpk (by omega) hk _ _ hb (suci_so_null msin hm hne)

/-- non-null protection scheme (1..15): the scheme output is opaque octets, rendered as hexadecimal text -/
theorem suci_to_text_scheme (p : Plmn) (hv : p.Valid) (ri : List Nat) (hl : 1 ≤ ri.length ∧ ri.length ≤ 4) (hri : ∀ d ∈ ri, d < 10)
    (s hnpk : Nat) (hs : s < 16) (h0 : s ≠ 0) (hk : hnpk < 256) (out : Bytes) (hout : out ≠ []) :
    suciToString (suciOctets p ri s hnpk out) =
      .ok (suciText p ri [hexDigitChar s] (fmtDec hnpk) (hexText out), p.text) :=
  suci_assemble p hv ri hl hri s hnpk hs hk out _ hout (suci_so_scheme s hs h0 out)

/-! ## invalid text is reported as an error (never accepted, never a panic) -/

/-- a GUTI text of the wrong length, or with a non-digit among the five leading characters, is an error -/
theorem gutiToNas_invalid_err (g : Bytes)
    (h : ¬ (g.length = 19 ∨ g.length = 20) ∨ ∃ i, i < 5 ∧ atoi1 (g.getD i 0) = none) : (gutiToNas g).isErr = true := by
  cases hg : gutiToNas g with
  | ok w =>
    have v := gutiToNas_ok_valid hg
    rcases h with h | ⟨i, hi, hn⟩
    · exact absurd v.1 h
    · have := v.2 i hi; rw [hn] at this; cases this
  | err e => rfl
  | panic => exact absurd hg (C14.gutiToNas_total g)

/-- an AMF identifier text that is not the hexadecimal text of exactly three octets is an error -/
theorem amfIdToNas_invalid_err (s : Bytes) (h : ∀ a0 a1 a2, hexDec s ≠ some [a0, a1, a2]) : (amfIdToNas s).isErr = true := by
  cases hs : amfIdToNas s with
  | ok r => obtain ⟨a0, a1, a2, ha⟩ := amfIdToNas_ok_valid hs; exact absurd ha (h a0 a1 a2)
  | err e => rfl
  | panic => exact absurd hs (C14.amfIdToNas_total s)

/-! ## non-vacuity: concrete identities meet the hypotheses and the functions produce the expected values -/

def p20893 : Plmn := ⟨2, 0, 8, 9, 3, none⟩
example : p20893.Valid := by simp [Plmn.Valid, p20893]
example : p20893.octets = [0x02, 0xf8, 0x39] := by decide
example : gutiToNas (ascii "20893cafe0000000001") = .ok [0xf2, 0x02, 0xf8, 0x39, 0xca, 0xfe, 0x00, 0x00, 0x00, 0x00, 0x01] := by decide
example : (suciToString [0x01, 0x02, 0xf8, 0x39, 0xf0, 0xff, 0x00, 0x00, 0x00, 0x00, 0x47, 0x78]).isOk = true := by decide
example : (gutiToNas (ascii "2089Xcafe0000000001")).isErr = true := by decide
example : (amfIdToNas (ascii "cafe")).isErr = true := by decide

end NasVerif.Props.C12
