import NasVerif.Gen.Accessors
import NasVerif.Gen.Unrecognised
import NasVerif.Spec.AccessorLayout
import NasVerif.Proofs.DnnLemmas
/-!
# C09 — each IE field accessor reads and writes exactly its documented bits

`Gen.Acc.pairs` / `Gen.Acc.ranges` are regenerated from `/repo/nasType` on every run (typed transcription of every getter
and setter body). `pairOK` runs the verified symbolic bit executor on each pair and compares with the documented
layout; the theorems below say what a passed check means, for all prior contents and all argument values.
-/
namespace NasVerif.Props.C09
open NasVerif.Acc NasVerif.Gen.Acc

theorem translator_total : NasVerif.Gen.unrecognisedAcc = [] := by decide

set_option maxRecDepth 1000000 in
/-- every scalar getter/setter pair passes the layout check (re-decided by the kernel on this run's source) -/
theorem all_pairs_ok : pairs.all pairOK = true := by decide

/-- every octet-range pair copies exactly its documented rows -/
theorem all_ranges_ok : ranges.all rangeOK = true := by decide

set_option maxRecDepth 1000000 in
/-- the layouts in the source are the pinned (reviewed) ones: a field moved together with its annotation is noticed -/
theorem layout_pinned :
    (pairs.map (fun p => (p.type, p.field, p.ann.r0, p.ann.r1, p.ann.sBit, p.ann.len)) == NasVerif.Spec.scalarLayout &&
     ranges.map (fun p => (p.type, p.field, p.r0, p.r1, p.sBit, p.len)) == NasVerif.Spec.rangeLayout) = true := by
  decide

theorem pair_ok (p : Pair) (h : p ∈ pairs) : pairOK p = true := List.all_eq_true.mp all_pairs_ok p h

/-- the getter returns exactly the bits at the documented octet and bit position (bit j of the result is bit
`posOf j` of the contents for j < len, and 0 above) -/
theorem getter_reads_documented_bits (p : Pair) (h : p ∈ pairs) (octs : Nat → Nat) (ho : ∀ i, octs i < 256) (j : Nat) :
    (eval ⟨octs, 0⟩ p.get).testBit j =
      (decide (j < p.ann.len) && (octs (posOf p.ann.r0 p.ann.sBit p.ann.len j).1).testBit (posOf p.ann.r0 p.ann.sBit p.ann.len j).2) := by
  have := pair_ok p h
  unfold pairOK at this; simp only [Bool.and_eq_true] at this
  exact get_spec p this.1.2 octs ho j

/-- set-then-get returns the value truncated to the field width, for every prior content and every value -/
theorem set_then_get (p : Pair) (h : p ∈ pairs) (octs : Nat → Nat) (ho : ∀ i, octs i < 256) (v : Nat) (hv : v < 2^p.retW) :
    eval ⟨execSet v p.set octs, 0⟩ p.get = v % 2^p.ann.len :=
  set_get p (pair_ok p h) octs ho v hv

/-- a setter changes no bit outside its own field -/
theorem setter_frame (p : Pair) (h : p ∈ pairs) (octs : Nat → Nat) (ho : ∀ i, octs i < 256) (v : Nat) (hv : v < 2^p.retW)
    (i j : Nat) (hj : j < 8) (hout : ∀ q, q < p.ann.len → posOf p.ann.r0 p.ann.sBit p.ann.len q ≠ (i, j)) :
    (execSet v p.set octs i).testBit j = (octs i).testBit j :=
  set_frame p (pair_ok p h) octs ho v hv i j hj hout

/-- hence every other, non-overlapping field of the same element keeps its value -/
theorem other_field_unchanged (p q : Pair) (hp : p ∈ pairs) (hq : q ∈ pairs)
    (hdis : ∀ a b, a < p.ann.len → b < q.ann.len →
      posOf p.ann.r0 p.ann.sBit p.ann.len a ≠ posOf q.ann.r0 q.ann.sBit q.ann.len b)
    (octs : Nat → Nat) (ho : ∀ i, octs i < 256) (v : Nat) (hv : v < 2^p.retW) :
    eval ⟨execSet v p.set octs, 0⟩ q.get = eval ⟨octs, 0⟩ q.get := by
  have hpo := pair_ok p hp
  have hpo' := hpo
  unfold pairOK at hpo'; simp only [Bool.and_eq_true] at hpo'
  have hqo := pair_ok q hq
  unfold pairOK at hqo; simp only [Bool.and_eq_true] at hqo
  apply Nat.eq_of_testBit_eq
  intro j
  rw [get_spec q hqo.1.2 _ (execSet_lt p hpo'.2 octs ho v hv) j, get_spec q hqo.1.2 octs ho j]
  by_cases hj : j < q.ann.len
  · obtain ⟨_, _, h3⟩ := posOf_range q.ann q.retW hqo.1.1 j hj
    rw [set_frame p hpo octs ho v hv _ _ h3]
    intro a ha hc
    exact hdis a j ha hj hc
  · simp [hj]

/-- the identifier and length fields are separate struct members that no content setter assigns: the translator only
accepts `a.Octet…`/`a.Buffer[…]` assignment targets in setters (anything else is `unrecognisedAcc`) -/
theorem setters_touch_contents_only : NasVerif.Gen.unrecognisedAcc = [] := translator_total

/-- octet-range accessors: set-then-get and frame, for every pair in `ranges` (array storage shown; see `Acc/Range`) -/
theorem range_set_then_get (c v : NasVerif.Bytes) (lo hi : Nat) (h : lo ≤ hi) (hv : v.length = hi - lo) (hc : hi ≤ c.length) :
    ∃ c', setRange c lo hi v = .ok c' ∧ getRange c' lo hi = .ok v ∧ c'.length = c.length ∧
      ∀ i, (i < lo ∨ hi ≤ i) → c'[i]? = c[i]? := by
  obtain ⟨c', h1, h2⟩ := getRange_setRange c v lo hi h hv hc
  exact ⟨c', h1, h2, setRange_length c v lo hi h hv c' h1, fun i hi' => setRange_frame c v lo hi h hv c' h1 i hi'⟩

set_option maxRecDepth 100000 in
/-- non-vacuity: the 10-bit two-octet field of GUTI5G is one of the pairs, and the check computes on it -/
example : (pairs.filter (fun p => p.type == "GUTI5G" && p.field == "AMFSetID")).map (fun p => (p.ann, pairOK p)) =
    [(⟨5, 6, 8, 10⟩, true)] := by decide
set_option maxRecDepth 100000 in
example : pairs.length = 539 ∧ ranges.length = 53 := by decide

/-! ## the one text-valued accessor pair: `DNN.SetDNN` / `DNN.GetDNN` (hand model `Model/Convert.lean`, tied by the
correspondence run: op `accs DNN`) -/
section dnn
open NasVerif NasVerif.Model.Convert NasVerif.Proofs.Dnn

/-- **DNN: set-then-get returns the value.** For every text the setter accepts (every label at most 62 octets, the coded form
at most 100 octets), `GetDNN` on the buffer `SetDNN` stored returns exactly that text — empty labels (leading, trailing,
repeated dots) included. -/
theorem dnn_set_then_get (s b : Bytes) (h : fqdnToRfc1035 s = .ok b) : getDNN b = .ok s := by
  unfold fqdnToRfc1035 at h
  simp only at h
  split at h
  · cases h
  · next hany =>
    split at h
    · cases h
    · simp only [pure, Outcome.ok.injEq] at h
      subst h
      have hseg : ∀ g ∈ splitDot s [], g.length ≤ 62 := by
        intro g hg
        have h2 : ∀ x ∈ splitDot s [], x.length ≤ 62 := by simpa using hany
        exact h2 g hg
      have hfl : (splitDot s []).length ≤ ((splitDot s []).flatMap fun g => UInt8.ofNat g.length :: g).length := by
        generalize splitDot s [] = l
        induction l with
        | nil => simp
        | cons a r ih => simp only [List.flatMap_cons, List.length_cons, List.length_append]; omega
      unfold getDNN
      rw [dnnLoop_labels _ hseg _ (by omega) []]
      simp only [bind, Outcome.bind, List.nil_append, splitDot_flat]
      have hne : ¬ (s ++ [dot] = []) := by simp
      rw [if_neg hne]
      unfold chop1
      rw [if_neg (by simp)]
      simp [slice]

/-- a text with an over-long label, or whose coded form exceeds 100 octets, leaves the element as it was -/
theorem dnn_set_invalid (old s : Bytes) (e) (h : fqdnToRfc1035 s = .err e) : setDNN old s = old := by
  simp [setDNN, h]

theorem dnn_set_valid (old s b : Bytes) (h : fqdnToRfc1035 s = .ok b) : setDNN old s = b ∧ getDNN (setDNN old s) = .ok s := by
  simp [setDNN, h, dnn_set_then_get s b h]

example : fqdnToRfc1035 (ascii ".local") = .ok [0, 5, 108, 111, 99, 97, 108] := by decide
example : getDNN [0, 5, 108, 111, 99, 97, 108] = .ok (ascii ".local") := by decide
example : fqdnToRfc1035 (ascii "") = .ok [0] ∧ getDNN [0] = .ok [] := by decide
example : fqdnToRfc1035 (ascii "a..b.") = .ok [1, 97, 0, 1, 98, 0] ∧ getDNN [1, 97, 0, 1, 98, 0] = .ok (ascii "a..b.") := by decide

end dnn

end NasVerif.Props.C09
