import NasVerif.Gen.CryptoLeaf
import NasVerif.Model.Snow3g
import NasVerif.Model.Zuc
import NasVerif.Model.Security
import Std.Tactic.BVDecide
/-!
# Tie between the leaf functions regenerated from `/repo/security/**` on this run and the hand-written model (C06, C07, C08)

`Gen/CryptoLeaf.lean` is written by `tools/extract/leaf.go` from the typed ASTs of `snow3g.{mulx, mulxPow, s1, s2, mulAlpha, divAlpha}`,
`zuc.{rot, l1, l2, makeU32}` and `security.{mulx, mulxPow}` on every run. The property theorems are stated about
`Model/Snow3g.lean`, `Model/Zuc.lean` and `Model/Security.lean`; the theorems below are re-checked by the kernel on every run and
say that those model functions are the functions the source defines now. (The loops and the state-passing methods built on
top of these leaf functions remain tied by the correspondence run.)
-/
namespace NasVerif.Props.CryptoLeafTie
open NasVerif

/-- close a tie goal after unfolding: syntactically equal terms (the unchanged tree: kernel only, standard axioms), else definitional
equality, else the remaining bit-vector equation is handed to `bv_decide` (lookup tables stay abstract) -- which adds a
`tie_*._native.bv_decide.ax_*` axiom that the audit reports and accepts for `tie_*` theorems only (as in C11Tie) -/
macro "leaf_close" : tactic => `(tactic| first | done | ac_rfl | bv_decide)

theorem tie_translated :
    Gen.Leaf.translated = ["snow_mulx", "snow_mulxPow", "snow_s1", "snow_s2", "snow_mulAlpha", "snow_divAlpha",
      "zuc_rot", "zuc_l1", "zuc_l2", "zuc_makeU32", "sec_mulx", "sec_mulxPow"] := by decide

theorem tie_snow_tab_sr : Gen.Leaf.snow_tab_sr = Model.Snow3g.sr := rfl
theorem tie_snow_tab_sq : Gen.Leaf.snow_tab_sq = Model.Snow3g.sq := rfl

theorem tie_snow_mulx : Gen.Leaf.snow_mulx = Model.Snow3g.mulx := by
  funext V c; simp only [Gen.Leaf.snow_mulx, Model.Snow3g.mulx]; all_goals leaf_close

theorem tie_snow_mulxPow (V : BitVec 8) (n : Nat) (c : BitVec 8) : Gen.Leaf.snow_mulxPow V n c = Model.Snow3g.mulxPow V n c := by
  induction n generalizing c with
  | zero => rfl
  | succ n ih => simp only [Gen.Leaf.snow_mulxPow, Model.Snow3g.mulxPow, ih, tie_snow_mulx]

theorem tie_snow_s1 : Gen.Leaf.snow_s1 = Model.Snow3g.s1 := by
  funext w
  simp only [Gen.Leaf.snow_s1, Model.Snow3g.s1, tie_snow_mulx, tie_snow_tab_sr, Model.Snow3g.u32]
  all_goals leaf_close

theorem tie_snow_s2 : Gen.Leaf.snow_s2 = Model.Snow3g.s2 := by
  funext w
  simp only [Gen.Leaf.snow_s2, Model.Snow3g.s2, tie_snow_mulx, tie_snow_tab_sq, Model.Snow3g.u32]
  all_goals leaf_close

theorem tie_snow_mulAlpha : Gen.Leaf.snow_mulAlpha = Model.Snow3g.mulAlpha := by
  funext c
  simp only [Gen.Leaf.snow_mulAlpha, Model.Snow3g.mulAlpha, tie_snow_mulxPow, Model.Snow3g.u32]
  all_goals leaf_close

theorem tie_snow_divAlpha : Gen.Leaf.snow_divAlpha = Model.Snow3g.divAlpha := by
  funext c
  simp only [Gen.Leaf.snow_divAlpha, Model.Snow3g.divAlpha, tie_snow_mulxPow, Model.Snow3g.u32]
  all_goals leaf_close

theorem tie_zuc_rot : Gen.Leaf.zuc_rot = Model.Zuc.rot := by
  funext a k; simp only [Gen.Leaf.zuc_rot, Model.Zuc.rot]; all_goals leaf_close
theorem tie_zuc_l1 : Gen.Leaf.zuc_l1 = Model.Zuc.l1 := by
  funext x; simp only [Gen.Leaf.zuc_l1, Model.Zuc.l1, tie_zuc_rot]; all_goals leaf_close
theorem tie_zuc_l2 : Gen.Leaf.zuc_l2 = Model.Zuc.l2 := by
  funext x; simp only [Gen.Leaf.zuc_l2, Model.Zuc.l2, tie_zuc_rot]; all_goals leaf_close
theorem tie_zuc_makeU32 : Gen.Leaf.zuc_makeU32 = Model.Zuc.makeU32 := by
  funext a b c d; simp only [Gen.Leaf.zuc_makeU32, Model.Zuc.makeU32]; all_goals leaf_close
theorem tie_zuc_tab_sbox0 : Gen.Leaf.zuc_tab_sbox0 = Model.Zuc.sbox0 := rfl
theorem tie_zuc_tab_sbox1 : Gen.Leaf.zuc_tab_sbox1 = Model.Zuc.sbox1 := rfl

theorem tie_sec_mulx : Gen.Leaf.sec_mulx = Model.Security.mulx := by
  funext V c; simp only [Gen.Leaf.sec_mulx, Model.Security.mulx]; all_goals leaf_close
theorem tie_sec_mulxPow (V : BitVec 64) (n : Nat) (c : BitVec 64) : Gen.Leaf.sec_mulxPow V n c = Model.Security.mulxPow V n c := by
  induction n generalizing c with
  | zero => rfl
  | succ n ih => simp only [Gen.Leaf.sec_mulxPow, Model.Security.mulxPow, ih, tie_sec_mulx]

end NasVerif.Props.CryptoLeafTie
