import NasVerif.Props.C06
/-!
# C07 — NIA1/NIA2/NIA3 MACs equal the standard 128-EIA1/2/3 functions

Proved: GF(2^64) arithmetic of NIA1 (`mulx`, `mulxPow`, `mul`) is the specification's MULx / MULxPOW / MUL; NIA2 is
128-EIA2 for every block cipher; the SNOW 3G keystream used by NIA1 is the specification's (C06). The block loop of NIA1
and the bit loop of NIA3 against f9 / 128-EIA3 are stated as `…_statement` and checked on every run by the direct
implementation-vs-specification stream: level "proof, partial".
-/
namespace NasVerif.Props.C07
open NasVerif NasVerif.Model

theorem msb64 (V : BitVec 64) : (V &&& 0x8000000000000000#64 != 0#64) = V.msb := by
  rw [BitVec.msb_eq_getLsbD_last]
  have h : (V &&& 0x8000000000000000#64 = 0#64) ↔ V.getLsbD 63 = false := by
    constructor
    · intro h
      have := congrArg (fun x => x.getLsbD 63) h
      simpa using this
    · intro h
      apply BitVec.eq_of_getLsbD_eq
      intro i hi
      simp only [BitVec.getLsbD_and, BitVec.getLsbD_zero]
      by_cases h63 : i = 63
      · subst h63; rw [h]; simp
      · have : (0x8000000000000000#64).getLsbD i = false := by
          simp only [BitVec.getLsbD, BitVec.toNat_ofNat]
          have : (9223372036854775808 % 2^64) = 2^63 := by decide
          rw [this, Nat.testBit_two_pow]
          simp; omega
        simp [this]
  cases hv : V.getLsbD 63
  · simp [h.mpr hv]
  · have : ¬ (V &&& 0x8000000000000000#64 = 0#64) := fun hc => by rw [h.mp hc] at hv; exact absurd hv (by simp)
    simp [this]

/-- `mulx` = MULx of the UIA2 specification -/
theorem mulx_spec (V c : BitVec 64) : Security.mulx V c = Spec.MULx64 V c := by
  unfold Security.mulx Spec.MULx64; rw [msb64]

theorem mulxPow_spec (V : BitVec 64) (i : Nat) (c : BitVec 64) : Security.mulxPow V i c = Spec.MULxPOW64 V i c := by
  induction i with
  | zero => rfl
  | succ i ih => simp [Security.mulxPow, Spec.MULxPOW64, ih, mulx_spec]

theorem bit_test (P : BitVec 64) (i : Nat) : ((P >>> i) &&& 1#64 == 1#64) = P.getLsbD i := by
  have : ((P >>> i) &&& 1#64 = 1#64) ↔ P.getLsbD i = true := by
    constructor
    · intro h
      have := congrArg (fun x => x.getLsbD 0) h
      simpa using this
    · intro h
      apply BitVec.eq_of_getLsbD_eq
      intro j hj
      simp only [BitVec.getLsbD_and, BitVec.getLsbD_ushiftRight, BitVec.getLsbD_one]
      by_cases h0 : j = 0
      · subst h0; simp [h]
      · simp [h0]
  cases hb : P.getLsbD i
  · have : ¬ ((P >>> i) &&& 1#64 = 1#64) := fun hc => by rw [this.mp hc] at hb; exact absurd hb (by simp)
    simp [this]
  · simp [this.mpr hb]

theorem mulLoop_spec (V P c : BitVec 64) : ∀ (n i : Nat) (rst : BitVec 64),
    Security.mulLoop V P c n i rst =
      ((List.range n).map (· + i)).foldl (fun acc j => if P.getLsbD j then acc ^^^ Spec.MULxPOW64 V j c else acc) rst := by
  intro n
  induction n with
  | zero => intro i rst; rfl
  | succ n ih =>
    intro i rst
    simp only [Security.mulLoop, ih, bit_test, mulxPow_spec]
    rw [List.range_succ_eq_map]
    simp only [List.map_cons, List.foldl_cons, List.map_map, Nat.zero_add]
    congr 1
    apply List.map_congr_left
    intro a _
    simp; omega

/-- `mul` = MUL of the UIA2 specification, for all operands -/
theorem mul_spec (V P c : BitVec 64) : Security.mul V P c = Spec.MUL64 V P c := by
  unfold Security.mul Spec.MUL64
  rw [mulLoop_spec]
  simp

/-- the SNOW 3G keystream NIA1 draws its P, Q and final mask from is the specification's -/
theorem nia1_keystream (k iv : List (BitVec 32)) : Snow3g.GetKeyStream k iv 5 = Spec.Snow3G.keystream k iv 5 :=
  C06.snow3g_keystream k iv 5

/-- 128-EIA2 for every block cipher `E`, key, COUNT, bearer 0–31, direction 0–1 and message -/
theorem nia2_spec (E : Bytes → Bytes → Bytes) (key : Bytes) (count : BitVec 32) (b d : Nat) (hb : b < 32) (hd : d < 2)
    (msg : Bytes) :
    Security.NIA2 E key count (UInt8.ofNat b) (UInt8.ofNat d) msg = .ok (Spec.eia2 (E key) count.toNat b d msg) := by
  simp [Security.NIA2, Spec.eia2, Spec.t1, Security.put32, C06.octet5 b hb d hd]

/-! ### not yet proved (checked by the `secspec` differential stream on every run) -/

def nia1_statement : Prop :=
  ∀ (ik : Bytes) (count b d : Nat) (msg : Bytes) (length : Nat),
    ik.length = 16 → count < 2^32 → b < 32 → d < 2 → msg.length = (length + 7) / 8 →
    (Spec.bytesBits msg).drop length = List.replicate (8 * msg.length - length) false →
    ∃ mac, Security.NIA1 ik (BitVec.ofNat 32 count) (UInt8.ofNat b) (BitVec.ofNat 32 d) msg length = .ok mac ∧
      mac = Security.put32 (Spec.f9 ik count b d ((Spec.bytesBits msg).take length))

def nia3_statement : Prop :=
  ∀ (ik : Bytes) (count b d : Nat) (msg : Bytes) (length : Nat),
    ik.length = 16 → count < 2^32 → b < 32 → d < 2 → msg.length = (length + 7) / 8 → length + 31 < 2^32 →
    ∃ mac, Security.NIA3 ik (BitVec.ofNat 32 count) (UInt8.ofNat b) (UInt8.ofNat d) msg length = .ok mac ∧
      mac = Security.put32 (Spec.eia3 ik count b d ((Spec.bytesBits msg).take length))

/-- non-vacuity: the GF(2^64) reduction actually happens (top bit set) -/
example : Security.mulx 0x8000000000000001#64 0x1b#64 = 0x19#64 := by decide

end NasVerif.Props.C07
