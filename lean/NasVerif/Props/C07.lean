import NasVerif.Props.C06
import NasVerif.Proofs.MacLoops
/-!
# C07 — NIA1/NIA2/NIA3 MACs equal the standard 128-EIA1/2/3 functions

Proved: GF(2^64) arithmetic of NIA1 (`mulx`, `mulxPow`, `mul`) is the specification's MULx / MULxPOW / MUL; the SNOW 3G and
ZUC keystreams are the specifications' (C06); NIA1 is UIA2 f9 and NIA3 is 128-EIA3 for messages of every bit length
(`Proofs/MacLoops.lean`: block loop = EVAL recursion, `getWord` = keystream window); NIA2 is 128-EIA2 for every block
cipher; the MAC API for algorithms 1–3 is those functions at LENGTH = 8·octets. The implementation-vs-specification stream
still runs on every check as the tie of the model to the code.
-/
namespace NasVerif.Props.C07
open NasVerif NasVerif.Model

theorem msb64 (V : BitVec 64) : (V &&& 0x8000000000000000#64 != 0#64) = V.msb := by
  rw [BitVec.msb_eq_getLsbD_last]
  have h : (V &&& 0x8000000000000000#64 = 0#64) ↔ V.getLsbD 63 = false := by
    constructor
    · intro h
      have := congrArg (fun x => x.getLsbD 63) h
      simpa using this
    · intro h
      apply BitVec.eq_of_getLsbD_eq
      intro i hi
      simp only [BitVec.getLsbD_and, BitVec.getLsbD_zero]
      by_cases h63 : i = 63
      · subst h63; rw [h]; simp
      · have : (0x8000000000000000#64).getLsbD i = false := by
          simp only [BitVec.getLsbD, BitVec.toNat_ofNat]
          have : (9223372036854775808 % 2^64) = 2^63 := by decide
          rw [this, Nat.testBit_two_pow]
          simp; omega
        simp [this]
  cases hv : V.getLsbD 63
  · simp [h.mpr hv]
  · have : ¬ (V &&& 0x8000000000000000#64 = 0#64) := fun hc => by rw [h.mp hc] at hv; exact absurd hv (by simp)
    simp [this]

/-- `mulx` = MULx of the UIA2 specification -/
theorem mulx_spec (V c : BitVec 64) : Security.mulx V c = Spec.MULx64 V c := by
  unfold Security.mulx Spec.MULx64; rw [msb64]

theorem mulxPow_spec (V : BitVec 64) (i : Nat) (c : BitVec 64) : Security.mulxPow V i c = Spec.MULxPOW64 V i c := by
  induction i with
  | zero => rfl
  | succ i ih => simp [Security.mulxPow, Spec.MULxPOW64, ih, mulx_spec]

theorem bit_test (P : BitVec 64) (i : Nat) : ((P >>> i) &&& 1#64 == 1#64) = P.getLsbD i := by
  have : ((P >>> i) &&& 1#64 = 1#64) ↔ P.getLsbD i = true := by
    constructor
    · intro h
      have := congrArg (fun x => x.getLsbD 0) h
      simpa using this
    · intro h
      apply BitVec.eq_of_getLsbD_eq
      intro j hj
      simp only [BitVec.getLsbD_and, BitVec.getLsbD_ushiftRight, BitVec.getLsbD_one]
      by_cases h0 : j = 0
      · subst h0; simp [h]
      · simp [h0]
  cases hb : P.getLsbD i
  · have : ¬ ((P >>> i) &&& 1#64 = 1#64) := fun hc => by rw [this.mp hc] at hb; exact absurd hb (by simp)
    simp [this]
  · simp [this.mpr hb]

theorem mulLoop_spec (V P c : BitVec 64) : ∀ (n i : Nat) (rst : BitVec 64),
    Security.mulLoop V P c n i rst =
      ((List.range n).map (· + i)).foldl (fun acc j => if P.getLsbD j then acc ^^^ Spec.MULxPOW64 V j c else acc) rst := by
  intro n
  induction n with
  | zero => intro i rst; rfl
  | succ n ih =>
    intro i rst
    simp only [Security.mulLoop, ih, bit_test, mulxPow_spec]
    rw [List.range_succ_eq_map]
    simp only [List.map_cons, List.foldl_cons, List.map_map, Nat.zero_add]
    congr 1
    apply List.map_congr_left
    intro a _
    simp; omega

/-- `mul` = MUL of the UIA2 specification, for all operands -/
theorem mul_spec (V P c : BitVec 64) : Security.mul V P c = Spec.MUL64 V P c := by
  unfold Security.mul Spec.MUL64
  rw [mulLoop_spec]
  simp

/-- the SNOW 3G keystream NIA1 draws its P, Q and final mask from is the specification's -/
theorem nia1_keystream (k iv : List (BitVec 32)) : Snow3g.GetKeyStream k iv 5 = Spec.Snow3G.keystream k iv 5 :=
  C06.snow3g_keystream k iv 5

/-- 128-EIA2 for every block cipher `E`, key, COUNT, bearer 0–31, direction 0–1 and message -/
theorem nia2_spec (E : Bytes → Bytes → Bytes) (key : Bytes) (count : BitVec 32) (b d : Nat) (hb : b < 32) (hd : d < 2)
    (msg : Bytes) :
    Security.NIA2 E key count (UInt8.ofNat b) (UInt8.ofNat d) msg = .ok (Spec.eia2 (E key) count.toNat b d msg) := by
  simp [Security.NIA2, Spec.eia2, Spec.t1, Security.put32, C06.octet5 b hb d hd]

/-! ### NIA1 = f9, NIA3 = 128-EIA3 for every message bit length -/

theorem f9_fresh : ∀ b, b < 32 → BitVec.ofNat 32 (UInt8.ofNat b).toNat <<< 27 = BitVec.ofNat 32 (b * 2^27) := by decide
theorem f9_dir : ∀ d, d < 2 → BitVec.ofNat 32 d <<< 15 = BitVec.ofNat 32 (d * 2^15) ∧ BitVec.ofNat 32 d <<< 31 = BitVec.ofNat 32 (d * 2^31) := by
  decide

theorem keyWords_eq (ck : Bytes) : Security.keyWords ck = Spec.f8Key ck := by
  simp [Security.keyWords, Spec.f8Key, Security.be32, Spec.word, List.range, List.range.loop]

/-- NIA1 = UIA2 f9 (128-EIA1): for every key, COUNT, bearer 0–31, direction and message of every bit length (the message octets
hold the LENGTH bits, the unused low bits of the last octet being zero), the MAC is f9 of the message bit string -/
theorem nia1_spec (ik : Bytes) (count b d : Nat) (msg : Bytes) (length : Nat) (hb : b < 32) (hd : d < 2)
    (hlen : msg.length = (length + 7) / 8)
    (hz : (Spec.bytesBits msg).drop length = List.replicate (8 * msg.length - length) false) :
    Security.NIA1 ik (BitVec.ofNat 32 count) (UInt8.ofNat b) (BitVec.ofNat 32 d) msg length =
      .ok (Security.put32 (Spec.f9 ik count b d ((Spec.bytesBits msg).take length))) := by
  have hn : ((Spec.bytesBits msg).take length).length = length := by
    rw [List.length_take, Proofs.BitLists.bytesBits_length]; omega
  unfold Security.NIA1
  simp only []
  rw [Proofs.MacLoops.nia1Blocks_spec mul_spec msg length ((Spec.bytesBits msg).take length)
    (Proofs.MacLoops.msgBits_getD msg length hz) hlen]
  simp only []
  unfold Spec.f9
  simp only [hn, Nat.add_sub_cancel, mul_spec, nia1_keystream, keyWords_eq, f9_fresh b hb, (f9_dir d hd).1, (f9_dir d hd).2, Spec.f9IV]
  rfl

theorem eia3_iv (count b d : Nat) (hb : b < 32) (hd : d < 2) :
    let c := Security.put32 (BitVec.ofNat 32 count)
    ([c.getD 0 0, c.getD 1 0, c.getD 2 0, c.getD 3 0, (UInt8.ofNat b <<< 3) &&& 0xF8, 0, 0, 0,
      (UInt8.ofNat d <<< 7) ^^^ c.getD 0 0, c.getD 1 0, c.getD 2 0, c.getD 3 0, (UInt8.ofNat b <<< 3) &&& 0xF8, 0, (UInt8.ofNat d <<< 7) ^^^ 0, 0] : Bytes).map
      (·.toNat) = Spec.eia3IV count b d := by
  have h1 : ∀ b, b < 32 → ((UInt8.ofNat b <<< 3) &&& 0xF8).toNat = b * 8 := by decide
  have h2 : ∀ d, d < 2 → (UInt8.ofNat d <<< 7).toNat = d * 128 := by decide
  simp only [Security.put32, Spec.eia3IV, List.map_cons, List.map_nil, List.getD_cons_zero, List.getD_cons_succ, h1 b hb,
    UInt8.toNat_xor, h2 d hd, BitVec.toNat_ofNat, UInt8.toNat_ofNat']
  have e0 : count % 2 ^ 32 / 2 ^ 24 % 2 ^ 8 = count / 2 ^ 24 % 256 := by omega
  have e1 : count % 2 ^ 32 / 2 ^ 16 % 2 ^ 8 = count / 2 ^ 16 % 256 := by omega
  have e2 : count % 2 ^ 32 / 2 ^ 8 % 2 ^ 8 = count / 2 ^ 8 % 256 := by omega
  have e3 : count % 2 ^ 32 % 2 ^ 8 = count % 256 := by omega
  simp [e0, e1, e2, e3, Nat.xor_comm]

/-- NIA3 = 128-EIA3 for every key, COUNT, bearer 0–31, direction and message of every bit length -/
theorem nia3_spec (ik : Bytes) (count b d : Nat) (msg : Bytes) (length : Nat) (hb : b < 32) (hd : d < 2)
    (hlen : msg.length = (length + 7) / 8) :
    Security.NIA3 ik (BitVec.ofNat 32 count) (UInt8.ofNat b) (UInt8.ofNat d) msg length =
      .ok (Security.put32 (Spec.eia3 ik count b d ((Spec.bytesBits msg).take length))) := by
  have hn : ((Spec.bytesBits msg).take length).length = length := by
    rw [List.length_take, Proofs.BitLists.bytesBits_length]; omega
  unfold Security.NIA3
  simp only []
  rw [Proofs.MacLoops.genMac_spec msg _ length ((Spec.bytesBits msg).take length) hn
    (fun t ht => by rw [Proofs.BitLists.take_getD _ _ _ _ ht, Proofs.MacLoops.bytesBits_getD_total])
    (by omega) (by rw [Zuc.Zuc_length])]
  unfold Spec.eia3
  simp only [hn]
  rw [C06.zuc_keystream]
  have := eia3_iv count b d hb hd
  simp only [] at this
  rw [this]

/-- the MAC API for algorithms 1 and 3: 4 octets, the f9 / 128-EIA3 MAC of the 8·|message| message bits
(pins the wrapper's octet-length → bit-length mapping and argument order) -/
theorem nasMac13_spec (E : Bytes → Bytes → Bytes) (key : Bytes) (count b d : Nat) (hb : b < 32) (hd : d < 2) (m : Bytes) :
    Security.NASMacCalculate E 1 key (BitVec.ofNat 32 count) (UInt8.ofNat b) (UInt8.ofNat d) (some m) =
      .ok (some (Security.put32 (Spec.f9 key count b d (Spec.bytesBits m)))) ∧
    Security.NASMacCalculate E 3 key (BitVec.ofNat 32 count) (UInt8.ofNat b) (UInt8.ofNat d) (some m) =
      .ok (some (Security.put32 (Spec.eia3 key count b d (Spec.bytesBits m)))) := by
  have hbn : (UInt8.ofNat b).toNat = b := UInt8.toNat_ofNat_of_lt' (show b < 256 by omega)
  have hdn : (UInt8.ofNat d).toNat = d := UInt8.toNat_ofNat_of_lt' (show d < 256 by omega)
  have hb' : ¬ (UInt8.ofNat b > 0x1f) := by simp [UInt8.lt_iff_toNat_lt, hbn]; omega
  have hd' : ¬ (UInt8.ofNat d > 1) := by simp [UInt8.lt_iff_toNat_lt, hdn]; omega
  have hfull : (Spec.bytesBits m).take (m.length * 8) = Spec.bytesBits m := by
    apply List.take_of_length_le; rw [Proofs.BitLists.bytesBits_length]; omega
  have hz : (Spec.bytesBits m).drop (m.length * 8) = List.replicate (8 * m.length - m.length * 8) false := by
    rw [List.drop_of_length_le (by rw [Proofs.BitLists.bytesBits_length]; omega), show 8 * m.length - m.length * 8 = 0 by omega]
    rfl
  constructor
  · have h := nia1_spec key count b d m (m.length * 8) hb hd (by omega) hz
    rw [hfull] at h
    simp only [Security.NASMacCalculate, hb', hd', if_false, hdn, h]
    simp
  · have h := nia3_spec key count b d m (m.length * 8) hb hd (by omega)
    rw [hfull] at h
    simp only [Security.NASMacCalculate, hb', hd', if_false, h]
    simp

/-- non-vacuity: the GF(2^64) reduction actually happens (top bit set) -/
example : Security.mulx 0x8000000000000001#64 0x1b#64 = 0x19#64 := by decide

end NasVerif.Props.C07
