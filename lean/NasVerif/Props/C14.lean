import NasVerif.Model.Convert
import NasVerif.Proofs.NoPanic
/-!
# C14 — helpers that interpret UE-supplied IE contents never panic or hang

For every helper of the property's list the model (`Model/Convert.lean`) uses checked indexing and fuel-bounded
loops whose exhaustion is `panic`; the theorems below say that for **every** byte string (resp. every text) the
outcome is a value or an error, never `panic` — hence also that each loop finishes within its fuel.
The tie to the Go code is the correspondence run (`conv` ops) plus the panic/hang oracle on the real functions.
-/
namespace NasVerif.Props.C14
open NasVerif NasVerif.Model.Convert

/-! ## building blocks -/

theorem np_chop1 {s : Bytes} (h : 0 < s.length) : NoPanic (chop1 s) := by
  unfold chop1; rw [if_neg (by omega)]; exact np_slice (by omega) (by omega)

theorem chop1_len {s r : Bytes} (h : chop1 s = .ok r) : r.length = s.length - 1 := by
  unfold chop1 at h
  split at h
  · cases h
  · have := slice_len h; omega

theorem np_lastByte {s : Bytes} (h : 0 < s.length) : NoPanic (lastByte s) := by
  unfold lastByte; rw [if_neg (by omega)]; exact np_idx (by omega)

theorem np_mccText (a b : UInt8) : NoPanic (mccText a b) := by unfold mccText; np

theorem np_mncText (a b : UInt8) : NoPanic (mncText a b) := by unfold mncText; np

theorem np_routingText (a b : UInt8) : NoPanic (routingText a b) := by
  unfold routingText
  dsimp only
  split
  · next i h => have := indexByte_le h; exact np_slice (by omega) (by omega)
  · exact np_pure _

theorem np_schemeOutputText (s : UInt8) (tail : Bytes) (h : 0 < tail.length) : NoPanic (schemeOutputText s tail) := by
  have hl : 0 < (hexEnc (tail.map rotl4)).length := by simp; omega
  unfold schemeOutputText
  split
  · apply np_bind (np_lastByte hl)
    intro c _
    split
    · exact np_chop1 hl
    · exact np_pure _
  · exact np_pure _

theorem np_peiDigitText (buf : Bytes) (h : 0 < buf.length) : NoPanic (peiDigitText buf) := by
  unfold peiDigitText
  apply np_bind (np_idx h); intro b0 _
  apply np_bind (np_sliceFrom (by omega)); intro rest hr
  have hl := sliceFrom_len hr
  dsimp only
  have h2 : 2 ≤ (hexEnc (peiDigits (b0 &&& 0xf0) rest)).length := by simp; omega
  apply np_bind (np_chop1 (by omega)); intro s1 hs1
  have := chop1_len hs1
  split
  · exact np_chop1 (by omega)
  · exact np_pure _

/-! ## nasConvert: raw contents helpers, all byte strings -/

theorem naiToString_total (buf : Bytes) : NoPanic (naiToString buf) := by unfold naiToString; np

theorem suciToString_total (buf : Bytes) : NoPanic (suciToString buf) := by
  unfold suciToString
  split
  · exact np_err _
  · apply np_bind (np_idx (by omega)); intro b0 _
    split
    · apply np_bind (naiToString_total buf); intro _ _; exact np_pure _
    · split
      · exact np_err _
      · apply np_bind (np_idx (by omega)); intro b1 _
        apply np_bind (np_idx (by omega)); intro b2 _
        apply np_bind (np_idx (by omega)); intro b3 _
        apply np_bind (np_idx (by omega)); intro b4 _
        apply np_bind (np_idx (by omega)); intro b5 _
        apply np_bind (np_idx (by omega)); intro b6 _
        apply np_bind (np_idx (by omega)); intro b7 _
        apply np_bind (np_mccText _ _); intro _ _
        apply np_bind (np_mncText _ _); intro _ _
        apply np_bind (np_routingText _ _); intro _ _
        apply np_bind (np_sliceFrom (by omega)); intro tail ht
        have := sliceFrom_len ht
        apply np_bind (np_schemeOutputText _ _ (by omega)); intro _ _
        exact np_pure _

theorem np_plmnIDToString (b : Bytes) (h : 3 ≤ b.length) : NoPanic (plmnIDToString b) := by
  unfold plmnIDToString; np

theorem plmnIDToString_len {b s : Bytes} (h : plmnIDToString b = .ok s) : s.length = 5 ∨ s.length = 6 := by
  unfold plmnIDToString at h
  cases h0 : idx b 0 with
  | ok b0 =>
    cases h1 : idx b 1 with
    | ok b1 =>
      cases h2 : idx b 2 with
      | ok b2 =>
        simp only [h0, h1, h2, bind, Outcome.bind] at h
        rw [idx_ok (by simp)] at h
        simp only [] at h
        split at h
        · have := slice_len h; omega
        · cases h; simp
      | err e => simp [h0, h1, h2, bind, Outcome.bind] at h
      | panic => simp [h0, h1, h2, bind, Outcome.bind] at h
    | err e => simp [h0, h1, bind, Outcome.bind] at h
    | panic => simp [h0, h1, bind, Outcome.bind] at h
  | err e => simp [h0, bind, Outcome.bind] at h
  | panic => simp [h0, bind, Outcome.bind] at h

theorem gutiToString_total (buf : Bytes) : NoPanic (gutiToString buf) := by
  unfold gutiToString
  split
  · exact np_err _
  · apply np_bind (np_slice (by omega) (by omega)); intro p hp
    have := slice_len hp
    apply np_bind (np_plmnIDToString p (by omega)); intro plmn hpl
    have := plmnIDToString_len hpl
    np

theorem peiToString_total (buf : Bytes) : NoPanic (peiToString buf) := by
  unfold peiToString
  split
  · exact np_err _
  · apply np_bind (np_idx (by omega)); intro _ _
    apply np_bind (np_peiDigitText buf (by omega)); intro _ _
    exact np_pure _

theorem amfIdToNas_total (s : Bytes) : NoPanic (amfIdToNas s) := by unfold amfIdToNas; np

theorem np_atoiAt {s : Bytes} {i : Nat} (h : i < s.length) : NoPanic (atoiAt s i) := by
  unfold atoiAt; np

/-- text input: every string -/
theorem gutiToNas_total (g : Bytes) : NoPanic (gutiToNas g) := by
  unfold gutiToNas
  split
  · exact np_err _
  · apply np_bind (np_atoiAt (by omega)); intro _ _
    apply np_bind (np_atoiAt (by omega)); intro _ _
    apply np_bind (np_atoiAt (by omega)); intro _ _
    apply np_bind (np_atoiAt (by omega)); intro _ _
    apply np_bind (np_atoiAt (by omega)); intro _ _
    apply np_bind
    · split
      · apply np_bind (np_atoiAt (by omega)); intro _ _
        np
      · np
    · intro x _
      apply np_bind (amfIdToNas_total _); intro _ _
      np

/-! ## NSSAI, LADN -/

theorem snssaiToModels_total (l : UInt8) (buf : Bytes) : NoPanic (snssaiToModels l buf) := by
  unfold snssaiToModels
  split
  · exact np_err _
  · rename_i h
    split
    · next h1 => subst h1; simp at h; np
    · split
      · next h1 => subst h1; simp at h; np
      · split
        · next h1 => subst h1; simp at h; np
        · split
          · next h1 => subst h1; simp at h; np
          · split
            · next h1 => subst h1; simp at h; np
            · exact np_err _

/-- an accepted S-NSSAI has a length octet of at most 8, so the `uint8` addition `l + 1` does not wrap -/
theorem snssaiToModels_ok_len {l : UInt8} {buf : Bytes} {m : MappedSnssai} (h : snssaiToModels l buf = .ok m) :
    l = 1 ∨ l = 2 ∨ l = 4 ∨ l = 5 ∨ l = 8 := by
  unfold snssaiToModels at h
  split at h
  · cases h
  · split at h
    · left; assumption
    · split at h
      · right; left; assumption
      · split at h
        · right; right; left; assumption
        · split at h
          · right; right; right; left; assumption
          · split at h
            · right; right; right; right; assumption
            · cases h

theorem reqNssaiLoop_total (fuel len : Nat) (buf : Bytes) (off : Nat) (acc : List MappedSnssai)
    (hlen : len ≤ buf.length) (hf : len < fuel + off) (hpos : 0 < fuel) : NoPanic (reqNssaiLoop fuel len buf off acc) := by
  induction fuel generalizing off acc with
  | zero => omega
  | succ n ih =>
    unfold reqNssaiLoop
    split
    · apply np_bind (np_idx (by omega)); intro l _
      apply np_bind (np_sliceFrom (by omega)); intro tail _
      apply np_bind (snssaiToModels_total l tail); intro m hm
      have hl := snssaiToModels_ok_len hm
      have : 1 ≤ (l + 1).toNat := by
        rcases hl with h | h | h | h | h <;> subst h <;> decide
      apply ih <;> omega
    · exact np_pure _

/-- `RequestedNssaiToModels` on a decoded IE (`Len` = length of `Buffer`): terminates without panic -/
theorem requestedNssaiToModels_total (buf : Bytes) : NoPanic (requestedNssaiToModels buf.length buf) := by
  unfold requestedNssaiToModels
  exact reqNssaiLoop_total _ _ _ _ _ (Nat.le_refl _) (by omega) (by omega)

theorem ladnLoop_total (fuel : Nat) (buf : Bytes) (off : Nat) (acc : List Bytes)
    (hf : buf.length < fuel + off) (hpos : 0 < fuel) : NoPanic (ladnLoop fuel buf off acc) := by
  induction fuel generalizing off acc with
  | zero => omega
  | succ n ih =>
    unfold ladnLoop
    split
    · apply np_bind (np_idx (by omega)); intro l _
      split
      · exact np_pure _
      · apply np_bind (np_slice (by omega) (by omega)); intro d _
        apply ih <;> omega
    · exact np_pure _

theorem ladnToModels_total (buf : Bytes) : NoPanic (ladnToModels buf) := by
  unfold ladnToModels; exact ladnLoop_total _ _ _ _ (by omega) (by omega)

/-! ## UE security capability, PDU session status, UPU acknowledgement, DNN -/

theorem ueSecCapToByteArray_total (buf : Bytes) : NoPanic (ueSecCapToByteArray buf) := by
  unfold ueSecCapToByteArray; np

theorem np_psiBits (n i : Nat) (buf : Bytes) (h : i + n ≤ 8 * buf.length) : NoPanic (psiBits n i buf) := by
  induction n generalizing i with
  | zero => unfold psiBits; exact np_pure _
  | succ k ih =>
    unfold psiBits
    apply np_bind (np_idx (by omega)); intro _ _
    apply np_bind (ih (i + 1) (by omega)); intro _ _
    exact np_pure _

theorem psiToBooleanArray_total (buf : Bytes) : NoPanic (psiToBooleanArray buf) := by
  unfold psiToBooleanArray
  split
  · exact np_pure _
  · exact np_psiBits _ _ _ (by omega)

theorem upuAckToModels_total (buf : Bytes) : NoPanic (upuAckToModels buf) := by
  unfold upuAckToModels; np

theorem dnnLoop_total (fuel : Nat) (rest acc : Bytes) (hf : rest.length < fuel) : NoPanic (dnnLoop fuel rest acc) := by
  induction fuel generalizing rest acc with
  | zero => omega
  | succ n ih =>
    unfold dnnLoop
    split
    · exact np_pure _
    · next l r =>
      apply ih
      simp at hf ⊢; omega

theorem getDNN_total (buf : Bytes) : NoPanic (getDNN buf) := by
  unfold getDNN
  apply np_bind (dnnLoop_total _ _ _ (by omega)); intro f _
  split
  · exact np_pure _
  · next h =>
    apply np_chop1
    cases f with
    | nil => exact absurd rfl h
    | cons a b => simp

/-! ## nasType.MobileIdentity5GS text getters, all contents -/

theorem miType_total (buf : Bytes) : NoPanic (miType buf) := by unfold miType; np

theorem miIs_total (buf : Bytes) (x : IdType) : NoPanic (miIs buf x) := by
  unfold miIs
  have := miType_total buf
  split
  · exact np_pure _
  · exact np_pure _
  · next h => exact absurd h this

/-- an identity type was recognised only if the contents are not empty -/
theorem miIs_true_len {buf : Bytes} {x : IdType} (h : miIs buf x = .ok true) : 0 < buf.length := by
  unfold miIs at h
  split at h
  · next t ht =>
    unfold miType at ht
    split at ht
    · cases ht
    · omega
  · cases h
  · cases h

theorem miMCC_total (buf : Bytes) : NoPanic (miMCC buf) := by
  unfold miMCC
  split
  · exact np_pure _
  · apply np_bind (np_idx (by omega)); intro _ _
    apply np_bind (np_idx (by omega)); intro _ _
    exact np_mccText _ _

theorem miMNC_total (buf : Bytes) : NoPanic (miMNC buf) := by
  unfold miMNC
  split
  · exact np_pure _
  · apply np_bind (np_idx (by omega)); intro _ _
    apply np_bind (np_idx (by omega)); intro _ _
    exact np_mncText _ _

theorem miPlmnID_total (buf : Bytes) : NoPanic (miPlmnID buf) := by
  unfold miPlmnID
  apply np_bind (miMCC_total buf); intro _ _
  apply np_bind (miMNC_total buf); intro _ _
  exact np_pure _

theorem miSUCI_total (buf : Bytes) : NoPanic (miSUCI buf) := by
  unfold miSUCI
  apply np_bind (miIs_total buf _); intro isS hs
  split
  · exact np_pure _
  · next hn =>
    have hT : isS = true := by simpa using hn
    subst hT
    have hl := miIs_true_len hs
    apply np_bind (np_idx hl); intro b0 _
    split
    · unfold miNai; np
    · split
      · exact np_pure _
      · apply np_bind (miMCC_total buf); intro _ _
        apply np_bind (miMNC_total buf); intro _ _
        apply np_bind (np_idx (by omega)); intro _ _
        apply np_bind (np_idx (by omega)); intro _ _
        apply np_bind (np_idx (by omega)); intro _ _
        apply np_bind (np_idx (by omega)); intro _ _
        apply np_bind (np_routingText _ _); intro _ _
        apply np_bind (np_sliceFrom (by omega)); intro tail ht
        have := sliceFrom_len ht
        apply np_bind (np_schemeOutputText _ _ (by omega)); intro _ _
        exact np_pure _

theorem miAmfID_total (buf : Bytes) : NoPanic (miAmfID buf) := by unfold miAmfID; np
theorem miAmfRegionID_total (buf : Bytes) : NoPanic (miAmfRegionID buf) := by unfold miAmfRegionID; np

theorem miAmfSetID_total (buf : Bytes) : NoPanic (miAmfSetID buf) := by
  unfold miAmfSetID
  apply np_bind (miIs_total buf _); intro g _
  apply np_bind (miIs_total buf _); intro s _
  np

theorem miAmfPointer_total (buf : Bytes) : NoPanic (miAmfPointer buf) := by
  unfold miAmfPointer
  apply np_bind (miIs_total buf _); intro g _
  apply np_bind (miIs_total buf _); intro s _
  np

theorem mi5GTMSI_total (buf : Bytes) : NoPanic (mi5GTMSI buf) := by
  unfold mi5GTMSI
  apply np_bind (miIs_total buf _); intro g _
  apply np_bind (miIs_total buf _); intro s _
  np

theorem mi5GGUTI_total (buf : Bytes) : NoPanic (mi5GGUTI buf) := by
  unfold mi5GGUTI
  apply np_bind (miMCC_total buf); intro _ _
  apply np_bind (miMNC_total buf); intro _ _
  apply np_bind (miAmfID_total buf); intro _ _
  apply np_bind (mi5GTMSI_total buf); intro _ _
  exact np_pure _

theorem miIMEI_total (buf : Bytes) : NoPanic (miIMEI buf) := by
  unfold miIMEI
  apply np_bind (miIs_total buf _); intro i hi
  split
  · next h => subst h; apply np_bind (np_peiDigitText buf (miIs_true_len hi)); intro _ _; exact np_pure _
  · exact np_pure _

theorem miIMEISV_total (buf : Bytes) : NoPanic (miIMEISV buf) := by
  unfold miIMEISV
  apply np_bind (miIs_total buf _); intro i hi
  split
  · next h => subst h; apply np_bind (np_peiDigitText buf (miIs_true_len hi)); intro _ _; exact np_pure _
  · exact np_pure _

theorem mi5GSTMSI_total (buf : Bytes) : NoPanic (mi5GSTMSI buf) := by
  unfold mi5GSTMSI
  split
  · exact np_err _
  · apply np_bind (np_slice (by omega) (by omega)); intro _ _
    apply np_bind (mi5GTMSI_total buf); intro _ _
    exact np_pure _

theorem miMobileIdentity_total (buf : Bytes) : NoPanic (miMobileIdentity buf) := by
  unfold miMobileIdentity
  have := miType_total buf
  split
  · exact np_err _
  · next h => exact absurd h this
  · next t _ =>
    apply np_bind
    · cases t
      · exact miSUCI_total buf
      · exact mi5GGUTI_total buf
      · exact miIMEI_total buf
      · exact mi5GTMSI_total buf
      · exact miIMEISV_total buf
    · intro _ _; exact np_pure _

/-! ## non-vacuity: the guards are needed (models without them do panic), and the accepting paths are reachable -/

example : idx ([] : Bytes) 0 = .panic := by decide
example : (suciToString [0x01, 0x02, 0xf8, 0x39, 0xf0, 0xff, 0x00, 0x00, 0x00, 0x00, 0x47, 0x78]).isOk = true := by decide
example : (requestedNssaiToModels 7 [1, 1, 4, 1, 1, 2, 3]).isOk = true := by decide
example : ladnToModels [2, 97, 98, 1, 99] = .ok [[97, 98], [99]] := by decide
example : getDNN [3, 97, 98, 99, 2, 100, 101] = .ok (ascii "abc.de") := by decide

end NasVerif.Props.C14
