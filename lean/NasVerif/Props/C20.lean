import NasVerif.Model.IdGen
/-!
# C20 — the policy-section ID allocator never hands out a live or out-of-range ID

Theorems about the model of `IDGenerator` (tied to the Go code by the correspondence run over operation histories),
for every operation sequence from `NewGenerator(min, max)` with `min ≤ max`.
-/
namespace NasVerif.Props.C20
open NasVerif.Model.IdGen

/-- representation invariant of every reachable allocator state -/
structure Inv (g : Gen) : Prop where
  pos  : 0 < g.R
  off  : g.offset < g.R
  used : ∀ o ∈ g.used, o < g.R
  nd   : g.used.Nodup

theorem scan_some (R : Nat) (used : List Nat) (stop : Nat → Bool) (hR : 0 < R) :
    ∀ f off o, off < R → scan R used stop f off = some o → o ∉ used ∧ o < R := by
  intro f
  induction f with
  | zero => intro off o _ h; simp [scan] at h
  | succ f ih =>
    intro off o hoff h
    simp only [scan] at h
    split at h
    · split at h
      · simp at h
      · exact ih _ _ (Nat.mod_lt _ hR) h
    · simp at h; subst h; exact ⟨by assumption, hoff⟩

theorem wrap_eq (R b k : Nat) (hb : b < R) (hk1 : 0 < k) (hk : k ≤ R) (h : (b + k) % R = b) : k = R := by
  rcases Nat.lt_or_ge (b + k) R with hlt | hge
  · rw [Nat.mod_eq_of_lt hlt] at h; omega
  · have h2 : b + k - R < R := by omega
    rw [Nat.mod_eq_sub_mod hge, Nat.mod_eq_of_lt h2] at h
    omega

theorem step_mod (R start j : Nat) : ((start + j) % R + 1) % R = (start + (j + 1)) % R := by
  rw [Nat.add_mod, Nat.mod_mod, ← Nat.add_mod]; rfl

theorem scan_none_aux (R : Nat) (used : List Nat) (start : Nat) (hs : start < R) :
    ∀ f j, f + j = R → (∀ i, i < j → (start + i) % R ∈ used) →
      scan R used (· == start) f ((start + j) % R) = none → ∀ i, i < R → (start + i) % R ∈ used := by
  intro f
  induction f with
  | zero => intro j hj hv _ i hi; exact hv i (by omega)
  | succ f ih =>
    intro j hj hv h i hi
    simp only [scan] at h
    split at h
    · rename_i hin
      have hv' : ∀ i, i < j + 1 → (start + i) % R ∈ used := by
        intro i hi'
        rcases Nat.lt_or_ge i j with h1 | h1
        · exact hv i h1
        · have : i = j := by omega
          subst this; exact hin
      rw [step_mod] at h
      split at h
      · rename_i heq
        have heq' : (start + (j + 1)) % R = start := by simpa using heq
        have : j + 1 = R := wrap_eq R start (j+1) hs (by omega) (by omega) heq'
        exact hv' i (by omega)
      · exact ih (j+1) (by omega) hv' h i hi
    · simp at h

/-- `Allocate`'s scan fails only when all `R` offsets are live -/
theorem scan_none (R : Nat) (used : List Nat) (start : Nat) (hs : start < R)
    (h : scan R used (· == start) R start = none) : ∀ o, o < R → o ∈ used := by
  have hR : 0 < R := by omega
  have h0 : (start + 0) % R = start := by simp [Nat.mod_eq_of_lt hs]
  have key := scan_none_aux R used start hs R 0 (by omega) (by intro i hi; omega) (by rw [h0]; exact h)
  intro o ho
  have := key ((o + R - start) % R) (Nat.mod_lt _ hR)
  have e : (start + (o + R - start) % R) % R = o := by
    rw [Nat.add_mod, Nat.mod_mod, ← Nat.add_mod]
    have : start + (o + R - start) = o + R := by omega
    rw [this, Nat.add_mod_right, Nat.mod_eq_of_lt ho]
  rw [e] at this; exact this

/-- fuel adequacy: from position `start + j` the scan needs at most `R - j` steps, whatever extra fuel it has -/
theorem scan_fuel (R : Nat) (used : List Nat) (start : Nat) (hs : start < R) :
    ∀ n j f1 f2, n = R - j → j < R → R - j ≤ f1 → R - j ≤ f2 →
      scan R used (· == start) f1 ((start + j) % R) = scan R used (· == start) f2 ((start + j) % R) := by
  intro n
  induction n with
  | zero => intro j f1 f2 hn hj; omega
  | succ n ih =>
    intro j f1 f2 hn hj h1 h2
    cases f1 with
    | zero => omega
    | succ f1 =>
      cases f2 with
      | zero => omega
      | succ f2 =>
        simp only [scan]
        split
        · rw [step_mod]
          split
          · rfl
          · rename_i hne
            have hj1 : j + 1 < R := by
              rcases Nat.lt_or_ge (j + 1) R with h | h
              · exact h
              · have : j + 1 = R := by omega
                exfalso; apply hne
                simp [this, Nat.mod_eq_of_lt hs]
            exact ih (j+1) f1 f2 (by omega) hj1 (by omega) (by omega)
        · rfl

theorem inv_new (minV maxV : Int) (h : minV ≤ maxV) : Inv (newGen minV maxV) := by
  refine ⟨?_, ?_, ?_, ?_⟩ <;> simp [newGen] <;> omega

theorem inv_take (g : Gen) (h : Inv g) (off : Nat) (hno : off ∉ g.used) (hlt : off < g.R) : Inv (take g off).1 := by
  refine ⟨h.pos, Nat.mod_lt _ h.pos, ?_, ?_⟩
  · intro o ho
    simp [take] at ho
    rcases ho with rfl | ho
    · exact hlt
    · exact h.used o ho
  · simp [take]; exact ⟨hno, h.nd⟩

theorem maxV_eq (g : Gen) : g.maxV = g.minV + (g.R : Int) - 1 := rfl

/-- **Allocate, success**: the id is within the configured bounds, was not live, becomes live, nothing else changes -/
theorem alloc_ok (g g' : Gen) (id : Int) (h : Inv g) (ha : alloc g = (g', some id)) :
    g.minV ≤ id ∧ id ≤ g.maxV ∧ id ∉ live g ∧ live g' = id :: live g ∧ Inv g' ∧ g'.minV = g.minV ∧ g'.R = g.R := by
  unfold alloc at ha
  split at ha
  · rename_i off hsc
    obtain ⟨hno, hlt⟩ := scan_some g.R g.used _ h.pos _ _ _ h.off hsc
    simp only [Prod.mk.injEq, Option.some.injEq] at ha
    obtain ⟨rfl, rfl⟩ := ha
    refine ⟨by simp [take]; omega, by simp [take, maxV_eq]; omega, ?_, by simp [live, take], inv_take g h off hno hlt, rfl, rfl⟩
    simp only [live, take, List.mem_map, not_exists, not_and]
    intro o ho heq
    have : o = off := by omega
    subst this; exact hno ho
  · simp at ha

/-- **Allocate, failure**: only when every identifier of the range is live; the state is unchanged -/
theorem alloc_fail (g g' : Gen) (h : Inv g) (ha : alloc g = (g', none)) :
    g' = g ∧ ∀ id, g.minV ≤ id → id ≤ g.maxV → id ∈ live g := by
  unfold alloc at ha
  split at ha
  · simp at ha
  · rename_i hsc
    simp at ha
    refine ⟨ha.symm, ?_⟩
    intro id h1 h2
    have hall := scan_none g.R g.used g.offset h.off hsc
    have hlt : (id - g.minV).toNat < g.R := by rw [maxV_eq] at h2; omega
    simp only [live, List.mem_map]
    exact ⟨(id - g.minV).toNat, hall _ hlt, by omega⟩

/-- conversely, plain allocation succeeds whenever some identifier is free -/
theorem alloc_succeeds (g : Gen) (h : Inv g) (o : Nat) (ho : o < g.R) (hfree : o ∉ g.used) :
    ∃ g' id, alloc g = (g', some id) := by
  cases ha : alloc g with
  | mk g' r =>
    cases r with
    | some id => exact ⟨g', id, rfl⟩
    | none =>
      have := (alloc_fail g g' h ha).2 ((o : Int) + g.minV) (by omega) (by rw [maxV_eq]; omega)
      simp only [live, List.mem_map] at this
      obtain ⟨o', ho', he⟩ := this
      have : o' = o := by omega
      subst this; exact absurd ho' hfree

/-- **Allocate_inRange, success** (non-negative arguments): same guarantees -/
theorem allocIn_ok (g g' : Gen) (mn mx : Nat) (id : Int) (h : Inv g) (ha : allocIn g mn mx = (g', some id)) :
    g.minV ≤ id ∧ id ≤ g.maxV ∧ id ∉ live g ∧ live g' = id :: live g ∧ Inv g' ∧ g'.minV = g.minV ∧ g'.R = g.R := by
  unfold allocIn at ha
  simp only at ha
  split at ha
  · rename_i off hsc
    obtain ⟨hno, hlt⟩ := scan_some g.R g.used _ h.pos _ _ _ (Nat.mod_lt _ h.pos) hsc
    simp only [Prod.mk.injEq, Option.some.injEq] at ha
    obtain ⟨rfl, rfl⟩ := ha
    refine ⟨by simp [take]; omega, by simp [take, maxV_eq]; omega, ?_, by simp [live, take], inv_take g h off hno hlt, rfl, rfl⟩
    simp only [live, take, List.mem_map, not_exists, not_and]
    intro o ho heq
    have : o = off := by omega
    subst this; exact hno ho
  · simp at ha

theorem scanStop_lt (R : Nat) (used : List Nat) (stop : Nat → Bool) (hR : 0 < R) :
    ∀ f off, off < R → scanStop R used stop f off < R := by
  intro f
  induction f with
  | zero => intro off h; exact h
  | succ f ih =>
    intro off h
    simp only [scanStop]
    split
    · split
      · exact Nat.mod_lt _ hR
      · exact ih _ (Nat.mod_lt _ hR)
    · exact h

/-- **Allocate_inRange, failure**: live set unchanged -/
theorem allocIn_fail (g g' : Gen) (mn mx : Nat) (h : Inv g) (ha : allocIn g mn mx = (g', none)) :
    live g' = live g ∧ Inv g' ∧ g'.minV = g.minV ∧ g'.R = g.R := by
  unfold allocIn at ha
  simp only at ha
  split at ha
  · simp at ha
  · simp at ha; subst ha
    exact ⟨rfl, ⟨h.pos, scanStop_lt _ _ _ h.pos _ _ (Nat.mod_lt _ h.pos), h.used, h.nd⟩, rfl, rfl⟩

/-- **FreeID**: an in-range id leaves the live set (and only it); an out-of-range id is a no-op -/
theorem free_spec (g : Gen) (id : Int) (h : Inv g) :
    Inv (free g id) ∧ (free g id).minV = g.minV ∧ (free g id).R = g.R ∧
    (∀ x, x ∈ live (free g id) ↔ x ∈ live g ∧ x ≠ id) := by
  unfold free
  by_cases hr : id < g.minV ∨ id > g.maxV
  · simp only [hr, if_true]
    refine ⟨h, trivial, trivial, ?_⟩
    intro x
    constructor
    · intro hx
      refine ⟨hx, ?_⟩
      intro he; subst he
      simp only [live, List.mem_map] at hx
      obtain ⟨o, ho, rfl⟩ := hx
      have := h.used o ho
      rw [maxV_eq] at hr; omega
    · exact fun hx => hx.1
  · simp only [hr, if_false]
    have hr' : g.minV ≤ id ∧ id ≤ g.maxV := by omega
    refine ⟨⟨h.pos, h.off, fun o ho => h.used o (List.mem_of_mem_erase ho), h.nd.erase _⟩, trivial, trivial, ?_⟩
    intro x
    simp only [live, List.mem_map]
    constructor
    · rintro ⟨o, ho, rfl⟩
      have hne := (List.Nodup.mem_erase_iff h.nd).mp ho
      exact ⟨⟨o, hne.2, rfl⟩, by omega⟩
    · rintro ⟨⟨o, ho, rfl⟩, hne⟩
      exact ⟨o, (List.Nodup.mem_erase_iff h.nd).mpr ⟨by omega, ho⟩, rfl⟩

/-- a freed identifier is allocatable again: a range allocation aimed at it returns it at once … -/
theorem freed_allocatable (g : Gen) (id : Int) (h : Inv g) (h1 : g.minV ≤ id) (h2 : id ≤ g.maxV) (mx : Nat) :
    ∃ g', allocIn (free g id) (id - g.minV).toNat mx = (g', some id) := by
  have hf := free_spec g id h
  have hlt : (id - g.minV).toNat < g.R := by rw [maxV_eq] at h2; omega
  have hnot : (id - g.minV).toNat ∉ (free g id).used := by
    unfold free
    have : ¬ (id < g.minV ∨ id > g.maxV) := by omega
    simp only [this, if_false]
    exact fun hm => ((List.Nodup.mem_erase_iff h.nd).mp hm).1 rfl
  unfold allocIn
  simp only [hf.2.2.1, Nat.mod_eq_of_lt hlt]
  have hR : g.R = (g.R - 1) + 1 := by have := h.pos; omega
  rw [hR]
  simp only [scan, hnot, if_false]
  refine ⟨(take (free g id) (id - g.minV).toNat).1, ?_⟩
  simp only [take, hf.2.1]
  congr 2
  omega

/-- … and plain allocation succeeds afterwards (it can fail only when everything is live) -/
theorem freed_then_alloc_succeeds (g : Gen) (id : Int) (h : Inv g) (h1 : g.minV ≤ id) (h2 : id ≤ g.maxV) :
    ∃ g' id', alloc (free g id) = (g', some id') := by
  have hf := free_spec g id h
  have hlt : (id - g.minV).toNat < g.R := by rw [maxV_eq] at h2; omega
  apply alloc_succeeds (free g id) hf.1 (id - g.minV).toNat (by rw [hf.2.2.1]; exact hlt)
  unfold free
  have : ¬ (id < g.minV ∨ id > g.maxV) := by omega
  simp only [this, if_false]
  exact fun hm => ((List.Nodup.mem_erase_iff h.nd).mp hm).1 rfl

/-! ### every reachable state, every history -/

/-- what a history may return: each id in bounds and different from every id live at that moment -/
def Safe (minV maxV : Int) : Gen → List Op → Prop
  | _, [] => True
  | g, op :: ops =>
    (∀ id, (step g op).2 = some id → minV ≤ id ∧ id ≤ maxV ∧ id ∉ live g) ∧ Safe minV maxV (step g op).1 ops

theorem step_inv (g : Gen) (op : Op) (h : Inv g) :
    Inv (step g op).1 ∧ (step g op).1.minV = g.minV ∧ (step g op).1.R = g.R ∧
    (∀ id, (step g op).2 = some id → g.minV ≤ id ∧ id ≤ g.maxV ∧ id ∉ live g) := by
  cases op with
  | alloc =>
    simp only [step]
    cases ha : alloc g with
    | mk g' r =>
      cases r with
      | some id =>
        have := alloc_ok g g' id h ha
        exact ⟨this.2.2.2.2.1, this.2.2.2.2.2.1, this.2.2.2.2.2.2, fun id' he => by simp at he; subst he; exact ⟨this.1, this.2.1, this.2.2.1⟩⟩
      | none =>
        have := alloc_fail g g' h ha
        rw [this.1]
        exact ⟨h, rfl, rfl, fun id' he => by simp at he⟩
  | allocIn mn mx =>
    simp only [step]
    cases ha : allocIn g mn mx with
    | mk g' r =>
      cases r with
      | some id =>
        have := allocIn_ok g g' mn mx id h ha
        exact ⟨this.2.2.2.2.1, this.2.2.2.2.2.1, this.2.2.2.2.2.2, fun id' he => by simp at he; subst he; exact ⟨this.1, this.2.1, this.2.2.1⟩⟩
      | none =>
        have := allocIn_fail g g' mn mx h ha
        exact ⟨this.2.1, this.2.2.1, this.2.2.2, fun id' he => by simp at he⟩
  | free id =>
    simp only [step]
    have := free_spec g id h
    exact ⟨this.1, this.2.1, this.2.2.1, fun id' he => by simp at he⟩

theorem safe_of_inv (minV maxV : Int) : ∀ (ops : List Op) (g : Gen), Inv g → g.minV = minV → g.maxV = maxV →
    Safe minV maxV g ops := by
  intro ops
  induction ops with
  | nil => intro g _ _ _; trivial
  | cons op ops ih =>
    intro g h hm hM
    obtain ⟨hi, h1, h2, h3⟩ := step_inv g op h
    refine ⟨fun id he => by have := h3 id he; rw [← hm, ← hM]; exact this, ?_⟩
    apply ih _ hi (by rw [h1, hm])
    rw [maxV_eq, h1, h2, ← maxV_eq, hM]

/-- **C20**: for every sequence of allocate / allocate-in-range / free operations on `NewGenerator(min, max)`, each returned
identifier lies within [min, max] and differs from every identifier allocated and not yet freed -/
theorem allocator_safe (minV maxV : Int) (h : minV ≤ maxV) (ops : List Op) :
    Safe minV maxV (newGen minV maxV) ops :=
  safe_of_inv minV maxV ops _ (inv_new minV maxV h) rfl (by simp [newGen, Gen.maxV]; omega)

/-- non-vacuity: exhaustion, free, wrap-around of the scan offset on the range [1, 3] -/
example : ((([Op.alloc, .alloc, .alloc, .alloc, .free 2, .alloc].foldl
    (fun (st : Gen × List (Option Int)) op => ((step st.1 op).1, st.2 ++ [(step st.1 op).2])) (newGen 1 3, [])).2)
    = [some 1, some 2, some 3, none, none, some 2]) := by decide

end NasVerif.Props.C20
