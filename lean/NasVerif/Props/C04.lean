import NasVerif.Props.Codec
import NasVerif.Codec.SpecTheorems
import NasVerif.Spec.Tables
/-! # C04 — wire format of every message matches the TS 24.501 message tables -/
namespace NasVerif.Props.C04
open NasVerif NasVerif.Codec NasVerif.Props.Codec

set_option maxRecDepth 100000 in
/-- read in TS vocabulary (format, identifier, admissible lengths), the 45 tables extracted from the 90 generated
functions on this run are the pinned TS 24.501 tables -/
theorem tables_match :
    (Model.top.msgs.map (fun e => (e.name, e.dec.toSpec)) == Spec.tables) = true := by decide

set_option maxRecDepth 100000 in
/-- and each storage class realises its format (the abstraction to TS vocabulary loses nothing) -/
theorem all_specOK : Model.top.msgs.all (fun e => e.dec.specOK) = true := by decide

theorem entry_specOK (name : String) (e : MsgEntry) (h : findMsg Model.top.msgs name = some e) : e.dec.specOK = true :=
  List.all_eq_true.mp all_specOK e (findMsg_mem _ _ _ h).1

/-- the encoder emits exactly: header octets and mandatory elements in table order in V/LV/LV-E form, then each present
optional element in table order with its identifier in T/TV/TLV/TLV-E framing (`Spec.render`, TS 24.007 §11.2) -/
theorem encoder_layout (name : String) (e : MsgEntry) (h : findMsg Model.top.msgs name = some e)
    (m : MsgVal) (hm : WFVal e.dec m) :
    encode e.dec m = .ok (Spec.render e.dec.toSpec (toMVal e.dec m)) :=
  encode_layout e.dec (entry_specOK name e h) m hm

/-- the decoder accepts exactly the byte strings the independent table-driven decoder accepts (optional elements in any
order, last duplicate wins, lengths within bounds) and yields the same field values -/
theorem decoder_agrees (name : String) (e : MsgEntry) (h : findMsg Model.top.msgs name = some e) (bs : Bytes) :
    Spec.decode e.dec.toSpec bs = (match decode e.dec bs with | .ok m => some (toMVal e.dec m) | _ => none) :=
  decode_agree e.dec (entry_specOK name e h) bs

/-- everything else — truncated input, out-of-bounds lengths — is rejected with an error (not accepted, not a panic) -/
theorem decoder_rejects (name : String) (e : MsgEntry) (h : findMsg Model.top.msgs name = some e) (bs : Bytes)
    (hr : Spec.decode e.dec.toSpec bs = none) : ∃ er, decode e.dec bs = .err er :=
  decode_rejects e.dec (entry_specOK name e h) bs hr

/-- statically: all 90 generated encode/decode functions (and the helper methods they rely on) were recognised -/
theorem all_functions_recognised : Gen.unrecognisedCodec = [] ∧ Model.top.msgs.length = 45 := by
  exact ⟨translator_total, by decide⟩

/-- non-vacuity: truncation inside an element and an out-of-bounds length are rejected by the table-driven decoder;
a reordered + duplicated input is accepted -/
example : Spec.decode Spec.msg_RegistrationReject [0x7e, 0x00, 0x44, 0x01, 0x16, 0x01] = none := by decide
example : Spec.decode Spec.msg_RegistrationReject [0x7e, 0x00, 0x44, 0x01, 0x16, 0x02, 0, 0] = none := by decide
example : (Spec.decode Spec.msg_RegistrationReject [0x7e, 0x00, 0x44, 0x01, 0x16, 0x01, 7, 0x5f, 0x01, 9, 0x16, 0x01, 8]).map (·.opt)
    = some [some ⟨0x5f, 1, [9]⟩, some ⟨0x16, 1, [8]⟩, none] := by decide

end NasVerif.Props.C04
