import NasVerif.Props.C07
import NasVerif.Proofs.EncLoops
import NasVerif.Gen.Globals
/-!
# C08 — security API laws

Proved for the model of `NASEncrypt` / `NASMacCalculate` (all algorithm ids 0..255, bearers, directions 0..255, payloads
incl. empty and nil): argument validation (error, payload untouched), NULL algorithms, MAC length, and for algorithm 2
(any block cipher with 16-octet blocks): length preservation, involution, prefix stability, plaintext independence.
The same laws for algorithms 1 and 3 follow from the closed form of the NEA1 / NEA3 byte loops at LENGTH = 8·octets
(`Proofs/EncLoops.lean`: payload XOR a keystream that depends on key, COUNT, bearer, direction and the length only, with
the keystream of a shorter payload a prefix of that of a longer one), and no payload or message length makes either API panic.
-/
namespace NasVerif.Props.C08
open NasVerif NasVerif.Model NasVerif.Model.Security

variable (E : Bytes → Bytes → Bytes)

/-- a bearer above 31 is an error and leaves the payload untouched -/
theorem enc_bad_bearer (algo : UInt8) (key : Bytes) (count : W32) (b d : UInt8) (p : Option Bytes) (h : b > 0x1f) :
    NASEncrypt E algo key count b d p = .ok ⟨true, p⟩ := by simp [NASEncrypt, h]

theorem enc_bad_direction (algo : UInt8) (key : Bytes) (count : W32) (b d : UInt8) (p : Option Bytes)
    (hb : ¬ b > 0x1f) (h : d > 1) : NASEncrypt E algo key count b d p = .ok ⟨true, p⟩ := by simp [NASEncrypt, hb, h]

theorem enc_nil_payload (algo : UInt8) (key : Bytes) (count : W32) (b d : UInt8) :
    ∃ r, NASEncrypt E algo key count b d none = .ok r ∧ r.err = true ∧ r.payload = none := by
  unfold NASEncrypt
  by_cases hb : b > 0x1f
  · exact ⟨⟨true, none⟩, by simp [hb], rfl, rfl⟩
  · by_cases hd : d > 1
    · exact ⟨⟨true, none⟩, by simp [hb, hd], rfl, rfl⟩
    · exact ⟨⟨true, none⟩, by simp [hb, hd], rfl, rfl⟩

theorem enc_unknown_algo (algo : UInt8) (key : Bytes) (count : W32) (b d : UInt8) (p : Bytes)
    (hb : ¬ b > 0x1f) (hd : ¬ d > 1) (h : algo > 3) :
    NASEncrypt E algo key count b d (some p) = .ok ⟨true, some p⟩ := by
  have h0 : algo ≠ 0 := by intro hc; subst hc; exact absurd h (by decide)
  have h1 : algo ≠ 1 := by intro hc; subst hc; exact absurd h (by decide)
  have h2 : algo ≠ 2 := by intro hc; subst hc; exact absurd h (by decide)
  have h3 : algo ≠ 3 := by intro hc; subst hc; exact absurd h (by decide)
  simp [NASEncrypt, hb, hd, h0, h1, h2, h3]

/-- algorithm 0 leaves the payload unchanged -/
theorem enc_null (key : Bytes) (count : W32) (b d : UInt8) (p : Bytes) (hb : ¬ b > 0x1f) (hd : ¬ d > 1) :
    NASEncrypt E 0 key count b d (some p) = .ok ⟨false, some p⟩ := by simp [NASEncrypt, hb, hd]

theorem mac_invalid (algo : UInt8) (key : Bytes) (count : W32) (b d : UInt8) (m : Option Bytes)
    (h : b > 0x1f ∨ d > 1 ∨ m = none) : NASMacCalculate E algo key count b d m = .ok none := by
  unfold NASMacCalculate
  by_cases hb : b > 0x1f
  · simp [hb]
  · by_cases hd : d > 1
    · simp [hb, hd]
    · rcases h with h | h | h
      · exact absurd h hb
      · exact absurd h hd
      · subst h; simp [hb, hd]

theorem mac_unknown_algo (algo : UInt8) (key : Bytes) (count : W32) (b d : UInt8) (m : Bytes) (h : algo > 3) :
    NASMacCalculate E algo key count b d (some m) = .ok none := by
  have h0 : algo ≠ 0 := by intro hc; subst hc; exact absurd h (by decide)
  have h1 : algo ≠ 1 := by intro hc; subst hc; exact absurd h (by decide)
  have h2 : algo ≠ 2 := by intro hc; subst hc; exact absurd h (by decide)
  have h3 : algo ≠ 3 := by intro hc; subst hc; exact absurd h (by decide)
  unfold NASMacCalculate
  by_cases hb : b > 0x1f
  · simp [hb]
  · by_cases hd : d > 1
    · simp [hb, hd]
    · simp [hb, hd, h0, h1, h2, h3]

/-- algorithm 0 yields the all-zero MAC -/
theorem mac_null (key : Bytes) (count : W32) (b d : UInt8) (m : Bytes) (hb : ¬ b > 0x1f) (hd : ¬ d > 1) :
    NASMacCalculate E 0 key count b d (some m) = .ok (some [0, 0, 0, 0]) := by simp [NASMacCalculate, hb, hd]

theorem put32_length (w : W32) : (put32 w).length = 4 := rfl

theorem nia1_length (ik : Bytes) (c : W32) (b : UInt8) (d : W32) (msg : Bytes) (len : Nat) (mac : Bytes)
    (h : NIA1 ik c b d msg len = .ok mac) : mac.length = 4 := by
  unfold NIA1 at h
  simp only at h
  split at h
  · simp only [Outcome.ok.injEq] at h; subst h; rfl
  · simp at h
  · simp at h

theorem nia3_length (ik : Bytes) (c : W32) (b d : UInt8) (msg : Bytes) (len : Nat) (mac : Bytes)
    (h : NIA3 ik c b d msg len = .ok mac) : mac.length = 4 := by
  unfold NIA3 genMac at h
  simp only at h
  split at h
  · unfold genMacFin at h
    split at h
    · simp only [Outcome.ok.injEq] at h; subst h; rfl
    · simp at h
  · simp at h
  · simp at h

theorem cmacLoop_length (F : Bytes → Bytes) (hF : ∀ blk, (F blk).length = 16) :
    ∀ (n : Nat) (m x k1 k2 : Bytes), m.length ≤ n → (Spec.AES.cmacLoop F m x k1 k2).length = 16 := by
  intro n
  induction n with
  | zero =>
    intro m x k1 k2 h
    unfold Spec.AES.cmacLoop
    have : m.length ≤ 16 := by omega
    simp [this, hF]
  | succ n ih =>
    intro m x k1 k2 h
    unfold Spec.AES.cmacLoop
    by_cases h16 : m.length ≤ 16
    · simp [h16, hF]
    · simp only [h16, dite_false]
      exact ih _ _ _ _ (by simp; omega)

theorem cmac_length (F : Bytes → Bytes) (hF : ∀ blk, (F blk).length = 16) (m : Bytes) : (Spec.AES.cmac F m).length = 16 :=
  cmacLoop_length F hF m.length _ _ _ _ (Nat.le_refl _)

/-- a MAC, when one is returned, is exactly 4 octets (algorithm 2 needs the block cipher to return 16-octet blocks) -/
theorem mac_length (algo : UInt8) (key : Bytes) (count : W32) (b d : UInt8) (m : Option Bytes) (mac : Bytes)
    (hE : ∀ k blk, (E k blk).length = 16)
    (h : NASMacCalculate E algo key count b d m = .ok (some mac)) : mac.length = 4 := by
  unfold NASMacCalculate at h
  by_cases hb : b > 0x1f
  · simp [hb] at h
  · by_cases hd : d > 1
    · simp [hb, hd] at h
    · cases m with
      | none => simp [hb, hd] at h
      | some msg =>
        simp only [hb, hd, if_false] at h
        by_cases h0 : algo = 0
        · simp [h0] at h; subst h; rfl
        · by_cases h1 : algo = 1
          · simp only [h0, h1, if_true, if_false] at h
            cases hn : NIA1 key count b (BitVec.ofNat 32 d.toNat) msg (msg.length * 8) with
            | ok x => simp [hn] at h; subst h; exact nia1_length _ _ _ _ _ _ _ hn
            | err e => simp [hn] at h
            | panic => simp [hn] at h
          · by_cases h2 : algo = 2
            · simp only [h0, h1, h2, if_true, if_false] at h
              simp [NIA2] at h
              subst h
              simp [cmac_length (E key) (hE key)]
            · by_cases h3 : algo = 3
              · simp only [h0, h1, h2, h3, if_true, if_false] at h
                cases hn : NIA3 key count b d msg (msg.length * 8) with
                | ok x => simp [hn] at h; subst h; exact nia3_length _ _ _ _ _ _ _ hn
                | err e => simp [hn] at h
                | panic => simp [hn] at h
              · simp [h0, h1, h2, h3] at h

/-! ### algorithm 2 (AES-CTR), any block cipher with 16-octet blocks -/

theorem ctrStream_length (F : Bytes → Bytes) (hF : ∀ blk, (F blk).length = 16) (n : Nat) (c : Bytes) :
    (Spec.AES.ctrStream F n c).length = 16 * n := by
  induction n generalizing c with
  | zero => rfl
  | succ n ih => simp [Spec.AES.ctrStream, hF, ih]; omega

theorem ctrStream_prefix (F : Bytes → Bytes) (hF : ∀ blk, (F blk).length = 16) (n m : Nat) (c : Bytes) :
    (Spec.AES.ctrStream F (n + m) c).take (16 * n) = Spec.AES.ctrStream F n c := by
  induction n generalizing c with
  | zero => simp [Spec.AES.ctrStream]
  | succ n ih =>
    have e : n + 1 + m = (n + m) + 1 := by omega
    rw [e]
    simp only [Spec.AES.ctrStream]
    have : 16 * (n + 1) = (F c).length + 16 * n := by rw [hF]; omega
    rw [this, List.take_append]
    simp [ih]
    exact List.take_of_length_le (by omega)

/-- the keystream octets applied to an `n`-octet payload -/
def ctrKS (F : Bytes → Bytes) (iv : Bytes) (n : Nat) : Bytes := (Spec.AES.ctrStream F ((n + 15) / 16) iv).take n

theorem ctrKS_length (F : Bytes → Bytes) (hF : ∀ blk, (F blk).length = 16) (iv : Bytes) (n : Nat) :
    (ctrKS F iv n).length = n := by
  simp [ctrKS, ctrStream_length F hF]; omega

/-- prefix stability of the keystream -/
theorem ctrKS_prefix (F : Bytes → Bytes) (hF : ∀ blk, (F blk).length = 16) (iv : Bytes) (n m : Nat) (h : m ≤ n) :
    (ctrKS F iv n).take m = ctrKS F iv m := by
  unfold ctrKS
  rw [List.take_take, Nat.min_eq_left h]
  have hb : (m + 15) / 16 ≤ (n + 15) / 16 := by omega
  obtain ⟨k, hk⟩ := Nat.exists_eq_add_of_le hb
  rw [hk, ← ctrStream_prefix F hF ((m + 15) / 16) k iv, List.take_take]
  congr 1
  omega

theorem xorB_xorB (p ks : Bytes) (h : ks.length = p.length) : Spec.AES.xorB (Spec.AES.xorB p ks) ks = p := by
  induction p generalizing ks with
  | nil => simp [Spec.AES.xorB]
  | cons a p ih =>
    cases ks with
    | nil => simp at h
    | cons k ks =>
      simp at h
      simp only [Spec.AES.xorB, List.zipWith_cons_cons] at ih ⊢
      rw [ih ks h]
      congr 1
      rw [UInt8.xor_assoc]; simp

theorem xorB_take (p ks : Bytes) (n : Nat) : (Spec.AES.xorB p ks).take n = Spec.AES.xorB (p.take n) (ks.take n) := by
  simp [Spec.AES.xorB, List.take_zipWith]

/-- NEA2: ciphertext = payload xor a keystream that does not depend on the payload (plaintext independence), of the same
length (length preservation) -/
theorem nea2_form (key : Bytes) (count : W32) (b d : UInt8) (p : Bytes) :
    NEA2 E key count b d p = .ok (Spec.AES.xorB p (ctrKS (E key) (counterBlock count b d) p.length)) := rfl

theorem nea2_length (key : Bytes) (count : W32) (b d : UInt8) (p out : Bytes) (hE : ∀ k blk, (E k blk).length = 16)
    (h : NEA2 E key count b d p = .ok out) : out.length = p.length := by
  rw [nea2_form] at h; injection h with h; subst h
  simp [Spec.AES.xorB, ctrKS_length (E key) (hE key)]

/-- NEA2 is its own inverse -/
theorem nea2_involution (key : Bytes) (count : W32) (b d : UInt8) (p out : Bytes) (hE : ∀ k blk, (E k blk).length = 16)
    (h : NEA2 E key count b d p = .ok out) : NEA2 E key count b d out = .ok p := by
  have hl := nea2_length E key count b d p out hE h
  rw [nea2_form] at h ⊢; injection h with h; subst h
  rw [hl, xorB_xorB p _ (ctrKS_length (E key) (hE key) _ _)]

/-- the ciphertext of a prefix is the prefix of the ciphertext -/
theorem nea2_prefix (key : Bytes) (count : W32) (b d : UInt8) (p out : Bytes) (n : Nat) (hn : n ≤ p.length)
    (hE : ∀ k blk, (E k blk).length = 16) (h : NEA2 E key count b d p = .ok out) :
    NEA2 E key count b d (p.take n) = .ok (out.take n) := by
  rw [nea2_form] at h ⊢; injection h with h; subst h
  rw [xorB_take, ctrKS_prefix (E key) (hE key) _ _ _ hn]
  simp [Nat.min_eq_left hn]

/-! ### algorithms 1 and 3 -/

open NasVerif.Proofs.EncLoops in
/-- the closed form: for algorithm 1 or 3 and valid bearer / direction there is a keystream family `ks` (octets, one sequence
per length, each a prefix of the longer ones) such that every payload is XORed with `ks` of its length -/
theorem enc13_laws (algo : UInt8) (key : Bytes) (count : W32) (b d : UInt8) (ha : algo = 1 ∨ algo = 3)
    (hb : ¬ b > 0x1f) (hd : ¬ d > 1) :
    ∃ ks : Nat → Bytes, (∀ n, (ks n).length = n) ∧ (∀ n m, m ≤ n → (ks n).take m = ks m) ∧
      ∀ q : Bytes, NASEncrypt E algo key count b d (some q) = .ok ⟨false, some (Spec.AES.xorB q (ks q.length))⟩ := by
  rcases ha with rfl | rfl
  · refine ⟨ks1 key count (BitVec.ofNat 32 b.toNat) (BitVec.ofNat 32 d.toNat), ks1_length _ _ _ _, ks1_prefix _ _ _ _, ?_⟩
    intro q
    have := nasEncrypt13_form E 1 key count b d q (Or.inl rfl) hb hd
    simpa using this
  · refine ⟨ks3 key count b d, ks3_length _ _ _ _, ks3_prefix _ _ _ _, ?_⟩
    intro q
    have := nasEncrypt13_form E 3 key count b d q (Or.inr rfl) hb hd
    simpa using this

/-- length preservation, involution, prefix stability and plaintext independence for algorithms 1 and 3, through the API -/
theorem enc13_involution_prefix (algo : UInt8) (key : Bytes) (count : W32) (b d : UInt8) (ha : algo = 1 ∨ algo = 3)
    (hb : ¬ b > 0x1f) (hd : ¬ d > 1) (p : Bytes) :
    ∃ out, NASEncrypt E algo key count b d (some p) = .ok ⟨false, some out⟩ ∧ out.length = p.length ∧
      NASEncrypt E algo key count b d (some out) = .ok ⟨false, some p⟩ ∧
      (∀ n, n ≤ p.length → NASEncrypt E algo key count b d (some (p.take n)) = .ok ⟨false, some (out.take n)⟩) ∧
      (∀ p' : Bytes, p'.length = p.length → ∃ out', NASEncrypt E algo key count b d (some p') = .ok ⟨false, some out'⟩ ∧
        Spec.AES.xorB out' p' = Spec.AES.xorB out p) := by
  obtain ⟨ks, hl, hp, hf⟩ := enc13_laws E algo key count b d ha hb hd
  have hol : (Spec.AES.xorB p (ks p.length)).length = p.length := by simp [Spec.AES.xorB, hl]
  refine ⟨_, hf p, hol, ?_, ?_, ?_⟩
  · rw [hf, hol, xorB_xorB p _ (hl _)]
  · intro n hn
    rw [hf, xorB_take, List.length_take, Nat.min_eq_left hn, hp _ _ hn]
  · intro p' hp'
    refine ⟨_, hf p', ?_⟩
    rw [hp']
    have comm : ∀ a b : Bytes, Spec.AES.xorB a b = Spec.AES.xorB b a := by
      intro a b; unfold Spec.AES.xorB
      induction a generalizing b with
      | nil => cases b <;> rfl
      | cons x xs ih => cases b with
        | nil => rfl
        | cons y ys => simp [List.zipWith, ih, UInt8.xor_comm]
    rw [comm p' _, comm p _, xorB_xorB _ p' (by rw [hl, hp']), xorB_xorB _ p (by rw [hl])]

open NasVerif.Proofs.EncLoops in
/-- no algorithm identity, bearer, direction, payload or message (nil, empty or of any length) makes either API panic -/
theorem api_never_panics (algo : UInt8) (key : Bytes) (count : W32) (b d : UInt8) (p : Option Bytes) :
    NASEncrypt E algo key count b d p ≠ .panic ∧ NASMacCalculate E algo key count b d p ≠ .panic := by
  constructor
  · unfold NASEncrypt
    split
    · intro h; cases h
    · split
      · intro h; cases h
      · cases p with
        | none => intro h; cases h
        | some q =>
          simp only []
          split
          · intro h; cases h
          · split
            · rw [nea1_bytes]; intro h; cases h
            · split
              · simp only [NEA2]; intro h; cases h
              · split
                · rw [nea3_bytes]; intro h; cases h
                · intro h; cases h
  · unfold NASMacCalculate
    split
    · intro h; cases h
    · split
      · intro h; cases h
      · cases p with
        | none => intro h; cases h
        | some m =>
          simp only []
          split
          · intro h; cases h
          · split
            · obtain ⟨mac, hm⟩ := nia1_no_panic key count b (BitVec.ofNat 32 d.toNat) m
              rw [hm]; intro h; cases h
            · split
              · simp only [NIA2]; intro h; cases h
              · split
                · obtain ⟨mac, hm⟩ := nia3_no_panic key count b d m
                  rw [hm]; intro h; cases h
                · intro h; cases h

/-- non-vacuity -/
example : (8 : UInt8) > 3 ∧ ¬ ((31 : UInt8) > 0x1f) ∧ ((32 : UInt8) > 0x1f) := by decide

/-- statelessness of the security packages (re-decided on this run's facts; stated in C06) -/
theorem security_stateless :
    ∀ p ∈ Gen.Globals.writerPkgs, p ≠ "security" ∧ p ≠ "security/snow3g" ∧ p ≠ "security/zuc" := C06.security_stateless

end NasVerif.Props.C08
