import NasVerif.Proofs.Gsm7Lemmas
/-!
# C17 — timers, bit rates, time zones and network names encode faithfully

Spec decoders (`decTimer2`, `decTimer3`, `unpackGsm7`) are written from TS 24.008 10.5.7.4 / 10.5.7.4a and TS 23.038.
Theorems are about the hand models of the (repaired) Go helpers, tied to the code by the correspondence run.
-/
namespace NasVerif.Props.C17
open NasVerif NasVerif.Model.Conv17 NasVerif.Spec.Gsm7 NasVerif.Proofs.Gsm7

/-! ## GPRS timer 2 / 3 -/

/-- TS 24.008 Table 10.5.163: unit in bits 8..6, value in bits 5..1 -/
def decTimer2 (o : UInt8) : Nat :=
  let v := o.toNat % 32
  match o.toNat / 32 with
  | 0 => 2 * v | 1 => 60 * v | 2 => 360 * v | 7 => 0 | _ => 60 * v

/-- TS 24.008 Table 10.5.163a -/
def decTimer3 (o : UInt8) : Nat :=
  let v := o.toNat % 32
  match o.toNat / 32 with
  | 0 => 600 * v | 1 => 3600 * v | 2 => 36000 * v | 3 => 2 * v | 4 => 30 * v | 5 => 60 * v | 6 => 1152000 * v | _ => 0

/-- every duration representable as a GPRS timer 2 (k × 2 s, k × 1 min, k × 6 min, k ≤ 31) decodes to itself -/
theorem timer2_representable : ∀ k, k ≤ 31 →
    decTimer2 (gprsTimer2ToNas (2 * k)) = 2 * k ∧ decTimer2 (gprsTimer2ToNas (60 * k)) = 60 * k ∧
    decTimer2 (gprsTimer2ToNas (360 * k)) = 360 * k := by decide

theorem timer2_small : ∀ v, v ≤ 64 → decTimer2 (gprsTimer2ToNas v) ≤ v := by decide

set_option maxRecDepth 100000 in
/-- the minute branch, as a function of t = v / 60 -/
theorem timer2_minutes : ∀ t, t ≤ 186 →
    decTimer2 (if UInt8.ofNat t ≤ 31 then (0 ||| 0x20) + UInt8.ofNat t
      else if UInt8.ofNat t % 6 ≠ 0 then 0 else (0 ||| 0x40) + UInt8.ofNat t / 6) ≤ 60 * t := by decide

/-- within the representable range (0 … 11 160 s) no encoded timer 2 decodes to more than was requested -/
theorem timer2_never_more (v : Nat) (hv : v ≤ 11160) : decTimer2 (gprsTimer2ToNas v) ≤ v := by
  by_cases h : v ≤ 64
  · exact timer2_small v h
  · have := timer2_minutes (v / 60) (by omega)
    unfold gprsTimer2ToNas
    simp only [h, if_false]
    omega

theorem timer3_unit_value : ∀ t, t ≤ 31 →
    decTimer3 (((0x03 : UInt8) <<< 5) + UInt8.ofNat t) = 2 * t ∧ decTimer3 (((0x04 : UInt8) <<< 5) + UInt8.ofNat t) = 30 * t ∧
    decTimer3 (((0x05 : UInt8) <<< 5) + UInt8.ofNat t) = 60 * t ∧ decTimer3 (((0x00 : UInt8) <<< 5) + UInt8.ofNat t) = 600 * t ∧
    decTimer3 (((0x01 : UInt8) <<< 5) + UInt8.ofNat t) = 3600 * t ∧ decTimer3 (((0x02 : UInt8) <<< 5) + UInt8.ofNat t) = 36000 * t := by
  decide

/-- what the encoder computes, for every duration up to 31 × 10 h: the largest multiple of the chosen unit not above it -/
theorem timer3_value (v : Nat) (hv : v ≤ 1116000) :
    decTimer3 (gprsTimer3ToNas v) =
      if v ≤ 62 then 2 * (v / 2) else if v ≤ 930 then 30 * (v / 30) else if v ≤ 1860 then 60 * (v / 60)
      else if v ≤ 18600 then 600 * (v / 600) else if v ≤ 111600 then 3600 * (v / 3600) else 36000 * (v / 36000) := by
  unfold gprsTimer3ToNas
  by_cases h1 : v ≤ 62
  · simp only [h1, if_true, show v ≤ 2 * 31 from h1]; exact (timer3_unit_value (v / 2) (by omega)).1
  · by_cases h2 : v ≤ 930
    · simp only [h1, h2, if_true, if_false, show ¬ v ≤ 2 * 31 from h1, show v ≤ 30 * 31 from h2]
      exact (timer3_unit_value (v / 30) (by omega)).2.1
    · by_cases h3 : v ≤ 1860
      · simp only [h1, h2, h3, if_true, if_false, show ¬ v ≤ 2 * 31 from h1, show ¬ v ≤ 30 * 31 from h2, show v ≤ 60 * 31 from h3]
        exact (timer3_unit_value (v / 60) (by omega)).2.2.1
      · by_cases h4 : v ≤ 18600
        · simp only [h1, h2, h3, h4, if_true, if_false, show ¬ v ≤ 2 * 31 from h1, show ¬ v ≤ 30 * 31 from h2,
            show ¬ v ≤ 60 * 31 from h3, show v ≤ 600 * 31 from h4]
          exact (timer3_unit_value (v / 600) (by omega)).2.2.2.1
        · by_cases h5 : v ≤ 111600
          · simp only [h1, h2, h3, h4, h5, if_true, if_false, show ¬ v ≤ 2 * 31 from h1, show ¬ v ≤ 30 * 31 from h2,
              show ¬ v ≤ 60 * 31 from h3, show ¬ v ≤ 600 * 31 from h4, show v ≤ 3600 * 31 from h5]
            exact (timer3_unit_value (v / 3600) (by omega)).2.2.2.2.1
          · simp only [h1, h2, h3, h4, h5, if_false, show ¬ v ≤ 2 * 31 from h1, show ¬ v ≤ 30 * 31 from h2,
              show ¬ v ≤ 60 * 31 from h3, show ¬ v ≤ 600 * 31 from h4, show ¬ v ≤ 3600 * 31 from h5]
            exact (timer3_unit_value (v / 36000) (by omega)).2.2.2.2.2

/-- no encoded timer 3 decodes to more than was requested (0 … 1 116 000 s) -/
theorem timer3_never_more (v : Nat) (hv : v ≤ 1116000) : decTimer3 (gprsTimer3ToNas v) ≤ v := by
  rw [timer3_value v hv]
  repeat' split
  all_goals omega

/-- every duration representable as a GPRS timer 3 by the encoder's units decodes to itself -/
theorem timer3_representable (k : Nat) (hk : k ≤ 31) (u : Nat) (hu : u ∈ [2, 30, 60, 600, 3600, 36000]) :
    decTimer3 (gprsTimer3ToNas (u * k)) = u * k := by
  have hv : u * k ≤ 1116000 := by
    simp at hu
    rcases hu with rfl | rfl | rfl | rfl | rfl | rfl <;> omega
  rw [timer3_value _ hv]
  simp at hu
  rcases hu with rfl | rfl | rfl | rfl | rfl | rfl <;> (repeat' split) <;> omega

/-! ## session AMBR -/

def decimalValue (s : List Char) : Nat := s.foldl (fun a c => a * 10 + (c.toNat - 48)) 0
def IsNumeral (s : List Char) : Prop := s ≠ [] ∧ s.all Char.isDigit = true

theorem splitSpace_numeral (num rest cur : List Char) (h : num.all Char.isDigit = true) :
    splitSpace (num ++ ' ' :: rest) cur = (cur.reverse ++ num) :: splitSpace rest [] := by
  induction num generalizing cur with
  | nil => simp [splitSpace]
  | cons c cs ih =>
    simp only [List.all_cons, Bool.and_eq_true] at h
    have hc : c ≠ ' ' := by
      intro hc; subst hc; exact absurd h.1 (by decide)
    simp only [List.cons_append, splitSpace, hc, if_false]
    rw [ih _ h.2]
    simp

theorem splitSpace_nospace (u cur : List Char) (h : ' ' ∉ u) : splitSpace u cur = [cur.reverse ++ u] := by
  induction u generalizing cur with
  | nil => simp [splitSpace]
  | cons c cs ih =>
    simp at h
    simp only [splitSpace, Ne.symm h.1, if_false]
    rw [ih _ h.2]; simp

/-- unit codes of TS 24.501 Table 9.11.4.14.1 -/
theorem unit_codes : strToAMBRUnit "Kbps".toList = 0x01 ∧ strToAMBRUnit "Mbps".toList = 0x06 ∧
    strToAMBRUnit "Gbps".toList = 0x0B ∧ strToAMBRUnit "Tbps".toList = 0x10 ∧ strToAMBRUnit "Pbps".toList = 0x15 := by decide

/-- a bit rate given as a decimal numeral ≤ 65535 followed by a space and a unit is encoded with exactly that 16-bit value
(big endian) and the unit's code -/
theorem ambr_side (num unit : List Char) (hn : IsNumeral num) (hv : decimalValue num ≤ 65535) (hu : ' ' ∉ unit) :
    ambrSide (num ++ ' ' :: unit) =
      .ok (UInt8.ofNat (decimalValue num / 256), UInt8.ofNat (decimalValue num), strToAMBRUnit unit) := by
  obtain ⟨hne, hd⟩ := hn
  have hs : splitSpace (num ++ ' ' :: unit) [] = [num, unit] := by
    rw [splitSpace_numeral num unit [] hd, splitSpace_nospace unit [] hu]; simp
  simp only [ambrSide, hs, parseUint16]
  have : ¬ (num = [] ∨ ¬ num.all Char.isDigit = true) := by simp [hne, hd]
  simp only [this, if_false, decimalValue] at hv ⊢
  simp [hv]

/-- the values above 32767 included (the defect repaired by 1809069) -/
example : ambrSide "40000 Mbps".toList = .ok (0x9c, 0x40, 0x06) := by decide
example : modelsToSessionAMBR "65535 Pbps".toList "1 Kbps".toList = .ok [0x01, 0x00, 0x01, 0x15, 0xff, 0xff] := by decide

/-! ## time zone: all quarter-hour zones × DST 0/1/2 -/

def d2 (n : Nat) : List Char := [Char.ofNat (48 + n / 10), Char.ofNat (48 + n % 10)]

/-- the text form "±HH:MM" [+d] -/
def tzText (neg : Bool) (h m dst : Nat) : List Char :=
  [if neg then '-' else '+'] ++ d2 h ++ [':'] ++ d2 m ++ (if dst = 0 then [] else ['+', Char.ofNat (48 + dst)])

/-- for every zone on the quarter-hour grid (|zone| ≤ 19:45) and daylight saving adjustment 0, +1, +2 whose sum is
representable (≤ 79 quarters), the encoded octet decodes to zone + adjustment -/
theorem timezone_roundtrip : ∀ neg : Bool, ∀ h : Nat, h < 20 → ∀ q : Nat, q < 4 → ∀ dst : Nat, dst < 3 →
    let total : Int := (if neg then -1 else 1) * ((h * 4 + q : Nat) : Int) + ((dst : Nat) : Int) * 4
    total.natAbs ≤ 79 →
    (parseTimeZoneToNas (tzText neg h (15 * q) dst)).bind (fun o => .ok (getTimeZoneOffset o)) = .ok (total * 900) := by
  decide

/-- the daylight saving time IE value round-trips -/
theorem dst_roundtrip : ∀ dst : Nat, dst < 3 → ∀ neg : Bool,
    (dstValue (tzText neg 5 0 dst)).bind (fun v => .ok (decodeDst v)) =
      .ok (if dst = 0 then "" else if dst = 1 then "+1" else "+2") := by decide

/-- decoding a time-zone octet is total (it takes any octet) -/
example : decodeLocalTimeZone 0x8a = "-07:00" := by decide

/-! ## universal time: each two-digit field (year mod 100, month, day, hour, minute, second) round-trips -/

theorem field_roundtrip : ∀ x, x < 100 → decField (encField x) = x := by decide

/-! ## network name -/

/-- spare-bit count and Len of the IE, for every name length -/
theorem name_header (name : List UInt8) :
    (packGsm7Bit name).2 = (8 - (7 * name.length) % 8) % 8 ∧ (packGsm7Bit name).2 < 8 := by
  simp [packGsm7Bit]; omega

/-- every name of 7-bit characters, of any length, unpacks (by the TS 23.038 rule) to itself, and occupies ⌈7n/8⌉ octets -/
theorem name_roundtrip (name : List UInt8) (h : ∀ c ∈ name, c < 128) :
    unpackGsm7 (packGsm7Bit name).1 name.length = name ∧ (packGsm7Bit name).1.length = (7 * name.length + 7) / 8 := by
  have hcs : ∀ c ∈ name, c.toNat < 128 := fun c hc => by have := h c hc; exact UInt8.lt_iff_toNat_lt.mp this
  have h0 : PInv 0 [] := by simp [PInv, leValue]
  obtain ⟨⟨_, hlen⟩, hval⟩ := packLoop_spec name 0 [] hcs h0
  simp only [Nat.zero_add, leValue, Nat.mul_zero, Nat.pow_zero, Nat.one_mul] at hlen hval
  refine ⟨?_, by simpa [packGsm7Bit] using hlen⟩
  apply List.ext_getElem
  · simp [unpackGsm7]
  · intro k hk1 hk2
    simp only [unpackGsm7, packGsm7Bit, List.getElem_map, List.getElem_range, hval]
    rw [digit_extract name hcs k hk2]
    simp

def ascii (s : String) : List UInt8 := s.toList.map (fun c => UInt8.ofNat c.toNat)

set_option maxRecDepth 1000000 in
/-- instances (tests, kept as non-vacuity examples for `name_roundtrip`): every 1-character name, and instances of length 7, 8, 9, 10 and 16
(the lengths at which the pre-fix code went wrong) -/
theorem name_roundtrip_examples :
    (∀ a, a < 128 → unpackGsm7 (packGsm7Bit [UInt8.ofNat a]).1 1 = [UInt8.ofNat a]) ∧
    (∀ n ∈ ["free5GC", "abcdefgh", "abcdefghi", "abcdefghij", "abcdefghijklmnop"],
      unpackGsm7 (packGsm7Bit (ascii n)).1 n.length = ascii n ∧ (packGsm7Bit (ascii n)).1.length = (7 * n.length + 7) / 8) := by
  decide

end NasVerif.Props.C17
