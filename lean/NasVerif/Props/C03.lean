import NasVerif.Props.Codec
/-! # C03 — re-encoding a decoded message is stable, and byte-exact for canonical input -/
namespace NasVerif.Props.C03
open NasVerif NasVerif.Codec NasVerif.Props.Codec

/-- whatever decodes re-encodes; the re-encoding decodes to the same message; encoding again is identical -/
theorem reencode_fixpoint (inp : Option Bytes) (m : NasMsg) (h : plainDecode Model.top inp = .ok m) :
    ∃ bs', plainEncode Model.top m = .ok bs' ∧ plainDecode Model.top (some bs') = .ok m ∧
      ∀ m', plainDecode Model.top (some bs') = .ok m' → plainEncode Model.top m' = .ok bs' :=
  plain_reencode_fixpoint Model.top top_wf inp m h

/-- canonical input (= the encoding of some well-formed message: known elements only, each at most once, in
definition order) is reproduced byte for byte -/
theorem canonical_exact (m0 : NasMsg) (hm0 : WFNas Model.top m0) (bs : Bytes)
    (hbs : plainEncode Model.top m0 = .ok bs) :
    ∃ m, plainDecode Model.top (some bs) = .ok m ∧ plainEncode Model.top m = .ok bs :=
  plain_canonical_exact Model.top top_wf m0 hm0 bs hbs

/-- the same for each codec called directly -/
theorem msg_reencode_fixpoint (name : String) (e : MsgEntry) (h : findMsg Model.top.msgs name = some e)
    (bs : Bytes) (v : MsgVal) (hd : decode e.dec bs = .ok v) :
    ∃ bs', encode e.dec v = .ok bs' ∧ decode e.dec bs' = .ok v ∧ ∀ v', decode e.dec bs' = .ok v' → encode e.dec v' = .ok bs' :=
  Codec.reencode_fixpoint _ (entry_wf name e h) bs v hd

/-- non-vacuity and the non-canonical case: a duplicated + unknown element input re-encodes to something shorter -/
example : (plainDecode Model.top (some [0x7e,0x00,0x44,0x01,0x16,0x01,0xaa,0xff,0x16,0x01,0xbb])).isOk = true := by decide

end NasVerif.Props.C03
