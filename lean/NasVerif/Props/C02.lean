import NasVerif.Props.Codec
/-! # C02 — encoding then decoding a well-formed message returns the same message -/
namespace NasVerif.Props.C02
open NasVerif NasVerif.Codec NasVerif.Props.Codec

/-- through `PlainNasEncode` / `PlainNasDecode`, for all 44 dispatchable types -/
theorem plain_roundtrip (m : NasMsg) (hm : WFNas Model.top m) :
    ∃ bs, plainEncode Model.top m = .ok bs ∧ plainDecode Model.top (some bs) = .ok m :=
  Codec.plain_roundtrip Model.top top_wf m hm

/-- through `Encode<Msg>` / `Decode<Msg>` directly, for all 45 tables (incl. the security-protected envelope) -/
theorem msg_roundtrip (name : String) (e : MsgEntry) (h : findMsg Model.top.msgs name = some e)
    (v : MsgVal) (hv : WFVal e.dec v) : ∃ bs, encode e.dec v = .ok bs ∧ decode e.dec bs = .ok v :=
  roundtrip _ (entry_wf name e h) v hv

/-- the envelope is one of the tables -/
example : ∃ e, findMsg Model.top.msgs "SecurityProtected5GSNASMessage" = some e := ⟨_, rfl⟩

/-- non-vacuity: a concrete well-formed Registration Reject with one optional element -/
example : WFVal Gen.dec_RegistrationReject
    ⟨[⟨0,0,[0x7e]⟩, ⟨0,0,[0x00]⟩, ⟨0,0,[0x44]⟩, ⟨0,0,[0x01]⟩], [none, some ⟨0x16, 1, [0xaa]⟩, none]⟩ := by
  simp [WFVal, WFMan, WFSlots, OptValOK, ValOK, Gen.dec_RegistrationReject, Guard.ok, lenLimit]

end NasVerif.Props.C02
