import NasVerif.Model.Qos
/-!
# Model of the uePolicyContainer package (C18)

UePolicyContainer.go (delivery-service message dispatch), _ManageUEPolicyCommand/Complete/Reject.go,
_UEPolicySectionManagementList/SubList.go, _Instruction.go, _UEPolicyParts.go, _UEPolicySectionManagementResult/SubResult.go,
_Result.go. `bytes.Buffer` / `binary.Read` are modelled as list consumption (`readU8`, `readU16` of `Model/Qos.lean`,
`readBytes` below) with `io.EOF` (`Err.empty`) distinguished from `io.ErrUnexpectedEOF` (`Err.trunc`): every list walker
of the package treats an `io.EOF` from anywhere inside its element parser as the regular end of the list.
Lengths are `uint16`, and `Len-1` / `Len-3` are computed in `uint16` (they wrap). Loops carry fuel; exhaustion is `panic`.
-/
namespace NasVerif.Model.UePolicy
open NasVerif NasVerif.Model.Qos

/-- `binary.Read(buf, order, slice)` for a byte slice of length `k`: nothing to read is success; an empty buffer is
`io.EOF`; a short buffer is `io.ErrUnexpectedEOF` -/
def readBytes (k : Nat) (buf : Bytes) : Outcome (Bytes × Bytes) :=
  if k = 0 then .ok ([], buf)
  else if buf.length = 0 then .err .empty
  else if buf.length < k then .err .trunc
  else .ok (buf.take k, buf.drop k)

/-! ## UE policy parts, instructions, sublists (TS 24.501 D.6.2) -/

structure Part where
  len : UInt16
  typ : UInt8
  content : Bytes
deriving DecidableEq, Repr

structure Instr where
  len : UInt16
  upsc : UInt16
  parts : List Part
deriving DecidableEq, Repr

structure SubList where
  len : UInt16
  p1 : UInt8
  p2 : UInt8
  p3 : UInt8
  mcc : Nat
  mnc : Nat
  instrs : List Instr
deriving DecidableEq, Repr

/-- `parseUEPolicyPart` -/
def parsePart (buf : Bytes) : Outcome (Part × Bytes) := do
  let (len, r1) ← readU16 buf
  let (typ, r2) ← readU8 r1
  let (content, r3) ← readBytes (len - 1).toNat r2
  pure (⟨len, typ, content⟩, r3)

/-- the loop of `UEPolicySectionContents.UnmarshalBinary` -/
def partsLoop : Nat → Bytes → List Part → Outcome (List Part)
  | 0, _, _ => .panic
  | fuel + 1, buf, acc =>
    match parsePart buf with
    | .ok (p, rest) => partsLoop fuel rest (acc ++ [p])
    | .err .empty => pure acc
    | .err e => .err e
    | .panic => .panic

/-- `parseInstruction` (after fix e44fcec) -/
def parseInstr (buf : Bytes) : Outcome (Instr × Bytes) := do
  let (len, r1) ← readU16 buf
  let (upsc, r2) ← readU16 r1
  if len < 2 then .err .badLen
  else do
    let body := r2.take (len.toNat - 2)
    let parts ← partsLoop (body.length + 1) body []
    pure (⟨len, upsc, parts⟩, r2.drop (len.toNat - 2))

/-- the loop of `UEPolicySectionManagementSubListContents.UnmarshalBinary` -/
def instrLoop : Nat → Bytes → List Instr → Outcome (List Instr)
  | 0, _, _ => .panic
  | fuel + 1, buf, acc =>
    match parseInstr buf with
    | .ok (i, rest) => instrLoop fuel rest (acc ++ [i])
    | .err .empty => pure acc
    | .err e => .err e
    | .panic => .panic

/-- the PLMN digit checks and the MCC / MNC numbers of `parseUEPlcSublist` / `parseUEPlcSubResult`
(TS 24.008 10.5.1.13: digit 1 is the most significant decimal digit) -/
def plmnNumbers (p1 p2 p3 : UInt8) : Option (Nat × Nat) :=
  let mcc1 := (p1 &&& 0x0f).toNat
  let mcc2 := ((p1 &&& 0xf0) >>> 4).toNat
  let mcc3 := (p2 &&& 0x0f).toNat
  let mnc3 := ((p2 &&& 0xf0) >>> 4).toNat
  let mnc1 := (p3 &&& 0x0f).toNat
  let mnc2 := ((p3 &&& 0xf0) >>> 4).toNat
  if mcc1 > 9 ∨ mcc2 > 9 ∨ mcc3 > 9 ∨ (mnc3 > 9 ∧ mnc3 ≠ 15) ∨ mnc1 > 9 ∨ mnc2 > 9 then none
  else some (mcc1 * 100 + mcc2 * 10 + mcc3, if mnc3 = 15 then mnc1 * 10 + mnc2 else mnc1 * 100 + mnc2 * 10 + mnc3)

/-- the shared head of `parseUEPlcSublist` / `parseUEPlcSubResult`: length, three PLMN octets with their checks
(the checks are interleaved with the reads; an `io.EOF` on a later octet wins over nothing, an invalid digit is reported as
soon as its octet was read), then the contents as `buf.Next(int(Len-3))` with `Len-3` computed in `uint16` -/
def parseSubHead (buf : Bytes) : Outcome (UInt16 × UInt8 × UInt8 × UInt8 × Nat × Nat × Bytes × Bytes) := do
  let (len, r1) ← readU16 buf
  let (p1, r2) ← readU8 r1
  if (p1 &&& 0x0f) > 9 ∨ ((p1 &&& 0xf0) >>> 4) > 9 then .err .other
  else do
    let (p2, r3) ← readU8 r2
    if (p2 &&& 0x0f) > 9 ∨ (((p2 &&& 0xf0) >>> 4) > 9 ∧ ((p2 &&& 0xf0) >>> 4) ≠ 15) then .err .other
    else do
      let (p3, r4) ← readU8 r3
      match plmnNumbers p1 p2 p3 with
      | none => .err .other
      | some (mcc, mnc) =>
        let n := (len - 3).toNat
        pure (len, p1, p2, p3, mcc, mnc, r4.take n, r4.drop n)

/-- `parseUEPlcSublist` -/
def parseSubList (buf : Bytes) : Outcome (SubList × Bytes) := do
  let (len, p1, p2, p3, mcc, mnc, body, rest) ← parseSubHead buf
  let instrs ← instrLoop (body.length + 1) body []
  pure (⟨len, p1, p2, p3, mcc, mnc, instrs⟩, rest)

/-- the loop of `UEPolicySectionManagementListContent.UnmarshalBinary` -/
def subListLoop : Nat → Bytes → List SubList → Outcome (List SubList)
  | 0, _, _ => .panic
  | fuel + 1, buf, acc =>
    match parseSubList buf with
    | .ok (s, rest) => subListLoop fuel rest (acc ++ [s])
    | .err .empty => pure acc
    | .err e => .err e
    | .panic => .panic

def unmarshalList (b : Bytes) : Outcome (List SubList) := subListLoop (b.length + 1) b []

/-- `UEPolicyPart.MarshalBinary`: `Len` is computed from the contents only when it is 0 -/
def marshalPart (p : Part) : Bytes :=
  let len := if p.len = 0 then UInt16.ofNat (1 + p.content.length) else p.len
  be16 len ++ p.typ :: p.content

/-- `Instruction.MarshalBinary`: `Len` recomputed -/
def marshalInstr (i : Instr) : Bytes :=
  let body := i.parts.flatMap marshalPart
  be16 (UInt16.ofNat (body.length + 2)) ++ be16 i.upsc ++ body

/-- `UEPolicySectionManagementSubList.MarshalBinary`: `Len` recomputed -/
def marshalSubList (s : SubList) : Bytes :=
  let body := s.instrs.flatMap marshalInstr
  be16 (UInt16.ofNat (1 + 1 + 1 + body.length)) ++ s.p1 :: s.p2 :: s.p3 :: body

def marshalList (l : List SubList) : Bytes := l.flatMap marshalSubList

/-- `SetPlmnDigit(mcc, mnc)` of the sublist and of the sub-result: the three PLMN octets, or an error for values outside
the accepted range (the Go guard reads `mcc < 99 || mcc > 999`, `mnc < 9 || mcc > 999`) -/
def setPlmnDigit (mcc mnc : Nat) : Outcome (UInt8 × UInt8 × UInt8) :=
  if mcc < 99 ∨ mcc > 999 then .err .other
  else if mnc < 9 then .err .other
  else
    let d1 := UInt8.ofNat (mcc / 100)
    let d2 := UInt8.ofNat ((mcc % 100) / 10)
    let d3 := UInt8.ofNat (mcc % 10)
    if mnc < 100 then
      pure ((d2 <<< 4) ||| d1, 0xf0 ||| d3, (UInt8.ofNat (mnc % 10) <<< 4) ||| UInt8.ofNat (mnc / 10))
    else
      pure ((d2 <<< 4) ||| d1, (UInt8.ofNat (mnc % 10) <<< 4) ||| d3, (UInt8.ofNat ((mnc % 100) / 10) <<< 4) ||| UInt8.ofNat (mnc / 100))

/-! ## results (D.6.3) -/

structure Res where
  upsc : UInt16
  order : UInt16
  cause : UInt8
deriving DecidableEq, Repr

structure SubResult where
  len : UInt16
  p1 : UInt8
  p2 : UInt8
  p3 : UInt8
  mcc : Nat
  mnc : Nat
  results : List Res
deriving DecidableEq, Repr

/-- `parseResult`: the cause is forced to 0110 1111 -/
def parseRes (buf : Bytes) : Outcome (Res × Bytes) := do
  let (upsc, r1) ← readU16 buf
  let (order, r2) ← readU16 r1
  let (_, r3) ← readU8 r2
  pure (⟨upsc, order, 0x6f⟩, r3)

def resLoop : Nat → Bytes → List Res → Outcome (List Res)
  | 0, _, _ => .panic
  | fuel + 1, buf, acc =>
    match parseRes buf with
    | .ok (r, rest) => resLoop fuel rest (acc ++ [r])
    | .err .empty => pure acc
    | .err e => .err e
    | .panic => .panic

/-- `parseUEPlcSubResult` -/
def parseSubResult (buf : Bytes) : Outcome (SubResult × Bytes) := do
  let (len, p1, p2, p3, mcc, mnc, body, rest) ← parseSubHead buf
  let rs ← resLoop (body.length + 1) body []
  pure (⟨len, p1, p2, p3, mcc, mnc, rs⟩, rest)

def subResultLoop : Nat → Bytes → List SubResult → Outcome (List SubResult)
  | 0, _, _ => .panic
  | fuel + 1, buf, acc =>
    match parseSubResult buf with
    | .ok (s, rest) => subResultLoop fuel rest (acc ++ [s])
    | .err .empty => pure acc
    | .err e => .err e
    | .panic => .panic

def unmarshalResult (b : Bytes) : Outcome (List SubResult) := subResultLoop (b.length + 1) b []

def marshalRes (r : Res) : Bytes := be16 r.upsc ++ be16 r.order ++ [0x6f]

def marshalSubResult (s : SubResult) : Bytes :=
  let body := s.results.flatMap marshalRes
  be16 (UInt16.ofNat (1 + 1 + 1 + body.length)) ++ s.p1 :: s.p2 :: s.p3 :: body

def marshalResult (l : List SubResult) : Bytes := l.flatMap marshalSubResult

/-! ## delivery-service messages (D.5) -/

structure Classmark where
  iei : UInt8
  len : UInt8
  nssui : UInt8
  spare : UInt8
deriving DecidableEq, Repr

inductive Msg
  | command (pti typ iei : UInt8) (len : UInt16) (buf : Bytes) (cm : Option Classmark)
  | complete (pti typ : UInt8)
  | reject (pti typ iei : UInt8) (len : UInt16) (buf : Bytes)
  | other                      -- message types 4..6: nothing is decoded yet
deriving DecidableEq, Repr

/-- an IE `Iei, Len (2 octets), Buffer[:Len]` as read by the command / reject decoders -/
def readIe (buf : Bytes) : Outcome (UInt8 × UInt16 × Bytes × Bytes) := do
  let (iei, r1) ← readU8 buf
  let (len, r2) ← readU16 r1
  let (b, r3) ← readBytes len.toNat r2
  pure (iei, len, b, r3)

/-- `UePolDeliverySerDecode`: (header octets, message) -/
def decodeMsg (b : Bytes) : Outcome (UInt8 × UInt8 × Msg) :=
  match b with
  | [] | [_] => .err .trunc
  | h0 :: h1 :: _ =>
    if h1 = 1 then do
      let (pti, r1) ← readU8 b
      let (typ, r2) ← readU8 r1
      let (iei, len, buf, r3) ← readIe r2
      if r3.length > 0 then do
        let (ci, r4) ← readU8 r3
        let (cl, r5) ← readU8 r4
        let (cn, r6) ← readU8 r5
        let (cs, r7) ← readU8 r6
        if r7.length > 0 then .err .other
        else pure (h0, h1, .command pti typ iei len buf (some ⟨ci, cl, cn, cs⟩))
      else pure (h0, h1, .command pti typ iei len buf none)
    else if h1 = 2 then do
      let (pti, r1) ← readU8 b
      let (typ, _) ← readU8 r1
      pure (h0, h1, .complete pti typ)
    else if h1 = 3 then do
      let (pti, r1) ← readU8 b
      let (typ, r2) ← readU8 r1
      let (iei, len, buf, _) ← readIe r2
      pure (h0, h1, .reject pti typ iei len buf)
    else if h1 = 4 ∨ h1 = 5 ∨ h1 = 6 then pure (h0, h1, .other)
    else .err .unknown

/-- `UePolDeliverySerEncode` for a value whose header message type is `h1` and whose only non-nil sub-message is `m`;
a header type whose sub-message pointer is nil is a nil dereference -/
def encodeMsg (h1 : UInt8) (m : Msg) : Outcome Bytes :=
  if h1 = 1 then
    match m with
    | .command pti typ iei len buf cm =>
      pure ([pti, typ, iei] ++ be16 len ++ buf ++ (match cm with | some c => [c.iei, c.len, c.nssui, c.spare] | none => []))
    | _ => .panic
  else if h1 = 2 then
    match m with
    | .complete pti typ => pure [pti, typ]
    | _ => .panic
  else if h1 = 3 then
    match m with
    | .reject pti typ iei len buf => pure ([pti, typ, iei] ++ be16 len ++ buf)
    | _ => .panic
  else if h1 = 4 ∨ h1 = 5 ∨ h1 = 6 then pure []
  else .err .unknown

end NasVerif.Model.UePolicy
