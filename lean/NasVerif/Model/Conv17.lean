import NasVerif.Prelude.Basic
/-!
# Models of nasConvert/GPRSTimer2.go, GPRSTimer3.go, SessionAMBR.go, Time.go, NetWorkName.go (C17)

Go `int` arguments that the property takes non-negative are `Nat`; Go strings are `List Char` with checked
indexing (`s[i]`, `s[a:b]` panic out of range).
-/
namespace NasVerif.Model.Conv17
open NasVerif

/-! ## GPRS timers -/

/-- `GPRSTimer2ToNas` (seconds) -/
def gprsTimer2ToNas (v : Nat) : UInt8 :=
  if v ≤ 64 then
    if v % 2 ≠ 0 then 0 else UInt8.ofNat (v / 2)
  else
    let t := UInt8.ofNat (v / 60)
    if t ≤ 31 then (0 ||| 0x20) + t
    else if t % 6 ≠ 0 then 0
    else (0 ||| 0x40) + t / 6

/-- `GPRSTimer3ToNas` (seconds); unit codes of nasMessage.GPRSTimer3Unit* -/
def gprsTimer3ToNas (v : Nat) : UInt8 :=
  if v ≤ 2 * 31 then ((0x03 : UInt8) <<< 5) + UInt8.ofNat (v / 2)
  else if v ≤ 30 * 31 then ((0x04 : UInt8) <<< 5) + UInt8.ofNat (v / 30)
  else if v ≤ 60 * 31 then ((0x05 : UInt8) <<< 5) + UInt8.ofNat (v / 60)
  else if v ≤ 600 * 31 then ((0x00 : UInt8) <<< 5) + UInt8.ofNat (v / 600)
  else if v ≤ 3600 * 31 then ((0x01 : UInt8) <<< 5) + UInt8.ofNat (v / 3600)
  else ((0x02 : UInt8) <<< 5) + UInt8.ofNat (v / 36000)

/-! ## Session AMBR -/

def strToAMBRUnit (u : List Char) : UInt8 :=
  if u = "bps".toList then 0x00 else if u = "Kbps".toList then 0x01 else if u = "Mbps".toList then 0x06
  else if u = "Gbps".toList then 0x0B else if u = "Tbps".toList then 0x10 else if u = "Pbps".toList then 0x15 else 0x00

/-- `strconv.ParseUint(s, 10, 16)`: decimal digits only, value ≤ 65535 -/
def parseUint16 (s : List Char) : Option Nat :=
  if s = [] ∨ ¬ s.all Char.isDigit then none
  else
    let n := s.foldl (fun a c => a * 10 + (c.toNat - 48)) 0
    if n ≤ 65535 then some n else none

/-- `strings.Split(s, " ")` -/
def splitSpace : List Char → List Char → List (List Char)
  | [], cur => [cur.reverse]
  | c :: r, cur => if c = ' ' then cur.reverse :: splitSpace r [] else splitSpace r (c :: cur)

/-- one direction: (value octets, unit octet); `uplink[1]` panics when the string has no space -/
def ambrSide (s : List Char) : Outcome (UInt8 × UInt8 × UInt8) :=
  match splitSpace s [] with
  | v :: u :: _ =>
    match parseUint16 v with
    | some n => .ok (UInt8.ofNat (n / 256), UInt8.ofNat n, strToAMBRUnit u)
    | none => .ok (0, 0, strToAMBRUnit u)
  | _ => .panic

/-- `ModelsToSessionAMBR`: the six octets unit DL, DL value (2), unit UL, UL value (2) -/
def modelsToSessionAMBR (uplink downlink : List Char) : Outcome Bytes :=
  match ambrSide uplink with
  | .ok (uh, ul, uu) =>
    match ambrSide downlink with
    | .ok (dh, dl, du) => .ok [du, dh, dl, uu, uh, ul]
    | .err e => .err e
    | .panic => .panic
  | .err e => .err e
  | .panic => .panic

/-! ## time zone -/

def toBinaryCodedDecimal (v : Nat) : Nat := (v / 10) * 16 + v % 10
def toSemiOctet (v : Nat) : Nat := ((v % 16) * 16) ||| ((v / 16) % 16)

def digitVal (c : Char) : Int := (c.toNat : Int) - 0x30

/-- `parseTimeZoneToNas` (after fix 2c99eab): "±HH:MM" optionally followed by "+1" / "+2" -/
def parseTimeZoneToNas (tz : List Char) : Outcome UInt8 :=
  if tz.length < 6 then .panic           -- timezone[4:6]
  else
    let h1 : Int := if tz.getD 1 ' ' = '1' then 40 else 0
    let h2 : Int := if '0' ≤ tz.getD 2 ' ' ∧ tz.getD 2 ' ' ≤ '9' then digitVal (tz.getD 2 ' ') * 4 else 0
    let mm := (tz.drop 4).take 2
    let m : Int := if mm = ['1', '5'] then 1 else if mm = ['3', '0'] then 2 else if mm = ['4', '5'] then 3 else 0
    let t : Int := h1 + h2 + m
    let t := if tz.getD 0 ' ' = '-' then -t else t
    let suf := tz.drop (tz.length - 2)
    let t := if suf = ['+', '1'] ∨ suf = ['+', '2'] then t + digitVal (suf.getD 1 ' ') * 4 else t
    let neg := decide (t < 0)
    let a := t.natAbs
    let bcd := toBinaryCodedDecimal a
    let bcd := if neg then bcd ||| 0x80 else bcd
    .ok (UInt8.ofNat (toSemiOctet bcd))

/-- `getTimeZoneOffset` in seconds -/
def getTimeZoneOffset (tz : UInt8) : Int :=
  let octet : Nat := ((tz >>> 4) + (tz &&& 0x07) * 10).toNat
  let off : Int := (octet / 4 * 3600 + octet % 4 * 900 : Nat)
  if tz &&& (0x08 : UInt8) = (0x08 : UInt8) then -off else off

def pad2 (n : Nat) : String := (if n < 10 then "0" else "") ++ toString n

/-- `DecodeLocalTimeZone` -/
def decodeLocalTimeZone (tz : UInt8) : String :=
  let off := getTimeZoneOffset tz
  let a := off.natAbs
  (if off < 0 then "-" else "+") ++ pad2 (a / 3600) ++ ":" ++ pad2 (a % 3600 / 60)

/-- `EncodeDaylightSavingTimeToNas`: value octet -/
def dstValue (tz : List Char) : Outcome UInt8 :=
  if tz.length < 2 then .panic
  else
    let suf := tz.drop (tz.length - 2)
    .ok (if suf = ['+', '2'] then 2 else if suf = ['+', '1'] then 1 else 0)

def decodeDst (v : UInt8) : String := if v = 0 then "" else if v = 1 then "+1" else if v = 2 then "+2" else ""

/-! ## universal time: the six BCD semi-octet fields -/

def encField (x : Nat) : UInt8 := UInt8.ofNat (toSemiOctet (toBinaryCodedDecimal x))
def decField (o : UInt8) : Nat := (((o &&& (0x0f : UInt8)) * (10 : UInt8) + ((o &&& (0xf0 : UInt8)) >>> (4 : UInt8)) : UInt8)).toNat

/-! ## network name (GSM 7-bit default alphabet packing, TS 23.038 6.1.2.1.1), after fix bbeeb5d -/

def packStep (buf : Bytes) (i : Nat) (c : UInt8) : Bytes :=
  let c := c &&& 0x7f
  let shift := (7 * i) % 8
  if shift = 0 then buf ++ [c]
  else
    let buf := buf.dropLast ++ [buf.getLastD 0 ||| (c <<< UInt8.ofNat shift)]
    if shift > 1 then buf ++ [c >>> UInt8.ofNat (8 - shift)] else buf

def packLoop : Nat → List UInt8 → Bytes → Bytes
  | _, [], buf => buf
  | i, c :: cs, buf => packLoop (i+1) cs (packStep buf i c)

/-- `packGsm7Bit`: octets and number of spare bits -/
def packGsm7Bit (chars : List UInt8) : Bytes × Nat := (packLoop 0 chars [], (8 - (7 * chars.length) % 8) % 8)

/-- `FullNetworkNameToNas` / `ShortNetworkNameToNas`: Len, then the buffer (octet 0: ext=1, coding scheme 0, add CI 0,
spare-bit count; then the packed text) -/
def networkNameToNas (name : List UInt8) : Nat × Bytes :=
  let (buf, spare) := packGsm7Bit name
  ((1 + buf.length) % 256, (0x80 ||| UInt8.ofNat (spare % 8)) :: buf)

end NasVerif.Model.Conv17
