import NasVerif.Gen.CryptoTables
/-!
# Model of /repo/security/zuc/zuc.go (function by function)

LFSR cells are `uint32` holding 31-bit values; `Lfsr.state` uses the add-with-end-around-carry trick
`f = (f & 0x7FFFFFFF) + (f >> 31)`.
-/
namespace NasVerif.Model.Zuc
abbrev W32 := BitVec 32

def sbox0 (i : W32) : BitVec 8 := BitVec.ofNat 8 (NasVerif.Gen.Crypto.zuc_s0.getD i.toNat 0)
def sbox1 (i : W32) : BitVec 8 := BitVec.ofNat 8 (NasVerif.Gen.Crypto.zuc_s1.getD i.toNat 0)
def ek_d (i : Nat) : W32 := BitVec.ofNat 32 (NasVerif.Gen.Crypto.zuc_d.getD i 0)

structure State where
  s  : List W32     -- 16 cells
  r0 : W32
  r1 : W32
deriving Repr, DecidableEq

def State.c (st : State) (i : Nat) : W32 := st.s.getD i 0

def rot (a : W32) (k : Nat) : W32 := (a <<< k) ||| (a >>> (32 - k))
def l1 (x : W32) : W32 := x ^^^ rot x 2 ^^^ rot x 10 ^^^ rot x 18 ^^^ rot x 24
def l2 (x : W32) : W32 := x ^^^ rot x 8 ^^^ rot x 14 ^^^ rot x 22 ^^^ rot x 30
def makeU32 (a b c d : BitVec 8) : W32 :=
  (a.setWidth 32 <<< 24) ||| (b.setWidth 32 <<< 16) ||| (c.setWidth 32 <<< 8) ||| d.setWidth 32

/-- `f = (f & 0x7FFFFFFF) + (f >> 31)` -/
def fold31 (f : W32) : W32 := (f &&& 0x7FFFFFFF#32) + (f >>> 31)

/-- one iteration of `for i, v := range x { f += ((l.s[v] << k[i]) | (l.s[v] >> (31 - k[i]))) & 0x7FFFFFFF; f = fold }` -/
def tap (st : State) (f : W32) (v k : Nat) : W32 :=
  fold31 (f + (((st.c v <<< k) ||| (st.c v >>> (31 - k))) &&& 0x7FFFFFFF#32))

/-- `Lfsr.state(mode, u)`; `init = true` is "InitialisationMode" -/
def lfsrState (st : State) (init : Bool) (u : W32) : State :=
  let f := st.c 0
  let f := tap st f 0 8
  let f := tap st f 4 20
  let f := tap st f 10 21
  let f := tap st f 13 17
  let f := tap st f 15 15
  let f := if init then fold31 (f + u) else f
  { st with s := st.s.drop 1 ++ [f] }

def bitReorganization (st : State) : W32 × W32 × W32 × W32 :=
  ( ((st.c 15 &&& 0x7FFF8000#32) <<< 1) ||| (st.c 14 &&& 0xFFFF#32),
    ((st.c 11 &&& 0xFFFF#32) <<< 16) ||| (st.c 9 >>> 15),
    ((st.c 7 &&& 0xFFFF#32) <<< 16) ||| (st.c 5 >>> 15),
    ((st.c 2 &&& 0xFFFF#32) <<< 16) ||| (st.c 0 >>> 15) )

def nonlinF (st : State) (x0 x1 x2 : W32) : State × W32 :=
  let w := (x0 ^^^ st.r0) + st.r1
  let w1 := st.r0 + x1
  let w2 := st.r1 ^^^ x2
  let u := l1 ((w1 <<< 16) ||| (w2 >>> 16))
  let v := l2 ((w2 <<< 16) ||| (w1 >>> 16))
  ({ st with
      r0 := makeU32 (sbox0 (u >>> 24)) (sbox1 ((u >>> 16) &&& 0xFF#32)) (sbox0 ((u >>> 8) &&& 0xFF#32)) (sbox1 (u &&& 0xFF#32)),
      r1 := makeU32 (sbox0 (v >>> 24)) (sbox1 ((v >>> 16) &&& 0xFF#32)) (sbox0 ((v >>> 8) &&& 0xFF#32)) (sbox1 (v &&& 0xFF#32)) }, w)

def initLoop : Nat → State → State
  | 0, st => st
  | n+1, st =>
    let (x0, x1, x2, _) := bitReorganization st
    let (st', w) := nonlinF st x0 x1 x2
    initLoop n (lfsrState st' true (w >>> 1))

/-- key loading + 32 initialisation rounds; `k`, `iv` are the 16 key / IV octets (indexing beyond 16 would panic in Go) -/
def initialization (k iv : List (BitVec 8)) : State :=
  initLoop 32
    { s := (List.range 16).map (fun i => ((k.getD i 0).setWidth 32 <<< 23) ||| (ek_d i <<< 8) ||| (iv.getD i 0).setWidth 32),
      r0 := 0, r1 := 0 }

def ksLoop : Nat → State → List W32
  | 0, _ => []
  | n+1, st =>
    let (x0, x1, x2, x3) := bitReorganization st
    let (st', w) := nonlinF st x0 x1 x2
    (w ^^^ x3) :: ksLoop n (lfsrState st' false 0)

def generateKeystream (wlength : Nat) (st : State) : List W32 :=
  let (x0, x1, x2, _) := bitReorganization st
  let (st', _) := nonlinF st x0 x1 x2
  ksLoop wlength (lfsrState st' false 0)

def Zuc (k iv : List (BitVec 8)) (wlength : Nat) : List W32 := generateKeystream wlength (initialization k iv)

theorem ksLoop_length (n : Nat) (s : State) : (ksLoop n s).length = n := by
  induction n generalizing s with
  | zero => rfl
  | succ n ih => simp [ksLoop, ih]

theorem ksLoop_prefix (n m : Nat) (s : State) : (ksLoop (n + m) s).take n = ksLoop n s := by
  induction n generalizing s with
  | zero => simp [ksLoop]
  | succ n ih => simp only [Nat.succ_add, ksLoop, List.take_succ_cons, ih]

theorem Zuc_length (k iv : List (BitVec 8)) (n : Nat) : (Zuc k iv n).length = n := by
  simp [Zuc, generateKeystream, ksLoop_length]

theorem Zuc_prefix (k iv : List (BitVec 8)) (n m : Nat) : (Zuc k iv (n + m)).take n = Zuc k iv n := by
  simp [Zuc, generateKeystream, ksLoop_prefix]

end NasVerif.Model.Zuc
