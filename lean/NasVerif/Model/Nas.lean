import NasVerif.Codec.Dispatch
import NasVerif.Gen.Tables
/-! The model of `nas.Message` decode/encode instantiated with the tables regenerated from /repo. -/
namespace NasVerif.Model
open NasVerif NasVerif.Codec

def top : Top := ⟨Gen.messages, Gen.dispatch_gmm, Gen.dispatch_gsm, Gen.epdGmm, Gen.epdGsm⟩

end NasVerif.Model
