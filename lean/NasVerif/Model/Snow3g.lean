import NasVerif.Gen.CryptoTables
/-!
# Model of /repo/security/snow3g/snow3g.go (function by function)

State = the struct `snow3g{lfsr [16]uint32; fsm [3]uint32}` as a value; methods return the new state. The S-box
tables are the ones regenerated from the source (`Gen.Crypto.snow_sr`, `snow_sq`).
-/
namespace NasVerif.Model.Snow3g
abbrev W8 := BitVec 8
abbrev W32 := BitVec 32

/-- `sr[i]` / `sq[i]` for an index that the Go code keeps below 256 (`& 0xff`) -/
def sr (i : W32) : W8 := BitVec.ofNat 8 (NasVerif.Gen.Crypto.snow_sr.getD i.toNat 0)
def sq (i : W32) : W8 := BitVec.ofNat 8 (NasVerif.Gen.Crypto.snow_sq.getD i.toNat 0)

def mulx (V c : W8) : W8 := if V &&& 0x80#8 != 0#8 then (V <<< 1) ^^^ c else V <<< 1

/-- recursion on `i` (a byte in Go) as structural recursion on its value -/
def mulxPow (V : W8) : Nat → W8 → W8
  | 0, _ => V
  | i+1, c => mulx (mulxPow V i c) c

def u32 (b : W8) : W32 := b.setWidth 32

def s1 (w : W32) : W32 :=
  let w0 := (w >>> 24) &&& 0xff#32
  let w1 := (w >>> 16) &&& 0xff#32
  let w2 := (w >>> 8) &&& 0xff#32
  let w3 := w &&& 0xff#32
  let r0 := u32 (mulx (sr w0) 0x1b#8 ^^^ sr w1 ^^^ sr w2 ^^^ mulx (sr w3) 0x1b#8 ^^^ sr w3)
  let r1 := u32 (mulx (sr w0) 0x1b#8 ^^^ sr w0 ^^^ mulx (sr w1) 0x1b#8 ^^^ sr w2 ^^^ sr w3)
  let r2 := u32 (sr w0 ^^^ mulx (sr w1) 0x1b#8 ^^^ sr w1 ^^^ mulx (sr w2) 0x1b#8 ^^^ sr w3)
  let r3 := u32 (sr w0 ^^^ sr w1 ^^^ mulx (sr w2) 0x1b#8 ^^^ sr w2 ^^^ mulx (sr w3) 0x1b#8)
  (r0 <<< 24) ||| (r1 <<< 16) ||| (r2 <<< 8) ||| r3

def s2 (w : W32) : W32 :=
  let w0 := (w >>> 24) &&& 0xff#32
  let w1 := (w >>> 16) &&& 0xff#32
  let w2 := (w >>> 8) &&& 0xff#32
  let w3 := w &&& 0xff#32
  let r0 := u32 (mulx (sq w0) 0x69#8 ^^^ sq w1 ^^^ sq w2 ^^^ mulx (sq w3) 0x69#8 ^^^ sq w3)
  let r1 := u32 (mulx (sq w0) 0x69#8 ^^^ sq w0 ^^^ mulx (sq w1) 0x69#8 ^^^ sq w2 ^^^ sq w3)
  let r2 := u32 (sq w0 ^^^ mulx (sq w1) 0x69#8 ^^^ sq w1 ^^^ mulx (sq w2) 0x69#8 ^^^ sq w3)
  let r3 := u32 (sq w0 ^^^ sq w1 ^^^ mulx (sq w2) 0x69#8 ^^^ sq w2 ^^^ mulx (sq w3) 0x69#8)
  (r0 <<< 24) ||| (r1 <<< 16) ||| (r2 <<< 8) ||| r3

def mulAlpha (c : W8) : W32 :=
  (u32 (mulxPow c 23 0xa9#8) <<< 24) ||| (u32 (mulxPow c 245 0xa9#8) <<< 16) |||
  (u32 (mulxPow c 48 0xa9#8) <<< 8) ||| u32 (mulxPow c 239 0xa9#8)

def divAlpha (c : W8) : W32 :=
  (u32 (mulxPow c 16 0xa9#8) <<< 24) ||| (u32 (mulxPow c 39 0xa9#8) <<< 16) |||
  (u32 (mulxPow c 6 0xa9#8) <<< 8) ||| u32 (mulxPow c 64 0xa9#8)

structure State where
  lfsr : List W32      -- 16 words
  fsm0 : W32
  fsm1 : W32
  fsm2 : W32
deriving Repr, DecidableEq

def State.l (s : State) (i : Nat) : W32 := s.lfsr.getD i 0

/-- `for i := 0; i < 15; i++ { s.lfsr[i] = s.lfsr[i+1] }; s.lfsr[15] = v` -/
def shiftIn (l : List W32) (v : W32) : List W32 := l.drop 1 ++ [v]

def feedback (s : State) : W32 :=
  (s.l 0 <<< 8) ^^^ mulAlpha ((s.l 0 >>> 24).setWidth 8 &&& 0xff#8) ^^^ s.l 2 ^^^ (s.l 11 >>> 8) ^^^
    divAlpha ((s.l 11 &&& 0xff#32).setWidth 8)

def lfsrInitializationMode (s : State) (F : W32) : State := { s with lfsr := shiftIn s.lfsr (feedback s ^^^ F) }
def lfsrKeystreamMode (s : State) : State := { s with lfsr := shiftIn s.lfsr (feedback s) }

def clockFsm (s : State) (s15 s5 : W32) : State × W32 :=
  let F := (s15 + s.fsm0) ^^^ s.fsm1
  let r := s.fsm1 + (s.fsm2 ^^^ s5)
  ({ s with fsm2 := s2 s.fsm1, fsm1 := s1 s.fsm0, fsm0 := r }, F)

def initLoop : Nat → State → State
  | 0, s => s
  | n+1, s =>
    let (s', F) := clockFsm s (s.l 15) (s.l 5)
    initLoop n (lfsrInitializationMode s' F)

/-- `k`, `iv` are `[4]uint32` -/
def newSnow3g (k iv : List W32) : State :=
  let K i := k.getD i 0
  let IV i := iv.getD i 0
  let f : W32 := 0xffffffff#32
  initLoop 32
    { lfsr := [K 0 ^^^ f, K 1 ^^^ f, K 2 ^^^ f, K 3 ^^^ f, K 0, K 1, K 2, K 3,
               K 0 ^^^ f, K 1 ^^^ f ^^^ IV 3, K 2 ^^^ f ^^^ IV 2, K 3 ^^^ f,
               K 0 ^^^ IV 1, K 1, K 2, K 3 ^^^ IV 0],
      fsm0 := 0, fsm1 := 0, fsm2 := 0 }

def ksLoop : Nat → State → List W32
  | 0, _ => []
  | n+1, s =>
    let (s', F) := clockFsm s (s.l 15) (s.l 5)
    (F ^^^ s'.l 0) :: ksLoop n (lfsrKeystreamMode s')

def generateKeystream (s : State) (n : Nat) : List W32 :=
  let (s', _) := clockFsm s (s.l 15) (s.l 5)
  ksLoop n (lfsrKeystreamMode s')

/-- `GetKeyStream(k, iv, n)`; `make([]uint32, n)` panics for negative `n` — callers pass non-negative values -/
def GetKeyStream (k iv : List W32) (n : Nat) : List W32 := generateKeystream (newSnow3g k iv) n

theorem ksLoop_length (n : Nat) (s : State) : (ksLoop n s).length = n := by
  induction n generalizing s with
  | zero => rfl
  | succ n ih => simp [ksLoop, ih]

theorem ksLoop_prefix (n m : Nat) (s : State) : (ksLoop (n + m) s).take n = ksLoop n s := by
  induction n generalizing s with
  | zero => simp [ksLoop]
  | succ n ih => simp only [Nat.succ_add, ksLoop, List.take_succ_cons, ih]

theorem GetKeyStream_length (k iv : List W32) (n : Nat) : (GetKeyStream k iv n).length = n := by
  simp [GetKeyStream, generateKeystream, ksLoop_length]

theorem GetKeyStream_prefix (k iv : List W32) (n m : Nat) :
    (GetKeyStream k iv (n + m)).take n = GetKeyStream k iv n := by
  simp [GetKeyStream, generateKeystream, ksLoop_prefix]

end NasVerif.Model.Snow3g
