/-!
# Model of /repo/uePolicyContainer/UPSC_Generator.go (IDGenerator)

`usedMap` is the list of live offsets (keys of the Go map); ids are `offset + minValue`. The scan loops of `Allocate` /
`Allocate_inRange` run with fuel = range size; `scan_fuel` shows the result does not depend on the fuel once it covers
the remaining cycle (the Go loop has no fuel: it stops because the offset returns to `offsetBegin`).
Arguments of `Allocate_inRange` are non-negative here (a negative argument makes Go's `%` negative; outside the property).
-/
namespace NasVerif.Model.IdGen

structure Gen where
  minV   : Int
  R      : Nat          -- valueRange = maxValue - minValue + 1
  offset : Nat
  used   : List Nat
deriving DecidableEq, Repr

def newGen (minV maxV : Int) : Gen := ⟨minV, (maxV - minV + 1).toNat, 0, []⟩

def Gen.maxV (g : Gen) : Int := g.minV + (g.R : Int) - 1

/-- the `for { if used { updateOffset; if offset == offsetBegin [|| offset == max] { return error } } else break }` loop -/
def scan (R : Nat) (used : List Nat) (stop : Nat → Bool) : Nat → Nat → Option Nat
  | 0, _ => none
  | f+1, off =>
    if off ∈ used then
      let off' := (off + 1) % R
      if stop off' then none else scan R used stop f off'
    else some off

def take (g : Gen) (off : Nat) : Gen × Int :=
  ({ g with used := off :: g.used, offset := (off + 1) % g.R }, (off : Int) + g.minV)

/-- `Allocate()`; on failure the Go code has advanced `offset` all the way round, i.e. back to `offsetBegin` -/
def alloc (g : Gen) : Gen × Option Int :=
  match scan g.R g.used (· == g.offset) g.R g.offset with
  | some off => let (g', id) := take g off; (g', some id)
  | none => (g, none)

/-- offset at which the failed range scan stopped (needed because `Allocate_inRange` leaves `offset` modified) -/
def scanStop (R : Nat) (used : List Nat) (stop : Nat → Bool) : Nat → Nat → Nat
  | 0, off => off
  | f+1, off =>
    if off ∈ used then
      let off' := (off + 1) % R
      if stop off' then off' else scanStop R used stop f off'
    else off

/-- `Allocate_inRange(min, max)` -/
def allocIn (g : Gen) (mn mx : Nat) : Gen × Option Int :=
  let start := mn % g.R
  let stop := fun o => o == g.offset || o == mx
  match scan g.R g.used stop g.R start with
  | some off => let (g', id) := take g off; (g', some id)
  | none => ({ g with offset := scanStop g.R g.used stop g.R start }, none)

/-- `FreeID(id)` -/
def free (g : Gen) (id : Int) : Gen :=
  if id < g.minV ∨ id > g.maxV then g else { g with used := g.used.erase (id - g.minV).toNat }

def live (g : Gen) : List Int := g.used.map (fun (o : Nat) => (o : Int) + g.minV)

inductive Op
  | alloc
  | allocIn (mn mx : Nat)
  | free (id : Int)
deriving DecidableEq, Repr

def step (g : Gen) : Op → Gen × Option Int
  | .alloc => alloc g
  | .allocIn mn mx => allocIn g mn mx
  | .free id => (free g id, none)

end NasVerif.Model.IdGen
