import NasVerif.Prelude.Basic
import NasVerif.Model.Snow3g
import NasVerif.Model.Zuc
import NasVerif.Spec.AES
/-!
# Model of /repo/security/security.go (function by function, including index panics)

`[]byte` = `List UInt8`; `uint32`/`uint64` values that only ever hold lengths and indices are `Nat`
(the Go code's `length+31` wraps for `length > 2^32-32`; theorems state `length + 31 < 2^32`).
AES is the parameter `E : key → block → block` (`crypto/aes` + `cipher.NewCTR` + `github.com/aead/cmac` are modelled by
`Spec.AES.ctr` / `Spec.AES.cmac` over `E`).
-/
namespace NasVerif.Model.Security
open NasVerif
abbrev W32 := BitVec 32
abbrev W64 := BitVec 64

/-! ## helpers -/

def be32 (b : Bytes) (off : Nat) : W32 :=
  BitVec.ofNat 32 ((b.getD off 0).toNat * 2^24 + (b.getD (off+1) 0).toNat * 2^16 + (b.getD (off+2) 0).toNat * 2^8 + (b.getD (off+3) 0).toNat)

def put32 (w : W32) : Bytes :=
  [UInt8.ofNat (w.toNat / 2^24), UInt8.ofNat (w.toNat / 2^16), UInt8.ofNat (w.toNat / 2^8), UInt8.ofNat w.toNat]

/-- `byte((w >> (8*(3-j))) & 0xff)` -/
def ksByte (w : W32) (j : Nat) : UInt8 := UInt8.ofNat ((w >>> (8 * (3 - j))).toNat % 256)

/-- `for i := lo; i < hi; i++ { st = f i st }` with early exit on panic/error -/
def forRange {α} : (n : Nat) → (i : Nat) → (Nat → α → Outcome α) → α → Outcome α
  | 0, _, _, a => .ok a
  | n+1, i, f, a =>
    match f i a with
    | .ok a' => forRange n (i+1) f a'
    | .err e => .err e
    | .panic => .panic

/-- `obs[idx] = ibs[idx] ^ kb` with Go's bounds checks (`obs` and `ibs` have the same length) -/
def xorAt (ibs : Bytes) (idx : Nat) (kb : UInt8) (obs : Bytes) : Outcome Bytes :=
  if idx < ibs.length ∧ idx < obs.length then .ok (obs.set idx (ibs.getD idx 0 ^^^ kb)) else .panic

def keyWords (ck : Bytes) : List W32 := (List.range 4).map (fun i => be32 ck (4 * (3 - i)))

/-! ## NEA1 (128-EEA1, SNOW 3G) -/

def NEA1 (ck : Bytes) (countC bearer direction : W32) (ibs : Bytes) (length : Nat) : Outcome Bytes :=
  let k := keyWords ck
  let w0 := (bearer <<< 27) ||| (direction <<< 26)
  let iv := [w0, countC, w0, countC]
  let l := (length + 31) / 32
  let r := length % 32
  let ks := Snow3g.GetKeyStream k iv l
  let ks := if r ≠ 0 then ks.set (l - 1) (ks.getD (l - 1) 0 &&& ~~~ ((1#32 <<< (32 - r)) - 1#32)) else ks
  let word (i : Nat) (n : Nat) (obs : Bytes) : Outcome Bytes :=
    forRange n 0 (fun j obs => if i < ks.length then xorAt ibs (4*i+j) (ksByte (ks.getD i 0) j) obs else .panic) obs
  match forRange (length / 32) 0 (fun i obs => word i 4 obs) (List.replicate ibs.length 0) with
  | .ok obs => if r ≠ 0 then word (length / 32) ((r + 7) / 8) obs else .ok obs
  | o => o

/-! ## NEA2 / NIA2 (AES) -/

def counterBlock (count : W32) (bearer direction : UInt8) : Bytes :=
  put32 count ++ [(bearer <<< 3) ||| (direction <<< 2)] ++ List.replicate 11 0

def NEA2 (E : Bytes → Bytes → Bytes) (key : Bytes) (count : W32) (bearer direction : UInt8) (ibs : Bytes) : Outcome Bytes :=
  .ok (Spec.AES.ctr (E key) (counterBlock count bearer direction) ibs)

def NIA2 (E : Bytes → Bytes → Bytes) (key : Bytes) (count : W32) (bearer direction : UInt8) (msg : Bytes) : Outcome Bytes :=
  let m := put32 count ++ [(bearer <<< 3) ||| (direction <<< 2), 0, 0, 0] ++ msg
  .ok ((Spec.AES.cmac (E key) m).take 4)

/-! ## NEA3 (128-EEA3, ZUC) -/

def toBV8 (b : Bytes) : List (BitVec 8) := b.map (fun x => BitVec.ofNat 8 x.toNat)

def NEA3 (ck : Bytes) (count : W32) (bearer direction : UInt8) (ibs : Bytes) (length : Nat) : Outcome Bytes :=
  let iv8 := put32 count ++ [(bearer <<< 3) ||| (direction <<< 2), 0, 0, 0]
  let iv := iv8 ++ iv8
  let l := (length + 31) / 32
  let stream := Zuc.Zuc (toBV8 ck) (toBV8 iv) l
  let nb := (length + 7) / 8
  let step (i : Nat) (obs : Bytes) : Outcome Bytes :=
    forRange 4 0 (fun j obs => if i*4+j < nb then xorAt ibs (i*4+j) (ksByte (stream.getD i 0) j) obs else .ok obs) obs
  match forRange l 0 step (List.replicate ibs.length 0) with
  | .ok obs =>
    let obs' : Outcome Bytes :=
      if length % 8 ≠ 0 then
        if length / 8 < obs.length then .ok (obs.set (length / 8) (obs.getD (length / 8) 0 &&& (0xff <<< UInt8.ofNat (8 - length % 8))))
        else .panic
      else .ok obs
    match obs' with
    | .ok obs => .ok (obs.take (length / 8 + 1) ++ List.replicate (obs.length - (length / 8 + 1)) 0)
    | o => o
  | o => o

/-! ## NIA1 (128-EIA1, SNOW 3G): GF(2^64) arithmetic -/

def mulx (V c : W64) : W64 := if V &&& 0x8000000000000000#64 != 0#64 then (V <<< 1) ^^^ c else V <<< 1

def mulxPow (V : W64) : Nat → W64 → W64
  | 0, _ => V
  | i+1, c => mulx (mulxPow V i c) c

def mulLoop (V P c : W64) : Nat → Nat → W64 → W64
  | 0, _, rst => rst
  | n+1, i, rst => mulLoop V P c n (i+1) (if (P >>> i) &&& 1#64 == 1#64 then rst ^^^ mulxPow V i c else rst)

def mul (V P c : W64) : W64 := mulLoop V P c 64 0 0#64

def be64 (b : Bytes) : W64 := BitVec.ofNat 64 (b.foldl (fun a x => a * 256 + x.toNat) 0)

/-- `binary.BigEndian.Uint64(b)`: needs 8 octets -/
def uint64At (b : Bytes) : Outcome W64 := if b.length < 8 then .panic else .ok (be64 (b.take 8))

/-- one full 64-bit block of the NIA1 loop: `EVAL = mul(EVAL ^ M_i, P, c)` with `M_i = binary.BigEndian.Uint64(msg[8*i:])` -/
def nia1Step (msg : Bytes) (P c : W64) (i : Nat) (ev : W64) : Outcome W64 :=
  if 8 * i ≤ msg.length then
    match uint64At (msg.drop (8 * i)) with
    | .ok M => .ok (mul (ev ^^^ M) P c)
    | .err e => .err e
    | .panic => .panic
  else .panic

/-- the block loop of NIA1 (D-2 full blocks, then the zero-padded last block); nothing to do for LENGTH = 0 (fix 8a9688c) -/
def nia1Blocks (msg : Bytes) (length D : Nat) (P c : W64) : Outcome W64 :=
  if length > 0 then
    match forRange (D - 2) 0 (nia1Step msg P c) 0#64 with
    | .ok ev =>
      if 8 * (D - 2) ≤ msg.length then
        let tmp := (msg.drop (8 * (D - 2))).take 8
        let tmp := tmp ++ List.replicate (8 - tmp.length) 0
        .ok (mul (ev ^^^ be64 tmp) P c)
      else .panic
    | o => o
  else .ok 0#64

def NIA1 (ik : Bytes) (countI : W32) (bearer : UInt8) (direction : W32) (msg : Bytes) (length : Nat) : Outcome Bytes :=
  let fresh : W32 := BitVec.ofNat 32 bearer.toNat <<< 27
  let k := keyWords ik
  let iv := [fresh ^^^ (direction <<< 15), countI ^^^ (direction <<< 31), fresh, countI]
  let D := (length + 63) / 64 + 1
  let z := Snow3g.GetKeyStream k iv 5
  let zz (i : Nat) : W64 := (z.getD i 0).setWidth 64
  let P := (zz 0 <<< 32) ||| zz 1
  let Q := (zz 2 <<< 32) ||| zz 3
  let c : W64 := 0x1b#64
  let blocks : Outcome W64 := nia1Blocks msg length D P c
  match blocks with
  | .ok ev =>
    let ev := ev ^^^ BitVec.ofNat 64 length
    let ev := mul ev Q c
    let macI : W32 := (ev >>> 32).setWidth 32 ^^^ z.getD 4 0
    .ok (put32 macI)
  | .err e => .err e
  | .panic => .panic

/-! ## NIA3 (128-EIA3, ZUC) -/

def getWord (stream : List W32) (i : Nat) : Outcome W32 :=
  let b := i % 32
  let loc := i / 32
  if b = 0 then
    if loc < stream.length then .ok (stream.getD loc 0) else .panic
  else
    if loc + 1 < stream.length then .ok ((stream.getD loc 0 <<< b) ||| (stream.getD (loc+1) 0 >>> (32 - b))) else .panic

/-- one iteration of the bit loop of `genMac`: `if m[i/8] & (1 << (7 - i%8)) != 0 { t ^= getWord(stream, i) }` -/
def genMacStep (m : Bytes) (stream : List W32) (i : Nat) (t : W32) : Outcome W32 :=
  if i / 8 < m.length then
    if m.getD (i / 8) 0 &&& (1 <<< UInt8.ofNat (7 - i % 8)) != 0 then
      match getWord stream i with
      | .ok w => .ok (t ^^^ w)
      | .err e => .err e
      | .panic => .panic
    else .ok t
  else .panic

/-- `t ^= getWord(stream, blength); mac = t ^ getWord(stream, 32*(l-1))` -/
def genMacFin (stream : List W32) (blength : Nat) (t : W32) : Outcome Bytes :=
  match getWord stream blength, getWord stream (32 * (stream.length - 1)) with
  | .ok a, .ok b => .ok (put32 (t ^^^ a ^^^ b))
  | _, _ => .panic

def genMac (m : Bytes) (stream : List W32) (blength : Nat) : Outcome Bytes :=
  match forRange blength 0 (genMacStep m stream) 0#32 with
  | .ok t => genMacFin stream blength t
  | .err e => .err e
  | .panic => .panic

def NIA3 (ik : Bytes) (count : W32) (bearer direction : UInt8) (msg : Bytes) (length : Nat) : Outcome Bytes :=
  let c := put32 count
  let iv : Bytes :=
    [c.getD 0 0, c.getD 1 0, c.getD 2 0, c.getD 3 0, (bearer <<< 3) &&& 0xF8, 0, 0, 0,
     (direction <<< 7) ^^^ c.getD 0 0, c.getD 1 0, c.getD 2 0, c.getD 3 0, (bearer <<< 3) &&& 0xF8, 0, (direction <<< 7) ^^^ 0, 0]
  let l := (length + 31) / 32 + 2
  genMac msg (Zuc.Zuc (toBV8 ik) (toBV8 iv) l) length

/-! ## the API: NASEncrypt / NASMacCalculate -/

/-- result of the in-place API: the error (if any) and the payload afterwards; `none` payload = nil slice -/
structure EncResult where
  err     : Bool
  payload : Option Bytes
deriving DecidableEq, Repr

def NASEncrypt (E : Bytes → Bytes → Bytes) (algo : UInt8) (key : Bytes) (count : W32) (bearer direction : UInt8)
    (payload : Option Bytes) : Outcome EncResult :=
  if bearer > 0x1f then .ok ⟨true, payload⟩
  else if direction > 1 then .ok ⟨true, payload⟩
  else match payload with
  | none => .ok ⟨true, none⟩
  | some p =>
    let fin (o : Outcome Bytes) : Outcome EncResult :=
      match o with
      | .ok out => .ok ⟨false, some (out.take p.length ++ p.drop out.length)⟩   -- copy(payload, output)
      | .err _ => .ok ⟨true, some p⟩
      | .panic => .panic
    if algo = 0 then .ok ⟨false, some p⟩
    else if algo = 1 then fin (NEA1 key count (BitVec.ofNat 32 bearer.toNat) (BitVec.ofNat 32 direction.toNat) p (p.length * 8))
    else if algo = 2 then fin (NEA2 E key count bearer direction p)
    else if algo = 3 then fin (NEA3 key count bearer direction p (p.length * 8))
    else .ok ⟨true, some p⟩

/-- `(mac, err)`; `none` = error -/
def NASMacCalculate (E : Bytes → Bytes → Bytes) (algo : UInt8) (key : Bytes) (count : W32) (bearer direction : UInt8)
    (msg : Option Bytes) : Outcome (Option Bytes) :=
  if bearer > 0x1f then .ok none
  else if direction > 1 then .ok none
  else match msg with
  | none => .ok none
  | some m =>
    let fin (o : Outcome Bytes) : Outcome (Option Bytes) :=
      match o with
      | .ok mac => .ok (some mac)
      | .err _ => .ok none
      | .panic => .panic
    if algo = 0 then .ok (some [0, 0, 0, 0])
    else if algo = 1 then fin (NIA1 key count bearer (BitVec.ofNat 32 direction.toNat) m (m.length * 8))
    else if algo = 2 then fin (NIA2 E key count bearer direction m)
    else if algo = 3 then fin (NIA3 key count bearer direction m (m.length * 8))
    else .ok none

end NasVerif.Model.Security
