import NasVerif.Prelude.GoLib
/-!
# Models of the identity / slice / area-list helpers (C12, C13, C14)

nasConvert/MobileIdentity5GS.go, PlmnId.go, AmfId.go, Nssai.go, Snssai.go, TaiList.go, ServiceAreaList.go, Ladn.go,
UESecurityCapability.go, PSI.go, UPUInfo.go (UpuAckToModels); nasType/NAS_MobileIdentity5GS.go (text getters),
nasType/NAS_DNN.go (GetDNN).

Each function mirrors the Go control flow; every Go index / slice expression is a checked primitive (`idx`, `slice`,
`sliceFrom`) that yields `panic` out of range, so "never panics" is a real proof obligation. A Go `error` return is `.err`.
Loops carry a fuel argument; running out of fuel is reported as `panic`, so the no-panic theorems also say that the
fuel supplied (a function of the input length) is never exhausted — i.e. the loop terminates because it makes progress.
Text is `Bytes` (Go strings are byte strings).
-/
namespace NasVerif.Model.Convert
open NasVerif

def dash : Bytes := [45]
def charF : UInt8 := 102
def dot : UInt8 := 46

/-- `s[len(s)-1]`: index -1 panics on the empty string -/
def lastByte (s : Bytes) : Outcome UInt8 := if s.length = 0 then .panic else idx s (s.length - 1)

/-- `s[:len(s)-1]`: a negative bound panics on the empty string -/
def chop1 (s : Bytes) : Outcome Bytes := if s.length = 0 then .panic else slice s 0 (s.length - 1)

/-! ## nasConvert/PlmnId.go -/

/-- `PlmnIDToString(nasBuf)` -/
def plmnIDToString (b : Bytes) : Outcome Bytes := do
  let b0 ← idx b 0
  let b1 ← idx b 1
  let b2 ← idx b 2
  let mcc1 := b0 &&& 0x0f
  let mcc2 := (b0 &&& 0xf0) >>> 4
  let mcc3 := b1 &&& 0x0f
  let mnc1 := b2 &&& 0x0f
  let mnc2 := (b2 &&& 0xf0) >>> 4
  let mnc3 := (b1 &&& 0xf0) >>> 4
  let s := hexEnc [(mcc1 <<< 4) ||| mcc2, (mcc3 <<< 4) ||| mnc1, (mnc2 <<< 4) ||| mnc3]
  let c5 ← idx s 5
  if c5 = charF then slice s 0 5 else pure s

/-- a digit obtained with `strconv.Atoi(string(b))`; on error the Go code logs and keeps the default -/
def digitOr (b : UInt8) (dflt : UInt8) : UInt8 := (atoi1 b).getD dflt

/-- `PlmnIDToNas(models.PlmnId{Mcc, Mnc})` -/
def plmnIDToNas (mcc mnc : Bytes) : Outcome Bytes := do
  let a0 ← idx mcc 0
  let a1 ← idx mcc 1
  let a2 ← idx mcc 2
  let n0 ← idx mnc 0
  let n1 ← idx mnc 1
  let d1 := digitOr a0 0
  let d2 := digitOr a1 0
  let d3 := digitOr a2 0
  let m1 := digitOr n0 0
  let m2 := digitOr n1 0
  let m3 ← (if mnc.length = 3 then do let n2 ← idx mnc 2; pure (digitOr n2 0x0f) else pure (0x0f : UInt8))
  pure [(d2 <<< 4) ||| d1, (m3 <<< 4) ||| d3, (m2 <<< 4) ||| m1]

/-! ## nasConvert/AmfId.go -/

/-- `AmfIdToNasWithError(amfId)`: (region, set, pointer) -/
def amfIdToNas (s : Bytes) : Outcome (UInt8 × UInt16 × UInt8) :=
  match hexDec s with
  | none => .err .other
  | some bs =>
    if bs.length ≠ 3 then .err .badLen
    else do
      let b0 ← idx bs 0
      let b1 ← idx bs 1
      let b2 ← idx bs 2
      pure (b0, (b1.toUInt16 <<< 2) + ((b2.toUInt16 &&& 0x00c0) >>> 6), b2 &&& 0x3f)

/-- `AmfIdToModels(region, set, pointer)` (after fix 540ed6f) -/
def amfIdToModels (region : UInt8) (set : UInt16) (ptr : UInt8) : Bytes :=
  hexEnc [region, (set >>> 2).toUInt8 &&& 0xff, ((set &&& 0x03).toUInt8 <<< 6) + (ptr &&& 0x3f)]

/-! ## nasConvert/MobileIdentity5GS.go -/

/-- `naiToString(buf)` -/
def naiToString (buf : Bytes) : Outcome Bytes :=
  if buf.length < 2 then .err .badLen
  else do
    let nb ← sliceFrom buf 1
    pure (join [ascii "nai", ascii "1", hexEnc nb] dash)

/-- MCC text from the SUCI / mobile-identity octets 1..2 -/
def mccText (b1 b2 : UInt8) : Outcome Bytes :=
  slice (hexEnc [rotl4 b1, (b2 &&& 0x0f) <<< 4]) 0 3

/-- MNC text from octets 2..3 -/
def mncText (b2 b3 : UInt8) : Outcome Bytes := do
  let s := hexEnc [rotl4 b3, ((b2 &&& 0xf0) >>> 4) <<< 4]
  let c ← idx s 2
  if c = charF then slice s 0 2 else slice s 0 3

/-- routing indicator text from octets 4..5 -/
def routingText (b4 b5 : UInt8) : Outcome Bytes :=
  let s := hexEnc [rotl4 b4, rotl4 b5]
  match indexByte s charF with
  | some i => slice s 0 i
  | none => pure s

/-- scheme output text: `tail` is `buf[8:]` -/
def schemeOutputText (scheme : UInt8) (tail : Bytes) : Outcome Bytes :=
  if fmtHex8 scheme = ascii "0" then do
    let s := hexEnc (tail.map rotl4)
    let c ← lastByte s
    if c = charF then chop1 s else pure s
  else pure (hexEnc tail)

/-- `SuciToStringWithError(buf)`: (suci, plmnId) -/
def suciToString (buf : Bytes) : Outcome (Bytes × Bytes) :=
  if buf.length < 1 then .err .badLen
  else do
    let b0 ← idx buf 0
    if (b0 &&& 0xf0) >>> 4 = 1 then do
      let s ← naiToString buf
      pure (s, [])
    else if buf.length < 9 then .err .badLen
    else do
      let b1 ← idx buf 1
      let b2 ← idx buf 2
      let b3 ← idx buf 3
      let b4 ← idx buf 4
      let b5 ← idx buf 5
      let b6 ← idx buf 6
      let b7 ← idx buf 7
      let mcc ← mccText b1 b2
      let mnc ← mncText b2 b3
      let ri ← routingText b4 b5
      let tail ← sliceFrom buf 8
      let so ← schemeOutputText b6 tail
      pure (join [ascii "suci", ascii "0", mcc, mnc, ri, fmtHex8 b6, fmtDec b7.toNat, so] dash, mcc ++ mnc)

structure GutiText where
  mcc : Bytes
  mnc : Bytes
  amfId : Bytes
  guti : Bytes
deriving DecidableEq, Repr

/-- `GutiToStringWithError(buf)` -/
def gutiToString (buf : Bytes) : Outcome GutiText :=
  if buf.length ≠ 11 then .err .badLen
  else do
    let p ← slice buf 1 4
    let plmn ← plmnIDToString p
    let a ← slice buf 4 7
    let t ← sliceFrom buf 7
    let mcc ← slice plmn 0 3
    let mnc ← sliceFrom plmn 3
    pure { mcc := mcc, mnc := mnc, amfId := hexEnc a, guti := plmn ++ hexEnc a ++ hexEnc t }

def atoiAt (s : Bytes) (i : Nat) : Outcome UInt8 := do
  let c ← idx s i
  match atoi1 c with
  | some d => pure d
  | none => .err .other

/-- the read-modify-write shape of the generated nasType setters: `(o & keep) + ((v & m) << sh)` -/
def setBits (o keep v m sh : UInt8) : UInt8 := (o &&& keep) + ((v &&& m) <<< sh)

/-- `copy(dst[0:4], src)` into a zeroed four-octet window -/
def copy4 (src : Bytes) : Bytes := (src.take 4) ++ List.replicate (4 - src.length) 0

/-- `GutiToNasWithError(guti)`: the eleven octets of the GUTI5G value (`Len` is set to 11, `Iei` stays 0) -/
def gutiToNas (g : Bytes) : Outcome Bytes :=
  if g.length ≠ 19 ∧ g.length ≠ 20 then .err .badLen
  else do
    let mcc1 ← atoiAt g 0
    let mcc2 ← atoiAt g 1
    let mcc3 ← atoiAt g 2
    let mnc1 ← atoiAt g 3
    let mnc2 ← atoiAt g 4
    let (mnc3, amfS, tmsiS) ← (if g.length = 20 then do
        let d ← atoiAt g 5
        let a ← slice g 6 12
        let t ← sliceFrom g 12
        pure (d, a, t)
      else do
        let a ← slice g 5 11
        let t ← sliceFrom g 11
        pure ((0x0f : UInt8), a, t))
    let (region, set, ptr) ← amfIdToNas amfS
    match hexDec tmsiS with
    | none => .err .other
    | some tb =>
      let o0 := setBits (setBits (setBits 0 247 0 1 3) 15 15 15 4) 248 2 7 0   -- SetSpare(0), SetSpare2(15), SetTypeOfIdentity(2)
      let o1 := setBits (setBits 0 240 mcc1 15 0) 15 mcc2 15 4
      let o2 := setBits (setBits 0 240 mcc3 15 0) 15 mnc3 15 4
      let o3 := setBits (setBits 0 240 mnc1 15 0) 15 mnc2 15 4
      let o5 : UInt8 := (set >>> 2).toUInt8 &&& 255
      let o6a : UInt8 := setBits 0 63 (set &&& 3).toUInt8 255 6
      let o6 : UInt8 := (o6a &&& 192) + (ptr &&& 63)
      pure ([o0, o1, o2, o3, region, o5, o6] ++ copy4 tb)

/-- the loop of `PeiToStringWithError` / `peiToString`: `last` is the pending high-nibble octet -/
def peiDigits : UInt8 → Bytes → Bytes
  | last, [] => [last]
  | last, o :: r => (last + (o &&& 0x0f)) :: peiDigits (o &&& 0xf0) r

@[simp] theorem peiDigits_length (l : UInt8) (r : Bytes) : (peiDigits l r).length = r.length + 1 := by
  induction r generalizing l with
  | nil => rfl
  | cons o r ih => simp [peiDigits, ih]

/-- digits of an IMEI / IMEISV (shared by nasConvert.PeiToStringWithError and nasType.peiToString); needs `buf ≠ []` -/
def peiDigitText (buf : Bytes) : Outcome Bytes := do
  let b0 ← idx buf 0
  let rest ← sliceFrom buf 1
  let s := hexEnc (peiDigits (b0 &&& 0xf0) rest)
  let s1 ← chop1 s
  if (b0 &&& 0x08) >>> 3 = 0 then chop1 s1 else pure s1

/-- `PeiToStringWithError(buf)` -/
def peiToString (buf : Bytes) : Outcome Bytes :=
  if buf.length < 1 then .err .badLen
  else do
    let b0 ← idx buf 0
    let pre := if b0 &&& 0x07 = 0x03 then ascii "imei-" else ascii "imeisv-"
    let d ← peiDigitText buf
    pure (pre ++ d)

/-! ## nasConvert/Nssai.go, Snssai.go -/

structure Snssai where
  sst : UInt8
  sd  : Option Bytes        -- three octets (printed as hex text), `none` = empty string
deriving DecidableEq, Repr

structure MappedSnssai where
  serving : Snssai
  home    : Option Snssai
deriving DecidableEq, Repr

/-- `snssaiToModels(lengthOfSnssaiContents, buf)` -/
def snssaiToModels (l : UInt8) (buf : Bytes) : Outcome MappedSnssai :=
  if buf.length < l.toNat + 1 then .err .badLen
  else if l = 1 then do
    let s ← idx buf 1
    pure ⟨⟨s, none⟩, none⟩
  else if l = 2 then do
    let s ← idx buf 1
    let h ← idx buf 2
    pure ⟨⟨s, none⟩, some ⟨h, none⟩⟩
  else if l = 4 then do
    let s ← idx buf 1
    let sd ← slice buf 2 5
    pure ⟨⟨s, some sd⟩, none⟩
  else if l = 5 then do
    let s ← idx buf 1
    let sd ← slice buf 2 5
    let h ← idx buf 5
    pure ⟨⟨s, some sd⟩, some ⟨h, none⟩⟩
  else if l = 8 then do
    let s ← idx buf 1
    let sd ← slice buf 2 5
    let h ← idx buf 5
    let hsd ← slice buf 6 9
    pure ⟨⟨s, some sd⟩, some ⟨h, some hsd⟩⟩
  else .err .badLen

/-- the loop of `RequestedNssaiToModels`; `offset += int(l + 1)` is a `uint8` addition -/
def reqNssaiLoop : Nat → Nat → Bytes → Nat → List MappedSnssai → Outcome (List MappedSnssai)
  | 0, _, _, _, _ => .panic                       -- out of fuel
  | fuel + 1, lenOfBuf, buf, offset, acc =>
    if offset < lenOfBuf then do
      let l ← idx buf offset
      let tail ← sliceFrom buf offset
      let s ← snssaiToModels l tail
      reqNssaiLoop fuel lenOfBuf buf (offset + (l + 1).toNat) (acc ++ [s])
    else pure acc

/-- `RequestedNssaiToModels(ie)` with `ie.Len = len`, `ie.Buffer = buf` -/
def requestedNssaiToModels (len : Nat) (buf : Bytes) : Outcome (List MappedSnssai) :=
  reqNssaiLoop (len + 1) len buf 0 []

/-- `SnssaiToModels(ie)` for an SNSSAI value with `Len` and eight octets -/
def snssaiIeToModels (len : UInt8) (oct : Bytes) : Snssai :=
  ⟨oct.getD 0 0, if len = 4 then some ((oct.take 4).drop 1) else none⟩

/-- appended S-NSSAI SD octets: `hex.DecodeString` failure only logs -/
def sdBytes (sd : Bytes) : Bytes := (hexDec sd).getD []

/-- `SnssaiToNas(models.Snssai{Sst, Sd})`; `sst` already truncated to uint8 -/
def snssaiToNas (sst : UInt8) (sd : Bytes) : Bytes :=
  if sd = [] then [0x01, sst] else [0x04, sst] ++ sdBytes sd

/-- `RejectedSnssaiToNas(snssai, cause)` -/
def rejectedSnssaiToNas (sst : UInt8) (sd : Bytes) (cause : UInt8) : Bytes :=
  if sd = [] then [((0x01 : UInt8) <<< 4) + cause, sst] else [((0x04 : UInt8) <<< 4) + cause, sst] ++ sdBytes sd

/-- `RejectedNssaiToNas(inPlmn, inTa)`: (Len, Buffer); Buffer is `make(Len)` then `copy` -/
def rejectedNssaiToNas (inPlmn inTa : List (UInt8 × Bytes)) : Nat × Bytes :=
  let all := (inPlmn.flatMap fun (s, d) => rejectedSnssaiToNas s d 0) ++ (inTa.flatMap fun (s, d) => rejectedSnssaiToNas s d 1)
  let len := all.length % 256
  (len, all.take len)

/-! ## nasConvert/TaiList.go, ServiceAreaList.go, Ladn.go -/

structure Tai where
  mcc : Bytes
  mnc : Bytes
  tac : Bytes          -- hex text
deriving DecidableEq, Repr

def taiBodySame : List Tai → Bytes
  | [] => []
  | t :: r => (hexDec t.tac).getD [] ++ taiBodySame r

def taiBodyMixed : List Tai → Outcome Bytes
  | [] => pure []
  | t :: r => do
    let p ← plmnIDToNas t.mcc t.mnc
    let rest ← taiBodyMixed r
    match hexDec t.tac with
    | some tb => pure (p ++ tb ++ rest)
    | none => pure rest

/-- `TaiListToNas(taiList)` (every `PlmnId` pointer non-nil) -/
def taiListToNas (l : List Tai) : Outcome Bytes :=
  match l with
  | [] => .panic                                   -- taiList[0]
  | t0 :: _ =>
    let mixed := l.any fun t => decide (t.mcc ≠ t0.mcc ∨ t.mnc ≠ t0.mnc)
    let n : UInt8 := UInt8.ofNat l.length - 1
    if mixed then do
      let b ← taiBodyMixed l
      pure ((((2 : UInt8) <<< 5) + n) :: b)
    else do
      let p ← plmnIDToNas t0.mcc t0.mnc
      pure ((((0 : UInt8) <<< 5) + n) :: (p ++ taiBodySame l))

def tacsOf : List Bytes → Bytes × Nat
  | [] => ([], 0)
  | t :: r =>
    let (b, n) := tacsOf r
    match hexDec t with
    | some tb => (tb ++ b, n + 1)
    | none => (b, n)

/-- `PartialServiceAreaListToNas(plmn, restriction)` (after fix 9adaa7f); `allowed` = RestrictionType is ALLOWED_AREAS;
`tacs` = the TAC strings of all areas in order -/
def partialServiceAreaListToNas (mcc mnc : Bytes) (allowed : Bool) (tacs : List Bytes) : Outcome Bytes := do
  let allowedType : UInt8 := if allowed then 0 else 1
  let (tl, n) := tacsOf tacs
  let num : UInt8 := if n > 0 then UInt8.ofNat (n - 1) &&& 0x1f else 0
  let first := ((allowedType <<< 7) &&& 0x80) + num
  let p ← plmnIDToNas mcc mnc
  pure (first :: (p ++ tl))

/-- `LadnToNas(dnn, taiLists)` -/
def ladnToNas (dnn : Bytes) (l : List Tai) : Outcome Bytes := do
  let t ← taiListToNas l
  pure (UInt8.ofNat dnn.length :: dnn ++ (UInt8.ofNat t.length :: t))

/-- the loop of `LadnToModels` (after fix f8cff2e) -/
def ladnLoop : Nat → Bytes → Nat → List Bytes → Outcome (List Bytes)
  | 0, _, _, _ => .panic
  | fuel + 1, buf, off, acc =>
    if off < buf.length then do
      let l ← idx buf off
      if off + 1 + l.toNat > buf.length then pure acc
      else do
        let d ← slice buf (off + 1) (off + 1 + l.toNat)
        ladnLoop fuel buf (off + 1 + l.toNat) (acc ++ [d])
    else pure acc

def ladnToModels (buf : Bytes) : Outcome (List Bytes) := ladnLoop (buf.length + 1) buf 0 []

/-! ## nasConvert/UESecurityCapability.go, PSI.go, UPUInfo.go -/

/-- `UESecurityCapabilityToByteArray(buf)`: first octets of nea, nia, eea, eia -/
def ueSecCapToByteArray (buf : Bytes) : Outcome (UInt8 × UInt8 × UInt8 × UInt8) :=
  if buf.length < 2 then pure (0, 0, 0, 0)
  else do
    let a ← idx buf 0
    let b ← idx buf 1
    let c ← (if buf.length > 2 then idx buf 2 else pure 0)
    let d ← (if buf.length > 3 then idx buf 3 else pure 0)
    pure (a <<< 1, b <<< 1, if buf.length > 2 then c <<< 1 else 0, if buf.length > 3 then d <<< 1 else 0)

def psiBits : Nat → Nat → Bytes → Outcome (List Bool)
  | 0, _, _ => pure []
  | n + 1, i, buf => do
    let o ← idx buf (i / 8)
    let rest ← psiBits n (i + 1) buf
    pure (((o &&& ((1 : UInt8) <<< UInt8.ofNat (i % 8))) > 0) :: rest)

/-- `PSIToBooleanArray(buf)` with checked indexing -/
def psiToBooleanArray (buf : Bytes) : Outcome (List Bool) :=
  if buf.length < 2 then pure (List.replicate 16 false) else psiBits 16 0 buf

/-- `UpuAckToModels(buf)` (after fix 46aeba6) -/
def upuAckToModels (buf : Bytes) : Outcome Bytes :=
  if buf.length ≠ 17 then .err .badLen
  else do
    let b0 ← idx buf 0
    if b0 ≠ 0x01 then .err .other
    else do
      let t ← sliceFrom buf 1
      pure (hexEnc t)

/-! ## nasType/NAS_DNN.go -/

/-- the loop of `rfc1035tofqdn`: ReadByte, then `Next(labelLen)` (at most what is left), then "." -/
def dnnLoop : Nat → Bytes → Bytes → Outcome Bytes
  | 0, _, _ => .panic
  | fuel + 1, rest, acc =>
    match rest with
    | [] => pure acc
    | l :: r => dnnLoop fuel (r.drop l.toNat) (acc ++ r.take l.toNat ++ [dot])

/-- `DNN.GetDNN()` on `Buffer = buf` (after fix fedd2d5) -/
def getDNN (buf : Bytes) : Outcome Bytes := do
  let f ← dnnLoop (buf.length + 1) buf []
  if f = [] then pure [] else chop1 f

/-- `strings.Split(s, ".")` on the bytes of `s` (`cur` = the label being collected): always at least one label -/
def splitDot : Bytes → Bytes → List Bytes
  | [], cur => [cur]
  | c :: r, cur => if c = dot then cur :: splitDot r [] else splitDot r (cur ++ [c])

/-- `fqdnToRfc1035`: every label behind its length octet; a label over 62 octets or a result over 100 octets is an error -/
def fqdnToRfc1035 (s : Bytes) : Outcome Bytes :=
  let segs := splitDot s []
  if segs.any (fun g => g.length > 62) then .err .other
  else
    let b := segs.flatMap fun g => UInt8.ofNat g.length :: g
    if b.length > 100 then .err .other else pure b

/-- `DNN.SetDNN(s)` on an element whose `Buffer` is `old`: the new `Buffer` (`Len` is its length); unchanged on error -/
def setDNN (old s : Bytes) : Bytes :=
  match fqdnToRfc1035 s with
  | .ok b => b
  | _ => old

/-! ## nasType/NAS_MobileIdentity5GS.go (after fix ce0324a) -/

inductive IdType | suci | guti | imei | stmsi | imeisv
deriving DecidableEq, Repr

def IdType.text : IdType → Bytes
  | .suci => ascii "SUCI" | .guti => ascii "5G-GUTI" | .imei => ascii "IMEI" | .stmsi => ascii "5G-S-TMSI"
  | .imeisv => ascii "IMEISV"

/-- `GetTypeOfIdentity()` -/
def miType (buf : Bytes) : Outcome IdType :=
  if buf.length < 1 then .err .empty
  else do
    let b0 ← idx buf 0
    let t := b0 &&& 0x07
    if t = 0 then .err .other
    else if t = 1 then pure .suci
    else if t = 2 then pure .guti
    else if t = 3 then pure .imei
    else if t = 4 then pure .stmsi
    else if t = 5 then pure .imeisv
    else pure .suci

/-- `idType == x && err == nil` (a returned error is not a panic) -/
def miIs (buf : Bytes) (x : IdType) : Outcome Bool :=
  match miType buf with
  | .ok t => pure (t = x)
  | .err _ => pure false
  | .panic => .panic

/-- `GetMCC()` -/
def miMCC (buf : Bytes) : Outcome Bytes :=
  if buf.length < 4 then pure []
  else do
    let b1 ← idx buf 1
    let b2 ← idx buf 2
    mccText b1 b2

/-- `GetMNC()` -/
def miMNC (buf : Bytes) : Outcome Bytes :=
  if buf.length < 4 then pure []
  else do
    let b2 ← idx buf 2
    let b3 ← idx buf 3
    mncText b2 b3

/-- `GetPlmnID()` -/
def miPlmnID (buf : Bytes) : Outcome Bytes := do
  let a ← miMCC buf
  let b ← miMNC buf
  pure (a ++ b)

/-- nasType `naiToString` (no length guard of its own) -/
def miNai (buf : Bytes) : Outcome Bytes := do
  let nb ← sliceFrom buf 1
  pure (join [ascii "nai", ascii "1", hexEnc nb] dash)

/-- `GetSUCI()` -/
def miSUCI (buf : Bytes) : Outcome Bytes := do
  let isS ← miIs buf .suci
  if ¬ isS then pure []
  else do
    let b0 ← idx buf 0
    if (b0 &&& 0xf0) >>> 4 = 1 then miNai buf
    else if buf.length < 9 then pure []
    else do
      let mcc ← miMCC buf
      let mnc ← miMNC buf
      let b4 ← idx buf 4
      let b5 ← idx buf 5
      let b6 ← idx buf 6
      let b7 ← idx buf 7
      let ri ← routingText b4 b5
      let tail ← sliceFrom buf 8
      let so ← schemeOutputText b6 tail
      pure (join [ascii "suci", ascii "0", mcc, mnc, ri, fmtHex8 b6, fmtDec b7.toNat, so] dash)

/-- `GetAmfID()` -/
def miAmfID (buf : Bytes) : Outcome Bytes :=
  if buf.length < 7 then pure [] else do
    let s ← slice buf 4 7
    pure (hexEnc s)

/-- `GetAmfRegionID()` -/
def miAmfRegionID (buf : Bytes) : Outcome Bytes :=
  if buf.length < 5 then pure [] else do
    let s ← slice buf 4 5
    pure (hexEnc s)

/-- `GetAmfSetID()` -/
def miAmfSetID (buf : Bytes) : Outcome Bytes := do
  let g ← miIs buf .guti
  let s ← miIs buf .stmsi
  let start := if s then 1 else if g then 5 else 0
  if buf.length < start + 2 then pure []
  else do
    let a ← idx buf start
    let b ← idx buf (start + 1)
    let v : UInt16 := (a.toUInt16 <<< 2) + ((b &&& 0xfc).toUInt16 >>> 6)
    pure (fmtDec v.toNat)

/-- `GetAmfPointer()` -/
def miAmfPointer (buf : Bytes) : Outcome Bytes := do
  let g ← miIs buf .guti
  let s ← miIs buf .stmsi
  let start := if s then 2 else if g then 6 else 0
  if buf.length < start + 1 then pure []
  else do
    let a ← idx buf start
    pure (fmtDec (a &&& 0x3f).toNat)

/-- `Get5GTMSI()` -/
def mi5GTMSI (buf : Bytes) : Outcome Bytes := do
  let g ← miIs buf .guti
  let s ← miIs buf .stmsi
  if buf.length < 7 then pure []
  else if g then do
    let t ← sliceFrom buf 7
    pure (hexEnc t)
  else if s then do
    let t ← slice buf 3 7
    pure (hexEnc t)
  else pure []

/-- `Get5GGUTI()` -/
def mi5GGUTI (buf : Bytes) : Outcome Bytes := do
  let a ← miMCC buf
  let b ← miMNC buf
  let c ← miAmfID buf
  let d ← mi5GTMSI buf
  pure (a ++ b ++ c ++ d)

/-- `GetIMEI()` -/
def miIMEI (buf : Bytes) : Outcome Bytes := do
  let i ← miIs buf .imei
  if i then do
    let d ← peiDigitText buf
    pure (ascii "imei-" ++ d)
  else pure []

/-- `GetIMEISV()` -/
def miIMEISV (buf : Bytes) : Outcome Bytes := do
  let i ← miIs buf .imeisv
  if i then do
    let d ← peiDigitText buf
    pure (ascii "imeisv-" ++ d)
  else pure []

/-- `Get5GSTMSI()`: the text (the type string is constant) -/
def mi5GSTMSI (buf : Bytes) : Outcome Bytes :=
  if buf.length < 3 then .err .badLen
  else do
    let p ← slice buf 1 3
    let t ← mi5GTMSI buf
    pure (hexEnc p ++ t)

/-- `GetMobileIdentity()`: (identity text, type text) -/
def miMobileIdentity (buf : Bytes) : Outcome (Bytes × Bytes) :=
  match miType buf with
  | .err e => .err e
  | .panic => .panic
  | .ok t => do
    let s ← (match t with
      | .suci => miSUCI buf
      | .guti => mi5GGUTI buf
      | .imei => miIMEI buf
      | .stmsi => mi5GTMSI buf
      | .imeisv => miIMEISV buf)
    pure (s, t.text)

end NasVerif.Model.Convert
