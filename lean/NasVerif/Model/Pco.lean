import NasVerif.Prelude.Basic
/-!
# Models of nasConvert/PSI.go, PDUSessionReactivationResultErrorCause.go, ProtocolConfigurationOptions.go
-/
namespace NasVerif.Model.Pco
open NasVerif

/-! ## PDU session status bitmap -/

/-- `PSIToBooleanArray`: fewer than two octets gives the all-false array; bit `i` is bit `i % 8` of octet `i / 8` -/
def psiToBooleanArray (buf : Bytes) : List Bool :=
  if buf.length < 2 then List.replicate 16 false
  else (List.range 16).map (fun i => (buf.getD (i / 8) 0 &&& (1 <<< UInt8.ofNat (i % 8))) != 0)

def packOctet (l : List Bool) : UInt8 :=
  (List.range 8).foldl (fun acc i => if l.getD i false then acc ||| (1 <<< UInt8.ofNat i) else acc) 0

/-- `PSIToBuf` for a `[16]bool` -/
def psiToBuf (arr : List Bool) : Bytes := [packOctet (arr.take 8), packOctet (arr.drop 8)]

/-- `PDUSessionReactivationResultErrorCauseToBuf`; `none` = nil slice -/
def reactivationErrorCauseToBuf (ids : Option Bytes) (causes : Bytes) : Bytes :=
  match ids with
  | none => []
  | some i => if i.length ≠ causes.length then [] else (i.zip causes).flatMap (fun (a, b) => [a, b])

/-! ## Protocol configuration options -/

structure PcoUnit where
  id       : Nat        -- ProtocolOrContainerID (uint16)
  len      : Nat        -- LengthOfContents (uint8)
  contents : Bytes
deriving DecidableEq, Repr

def unitBytes (u : PcoUnit) : Bytes := UInt8.ofNat (u.id / 256) :: UInt8.ofNat u.id :: UInt8.ofNat u.len :: u.contents

def marshalUnits : List PcoUnit → Bytes
  | [] => []
  | u :: us => unitBytes u ++ marshalUnits us

/-- `Marshal`: configuration-protocol octet 0x80, then id (2 octets), length, contents of each unit -/
def marshal (l : List PcoUnit) : Bytes := 0x80 :: marshalUnits l

/-- the reading state machine of `UnMarshal` after the first octet, as a parser over the remaining octets
(reader position and `numOfBytes` stay in step). A unit whose identifier, or identifier and non-zero length, are the
last octets is dropped without error, exactly as the Go loop does. -/
def unmarshalLoop : Nat → Bytes → List PcoUnit → Outcome (List PcoUnit)
  | 0, _, acc => .ok acc
  | _, [], acc => .ok acc
  | _, [_], _ => .err .trunc                              -- one octet left: reading the 16-bit identifier fails
  | _, [_, _], acc => .ok acc                             -- identifier only: numOfBytes reaches 0
  | fuel+1, h :: l :: n :: rest, acc =>
    let id := h.toNat * 256 + l.toNat
    if n = 0 then unmarshalLoop fuel rest (acc ++ [⟨id, 0, []⟩])
    else if rest = [] then .ok acc                        -- length read, numOfBytes reaches 0
    else if rest.length < n.toNat then .err .trunc
    else unmarshalLoop fuel (rest.drop n.toNat) (acc ++ [⟨id, n.toNat, rest.take n.toNat⟩])

def unmarshal (data : Bytes) : Outcome (List PcoUnit) :=
  match data with
  | [] => .err .trunc
  | _ :: rest => unmarshalLoop rest.length rest []

/-! ## the `Add…` builders (one call = one unit appended, or an error and nothing appended) -/

/-- `net.IP.To4`: a 4-octet address is itself; a 16-octet IPv4-mapped address (`::ffff:a.b.c.d`) is its last four octets -/
def ipTo4 (ip : Bytes) : Option Bytes :=
  if ip.length = 4 then some ip
  else if ip.length = 16 ∧ ip.take 10 = List.replicate 10 0 ∧ ip.getD 10 0 = 0xff ∧ ip.getD 11 0 = 0xff then some (ip.drop 12)
  else none

/-- `net.IP.To16`: a 4-octet address becomes IPv4-mapped, a 16-octet address is itself -/
def ipTo16 (ip : Bytes) : Option Bytes :=
  if ip.length = 4 then some (List.replicate 10 0 ++ [0xff, 0xff] ++ ip)
  else if ip.length = 16 then some ip
  else none

inductive Build
  | dns4Req | dns6Req | ipAllocNas                 -- the three UL requests without contents
  | dns4 (ip : Bytes) | pcscf4 (ip : Bytes) | dns6 (ip : Bytes)
  | mtu4 (mtu : Nat)                               -- `uint16`
deriving DecidableEq, Repr

/-- one builder call: the unit it appends, or `none` when the call reports an error -/
def buildUnit : Build → Option PcoUnit
  | .dns4Req => some ⟨0x000d, 0, []⟩
  | .dns6Req => some ⟨0x0003, 0, []⟩
  | .ipAllocNas => some ⟨0x000a, 0, []⟩
  | .dns4 ip => (ipTo4 ip).map fun a => ⟨0x000d, 4, a⟩
  | .pcscf4 ip => (ipTo4 ip).map fun a => ⟨0x000c, 4, a⟩
  | .dns6 ip => if ip.length = 16 then (ipTo16 ip).map fun a => ⟨0x0003, 16, a⟩ else none
  | .mtu4 m => some ⟨0x0010, 2, [UInt8.ofNat (m / 256), UInt8.ofNat m]⟩

/-- a script of builder calls on `NewProtocolConfigurationOptions()`: the list built and, per call, whether it succeeded -/
def build : List Build → List PcoUnit × List Bool
  | [] => ([], [])
  | b :: r =>
    let (us, oks) := build r
    match buildUnit b with
    | some u => (u :: us, true :: oks)
    | none => (us, false :: oks)

end NasVerif.Model.Pco
