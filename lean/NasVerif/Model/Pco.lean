import NasVerif.Prelude.Basic
/-!
# Models of nasConvert/PSI.go, PDUSessionReactivationResultErrorCause.go, ProtocolConfigurationOptions.go
-/
namespace NasVerif.Model.Pco
open NasVerif

/-! ## PDU session status bitmap -/

/-- `PSIToBooleanArray`: fewer than two octets gives the all-false array; bit `i` is bit `i % 8` of octet `i / 8` -/
def psiToBooleanArray (buf : Bytes) : List Bool :=
  if buf.length < 2 then List.replicate 16 false
  else (List.range 16).map (fun i => (buf.getD (i / 8) 0 &&& (1 <<< UInt8.ofNat (i % 8))) != 0)

def packOctet (l : List Bool) : UInt8 :=
  (List.range 8).foldl (fun acc i => if l.getD i false then acc ||| (1 <<< UInt8.ofNat i) else acc) 0

/-- `PSIToBuf` for a `[16]bool` -/
def psiToBuf (arr : List Bool) : Bytes := [packOctet (arr.take 8), packOctet (arr.drop 8)]

/-- `PDUSessionReactivationResultErrorCauseToBuf`; `none` = nil slice -/
def reactivationErrorCauseToBuf (ids : Option Bytes) (causes : Bytes) : Bytes :=
  match ids with
  | none => []
  | some i => if i.length ≠ causes.length then [] else (i.zip causes).flatMap (fun (a, b) => [a, b])

/-! ## Protocol configuration options -/

structure PcoUnit where
  id       : Nat        -- ProtocolOrContainerID (uint16)
  len      : Nat        -- LengthOfContents (uint8)
  contents : Bytes
deriving DecidableEq, Repr

def unitBytes (u : PcoUnit) : Bytes := UInt8.ofNat (u.id / 256) :: UInt8.ofNat u.id :: UInt8.ofNat u.len :: u.contents

def marshalUnits : List PcoUnit → Bytes
  | [] => []
  | u :: us => unitBytes u ++ marshalUnits us

/-- `Marshal`: configuration-protocol octet 0x80, then id (2 octets), length, contents of each unit -/
def marshal (l : List PcoUnit) : Bytes := 0x80 :: marshalUnits l

/-- the reading state machine of `UnMarshal` after the first octet, as a parser over the remaining octets
(reader position and `numOfBytes` stay in step). A unit whose identifier, or identifier and non-zero length, are the
last octets is dropped without error, exactly as the Go loop does. -/
def unmarshalLoop : Nat → Bytes → List PcoUnit → Outcome (List PcoUnit)
  | 0, _, acc => .ok acc
  | _, [], acc => .ok acc
  | _, [_], _ => .err .trunc                              -- one octet left: reading the 16-bit identifier fails
  | _, [_, _], acc => .ok acc                             -- identifier only: numOfBytes reaches 0
  | fuel+1, h :: l :: n :: rest, acc =>
    let id := h.toNat * 256 + l.toNat
    if n = 0 then unmarshalLoop fuel rest (acc ++ [⟨id, 0, []⟩])
    else if rest = [] then .ok acc                        -- length read, numOfBytes reaches 0
    else if rest.length < n.toNat then .err .trunc
    else unmarshalLoop fuel (rest.drop n.toNat) (acc ++ [⟨id, n.toNat, rest.take n.toNat⟩])

def unmarshal (data : Bytes) : Outcome (List PcoUnit) :=
  match data with
  | [] => .err .trunc
  | _ :: rest => unmarshalLoop rest.length rest []

end NasVerif.Model.Pco
