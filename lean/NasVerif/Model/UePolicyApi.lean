import NasVerif.Model.UePolicy
/-!
# The construction API of the uePolicyContainer package (C18: "messages and nested lists built through the API")

One definition per exported constructor / setter / getter / appender of
`UePolicyContainer_{UEPolicyParts,UEPolicyPartType,Instruction,UEPolicySectionManagementSubList,Result,
UEPolicySectionManagementSubResult,UEPolicySectionManagementList,UEPolicySectionManagementResult,UEPolicyNetworkClassmark,
ManageUEPolicyCommand,ManageUEPolicyComplete,ManageUEPolicyReject}.go`, `NAS_UePolicyDeliveryServiceMsgType.go` and the header
accessors of `UePolicyContainer.go`. A Go method with a pointer receiver that assigns a field is a function returning the updated
value. `build…` are the scripts the harness executes on the real package (op `upc api…`): they use nothing but these functions.
-/
namespace NasVerif.Model.UePolicy
open NasVerif NasVerif.Model.Qos

/-! ## UEPolicyPart / UEPolicyPartType -/
def Part.zero : Part := ⟨0, 0, []⟩                                   -- `var p UEPolicyPart`
def Part.setLen (p : Part) (l : UInt16) : Part := { p with len := l }
def Part.getLen (p : Part) : UInt16 := p.len
/-- `SetLen_byContent`: `uint16(1) + uint16(len(contents))`, computed in `uint16` -/
def Part.setLenByContent (p : Part) : Part × UInt16 :=
  let l : UInt16 := 1 + UInt16.ofNat p.content.length
  ({ p with len := l }, l)
def Part.setPartType (p : Part) (t : UInt8) : Part := { p with typ := t }
def Part.getPartType (p : Part) : UInt8 := p.typ
def Part.setPartContent (p : Part) (c : Bytes) : Part := { p with content := c }
def Part.getPartContent (p : Part) : Bytes := p.content
/-- `UEPolicySectionContents.AppendUEPolicyPart` -/
def appendPart (l : List Part) (p : Part) : List Part := l ++ [p]

/-! ## Instruction -/
def Instr.zero : Instr := ⟨0, 0, []⟩
def Instr.setLen (i : Instr) (l : UInt16) : Instr := { i with len := l }
def Instr.getLen (i : Instr) : UInt16 := i.len
def Instr.setUpsc (i : Instr) (u : UInt16) : Instr := { i with upsc := u }
def Instr.getUpsc (i : Instr) : UInt16 := i.upsc
/-- `UEPolicySectionManagementSubListContents.AppendInstruction` -/
def appendInstr (l : List Instr) (i : Instr) : List Instr := l ++ [i]

/-! ## UEPolicySectionManagementSubList -/
def SubList.zero : SubList := ⟨0, 0, 0, 0, 0, 0, []⟩
def SubList.setLen (s : SubList) (l : UInt16) : SubList := { s with len := l }
def SubList.getLen (s : SubList) : UInt16 := s.len
/-- `SetPlmnDigit`: records MCC / MNC and, when they pass the range check, the three PLMN octets -/
def SubList.setPlmnDigit (s : SubList) (mcc mnc : Nat) : Outcome SubList := do
  let (a, b, c) ← UePolicy.setPlmnDigit mcc mnc
  pure { s with p1 := a, p2 := b, p3 := c, mcc := mcc, mnc := mnc }
def SubList.getPlmnDigit (s : SubList) : Nat × Nat := (s.mcc, s.mnc)
/-- `UEPolicySectionManagementListContent.AppendSublist` -/
def appendSubList (l : List SubList) (s : SubList) : List SubList := l ++ [s]

/-! ## Result / UEPolicySectionManagementSubResult -/
def Res.new : Res := ⟨0, 0, 0x6f⟩                                     -- `NewResult()`
def Res.setUpsc (r : Res) (u : UInt16) : Res := { r with upsc := u }
def Res.getUpsc (r : Res) : UInt16 := r.upsc
def appendRes (l : List Res) (r : Res) : List Res := l ++ [r]
def SubResult.zero : SubResult := ⟨0, 0, 0, 0, 0, 0, []⟩
def SubResult.setLen (s : SubResult) (l : UInt16) : SubResult := { s with len := l }
def SubResult.setPlmnDigit (s : SubResult) (mcc mnc : Nat) : Outcome SubResult := do
  let (a, b, c) ← UePolicy.setPlmnDigit mcc mnc
  pure { s with p1 := a, p2 := b, p3 := c, mcc := mcc, mnc := mnc }
def SubResult.getPlmnDigit (s : SubResult) : Nat × Nat := (s.mcc, s.mnc)
def appendSubResult (l : List SubResult) (s : SubResult) : List SubResult := l ++ [s]

/-! ## the two list IEs, the classmark, the messages, the delivery-service header -/
structure ListIe where
  iei : UInt8
  len : UInt16
  buf : Bytes
deriving DecidableEq, Repr
def ListIe.new (iei : UInt8) : ListIe := ⟨iei, 0, []⟩                 -- `NewUEPolicySectionManagementList/Result(iei)`
def ListIe.setIei (a : ListIe) (i : UInt8) : ListIe := { a with iei := i }
def ListIe.setLen (a : ListIe) (l : UInt16) : ListIe := { a with len := l }
/-- `Set…Content`: a copy of the argument -/
def ListIe.setContent (a : ListIe) (c : Bytes) : ListIe := { a with buf := c }
def ListIe.getContent (a : ListIe) : Bytes := a.buf

def Classmark.new : Classmark := ⟨0, 2, 0, 0⟩                          -- `NewUEPolicyNetworkClassmark()`: `SetLen(2)`
def Classmark.setIei (c : Classmark) (i : UInt8) : Classmark := { c with iei := i }
def Classmark.setLen (c : Classmark) (l : UInt8) : Classmark := { c with len := l }
/-- `SetNSSUI`: 0 and 1 are stored, anything else is an error -/
def Classmark.setNSSUI (c : Classmark) (v : UInt8) : Outcome Classmark :=
  if v = 0 then pure { c with nssui := 0 } else if v = 1 then pure { c with nssui := 1 } else .err .other

/-! ## descriptions: what a caller wants to build -/
structure PartD where
  len : UInt16
  byContent : Bool          -- call `SetLen_byContent` after setting the contents
  typ : UInt8
  content : Bytes
structure InstrD where
  len : UInt16
  upsc : UInt16
  parts : List PartD
structure SubListD where
  len : UInt16
  mcc : Nat
  mnc : Nat
  instrs : List InstrD
structure SubResultD where
  len : UInt16
  mcc : Nat
  mnc : Nat
  results : List (UInt16 × UInt16)      -- (UPSC, failed instruction order); the cause comes from `NewResult`

def buildPart (d : PartD) : Part :=
  let p := ((Part.zero.setLen d.len).setPartType d.typ).setPartContent d.content
  if d.byContent then p.setLenByContent.1 else p

def buildInstr (d : InstrD) : Instr :=
  let i := (Instr.zero.setLen d.len).setUpsc d.upsc
  { i with parts := d.parts.foldl (fun acc pd => appendPart acc (buildPart pd)) i.parts }

def buildSubList (d : SubListD) : Outcome SubList := do
  let s ← (SubList.zero.setLen d.len).setPlmnDigit d.mcc d.mnc
  pure { s with instrs := d.instrs.foldl (fun acc x => appendInstr acc (buildInstr x)) s.instrs }

/-- the list is grown with `AppendSublist`; the first `SetPlmnDigit` that fails aborts the script -/
def buildList : List SubListD → List SubList → Outcome (List SubList)
  | [], acc => pure acc
  | d :: ds, acc => do
    let s ← buildSubList d
    buildList ds (appendSubList acc s)

def buildRes (d : UInt16 × UInt16) : Res := { Res.new.setUpsc d.1 with order := d.2 }

def buildSubResult (d : SubResultD) : Outcome SubResult := do
  let s ← (SubResult.zero.setLen d.len).setPlmnDigit d.mcc d.mnc
  pure { s with results := d.results.foldl (fun acc x => appendRes acc (buildRes x)) s.results }

def buildResult : List SubResultD → List SubResult → Outcome (List SubResult)
  | [], acc => pure acc
  | d :: ds, acc => do
    let s ← buildSubResult d
    buildResult ds (appendSubResult acc s)

/-- MANAGE UE POLICY COMMAND through the API: `NewManageUEPolicyCommand(1)`, `SetPTI`, list IE via `SetIei` / `SetLen(len(contents))`
/ `Set…Content`, optional classmark via `NewUEPolicyNetworkClassmark` / `SetIei` / `SetNSSUI`; header via `SetHeaderPTI` /
`SetHeaderMessageType(1)`. Returns (header message type, message). -/
def buildCommand (pti iei : UInt8) (contents : Bytes) (cm : Option (UInt8 × UInt8)) : Outcome (UInt8 × Msg) := do
  let ie := ((ListIe.new iei).setLen (UInt16.ofNat contents.length)).setContent contents
  let c ← match cm with
    | none => pure none
    | some (ci, n) => do let c ← (Classmark.new.setIei ci).setNSSUI n; pure (some c)
  pure (1, .command pti 1 ie.iei ie.len ie.buf c)

def buildReject (pti iei : UInt8) (contents : Bytes) : UInt8 × Msg :=
  let ie := ((ListIe.new iei).setLen (UInt16.ofNat contents.length)).setContent contents
  (3, .reject pti 3 ie.iei ie.len ie.buf)

def buildComplete (pti : UInt8) : UInt8 × Msg := (2, .complete pti 2)

end NasVerif.Model.UePolicy
