import NasVerif.Prelude.GoLib
/-!
# Models of nasType/qos_flow_desc.go and nasType/qos_rule.go (C15)

`bytes.Buffer` + `binary.Read` are modelled as consuming a list: reading a `uint8` from an empty buffer is `io.EOF`
(`Err.empty`), reading a `uint16` from one remaining octet is `io.ErrUnexpectedEOF` (`Err.trunc`); `buf.Next(n)` returns
at most what is left. The distinction matters: `QoSFlowDescs.UnmarshalBinary` and `QoSRules.UnmarshalBinary` treat an
`io.EOF` as the regular end of the list. Slices are indexed with the checked primitives after the length guards, loops
carry fuel whose exhaustion is `panic`.
-/
namespace NasVerif.Model.Qos
open NasVerif

def readU8 : Bytes → Outcome (UInt8 × Bytes)
  | [] => .err .empty
  | b :: r => .ok (b, r)

def readU16 : Bytes → Outcome (UInt16 × Bytes)
  | [] => .err .empty
  | [_] => .err .trunc
  | a :: b :: r => .ok ((a.toUInt16 <<< 8) ||| b.toUInt16, r)

def be16 (v : UInt16) : Bytes := [(v >>> 8).toUInt8, v.toUInt8]
def be32 (v : UInt32) : Bytes := [(v >>> 24).toUInt8, (v >>> 16).toUInt8, (v >>> 8).toUInt8, v.toUInt8]

/-! ## QoS flow descriptions (TS 24.501 9.11.4.12) -/

inductive FlowParam
  | fiveQI (v : UInt8)
  | gfbrUl (unit : UInt8) (v : UInt16)
  | gfbrDl (unit : UInt8) (v : UInt16)
  | mfbrUl (unit : UInt8) (v : UInt16)
  | mfbrDl (unit : UInt8) (v : UInt16)
  | avgWindow (v : UInt16)
  | ebi (v : UInt8)
deriving DecidableEq, Repr

def FlowParam.ident : FlowParam → UInt8
  | .fiveQI _ => 1 | .gfbrUl .. => 2 | .gfbrDl .. => 3 | .mfbrUl .. => 4 | .mfbrDl .. => 5 | .avgWindow _ => 6 | .ebi _ => 7

/-- `parameter.MarshalBinary()` -/
def FlowParam.body : FlowParam → Bytes
  | .fiveQI v => [v]
  | .gfbrUl u v | .gfbrDl u v | .mfbrUl u v | .mfbrDl u v => u :: be16 v
  | .avgWindow v => be16 v
  | .ebi v => [v]

structure FlowDesc where
  qfi : UInt8
  op : UInt8
  params : List FlowParam
deriving DecidableEq, Repr

/-- `QoSFlowParameterList.MarshalBinary` -/
def marshalParams (l : List FlowParam) : Bytes :=
  l.flatMap fun p => p.ident :: UInt8.ofNat p.body.length :: p.body

/-- `QoSFlowDesc.MarshalBinary` -/
def marshalDesc (d : FlowDesc) : Bytes :=
  let n := UInt8.ofNat d.params.length
  let e : UInt8 := if n ≠ 0 then 1 else 0
  [d.qfi, d.op <<< 5, (e <<< 6) ||| n] ++ (if e = 1 then marshalParams d.params else [])

/-- `QoSFlowDescs.MarshalBinary` -/
def marshalDescs (l : List FlowDesc) : Bytes := l.flatMap marshalDesc

def bitRate (mk : UInt8 → UInt16 → FlowParam) (b : Bytes) : Outcome FlowParam := do
  let (u, r) ← readU8 b
  let (v, _) ← readU16 r
  pure (mk u v)

/-- `newQoSFlowParameters(id)` then `parameter.UnmarshalBinary(b)`; `none` = unknown identifier -/
def parseParam (id : UInt8) (b : Bytes) : Option (Outcome FlowParam) :=
  if id = 1 then some (do let (v, _) ← readU8 b; pure (.fiveQI v))
  else if id = 2 then some (bitRate .gfbrUl b)
  else if id = 3 then some (bitRate .gfbrDl b)
  else if id = 4 then some (bitRate .mfbrUl b)
  else if id = 5 then some (bitRate .mfbrDl b)
  else if id = 6 then some (do let (v, _) ← readU16 b; pure (.avgWindow v))
  else if id = 7 then some (do let (v, _) ← readU8 b; pure (.ebi v))
  else none

/-- `parseQoSFlowParameterList(buf, number)` -/
def parseParamList : Nat → Bytes → Outcome (List FlowParam × Bytes)
  | 0, buf => pure ([], buf)
  | n + 1, buf => do
    let (id, r1) ← readU8 buf
    let (len, r2) ← readU8 r1
    match parseParam id (r2.take len.toNat) with
    | none => .err .unknown
    | some o => do
      let p ← o
      let (ps, rest) ← parseParamList n (r2.drop len.toNat)
      pure (p :: ps, rest)

/-- `parseQoSFlowDesc(buf)` -/
def parseFlowDesc (buf : Bytes) : Outcome (FlowDesc × Bytes) := do
  let (qfi, r1) ← readU8 buf
  let (opOctet, r2) ← readU8 r1
  let (numOctet, r3) ← readU8 r2
  if numOctet ≠ 0 then do
    let (ps, rest) ← parseParamList (numOctet &&& 63).toNat r3
    pure (⟨qfi, opOctet >>> 5, ps⟩, rest)
  else pure (⟨qfi, opOctet >>> 5, []⟩, r3)

/-- the loop of `QoSFlowDescs.UnmarshalBinary`: an `io.EOF` from anywhere inside `parseQoSFlowDesc` ends the list -/
def unmarshalDescsLoop : Nat → Bytes → List FlowDesc → Outcome (List FlowDesc)
  | 0, _, _ => .panic
  | fuel + 1, buf, acc =>
    match parseFlowDesc buf with
    | .ok (d, rest) => unmarshalDescsLoop fuel rest (acc ++ [d])
    | .err .empty => pure acc
    | .err e => .err e
    | .panic => .panic

def unmarshalDescs (b : Bytes) : Outcome (List FlowDesc) := unmarshalDescsLoop (b.length + 1) b []

/-! ## QoS rules (TS 24.501 9.11.4.13) -/

inductive Comp
  | matchAll
  | ipv4Remote (addr mask : Bytes)
  | ipv4Local (addr mask : Bytes)
  | proto (v : UInt8)
  | localPort (v : UInt16)
  | localRange (lo hi : UInt16)
  | remotePort (v : UInt16)
  | remoteRange (lo hi : UInt16)
  | spi (v : UInt32)
  | tos (cls mask : UInt8)
  | flowLabel (v : UInt32)
  | dstMac (m : Bytes)
  | srcMac (m : Bytes)
  | ctagVid (v : UInt16)
  | stagVid (v : UInt16)
  | ctagPcp (v : UInt8)
  | stagPcp (v : UInt8)
  | etherType (v : UInt16)
deriving DecidableEq, Repr

/-- `component.Type()` (Table 9.11.4.13.1) -/
def Comp.type : Comp → UInt8
  | .matchAll => 0x01 | .ipv4Remote .. => 0x10 | .ipv4Local .. => 0x11 | .proto _ => 0x30 | .localPort _ => 0x40
  | .localRange .. => 0x41 | .remotePort _ => 0x50 | .remoteRange .. => 0x51 | .spi _ => 0x60 | .tos .. => 0x70
  | .flowLabel _ => 0x80 | .dstMac _ => 0x81 | .srcMac _ => 0x82 | .ctagVid _ => 0x83 | .stagVid _ => 0x84
  | .ctagPcp _ => 0x85 | .stagPcp _ => 0x86 | .etherType _ => 0x87

/-- `component.MarshalBinary()`: IPv4 components need 4-octet address and mask, a flow label must be below 2^19 -/
def Comp.body : Comp → Outcome Bytes
  | .matchAll => pure []
  | .ipv4Remote a m | .ipv4Local a m => if a.length ≠ 4 ∨ m.length ≠ 4 then .err .other else pure (a ++ m)
  | .proto v => pure [v]
  | .localPort v | .remotePort v => pure (be16 v)
  | .localRange lo hi | .remoteRange lo hi => pure (be16 lo ++ be16 hi)
  | .spi v => pure (be32 v)
  | .tos c m => pure (be16 ((c.toUInt16 <<< 8) ||| m.toUInt16))
  | .flowLabel v => if v ≥ (524288 : UInt32) then .err .other else pure ((be32 v).drop 1)
  | .dstMac m | .srcMac m => pure m
  | .ctagVid v | .stagVid v | .etherType v => pure (be16 v)
  | .ctagPcp v | .stagPcp v => pure [v]

structure PacketFilter where
  id : UInt8
  dir : UInt8
  comps : List Comp
deriving DecidableEq, Repr

structure Rule where
  id : UInt8
  op : UInt8
  dqr : Bool
  pfs : List PacketFilter
  prec : UInt8
  seg : Bool
  qfi : UInt8
deriving DecidableEq, Repr

def bool2bit (b : Bool) : UInt8 := if b then 1 else 0

/-- `PacketFilterComponentList.MarshalBinary` -/
def marshalComps : List Comp → Outcome Bytes
  | [] => pure []
  | c :: r => do
    let b ← c.body
    let rest ← marshalComps r
    pure (c.type :: b ++ rest)

/-- `buildPacketFilterList` -/
def buildPfList : List PacketFilter → Outcome Bytes
  | [] => pure []
  | pf :: r => do
    let cb ← marshalComps pf.comps
    let rest ← buildPfList r
    pure (((pf.dir <<< 4) ||| pf.id) :: UInt8.ofNat cb.length :: cb ++ rest)

/-- `buildPacketFilterDeleteList` -/
def buildPfDeleteList (l : List PacketFilter) : Bytes := l.map (·.id)

/-- one rule of `QoSRules.MarshalBinary` -/
def marshalRule (r : Rule) : Outcome Bytes := do
  let header : UInt8 := (r.op <<< 5) ||| (bool2bit r.dqr <<< 4) ||| UInt8.ofNat r.pfs.length
  let pfb ← (if r.op = 5 then pure (buildPfDeleteList r.pfs) else buildPfList r.pfs)
  let content := header :: pfb ++ [r.prec, (bool2bit r.seg <<< 6) ||| r.qfi]
  pure (r.id :: be16 (UInt16.ofNat content.length) ++ content)

def marshalRules : List Rule → Outcome Bytes
  | [] => pure []
  | r :: rs => do
    let a ← marshalRule r
    let b ← marshalRules rs
    pure (a ++ b)

/-- `component.Length()` by type; `none` = `newPacketFilterComponent` returns nil -/
def compLen (t : UInt8) : Option Nat :=
  if t = 0x01 then some 0 else if t = 0x10 ∨ t = 0x11 then some 8 else if t = 0x30 then some 1
  else if t = 0x40 ∨ t = 0x50 then some 2 else if t = 0x41 ∨ t = 0x51 then some 4 else if t = 0x60 then some 4
  else if t = 0x70 then some 2 else if t = 0x80 then some 3 else if t = 0x81 ∨ t = 0x82 then some 6
  else if t = 0x83 ∨ t = 0x84 ∨ t = 0x87 then some 2 else if t = 0x85 ∨ t = 0x86 then some 1 else none

def u16At (b : Bytes) (i : Nat) : Outcome UInt16 := do
  let x ← idx b i
  let y ← idx b (i + 1)
  pure ((x.toUInt16 <<< 8) ||| y.toUInt16)

/-- `component.UnmarshalBinary(b)` after `newPacketFilterComponent(t)`; the length guard comes first in every variant -/
def parseComp (t : UInt8) (len : Nat) (b : Bytes) : Outcome Comp :=
  if b.length ≠ len then .err .badLen
  else if t = 0x01 then pure .matchAll
  else if t = 0x10 then do let a ← slice b 0 4; let m ← slice b 4 8; pure (.ipv4Remote a m)
  else if t = 0x11 then do let a ← slice b 0 4; let m ← slice b 4 8; pure (.ipv4Local a m)
  else if t = 0x30 then do let v ← idx b 0; pure (.proto v)
  else if t = 0x40 then do let v ← u16At b 0; pure (.localPort v)
  else if t = 0x41 then do let lo ← u16At b 0; let hi ← u16At b 2; pure (.localRange lo hi)
  else if t = 0x50 then do let v ← u16At b 0; pure (.remotePort v)
  else if t = 0x51 then do let lo ← u16At b 0; let hi ← u16At b 2; pure (.remoteRange lo hi)
  else if t = 0x60 then do
    let a ← idx b 0; let b1 ← idx b 1; let c ← idx b 2; let d ← idx b 3
    pure (.spi ((a.toUInt32 <<< 24) ||| (b1.toUInt32 <<< 16) ||| (c.toUInt32 <<< 8) ||| d.toUInt32))
  else if t = 0x70 then do
    let v ← u16At b 0
    pure (.tos ((v &&& 0xff00) >>> 8).toUInt8 (v &&& 0x00ff).toUInt8)
  else if t = 0x80 then do
    let a ← idx b 0; let b1 ← idx b 1; let c ← idx b 2
    pure (.flowLabel ((a.toUInt32 <<< 16) ||| (b1.toUInt32 <<< 8) ||| c.toUInt32))
  else if t = 0x81 then pure (.dstMac b)
  else if t = 0x82 then pure (.srcMac b)
  else if t = 0x83 then do let v ← u16At b 0; pure (.ctagVid v)
  else if t = 0x84 then do let v ← u16At b 0; pure (.stagVid v)
  else if t = 0x85 then do let v ← idx b 0; pure (.ctagPcp v)
  else if t = 0x86 then do let v ← idx b 0; pure (.stagPcp v)
  else if t = 0x87 then do let v ← u16At b 0; pure (.etherType v)
  else .panic        -- a type with a length but no parser cannot occur (`compLen` and this chain list the same types)

/-- the loop of `PacketFilterComponentList.UnmarshalBinary` over the filter's contents -/
def parseComps : Nat → Bytes → List Comp → Outcome (List Comp)
  | 0, _, _ => .panic
  | fuel + 1, buf, acc =>
    match buf with
    | [] => pure acc                                     -- io.EOF on the type octet: end of the filter
    | t :: r =>
      match compLen t with
      | none => .err .unknown
      | some len => do
        let c ← parseComp t len (r.take len)
        parseComps fuel (r.drop len) (acc ++ [c])

/-- `parsePacketFilterList(buf, n)` -/
def parsePfList : Nat → Bytes → Outcome (List PacketFilter × Bytes)
  | 0, buf => pure ([], buf)
  | n + 1, buf => do
    let (h, r1) ← readU8 buf
    let (len, r2) ← readU8 r1
    let body := r2.take len.toNat
    let cs ← parseComps (body.length + 1) body []
    let (pfs, rest) ← parsePfList n (r2.drop len.toNat)
    pure (⟨h &&& 0x0f, (h &&& 0xf0) >>> 4, cs⟩ :: pfs, rest)

/-- `parsePacketFilterDeleteList(buf, n)` -/
def parsePfDeleteList : Nat → Bytes → Outcome (List PacketFilter × Bytes)
  | 0, buf => pure ([], buf)
  | n + 1, buf => do
    let (h, r) ← readU8 buf
    let (pfs, rest) ← parsePfDeleteList n r
    pure (⟨h &&& 0x0f, 0, []⟩ :: pfs, rest)

/-- one iteration of `QoSRules.UnmarshalBinary` after the identifier was read (the rule length is read and not used) -/
def parseRuleBody (id : UInt8) (buf : Bytes) : Outcome (Rule × Bytes) := do
  let (_, r1) ← readU16 buf
  let (h, r2) ← readU8 r1
  let op := h >>> 5
  let n := (h &&& 0x0f).toNat
  let (pfs, r3) ← (if op = 5 then parsePfDeleteList n r2 else parsePfList n r2)
  let (prec, r4) ← readU8 r3
  let (q, r5) ← readU8 r4
  pure (⟨id, op, (h &&& 0x10) ≠ 0, pfs, prec, (q >>> 6) ≠ 0, q &&& 63⟩, r5)

/-- the loop of `QoSRules.UnmarshalBinary`: only an `io.EOF` on the rule identifier ends the list; any other error,
`io.EOF` included, is returned -/
def unmarshalRulesLoop : Nat → Bytes → List Rule → Outcome (List Rule)
  | 0, _, _ => .panic
  | fuel + 1, buf, acc =>
    match buf with
    | [] => pure acc
    | id :: r =>
      match parseRuleBody id r with
      | .ok (rule, rest) => unmarshalRulesLoop fuel rest (acc ++ [rule])
      | .err e => .err e
      | .panic => .panic

def unmarshalRules (b : Bytes) : Outcome (List Rule) := unmarshalRulesLoop (b.length + 1) b []

end NasVerif.Model.Qos
