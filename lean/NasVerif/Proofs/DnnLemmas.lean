import NasVerif.Model.Convert
import NasVerif.Proofs.NoPanic
/-! helper lemmas for the DNN text accessor pair (C09): `strings.Split` / label coding / the `rfc1035tofqdn` loop -/
namespace NasVerif.Proofs.Dnn
open NasVerif NasVerif.Model.Convert

theorem splitDot_flat (s cur : Bytes) : (splitDot s cur).flatMap (fun g => g ++ [dot]) = cur ++ s ++ [dot] := by
  induction s generalizing cur with
  | nil => simp [splitDot]
  | cons c r ih =>
    unfold splitDot
    split
    · next h => subst h; simp [ih]
    · simp [ih]

theorem splitDot_ne_nil (s cur : Bytes) : splitDot s cur ≠ [] := by
  induction s generalizing cur with
  | nil => simp [splitDot]
  | cons c r ih => unfold splitDot; split <;> simp [ih]

theorem dnnLoop_labels (segs : List Bytes) (h : ∀ g ∈ segs, g.length ≤ 62) (fuel : Nat) (hf : segs.length < fuel) (acc : Bytes) :
    dnnLoop fuel (segs.flatMap fun g => UInt8.ofNat g.length :: g) acc = .ok (acc ++ segs.flatMap (fun g => g ++ [dot])) := by
  induction segs generalizing fuel acc with
  | nil =>
    cases fuel with
    | zero => omega
    | succ n => simp [dnnLoop, pure]
  | cons g r ih =>
    cases fuel with
    | zero => omega
    | succ n =>
      have hg : g.length ≤ 62 := h g (by simp)
      have hl : (UInt8.ofNat g.length).toNat = g.length := by simp; omega
      simp only [List.flatMap_cons, List.cons_append, dnnLoop, hl, List.take_left', List.drop_left']
      rw [ih (fun x hx => h x (by simp [hx])) n (by simp at hf; omega)]
      simp

end NasVerif.Proofs.Dnn
