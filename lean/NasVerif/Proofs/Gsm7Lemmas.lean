import NasVerif.Spec.Gsm7
/-!
# Lemmas for the network-name round trip (C17)

The packing loop keeps the invariant "the buffer, read little-endian, is below 2^(7i) and has ⌈7i/8⌉ octets", and each step adds
`c · 2^(7i)`: so the packed buffer is the base-128 number whose digits are the characters, and digit extraction gives them back.
-/
namespace NasVerif.Proofs.Gsm7
open NasVerif NasVerif.Model.Conv17 NasVerif.Spec.Gsm7

theorem leValue_append (a : Bytes) (x : UInt8) : leValue (a ++ [x]) = leValue a + 256 ^ a.length * x.toNat := by
  induction a with
  | nil => simp [leValue]
  | cons b r ih =>
    simp only [List.cons_append, leValue, ih, List.length_cons, Nat.pow_succ]
    have : 256 ^ r.length * 256 * x.toNat = 256 * (256 ^ r.length * x.toNat) := by
      rw [Nat.mul_comm (256 ^ r.length) 256, Nat.mul_assoc]
    omega

theorem dropLast_append_getLast (a : Bytes) (h : a ≠ []) : a.dropLast ++ [a.getLastD 0] = a := by
  induction a with
  | nil => exact absurd rfl h
  | cons b r ih =>
    cases r with
    | nil => simp [List.getLastD]
    | cons c r' =>
      have := ih (by simp)
      simp only [List.dropLast_cons_cons, List.cons_append]
      simp [List.getLastD] at this ⊢
      exact this

theorem pow256_pos (n : Nat) : 1 ≤ 256 ^ n := Nat.one_le_pow _ _ (by omega)

theorem leValue_lt (a : Bytes) : leValue a < 256 ^ a.length := by
  induction a with
  | nil => simp [leValue]
  | cons b r ih =>
    have hb := b.toNat_lt
    have := pow256_pos r.length
    simp only [leValue, List.length_cons, Nat.pow_succ]
    omega

theorem nat_shl_or' (x y k : Nat) (hy : y < 2 ^ k) : y ||| (x * 2 ^ k) = x * 2 ^ k + y := by
  rw [Nat.or_comm, ← Nat.shiftLeft_eq, ← Nat.shiftLeft_add_eq_or_of_lt hy]

theorem or_shift (last c : UInt8) (s : Nat) (hs1 : 1 ≤ s) (hs7 : s ≤ 7) (hl : last.toNat < 2 ^ s) :
    (last ||| (c <<< UInt8.ofNat s)).toNat = last.toNat + (c.toNat % 2 ^ (8 - s)) * 2 ^ s ∧
    (c >>> UInt8.ofNat (8 - s)).toNat = c.toNat / 2 ^ (8 - s) := by
  have hs : (UInt8.ofNat s).toNat = s := by simp; omega
  have hs' : (UInt8.ofNat (8 - s)).toNat = 8 - s := by simp; omega
  constructor
  · rw [UInt8.toNat_or, UInt8.toNat_shiftLeft, hs, Nat.mod_eq_of_lt (show s < 8 by omega), Nat.shiftLeft_eq]
    have h256 : (2:Nat) ^ 8 = 2 ^ (8 - s) * 2 ^ s := by rw [← Nat.pow_add]; congr 1; omega
    rw [h256, Nat.mul_mod_mul_right, nat_shl_or' _ _ _ hl, Nat.add_comm]
  · rw [UInt8.toNat_shiftRight, hs', Nat.mod_eq_of_lt (show 8 - s < 8 by omega), Nat.shiftRight_eq_div_pow]

/-- pure arithmetic: gluing the low part of a 7-bit character into the last octet and its high part into a new octet adds
`c · 2^s` at the position of the last octet -/
theorem glue (P Vi last c k1 k2 : Nat) (hk : k1 * k2 = 256) (_hk1 : 0 < k1) :
    Vi + P * (last + (c % k1) * k2) + (P * 256) * (c / k1) = (Vi + P * last) + (P * k2) * c := by
  have hc : c = k1 * (c / k1) + c % k1 := (Nat.div_add_mod c k1).symm
  generalize c / k1 = q at hc ⊢
  generalize c % k1 = r at hc ⊢
  subst hc
  have e1 : P * (last + r * k2) = P * last + P * r * k2 := by rw [Nat.mul_add, Nat.mul_assoc]
  have e2 : P * 256 * q = P * q * (k1 * k2) := by rw [hk, Nat.mul_assoc, Nat.mul_comm 256 q, ← Nat.mul_assoc]
  have e3 : P * k2 * (k1 * q + r) = P * q * (k1 * k2) + P * r * k2 := by
    rw [Nat.mul_add]
    congr 1
    · rw [Nat.mul_assoc P k2, Nat.mul_assoc P q, Nat.mul_comm k2 (k1 * q), Nat.mul_assoc k1 q k2, Nat.mul_comm q (k1 * k2),
        Nat.mul_assoc k1 k2 q, Nat.mul_comm k2 q]
    · rw [Nat.mul_assoc, Nat.mul_comm k2 r, ← Nat.mul_assoc]
  rw [e1, e2, e3]
  omega

theorem len_cases (i : Nat) :
    (7 * i % 8 = 0 → (7 * i + 7) / 8 = 7 * i / 8 ∧ (7 * (i + 1) + 7) / 8 = 7 * i / 8 + 1) ∧
    (7 * i % 8 = 1 → (7 * i + 7) / 8 = 7 * i / 8 + 1 ∧ (7 * (i + 1) + 7) / 8 = 7 * i / 8 + 1) ∧
    (7 * i % 8 > 1 → (7 * i + 7) / 8 = 7 * i / 8 + 1 ∧ (7 * (i + 1) + 7) / 8 = 7 * i / 8 + 2) := by
  have h := Nat.div_add_mod (7 * i) 8
  have hlt := Nat.mod_lt (7 * i) (show 8 > 0 by omega)
  generalize 7 * i / 8 = k at h ⊢
  generalize hs : 7 * i % 8 = s at h hlt ⊢
  have e1 : 7 * (i + 1) + 7 = 8 * k + s + 14 := by omega
  have e0 : 7 * i + 7 = 8 * k + s + 7 := by omega
  rw [e1, e0]
  have : s = 0 ∨ s = 1 ∨ s = 2 ∨ s = 3 ∨ s = 4 ∨ s = 5 ∨ s = 6 ∨ s = 7 := by omega
  rcases this with rfl | rfl | rfl | rfl | rfl | rfl | rfl | rfl <;> refine ⟨?_, ?_, ?_⟩ <;> intro hh <;> omega

def PInv (i : Nat) (buf : Bytes) : Prop := leValue buf < 2 ^ (7 * i) ∧ buf.length = (7 * i + 7) / 8

theorem and7f : ∀ n, n < 128 → UInt8.ofNat n &&& 0x7f = UInt8.ofNat n := by decide

theorem two_pow_pos (n : Nat) : 0 < 2 ^ n := Nat.pos_of_ne_zero (by simp)

theorem bound128 (V T X : Nat) (h1 : V < T) (h2 : X ≤ T * 127) : V + X < T * 128 := by omega

theorem packStep_spec (buf : Bytes) (i : Nat) (c : UInt8) (hc : c.toNat < 128) (h : PInv i buf) :
    PInv (i + 1) (packStep buf i c) ∧ leValue (packStep buf i c) = leValue buf + 2 ^ (7 * i) * c.toNat := by
  obtain ⟨hV, hL⟩ := h
  obtain ⟨lc0, lc1, lcg⟩ := len_cases i
  have hc7 : c &&& 0x7f = c := by
    have := and7f c.toNat hc; simpa using this
  have hT7 : 2 ^ (7 * (i + 1)) = 2 ^ (7 * i) * 128 := by
    rw [show 7 * (i + 1) = 7 * i + 7 by omega, Nat.pow_add]
  have hTc : 2 ^ (7 * i) * c.toNat ≤ 2 ^ (7 * i) * 127 := Nat.mul_le_mul_left _ (by omega)
  unfold packStep
  simp only [hc7]
  by_cases hs0 : 7 * i % 8 = 0
  · -- the character starts a new octet
    rw [if_pos hs0]
    obtain ⟨la, lb⟩ := lc0 hs0
    have hLen : buf.length = 7 * i / 8 := by omega
    have hP : (256 : Nat) ^ buf.length = 2 ^ (7 * i) := by
      rw [show (256 : Nat) = 2 ^ 8 from rfl, ← Nat.pow_mul]; congr 1; omega
    have hval : leValue (buf ++ [c]) = leValue buf + 2 ^ (7 * i) * c.toNat := by rw [leValue_append, hP]
    refine ⟨⟨?_, ?_⟩, hval⟩
    · rw [hval, hT7]; exact bound128 _ _ _ hV hTc
    · simp; omega
  · rw [if_neg hs0]
    -- the low bits go into the last octet, the high bits (if any) into a new one
    have hs1 : 1 ≤ 7 * i % 8 := by omega
    have hs7 : 7 * i % 8 ≤ 7 := by omega
    have hLk : buf.length = 7 * i / 8 + 1 := by
      by_cases h1 : 7 * i % 8 = 1
      · have := (lc1 h1).1; omega
      · have := (lcg (by omega)).1; omega
    have hne : buf ≠ [] := by
      intro hb; subst hb
      simp at hLk
    have hsplit := dropLast_append_getLast buf hne
    have hil : buf.dropLast.length = buf.length - 1 := by simp
    have hLpos : 1 ≤ buf.length := by cases buf with | nil => exact absurd rfl hne | cons _ _ => simp
    have hVsplit : leValue buf = leValue buf.dropLast + 256 ^ (buf.length - 1) * (buf.getLastD 0).toNat := by
      conv => lhs; rw [← hsplit]
      rw [leValue_append, hil]
    have hP : 2 ^ (7 * i) = 256 ^ (buf.length - 1) * 2 ^ (7 * i % 8) := by
      rw [show (256 : Nat) = 2 ^ 8 from rfl, ← Nat.pow_mul, ← Nat.pow_add]; congr 1; omega
    have hlast : (buf.getLastD 0).toNat < 2 ^ (7 * i % 8) := by
      have h1 : 256 ^ (buf.length - 1) * (buf.getLastD 0).toNat < 256 ^ (buf.length - 1) * 2 ^ (7 * i % 8) := by
        rw [← hP]; omega
      exact Nat.lt_of_mul_lt_mul_left h1
    obtain ⟨hor, hshr⟩ := or_shift (buf.getLastD 0) c (7 * i % 8) hs1 hs7 hlast
    have hk : 2 ^ (8 - 7 * i % 8) * 2 ^ (7 * i % 8) = 256 := by
      rw [← Nat.pow_add, show 8 - 7 * i % 8 + 7 * i % 8 = 8 by omega]
    have hglue := glue (256 ^ (buf.length - 1)) (leValue buf.dropLast) (buf.getLastD 0).toNat c.toNat
      (2 ^ (8 - 7 * i % 8)) (2 ^ (7 * i % 8)) hk (two_pow_pos _)
    rw [← hP, ← hVsplit] at hglue
    by_cases hgt : 7 * i % 8 > 1
    · rw [if_pos hgt]
      have hval : leValue ((buf.dropLast ++ [buf.getLastD 0 ||| c <<< UInt8.ofNat (7 * i % 8)]) ++ [c >>> UInt8.ofNat (8 - 7 * i % 8)])
          = leValue buf + 2 ^ (7 * i) * c.toNat := by
        rw [leValue_append, leValue_append, hor, hshr]
        simp only [List.length_append, List.length_cons, List.length_nil, hil]
        rw [show buf.length - 1 + (0 + 1) = buf.length - 1 + 1 by omega, Nat.pow_succ]
        exact hglue
      refine ⟨⟨?_, ?_⟩, hval⟩
      · rw [hval, hT7]; exact bound128 _ _ _ hV hTc
      · have := (lcg hgt).2; simp; omega
    · rw [if_neg hgt]
      have hs : 7 * i % 8 = 1 := by omega
      -- the whole character fits: 2·c < 256
      have hhi : c.toNat / 2 ^ (8 - 7 * i % 8) = 0 := by rw [hs]; simp; omega
      have hval : leValue (buf.dropLast ++ [buf.getLastD 0 ||| c <<< UInt8.ofNat (7 * i % 8)]) = leValue buf + 2 ^ (7 * i) * c.toNat := by
        rw [leValue_append, hor, hil]
        rw [hhi] at hglue
        simpa using hglue
      refine ⟨⟨?_, ?_⟩, hval⟩
      · rw [hval, hT7]; exact bound128 _ _ _ hV hTc
      · have := (lc1 hs).2; simp; omega


theorem packLoop_spec (cs : List UInt8) : ∀ (i : Nat) (buf : Bytes), (∀ c ∈ cs, c.toNat < 128) → PInv i buf →
    PInv (i + cs.length) (packLoop i cs buf) ∧ leValue (packLoop i cs buf) = leValue buf + 2 ^ (7 * i) * digits128 cs := by
  induction cs with
  | nil => intro i buf _ h; simpa [packLoop, digits128] using h
  | cons c cs ih =>
    intro i buf hcs h
    obtain ⟨h1, hv1⟩ := packStep_spec buf i c (hcs c (by simp)) h
    obtain ⟨h2, hv2⟩ := ih (i + 1) (packStep buf i c) (fun x hx => hcs x (by simp [hx])) h1
    simp only [packLoop, List.length_cons, digits128]
    refine ⟨by rw [show i + (cs.length + 1) = i + 1 + cs.length by omega]; exact h2, ?_⟩
    rw [hv2, hv1, show 7 * (i + 1) = 7 * i + 7 by omega, Nat.pow_add, Nat.mul_add, ← Nat.mul_assoc, Nat.mul_assoc (2 ^ (7 * i)) (2 ^ 7) _]
    simp [Nat.add_assoc]

theorem digit_extract (cs : List UInt8) (hcs : ∀ c ∈ cs, c.toNat < 128) :
    ∀ k (hk : k < cs.length), digits128 cs / 2 ^ (7 * k) % 128 = (cs[k]).toNat := by
  induction cs with
  | nil => intro k hk; simp at hk
  | cons c cs ih =>
    intro k hk
    have hc := hcs c (by simp)
    cases k with
    | zero => simp [digits128]; omega
    | succ k =>
      have hk' : k < cs.length := by simpa using hk
      have := ih (fun x hx => hcs x (by simp [hx])) k hk'
      simp only [digits128, List.getElem_cons_succ]
      rw [show 7 * (k + 1) = 7 + 7 * k by omega, Nat.pow_add, ← Nat.div_div_eq_div_mul]
      rw [show (c.toNat + 128 * digits128 cs) / 2 ^ 7 = digits128 cs by
        rw [show (2:Nat) ^ 7 = 128 from rfl]; omega]
      exact this

end NasVerif.Proofs.Gsm7
