import NasVerif.Proofs.UePolicyLemmas
import NasVerif.Proofs.IdentityLemmas
import NasVerif.Model.UePolicyApi
/-! helper lemmas for the API half of C18: what the construction scripts of `Model/UePolicyApi.lean` build, that it is well formed,
and the decoder's view of it (`expect…`, computed from the description alone) -/
namespace NasVerif.Proofs.UePolicy
open NasVerif NasVerif.Model.Qos NasVerif.Model.UePolicy NasVerif.Proofs.Qos NasVerif.Spec.Identity
set_option linter.unusedSimpArgs false
set_option linter.unusedVariables false

theorem foldl_append_map {α β} (f : α → β) (l : List α) (init : List β) :
    l.foldl (fun acc x => acc ++ [f x]) init = init ++ l.map f := by
  induction l generalizing init with
  | nil => simp
  | cons a r ih => simp [List.foldl, ih]

theorem flatten_map_singleton {α β} (f : α → β) (l : List α) : (l.map (fun x => [f x])).flatten = l.map f := by
  induction l with
  | nil => rfl
  | cons a r ih => simp [ih]

/-- what the part script builds -/
theorem buildPart_fields (d : PartD) :
    buildPart d = ⟨if d.byContent then 1 + UInt16.ofNat d.content.length else d.len, d.typ, d.content⟩ := by
  unfold buildPart
  cases d.byContent <;> simp [Part.zero, Part.setLen, Part.setPartType, Part.setPartContent, Part.setLenByContent]

theorem buildInstr_fields (d : InstrD) : buildInstr d = ⟨d.len, d.upsc, d.parts.map buildPart⟩ := by
  simp [buildInstr, Instr.zero, Instr.setLen, Instr.setUpsc, appendPart, flatten_map_singleton]

theorem buildSubList_fields (d : SubListD) (a b c : UInt8) (h : setPlmnDigit d.mcc d.mnc = .ok (a, b, c)) :
    buildSubList d = .ok ⟨d.len, a, b, c, d.mcc, d.mnc, d.instrs.map buildInstr⟩ := by
  simp [buildSubList, SubList.zero, SubList.setLen, SubList.setPlmnDigit, h, bind, Outcome.bind, pure, appendInstr, flatten_map_singleton]

theorem buildSubList_err (d : SubListD) (e) (h : setPlmnDigit d.mcc d.mnc = .err e) : buildSubList d = .err e := by
  simp [buildSubList, SubList.setPlmnDigit, h, bind, Outcome.bind]

/-! ### what a description is expected to decode to (every length computed from content) -/
def expectPart (d : PartD) : Part := ⟨UInt16.ofNat (1 + d.content.length), d.typ, d.content⟩
def expectInstr (d : InstrD) : Instr :=
  ⟨UInt16.ofNat (((d.parts.map expectPart).flatMap marshalPart).length + 2), d.upsc, d.parts.map expectPart⟩
def expectSubList (d : SubListD) : SubList :=
  let o := (plmnOfNumbers d.mcc d.mnc).octets
  ⟨UInt16.ofNat (3 + ((d.instrs.map expectInstr).flatMap marshalInstr).length), o.getD 0 0, o.getD 1 0, o.getD 2 0, d.mcc, d.mnc,
   d.instrs.map expectInstr⟩

def ValidPartD (d : PartD) : Prop :=
  (d.byContent = true ∨ d.len = 0 ∨ d.len.toNat = 1 + d.content.length) ∧ 1 + d.content.length < 65536
def ValidInstrD (d : InstrD) : Prop :=
  (∀ p ∈ d.parts, ValidPartD p) ∧ ((d.parts.map expectPart).flatMap marshalPart).length + 2 < 65536
def ValidSubListD (d : SubListD) : Prop :=
  100 ≤ d.mcc ∧ d.mcc ≤ 999 ∧ 9 ≤ d.mnc ∧ d.mnc ≤ 999 ∧ (∀ i ∈ d.instrs, ValidInstrD i) ∧
    3 + ((d.instrs.map expectInstr).flatMap marshalInstr).length < 65536

theorem wf_buildPart (d : PartD) (h : ValidPartD d) : WFPart (buildPart d) := by
  rw [buildPart_fields]
  obtain ⟨h1, h2⟩ := h
  refine ⟨?_, h2⟩
  by_cases hb : d.byContent = true
  · right
    simp only [hb, if_true]
    have : (1 : UInt16) + UInt16.ofNat d.content.length = UInt16.ofNat (1 + d.content.length) := by
      apply UInt16.toNat_inj.mp; simp
    rw [this]; simp; omega
  · simp only [hb]
    rcases h1 with h | h | h
    · exact absurd h hb
    · exact Or.inl h
    · exact Or.inr h

theorem norm_buildPart (d : PartD) : normPart (buildPart d) = expectPart d := by
  rw [buildPart_fields]; rfl

theorem marshal_buildPart (d : PartD) (h : ValidPartD d) : marshalPart (buildPart d) = marshalPart (expectPart d) := by
  have hw := wf_buildPart d h
  have he : WFPart (expectPart d) := by
    refine ⟨Or.inr ?_, h.2⟩
    simp [expectPart]; have := h.2; omega
  rw [marshalPart_eq _ hw, marshalPart_eq _ he, buildPart_fields]; rfl

theorem flatMap_congr' {α β} (f g : α → List β) (l : List α) (h : ∀ a ∈ l, f a = g a) : l.flatMap f = l.flatMap g := by
  induction l with
  | nil => rfl
  | cons a r ih =>
    simp only [List.flatMap_cons]
    rw [h a (by simp), ih (fun x hx => h x (by simp [hx]))]

theorem marshal_buildParts (ds : List PartD) (h : ∀ p ∈ ds, ValidPartD p) :
    (ds.map buildPart).flatMap marshalPart = (ds.map expectPart).flatMap marshalPart := by
  rw [List.flatMap_map, List.flatMap_map]
  exact flatMap_congr' _ _ ds (fun a ha => marshal_buildPart a (h a ha))

theorem wf_buildInstr (d : InstrD) (h : ValidInstrD d) : WFInstr (buildInstr d) := by
  rw [buildInstr_fields]
  refine ⟨?_, ?_⟩
  · intro p hp
    simp only [List.mem_map] at hp
    obtain ⟨pd, hpd, rfl⟩ := hp
    exact wf_buildPart pd (h.1 pd hpd)
  · show ((d.parts.map buildPart).flatMap marshalPart).length + 2 < 65536
    rw [marshal_buildParts d.parts h.1]; exact h.2

theorem norm_buildInstr (d : InstrD) (h : ValidInstrD d) : normInstr (buildInstr d) = expectInstr d := by
  rw [buildInstr_fields]
  simp only [normInstr, expectInstr, marshal_buildParts d.parts h.1, List.map_map]
  congr 1
  apply List.map_congr_left
  intro a _
  exact norm_buildPart a

theorem marshal_buildInstr (d : InstrD) (h : ValidInstrD d) : marshalInstr (buildInstr d) = marshalInstr (expectInstr d) := by
  rw [buildInstr_fields]
  simp only [marshalInstr, expectInstr, marshal_buildParts d.parts h.1]

theorem marshal_buildInstrs (ds : List InstrD) (h : ∀ p ∈ ds, ValidInstrD p) :
    (ds.map buildInstr).flatMap marshalInstr = (ds.map expectInstr).flatMap marshalInstr := by
  rw [List.flatMap_map, List.flatMap_map]
  exact flatMap_congr' _ _ ds (fun a ha => marshal_buildInstr a (h a ha))

/-! ### results through the API -/
def expectSubResult (d : SubResultD) : SubResult :=
  let o := (plmnOfNumbers d.mcc d.mnc).octets
  ⟨UInt16.ofNat (3 + 5 * d.results.length), o.getD 0 0, o.getD 1 0, o.getD 2 0, d.mcc, d.mnc,
   d.results.map fun x => ⟨x.1, x.2, 0x6f⟩⟩

def ValidSubResultD (d : SubResultD) : Prop :=
  100 ≤ d.mcc ∧ d.mcc ≤ 999 ∧ 9 ≤ d.mnc ∧ d.mnc ≤ 999 ∧ 3 + 5 * d.results.length < 65536

theorem buildRes_fields (x : UInt16 × UInt16) : buildRes x = ⟨x.1, x.2, 0x6f⟩ := rfl

theorem flatMap_marshalRes_len (l : List Res) : (l.flatMap marshalRes).length = 5 * l.length := by
  induction l with
  | nil => rfl
  | cons a r ih => simp [List.flatMap_cons, marshalRes_len, ih]; omega

theorem buildSubResult_fields (d : SubResultD) (a b c : UInt8) (h : setPlmnDigit d.mcc d.mnc = .ok (a, b, c)) :
    buildSubResult d = .ok ⟨d.len, a, b, c, d.mcc, d.mnc, d.results.map buildRes⟩ := by
  simp [buildSubResult, SubResult.zero, SubResult.setLen, SubResult.setPlmnDigit, h, bind, Outcome.bind, pure, appendRes,
    flatten_map_singleton]

end NasVerif.Proofs.UePolicy
