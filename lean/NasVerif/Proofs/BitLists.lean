import NasVerif.Spec.EEA
namespace NasVerif.Proofs.BitLists
open NasVerif NasVerif.Spec

/-- chunked flatMap: element t of the concatenation of k-long chunks -/
theorem flatMap_getD {α β} (f : α → List β) (k : Nat) (hk : 0 < k) (hf : ∀ a, (f a).length = k) (l : List α) (x : α) (d : β) (t : Nat)
    (ht : t < k * l.length) : (l.flatMap f).getD t d = (f (l.getD (t / k) x)).getD (t % k) d := by
  induction l generalizing t with
  | nil => simp at ht
  | cons a r ih =>
    simp only [List.flatMap_cons]
    by_cases h : t < k
    · rw [List.getD_eq_getElem?_getD, List.getElem?_append_left (by rw [hf]; exact h), Nat.div_eq_of_lt h, Nat.mod_eq_of_lt h]
      simp [List.getD_eq_getElem?_getD]
    · have hge : k ≤ t := by omega
      rw [List.getD_eq_getElem?_getD, List.getElem?_append_right (by rw [hf]; exact hge), hf, ← List.getD_eq_getElem?_getD]
      have hlen : t - k < k * r.length := by
        simp only [List.length_cons, Nat.mul_add, Nat.mul_one] at ht; omega
      rw [ih (t - k) hlen]
      have e1 : t / k = (t - k) / k + 1 := by
        rw [← Nat.sub_add_cancel hge] ; rw [Nat.add_div_right _ hk]; simp
      have e2 : t % k = (t - k) % k := by
        conv => lhs; rw [← Nat.sub_add_cancel hge]
        exact Nat.add_mod_right _ _
      rw [e1, e2]
      simp

theorem flatMap_length {α β} (f : α → List β) (k : Nat) (hf : ∀ a, (f a).length = k) (l : List α) :
    (l.flatMap f).length = k * l.length := by
  induction l with
  | nil => simp
  | cons a r ih => simp [List.flatMap_cons, hf, ih, Nat.mul_add]; omega

theorem byteBits_length (b : UInt8) : (byteBits b).length = 8 := by simp [byteBits]
theorem wordBits_length (w : BitVec 32) : (wordBits w).length = 32 := by simp [wordBits]
theorem bytesBits_length (bs : Bytes) : (bytesBits bs).length = 8 * bs.length := flatMap_length _ 8 byteBits_length bs
theorem wordsBits_length (ws : List (BitVec 32)) : (wordsBits ws).length = 32 * ws.length := flatMap_length _ 32 wordBits_length ws

theorem byteBits_getD (b : UInt8) (i : Nat) (hi : i < 8) : (byteBits b).getD i false = b.toNat.testBit (7 - i) := by
  simp [byteBits, List.getD_eq_getElem?_getD, hi]
theorem wordBits_getD (w : BitVec 32) (i : Nat) (hi : i < 32) : (wordBits w).getD i false = w.toNat.testBit (31 - i) := by
  simp [wordBits, List.getD_eq_getElem?_getD, hi]

theorem bytesBits_getD (bs : Bytes) (t : Nat) (ht : t < 8 * bs.length) :
    (bytesBits bs).getD t false = (bs.getD (t / 8) 0).toNat.testBit (7 - t % 8) := by
  unfold bytesBits
  rw [flatMap_getD byteBits 8 (by omega) byteBits_length bs 0 false t ht, byteBits_getD _ _ (Nat.mod_lt _ (by omega))]

theorem wordsBits_getD (ws : List (BitVec 32)) (t : Nat) (ht : t < 32 * ws.length) :
    (wordsBits ws).getD t false = (ws.getD (t / 32) 0).toNat.testBit (31 - t % 32) := by
  unfold wordsBits
  rw [flatMap_getD wordBits 32 (by omega) wordBits_length ws 0 false t ht, wordBits_getD _ _ (Nat.mod_lt _ (by omega))]

theorem ext_getD {α} (a b : List α) (d : α) (hl : a.length = b.length) (h : ∀ t, t < a.length → a.getD t d = b.getD t d) : a = b := by
  apply List.ext_getElem hl
  intro i h1 h2
  have := h i h1
  simpa [List.getD_eq_getElem?_getD, List.getElem?_eq_getElem h1, List.getElem?_eq_getElem h2] using this

theorem take_getD {α} (l : List α) (n t : Nat) (d : α) (h : t < n) : (l.take n).getD t d = l.getD t d := by
  simp [List.getD_eq_getElem?_getD, h]

theorem xorBits_getD (a b : List Bool) (t : Nat) (ha : t < a.length) (hb : t < b.length) :
    (xorBits a b).getD t false = (a.getD t false != b.getD t false) := by
  simp [xorBits, List.getD_eq_getElem?_getD, List.getElem?_zipWith, List.getElem?_eq_getElem ha, List.getElem?_eq_getElem hb]

theorem xorBits_length (a b : List Bool) : (xorBits a b).length = min a.length b.length := by simp [xorBits]

end NasVerif.Proofs.BitLists
