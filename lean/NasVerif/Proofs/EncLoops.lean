import NasVerif.Model.Security
/-!
# The byte loops of NEA1 / NEA3 in closed form, and panic-freedom of NIA1 / NIA3, at LENGTH = 8 · octets (the API path)

A Hoare rule for the model's `forRange`, a sweep invariant ("the octets written so far are input XOR keystream, the rest is
still zero"), and its instantiation for the two ciphers. The tail mask of NEA1 is shown not to touch any octet that is used.
-/
namespace NasVerif.Proofs.EncLoops
open NasVerif NasVerif.Model NasVerif.Model.Security
set_option linter.unusedSimpArgs false
set_option linter.unusedVariables false

/-- Hoare rule for `forRange`: an invariant indexed by the loop counter -/
theorem forRange_inv {α} (P : Nat → α → Prop) (f : Nat → α → Outcome α) (n i : Nat) (a : α) (h0 : P i a)
    (hstep : ∀ k a, i ≤ k → k < i + n → P k a → ∃ a', f k a = .ok a' ∧ P (k + 1) a') :
    ∃ a', forRange n i f a = .ok a' ∧ P (i + n) a' := by
  induction n generalizing i a with
  | zero => exact ⟨a, rfl, h0⟩
  | succ m ih =>
    obtain ⟨a1, h1, p1⟩ := hstep i a (Nat.le_refl _) (by omega) h0
    obtain ⟨a2, h2, p2⟩ := ih (i + 1) a1 p1 (fun k a hk hk2 hp => hstep k a (by omega) (by omega) hp)
    refine ⟨a2, ?_, by rw [show i + (m + 1) = i + 1 + m by omega]; exact p2⟩
    simp only [forRange, h1, h2]

/-- the octets written so far: positions below `m` hold input XOR keystream octet, the rest is still zero -/
def Sweep (p : Bytes) (kb : Nat → UInt8) (m : Nat) (obs : Bytes) : Prop :=
  obs.length = p.length ∧ ∀ idx, idx < p.length → obs.getD idx 0 = if idx < m then p.getD idx 0 ^^^ kb idx else 0

theorem sweep_step (p : Bytes) (kb : Nat → UInt8) (m : Nat) (obs : Bytes) (h : Sweep p kb m obs) (hm : m < p.length) (b : UInt8)
    (hb : b = kb m) : ∃ obs', xorAt p m b obs = .ok obs' ∧ Sweep p kb (m + 1) obs' := by
  obtain ⟨hl, hv⟩ := h
  refine ⟨obs.set m (p.getD m 0 ^^^ b), by simp [xorAt, hm, hl], by simp [hl], ?_⟩
  intro idx hidx
  by_cases he : idx = m
  · subst he
    simp [List.getD_eq_getElem?_getD, List.getElem?_set, hl, hidx, hb]
  · have := hv idx hidx
    rw [List.getD_eq_getElem?_getD] at this ⊢
    rw [List.getElem?_set, if_neg (Ne.symm he), this]
    by_cases h1 : idx < m
    · simp [h1, show idx < m + 1 by omega]
    · simp [h1, show ¬ idx < m + 1 by omega]

theorem sweep_zero (p : Bytes) (kb : Nat → UInt8) : Sweep p kb 0 (List.replicate p.length 0) := by
  refine ⟨by simp, ?_⟩
  intro idx hidx
  simp [List.getD_eq_getElem?_getD, List.getElem?_replicate, hidx]

theorem sweep_full (p : Bytes) (kb : Nat → UInt8) (obs : Bytes) (h : Sweep p kb p.length obs) :
    obs = Spec.AES.xorB p ((List.range p.length).map kb) := by
  obtain ⟨hl, hv⟩ := h
  apply List.ext_getElem
  · simp [Spec.AES.xorB, hl]
  · intro i h1 h2
    have := hv i (by omega)
    rw [List.getD_eq_getElem?_getD, List.getElem?_eq_getElem h1] at this
    simp only [Option.getD_some] at this
    rw [this, if_pos (by omega)]
    simp [Spec.AES.xorB, List.getD_eq_getElem?_getD, List.getElem?_eq_getElem (show i < p.length by omega)]

/-! ## NEA3 at LENGTH = 8 · octets -/

def zucStream (ck : Bytes) (count : W32) (bearer direction : UInt8) (l : Nat) : List W32 :=
  let iv8 := put32 count ++ [(bearer <<< 3) ||| (direction <<< 2), 0, 0, 0]
  Zuc.Zuc (toBV8 ck) (toBV8 (iv8 ++ iv8)) l

/-- keystream octet `idx` when `n` octets are ciphered -/
def kb3 (ck : Bytes) (count : W32) (bearer direction : UInt8) (n idx : Nat) : UInt8 :=
  ksByte ((zucStream ck count bearer direction ((n * 8 + 31) / 32)).getD (idx / 4) 0) (idx % 4)

theorem nea3_bytes (ck : Bytes) (count : W32) (bearer direction : UInt8) (p : Bytes) :
    NEA3 ck count bearer direction p (p.length * 8) =
      .ok (Spec.AES.xorB p ((List.range p.length).map (kb3 ck count bearer direction p.length))) := by
  unfold NEA3
  simp only []
  have hnb : (p.length * 8 + 7) / 8 = p.length := by omega
  have hmod : p.length * 8 % 8 = 0 := by omega
  have hdiv : p.length * 8 / 8 = p.length := by omega
  rw [hnb]
  -- the stream used by the code is `zucStream`
  have hstream : Zuc.Zuc (toBV8 ck) (toBV8 ((put32 count ++ [(bearer <<< 3) ||| (direction <<< 2), 0, 0, 0]) ++
      (put32 count ++ [(bearer <<< 3) ||| (direction <<< 2), 0, 0, 0]))) ((p.length * 8 + 31) / 32) =
      zucStream ck count bearer direction ((p.length * 8 + 31) / 32) := rfl
  rw [hstream]
  generalize hS : zucStream ck count bearer direction ((p.length * 8 + 31) / 32) = stream
  have hkb : ∀ idx, kb3 ck count bearer direction p.length idx = ksByte (stream.getD (idx / 4) 0) (idx % 4) := by
    intro idx; unfold kb3; rw [hS]
  generalize hkbdef : kb3 ck count bearer direction p.length = kb at hkb ⊢
  -- outer loop
  obtain ⟨obs, hrun, hinv⟩ := forRange_inv (fun i obs => Sweep p kb (min (4 * i) p.length) obs)
    (fun i obs => forRange 4 0 (fun j obs => if i * 4 + j < p.length then xorAt p (i * 4 + j) (ksByte (stream.getD i 0) j) obs else .ok obs) obs)
    ((p.length * 8 + 31) / 32) 0 (List.replicate p.length 0) (by simpa using sweep_zero p kb)
    (by
      intro i obs0 _ _ h0
      obtain ⟨obs1, hr, hi⟩ := forRange_inv (fun j obs => Sweep p kb (min (4 * i + j) p.length) obs)
        (fun j obs => if i * 4 + j < p.length then xorAt p (i * 4 + j) (ksByte (stream.getD i 0) j) obs else .ok obs)
        4 0 obs0 (by simpa using h0)
        (by
          intro j obs2 _ hj hs
          by_cases hlt : i * 4 + j < p.length
          · rw [if_pos hlt]
            have hmin : min (4 * i + j) p.length = i * 4 + j := by omega
            rw [hmin] at hs
            obtain ⟨obs3, h3, s3⟩ := sweep_step p kb (i * 4 + j) obs2 hs hlt (ksByte (stream.getD i 0) j)
              (by rw [hkb]; congr 2 <;> omega)
            exact ⟨obs3, h3, by rw [show min (4 * i + (j + 1)) p.length = i * 4 + j + 1 by omega]; exact s3⟩
          · rw [if_neg hlt]
            exact ⟨obs2, rfl, by rw [show min (4 * i + (j + 1)) p.length = min (4 * i + j) p.length by omega]; exact hs⟩)
      exact ⟨obs1, hr, by rw [show 4 * (i + 1) = 4 * i + (0 + 4) by omega]; exact hi⟩)
  simp only [Nat.zero_add] at hinv hrun
  have hfull : min (4 * ((p.length * 8 + 31) / 32)) p.length = p.length := by omega
  rw [hfull] at hinv
  rw [hrun]
  simp only [hmod, ne_eq, not_true_eq_false, if_false, hdiv]
  have hl := hinv.1
  rw [sweep_full p kb obs hinv]
  simp [Spec.AES.xorB]
  apply List.take_of_length_le
  simp

/-! ## NEA1 at LENGTH = 8 · octets -/

theorem ksByte_mask (w M : W32) (j t : Nat) (ht : t ≤ 32) (hs : 8 * (3 - j) + t = 32)
    (hM : M.toNat >>> (8 * (3 - j)) = 2 ^ t - 1) : ksByte (w &&& M) j = ksByte w j := by
  unfold ksByte
  congr 1
  simp only [BitVec.toNat_ushiftRight, BitVec.toNat_and, Nat.shiftRight_and_distrib, hM, Nat.and_two_pow_sub_one_eq_mod]
  have hw := w.isLt
  have : w.toNat >>> (8 * (3 - j)) < 2 ^ t := by
    rw [Nat.shiftRight_eq_div_pow]
    apply Nat.div_lt_of_lt_mul
    rw [← Nat.pow_add, hs]; exact hw
  rw [Nat.mod_eq_of_lt this]

/-- the tail mask of NEA1 (keep the top `8·m` bits of the last keystream word) does not touch the octets that are used -/
theorem nea1_mask_irrelevant (w : W32) (m j : Nat) (hm : 1 ≤ m ∧ m ≤ 3) (hj : j < m) :
    ksByte (w &&& ~~~ ((1#32 <<< (32 - 8 * m)) - 1#32)) j = ksByte w j := by
  obtain ⟨h1, h3⟩ := hm
  have hm' : m = 1 ∨ m = 2 ∨ m = 3 := by omega
  rcases hm' with rfl | rfl | rfl
  · have : j = 0 := by omega
    subst this
    exact ksByte_mask w _ 0 8 (by omega) (by omega) (by decide)
  · have : j = 0 ∨ j = 1 := by omega
    rcases this with rfl | rfl
    · exact ksByte_mask w _ 0 8 (by omega) (by omega) (by decide)
    · exact ksByte_mask w _ 1 16 (by omega) (by omega) (by decide)
  · have : j = 0 ∨ j = 1 ∨ j = 2 := by omega
    rcases this with rfl | rfl | rfl
    · exact ksByte_mask w _ 0 8 (by omega) (by omega) (by decide)
    · exact ksByte_mask w _ 1 16 (by omega) (by omega) (by decide)
    · exact ksByte_mask w _ 2 24 (by omega) (by omega) (by decide)

def snowIv (count bearer direction : W32) : List W32 :=
  let w0 := (bearer <<< 27) ||| (direction <<< 26)
  [w0, count, w0, count]

/-- keystream octet `idx` when `n` octets are ciphered with NEA1 (unmasked keystream words) -/
def kb1 (ck : Bytes) (count bearer direction : W32) (n idx : Nat) : UInt8 :=
  ksByte ((Snow3g.GetKeyStream (keyWords ck) (snowIv count bearer direction) ((n * 8 + 31) / 32)).getD (idx / 4) 0) (idx % 4)

theorem nea1_bytes (ck : Bytes) (count bearer direction : W32) (p : Bytes) :
    NEA1 ck count bearer direction p (p.length * 8) =
      .ok (Spec.AES.xorB p ((List.range p.length).map (kb1 ck count bearer direction p.length))) := by
  unfold NEA1
  simp only []
  have hiv : [(bearer <<< 27) ||| (direction <<< 26), count, (bearer <<< 27) ||| (direction <<< 26), count] = snowIv count bearer direction := rfl
  rw [hiv]
  generalize hks0 : Snow3g.GetKeyStream (keyWords ck) (snowIv count bearer direction) ((p.length * 8 + 31) / 32) = ks0
  have hl0 : ks0.length = (p.length * 8 + 31) / 32 := by rw [← hks0, Snow3g.GetKeyStream_length]
  have hkb : ∀ idx, kb1 ck count bearer direction p.length idx = ksByte (ks0.getD (idx / 4) 0) (idx % 4) := by
    intro idx; unfold kb1; rw [hks0]
  generalize hkbdef : kb1 ck count bearer direction p.length = kb at hkb ⊢
  have hq : p.length * 8 / 32 = p.length / 4 := by omega
  have hr : p.length * 8 % 32 = 8 * (p.length % 4) := by omega
  rw [hq, hr]
  -- the keystream actually indexed: last word masked when a partial word exists
  generalize hks : (if 8 * (p.length % 4) ≠ 0 then
      ks0.set ((p.length * 8 + 31) / 32 - 1)
        (ks0.getD ((p.length * 8 + 31) / 32 - 1) 0 &&& ~~~ ((1#32 <<< (32 - 8 * (p.length % 4))) - 1#32)) else ks0) = ks
  have hlen : ks.length = (p.length * 8 + 31) / 32 := by rw [← hks]; split <;> simp [hl0]
  -- octets of the words actually used agree with the unmasked keystream
  have hbyte : ∀ i j, j < 4 → i * 4 + j < p.length → ksByte (ks.getD i 0) j = kb (i * 4 + j) := by
    intro i j hj hlt
    rw [hkb, show (i * 4 + j) / 4 = i by omega, show (i * 4 + j) % 4 = j by omega, ← hks]
    by_cases hm : 8 * (p.length % 4) ≠ 0
    · rw [if_pos hm]
      by_cases hi : i = (p.length * 8 + 31) / 32 - 1
      · have hil : i < ks0.length := by omega
        rw [List.getD_eq_getElem?_getD, List.getElem?_set, if_pos hi.symm]
        simp only [hil, if_true, Option.getD_some, ← hi]
        have hjm : j < p.length % 4 := by omega
        exact nea1_mask_irrelevant _ (p.length % 4) j (by omega) hjm
      · rw [List.getD_eq_getElem?_getD, List.getElem?_set, if_neg (Ne.symm hi), ← List.getD_eq_getElem?_getD]
    · rw [if_neg hm]
  -- the inner loop over the octets of word `i`
  have hword : ∀ i c obs0, c ≤ 4 → i * 4 + c ≤ p.length → i < ks.length → Sweep p kb (i * 4) obs0 →
      ∃ obs1, forRange c 0 (fun j obs => if i < ks.length then xorAt p (4 * i + j) (ksByte (ks.getD i 0) j) obs else .panic) obs0 = .ok obs1 ∧
        Sweep p kb (i * 4 + c) obs1 := by
    intro i c obs0 hc hle hi h0
    obtain ⟨obs1, hr1, hi1⟩ := forRange_inv (fun j obs => Sweep p kb (i * 4 + j) obs)
      (fun j obs => if i < ks.length then xorAt p (4 * i + j) (ksByte (ks.getD i 0) j) obs else .panic) c 0 obs0 (by simpa using h0)
      (by
        intro j obs2 _ hj hs
        rw [if_pos hi, show 4 * i + j = i * 4 + j by omega]
        obtain ⟨obs3, h3, s3⟩ := sweep_step p kb (i * 4 + j) obs2 hs (by omega) _ (hbyte i j (by omega) (by omega))
        exact ⟨obs3, h3, by rw [show i * 4 + (j + 1) = i * 4 + j + 1 by omega]; exact s3⟩)
    exact ⟨obs1, hr1, by simpa using hi1⟩
  -- the loop over full words
  obtain ⟨obs, hrun, hinv⟩ := forRange_inv (fun i obs => Sweep p kb (i * 4) obs)
    (fun i obs => forRange 4 0 (fun j obs => if i < ks.length then xorAt p (4 * i + j) (ksByte (ks.getD i 0) j) obs else .panic) obs)
    (p.length / 4) 0 (List.replicate p.length 0) (by simpa using sweep_zero p kb)
    (by
      intro i obs0 _ hi h0
      obtain ⟨obs1, h1, s1⟩ := hword i 4 obs0 (by omega) (by omega) (by omega) h0
      exact ⟨obs1, h1, by rw [show (i + 1) * 4 = i * 4 + 4 by omega]; exact s1⟩)
  simp only [Nat.zero_add] at hrun hinv
  rw [hrun]
  simp only []
  by_cases hm : 8 * (p.length % 4) ≠ 0
  · rw [if_pos hm]
    have hc : (8 * (p.length % 4) + 7) / 8 = p.length % 4 := by omega
    rw [hc]
    obtain ⟨obs1, h1, s1⟩ := hword (p.length / 4) (p.length % 4) obs (by omega) (by omega) (by omega) hinv
    rw [h1]
    have : p.length / 4 * 4 + p.length % 4 = p.length := by omega
    rw [this] at s1
    rw [sweep_full p kb obs1 s1]
  · rw [if_neg hm]
    have : p.length / 4 * 4 = p.length := by omega
    rw [this] at hinv
    rw [sweep_full p kb obs hinv]

/-! ## keystream octet sequences: length and prefix stability -/

def ks1 (ck : Bytes) (count bearer direction : W32) (n : Nat) : Bytes := (List.range n).map (kb1 ck count bearer direction n)
def ks3 (ck : Bytes) (count : W32) (bearer direction : UInt8) (n : Nat) : Bytes := (List.range n).map (kb3 ck count bearer direction n)

theorem getD_of_take_eq {α} (a b : List α) (n i : Nat) (d : α) (h : a.take n = b) (hi : i < n) : a.getD i d = b.getD i d := by
  rw [← h, List.getD_eq_getElem?_getD, List.getD_eq_getElem?_getD, List.getElem?_take, if_pos hi]

theorem kb1_stable (ck : Bytes) (count bearer direction : W32) (n m idx : Nat) (hmn : m ≤ n) (hidx : idx < m) :
    kb1 ck count bearer direction n idx = kb1 ck count bearer direction m idx := by
  unfold kb1
  have hle : (m * 8 + 31) / 32 ≤ (n * 8 + 31) / 32 := by omega
  obtain ⟨d, hd⟩ := Nat.exists_eq_add_of_le hle
  rw [hd]
  rw [getD_of_take_eq _ _ ((m * 8 + 31) / 32) (idx / 4) 0 (Snow3g.GetKeyStream_prefix _ _ _ d) (by omega)]

theorem kb3_stable (ck : Bytes) (count : W32) (bearer direction : UInt8) (n m idx : Nat) (hmn : m ≤ n) (hidx : idx < m) :
    kb3 ck count bearer direction n idx = kb3 ck count bearer direction m idx := by
  unfold kb3 zucStream
  have hle : (m * 8 + 31) / 32 ≤ (n * 8 + 31) / 32 := by omega
  obtain ⟨d, hd⟩ := Nat.exists_eq_add_of_le hle
  rw [hd]
  simp only []
  rw [getD_of_take_eq _ _ ((m * 8 + 31) / 32) (idx / 4) 0 (Zuc.Zuc_prefix _ _ _ d) (by omega)]

theorem range_map_take {α} (f g : Nat → α) (n m : Nat) (hmn : m ≤ n) (h : ∀ i, i < m → f i = g i) :
    ((List.range n).map f).take m = (List.range m).map g := by
  apply List.ext_getElem
  · simp [Nat.min_eq_left hmn]
  · intro i h1 h2
    simp at h1 h2
    simp [h i (by omega)]

theorem ks1_length (ck : Bytes) (c b d : W32) (n : Nat) : (ks1 ck c b d n).length = n := by simp [ks1]
theorem ks3_length (ck : Bytes) (c : W32) (b d : UInt8) (n : Nat) : (ks3 ck c b d n).length = n := by simp [ks3]

theorem ks1_prefix (ck : Bytes) (c b d : W32) (n m : Nat) (h : m ≤ n) : (ks1 ck c b d n).take m = ks1 ck c b d m :=
  range_map_take _ _ n m h (fun i hi => kb1_stable ck c b d n m i h hi)

theorem ks3_prefix (ck : Bytes) (c : W32) (b d : UInt8) (n m : Nat) (h : m ≤ n) : (ks3 ck c b d n).take m = ks3 ck c b d m :=
  range_map_take _ _ n m h (fun i hi => kb3_stable ck c b d n m i h hi)

theorem xorB_length_eq (p ks : Bytes) (h : ks.length = p.length) : (Spec.AES.xorB p ks).length = p.length := by
  simp [Spec.AES.xorB, h]

theorem copy_same (p out : Bytes) (h : out.length = p.length) : out.take p.length ++ p.drop out.length = out := by
  rw [← h, List.take_length, h, List.drop_length, List.append_nil]

/-- the in-place API for algorithms 1 and 3: payload XOR a keystream that depends on (key, COUNT, bearer, direction) and
the length only -/
theorem nasEncrypt13_form (E : Bytes → Bytes → Bytes) (algo : UInt8) (key : Bytes) (count : W32) (b d : UInt8) (q : Bytes)
    (ha : algo = 1 ∨ algo = 3) (hb : ¬ b > 0x1f) (hd : ¬ d > 1) :
    NASEncrypt E algo key count b d (some q) = .ok ⟨false, some (Spec.AES.xorB q
      (if algo = 1 then ks1 key count (BitVec.ofNat 32 b.toNat) (BitVec.ofNat 32 d.toNat) q.length else ks3 key count b d q.length))⟩ := by
  rcases ha with rfl | rfl
  · have hl := xorB_length_eq q (ks1 key count (BitVec.ofNat 32 b.toNat) (BitVec.ofNat 32 d.toNat) q.length) (ks1_length _ _ _ _ _)
    simp only [NASEncrypt, hb, hd, if_false, nea1_bytes]
    simp only [show (1 : UInt8) ≠ 0 from by decide, if_false, if_true]
    have := copy_same q _ hl
    unfold ks1 at this ⊢
    rw [this]
  · have hl := xorB_length_eq q (ks3 key count b d q.length) (ks3_length _ _ _ _ _)
    simp only [NASEncrypt, hb, hd, if_false, nea3_bytes]
    simp only [show (3 : UInt8) ≠ 0 from by decide, show (3 : UInt8) ≠ 1 from by decide, show (3 : UInt8) ≠ 2 from by decide, if_false, if_true]
    have := copy_same q _ hl
    unfold ks3 at this ⊢
    rw [this]

/-! ## NIA1 / NIA3 never panic through the API (LENGTH = 8 · octets) -/

theorem forRange_ok {α} (f : Nat → α → Outcome α) (n i : Nat) (a : α)
    (hstep : ∀ k a, i ≤ k → k < i + n → ∃ a', f k a = .ok a') : ∃ a', forRange n i f a = .ok a' := by
  obtain ⟨a', h, _⟩ := forRange_inv (fun _ _ => True) f n i a trivial
    (fun k a hk hk2 _ => by obtain ⟨a', h⟩ := hstep k a hk hk2; exact ⟨a', h, trivial⟩)
  exact ⟨a', h⟩

theorem forRange_ok' {α} (f : Nat → α → Outcome α) (n i : Nat) (a : α)
    (hstep : ∀ k a, i ≤ k → k < i + n → ∃ a', f k a = .ok a') : forRange n i f a ≠ .panic ∧ ∀ e, forRange n i f a ≠ .err e := by
  obtain ⟨a', h⟩ := forRange_ok f n i a hstep
  rw [h]
  constructor
  · intro hc; cases hc
  · intro e hc; cases hc

theorem uint64At_ok (b : Bytes) (h : 8 ≤ b.length) : ∃ w, uint64At b = .ok w := by
  unfold uint64At; rw [if_neg (by omega)]; exact ⟨_, rfl⟩

theorem nia1Blocks_ok (msg : Bytes) (P c : W64) :
    ∃ ev, nia1Blocks msg (msg.length * 8) ((msg.length * 8 + 63) / 64 + 1) P c = .ok ev := by
  unfold nia1Blocks
  by_cases h0 : msg.length * 8 > 0
  · rw [if_pos h0]
    have hD : (msg.length * 8 + 63) / 64 + 1 - 2 = (msg.length * 8 + 63) / 64 - 1 := by omega
    rw [hD]
    obtain ⟨ev, hev⟩ := forRange_ok (nia1Step msg P c) ((msg.length * 8 + 63) / 64 - 1) 0 0#64
      (by
        intro k a _ hk
        unfold nia1Step
        rw [if_pos (by omega)]
        obtain ⟨w, hw⟩ := uint64At_ok (msg.drop (8 * k)) (by simp; omega)
        rw [hw]; exact ⟨_, rfl⟩)
    rw [hev]
    simp only []
    rw [if_pos (by omega)]
    exact ⟨_, rfl⟩
  · rw [if_neg h0]
    exact ⟨_, rfl⟩

theorem nia1_no_panic (ik : Bytes) (count : W32) (bearer : UInt8) (direction : W32) (msg : Bytes) :
    ∃ mac, NIA1 ik count bearer direction msg (msg.length * 8) = .ok mac := by
  unfold NIA1
  simp only []
  obtain ⟨ev, hev⟩ := nia1Blocks_ok msg _ 0x1b#64
  rw [hev]
  exact ⟨_, rfl⟩

theorem getWord_ok (stream : List W32) (i : Nat) (h : i / 32 + 1 < stream.length ∨ (i % 32 = 0 ∧ i / 32 < stream.length)) :
    ∃ w, getWord stream i = .ok w := by
  unfold getWord
  simp only []
  by_cases hb : i % 32 = 0
  · rw [if_pos hb, if_pos (by omega)]; exact ⟨_, rfl⟩
  · rw [if_neg hb, if_pos (by omega)]; exact ⟨_, rfl⟩

theorem genMac_ok (m : Bytes) (stream : List W32) (hl : stream.length = (m.length * 8 + 31) / 32 + 2) :
    ∃ mac, genMac m stream (m.length * 8) = .ok mac := by
  unfold genMac
  have hstep : ∀ (k : Nat) (t : W32), 0 ≤ k → k < 0 + m.length * 8 → ∃ a', genMacStep m stream k t = .ok a' := by
    intro k t _ hk
    unfold genMacStep
    rw [if_pos (by omega)]
    split
    · obtain ⟨w, hw⟩ := getWord_ok stream k (Or.inl (by omega))
      rw [hw]; exact ⟨_, rfl⟩
    · exact ⟨_, rfl⟩
  obtain ⟨t, ht⟩ := forRange_ok (genMacStep m stream) (m.length * 8) 0 0#32 hstep
  obtain ⟨a, ha⟩ := getWord_ok stream (m.length * 8) (Or.inl (by omega))
  obtain ⟨b, hb⟩ := getWord_ok stream (32 * (stream.length - 1)) (Or.inr ⟨by omega, by omega⟩)
  rw [ht]
  simp only [genMacFin, ha, hb]
  exact ⟨_, rfl⟩

theorem nia3_no_panic (ik : Bytes) (count : W32) (bearer direction : UInt8) (msg : Bytes) :
    ∃ mac, NIA3 ik count bearer direction msg (msg.length * 8) = .ok mac := by
  unfold NIA3
  simp only []
  exact genMac_ok msg _ (by rw [Zuc.Zuc_length])

end NasVerif.Proofs.EncLoops
