/-! Bit-level helper lemmas (core only). -/
namespace NasVerif.Bits

/-- the `n` low bits set, at width `w` -/
def lowMask (w n : Nat) : BitVec w := BitVec.ofNat w (2^n - 1)

theorem getLsbD_lowMask (w n i : Nat) (hn : n ≤ w) : (lowMask w n).getLsbD i = decide (i < n ∧ i < w) := by
  unfold lowMask
  rw [BitVec.getLsbD_ofNat, Nat.testBit_two_pow_sub_one]
  by_cases h8 : i < w <;> by_cases hi : i < n <;> simp [h8, hi]

theorem toNat_and_lowMask (w n : Nat) (hn : n ≤ w) (c : BitVec w) : (c &&& lowMask w n).toNat = c.toNat % 2^n := by
  unfold lowMask
  have hp : 2^n ≤ 2^w := Nat.pow_le_pow_right (by omega) hn
  have hpos : 0 < 2^n := Nat.two_pow_pos n
  rw [BitVec.toNat_and, BitVec.toNat_ofNat, Nat.mod_eq_of_lt (by omega)]
  exact Nat.and_two_pow_sub_one_eq_mod c.toNat n

/-- a value is below `2^n` iff all bits from `n` up are clear -/
theorem toNat_lt_iff (w n : Nat) (c : BitVec w) : c.toNat < 2^n ↔ ∀ i, n ≤ i → c.getLsbD i = false := by
  constructor
  · intro h i hi
    rw [BitVec.getLsbD]
    apply Nat.testBit_lt_two_pow
    exact Nat.lt_of_lt_of_le h (Nat.pow_le_pow_right (by omega) hi)
  · intro h
    apply Nat.lt_pow_two_of_testBit
    intro i hi
    have := h i hi
    rwa [BitVec.getLsbD] at this

end NasVerif.Bits
