import NasVerif.Proofs.EncLoops
import NasVerif.Proofs.BitLists
/-!
# NIA1 / NIA3: the message loops of `security.go` against the bit-string definitions of f9 and 128-EIA3

NIA1: the D-2 full 64-bit blocks read with `binary.BigEndian.Uint64` and the zero-padded last block are the blocks
M_0 … M_{D-2} of the specification's EVAL recursion over the message bit string. NIA3: `getWord` is the 32-bit window of the
keystream bit string at bit i, and the bit loop is the specification's sum over the set message bits.
-/
namespace NasVerif.Proofs.MacLoops
open NasVerif NasVerif.Model NasVerif.Model.Security NasVerif.Proofs.EncLoops NasVerif.Proofs.BitLists

/-! ## bit strings as numbers -/

def bitVal (b : Bool) : Nat := if b then 1 else 0
def foldBits (init : Nat) (l : List Bool) : Nat := l.foldl (fun a b => 2 * a + bitVal b) init

theorem foldBits_append (init : Nat) (a b : List Bool) : foldBits init (a ++ b) = foldBits (foldBits init a) b := by
  simp [foldBits, List.foldl_append]

theorem range'_foldl_getD {β} (g : β → Bool → β) (L : List Bool) (n : Nat) : ∀ (k : Nat) (init : β), k + n ≤ L.length →
    (List.range' k n).foldl (fun a i => g a (L.getD i false)) init = ((L.drop k).take n).foldl g init := by
  induction n with
  | zero => intro k init _; simp
  | succ n ih =>
    intro k init hk
    have hk' : k < L.length := by omega
    rw [List.range'_succ, List.foldl_cons, ih (k + 1) _ (by omega)]
    have : (L.drop k).take (n + 1) = L.getD k false :: (L.drop (k + 1)).take n := by
      rw [List.drop_eq_getElem_cons hk', List.take_succ_cons]
      simp [List.getD_eq_getElem?_getD, List.getElem?_eq_getElem hk']
    rw [this, List.foldl_cons]

/-- `bits64`-style folding over indices = folding over the list, when the list is long enough -/
theorem range_foldl_getD (L : List Bool) (n : Nat) (h : n ≤ L.length) :
    (List.range n).foldl (fun a i => 2 * a + (if L.getD i false then 1 else 0)) 0 = foldBits 0 (L.take n) := by
  rw [List.range_eq_range']
  have := range'_foldl_getD (fun a b => 2 * a + bitVal b) L n 0 0 (by omega)
  simp only [List.drop_zero] at this
  unfold foldBits
  rw [← this]
  rfl

theorem foldl_idx_congr {β} (f g : β → Nat → β) (l : List Nat) (init : β) (h : ∀ a, ∀ i ∈ l, f a i = g a i) :
    l.foldl f init = l.foldl g init := by
  induction l generalizing init with
  | nil => rfl
  | cons x r ih =>
    simp only [List.foldl_cons]
    rw [h init x (by simp), ih]
    intro a i hi; exact h a i (by simp [hi])

theorem bits64_congr (a b : List Bool) (h : ∀ j, j < 64 → a.getD j false = b.getD j false) : Spec.bits64 a = Spec.bits64 b := by
  unfold Spec.bits64
  have := foldl_idx_congr (fun acc i => 2 * acc + (if a.getD i false then 1 else 0))
    (fun acc i => 2 * acc + (if b.getD i false then 1 else 0)) (List.range 64) 0
    (fun acc i hi => by rw [h i (List.mem_range.mp hi)])
  rw [this]

set_option maxRecDepth 100000 in
theorem byte_fold : ∀ x, x < 256 → foldBits 0 (Spec.byteBits (UInt8.ofNat x)) = x := by decide

theorem foldBits_shift (init : Nat) (l : List Bool) : foldBits init l = init * 2 ^ l.length + foldBits 0 l := by
  induction l generalizing init with
  | nil => simp [foldBits]
  | cons b r ih =>
    have h1 := ih (2 * init + bitVal b)
    have h2 := ih (2 * 0 + bitVal b)
    simp only [foldBits, List.foldl_cons] at h1 h2 ⊢
    rw [h1, h2]
    simp only [List.length_cons, Nat.pow_succ, Nat.add_mul]
    have : 2 * init * 2 ^ r.length = init * (2 ^ r.length * 2) := by
      rw [Nat.mul_comm 2 init, Nat.mul_assoc, Nat.mul_comm 2]
    omega

theorem bytes_fold (bs : Bytes) (init : Nat) : foldBits init (Spec.bytesBits bs) = bs.foldl (fun a x => a * 256 + x.toNat) init := by
  induction bs generalizing init with
  | nil => simp [Spec.bytesBits, foldBits]
  | cons b r ih =>
    have hb : foldBits 0 (Spec.byteBits b) = b.toNat := by
      have := byte_fold b.toNat b.toNat_lt
      simpa using this
    have : Spec.bytesBits (b :: r) = Spec.byteBits b ++ Spec.bytesBits r := by simp [Spec.bytesBits]
    rw [this, foldBits_append, ih, List.foldl_cons, foldBits_shift init, hb, byteBits_length]

theorem bits64_bytes (b : Bytes) (h : b.length = 8) : Spec.bits64 (Spec.bytesBits b) = be64 b := by
  unfold Spec.bits64 be64
  rw [range_foldl_getD _ 64 (by rw [bytesBits_length, h]; omega), List.take_of_length_le (by rw [bytesBits_length, h]; omega), bytes_fold]

/-! ## NIA1: the block loop is the specification's EVAL recursion -/

theorem bytesBits_getD_total (bs : Bytes) (t : Nat) :
    (Spec.bytesBits bs).getD t false = (bs.getD (t / 8) 0).toNat.testBit (7 - t % 8) := by
  by_cases h : t < 8 * bs.length
  · exact bytesBits_getD bs t h
  · have h1 : (Spec.bytesBits bs).getD t false = false := by
      rw [List.getD_eq_getElem?_getD, List.getElem?_eq_none (by rw [bytesBits_length]; omega)]; rfl
    have h2 : bs.getD (t / 8) 0 = 0 := by
      rw [List.getD_eq_getElem?_getD, List.getElem?_eq_none (by omega)]; rfl
    rw [h1, h2]; simp

/-- the message bit string of the statement: the first LENGTH bits of the octets, the rest of the last octet being zero -/
theorem msgBits_getD (msg : Bytes) (length : Nat) (hz : (Spec.bytesBits msg).drop length = List.replicate (8 * msg.length - length) false)
    (t : Nat) : ((Spec.bytesBits msg).take length).getD t false = (msg.getD (t / 8) 0).toNat.testBit (7 - t % 8) := by
  rw [← bytesBits_getD_total]
  by_cases h : t < length
  · exact take_getD _ _ _ _ h
  · have h1 : ((Spec.bytesBits msg).take length).getD t false = false := by
      rw [List.getD_eq_getElem?_getD, List.getElem?_eq_none (by rw [List.length_take]; omega)]; rfl
    have h2 : (Spec.bytesBits msg).getD t false = ((Spec.bytesBits msg).drop length).getD (t - length) false := by
      rw [List.getD_eq_getElem?_getD, List.getD_eq_getElem?_getD, List.getElem?_drop]; congr 2; omega
    rw [h1, h2, hz, List.getD_eq_getElem?_getD, List.getElem?_replicate]
    split <;> rfl

def pad8 (x : Bytes) : Bytes := x ++ List.replicate (8 - x.length) 0

theorem pad8_getD (msg : Bytes) (i k : Nat) (hk : k < 8) : (pad8 ((msg.drop (8 * i)).take 8)).getD k 0 = msg.getD (8 * i + k) 0 := by
  unfold pad8
  by_cases h : k < ((msg.drop (8 * i)).take 8).length
  · rw [List.getD_eq_getElem?_getD, List.getElem?_append_left h, List.getElem?_take, if_pos hk, List.getElem?_drop,
      ← List.getD_eq_getElem?_getD]
  · rw [List.getD_eq_getElem?_getD, List.getElem?_append_right (by omega), List.getElem?_replicate]
    have hout : msg.length ≤ 8 * i + k := by
      simp only [List.length_take, List.length_drop] at h; omega
    have : msg.getD (8 * i + k) 0 = 0 := by
      rw [List.getD_eq_getElem?_getD, List.getElem?_eq_none hout]; rfl
    rw [this]
    split <;> rfl

theorem pad8_length (x : Bytes) (h : x.length ≤ 8) : (pad8 x).length = 8 := by simp [pad8]; omega

/-- block i of the message bit string is the big-endian value of octets 8i … 8i+7 (zero padded) -/
theorem block_eq (msg : Bytes) (m : List Bool) (hm : ∀ t, m.getD t false = (msg.getD (t / 8) 0).toNat.testBit (7 - t % 8)) (i : Nat) :
    Spec.bits64 ((m.drop (64 * i)).take 64) = be64 (pad8 ((msg.drop (8 * i)).take 8)) := by
  rw [← bits64_bytes _ (pad8_length _ (by simp; omega))]
  apply bits64_congr
  intro j hj
  rw [take_getD _ _ _ _ hj, List.getD_eq_getElem?_getD, List.getElem?_drop, ← List.getD_eq_getElem?_getD, hm,
    bytesBits_getD _ _ (by rw [pad8_length _ (by simp; omega)]; omega), pad8_getD _ _ _ (by omega)]
  rw [show (64 * i + j) / 8 = 8 * i + j / 8 by omega, show (64 * i + j) % 8 = j % 8 by omega]

def stepv (P : W64) (m : List Bool) (i : Nat) (ev : W64) : W64 :=
  Spec.MUL64 (ev ^^^ Spec.bits64 ((m.drop (64 * i)).take 64)) P 0x1b

def evalFrom (P : W64) (m : List Bool) : Nat → Nat → W64 → W64
  | 0, _, ev => ev
  | n+1, i, ev => evalFrom P m n (i + 1) (stepv P m i ev)

theorem evalBlocks_from (P : W64) (m : List Bool) (n i : Nat) (ev : W64) :
    Spec.evalBlocks P n (m.drop (64 * i)) ev = evalFrom P m n i ev := by
  induction n generalizing i ev with
  | zero => rfl
  | succ n ih =>
    simp only [Spec.evalBlocks, evalFrom, stepv]
    rw [List.drop_drop, show 64 * i + 64 = 64 * (i + 1) by omega, ih]

theorem evalFrom_last (P : W64) (m : List Bool) (n i : Nat) (ev : W64) :
    evalFrom P m (n + 1) i ev = stepv P m (i + n) (evalFrom P m n i ev) := by
  induction n generalizing i ev with
  | zero => rfl
  | succ n ih =>
    rw [evalFrom, ih, show i + 1 + n = i + (n + 1) by omega]
    rfl

theorem nia1Blocks_spec (hmul : ∀ V P c, mul V P c = Spec.MUL64 V P c) (msg : Bytes) (length : Nat) (m : List Bool)
    (hm : ∀ t, m.getD t false = (msg.getD (t / 8) 0).toNat.testBit (7 - t % 8)) (hlen : msg.length = (length + 7) / 8) (P : W64) :
    nia1Blocks msg length ((length + 63) / 64 + 1) P 0x1b#64 = .ok (Spec.evalBlocks P ((length + 63) / 64) m 0) := by
  unfold nia1Blocks
  by_cases h0 : length > 0
  · rw [if_pos h0]
    have hD : (length + 63) / 64 + 1 - 2 = (length + 63) / 64 - 1 := by omega
    rw [hD]
    generalize hN : (length + 63) / 64 - 1 = N
    have hN1 : (length + 63) / 64 = N + 1 := by omega
    obtain ⟨ev, hrun, hinv⟩ := forRange_inv (fun k a => a = evalFrom P m k 0 0) (nia1Step msg P 0x1b#64) N 0 0#64 rfl
      (by
        intro k a _ hk ha
        have hk8 : 8 * k + 8 ≤ msg.length := by omega
        refine ⟨mul (a ^^^ be64 ((msg.drop (8 * k)).take 8)) P 0x1b#64, ?_, ?_⟩
        · unfold nia1Step uint64At
          rw [if_pos (by omega), if_neg (by simp; omega)]
        · rw [evalFrom_last, ← ha, Nat.zero_add, stepv, block_eq msg m hm k, hmul]
          have : pad8 ((msg.drop (8 * k)).take 8) = (msg.drop (8 * k)).take 8 := by
            unfold pad8
            have : ((msg.drop (8 * k)).take 8).length = 8 := by simp; omega
            rw [this]; simp
          rw [this]; rfl)
    simp only [Nat.zero_add] at hrun hinv
    rw [hrun]
    simp only []
    rw [if_pos (by omega)]
    have hm0 : m = m.drop (64 * 0) := by simp
    rw [hN1, hm0, evalBlocks_from, evalFrom_last, Nat.zero_add, stepv, block_eq msg m hm N, hmul, hinv]
    rfl
  · rw [if_neg h0]
    have : (length + 63) / 64 = 0 := by omega
    rw [this]
    rfl
/-! ## NIA3: the 32-bit keystream window and the bit loop -/

def bitsNum (f : Nat → Bool) (n : Nat) : Nat := (List.range n).foldl (fun a j => 2 * a + (if f j then 1 else 0)) 0

theorem bitsNum_succ (f : Nat → Bool) (n : Nat) : bitsNum f (n + 1) = 2 * bitsNum f n + (if f n then 1 else 0) := by
  simp [bitsNum, List.range_succ, List.foldl_append]

theorem bitsNum_testBit (f : Nat → Bool) (n j : Nat) (hj : j < n) : (bitsNum f n).testBit (n - 1 - j) = f j := by
  induction n with
  | zero => omega
  | succ n ih =>
    rw [bitsNum_succ]
    by_cases h : j = n
    · subst h
      rw [show j + 1 - 1 - j = 0 by omega, Nat.testBit_zero]
      cases f j <;> simp <;> omega
    · have hj' : j < n := by omega
      rw [show n + 1 - 1 - j = (n - 1 - j) + 1 by omega, Nat.testBit_succ]
      have : (2 * bitsNum f n + if f n = true then 1 else 0) / 2 = bitsNum f n := by split <;> omega
      rw [this, ih hj']

theorem bitsNum_lt (f : Nat → Bool) (n : Nat) : bitsNum f n < 2 ^ n := by
  induction n with
  | zero => simp [bitsNum]
  | succ n ih => rw [bitsNum_succ, Nat.pow_succ]; split <;> omega

theorem zWindow_eq (zbits : List Bool) (i : Nat) : Spec.zWindow zbits i = BitVec.ofNat 32 (bitsNum (fun j => zbits.getD (i + j) false) 32) := rfl

theorem wordsBits_getD_total (ws : List W32) (t : Nat) :
    (Spec.wordsBits ws).getD t false = (ws.getD (t / 32) 0).toNat.testBit (31 - t % 32) := by
  by_cases h : t < 32 * ws.length
  · exact wordsBits_getD ws t h
  · have h1 : (Spec.wordsBits ws).getD t false = false := by
      rw [List.getD_eq_getElem?_getD, List.getElem?_eq_none (by rw [wordsBits_length]; omega)]; rfl
    have h2 : ws.getD (t / 32) 0 = 0 := by
      rw [List.getD_eq_getElem?_getD, List.getElem?_eq_none (by omega)]; rfl
    rw [h1, h2]; simp

theorem zWindow_bit (ws : List W32) (i k : Nat) (hk : k < 32) :
    (Spec.zWindow (Spec.wordsBits ws) i).getLsbD k = (ws.getD ((i + (31 - k)) / 32) 0).toNat.testBit (31 - (i + (31 - k)) % 32) := by
  rw [zWindow_eq, BitVec.getLsbD_ofNat]
  have := bitsNum_testBit (fun j => (Spec.wordsBits ws).getD (i + j) false) 32 (31 - k) (by omega)
  rw [show 32 - 1 - (31 - k) = k by omega] at this
  rw [this, wordsBits_getD_total]
  simp [hk]

/-- `getWord` returns the 32-bit window of the keystream bit string that starts at bit i -/
theorem getWord_spec (stream : List W32) (i : Nat) (h : i / 32 + 1 < stream.length ∨ (i % 32 = 0 ∧ i / 32 < stream.length)) :
    getWord stream i = .ok (Spec.zWindow (Spec.wordsBits stream) i) := by
  unfold getWord
  simp only []
  by_cases hb : i % 32 = 0
  · rw [if_pos hb, if_pos (by omega)]
    congr 1
    apply BitVec.eq_of_getLsbD_eq
    intro k hk
    rw [zWindow_bit _ _ _ hk, show (i + (31 - k)) / 32 = i / 32 by omega, show 31 - (i + (31 - k)) % 32 = k by omega]
    rfl
  · rw [if_neg hb, if_pos (by omega)]
    congr 1
    apply BitVec.eq_of_getLsbD_eq
    intro k hk
    rw [zWindow_bit _ _ _ hk, BitVec.getLsbD_or, BitVec.getLsbD_shiftLeft, BitVec.getLsbD_ushiftRight]
    by_cases hkb : k < i % 32
    · rw [show (i + (31 - k)) / 32 = i / 32 + 1 by omega, show 31 - (i + (31 - k)) % 32 = 32 - i % 32 + k by omega]
      simp [hkb, hk, BitVec.getLsbD]
    · rw [show (i + (31 - k)) / 32 = i / 32 by omega, show 31 - (i + (31 - k)) % 32 = k - i % 32 by omega]
      have : (stream.getD (i / 32 + 1) 0).getLsbD (32 - i % 32 + k) = false := by
        apply BitVec.getLsbD_of_ge; omega
      rw [this]
      simp [hkb, hk, BitVec.getLsbD]

set_option maxRecDepth 100000 in
theorem bit_mask_test : ∀ x, x < 256 → ∀ k, k < 8 → ((UInt8.ofNat x &&& ((1 : UInt8) <<< UInt8.ofNat k)) != 0) = x.testBit k := by decide

theorem genMac_spec (msg : Bytes) (stream : List W32) (length : Nat) (m : List Bool) (hml : m.length = length)
    (hm : ∀ t, t < length → m.getD t false = (msg.getD (t / 8) 0).toNat.testBit (7 - t % 8))
    (hlen : (length + 7) / 8 ≤ msg.length) (hl : stream.length = (length + 31) / 32 + 2) :
    genMac msg stream length = .ok (put32 (((List.range m.length).foldl (fun t i => if m.getD i false then t ^^^ Spec.zWindow (Spec.wordsBits stream) i else t) 0
      ^^^ Spec.zWindow (Spec.wordsBits stream) m.length) ^^^ Spec.zWindow (Spec.wordsBits stream) (32 * ((m.length + 31) / 32 + 2 - 1)))) := by
  unfold genMac
  obtain ⟨T, hrun, hinv⟩ := forRange_inv
    (fun k (a : W32) => a = (List.range k).foldl (fun t i => if m.getD i false then t ^^^ Spec.zWindow (Spec.wordsBits stream) i else t) 0)
    (genMacStep msg stream) length 0 0#32 (by simp)
    (by
      intro k a _ hk ha
      simp only [Nat.zero_add] at hk
      unfold genMacStep
      rw [if_pos (by omega), getWord_spec stream k (by omega)]
      have hbit := bit_mask_test (msg.getD (k / 8) 0).toNat (msg.getD (k / 8) 0).toNat_lt (7 - k % 8) (by omega)
      rw [UInt8.ofNat_toNat] at hbit
      rw [hbit, ← hm k hk, List.range_succ, List.foldl_append, ← ha]
      simp only [List.foldl_cons, List.foldl_nil]
      cases m.getD k false
      · exact ⟨_, rfl, by simp⟩
      · exact ⟨_, rfl, by simp⟩)
  simp only [Nat.zero_add] at hrun hinv
  rw [hrun]
  simp only [genMacFin]
  rw [getWord_spec stream length (by omega), getWord_spec stream (32 * (stream.length - 1)) (by omega)]
  simp only []
  rw [hinv, hml, hl]
end NasVerif.Proofs.MacLoops
