import NasVerif.Model.Convert
import NasVerif.Spec.Identity
import NasVerif.Proofs.NoPanic
/-!
# Helper lemmas for C12: nibble arithmetic (finite facts by `decide`), hex text, BCD packing, the pieces of the SUCI text
-/
namespace NasVerif.Proofs.Identity
open NasVerif NasVerif.Model.Convert NasVerif.Spec.Identity
set_option linter.unusedSimpArgs false
set_option linter.unusedVariables false

set_option maxRecDepth 100000 in

theorem oct_facts : ∀ hi, hi < 16 → ∀ lo, lo < 16 →
    (oct hi lo &&& 0x0f = UInt8.ofNat lo) ∧ ((oct hi lo &&& 0xf0) >>> 4 = UInt8.ofNat hi) ∧ (rotl4 (oct hi lo) = oct lo hi) ∧
    (oct hi lo >>> 4 = UInt8.ofNat hi) ∧ ((UInt8.ofNat hi <<< 4) ||| UInt8.ofNat lo = oct hi lo) ∧
    (UInt8.ofNat hi <<< 4 = oct hi 0) ∧
    hexChar (UInt8.ofNat hi) = hexDigitChar hi := by decide

theorem digit_char : ∀ d, d < 10 → hexDigitChar d = digitChar d ∧ digitChar d ≠ charF ∧ atoi1 (digitChar d) = some (UInt8.ofNat d) := by decide

theorem hexDigitChar_15 : hexDigitChar 15 = charF := by decide

theorem hexEnc_oct (hi lo : Nat) (h1 : hi < 16) (h2 : lo < 16) (r : Bytes) :
    hexEnc (oct hi lo :: r) = hexDigitChar hi :: hexDigitChar lo :: hexEnc r := by
  have f := oct_facts hi h1 lo h2
  have g := oct_facts lo h2 lo h2
  simp only [hexEnc, f.2.2.2.1, f.1, f.2.2.2.2.2.2, g.2.2.2.2.2.2]

theorem plmnIDToString_cons3 (b0 b1 b2 : UInt8) : plmnIDToString [b0, b1, b2] =
    (let s := hexEnc [((b0 &&& 0x0f) <<< 4) ||| ((b0 &&& 0xf0) >>> 4), ((b1 &&& 0x0f) <<< 4) ||| (b2 &&& 0x0f),
                      (((b2 &&& 0xf0) >>> 4) <<< 4) ||| ((b1 &&& 0xf0) >>> 4)]
     if s.getD 5 0 = charF then .ok (s.take 5) else .ok s) := by
  simp [plmnIDToString, idx, slice, bind, Outcome.bind, hexEnc, pure]

set_option maxRecDepth 100000 in

theorem byte_facts : ∀ n, n < 256 →
    hexNib (hexChar (UInt8.ofNat n >>> 4)) = some (UInt8.ofNat n >>> 4) ∧
    hexNib (hexChar (UInt8.ofNat n &&& 15)) = some (UInt8.ofNat n &&& 15) ∧
    ((UInt8.ofNat n >>> 4) <<< 4 ||| (UInt8.ofNat n &&& 15)) = UInt8.ofNat n ∧
    hexChar (UInt8.ofNat n >>> 4) = hexDigitChar ((UInt8.ofNat n).toNat / 16) ∧
    hexChar (UInt8.ofNat n &&& 15) = hexDigitChar ((UInt8.ofNat n).toNat % 16) := by decide

theorem byte_facts' (b : UInt8) :
    hexNib (hexChar (b >>> 4)) = some (b >>> 4) ∧ hexNib (hexChar (b &&& 15)) = some (b &&& 15) ∧
    ((b >>> 4) <<< 4 ||| (b &&& 15)) = b ∧ hexChar (b >>> 4) = hexDigitChar (b.toNat / 16) ∧
    hexChar (b &&& 15) = hexDigitChar (b.toNat % 16) := by
  have := byte_facts b.toNat b.toNat_lt
  simpa using this

theorem hexEnc_eq_hexText (bs : Bytes) : hexEnc bs = hexText bs := by
  induction bs with
  | nil => rfl
  | cons b r ih => simp [hexEnc, hexText, ih, (byte_facts' b).2.2.2.1, (byte_facts' b).2.2.2.2]

theorem hexDec_hexEnc (bs : Bytes) : hexDec (hexEnc bs) = some bs := by
  induction bs with
  | nil => rfl
  | cons b r ih => simp [hexEnc, hexDec, ih, (byte_facts' b).1, (byte_facts' b).2.1, (byte_facts' b).2.2.1]

set_option maxRecDepth 100000 in

theorem amf_set_hi : ∀ h, h < 256 → ∀ q, q < 4 →
    (UInt8.ofNat h).toUInt16 <<< 2 + UInt16.ofNat q = UInt16.ofNat (h * 4 + q) ∧
    ((UInt16.ofNat (h * 4 + q) >>> 2).toUInt8 &&& 0xff) = UInt8.ofNat h ∧
    (UInt16.ofNat (h * 4 + q) &&& 0x03).toUInt8 <<< 6 = UInt8.ofNat (q * 64) := by decide

set_option maxRecDepth 100000 in

theorem amf_set_lo : ∀ q, q < 4 → ∀ p, p < 64 →
    ((UInt8.ofNat (q * 64 + p)).toUInt16 &&& 0x00c0) >>> 6 = UInt16.ofNat q ∧
    (UInt8.ofNat (q * 64 + p)) &&& 0x3f = UInt8.ofNat p ∧
    UInt8.ofNat (q * 64) + (UInt8.ofNat p &&& 0x3f) = UInt8.ofNat (q * 64 + p) := by decide

theorem idx3 (a b c : UInt8) : idx [a, b, c] 0 = .ok a ∧ idx [a, b, c] 1 = .ok b ∧ idx [a, b, c] 2 = .ok c := ⟨rfl, rfl, rfl⟩

set_option maxRecDepth 100000 in

theorem setBits_oct : ∀ hi, hi < 16 → ∀ lo, lo < 16 →
    setBits (setBits 0 240 (UInt8.ofNat lo) 15 0) 15 (UInt8.ofNat hi) 15 4 = oct hi lo := by decide

theorem guti_o0 : setBits (setBits (setBits 0 247 0 1 3) 15 15 15 4) 248 2 7 0 = 0xf2 := by decide

set_option maxRecDepth 100000 in

theorem guti_amf_hi : ∀ h, h < 256 → ∀ q, q < 4 →
    ((((UInt8.ofNat h).toUInt16 <<< 2) + UInt16.ofNat q) >>> 2).toUInt8 &&& 255 = UInt8.ofNat h ∧
    ((((UInt8.ofNat h).toUInt16 <<< 2) + UInt16.ofNat q) &&& 3).toUInt8 = UInt8.ofNat q := by decide

set_option maxRecDepth 100000 in

theorem guti_amf_lo : ∀ n, n < 256 →
    ((UInt8.ofNat n).toUInt16 &&& 0x00c0) >>> 6 = UInt16.ofNat (n / 64) ∧
    (setBits 0 63 (UInt8.ofNat (n / 64)) 255 6 &&& 192) + ((UInt8.ofNat n &&& 0x3f) &&& 63) = UInt8.ofNat n := by decide

/-- the two AMF octets survive the split into set id / pointer and the re-assembly by the GUTI5G setters -/
theorem guti_amf_reassemble (a1 a2 : UInt8) :
    let set : UInt16 := (a1.toUInt16 <<< 2) + ((a2.toUInt16 &&& 0x00c0) >>> 6)
    ((set >>> 2).toUInt8 &&& 255 = a1) ∧
    ((setBits 0 63 (set &&& 3).toUInt8 255 6 &&& 192) + ((a2 &&& 0x3f) &&& 63) = a2) := by
  have lo := guti_amf_lo a2.toNat a2.toNat_lt
  have hi := guti_amf_hi a1.toNat a1.toNat_lt (a2.toNat / 64) (by have := a2.toNat_lt; omega)
  simp only [UInt8.ofNat_toNat] at lo hi
  intro set
  simp only [set, lo.1, hi.1, hi.2, lo.2, and_self]

theorem amfIdToNas_hexText (a0 a1 a2 : UInt8) :
    amfIdToNas (hexText [a0, a1, a2]) = .ok (a0, (a1.toUInt16 <<< 2) + ((a2.toUInt16 &&& 0x00c0) >>> 6), a2 &&& 0x3f) := by
  rw [← hexEnc_eq_hexText]
  simp only [amfIdToNas, hexDec_hexEnc, idx3, bind, Outcome.bind, pure, List.length_cons,
    List.length_nil, ne_eq, not_true_eq_false, if_false, Nat.zero_add, Nat.reduceAdd]

set_option maxRecDepth 100000 in

theorem pei_nib : ∀ h, h < 16 → ∀ a, a < 16 →
    oct h 0 + (oct 15 a &&& 0x0f) = oct h a ∧ (∀ b, b < 16 → oct h 0 + (oct b a &&& 0x0f) = oct h a ∧ oct b a &&& 0xf0 = oct b 0) := by decide

/-- hex text of the PEI digit octets: pending high nibble `h`, remaining digits; filler `f` when their number is odd; a final `0` -/
def peiHex : Nat → List Nat → Bytes
  | h, [] => [hexDigitChar h, hexDigitChar 0]
  | h, [a] => [hexDigitChar h, hexDigitChar a, hexDigitChar 15, hexDigitChar 0]
  | h, a :: b :: r => hexDigitChar h :: hexDigitChar a :: peiHex b r

theorem peiDigits_hex (h : Nat) (rest : List Nat) (hh : h < 16) (hr : ∀ d ∈ rest, d < 16) :
    hexEnc (peiDigits (oct h 0) (bcdPack rest)) = peiHex h rest := by
  fun_induction peiHex h rest with
  | case1 h =>
    simp only [bcdPack, peiDigits]
    rw [hexEnc_oct _ _ hh (by omega)]; rfl
  | case2 h a =>
    have ha : a < 16 := hr a (by simp)
    have f := pei_nib h hh a ha
    have g := oct_facts 15 (by omega) a ha
    simp only [bcdPack, peiDigits, f.1]
    have : oct 15 a &&& 0xf0 = oct 15 0 := (f.2 15 (by omega)).2
    rw [this, hexEnc_oct _ _ hh ha, hexEnc_oct _ _ (by omega) (by omega)]; rfl
  | case3 h a b r ih =>
    have ha : a < 16 := hr a (by simp)
    have hb : b < 16 := hr b (by simp)
    have f := (pei_nib h hh a ha).2 b hb
    simp only [bcdPack, peiDigits, f.1, f.2]
    rw [hexEnc_oct _ _ hh ha, ih hb (fun d hd => hr d (by simp [hd]))]

theorem peiHex_eq (h : Nat) (rest : List Nat) :
    peiHex h rest = (h :: rest).map hexDigitChar ++ (if rest.length % 2 = 1 then [hexDigitChar 15, hexDigitChar 0] else [hexDigitChar 0]) := by
  fun_induction peiHex h rest with
  | case1 h => simp
  | case2 h a => simp
  | case3 h a b r ih =>
    rw [ih]
    have : (a :: b :: r).length % 2 = r.length % 2 := by simp; omega
    simp only [this, List.map_cons, List.cons_append]

theorem chop1_append_one (x : Bytes) (c : UInt8) : chop1 (x ++ [c]) = .ok x := by
  simp [chop1, slice]

set_option maxRecDepth 100000 in

theorem pei_first : ∀ d, d < 16 → ∀ t, t < 8 →
    (oct d (8 + t) &&& 0xf0 = oct d 0 ∧ oct d (8 + t) &&& 0x07 = UInt8.ofNat t ∧ (oct d (8 + t) &&& 0x08) >>> 3 = 1) ∧
    (oct d (0 + t) &&& 0xf0 = oct d 0 ∧ oct d (0 + t) &&& 0x07 = UInt8.ofNat t ∧ (oct d (0 + t) &&& 0x08) >>> 3 = 0) ∧
    ((UInt8.ofNat t = 3) ↔ t = 3) := by decide

theorem map_digit (l : List Nat) (h : ∀ d ∈ l, d < 10) : l.map hexDigitChar = digitsText l := by
  induction l with
  | nil => rfl
  | cons a r ih =>
    simp only [List.map_cons, digitsText]
    rw [(digit_char a (h a (by simp))).1]
    have := ih (fun d hd => h d (by simp [hd]))
    simp only [digitsText] at this
    rw [this]

theorem suci_mcc (p : Plmn) (hv : p.Valid) (x : Nat) (hx : x < 16) :
    mccText (oct p.mcc2 p.mcc1) (oct x p.mcc3) = .ok p.mccText := by
  obtain ⟨h1, h2, h3, h4, h5, h6⟩ := hv
  have a := oct_facts p.mcc2 (by omega) p.mcc1 (by omega)
  have b := oct_facts x hx p.mcc3 (by omega)
  have c := oct_facts p.mcc3 (by omega) 0 (by omega)
  unfold mccText
  rw [a.2.2.1, b.1, c.2.2.2.2.2.1, hexEnc_oct _ _ (by omega) (by omega), hexEnc_oct _ _ (by omega) (by omega)]
  simp [slice, hexEnc, Plmn.mccText, (digit_char _ h1).1, (digit_char _ h2).1, (digit_char _ h3).1]

theorem suci_mnc (p : Plmn) (hv : p.Valid) :
    mncText (oct (p.mnc3.getD 15) p.mcc3) (oct p.mnc2 p.mnc1) = .ok p.mncText := by
  obtain ⟨h1, h2, h3, h4, h5, h6⟩ := hv
  have a := oct_facts p.mnc2 (by omega) p.mnc1 (by omega)
  unfold mncText
  cases hm : p.mnc3 with
  | none =>
    have b := oct_facts 15 (by omega) p.mcc3 (by omega)
    have c := oct_facts 15 (by omega) 0 (by omega)
    simp only [Option.getD_none, a.2.2.1, b.2.1, c.2.2.2.2.2.1]
    rw [hexEnc_oct _ _ (by omega) (by omega), hexEnc_oct _ _ (by omega) (by omega)]
    simp [idx, slice, hexEnc, bind, Outcome.bind, hexDigitChar_15, Plmn.mncText, hm, (digit_char _ h4).1, (digit_char _ h5).1]
  | some d =>
    have hd := h6 d hm
    have b := oct_facts d (by omega) p.mcc3 (by omega)
    have c := oct_facts d (by omega) 0 (by omega)
    simp only [Option.getD_some, a.2.2.1, b.2.1, c.2.2.2.2.2.1]
    rw [hexEnc_oct _ _ (by omega) (by omega), hexEnc_oct _ _ (by omega) (by omega)]
    simp [idx, slice, hexEnc, bind, Outcome.bind, Plmn.mncText, hm, (digit_char _ h4).1, (digit_char _ h5).1, (digit_char _ hd).1,
      (digit_char _ hd).2.1]

theorem ff_oct : (0xff : UInt8) = oct 15 15 := by decide

theorem suci_ri (ri : List Nat) (hl : 1 ≤ ri.length ∧ ri.length ≤ 4) (hd : ∀ d ∈ ri, d < 10) :
    ∃ b4 b5, bcdPack ri ++ List.replicate (2 - (ri.length + 1) / 2) 0xff = [b4, b5] ∧ routingText b4 b5 = .ok (digitsText ri) := by
  match ri, hl, hd with
  | [a], _, hd =>
    have ha := hd a (by simp)
    refine ⟨oct 15 a, 0xff, by simp [bcdPack], ?_⟩
    unfold routingText
    rw [ff_oct, (oct_facts 15 (by omega) a (by omega)).2.2.1, (oct_facts 15 (by omega) 15 (by omega)).2.2.1,
      hexEnc_oct _ _ (by omega) (by omega), hexEnc_oct _ _ (by omega) (by omega)]
    simp [hexEnc, indexByte, hexDigitChar_15, (digit_char _ ha).1, (digit_char _ ha).2.1, slice, digitsText]
  | [a, b], _, hd =>
    have ha := hd a (by simp)
    have hb := hd b (by simp)
    refine ⟨oct b a, 0xff, by simp [bcdPack], ?_⟩
    unfold routingText
    rw [ff_oct, (oct_facts b (by omega) a (by omega)).2.2.1, (oct_facts 15 (by omega) 15 (by omega)).2.2.1,
      hexEnc_oct _ _ (by omega) (by omega), hexEnc_oct _ _ (by omega) (by omega)]
    simp [hexEnc, indexByte, hexDigitChar_15, (digit_char _ ha).1, (digit_char _ ha).2.1, (digit_char _ hb).1, (digit_char _ hb).2.1,
      slice, digitsText]
  | [a, b, c], _, hd =>
    have ha := hd a (by simp)
    have hb := hd b (by simp)
    have hc := hd c (by simp)
    refine ⟨oct b a, oct 15 c, by simp [bcdPack], ?_⟩
    unfold routingText
    rw [(oct_facts b (by omega) a (by omega)).2.2.1, (oct_facts 15 (by omega) c (by omega)).2.2.1,
      hexEnc_oct _ _ (by omega) (by omega), hexEnc_oct _ _ (by omega) (by omega)]
    simp [hexEnc, indexByte, hexDigitChar_15, (digit_char _ ha).1, (digit_char _ ha).2.1, (digit_char _ hb).1, (digit_char _ hb).2.1,
      (digit_char _ hc).1, (digit_char _ hc).2.1, slice, digitsText]
  | [a, b, c, d], _, hd =>
    have ha := hd a (by simp)
    have hb := hd b (by simp)
    have hc := hd c (by simp)
    have hdd := hd d (by simp)
    refine ⟨oct b a, oct d c, by simp [bcdPack], ?_⟩
    unfold routingText
    rw [(oct_facts b (by omega) a (by omega)).2.2.1, (oct_facts d (by omega) c (by omega)).2.2.1,
      hexEnc_oct _ _ (by omega) (by omega), hexEnc_oct _ _ (by omega) (by omega)]
    simp [hexEnc, indexByte, (digit_char _ ha).1, (digit_char _ ha).2.1, (digit_char _ hb).1, (digit_char _ hb).2.1,
      (digit_char _ hc).1, (digit_char _ hc).2.1, (digit_char _ hdd).1, (digit_char _ hdd).2.1, digitsText]
    rfl

/-- MSIN digits packed as BCD, nibble-swapped and hex-encoded: the digits, plus the filler when their number is odd -/
theorem msin_hex (ds : List Nat) (hd : ∀ d ∈ ds, d < 10) :
    hexEnc ((bcdPack ds).map rotl4) = digitsText ds ++ (if ds.length % 2 = 1 then [charF] else []) := by
  fun_induction bcdPack ds with
  | case1 => rfl
  | case2 a =>
    have ha := hd a (by simp)
    simp only [List.map_cons, List.map_nil, (oct_facts 15 (by omega) a (by omega)).2.2.1]
    rw [hexEnc_oct _ _ (by omega) (by omega)]
    simp [hexEnc, digitsText, (digit_char _ ha).1, hexDigitChar_15]
  | case3 a b r ih =>
    have ha := hd a (by simp)
    have hb := hd b (by simp)
    simp only [List.map_cons, (oct_facts b (by omega) a (by omega)).2.2.1]
    rw [hexEnc_oct _ _ (by omega) (by omega), ih (fun d h => hd d (by simp [h]))]
    have : (r.length + 1 + 1) % 2 = r.length % 2 := by omega
    simp [digitsText, (digit_char _ ha).1, (digit_char _ hb).1, this]

theorem digitsText_last_ne_f (ds : List Nat) (hd : ∀ d ∈ ds, d < 10) (hne : ds ≠ []) :
    (digitsText ds).getD ((digitsText ds).length - 1) 0 ≠ charF := by
  have hl : (digitsText ds).length = ds.length := by simp [digitsText]
  have hpos : 0 < ds.length := List.length_pos_iff.mpr hne
  rw [hl]
  simp only [digitsText, List.getD_eq_getElem?_getD, List.getElem?_map]
  rw [List.getElem?_eq_getElem (by omega)]
  simp only [Option.map_some, Option.getD_some]
  exact (digit_char _ (hd _ (List.getElem_mem _))).2.1

/-- null scheme: the scheme output is the MSIN, BCD-coded -/
theorem suci_so_null (ds : List Nat) (hd : ∀ d ∈ ds, d < 10) (hne : ds ≠ []) :
    schemeOutputText 0 (bcdPack ds) = .ok (digitsText ds) := by
  have hx := msin_hex ds hd
  have hpos : 0 < ds.length := List.length_pos_iff.mpr hne
  unfold schemeOutputText
  rw [if_pos (by decide)]
  by_cases hp : ds.length % 2 = 1
  · rw [if_pos hp] at hx
    simp only [hx]
    simp [lastByte, idx, chop1_append_one, bind, Outcome.bind]
  · rw [if_neg hp] at hx
    simp only [hx, List.append_nil]
    have hl : (digitsText ds).length = ds.length := by simp [digitsText]
    have := digitsText_last_ne_f ds hd hne
    rw [hl, List.getD_eq_getElem?_getD] at this
    simp [lastByte, idx, bind, Outcome.bind, hl, Nat.ne_of_gt hpos, pure]
    rw [if_pos (by omega)]
    simp [this]

theorem scheme_hex : ∀ s, s < 16 → (fmtHex8 (UInt8.ofNat s) = ascii "0" ↔ s = 0) ∧ fmtHex8 (UInt8.ofNat s) = [hexDigitChar s] := by decide

theorem suci_so_scheme (s : Nat) (hs : s < 16) (h0 : s ≠ 0) (out : Bytes) :
    schemeOutputText (UInt8.ofNat s) out = .ok (hexText out) := by
  unfold schemeOutputText
  rw [if_neg (fun h => h0 ((scheme_hex s hs).1.mp h)), hexEnc_eq_hexText]; rfl

theorem atoiAt_ok {s : Bytes} {i : Nat} {d : UInt8} (h : atoiAt s i = .ok d) : atoi1 (s.getD i 0) = some d := by
  unfold atoiAt idx at h
  split at h
  · simp only [bind, Outcome.bind] at h
    split at h
    · next d' hd' => cases h; exact hd'
    · cases h
  · simp [bind, Outcome.bind] at h

theorem bind_ok_inv {α β} {x : Outcome α} {f : α → Outcome β} {b : β} (h : (x >>= f) = .ok b) : ∃ a, x = .ok a ∧ f a = .ok b := by
  cases x with
  | ok a => exact ⟨a, rfl, h⟩
  | err e => cases h
  | panic => cases h

set_option maxRecDepth 100000 in
theorem amf_shift_mask : ∀ n, n < 256 →
    setBits 0 63 (UInt8.ofNat n) 255 6 &&& (192 : UInt8) = UInt8.ofNat n <<< (6 : UInt8) := by decide

end NasVerif.Proofs.Identity
