import NasVerif.Spec.Lists
import NasVerif.Proofs.NoPanic
import NasVerif.Proofs.IdentityLemmas
import NasVerif.Props.C12
/-!
# Helper lemmas and value types for C13 (slice and area lists)
-/
namespace NasVerif.Proofs.Lists
open NasVerif NasVerif.Model.Convert NasVerif.Spec.Lists NasVerif.Spec.Identity NasVerif.Proofs.Identity NasVerif.Props.C12
set_option linter.unusedSimpArgs false
set_option linter.unusedVariables false

macro "snssai_case" : tactic =>
  `(tactic| (simp +arith [snssaiToModels, decSnssaiLV, Outcome.isPanic, idx, slice, bind, Outcome.bind, pure] <;> (try omega)))

/-- one S-NSSAI: the library's reader and the specification decoder agree on every input -/
theorem snssai_step (l : UInt8) (rest : Bytes) :
    (snssaiToModels l (l :: rest)).isPanic = false ∧
    (∀ m, snssaiToModels l (l :: rest) = .ok m ↔ ∃ r, decSnssaiLV (l :: rest) = some (m, r)) ∧
    (∀ m r, decSnssaiLV (l :: rest) = some (m, r) → r = rest.drop l.toNat ∧ l.toNat ≤ rest.length ∧ (l + 1).toNat = l.toNat + 1) := by
  by_cases h1 : l = 1
  · subst h1
    match rest with
    | [] => snssai_case
    | s :: r => snssai_case
  by_cases h2 : l = 2
  · subst h2
    match rest with
    | [] => snssai_case
    | [_] => snssai_case
    | s :: h :: r => snssai_case
  by_cases h4 : l = 4
  · subst h4
    match rest with
    | [] => snssai_case
    | [_] => snssai_case
    | [_, _] => snssai_case
    | [_, _, _] => snssai_case
    | s :: a :: b :: c :: r => snssai_case
  by_cases h5 : l = 5
  · subst h5
    match rest with
    | [] => snssai_case
    | [_] => snssai_case
    | [_, _] => snssai_case
    | [_, _, _] => snssai_case
    | [_, _, _, _] => snssai_case
    | s :: a :: b :: c :: h :: r => snssai_case
  by_cases h8 : l = 8
  · subst h8
    match rest with
    | [] => snssai_case
    | [_] => snssai_case
    | [_, _] => snssai_case
    | [_, _, _] => snssai_case
    | [_, _, _, _] => snssai_case
    | [_, _, _, _, _] => snssai_case
    | [_, _, _, _, _, _] => snssai_case
    | [_, _, _, _, _, _, _] => snssai_case
    | s :: a :: b :: c :: h :: x :: y :: z :: r => snssai_case
  · have hd : decSnssaiLV (l :: rest) = none := by
      unfold decSnssaiLV
      split <;> simp_all
    refine ⟨?_, ?_, ?_⟩
    · unfold snssaiToModels; simp [h1, h2, h4, h5, h8, Outcome.isPanic]
    · intro m; simp [hd]; unfold snssaiToModels; simp [h1, h2, h4, h5, h8]
    · intro m r h; simp [hd] at h

theorem idx_drop {buf : Bytes} {off : Nat} (h : off < buf.length) :
    ∃ l rest, idx buf off = .ok l ∧ buf.drop off = l :: rest ∧ rest = buf.drop (off + 1) := by
  refine ⟨buf.getD off 0, buf.drop (off + 1), idx_ok h, ?_, rfl⟩
  rw [List.getD_eq_getElem?_getD, List.getElem?_eq_getElem h]
  simp

/-- "the library's outcome is what the specification decoder says": a value when it decodes, an error otherwise -/
def Agrees {α} (o : Outcome α) (s : Option α) : Prop :=
  match s with
  | some a => o = .ok a
  | none => o.isErr = true

theorem not_ok_not_panic_isErr {α} {o : Outcome α} (h1 : o.isPanic = false) (h2 : ∀ a, o ≠ .ok a) : ∃ e, o = .err e := by
  cases o with
  | ok a => exact absurd rfl (h2 a)
  | err e => exact ⟨e, rfl⟩
  | panic => simp [Outcome.isPanic] at h1

/-- the NSSAI walker of the library equals the specification decoder on the remaining contents -/
theorem reqNssaiLoop_spec (f2 fuel : Nat) (buf : Bytes) (off : Nat) (acc : List MappedSnssai)
    (hoff : off ≤ buf.length) (hf : buf.length < fuel + off) (hpos : 0 < fuel) (h2 : buf.length - off ≤ f2) :
    Agrees (reqNssaiLoop fuel buf.length buf off acc) ((decNssai f2 (buf.drop off)).map (acc ++ ·)) := by
  induction f2 generalizing fuel off acc with
  | zero =>
    have : off = buf.length := by omega
    subst this
    cases fuel with
    | zero => omega
    | succ n => simp [reqNssaiLoop, decNssai, Agrees, pure]
  | succ k ih =>
    cases fuel with
    | zero => omega
    | succ n =>
      by_cases hlt : off < buf.length
      · obtain ⟨l, rest, hi, hd, hrest⟩ := idx_drop hlt
        have st := snssai_step l rest
        unfold reqNssaiLoop
        simp only [hlt, if_true, hi, sliceFrom_ok hoff, hd, bind, Outcome.bind]
        cases hs : decSnssaiLV (l :: rest) with
        | none =>
          have hno : ∀ m, snssaiToModels l (l :: rest) ≠ .ok m := by
            intro m hm; obtain ⟨r, hr⟩ := (st.2.1 m).mp hm; rw [hs] at hr; cases hr
          obtain ⟨e, he⟩ := not_ok_not_panic_isErr st.1 hno
          simp [he, decNssai, hs, Agrees, Outcome.isErr]
        | some mr =>
          obtain ⟨m, r⟩ := mr
          have hm : snssaiToModels l (l :: rest) = .ok m := (st.2.1 m).mpr ⟨r, hs⟩
          obtain ⟨hr, hle, hadd⟩ := st.2.2 m r hs
          have hrl : rest.length = buf.length - (off + 1) := by rw [hrest]; simp
          have hr' : r = buf.drop (off + (l + 1).toNat) := by
            rw [hr, hrest, hadd, List.drop_drop]; congr 1; omega
          simp only [hm, decNssai, hs]
          have := ih n (off + (l + 1).toNat) (acc ++ [m]) (by omega) (by omega) (by omega) (by omega)
          rw [← hr'] at this
          cases hdn : decNssai k r with
          | none => simpa [hdn, Agrees] using this
          | some l => simpa [hdn, Agrees] using this
      · have : off = buf.length := by omega
        subst this
        simp [reqNssaiLoop, decNssai, Agrees, pure]

/-- an S-NSSAI value as the network function holds it: SST and an optional 24-bit SD -/
structure SnssaiV where
  sst : UInt8
  sd  : Option (UInt8 × UInt8 × UInt8)

def SnssaiV.sdText (v : SnssaiV) : Bytes := match v.sd with | some (a, b, c) => hexText [a, b, c] | none => []

def SnssaiV.toSnssai (v : SnssaiV) : Snssai := ⟨v.sst, v.sd.map fun (a, b, c) => [a, b, c]⟩

def SnssaiV.toMapped (v : SnssaiV) : MappedSnssai := ⟨v.toSnssai, none⟩

def SnssaiV.enc (v : SnssaiV) : Bytes := snssaiToNas v.sst v.sdText

theorem hexText_ne_nil (a b c : UInt8) : hexText [a, b, c] ≠ [] := by simp [hexText]

theorem sdBytes_hexText (a b c : UInt8) : sdBytes (hexText [a, b, c]) = [a, b, c] := by
  rw [← hexEnc_eq_hexText]; simp [sdBytes, hexDec_hexEnc]

/-- `SnssaiToNas` output is read back by the specification decoder (9.11.2.8), whatever follows -/
theorem snssai_enc_dec (v : SnssaiV) (r : Bytes) : decSnssaiLV (v.enc ++ r) = some (v.toMapped, r) := by
  obtain ⟨sst, sd⟩ := v
  cases sd with
  | none => simp [SnssaiV.enc, SnssaiV.sdText, snssaiToNas, decSnssaiLV, SnssaiV.toMapped, SnssaiV.toSnssai]
  | some t =>
    obtain ⟨a, b, c⟩ := t
    simp [SnssaiV.enc, SnssaiV.sdText, snssaiToNas, hexText_ne_nil, sdBytes_hexText, decSnssaiLV, SnssaiV.toMapped, SnssaiV.toSnssai]

theorem snssai_enc_pos (v : SnssaiV) : 0 < v.enc.length := by
  obtain ⟨sst, sd⟩ := v
  cases sd with
  | none => simp [SnssaiV.enc, SnssaiV.sdText, snssaiToNas]
  | some t => obtain ⟨a, b, c⟩ := t; simp [SnssaiV.enc, SnssaiV.sdText, snssaiToNas, hexText_ne_nil]

theorem nssai_enc_dec (l : List SnssaiV) (n : Nat) (hn : (l.flatMap SnssaiV.enc).length ≤ n) :
    decNssai n (l.flatMap SnssaiV.enc) = some (l.map SnssaiV.toMapped) := by
  induction l generalizing n with
  | nil => cases n <;> simp [decNssai]
  | cons v r ih =>
    have hp := snssai_enc_pos v
    simp only [List.flatMap_cons, List.length_append] at hn ⊢
    cases n with
    | zero => omega
    | succ k =>
      cases hv : v.enc ++ List.flatMap SnssaiV.enc r with
      | nil =>
        have h0 : (v.enc ++ List.flatMap SnssaiV.enc r).length = 0 := by rw [hv]; rfl
        rw [List.length_append] at h0; omega
      | cons b bs =>
        have hd := snssai_enc_dec v (List.flatMap SnssaiV.enc r)
        rw [hv] at hd
        simp only [decNssai, hd, List.map_cons]
        rw [ih k (by omega)]; rfl

theorem ladnLoop_spec (f2 fuel : Nat) (buf : Bytes) (off : Nat) (acc l : List Bytes)
    (hoff : off ≤ buf.length) (hf : buf.length < fuel + off) (hpos : 0 < fuel)
    (hd : decLadnInd f2 (buf.drop off) = some l) : ladnLoop fuel buf off acc = .ok (acc ++ l) := by
  induction f2 generalizing fuel off acc l with
  | zero =>
    cases fuel with
    | zero => omega
    | succ n =>
      cases hb : buf.drop off with
      | nil =>
        have : off = buf.length := by
          have := congrArg List.length hb; simp at this; omega
        rw [hb] at hd; simp [decLadnInd] at hd; subst hd
        subst this
        simp [ladnLoop, pure]
      | cons x r => rw [hb] at hd; simp [decLadnInd] at hd
  | succ k ih =>
    cases fuel with
    | zero => omega
    | succ n =>
      by_cases hlt : off < buf.length
      · obtain ⟨x, rest, hi, hdr, hrest⟩ := idx_drop hlt
        rw [hdr] at hd
        simp only [decLadnInd] at hd
        have hrl : rest.length = buf.length - (off + 1) := by rw [hrest]; simp
        split at hd
        · next hle =>
          cases hrec : decLadnInd k (rest.drop x.toNat) with
          | none => simp [hrec] at hd
          | some l' =>
            simp [hrec] at hd; subst hd
            unfold ladnLoop
            simp only [hlt, if_true, hi, bind, Outcome.bind]
            rw [if_neg (by omega), slice_ok (by omega) (by omega)]
            simp only []
            have hdrop : rest.drop x.toNat = buf.drop (off + 1 + x.toNat) := by rw [hrest, List.drop_drop]
            rw [hdrop] at hrec
            have := ih n (off + 1 + x.toNat) (acc ++ [(buf.take (off + 1 + x.toNat)).drop (off + 1)]) l' (by omega) (by omega) (by omega) hrec
            rw [this]
            have ht : (buf.take (off + 1 + x.toNat)).drop (off + 1) = rest.take x.toNat := by
              rw [hrest, List.drop_take]; congr 1; omega
            simp [ht]
        · cases hd
      · have : off = buf.length := by omega
        subst this
        simp [decLadnInd] at hd
        subst hd; simp [ladnLoop, pure]

def encDnn (d : Bytes) : Bytes := UInt8.ofNat d.length :: d

theorem ladnInd_enc_dec (l : List Bytes) (hl : ∀ d ∈ l, d.length < 256) (n : Nat) (hn : (l.flatMap encDnn).length ≤ n) :
    decLadnInd n (l.flatMap encDnn) = some l := by
  induction l generalizing n with
  | nil => cases n <;> simp [decLadnInd]
  | cons d r ih =>
    have hd := hl d (by simp)
    simp only [List.flatMap_cons, encDnn, List.cons_append, List.length_cons, List.length_append] at hn ⊢
    cases n with
    | zero => omega
    | succ k =>
      have hlen : (UInt8.ofNat d.length).toNat = d.length := by simp; omega
      simp only [decLadnInd, hlen, List.length_append]
      rw [if_pos (by omega), List.drop_left, List.take_left]
      rw [ih (fun x hx => hl x (by simp [hx])) k (by simp [encDnn] at hn ⊢; omega)]; rfl

/-- a tracking area identity as the network function holds it: a valid PLMN and a three-octet TAC (given as 6 hex characters) -/
structure TaiV where
  plmn : Plmn
  a : UInt8
  b : UInt8
  c : UInt8

def TaiV.toModel (t : TaiV) : Tai := { mcc := t.plmn.mccText, mnc := t.plmn.mncText, tac := hexText [t.a, t.b, t.c] }

def TaiV.toOctets (t : TaiV) : TaiOctets := ⟨t.plmn.octets, [t.a, t.b, t.c]⟩

theorem hexDec_tac (a b c : UInt8) : hexDec (hexText [a, b, c]) = some [a, b, c] := by
  rw [← hexEnc_eq_hexText, hexDec_hexEnc]

theorem plmn_octets3 (p : Plmn) : ∃ x y z, p.octets = [x, y, z] := ⟨_, _, _, rfl⟩

set_option maxRecDepth 100000 in

theorem tai_header' : ∀ k, k < 16 →
    (let h : UInt8 := ((0 : UInt8) <<< 5) + (UInt8.ofNat (k + 1) - 1)
     h >>> 7 = 0 ∧ (h >>> 5) &&& 3 = 0 ∧ (h &&& 0x1f).toNat + 1 = k + 1) ∧
    (let h : UInt8 := ((2 : UInt8) <<< 5) + (UInt8.ofNat (k + 1) - 1)
     h >>> 7 = 0 ∧ (h >>> 5) &&& 3 = 2 ∧ (h &&& 0x1f).toNat + 1 = k + 1) := by decide

theorem tai_header (n : Nat) (h1 : 1 ≤ n) (h16 : n ≤ 16) :
    (let h : UInt8 := ((0 : UInt8) <<< 5) + (UInt8.ofNat n - 1)
     h >>> 7 = 0 ∧ (h >>> 5) &&& 3 = 0 ∧ (h &&& 0x1f).toNat + 1 = n) ∧
    (let h : UInt8 := ((2 : UInt8) <<< 5) + (UInt8.ofNat n - 1)
     h >>> 7 = 0 ∧ (h >>> 5) &&& 3 = 2 ∧ (h &&& 0x1f).toNat + 1 = n) := by
  have := tai_header' (n - 1) (by omega)
  rwa [show n - 1 + 1 = n by omega] at this

theorem taiBodySame_spec (l : List TaiV) (pl : Bytes) :
    takeTacs l.length pl (taiBodySame (l.map TaiV.toModel)) = some (l.map fun t => ⟨pl, [t.a, t.b, t.c]⟩) := by
  induction l with
  | nil => simp [taiBodySame, takeTacs]
  | cons t r ih => simp [taiBodySame, TaiV.toModel, hexDec_tac, takeTacs, ih]

theorem taiBodyMixed_spec (l : List TaiV) (hv : ∀ t ∈ l, t.plmn.Valid) :
    ∃ body, taiBodyMixed (l.map TaiV.toModel) = .ok body ∧ takeTais l.length body = some (l.map TaiV.toOctets) := by
  induction l with
  | nil => exact ⟨[], rfl, by simp [takeTais]⟩
  | cons t r ih =>
    obtain ⟨body, hb, ht⟩ := ih (fun x hx => hv x (by simp [hx]))
    have hp := text_to_plmn t.plmn (hv t (by simp))
    refine ⟨t.plmn.octets ++ [t.a, t.b, t.c] ++ body, ?_, ?_⟩
    · simp [taiBodyMixed, TaiV.toModel, hp, hb, hexDec_tac, bind, Outcome.bind, pure]
    · simp [Plmn.octets, takeTais, ht, TaiV.toOctets]

theorem tacsOf_spec (l : List (UInt8 × UInt8 × UInt8)) :
    tacsOf (l.map fun (a, b, c) => hexText [a, b, c]) = (l.flatMap fun (a, b, c) => [a, b, c], l.length) := by
  induction l with
  | nil => rfl
  | cons t r ih => obtain ⟨a, b, c⟩ := t; simp [tacsOf, ih, hexDec_tac]

theorem takeTacs_flat (l : List (UInt8 × UInt8 × UInt8)) (pl : Bytes) :
    takeTacs l.length pl (l.flatMap fun (a, b, c) => [a, b, c]) = some (l.map fun (a, b, c) => ⟨pl, [a, b, c]⟩) := by
  induction l with
  | nil => simp [takeTacs]
  | cons t r ih => obtain ⟨a, b, c⟩ := t; simp [takeTacs, ih]

set_option maxRecDepth 100000 in

theorem sarea_header : ∀ k, k < 16 → ∀ t : Bool,
    (let h : UInt8 := (((if t then 0 else 1 : UInt8) <<< 7) &&& 0x80) + (UInt8.ofNat k &&& 0x1f)
     (h >>> 5) &&& 3 = 0 ∧ (h &&& 0x1f).toNat + 1 = k + 1 ∧ ((h >>> 7 = 1) ↔ t = false)) := by decide

set_option maxRecDepth 100000 in

theorem rej_header : ∀ c, c < 16 →
    ((((0x01 : UInt8) <<< 4) + UInt8.ofNat c) >>> 4 = 1 ∧ (((0x01 : UInt8) <<< 4) + UInt8.ofNat c) &&& 0x0f = UInt8.ofNat c) ∧
    ((((0x04 : UInt8) <<< 4) + UInt8.ofNat c) >>> 4 = 4 ∧ (((0x04 : UInt8) <<< 4) + UInt8.ofNat c) &&& 0x0f = UInt8.ofNat c) := by decide

def encRej (e : SnssaiV × Nat) : Bytes := rejectedSnssaiToNas e.1.sst e.1.sdText (UInt8.ofNat e.2)

theorem encRej_pos (e : SnssaiV × Nat) : 0 < (encRej e).length := by
  obtain ⟨⟨sst, sd⟩, c⟩ := e
  cases sd with
  | none => simp [encRej, SnssaiV.sdText, rejectedSnssaiToNas]
  | some t => obtain ⟨a, b, c'⟩ := t; simp [encRej, SnssaiV.sdText, rejectedSnssaiToNas, hexText_ne_nil]

theorem rejected_enc_dec (es : List (SnssaiV × Nat)) (hc : ∀ e ∈ es, e.2 < 16) (n : Nat) (hn : (es.flatMap encRej).length ≤ n) :
    decRejected n (es.flatMap encRej) = some (es.map fun e => (e.1.toSnssai, UInt8.ofNat e.2)) := by
  induction es generalizing n with
  | nil => cases n <;> simp [decRejected]
  | cons e r ih =>
    have hp := encRej_pos e
    simp only [List.flatMap_cons, List.length_append] at hn
    cases n with
    | zero => omega
    | succ k =>
      have hk : (List.flatMap encRej r).length ≤ k := by omega
      have hr := ih (fun x hx => hc x (by simp [hx])) k hk
      have hce := hc e (by simp)
      obtain ⟨⟨sst, sd⟩, c⟩ := e
      have hh := rej_header c hce
      cases sd with
      | none =>
        simp only [List.flatMap_cons, encRej, SnssaiV.sdText, rejectedSnssaiToNas, if_true, List.cons_append, List.nil_append,
          decRejected, hh.1.1, hh.1.2, hr, List.map_cons, SnssaiV.toSnssai, Option.map_some, Option.map_none]
      | some t =>
        obtain ⟨a, b, c'⟩ := t
        simp only [List.flatMap_cons, encRej, SnssaiV.sdText, rejectedSnssaiToNas, hexText_ne_nil, if_false, sdBytes_hexText,
          List.cons_append, List.nil_append, decRejected, hh.2.1, hh.2.2, hr, List.map_cons, SnssaiV.toSnssai, Option.map_some]
        simp

theorem takeTacs_len {n : Nat} {p r : Bytes} {l : List TaiOctets} (h : takeTacs n p r = some l) : r.length = 3 * n := by
  induction n generalizing r l with
  | zero => cases r <;> simp_all [takeTacs]
  | succ k ih =>
    match r with
    | a :: b :: c :: r' =>
      simp only [takeTacs] at h
      cases h' : takeTacs k p r' with
      | none => simp [h'] at h
      | some l' => have := ih h'; simp; omega
    | [] => simp [takeTacs] at h
    | [_] => simp [takeTacs] at h
    | [_, _] => simp [takeTacs] at h

theorem takeTais_len {n : Nat} {r : Bytes} {l : List TaiOctets} (h : takeTais n r = some l) : r.length = 6 * n := by
  induction n generalizing r l with
  | zero => cases r <;> simp_all [takeTais]
  | succ k ih =>
    match r with
    | p :: q :: s :: a :: b :: c :: r' =>
      simp only [takeTais] at h
      cases h' : takeTais k r' with
      | none => simp [h'] at h
      | some l' => have := ih h'; simp; omega
    | [] => simp [takeTais] at h
    | [_] => simp [takeTais] at h
    | [_, _] => simp [takeTais] at h
    | [_, _, _] => simp [takeTais] at h
    | [_, _, _, _] => simp [takeTais] at h
    | [_, _, _, _, _] => simp [takeTais] at h

theorem decTaiList_len {w : Bytes} {l : List TaiOctets} (h : decTaiList w = some l) : w.length ≤ 193 := by
  match w with
  | [] => simp [decTaiList] at h
  | hd :: r =>
    have hn : (hd &&& 0x1f).toNat + 1 ≤ 32 := by
      have : (hd &&& 0x1f).toNat ≤ 31 := by
        have := UInt8.toNat_and hd 0x1f
        rw [this]; exact Nat.and_le_right
      omega
    simp only [decTaiList] at h
    split at h
    · cases h
    · split at h
      · match r with
        | p :: q :: s :: r' => have := takeTacs_len h; simp; omega
        | [] => simp at h
        | [_] => simp at h
        | [_, _] => simp at h
      · split at h
        · have := takeTais_len h; simp; omega
        · cases h

end NasVerif.Proofs.Lists
