import NasVerif.Model.UePolicy
import NasVerif.Proofs.QosLemmas
import NasVerif.Props.C12
/-!
# Helper lemmas, well-formedness predicates and normalisation functions for C18 (UE policy container)
-/
namespace NasVerif.Proofs.UePolicy
open NasVerif NasVerif.Model.Qos NasVerif.Model.UePolicy NasVerif.Proofs.Qos NasVerif.Spec.Identity NasVerif.Proofs.Identity
set_option linter.unusedSimpArgs false
set_option linter.unusedVariables false

theorem np_readBytes (k : Nat) (buf : Bytes) : NoPanic (readBytes k buf) := by
  unfold readBytes; repeat' split
  all_goals first | exact np_ok _ | exact np_err _

theorem readBytes_len {k : Nat} {buf a r : Bytes} (h : readBytes k buf = .ok (a, r)) : r.length + k = buf.length ∧ a.length = k := by
  unfold readBytes at h
  split at h
  · next hk => cases h; subst hk; simp
  · split at h
    · cases h
    · split at h
      · cases h
      · cases h; simp; omega

theorem np_parsePart (buf : Bytes) : NoPanic (parsePart buf) := by
  unfold parsePart
  apply np_bind (np_readU16 buf); intro x _; obtain ⟨a, r1⟩ := x
  apply np_bind (np_readU8 _); intro y _; obtain ⟨b, r2⟩ := y
  apply np_bind (np_readBytes _ _); intro z _; obtain ⟨c, r3⟩ := z
  exact np_pure _

theorem parsePart_len {buf rest : Bytes} {p : Part} (h : parsePart buf = .ok (p, rest)) : rest.length + 3 ≤ buf.length := by
  unfold parsePart at h
  obtain ⟨⟨a, r1⟩, h1, h⟩ := bind_ok_inv' h
  obtain ⟨⟨b, r2⟩, h2, h⟩ := bind_ok_inv' h
  obtain ⟨⟨c, r3⟩, h3, h⟩ := bind_ok_inv' h
  simp [pure] at h; obtain ⟨_, rfl⟩ := h
  have := readU16_len h1; have := readU8_len h2; have := readBytes_len h3
  omega

theorem partsLoop_total (fuel : Nat) (buf : Bytes) (acc : List Part) (hf : buf.length < fuel) : NoPanic (partsLoop fuel buf acc) := by
  induction fuel generalizing buf acc with
  | zero => omega
  | succ n ih =>
    unfold partsLoop
    have hp := np_parsePart buf
    split
    · next p rest h => have := parsePart_len h; exact ih _ _ (by omega)
    · exact np_pure _
    · exact np_err _
    · next h => exact absurd h hp

theorem np_parseInstr (buf : Bytes) : NoPanic (parseInstr buf) := by
  unfold parseInstr
  apply np_bind (np_readU16 buf); intro x _; obtain ⟨a, r1⟩ := x
  apply np_bind (np_readU16 _); intro y _; obtain ⟨b, r2⟩ := y
  dsimp only
  split
  · exact np_err _
  · apply np_bind (partsLoop_total _ _ _ (by omega)); intro _ _; exact np_pure _

theorem parseInstr_len {buf rest : Bytes} {i : Instr} (h : parseInstr buf = .ok (i, rest)) : rest.length + 4 ≤ buf.length := by
  unfold parseInstr at h
  obtain ⟨⟨a, r1⟩, h1, h⟩ := bind_ok_inv' h
  obtain ⟨⟨b, r2⟩, h2, h⟩ := bind_ok_inv' h
  dsimp only at h
  split at h
  · cases h
  · obtain ⟨ps, h3, h⟩ := bind_ok_inv' h
    simp [pure] at h; obtain ⟨_, rfl⟩ := h
    have := readU16_len h1; have := readU16_len h2
    simp; omega

theorem instrLoop_total (fuel : Nat) (buf : Bytes) (acc : List Instr) (hf : buf.length < fuel) : NoPanic (instrLoop fuel buf acc) := by
  induction fuel generalizing buf acc with
  | zero => omega
  | succ n ih =>
    unfold instrLoop
    have hp := np_parseInstr buf
    split
    · next p rest h => have := parseInstr_len h; exact ih _ _ (by omega)
    · exact np_pure _
    · exact np_err _
    · next h => exact absurd h hp

theorem np_parseSubHead (buf : Bytes) : NoPanic (parseSubHead buf) := by
  unfold parseSubHead
  apply np_bind (np_readU16 buf); intro x _; obtain ⟨a, r1⟩ := x
  apply np_bind (np_readU8 _); intro y _; obtain ⟨b, r2⟩ := y
  dsimp only
  split
  · exact np_err _
  · apply np_bind (np_readU8 _); intro z _; obtain ⟨c, r3⟩ := z
    dsimp only
    split
    · exact np_err _
    · apply np_bind (np_readU8 _); intro w _; obtain ⟨d, r4⟩ := w
      dsimp only
      split
      · exact np_err _
      · exact np_pure _

theorem parseSubHead_len {buf : Bytes} {len : UInt16} {p1 p2 p3 : UInt8} {mcc mnc : Nat} {body rest : Bytes}
    (h : parseSubHead buf = .ok (len, p1, p2, p3, mcc, mnc, body, rest)) :
    rest.length + 5 ≤ buf.length ∧ body.length + 5 ≤ buf.length := by
  unfold parseSubHead at h
  obtain ⟨⟨a, r1⟩, h1, h⟩ := bind_ok_inv' h
  obtain ⟨⟨b, r2⟩, h2, h⟩ := bind_ok_inv' h
  dsimp only at h
  split at h
  · cases h
  · obtain ⟨⟨c, r3⟩, h3, h⟩ := bind_ok_inv' h
    dsimp only at h
    split at h
    · cases h
    · obtain ⟨⟨d, r4⟩, h4, h⟩ := bind_ok_inv' h
      dsimp only at h
      split at h
      · cases h
      · simp [pure] at h
        obtain ⟨_, _, _, _, _, _, rfl, rfl⟩ := h
        have := readU16_len h1; have := readU8_len h2; have := readU8_len h3; have := readU8_len h4
        simp; omega

theorem np_parseSubList (buf : Bytes) : NoPanic (parseSubList buf) := by
  unfold parseSubList
  apply np_bind (np_parseSubHead buf); intro x _
  obtain ⟨len, p1, p2, p3, mcc, mnc, body, rest⟩ := x
  dsimp only
  apply np_bind (instrLoop_total _ _ _ (by omega)); intro _ _; exact np_pure _

theorem parseSubList_len {buf rest : Bytes} {s : SubList} (h : parseSubList buf = .ok (s, rest)) : rest.length + 5 ≤ buf.length := by
  unfold parseSubList at h
  obtain ⟨⟨len, p1, p2, p3, mcc, mnc, body, rest'⟩, h1, h⟩ := bind_ok_inv' h
  dsimp only at h
  obtain ⟨is, h2, h⟩ := bind_ok_inv' h
  simp [pure] at h; obtain ⟨_, rfl⟩ := h
  exact (parseSubHead_len h1).1

theorem subListLoop_total (fuel : Nat) (buf : Bytes) (acc : List SubList) (hf : buf.length < fuel) : NoPanic (subListLoop fuel buf acc) := by
  induction fuel generalizing buf acc with
  | zero => omega
  | succ n ih =>
    unfold subListLoop
    have hp := np_parseSubList buf
    split
    · next p rest h => have := parseSubList_len h; exact ih _ _ (by omega)
    · exact np_pure _
    · exact np_err _
    · next h => exact absurd h hp

theorem np_parseRes (buf : Bytes) : NoPanic (parseRes buf) := by
  unfold parseRes
  apply np_bind (np_readU16 buf); intro x _; obtain ⟨a, r1⟩ := x
  apply np_bind (np_readU16 _); intro y _; obtain ⟨b, r2⟩ := y
  apply np_bind (np_readU8 _); intro z _; obtain ⟨c, r3⟩ := z
  exact np_pure _

theorem parseRes_len {buf rest : Bytes} {r : Res} (h : parseRes buf = .ok (r, rest)) : rest.length + 5 ≤ buf.length := by
  unfold parseRes at h
  obtain ⟨⟨a, r1⟩, h1, h⟩ := bind_ok_inv' h
  obtain ⟨⟨b, r2⟩, h2, h⟩ := bind_ok_inv' h
  obtain ⟨⟨c, r3⟩, h3, h⟩ := bind_ok_inv' h
  simp [pure] at h; obtain ⟨_, rfl⟩ := h
  have := readU16_len h1; have := readU16_len h2; have := readU8_len h3
  omega

theorem resLoop_total (fuel : Nat) (buf : Bytes) (acc : List Res) (hf : buf.length < fuel) : NoPanic (resLoop fuel buf acc) := by
  induction fuel generalizing buf acc with
  | zero => omega
  | succ n ih =>
    unfold resLoop
    have hp := np_parseRes buf
    split
    · next p rest h => have := parseRes_len h; exact ih _ _ (by omega)
    · exact np_pure _
    · exact np_err _
    · next h => exact absurd h hp

theorem np_parseSubResult (buf : Bytes) : NoPanic (parseSubResult buf) := by
  unfold parseSubResult
  apply np_bind (np_parseSubHead buf); intro x _
  obtain ⟨len, p1, p2, p3, mcc, mnc, body, rest⟩ := x
  dsimp only
  apply np_bind (resLoop_total _ _ _ (by omega)); intro _ _; exact np_pure _

theorem parseSubResult_len {buf rest : Bytes} {s : SubResult} (h : parseSubResult buf = .ok (s, rest)) : rest.length + 5 ≤ buf.length := by
  unfold parseSubResult at h
  obtain ⟨⟨len, p1, p2, p3, mcc, mnc, body, rest'⟩, h1, h⟩ := bind_ok_inv' h
  dsimp only at h
  obtain ⟨is, h2, h⟩ := bind_ok_inv' h
  simp [pure] at h; obtain ⟨_, rfl⟩ := h
  exact (parseSubHead_len h1).1

theorem subResultLoop_total (fuel : Nat) (buf : Bytes) (acc : List SubResult) (hf : buf.length < fuel) :
    NoPanic (subResultLoop fuel buf acc) := by
  induction fuel generalizing buf acc with
  | zero => omega
  | succ n ih =>
    unfold subResultLoop
    have hp := np_parseSubResult buf
    split
    · next p rest h => have := parseSubResult_len h; exact ih _ _ (by omega)
    · exact np_pure _
    · exact np_err _
    · next h => exact absurd h hp

theorem np_readIe (buf : Bytes) : NoPanic (readIe buf) := by
  unfold readIe
  apply np_bind (np_readU8 buf); intro x _; obtain ⟨a, r1⟩ := x
  apply np_bind (np_readU16 _); intro y _; obtain ⟨b, r2⟩ := y
  apply np_bind (np_readBytes _ _); intro z _; obtain ⟨c, r3⟩ := z
  exact np_pure _

/-- the PLMN whose MCC / MNC are the given numbers (a number below 100 is a two-digit MNC) -/
def plmnOfNumbers (mcc mnc : Nat) : Plmn :=
  if mnc < 100 then ⟨mcc / 100, mcc % 100 / 10, mcc % 10, mnc / 10, mnc % 10, none⟩
  else ⟨mcc / 100, mcc % 100 / 10, mcc % 10, mnc / 100, mnc % 100 / 10, some (mnc % 10)⟩

theorem f0_or : ∀ lo, lo < 16 → (0xf0 : UInt8) ||| UInt8.ofNat lo = oct 15 lo := by decide

set_option maxRecDepth 100000 in

theorem oct_nibbles : ∀ hi, hi < 16 → ∀ lo, lo < 16 →
    (oct hi lo &&& 0x0f).toNat = lo ∧ ((oct hi lo &&& 0xf0) >>> 4).toNat = hi := by decide

theorem u16_pred (n : Nat) (h : 1 + n < 65536) : (UInt16.ofNat (1 + n) - 1).toNat = n := by
  have h1 : (UInt16.ofNat (1 + n)).toNat = 1 + n := by simp; omega
  have : (1 : UInt16) ≤ UInt16.ofNat (1 + n) := by
    apply UInt16.le_iff_toNat_le.mpr; rw [h1]; simp
  rw [UInt16.toNat_sub_of_le _ _ this, h1]; simp

theorem u16_sub3 (n : Nat) (h : 3 + n < 65536) : (UInt16.ofNat (3 + n) - 3).toNat = n := by
  have h1 : (UInt16.ofNat (3 + n)).toNat = 3 + n := by simp; omega
  have : (3 : UInt16) ≤ UInt16.ofNat (3 + n) := by
    apply UInt16.le_iff_toNat_le.mpr; rw [h1]; simp
  rw [UInt16.toNat_sub_of_le _ _ this, h1]; simp

def WFPart (p : Part) : Prop := (p.len = 0 ∨ p.len.toNat = 1 + p.content.length) ∧ 1 + p.content.length < 65536

def normPart (p : Part) : Part := { p with len := UInt16.ofNat (1 + p.content.length) }

theorem readBytes_append (a rest : Bytes) : readBytes a.length (a ++ rest) = .ok (a, rest) := by
  unfold readBytes
  by_cases h0 : a.length = 0
  · have : a = [] := List.eq_nil_of_length_eq_zero h0
    subst this; simp
  · have hpos : 0 < a.length := Nat.pos_of_ne_zero h0
    rw [if_neg h0, if_neg (by simp only [List.length_append]; omega), if_neg (by simp)]
    simp

theorem marshalPart_eq (p : Part) (hw : WFPart p) :
    marshalPart p = be16 (UInt16.ofNat (1 + p.content.length)) ++ p.typ :: p.content := by
  unfold marshalPart
  obtain ⟨h1, h2⟩ := hw
  rcases h1 with h0 | hl
  · simp [h0]
  · have : p.len = UInt16.ofNat (1 + p.content.length) := by
      apply UInt16.toNat_inj.mp; rw [hl]; simp; omega
    by_cases h0 : p.len = 0
    · simp [h0]
    · simp [h0, this]

theorem parsePart_marshal (p : Part) (hw : WFPart p) (rest : Bytes) :
    parsePart (marshalPart p ++ rest) = .ok (normPart p, rest) := by
  rw [marshalPart_eq p hw]
  unfold parsePart
  simp only [List.append_assoc, readU16_be16, bind, Outcome.bind, List.cons_append, readU8, u16_pred _ hw.2, readBytes_append, pure,
    normPart]

theorem marshalPart_len (p : Part) : 3 ≤ (marshalPart p).length := by simp [marshalPart, be16]

theorem partsLoop_marshal (ps : List Part) (hw : ∀ p ∈ ps, WFPart p) (fuel : Nat) (hf : ps.length < fuel) (acc : List Part) :
    partsLoop fuel (ps.flatMap marshalPart) acc = .ok (acc ++ ps.map normPart) := by
  induction ps generalizing fuel acc with
  | nil =>
    cases fuel with
    | zero => omega
    | succ n => simp [partsLoop, parsePart, readU16, bind, Outcome.bind, pure]
  | cons p r ih =>
    cases fuel with
    | zero => omega
    | succ n =>
      simp only [List.flatMap_cons, partsLoop, parsePart_marshal p (hw p (by simp))]
      rw [ih (fun x hx => hw x (by simp [hx])) n (by simp at hf; omega)]; simp

theorem flatMap_len_ge {α} (f : α → Bytes) (k : Nat) (hk : ∀ a, k ≤ (f a).length) (l : List α) : k * l.length ≤ (l.flatMap f).length := by
  induction l with
  | nil => simp
  | cons a r ih => have := hk a; simp only [List.flatMap_cons, List.length_append, List.length_cons]; rw [Nat.mul_succ]; omega

def WFInstr (i : Instr) : Prop := (∀ p ∈ i.parts, WFPart p) ∧ (i.parts.flatMap marshalPart).length + 2 < 65536

def normInstr (i : Instr) : Instr :=
  { i with len := UInt16.ofNat ((i.parts.flatMap marshalPart).length + 2), parts := i.parts.map normPart }

theorem u16_ofNat_toNat (n : Nat) (h : n < 65536) : (UInt16.ofNat n).toNat = n := by simp; omega

theorem parseInstr_marshal (i : Instr) (hw : WFInstr i) (rest : Bytes) :
    parseInstr (marshalInstr i ++ rest) = .ok (normInstr i, rest) := by
  obtain ⟨hp, hl⟩ := hw
  have hlen := u16_ofNat_toNat _ hl
  have hge : ¬ UInt16.ofNat ((i.parts.flatMap marshalPart).length + 2) < 2 := by
    intro h; have := UInt16.lt_iff_toNat_lt.mp h; rw [hlen] at this
    have h2 : (2 : UInt16).toNat = 2 := by decide
    rw [h2] at this; omega
  have hfl := flatMap_len_ge marshalPart 3 marshalPart_len i.parts
  unfold parseInstr marshalInstr
  simp only [List.append_assoc, readU16_be16, bind, Outcome.bind, hge, if_false, hlen, Nat.add_sub_cancel, List.take_left, List.drop_left]
  rw [partsLoop_marshal i.parts hp _ (by omega)]
  simp [pure, normInstr]

theorem marshalInstr_len (i : Instr) : 4 ≤ (marshalInstr i).length := by simp [marshalInstr, be16]

theorem instrLoop_marshal (is : List Instr) (hw : ∀ i ∈ is, WFInstr i) (fuel : Nat) (hf : is.length < fuel) (acc : List Instr) :
    instrLoop fuel (is.flatMap marshalInstr) acc = .ok (acc ++ is.map normInstr) := by
  induction is generalizing fuel acc with
  | nil =>
    cases fuel with
    | zero => omega
    | succ n => simp [instrLoop, parseInstr, readU16, bind, Outcome.bind, pure]
  | cons p r ih =>
    cases fuel with
    | zero => omega
    | succ n =>
      simp only [List.flatMap_cons, instrLoop, parseInstr_marshal p (hw p (by simp))]
      rw [ih (fun x hx => hw x (by simp [hx])) n (by simp at hf; omega)]; simp

def WFSubList (s : SubList) : Prop :=
  (∀ i ∈ s.instrs, WFInstr i) ∧ 3 + (s.instrs.flatMap marshalInstr).length < 65536 ∧ (plmnNumbers s.p1 s.p2 s.p3).isSome

def normSubList (s : SubList) : SubList :=
  { s with len := UInt16.ofNat (3 + (s.instrs.flatMap marshalInstr).length),
           mcc := ((plmnNumbers s.p1 s.p2 s.p3).getD (0, 0)).1, mnc := ((plmnNumbers s.p1 s.p2 s.p3).getD (0, 0)).2,
           instrs := s.instrs.map normInstr }

theorem plmnNumbers_checks {p1 p2 p3 : UInt8} {v : Nat × Nat} (h : plmnNumbers p1 p2 p3 = some v) :
    ¬ ((p1 &&& 0x0f) > 9 ∨ ((p1 &&& 0xf0) >>> 4) > 9) ∧
    ¬ ((p2 &&& 0x0f) > 9 ∨ (((p2 &&& 0xf0) >>> 4) > 9 ∧ ((p2 &&& 0xf0) >>> 4) ≠ 15)) := by
  unfold plmnNumbers at h
  simp only at h
  split at h
  · cases h
  · next hn =>
    simp only [not_or] at hn
    obtain ⟨a1, a2, a3, a4, _, _⟩ := hn
    refine ⟨?_, ?_⟩
    · intro hc
      rcases hc with hc | hc
      · exact a1 (by have := UInt8.lt_iff_toNat_lt.mp hc; simpa using this)
      · exact a2 (by have := UInt8.lt_iff_toNat_lt.mp hc; simpa using this)
    · intro hc
      rcases hc with hc | ⟨hc, hne⟩
      · exact a3 (by have := UInt8.lt_iff_toNat_lt.mp hc; simpa using this)
      · apply a4
        refine ⟨by have := UInt8.lt_iff_toNat_lt.mp hc; simpa using this, ?_⟩
        intro he; apply hne; apply UInt8.toNat_inj.mp; simpa using he

theorem parseSubHead_marshal (len : Nat) (hl : 3 + len < 65536) (p1 p2 p3 : UInt8) (v : Nat × Nat)
    (hv : plmnNumbers p1 p2 p3 = some v) (body rest : Bytes) (hb : body.length = len) :
    parseSubHead (be16 (UInt16.ofNat (3 + len)) ++ p1 :: p2 :: p3 :: body ++ rest) =
      .ok (UInt16.ofNat (3 + len), p1, p2, p3, v.1, v.2, body, rest) := by
  obtain ⟨c1, c2⟩ := plmnNumbers_checks hv
  unfold parseSubHead
  simp only [List.append_assoc, readU16_be16, bind, Outcome.bind, List.cons_append, readU8, c1, c2, if_false, hv, u16_sub3 _ hl, pure]
  rw [← hb]; simp

theorem parseSubList_marshal (s : SubList) (hw : WFSubList s) (rest : Bytes) :
    parseSubList (marshalSubList s ++ rest) = .ok (normSubList s, rest) := by
  obtain ⟨hi, hl, hp⟩ := hw
  obtain ⟨v, hv⟩ := Option.isSome_iff_exists.mp hp
  have hfl := flatMap_len_ge marshalInstr 4 marshalInstr_len s.instrs
  unfold parseSubList marshalSubList
  have := parseSubHead_marshal (s.instrs.flatMap marshalInstr).length hl s.p1 s.p2 s.p3 v hv (s.instrs.flatMap marshalInstr) rest rfl
  simp only [show 1 + 1 + 1 + (s.instrs.flatMap marshalInstr).length = 3 + (s.instrs.flatMap marshalInstr).length by omega]
  simp only [List.append_assoc, List.cons_append] at this ⊢
  simp only [this, bind, Outcome.bind]
  rw [instrLoop_marshal s.instrs hi _ (by omega)]
  simp [pure, normSubList, hv]

theorem marshalSubList_len (s : SubList) : 5 ≤ (marshalSubList s).length := by simp [marshalSubList, be16]

theorem subListLoop_marshal (l : List SubList) (hw : ∀ s ∈ l, WFSubList s) (fuel : Nat) (hf : l.length < fuel) (acc : List SubList) :
    subListLoop fuel (marshalList l) acc = .ok (acc ++ l.map normSubList) := by
  induction l generalizing fuel acc with
  | nil =>
    cases fuel with
    | zero => omega
    | succ n => simp [subListLoop, marshalList, parseSubList, parseSubHead, readU16, bind, Outcome.bind, pure]
  | cons p r ih =>
    cases fuel with
    | zero => omega
    | succ n =>
      simp only [marshalList, List.flatMap_cons, subListLoop, parseSubList_marshal p (hw p (by simp))]
      have := ih (fun x hx => hw x (by simp [hx])) n (by simp at hf; omega) (acc ++ [p].map normSubList)
      simp only [marshalList] at this
      simp only [List.map_cons, List.map_nil] at this
      rw [this]; simp

def normRes (r : Res) : Res := { r with cause := 0x6f }

theorem parseRes_marshal (r : Res) (rest : Bytes) : parseRes (marshalRes r ++ rest) = .ok (normRes r, rest) := by
  unfold parseRes marshalRes
  simp only [List.append_assoc, readU16_be16, bind, Outcome.bind, List.cons_append, List.nil_append, readU8, pure, normRes]

theorem marshalRes_len (r : Res) : (marshalRes r).length = 5 := by simp [marshalRes, be16]

theorem resLoop_marshal (rs : List Res) (fuel : Nat) (hf : rs.length < fuel) (acc : List Res) :
    resLoop fuel (rs.flatMap marshalRes) acc = .ok (acc ++ rs.map normRes) := by
  induction rs generalizing fuel acc with
  | nil =>
    cases fuel with
    | zero => omega
    | succ n => simp [resLoop, parseRes, readU16, bind, Outcome.bind, pure]
  | cons p r ih =>
    cases fuel with
    | zero => omega
    | succ n =>
      simp only [List.flatMap_cons, resLoop, parseRes_marshal]
      rw [ih n (by simp at hf; omega)]; simp

def WFSubResult (s : SubResult) : Prop :=
  3 + (s.results.flatMap marshalRes).length < 65536 ∧ (plmnNumbers s.p1 s.p2 s.p3).isSome

def normSubResult (s : SubResult) : SubResult :=
  { s with len := UInt16.ofNat (3 + (s.results.flatMap marshalRes).length),
           mcc := ((plmnNumbers s.p1 s.p2 s.p3).getD (0, 0)).1, mnc := ((plmnNumbers s.p1 s.p2 s.p3).getD (0, 0)).2,
           results := s.results.map normRes }

theorem parseSubResult_marshal (s : SubResult) (hw : WFSubResult s) (rest : Bytes) :
    parseSubResult (marshalSubResult s ++ rest) = .ok (normSubResult s, rest) := by
  obtain ⟨hl, hp⟩ := hw
  obtain ⟨v, hv⟩ := Option.isSome_iff_exists.mp hp
  have hfl := flatMap_len_ge marshalRes 5 (fun r => by rw [marshalRes_len r]; exact Nat.le_refl _) s.results
  unfold parseSubResult marshalSubResult
  have := parseSubHead_marshal (s.results.flatMap marshalRes).length hl s.p1 s.p2 s.p3 v hv (s.results.flatMap marshalRes) rest rfl
  simp only [show 1 + 1 + 1 + (s.results.flatMap marshalRes).length = 3 + (s.results.flatMap marshalRes).length by omega]
  simp only [List.append_assoc, List.cons_append] at this ⊢
  simp only [this, bind, Outcome.bind]
  rw [resLoop_marshal s.results _ (by omega)]
  simp [pure, normSubResult, hv]

theorem marshalSubResult_len (s : SubResult) : 5 ≤ (marshalSubResult s).length := by simp [marshalSubResult, be16]

theorem subResultLoop_marshal (l : List SubResult) (hw : ∀ s ∈ l, WFSubResult s) (fuel : Nat) (hf : l.length < fuel) (acc : List SubResult) :
    subResultLoop fuel (marshalResult l) acc = .ok (acc ++ l.map normSubResult) := by
  induction l generalizing fuel acc with
  | nil =>
    cases fuel with
    | zero => omega
    | succ n => simp [subResultLoop, marshalResult, parseSubResult, parseSubHead, readU16, bind, Outcome.bind, pure]
  | cons p r ih =>
    cases fuel with
    | zero => omega
    | succ n =>
      simp only [marshalResult, List.flatMap_cons, subResultLoop, parseSubResult_marshal p (hw p (by simp))]
      have := ih (fun x hx => hw x (by simp [hx])) n (by simp at hf; omega) (acc ++ [p].map normSubResult)
      simp only [marshalResult] at this
      simp only [List.map_cons, List.map_nil] at this
      rw [this]; simp

theorem readIe_marshal (iei : UInt8) (buf rest : Bytes) (h : buf.length < 65536) :
    readIe (iei :: be16 (UInt16.ofNat buf.length) ++ buf ++ rest) = .ok (iei, UInt16.ofNat buf.length, buf, rest) := by
  unfold readIe
  simp only [List.cons_append, List.append_assoc, readU8, bind, Outcome.bind, readU16_be16, u16_ofNat_toNat _ h, readBytes_append, pure]

end NasVerif.Proofs.UePolicy
