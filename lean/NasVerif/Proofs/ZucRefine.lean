import NasVerif.Model.Zuc
import NasVerif.Spec.ZUC
/-!
# The model of zuc.go computes the ZUC keystream of the specification (given equal tables)

The Go code keeps the 16 LFSR cells in `uint32`s and reduces modulo p = 2^31 - 1 with the end-around-carry fold
`f = (f & 0x7FFFFFFF) + (f >> 31)`; the specification works in GF(p) with the residue 0 represented by p. The refinement
invariant is: 16 cells, each in [1, p]. Under it a fold is the specification's reduction, a 31-bit rotation is multiplication
by 2^k mod p, and the bit reorganisation / F / S-box steps agree word for word.
-/
namespace NasVerif.Proofs.ZucRefine
open NasVerif NasVerif.Model.Zuc
abbrev P := Spec.ZUC.P
abbrev norm := Spec.ZUC.norm

theorem P_val : Spec.ZUC.P = 2147483647 := rfl

theorem norm_range (v : Nat) : 1 ≤ norm v ∧ norm v ≤ 2147483647 := by
  unfold norm Spec.ZUC.norm; rw [P_val]; split <;> omega

theorem norm_mod (v : Nat) : norm v % 2147483647 = v % 2147483647 := by
  unfold norm Spec.ZUC.norm; rw [P_val]; split <;> omega

theorem norm_congr (a b : Nat) (h : a % 2147483647 = b % 2147483647) : norm a = norm b := by
  unfold norm Spec.ZUC.norm; rw [P_val, h]

theorem norm_add_left (a b : Nat) : norm (norm a + b) = norm (a + b) := by
  apply norm_congr
  have := norm_mod a
  omega

theorem norm_add_left2 (a b c : Nat) : norm (norm a + b + c) = norm (a + b + c) := by
  rw [Nat.add_assoc, norm_add_left, ← Nat.add_assoc]
theorem norm_add_left3 (a b c d : Nat) : norm (norm a + b + c + d) = norm (a + b + c + d) := by
  rw [Nat.add_assoc, norm_add_left2, ← Nat.add_assoc]
theorem norm_add_left4 (a b c d e : Nat) : norm (norm a + b + c + d + e) = norm (a + b + c + d + e) := by
  rw [Nat.add_assoc, norm_add_left3, ← Nat.add_assoc]

/-- the end-around-carry fold is reduction to the representative in [1, p] -/
theorem fold_nat (s : Nat) (h1 : 1 ≤ s) (h2 : s ≤ 4294967294) :
    (s % 2 ^ 32 % 2 ^ 31 + s % 2 ^ 32 / 2 ^ 31) % 2 ^ 32 = norm s := by
  unfold norm Spec.ZUC.norm
  rw [P_val]
  have hm : s % 2 ^ 32 = s := Nat.mod_eq_of_lt (by omega)
  rw [hm]
  by_cases c1 : s < 2147483647
  · have e1 : s % 2 ^ 31 = s := Nat.mod_eq_of_lt (by omega)
    have e2 : s / 2 ^ 31 = 0 := Nat.div_eq_of_lt (by omega)
    have e3 : s % 2147483647 = s := Nat.mod_eq_of_lt c1
    rw [e1, e2, e3]; split <;> omega
  · by_cases c2 : s = 2147483647
    · subst c2; decide
    · by_cases c3 : s = 4294967294
      · subst c3; decide
      · have e1 : s % 2 ^ 31 = s - 2147483648 := by omega
        have e2 : s / 2 ^ 31 = 1 := by omega
        have e3 : s % 2147483647 = s - 2147483647 := by omega
        rw [e1, e2, e3]; split <;> omega

/-- the end-around-carry fold is reduction to the representative in [1, p] -/
theorem fold_spec (f x : W32) (hf1 : 1 ≤ f.toNat) (hf : f.toNat ≤ 2147483647) (hx : x.toNat ≤ 2147483647) :
    (fold31 (f + x)).toNat = norm (f.toNat + x.toNat) := by
  unfold fold31
  simp only [BitVec.toNat_add, BitVec.toNat_and, BitVec.toNat_ushiftRight, BitVec.toNat_ofNat, Nat.shiftRight_eq_div_pow]
  rw [show 2147483647 % 2 ^ 32 = 2 ^ 31 - 1 from rfl, Nat.and_two_pow_sub_one_eq_mod]
  exact fold_nat _ (by omega) (by omega)
theorem norm_id (v : Nat) (h1 : 1 ≤ v) (h2 : v ≤ 2147483647) : norm v = v := by
  unfold norm Spec.ZUC.norm; rw [P_val]
  by_cases c : v = 2147483647
  · subst c; decide
  · have : v % 2147483647 = v := Nat.mod_eq_of_lt (by omega)
    rw [this]; split <;> omega

theorem nat_shl_or' (x y k : Nat) (hy : y < 2 ^ k) : x * 2 ^ k ||| y = x * 2 ^ k + y := by
  rw [← Nat.shiftLeft_eq, ← Nat.shiftLeft_add_eq_or_of_lt hy]

/-- 31-bit rotation is multiplication by 2^k in GF(2^31 - 1) (on representatives in [1, p]) -/
theorem rot31_nat (n k j : Nat) (hkj : j + k = 31) (h1 : 1 ≤ n) (hn : n < 2 ^ 31) :
    ((n * 2 ^ k % 2 ^ 32) ||| (n / 2 ^ j)) % 2 ^ 31 = norm (2 ^ k * n) := by
  have hT : (2:Nat) ^ 31 = 2 ^ j * 2 ^ k := by rw [← Nat.pow_add, hkj]
  have hjpos : 0 < 2 ^ j := Nat.pos_of_ne_zero (by simp)
  have hkpos : 0 < 2 ^ k := Nat.pos_of_ne_zero (by simp)
  have hdm := Nat.div_add_mod n (2 ^ j)
  have hlo := Nat.mod_lt n hjpos
  have hhi : n / 2 ^ j < 2 ^ k := Nat.div_lt_of_lt_mul (by rw [← hT]; exact hn)
  generalize n / 2 ^ j = hi at *
  generalize n % 2 ^ j = lo at *
  have hmul : n * 2 ^ k = hi * 2 ^ 31 + lo * 2 ^ k := by
    rw [← hdm, Nat.add_mul, hT, Nat.mul_comm (2 ^ j) hi, Nat.mul_assoc]
  have hlk : lo * 2 ^ k + 2 ^ k ≤ 2 ^ 31 := by
    rw [hT]; have := Nat.mul_le_mul_right (2 ^ k) (show lo + 1 ≤ 2 ^ j from hlo); rwa [Nat.add_mul, Nat.one_mul] at this
  have e1 : n * 2 ^ k % 2 ^ 32 % 2 ^ 31 = lo * 2 ^ k := by
    rw [Nat.mod_mod_of_dvd _ (by decide : 2 ^ 31 ∣ 2 ^ 32), hmul, Nat.add_comm, Nat.add_mul_mod_self_right]
    exact Nat.mod_eq_of_lt (by omega)
  rw [Nat.or_mod_two_pow, e1, Nat.mod_eq_of_lt (show hi < 2 ^ 31 by omega), nat_shl_or' _ _ _ hhi]
  have hv1 : 1 ≤ lo * 2 ^ k + hi := by
    rcases Nat.eq_zero_or_pos lo with h0 | h0
    · rcases Nat.eq_zero_or_pos hi with hh | hh
      · subst h0; subst hh; simp at hdm; omega
      · omega
    · have := Nat.mul_le_mul_left lo hkpos; omega
  rw [← norm_id (lo * 2 ^ k + hi) hv1 (by omega)]
  apply norm_congr
  rw [Nat.mul_comm (2 ^ k) n, hmul, show (2:Nat) ^ 31 = 2147483647 + 1 from rfl, Nat.mul_add, Nat.mul_one]
  rw [show hi * 2147483647 + hi + lo * 2 ^ k = (lo * 2 ^ k + hi) + hi * 2147483647 by omega, Nat.add_mul_mod_self_right]

theorem rot31_spec (c : W32) (k j : Nat) (hkj : j + k = 31) (h1 : 1 ≤ c.toNat) (hc : c.toNat ≤ 2147483647) :
    (((c <<< k) ||| (c >>> j)) &&& 0x7FFFFFFF#32).toNat = norm (2 ^ k * c.toNat) := by
  simp only [BitVec.toNat_and, BitVec.toNat_or, BitVec.toNat_shiftLeft, BitVec.toNat_ushiftRight, BitVec.toNat_ofNat,
    Nat.shiftRight_eq_div_pow, Nat.shiftLeft_eq]
  rw [show 2147483647 % 2 ^ 32 = 2 ^ 31 - 1 from rfl, Nat.and_two_pow_sub_one_eq_mod]
  exact rot31_nat _ k j hkj h1 (by omega)
def toSpec (st : State) : Spec.ZUC.St := ⟨st.s.map BitVec.toNat, st.r0, st.r1⟩

def CellOK (c : W32) : Prop := 1 ≤ c.toNat ∧ c.toNat ≤ 2147483647
def Inv (st : State) : Prop := st.s.length = 16 ∧ ∀ c ∈ st.s, CellOK c

theorem cell_toSpec (st : State) (i : Nat) : Spec.ZUC.cell (toSpec st) i = (st.c i).toNat := by
  simp [Spec.ZUC.cell, toSpec, State.c, List.getD_eq_getElem?_getD, List.getElem?_map]
  cases st.s[i]? <;> simp

theorem inv_cell (st : State) (h : Inv st) (i : Nat) (hi : i < 16) : CellOK (st.c i) := by
  obtain ⟨hl, hc⟩ := h
  have : i < st.s.length := by omega
  simp only [State.c, List.getD_eq_getElem?_getD, List.getElem?_eq_getElem this, Option.getD_some]
  exact hc _ (List.getElem_mem this)

theorem tap_spec (st : State) (f : W32) (v k j : Nat) (hkj : j + k = 31) (hf : CellOK f) (hc : CellOK (st.c v)) :
    (fold31 (f + (((st.c v <<< k) ||| (st.c v >>> j)) &&& 0x7FFFFFFF#32))).toNat = norm (f.toNat + 2 ^ k * (st.c v).toNat) ∧
    CellOK (fold31 (f + (((st.c v <<< k) ||| (st.c v >>> j)) &&& 0x7FFFFFFF#32))) := by
  have hr := rot31_spec (st.c v) k j hkj hc.1 hc.2
  have hrr := norm_range (2 ^ k * (st.c v).toNat)
  have h := fold_spec f _ hf.1 hf.2 (by rw [hr]; exact hrr.2)
  rw [hr] at h
  have e : norm (f.toNat + norm (2 ^ k * (st.c v).toNat)) = norm (f.toNat + 2 ^ k * (st.c v).toNat) := by
    rw [Nat.add_comm, norm_add_left, Nat.add_comm]
  refine ⟨by rw [h, e], ?_⟩
  unfold CellOK; rw [h]; exact norm_range _

/-- the feedback value computed by `Lfsr.state` is the specification's `s16` -/
theorem lfsr_feedback (st : State) (h : Inv st) (init : Bool) (u : W32) (hu : u.toNat ≤ 2147483647) :
    ∃ f, (lfsrState st init u).s = st.s.drop 1 ++ [f] ∧ CellOK f ∧
      f.toNat = Spec.ZUC.lfsrNext (toSpec st) (if init then u.toNat else 0) := by
  have c0 := inv_cell st h 0 (by omega)
  have c4 := inv_cell st h 4 (by omega)
  have c10 := inv_cell st h 10 (by omega)
  have c13 := inv_cell st h 13 (by omega)
  have c15 := inv_cell st h 15 (by omega)
  obtain ⟨v1, o1⟩ := tap_spec st (st.c 0) 0 8 23 rfl c0 c0
  obtain ⟨v2, o2⟩ := tap_spec st _ 4 20 11 rfl o1 c4
  obtain ⟨v3, o3⟩ := tap_spec st _ 10 21 10 rfl o2 c10
  obtain ⟨v4, o4⟩ := tap_spec st _ 13 17 14 rfl o3 c13
  obtain ⟨v5, o5⟩ := tap_spec st _ 15 15 16 rfl o4 c15
  have hsum : (tap st (tap st (tap st (tap st (tap st (st.c 0) 0 8) 4 20) 10 21) 13 17) 15 15).toNat =
      norm ((st.c 0).toNat + 2 ^ 8 * (st.c 0).toNat + 2 ^ 20 * (st.c 4).toNat + 2 ^ 21 * (st.c 10).toNat
        + 2 ^ 17 * (st.c 13).toNat + 2 ^ 15 * (st.c 15).toNat) := by
    unfold tap
    simp only [show 31 - 8 = 23 from rfl, show 31 - 20 = 11 from rfl, show 31 - 21 = 10 from rfl, show 31 - 17 = 14 from rfl,
      show 31 - 15 = 16 from rfl]
    rw [v5, v4, norm_add_left, v3, norm_add_left2, v2, norm_add_left3, v1, norm_add_left4]
  have hok : CellOK (tap st (tap st (tap st (tap st (tap st (st.c 0) 0 8) 4 20) 10 21) 13 17) 15 15) := o5
  unfold lfsrState
  simp only []
  cases init with
  | false =>
    refine ⟨_, rfl, hok, ?_⟩
    simp only [Bool.false_eq_true, if_false]
    rw [hsum]
    unfold Spec.ZUC.lfsrNext
    simp only [cell_toSpec]
    apply norm_congr
    congr 1
    omega
  | true =>
    have hf := fold_spec _ u hok.1 hok.2 hu
    simp only [if_true]
    refine ⟨_, rfl, ⟨by rw [hf]; exact (norm_range _).1, by rw [hf]; exact (norm_range _).2⟩, ?_⟩
    rw [hf, hsum, norm_add_left]
    unfold Spec.ZUC.lfsrNext
    simp only [cell_toSpec]
    apply norm_congr
    congr 1
    omega
theorem lfsrState_spec (st : State) (h : Inv st) (init : Bool) (u : W32) (hu : u.toNat ≤ 2147483647) :
    toSpec (lfsrState st init u) = Spec.ZUC.lfsrStep (toSpec st) (if init then u.toNat else 0) ∧ Inv (lfsrState st init u) := by
  obtain ⟨f, hs, hf, hv⟩ := lfsr_feedback st h init u hu
  have hr : (lfsrState st init u).r0 = st.r0 ∧ (lfsrState st init u).r1 = st.r1 := by
    unfold lfsrState; exact ⟨rfl, rfl⟩
  constructor
  · unfold Spec.ZUC.lfsrStep
    rw [← hv]
    unfold toSpec
    rw [hs, hr.1, hr.2]
    simp
  · refine ⟨by rw [hs]; simp [h.1], ?_⟩
    intro c hc
    rw [hs] at hc
    rcases List.mem_append.mp hc with h1 | h1
    · exact h.2 c (List.mem_of_mem_drop h1)
    · simp at h1; subst h1; exact hf

theorem and_hi_mask (n : Nat) (hn : n < 2 ^ 31) : n &&& 0x7FFF8000 = n / 2 ^ 15 * 2 ^ 15 := by
  apply Nat.eq_of_testBit_eq
  intro i
  rw [Nat.testBit_and, show (0x7FFF8000 : Nat) = (2 ^ 16 - 1) * 2 ^ 15 from rfl, Nat.testBit_mul_two_pow, Nat.testBit_mul_two_pow,
    Nat.testBit_two_pow_sub_one, Nat.testBit_div_two_pow]
  by_cases h15 : 15 ≤ i
  · have e : i - 15 + 15 = i := by omega
    rw [e]
    by_cases h31 : i < 31
    · simp [h15]; omega
    · have : n.testBit i = false := Nat.testBit_lt_two_pow (Nat.lt_of_lt_of_le hn (Nat.pow_le_pow_right (by omega) (by omega)))
      simp [this]
  · simp [h15]

theorem br_hi_lo (a b : W32) (ha : a.toNat < 2 ^ 31) :
    ((a &&& 0x7FFF8000#32) <<< 1) ||| (b &&& 0xFFFF#32) = BitVec.ofNat 32 (Spec.ZUC.hi16 a.toNat * 2 ^ 16 + Spec.ZUC.lo16 b.toNat) := by
  apply BitVec.eq_of_toNat_eq
  simp only [BitVec.toNat_or, BitVec.toNat_shiftLeft, BitVec.toNat_and, BitVec.toNat_ofNat, Nat.shiftLeft_eq, Spec.ZUC.hi16, Spec.ZUC.lo16]
  rw [show 2147450880 % 2 ^ 32 = 0x7FFF8000 from rfl, and_hi_mask _ ha, show 65535 % 2 ^ 32 = 2 ^ 16 - 1 from rfl,
    Nat.and_two_pow_sub_one_eq_mod]
  have hq : a.toNat / 2 ^ 15 < 2 ^ 16 := Nat.div_lt_of_lt_mul (by rw [← Nat.pow_add]; exact ha)
  have e1 : a.toNat / 2 ^ 15 * 2 ^ 15 * 2 ^ 1 % 2 ^ 32 = a.toNat / 2 ^ 15 * 2 ^ 16 := by omega
  have e2 : a.toNat / 2 ^ 15 % 2 ^ 16 = a.toNat / 2 ^ 15 := Nat.mod_eq_of_lt hq
  rw [e1, e2, nat_shl_or' _ _ _ (Nat.mod_lt _ (by decide))]
  exact (Nat.mod_eq_of_lt (by omega)).symm

theorem br_lo_hi (a b : W32) (hb : b.toNat < 2 ^ 31) :
    ((a &&& 0xFFFF#32) <<< 16) ||| (b >>> 15) = BitVec.ofNat 32 (Spec.ZUC.lo16 a.toNat * 2 ^ 16 + Spec.ZUC.hi16 b.toNat) := by
  apply BitVec.eq_of_toNat_eq
  simp only [BitVec.toNat_or, BitVec.toNat_shiftLeft, BitVec.toNat_and, BitVec.toNat_ofNat, BitVec.toNat_ushiftRight,
    Nat.shiftLeft_eq, Nat.shiftRight_eq_div_pow, Spec.ZUC.hi16, Spec.ZUC.lo16]
  rw [show 65535 % 2 ^ 32 = 2 ^ 16 - 1 from rfl, Nat.and_two_pow_sub_one_eq_mod]
  have hq : b.toNat / 2 ^ 15 < 2 ^ 16 := Nat.div_lt_of_lt_mul (by rw [← Nat.pow_add]; exact hb)
  have hl : a.toNat % 2 ^ 16 < 2 ^ 16 := Nat.mod_lt _ (by decide)
  have e1 : a.toNat % 2 ^ 16 * 2 ^ 16 % 2 ^ 32 = a.toNat % 2 ^ 16 * 2 ^ 16 := Nat.mod_eq_of_lt (by omega)
  have e2 : b.toNat / 2 ^ 15 % 2 ^ 16 = b.toNat / 2 ^ 15 := Nat.mod_eq_of_lt hq
  rw [e1, e2, nat_shl_or' _ _ _ hq]
  exact (Nat.mod_eq_of_lt (by omega)).symm

theorem br_spec (st : State) (h : Inv st) : Spec.ZUC.br (toSpec st) = bitReorganization st := by
  have lt (i : Nat) (hi : i < 16) : (st.c i).toNat < 2 ^ 31 := by have := (inv_cell st h i hi).2; omega
  unfold Spec.ZUC.br bitReorganization
  simp only [cell_toSpec]
  rw [br_hi_lo _ _ (lt 15 (by omega)), br_lo_hi _ _ (lt 9 (by omega)), br_lo_hi _ _ (lt 5 (by omega)), br_lo_hi _ _ (lt 0 (by omega))]
abbrev TablesEq : Prop :=
  Gen.Crypto.zuc_s0 = Spec.Tab.zuc_s0 ∧ Gen.Crypto.zuc_s1 = Spec.Tab.zuc_s1 ∧ Gen.Crypto.zuc_d = Spec.Tab.zuc_d

theorem rot_eq (x : W32) (k : Nat) (hk : k < 32) : rot x k = x.rotateLeft k := by
  unfold rot
  rw [BitVec.rotateLeft_def, Nat.mod_eq_of_lt hk]

theorem l1_eq (x : W32) : l1 x = Spec.ZUC.L1 x := by
  unfold l1 Spec.ZUC.L1
  rw [rot_eq x 2 (by omega), rot_eq x 10 (by omega), rot_eq x 18 (by omega), rot_eq x 24 (by omega)]
theorem l2_eq (x : W32) : l2 x = Spec.ZUC.L2 x := by
  unfold l2 Spec.ZUC.L2
  rw [rot_eq x 8 (by omega), rot_eq x 14 (by omega), rot_eq x 22 (by omega), rot_eq x 30 (by omega)]

set_option maxRecDepth 100000 in
theorem s0_small : ∀ x ∈ Spec.Tab.zuc_s0, x < 256 := by decide
set_option maxRecDepth 100000 in
theorem s1_small : ∀ x ∈ Spec.Tab.zuc_s1, x < 256 := by decide

theorem getD_small (t : List Nat) (h : ∀ x ∈ t, x < 256) (i : Nat) : t.getD i 0 < 256 := by
  rw [List.getD_eq_getElem?_getD]
  cases hi : t[i]? with
  | none => simp
  | some v => simp; exact h v (List.mem_of_getElem? hi)

theorem widen8 (v : Nat) (h : v < 256) : (BitVec.ofNat 8 v).setWidth 32 = BitVec.ofNat 32 v := by
  apply BitVec.eq_of_toNat_eq
  simp [BitVec.toNat_setWidth]
  omega

theorem idx_and (w : W32) (sh : Nat) : ((w >>> sh) &&& 0xFF#32).toNat = (w >>> sh).toNat % 256 := by
  simp only [BitVec.toNat_and]
  exact Nat.and_two_pow_sub_one_eq_mod _ 8

theorem idx_top (w : W32) : (w >>> 24).toNat = (w >>> 24).toNat % 256 := by
  have : (w >>> 24).toNat < 256 := by
    rw [BitVec.toNat_ushiftRight, Nat.shiftRight_eq_div_pow]
    have := w.isLt
    omega
  omega

theorem idx_low (w : W32) : (w &&& 0xFF#32).toNat = (w >>> 0).toNat % 256 := by
  have := idx_and w 0
  simpa using this

theorem S_eq (ht : TablesEq) (u : W32) :
    makeU32 (sbox0 (u >>> 24)) (sbox1 ((u >>> 16) &&& 0xFF#32)) (sbox0 ((u >>> 8) &&& 0xFF#32)) (sbox1 (u &&& 0xFF#32)) = Spec.ZUC.S u := by
  unfold makeU32 sbox0 sbox1 Spec.ZUC.S Spec.ZUC.sb
  rw [ht.1, ht.2.1, idx_and, idx_and, idx_low, ← idx_top,
    widen8 _ (getD_small _ s0_small _), widen8 _ (getD_small _ s1_small _), widen8 _ (getD_small _ s0_small _),
    widen8 _ (getD_small _ s1_small _)]

theorem F_spec (ht : TablesEq) (st : State) (x0 x1 x2 : W32) :
    Spec.ZUC.F (toSpec st) x0 x1 x2 = ((nonlinF st x0 x1 x2).2, toSpec (nonlinF st x0 x1 x2).1) := by
  unfold Spec.ZUC.F nonlinF
  simp only [toSpec, S_eq ht, l1_eq, l2_eq]

theorem nonlinF_s (st : State) (x0 x1 x2 : W32) : (nonlinF st x0 x1 x2).1.s = st.s := rfl

theorem nonlinF_inv (st : State) (h : Inv st) (x0 x1 x2 : W32) : Inv (nonlinF st x0 x1 x2).1 := h
theorem w_shift (w : W32) : (w >>> 1).toNat = w.toNat / 2 ∧ (w >>> 1).toNat ≤ 2147483647 := by
  rw [BitVec.toNat_ushiftRight, Nat.shiftRight_eq_div_pow]
  have := w.isLt
  constructor <;> omega

theorem initLoop_spec (ht : TablesEq) (n : Nat) (st : State) (h : Inv st) :
    toSpec (initLoop n st) = Spec.ZUC.initRounds n (toSpec st) ∧ Inv (initLoop n st) := by
  induction n generalizing st with
  | zero => exact ⟨rfl, h⟩
  | succ n ih =>
    simp only [initLoop, Spec.ZUC.initRounds, br_spec st h, F_spec ht]
    have hw := w_shift (nonlinF st (bitReorganization st).1 (bitReorganization st).2.1 (bitReorganization st).2.2.1).2
    obtain ⟨e, hi⟩ := lfsrState_spec _ (nonlinF_inv st h _ _ _) true _ hw.2
    simp only [if_true, hw.1] at e
    rw [← e]
    exact ih _ hi

theorem ksLoop_spec (ht : TablesEq) (n : Nat) (st : State) (h : Inv st) :
    ksLoop n st = Spec.ZUC.ksLoop n (toSpec st) := by
  induction n generalizing st with
  | zero => rfl
  | succ n ih =>
    simp only [ksLoop, Spec.ZUC.ksLoop, br_spec st h, F_spec ht]
    obtain ⟨e, hi⟩ := lfsrState_spec _ (nonlinF_inv st h (bitReorganization st).1 (bitReorganization st).2.1 (bitReorganization st).2.2.1)
      false 0 (by decide)
    simp only [Bool.false_eq_true, if_false] at e
    rw [← e, ih _ hi]
theorem load_cell (k v : BitVec 8) (d : Nat) (hd : d < 2 ^ 15) :
    ((k.setWidth 32 <<< 23) ||| (BitVec.ofNat 32 d <<< 8) ||| v.setWidth 32).toNat = k.toNat * 2 ^ 23 + d * 2 ^ 8 + v.toNat := by
  have hk := k.isLt
  have hv := v.isLt
  simp only [BitVec.toNat_or, BitVec.toNat_shiftLeft, BitVec.toNat_setWidth, BitVec.toNat_ofNat, Nat.shiftLeft_eq]
  have e1 : k.toNat % 2 ^ 32 * 2 ^ 23 % 2 ^ 32 = k.toNat * 2 ^ 23 := by omega
  have hd' : d < 32768 := hd
  have e2 : d % 2 ^ 32 * 2 ^ 8 % 2 ^ 32 = d * 2 ^ 8 := by
    rw [Nat.mod_eq_of_lt (show d < 2 ^ 32 by omega)]
    exact Nat.mod_eq_of_lt (by omega)
  have e3 : v.toNat % 2 ^ 32 = v.toNat := by omega
  rw [e1, e2, e3, nat_shl_or' _ _ 23 (by omega)]
  rw [show k.toNat * 2 ^ 23 + d * 2 ^ 8 = (k.toNat * 2 ^ 15 + d) * 2 ^ 8 by omega, nat_shl_or' _ _ 8 (by omega)]

set_option maxRecDepth 100000 in
theorem d_range : ∀ i, i < 16 → 1 ≤ Spec.Tab.zuc_d.getD i 0 ∧ Spec.Tab.zuc_d.getD i 0 < 32768 := by decide

def loadSt (k iv : List (BitVec 8)) : State :=
  { s := (List.range 16).map (fun i => ((k.getD i 0).setWidth 32 <<< 23) ||| (ek_d i <<< 8) ||| (iv.getD i 0).setWidth 32),
    r0 := 0, r1 := 0 }

theorem getD_map_toNat (l : List (BitVec 8)) (i : Nat) : (l.map BitVec.toNat).getD i 0 = (l.getD i 0).toNat := by
  simp only [List.getD_eq_getElem?_getD, List.getElem?_map]
  cases l[i]? <;> simp

theorem load_spec (ht : TablesEq) (k iv : List (BitVec 8)) :
    toSpec (loadSt k iv) = Spec.ZUC.load (k.map BitVec.toNat) (iv.map BitVec.toNat) ∧ Inv (loadSt k iv) := by
  have hcell : ∀ i, i < 16 → (((k.getD i 0).setWidth 32 <<< 23) ||| (ek_d i <<< 8) ||| (iv.getD i 0).setWidth 32).toNat =
      (k.getD i 0).toNat * 2 ^ 23 + Spec.Tab.zuc_d.getD i 0 * 2 ^ 8 + (iv.getD i 0).toNat := by
    intro i hi
    unfold ek_d
    rw [ht.2.2]
    exact load_cell _ _ _ (by have := (d_range i hi).2; omega)
  constructor
  · unfold toSpec loadSt Spec.ZUC.load
    simp only [List.map_map]
    congr 1
    apply List.map_congr_left
    intro i hi
    have hi' : i < 16 := by simpa using hi
    simp only [Function.comp, hcell i hi', getD_map_toNat]
  · refine ⟨by simp [loadSt], ?_⟩
    intro c hc
    simp only [loadSt, List.mem_map, List.mem_range] at hc
    obtain ⟨i, hi, rfl⟩ := hc
    unfold CellOK
    rw [hcell i hi]
    have hk := (k.getD i 0).isLt
    have hv := (iv.getD i 0).isLt
    have hd := d_range i hi
    omega

/-- ZUC: `zuc.Zuc` (as modelled from zuc.go) generates the keystream words of the specification, for every key, IV and length -/
theorem Zuc_eq (ht : TablesEq) (k iv : List (BitVec 8)) (n : Nat) :
    Zuc k iv n = Spec.ZUC.keystream (k.map BitVec.toNat) (iv.map BitVec.toNat) n := by
  obtain ⟨el, il⟩ := load_spec ht k iv
  obtain ⟨ei, ii⟩ := initLoop_spec ht 32 (loadSt k iv) il
  have hinit : initialization k iv = initLoop 32 (loadSt k iv) := rfl
  unfold Zuc generateKeystream Spec.ZUC.keystream
  rw [hinit]
  simp only []
  rw [← el, ← ei, br_spec _ ii, F_spec ht]
  obtain ⟨e, hi⟩ := lfsrState_spec _ (nonlinF_inv _ ii (bitReorganization (initLoop 32 (loadSt k iv))).1
    (bitReorganization (initLoop 32 (loadSt k iv))).2.1 (bitReorganization (initLoop 32 (loadSt k iv))).2.2.1) false 0 (by decide)
  simp only [Bool.false_eq_true, if_false] at e
  simp only []
  rw [← e, ksLoop_spec ht _ _ hi]
end NasVerif.Proofs.ZucRefine
