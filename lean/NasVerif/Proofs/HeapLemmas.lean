import NasVerif.Codec.Heap
/-!
# Simulation between the heap-level codec interpreter and the value-level one (C10)
-/
namespace NasVerif.Codec.HeapSem
open NasVerif NasVerif.Codec
set_option linter.unusedSimpArgs false

/-- what a heap-level step must satisfy w.r.t. the value-level step -/
def StepOK (h : Heap) (o : Outcome (IEValH × Bytes × Heap)) (v : Outcome (IEVal × Bytes)) : Prop :=
  match o with
  | .ok (vh, r, h') => (∃ ext, h' = h ++ ext) ∧ v = .ok (vh.erase h', r) ∧ ∀ x ∈ vh.refs, h.length ≤ x ∧ x < h'.length
  | .err e => v = .err e
  | .panic => v = .panic

theorem decContentH_ok (s : Slot) (iei : UInt8) (len : Nat) (bs1 : Bytes) (h : Heap) :
    StepOK h (decContentH s iei len bs1 h) (decContent s iei len bs1) := by
  unfold decContentH decContent
  cases s.store with
  | octet =>
    cases bs1 with
    | nil => simp [StepOK]
    | cons b r => simp [StepOK, IEValH.erase, Storage.resolve, IEValH.refs]
  | arr n =>
    cases s.span with
    | all => by_cases hl : bs1.length < n <;> simp [StepOK, hl, IEValH.erase, Storage.resolve, IEValH.refs]
    | toLen =>
      by_cases h1 : n < len
      · simp [StepOK, h1]
      · by_cases hl : bs1.length < len <;> simp [StepOK, h1, hl, IEValH.erase, Storage.resolve, IEValH.refs]
  | buf =>
    by_cases ha : s.alloc
    · by_cases hl : bs1.length < len <;> simp [StepOK, ha, hl, IEValH.erase, Storage.resolve, IEValH.refs]
    · simp [StepOK, ha, IEValH.erase, Storage.resolve, IEValH.refs]
  | unit => simp [StepOK, IEValH.erase, Storage.resolve, IEValH.refs]

theorem decBodyH_ok (s : Slot) (iei : UInt8) (bs : Bytes) (h : Heap) :
    StepOK h (decBodyH s iei bs h) (decBody s iei bs) := by
  unfold decBodyH decBody
  cases hr : readLen s.lenSize bs with
  | none => simp [StepOK]
  | some p =>
    obtain ⟨len, bs1⟩ := p
    by_cases hg : s.guard.ok len
    · simp only [hg, Bool.not_true, Bool.false_eq_true, if_false]; exact decContentH_ok s iei len bs1 h
    · simp [StepOK, hg]

theorem decOptH_ok (d : OptSlot) (b : UInt8) (rest : Bytes) (h : Heap) :
    StepOK h (decOptH d b rest h) (decOpt d b rest) := by
  unfold decOptH decOpt
  by_cases hh : d.half
  · simp [StepOK, hh, IEValH.erase, Storage.resolve, IEValH.refs]
  · simp only [hh, Bool.false_eq_true, if_false]; exact decBodyH_ok _ _ _ _

theorem erase_ext (v : IEValH) (h ext : Heap) (hv : ∀ x ∈ v.refs, x < h.length) : v.erase (h ++ ext) = v.erase h := by
  unfold IEValH.erase
  cases hs : v.st with
  | inline d => simp [Storage.resolve]
  | nilSlice => simp [Storage.resolve]
  | ref r =>
    have : r < h.length := hv r (by simp [IEValH.refs, hs])
    simp [Storage.resolve, List.getD_eq_getElem?_getD, List.getElem?_append_left this]

def ManOK (h : Heap) (o : Outcome (List IEValH × Bytes × Heap)) (v : Outcome (List IEVal × Bytes)) : Prop :=
  match o with
  | .ok (vs, r, h') => (∃ ext, h' = h ++ ext) ∧ v = .ok (vs.map (IEValH.erase h'), r) ∧
      ∀ x ∈ vs.flatMap IEValH.refs, h.length ≤ x ∧ x < h'.length
  | .err e => v = .err e
  | .panic => v = .panic

theorem decManH_ok (ss : List Slot) (bs : Bytes) (h : Heap) : ManOK h (decManH ss bs h) (decMan ss bs) := by
  induction ss generalizing bs h with
  | nil => simp [decManH, decMan, ManOK]
  | cons s ss ih =>
    have h1 := decBodyH_ok s 0 bs h
    cases hb : decBodyH s 0 bs h with
    | ok p =>
      obtain ⟨v, rest, hh1⟩ := p
      rw [hb] at h1
      obtain ⟨⟨e1, he1⟩, hv, hr⟩ := h1
      have h2 := ih rest hh1
      cases hm : decManH ss rest hh1 with
      | ok q =>
        obtain ⟨vs, rest', hh2⟩ := q
        rw [hm] at h2
        obtain ⟨⟨e2, he2⟩, hvs, hrs⟩ := h2
        simp only [decManH, decMan, hb, hm, hv, hvs, ManOK]
        refine ⟨⟨e1 ++ e2, by rw [he2, he1, List.append_assoc]⟩, ?_, ?_⟩
        · have : v.erase hh2 = v.erase hh1 := by
            rw [he2]; exact erase_ext v hh1 e2 (fun x hx => (hr x hx).2)
          simp [this]
        · intro x hx
          simp only [List.flatMap_cons, List.mem_append] at hx
          rcases hx with hx | hx
          · have := hr x hx; rw [he2]; simp; omega
          · have := hrs x hx; rw [he1] at this; simp at this; omega
      | err e => rw [hm] at h2; simp only [ManOK] at h2; simp only [decManH, decMan, hb, hm, hv, h2, ManOK]
      | panic => rw [hm] at h2; simp only [ManOK] at h2; simp only [decManH, decMan, hb, hm, hv, h2, ManOK]
    | err e => rw [hb] at h1; simp only [StepOK] at h1; simp only [decManH, decMan, hb, h1, ManOK]
    | panic => rw [hb] at h1; simp only [StepOK] at h1; simp only [decManH, decMan, hb, h1, ManOK]

def slotRefs (sh : List (Option IEValH)) : List Nat := sh.flatMap (fun o => match o with | some v => v.refs | none => [])
def eraseSlots (h : Heap) (sh : List (Option IEValH)) : Slots := sh.map (Option.map (IEValH.erase h))

theorem eraseSlots_ext (sh : List (Option IEValH)) (h ext : Heap) (hv : ∀ x ∈ slotRefs sh, x < h.length) :
    eraseSlots (h ++ ext) sh = eraseSlots h sh := by
  unfold eraseSlots
  apply List.map_congr_left
  intro o ho
  cases o with
  | none => rfl
  | some v =>
    simp only [Option.map_some]
    congr 1
    apply erase_ext
    intro x hx
    apply hv
    simp only [slotRefs, List.mem_flatMap]
    exact ⟨some v, ho, hx⟩

theorem slotRefs_set (sh : List (Option IEValH)) (i : Nat) (v : IEValH) (x : Nat) (hx : x ∈ slotRefs (sh.set i (some v))) :
    x ∈ slotRefs sh ∨ x ∈ v.refs := by
  simp only [slotRefs, List.mem_flatMap] at hx ⊢
  obtain ⟨o, ho, hxo⟩ := hx
  rcases List.mem_or_eq_of_mem_set ho with h | h
  · exact Or.inl ⟨o, h, hxo⟩
  · subst h; exact Or.inr hxo

def LoopOK (h0 h : Heap) (o : Outcome (List (Option IEValH) × Heap)) (v : Outcome Slots) : Prop :=
  match o with
  | .ok (sh', h') => (∃ ext, h' = h ++ ext) ∧ v = .ok (eraseSlots h' sh') ∧ ∀ x ∈ slotRefs sh', h0.length ≤ x ∧ x < h'.length
  | .err e => v = .err e
  | .panic => v = .panic

theorem decLoopH_ok (defs : List OptSlot) (h0 : Heap) (fuel : Nat) (bs : Bytes) (sh : List (Option IEValH)) (h : Heap)
    (hinv : ∀ x ∈ slotRefs sh, h0.length ≤ x ∧ x < h.length) (hle : h0.length ≤ h.length) :
    LoopOK h0 h (decLoopH defs fuel bs sh h) (decLoop defs fuel bs (eraseSlots h sh)) := by
  induction fuel generalizing bs sh h with
  | zero => simp [decLoopH, decLoop, LoopOK]; exact hinv
  | succ n ih =>
    cases bs with
    | nil => simp [decLoopH, decLoop, LoopOK]; exact hinv
    | cons b rest =>
      simp only [decLoopH, decLoop]
      cases hf : findSlot defs (tmpIei b) 0 with
      | none => simp only []; exact ih rest sh h hinv hle
      | some p =>
        obtain ⟨i, d⟩ := p
        simp only []
        have h1 := decOptH_ok d b rest h
        cases ho : decOptH d b rest h with
        | ok q =>
          obtain ⟨v, rest', hh1⟩ := q
          rw [ho] at h1
          obtain ⟨⟨e1, he1⟩, hv, hr⟩ := h1
          simp only [hv]
          have hinv' : ∀ x ∈ slotRefs (sh.set i (some v)), h0.length ≤ x ∧ x < hh1.length := by
            intro x hx
            rcases slotRefs_set sh i v x hx with hx | hx
            · have := hinv x hx; rw [he1]; simp; omega
            · have := hr x hx; omega
          have h2 := ih rest' (sh.set i (some v)) hh1 hinv' (by rw [he1]; simp; omega)
          have hes : eraseSlots hh1 (sh.set i (some v)) = (eraseSlots h sh).set i (some (v.erase hh1)) := by
            unfold eraseSlots
            rw [List.map_set, Option.map_some]
            congr 1
            have := eraseSlots_ext sh h e1 (fun x hx => (hinv x hx).2)
            unfold eraseSlots at this
            rw [he1]; exact this
          rw [hes] at h2
          cases hl : decLoopH defs n rest' (sh.set i (some v)) hh1 with
          | ok r =>
            obtain ⟨sh', hh2⟩ := r
            rw [hl] at h2
            obtain ⟨⟨e2, he2⟩, hv2, hr2⟩ := h2
            exact ⟨⟨e1 ++ e2, by rw [he2, he1, List.append_assoc]⟩, hv2, hr2⟩
          | err e => rw [hl] at h2; exact h2
          | panic => rw [hl] at h2; exact h2
        | err e => rw [ho] at h1; simp only [StepOK] at h1; simp only [h1, LoopOK]
        | panic => rw [ho] at h1; simp only [StepOK] at h1; simp only [h1, LoopOK]

theorem slotRefs_replicate (n : Nat) : slotRefs (List.replicate n none) = [] := by
  induction n with
  | zero => rfl
  | succ k ih => simp [slotRefs, List.replicate_succ] at ih ⊢

theorem eraseSlots_replicate (h : Heap) (n : Nat) : eraseSlots h (List.replicate n none) = List.replicate n none := by
  simp [eraseSlots]

/-- the main simulation: whatever the heap-level decoder does, the value-level decoder of C01–C04 does on the input region's
contents; a successful decode only *extends* the heap, and everything the message points to lies in the extension -/
theorem decodeH_sim (d : MsgDef) (h : Heap) (inp : Nat) :
    match decodeH d h inp with
    | .ok (m, h') => (∃ ext, h' = h ++ ext) ∧ decode d (h.getD inp []) = .ok (m.erase h') ∧
        ∀ x ∈ m.refs, h.length ≤ x ∧ x < h'.length
    | .err e => decode d (h.getD inp []) = .err e
    | .panic => decode d (h.getD inp []) = .panic := by
  unfold decodeH decode
  have h1 := decManH_ok d.man (h.getD inp []) h
  cases hm : decManH d.man (h.getD inp []) h with
  | ok p =>
    obtain ⟨mv, rest, hh1⟩ := p
    rw [hm] at h1
    obtain ⟨⟨e1, he1⟩, hv, hr⟩ := h1
    have h2 := decLoopH_ok d.opt h rest.length rest (List.replicate d.opt.length none) hh1
      (by rw [slotRefs_replicate]; simp) (by rw [he1]; simp)
    rw [eraseSlots_replicate] at h2
    simp only [hm, hv]
    cases hl : decLoopH d.opt rest.length rest (List.replicate d.opt.length none) hh1 with
    | ok q =>
      obtain ⟨ov, hh2⟩ := q
      rw [hl] at h2
      obtain ⟨⟨e2, he2⟩, hv2, hr2⟩ := h2
      simp only [hl, hv2]
      refine ⟨⟨e1 ++ e2, by rw [he2, he1, List.append_assoc]⟩, ?_, ?_⟩
      · simp only [MsgValH.erase, eraseSlots]
        congr 2
        apply List.map_congr_left
        intro v hvm
        rw [he2]
        exact (erase_ext v hh1 e2 (fun x hx => (hr x (by simp only [List.mem_flatMap]; exact ⟨v, hvm, hx⟩)).2)).symm
      · intro x hx
        simp only [MsgValH.refs, List.mem_append] at hx
        rcases hx with hx | hx
        · have := hr x hx; rw [he2]; simp; omega
        · exact hr2 x hx
    | err e => rw [hl] at h2; simp only [LoopOK] at h2; simp only [hl, h2]
    | panic => rw [hl] at h2; simp only [LoopOK] at h2; simp only [hl, h2]
  | err e => rw [hm] at h1; simp only [ManOK] at h1; simp only [hm, h1]
  | panic => rw [hm] at h1; simp only [ManOK] at h1; simp only [hm, h1]

end NasVerif.Codec.HeapSem
