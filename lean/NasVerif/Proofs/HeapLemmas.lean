import NasVerif.Codec.Heap
/-!
# Simulation between the heap-level codec interpreter and the value-level one (C10)
-/
namespace NasVerif.Codec.HeapSem
open NasVerif NasVerif.Codec
set_option linter.unusedSimpArgs false

/-- what a heap-level step must satisfy w.r.t. the value-level step -/
def StepOK (h : Heap) (o : Outcome (IEValH × Bytes × Heap)) (v : Outcome (IEVal × Bytes)) : Prop :=
  match o with
  | .ok (vh, r, h') => (∃ ext, h' = h ++ ext) ∧ v = .ok (vh.erase h', r) ∧ ∀ x ∈ vh.refs, h.length ≤ x ∧ x < h'.length
  | .err e => v = .err e
  | .panic => v = .panic

theorem decContentH_ok (s : Slot) (iei : UInt8) (len : Nat) (bs1 : Bytes) (h : Heap) :
    StepOK h (decContentH s iei len bs1 h) (decContent s iei len bs1) := by
  unfold decContentH decContent
  cases s.store with
  | octet =>
    cases bs1 with
    | nil => simp [StepOK]
    | cons b r => simp [StepOK, IEValH.erase, Storage.resolve, IEValH.refs]
  | arr n =>
    cases s.span with
    | all => by_cases hl : bs1.length < n <;> simp [StepOK, hl, IEValH.erase, Storage.resolve, IEValH.refs]
    | toLen =>
      by_cases h1 : n < len
      · simp [StepOK, h1]
      · by_cases hl : bs1.length < len <;> simp [StepOK, h1, hl, IEValH.erase, Storage.resolve, IEValH.refs]
  | buf =>
    by_cases ha : s.alloc
    · by_cases hl : bs1.length < len <;> simp [StepOK, ha, hl, IEValH.erase, Storage.resolve, IEValH.refs]
    · simp [StepOK, ha, IEValH.erase, Storage.resolve, IEValH.refs]
  | unit => simp [StepOK, IEValH.erase, Storage.resolve, IEValH.refs]

theorem decBodyH_ok (s : Slot) (iei : UInt8) (bs : Bytes) (h : Heap) :
    StepOK h (decBodyH s iei bs h) (decBody s iei bs) := by
  unfold decBodyH decBody
  cases hr : readLen s.lenSize bs with
  | none => simp [StepOK]
  | some p =>
    obtain ⟨len, bs1⟩ := p
    by_cases hg : s.guard.ok len
    · simp only [hg, Bool.not_true, Bool.false_eq_true, if_false]; exact decContentH_ok s iei len bs1 h
    · simp [StepOK, hg]

theorem decOptH_ok (d : OptSlot) (b : UInt8) (rest : Bytes) (h : Heap) :
    StepOK h (decOptH d b rest h) (decOpt d b rest) := by
  unfold decOptH decOpt
  by_cases hh : d.half
  · simp [StepOK, hh, IEValH.erase, Storage.resolve, IEValH.refs]
  · simp only [hh, Bool.false_eq_true, if_false]; exact decBodyH_ok _ _ _ _

theorem erase_ext (v : IEValH) (h ext : Heap) (hv : ∀ x ∈ v.refs, x < h.length) : v.erase (h ++ ext) = v.erase h := by
  unfold IEValH.erase
  cases hs : v.st with
  | inline d => simp [Storage.resolve]
  | nilSlice => simp [Storage.resolve]
  | ref r =>
    have : r < h.length := hv r (by simp [IEValH.refs, hs])
    simp [Storage.resolve, List.getD_eq_getElem?_getD, List.getElem?_append_left this]

def ManOK (h : Heap) (o : Outcome (List IEValH × Bytes × Heap)) (v : Outcome (List IEVal × Bytes)) : Prop :=
  match o with
  | .ok (vs, r, h') => (∃ ext, h' = h ++ ext) ∧ v = .ok (vs.map (IEValH.erase h'), r) ∧
      ∀ x ∈ vs.flatMap IEValH.refs, h.length ≤ x ∧ x < h'.length
  | .err e => v = .err e
  | .panic => v = .panic

theorem decManH_ok (ss : List Slot) (bs : Bytes) (h : Heap) : ManOK h (decManH ss bs h) (decMan ss bs) := by
  induction ss generalizing bs h with
  | nil => simp [decManH, decMan, ManOK]
  | cons s ss ih =>
    have h1 := decBodyH_ok s 0 bs h
    cases hb : decBodyH s 0 bs h with
    | ok p =>
      obtain ⟨v, rest, hh1⟩ := p
      rw [hb] at h1
      obtain ⟨⟨e1, he1⟩, hv, hr⟩ := h1
      have h2 := ih rest hh1
      cases hm : decManH ss rest hh1 with
      | ok q =>
        obtain ⟨vs, rest', hh2⟩ := q
        rw [hm] at h2
        obtain ⟨⟨e2, he2⟩, hvs, hrs⟩ := h2
        simp only [decManH, decMan, hb, hm, hv, hvs, ManOK]
        refine ⟨⟨e1 ++ e2, by rw [he2, he1, List.append_assoc]⟩, ?_, ?_⟩
        · have : v.erase hh2 = v.erase hh1 := by
            rw [he2]; exact erase_ext v hh1 e2 (fun x hx => (hr x hx).2)
          simp [this]
        · intro x hx
          simp only [List.flatMap_cons, List.mem_append] at hx
          rcases hx with hx | hx
          · have := hr x hx; rw [he2]; simp; omega
          · have := hrs x hx; rw [he1] at this; simp at this; omega
      | err e => rw [hm] at h2; simp only [ManOK] at h2; simp only [decManH, decMan, hb, hm, hv, h2, ManOK]
      | panic => rw [hm] at h2; simp only [ManOK] at h2; simp only [decManH, decMan, hb, hm, hv, h2, ManOK]
    | err e => rw [hb] at h1; simp only [StepOK] at h1; simp only [decManH, decMan, hb, h1, ManOK]
    | panic => rw [hb] at h1; simp only [StepOK] at h1; simp only [decManH, decMan, hb, h1, ManOK]

def slotRefs (sh : List (Option IEValH)) : List Nat := sh.flatMap (fun o => match o with | some v => v.refs | none => [])
def eraseSlots (h : Heap) (sh : List (Option IEValH)) : Slots := sh.map (Option.map (IEValH.erase h))

theorem eraseSlots_ext (sh : List (Option IEValH)) (h ext : Heap) (hv : ∀ x ∈ slotRefs sh, x < h.length) :
    eraseSlots (h ++ ext) sh = eraseSlots h sh := by
  unfold eraseSlots
  apply List.map_congr_left
  intro o ho
  cases o with
  | none => rfl
  | some v =>
    simp only [Option.map_some]
    congr 1
    apply erase_ext
    intro x hx
    apply hv
    simp only [slotRefs, List.mem_flatMap]
    exact ⟨some v, ho, hx⟩

theorem slotRefs_set (sh : List (Option IEValH)) (i : Nat) (v : IEValH) (x : Nat) (hx : x ∈ slotRefs (sh.set i (some v))) :
    x ∈ slotRefs sh ∨ x ∈ v.refs := by
  simp only [slotRefs, List.mem_flatMap] at hx ⊢
  obtain ⟨o, ho, hxo⟩ := hx
  rcases List.mem_or_eq_of_mem_set ho with h | h
  · exact Or.inl ⟨o, h, hxo⟩
  · subst h; exact Or.inr hxo

def LoopOK (h0 h : Heap) (o : Outcome (List (Option IEValH) × Heap)) (v : Outcome Slots) : Prop :=
  match o with
  | .ok (sh', h') => (∃ ext, h' = h ++ ext) ∧ v = .ok (eraseSlots h' sh') ∧ ∀ x ∈ slotRefs sh', h0.length ≤ x ∧ x < h'.length
  | .err e => v = .err e
  | .panic => v = .panic

theorem decLoopH_ok (defs : List OptSlot) (h0 : Heap) (fuel : Nat) (bs : Bytes) (sh : List (Option IEValH)) (h : Heap)
    (hinv : ∀ x ∈ slotRefs sh, h0.length ≤ x ∧ x < h.length) (hle : h0.length ≤ h.length) :
    LoopOK h0 h (decLoopH defs fuel bs sh h) (decLoop defs fuel bs (eraseSlots h sh)) := by
  induction fuel generalizing bs sh h with
  | zero => simp [decLoopH, decLoop, LoopOK]; exact hinv
  | succ n ih =>
    cases bs with
    | nil => simp [decLoopH, decLoop, LoopOK]; exact hinv
    | cons b rest =>
      simp only [decLoopH, decLoop]
      cases hf : findSlot defs (tmpIei b) 0 with
      | none => simp only []; exact ih rest sh h hinv hle
      | some p =>
        obtain ⟨i, d⟩ := p
        simp only []
        have h1 := decOptH_ok d b rest h
        cases ho : decOptH d b rest h with
        | ok q =>
          obtain ⟨v, rest', hh1⟩ := q
          rw [ho] at h1
          obtain ⟨⟨e1, he1⟩, hv, hr⟩ := h1
          simp only [hv]
          have hinv' : ∀ x ∈ slotRefs (sh.set i (some v)), h0.length ≤ x ∧ x < hh1.length := by
            intro x hx
            rcases slotRefs_set sh i v x hx with hx | hx
            · have := hinv x hx; rw [he1]; simp; omega
            · have := hr x hx; omega
          have h2 := ih rest' (sh.set i (some v)) hh1 hinv' (by rw [he1]; simp; omega)
          have hes : eraseSlots hh1 (sh.set i (some v)) = (eraseSlots h sh).set i (some (v.erase hh1)) := by
            unfold eraseSlots
            rw [List.map_set, Option.map_some]
            congr 1
            have := eraseSlots_ext sh h e1 (fun x hx => (hinv x hx).2)
            unfold eraseSlots at this
            rw [he1]; exact this
          rw [hes] at h2
          cases hl : decLoopH defs n rest' (sh.set i (some v)) hh1 with
          | ok r =>
            obtain ⟨sh', hh2⟩ := r
            rw [hl] at h2
            obtain ⟨⟨e2, he2⟩, hv2, hr2⟩ := h2
            exact ⟨⟨e1 ++ e2, by rw [he2, he1, List.append_assoc]⟩, hv2, hr2⟩
          | err e => rw [hl] at h2; exact h2
          | panic => rw [hl] at h2; exact h2
        | err e => rw [ho] at h1; simp only [StepOK] at h1; simp only [h1, LoopOK]
        | panic => rw [ho] at h1; simp only [StepOK] at h1; simp only [h1, LoopOK]

theorem slotRefs_replicate (n : Nat) : slotRefs (List.replicate n none) = [] := by
  induction n with
  | zero => rfl
  | succ k ih => simp [slotRefs, List.replicate_succ] at ih ⊢

theorem eraseSlots_replicate (h : Heap) (n : Nat) : eraseSlots h (List.replicate n none) = List.replicate n none := by
  simp [eraseSlots]

/-- the main simulation: whatever the heap-level decoder does, the value-level decoder of C01–C04 does on the input region's
contents; a successful decode only *extends* the heap, and everything the message points to lies in the extension -/
theorem decodeH_sim (d : MsgDef) (h : Heap) (inp : Nat) :
    match decodeH d h inp with
    | .ok (m, h') => (∃ ext, h' = h ++ ext) ∧ decode d (h.getD inp []) = .ok (m.erase h') ∧
        ∀ x ∈ m.refs, h.length ≤ x ∧ x < h'.length
    | .err e => decode d (h.getD inp []) = .err e
    | .panic => decode d (h.getD inp []) = .panic := by
  unfold decodeH decode
  have h1 := decManH_ok d.man (h.getD inp []) h
  cases hm : decManH d.man (h.getD inp []) h with
  | ok p =>
    obtain ⟨mv, rest, hh1⟩ := p
    rw [hm] at h1
    obtain ⟨⟨e1, he1⟩, hv, hr⟩ := h1
    have h2 := decLoopH_ok d.opt h rest.length rest (List.replicate d.opt.length none) hh1
      (by rw [slotRefs_replicate]; simp) (by rw [he1]; simp)
    rw [eraseSlots_replicate] at h2
    simp only [hm, hv]
    cases hl : decLoopH d.opt rest.length rest (List.replicate d.opt.length none) hh1 with
    | ok q =>
      obtain ⟨ov, hh2⟩ := q
      rw [hl] at h2
      obtain ⟨⟨e2, he2⟩, hv2, hr2⟩ := h2
      simp only [hl, hv2]
      refine ⟨⟨e1 ++ e2, by rw [he2, he1, List.append_assoc]⟩, ?_, ?_⟩
      · simp only [MsgValH.erase, eraseSlots]
        congr 2
        apply List.map_congr_left
        intro v hvm
        rw [he2]
        exact (erase_ext v hh1 e2 (fun x hx => (hr x (by simp only [List.mem_flatMap]; exact ⟨v, hvm, hx⟩)).2)).symm
      · intro x hx
        simp only [MsgValH.refs, List.mem_append] at hx
        rcases hx with hx | hx
        · have := hr x hx; rw [he2]; simp; omega
        · exact hr2 x hx
    | err e => rw [hl] at h2; simp only [LoopOK] at h2; simp only [hl, h2]
    | panic => rw [hl] at h2; simp only [LoopOK] at h2; simp only [hl, h2]
  | err e => rw [hm] at h1; simp only [ManOK] at h1; simp only [hm, h1]
  | panic => rw [hm] at h1; simp only [ManOK] at h1; simp only [hm, h1]

/-! ## pairwise distinct regions -/

theorem refs_nodup (v : IEValH) : v.refs.Nodup := by
  unfold IEValH.refs
  cases v.st <;> simp

/-- mandatory part: the regions of different elements are different -/
theorem decManH_nodup (ss : List Slot) (bs : Bytes) (h : Heap) (vs : List IEValH) (r : Bytes) (h' : Heap)
    (hd : decManH ss bs h = .ok (vs, r, h')) : (vs.flatMap IEValH.refs).Nodup := by
  induction ss generalizing bs h vs r h' with
  | nil => simp [decManH] at hd; obtain ⟨rfl, _, _⟩ := hd; simp
  | cons s ss ih =>
    have h1 := decBodyH_ok s 0 bs h
    cases hb : decBodyH s 0 bs h with
    | ok p =>
      obtain ⟨v, rest, hh1⟩ := p
      rw [hb] at h1
      obtain ⟨⟨e1, he1⟩, _, hr⟩ := h1
      have h2 := decManH_ok ss rest hh1
      cases hm : decManH ss rest hh1 with
      | ok q =>
        obtain ⟨vs', rest', hh2⟩ := q
        rw [hm] at h2
        obtain ⟨_, _, hrs⟩ := h2
        simp only [decManH, hb, hm, Outcome.ok.injEq, Prod.mk.injEq] at hd
        obtain ⟨rfl, _, _⟩ := hd
        simp only [List.flatMap_cons]
        rw [List.nodup_append]
        refine ⟨refs_nodup v, ih rest hh1 vs' rest' hh2 hm, ?_⟩
        intro a ha b hb' hab
        have := (hr a ha).2
        have := (hrs b hb').1
        omega
      | err e => simp [decManH, hb, hm] at hd
      | panic => simp [decManH, hb, hm] at hd
    | err e => simp [decManH, hb] at hd
    | panic => simp [decManH, hb] at hd

theorem slotRefs_cons (o : Option IEValH) (sh : List (Option IEValH)) :
    slotRefs (o :: sh) = (match o with | some v => v.refs | none => []) ++ slotRefs sh := by
  cases o <;> simp [slotRefs]

theorem slotRefs_set_nodup (sh : List (Option IEValH)) (i : Nat) (v : IEValH) (hn : (slotRefs sh).Nodup)
    (hdis : ∀ x ∈ v.refs, x ∉ slotRefs sh) : (slotRefs (sh.set i (some v))).Nodup := by
  induction sh generalizing i with
  | nil => simpa using hn
  | cons o sh ih =>
    rw [slotRefs_cons, List.nodup_append] at hn
    obtain ⟨h1, h2, h3⟩ := hn
    have hdis2 : ∀ x ∈ v.refs, x ∉ slotRefs sh := by
      intro x hx hc; exact hdis x hx (by rw [slotRefs_cons]; exact List.mem_append_right _ hc)
    cases i with
    | zero =>
      simp only [List.set_cons_zero]
      rw [slotRefs_cons, List.nodup_append]
      refine ⟨refs_nodup v, h2, ?_⟩
      intro a ha b hb hab
      subst hab
      exact hdis2 a ha hb
    | succ i =>
      simp only [List.set_cons_succ]
      rw [slotRefs_cons, List.nodup_append]
      refine ⟨h1, ih i h2 hdis2, ?_⟩
      intro a ha b hb hab
      subst hab
      rcases slotRefs_set sh i v a hb with hb | hb
      · exact h3 a ha a hb rfl
      · exact hdis a hb (by rw [slotRefs_cons]; exact List.mem_append_left _ ha)

theorem decLoopH_nodup (defs : List OptSlot) (fuel : Nat) (bs : Bytes) (sh : List (Option IEValH)) (h : Heap)
    (hinv : ∀ x ∈ slotRefs sh, x < h.length) (hn : (slotRefs sh).Nodup) (sh' : List (Option IEValH)) (h' : Heap)
    (hd : decLoopH defs fuel bs sh h = .ok (sh', h')) : (slotRefs sh').Nodup := by
  induction fuel generalizing bs sh h with
  | zero => simp [decLoopH] at hd; obtain ⟨rfl, _⟩ := hd; exact hn
  | succ n ih =>
    cases bs with
    | nil => simp [decLoopH] at hd; obtain ⟨rfl, _⟩ := hd; exact hn
    | cons b rest =>
      simp only [decLoopH] at hd
      cases hf : findSlot defs (tmpIei b) 0 with
      | none => rw [hf] at hd; exact ih rest sh h hinv hn hd
      | some p =>
        obtain ⟨i, d⟩ := p
        rw [hf] at hd
        simp only [] at hd
        have h1 := decOptH_ok d b rest h
        cases ho : decOptH d b rest h with
        | ok q =>
          obtain ⟨v, rest', hh1⟩ := q
          rw [ho] at h1 hd
          obtain ⟨⟨e1, he1⟩, _, hr⟩ := h1
          simp only [] at hd
          refine ih rest' (sh.set i (some v)) hh1 ?_ ?_ hd
          · intro x hx
            rcases slotRefs_set sh i v x hx with hx | hx
            · have := hinv x hx; rw [he1]; simp; omega
            · exact (hr x hx).2
          · apply slotRefs_set_nodup sh i v hn
            intro x hx hc
            have := (hr x hx).1
            have := hinv x hc
            omega
        | err e => rw [ho] at hd; simp at hd
        | panic => rw [ho] at hd; simp at hd

/-- no two elements of a decoded message share a region -/
theorem decodeH_nodup (d : MsgDef) (h : Heap) (inp : Nat) (m : MsgValH) (h' : Heap) (hd : decodeH d h inp = .ok (m, h')) :
    m.refs.Nodup := by
  unfold decodeH at hd
  simp only [] at hd
  cases hm : decManH d.man (h.getD inp []) h with
  | ok p =>
    obtain ⟨mv, rest, hh1⟩ := p
    rw [hm] at hd
    simp only [] at hd
    have hman := decManH_ok d.man (h.getD inp []) h
    rw [hm] at hman
    obtain ⟨_, _, hr⟩ := hman
    cases hl : decLoopH d.opt rest.length rest (List.replicate d.opt.length none) hh1 with
    | ok q =>
      obtain ⟨ov, hh2⟩ := q
      rw [hl] at hd
      simp only [Outcome.ok.injEq, Prod.mk.injEq] at hd
      obtain ⟨rfl, _⟩ := hd
      have hloop := decLoopH_ok d.opt hh1 rest.length rest (List.replicate d.opt.length none) hh1
        (by rw [slotRefs_replicate]; simp) (Nat.le_refl _)
      rw [hl] at hloop
      obtain ⟨_, _, hr2⟩ := hloop
      unfold MsgValH.refs
      rw [List.nodup_append]
      refine ⟨decManH_nodup _ _ _ _ _ _ hm, ?_, ?_⟩
      · exact decLoopH_nodup d.opt rest.length rest _ hh1 (by rw [slotRefs_replicate]; simp) (by rw [slotRefs_replicate]; simp) ov hh2 hl
      · intro a ha b hb hab
        have := (hr a ha).2
        have := (hr2 b hb).1
        omega
    | err e => rw [hl] at hd; simp at hd
    | panic => rw [hl] at hd; simp at hd
  | err e => rw [hm] at hd; simp at hd
  | panic => rw [hm] at hd; simp at hd

end NasVerif.Codec.HeapSem
