import NasVerif.Prelude.GoLib
/-!
# `NoPanic`: a small program logic for the `Outcome` monad

`NoPanic o` says that `o` is a value or an error. The rules below are the usual weakest-precondition rules
(checked index / slice need their bounds; `bind` passes the equation `x = ok a` to the continuation so that
facts about intermediate results — mostly lengths — are available). The `np` tactic applies them and leaves the
arithmetic to `omega`.
-/
namespace NasVerif

def NoPanic {α} (o : Outcome α) : Prop := o ≠ .panic

theorem np_ok {α} (a : α) : NoPanic (Outcome.ok a) := by intro h; cases h
theorem np_pure {α} (a : α) : NoPanic (pure a : Outcome α) := by intro h; cases h
theorem np_err {α} (e : Err) : NoPanic (Outcome.err e : Outcome α) := by intro h; cases h

theorem np_bind {α β} {x : Outcome α} {f : α → Outcome β}
    (hx : NoPanic x) (hf : ∀ a, x = .ok a → NoPanic (f a)) : NoPanic (x >>= f) := by
  cases x with
  | ok a => exact hf a rfl
  | err e => exact np_err e
  | panic => exact absurd rfl hx

theorem np_idx {bs : Bytes} {i : Nat} (h : i < bs.length) : NoPanic (idx bs i) := by
  rw [idx_ok h]; exact np_ok _
theorem np_slice {bs : Bytes} {lo hi : Nat} (h1 : lo ≤ hi) (h2 : hi ≤ bs.length) : NoPanic (slice bs lo hi) := by
  rw [slice_ok h1 h2]; exact np_ok _
theorem np_sliceFrom {bs : Bytes} {lo : Nat} (h : lo ≤ bs.length) : NoPanic (sliceFrom bs lo) := by
  rw [sliceFrom_ok h]; exact np_ok _

theorem slice_len {bs r : Bytes} {lo hi : Nat} (h : slice bs lo hi = .ok r) : r.length = hi - lo ∧ hi ≤ bs.length := by
  unfold slice at h
  split at h
  · cases h; simp; omega
  · cases h
theorem sliceFrom_len {bs r : Bytes} {lo : Nat} (h : sliceFrom bs lo = .ok r) : r.length = bs.length - lo := by
  unfold sliceFrom at h
  split at h
  · cases h; simp
  · cases h
theorem sliceFrom_eq {bs r : Bytes} {lo : Nat} (h : sliceFrom bs lo = .ok r) : r = bs.drop lo := by
  unfold sliceFrom at h
  split at h
  · cases h; rfl
  · cases h

/-- one step of the `NoPanic` calculus -/
macro "np_step" : tactic => `(tactic| first
  | exact np_pure _
  | exact np_ok _
  | exact np_err _
  | (apply np_idx; first | omega | (simp; omega) | simp)
  | (apply np_slice <;> first | omega | (simp; omega) | simp)
  | (apply np_sliceFrom; first | omega | (simp; omega) | simp)
  | (apply np_bind)
  | intro _ _
  | split
  | dsimp only)

macro "np" : tactic => `(tactic| repeat np_step)

end NasVerif
