import NasVerif.Proofs.EncLoops
import NasVerif.Proofs.BitLists
/-!
# NEA1 / NEA3 for every bit length, at the level of bit strings

The byte loops of `security.go` (full words, then the ⌈r/8⌉ octets of the partial word; NEA1 masks the last keystream word,
NEA3 masks the last octet and zeroes what follows) are reduced to: "the first LENGTH bits of the output are the input bits XOR
the first LENGTH keystream bits" — the form in which f8 and 128-EEA3 are defined.
-/
namespace NasVerif.Proofs.EncBits
open NasVerif NasVerif.Model NasVerif.Model.Security NasVerif.Proofs.EncLoops NasVerif.Proofs.BitLists

/-- the (tail-masked) keystream words NEA1 indexes -/
def nea1Ks (ck : Bytes) (count bearer direction : W32) (length : Nat) : List W32 :=
  let l := (length + 31) / 32
  let r := length % 32
  let ks := Snow3g.GetKeyStream (keyWords ck) (snowIv count bearer direction) l
  if r ≠ 0 then ks.set (l - 1) (ks.getD (l - 1) 0 &&& ~~~ ((1#32 <<< (32 - r)) - 1#32)) else ks

def kbm1 (ck : Bytes) (count bearer direction : W32) (length idx : Nat) : UInt8 :=
  ksByte ((nea1Ks ck count bearer direction length).getD (idx / 4) 0) (idx % 4)

/-- NEA1 for every bit length: the first ⌈LENGTH/8⌉ octets are input XOR (masked) keystream octets, the rest are zero -/
theorem nea1_sweep (ck : Bytes) (count bearer direction : W32) (p : Bytes) (length : Nat) (hlen : (length + 7) / 8 ≤ p.length) :
    ∃ obs, NEA1 ck count bearer direction p length = .ok obs ∧ Sweep p (kbm1 ck count bearer direction length) ((length + 7) / 8) obs := by
  unfold NEA1
  simp only []
  have hiv : [(bearer <<< 27) ||| (direction <<< 26), count, (bearer <<< 27) ||| (direction <<< 26), count] = snowIv count bearer direction := rfl
  rw [hiv]
  have hksdef : (if length % 32 ≠ 0 then
      (Snow3g.GetKeyStream (keyWords ck) (snowIv count bearer direction) ((length + 31) / 32)).set ((length + 31) / 32 - 1)
        ((Snow3g.GetKeyStream (keyWords ck) (snowIv count bearer direction) ((length + 31) / 32)).getD ((length + 31) / 32 - 1) 0 &&&
          ~~~ ((1#32 <<< (32 - length % 32)) - 1#32))
      else Snow3g.GetKeyStream (keyWords ck) (snowIv count bearer direction) ((length + 31) / 32)) = nea1Ks ck count bearer direction length := rfl
  rw [hksdef]
  have hlenks : (nea1Ks ck count bearer direction length).length = (length + 31) / 32 := by
    unfold nea1Ks; simp only []; split <;> simp [Snow3g.GetKeyStream_length]
  generalize hks : nea1Ks ck count bearer direction length = ks at hlenks
  have hkb : ∀ idx, kbm1 ck count bearer direction length idx = ksByte (ks.getD (idx / 4) 0) (idx % 4) := by
    intro idx; unfold kbm1; rw [hks]
  generalize kbm1 ck count bearer direction length = kb at hkb ⊢
  have hword : ∀ i c obs0, c ≤ 4 → i * 4 + c ≤ p.length → i < ks.length → Sweep p kb (i * 4) obs0 →
      ∃ obs1, forRange c 0 (fun j obs => if i < ks.length then xorAt p (4 * i + j) (ksByte (ks.getD i 0) j) obs else .panic) obs0 = .ok obs1 ∧
        Sweep p kb (i * 4 + c) obs1 := by
    intro i c obs0 hc hle hi h0
    obtain ⟨obs1, hr1, hi1⟩ := forRange_inv (fun j obs => Sweep p kb (i * 4 + j) obs)
      (fun j obs => if i < ks.length then xorAt p (4 * i + j) (ksByte (ks.getD i 0) j) obs else .panic) c 0 obs0 (by simpa using h0)
      (by
        intro j obs2 _ hj hs
        rw [if_pos hi, show 4 * i + j = i * 4 + j by omega]
        obtain ⟨obs3, h3, s3⟩ := sweep_step p kb (i * 4 + j) obs2 hs (by omega) _
          (by rw [hkb, show (i * 4 + j) / 4 = i by omega, show (i * 4 + j) % 4 = j by omega])
        exact ⟨obs3, h3, by rw [show i * 4 + (j + 1) = i * 4 + j + 1 by omega]; exact s3⟩)
    exact ⟨obs1, hr1, by simpa using hi1⟩
  obtain ⟨obs, hrun, hinv⟩ := forRange_inv (fun i obs => Sweep p kb (i * 4) obs)
    (fun i obs => forRange 4 0 (fun j obs => if i < ks.length then xorAt p (4 * i + j) (ksByte (ks.getD i 0) j) obs else .panic) obs)
    (length / 32) 0 (List.replicate p.length 0) (by simpa using sweep_zero p kb)
    (by
      intro i obs0 _ hi h0
      obtain ⟨obs1, h1, s1⟩ := hword i 4 obs0 (by omega) (by omega) (by omega) h0
      exact ⟨obs1, h1, by rw [show (i + 1) * 4 = i * 4 + 4 by omega]; exact s1⟩)
  simp only [Nat.zero_add] at hrun hinv
  rw [hrun]
  simp only []
  by_cases hm : length % 32 ≠ 0
  · rw [if_pos hm]
    obtain ⟨obs1, h1, s1⟩ := hword (length / 32) ((length % 32 + 7) / 8) obs (by omega) (by omega) (by omega) hinv
    rw [h1]
    have : length / 32 * 4 + (length % 32 + 7) / 8 = (length + 7) / 8 := by omega
    rw [this] at s1
    exact ⟨obs1, rfl, s1⟩
  · rw [if_neg hm]
    have : length / 32 * 4 = (length + 7) / 8 := by omega
    rw [this] at hinv
    exact ⟨obs, rfl, hinv⟩
theorem ksByte_bit (w : W32) (j b : Nat) (hj : j < 4) (hb : b < 8) :
    (ksByte w j).toNat.testBit (7 - b) = w.toNat.testBit (31 - (8 * j + b)) := by
  unfold ksByte
  have hlt : (w >>> (8 * (3 - j))).toNat % 256 < 256 := Nat.mod_lt _ (by omega)
  rw [UInt8.toNat_ofNat_of_lt' hlt, BitVec.toNat_ushiftRight, Nat.shiftRight_eq_div_pow,
    show (256 : Nat) = 2 ^ 8 from rfl, Nat.testBit_mod_two_pow, Nat.testBit_div_two_pow]
  have : 7 - b + 8 * (3 - j) = 31 - (8 * j + b) := by omega
  rw [this]
  simp; omega

theorem xor_bit (a b : UInt8) (i : Nat) : (a ^^^ b).toNat.testBit i = (a.toNat.testBit i != b.toNat.testBit i) := by
  rw [UInt8.toNat_xor, Nat.testBit_xor]

/-- the tail mask keeps bit `i` of the word when `i ≥ 32 - r` -/
theorem mask_bit (w : W32) (r i : Nat) (hr0 : 0 < r) (hr : r < 32) (hi : 32 - r ≤ i) (hi32 : i < 32) :
    (w &&& ~~~ ((1#32 <<< (32 - r)) - 1#32)).toNat.testBit i = w.toNat.testBit i := by
  have hm : ((1#32 <<< (32 - r)) - 1#32).toNat = 2 ^ (32 - r) - 1 := by
    have hp : 2 ^ (32 - r) < 2 ^ 32 := Nat.pow_lt_pow_right (by omega) (by omega)
    have hp1 : 1 ≤ 2 ^ (32 - r) := Nat.one_le_two_pow
    rw [BitVec.toNat_sub, BitVec.toNat_shiftLeft]
    simp only [BitVec.toNat_ofNat, Nat.shiftLeft_eq, Nat.one_mul, Nat.one_mod]
    rw [Nat.mod_eq_of_lt hp]
    generalize 2 ^ (32 - r) = T at *
    omega
  rw [BitVec.toNat_and, Nat.testBit_and, BitVec.toNat_not, hm]
  have : (2 ^ 32 - 1 - (2 ^ (32 - r) - 1)).testBit i = true := by
    have hp1 : 1 ≤ 2 ^ (32 - r) := Nat.one_le_two_pow
    have hple : 2 ^ (32 - r) ≤ 2 ^ 32 := Nat.pow_le_pow_right (by omega) (by omega)
    have e : 2 ^ 32 - 1 - (2 ^ (32 - r) - 1) = 2 ^ 32 - 2 ^ (32 - r) := by omega
    rw [e]
    have e2 : 2 ^ 32 - 2 ^ (32 - r) = (2 ^ r - 1) * 2 ^ (32 - r) := by
      rw [Nat.sub_mul, ← Nat.pow_add, show r + (32 - r) = 32 by omega, Nat.one_mul]
    rw [e2, Nat.testBit_mul_two_pow, Nat.testBit_two_pow_sub_one]
    simp; omega
  rw [this, Bool.and_true]
/-- the first LENGTH bits of `obs` are input XOR keystream-octet bits -/
def BitsOK (p : Bytes) (kb : Nat → UInt8) (length : Nat) (obs : Bytes) : Prop :=
  obs.length = p.length ∧ ∀ t, t < length →
    (obs.getD (t / 8) 0).toNat.testBit (7 - t % 8) = (p.getD (t / 8) 0 ^^^ kb (t / 8)).toNat.testBit (7 - t % 8)

theorem sweep_bitsOK (p obs : Bytes) (kb : Nat → UInt8) (length : Nat) (hs : Sweep p kb ((length + 7) / 8) obs)
    (hlen : (length + 7) / 8 ≤ p.length) : BitsOK p kb length obs := by
  obtain ⟨hl, hv⟩ := hs
  refine ⟨hl, ?_⟩
  intro t ht
  have hx := hv (t / 8) (by omega)
  rw [if_pos (by omega)] at hx
  rw [hx]

/-- from the octet-level closed form to the bit-string statement of the standards -/
theorem bitsOK_spec (p obs : Bytes) (kb : Nat → UInt8) (length : Nat) (ws : List W32)
    (hs : BitsOK p kb length obs) (hlen : (length + 7) / 8 ≤ p.length) (hws : length ≤ 32 * ws.length)
    (hbit : ∀ t, t < length → (kb (t / 8)).toNat.testBit (7 - t % 8) = (ws.getD (t / 32) 0).toNat.testBit (31 - t % 32)) :
    (Spec.bytesBits obs).take length = Spec.xorBits ((Spec.bytesBits p).take length) ((Spec.wordsBits ws).take length) := by
  obtain ⟨hl, hv⟩ := hs
  have h8 : length ≤ 8 * p.length := by omega
  apply ext_getD _ _ false
  · simp only [List.length_take, xorBits_length, bytesBits_length, wordsBits_length, hl]; omega
  · intro t ht
    have ht' : t < length := by simp only [List.length_take] at ht; omega
    rw [take_getD _ _ _ _ ht', bytesBits_getD obs t (by rw [hl]; omega), hv t ht', xor_bit,
      xorBits_getD _ _ _ (by simp only [List.length_take, bytesBits_length]; omega)
        (by simp only [List.length_take, wordsBits_length]; omega),
      take_getD _ _ _ _ ht', take_getD _ _ _ _ ht', bytesBits_getD p t (by omega), wordsBits_getD ws t (by omega), hbit t ht']

theorem nea1_bits (ck : Bytes) (count bearer direction : W32) (p : Bytes) (length : Nat) (hlen : (length + 7) / 8 ≤ p.length) :
    ∃ obs, NEA1 ck count bearer direction p length = .ok obs ∧ obs.length = p.length ∧
      (Spec.bytesBits obs).take length = Spec.xorBits ((Spec.bytesBits p).take length)
        ((Spec.wordsBits (Snow3g.GetKeyStream (keyWords ck) (snowIv count bearer direction) ((length + 31) / 32))).take length) := by
  obtain ⟨obs, hrun, hs⟩ := nea1_sweep ck count bearer direction p length hlen
  refine ⟨obs, hrun, hs.1, ?_⟩
  apply bitsOK_spec p obs _ length _ (sweep_bitsOK p obs _ length hs hlen) hlen (by rw [Snow3g.GetKeyStream_length]; omega)
  intro t ht
  unfold kbm1
  rw [ksByte_bit _ _ _ (Nat.mod_lt _ (by omega)) (Nat.mod_lt _ (by omega)),
    show 8 * (t / 8 % 4) + t % 8 = t % 32 by omega, show t / 8 / 4 = t / 32 by omega]
  unfold nea1Ks
  simp only []
  generalize hks0 : Snow3g.GetKeyStream (keyWords ck) (snowIv count bearer direction) ((length + 31) / 32) = ks0
  have hl0 : ks0.length = (length + 31) / 32 := by rw [← hks0, Snow3g.GetKeyStream_length]
  by_cases hm : length % 32 ≠ 0
  · rw [if_pos hm]
    by_cases hi : t / 32 = (length + 31) / 32 - 1
    · rw [List.getD_eq_getElem?_getD, List.getElem?_set, if_pos hi.symm]
      have hil : t / 32 < ks0.length := by omega
      simp only [hil, if_true, Option.getD_some, ← hi]
      exact mask_bit _ (length % 32) _ (by omega) (Nat.mod_lt _ (by omega)) (by omega) (by omega)
    · rw [List.getD_eq_getElem?_getD, List.getElem?_set, if_neg (Ne.symm hi), ← List.getD_eq_getElem?_getD]
  · rw [if_neg hm]
/-! ## NEA3 for every bit length -/

def kbz (ck : Bytes) (count : W32) (bearer direction : UInt8) (length idx : Nat) : UInt8 :=
  ksByte ((zucStream ck count bearer direction ((length + 31) / 32)).getD (idx / 4) 0) (idx % 4)

theorem nea3_loop (p : Bytes) (stream : List W32) (l nb : Nat) (hnb : nb ≤ p.length) :
    ∃ obs, forRange l 0 (fun i obs => forRange 4 0 (fun j obs => if i * 4 + j < nb then xorAt p (i * 4 + j) (ksByte (stream.getD i 0) j) obs else .ok obs) obs)
        (List.replicate p.length 0) = .ok obs ∧
      Sweep p (fun idx => ksByte (stream.getD (idx / 4) 0) (idx % 4)) (min (4 * l) nb) obs := by
  obtain ⟨obs, hrun, hinv⟩ := forRange_inv (fun i obs => Sweep p (fun idx => ksByte (stream.getD (idx / 4) 0) (idx % 4)) (min (4 * i) nb) obs)
    (fun i obs => forRange 4 0 (fun j obs => if i * 4 + j < nb then xorAt p (i * 4 + j) (ksByte (stream.getD i 0) j) obs else .ok obs) obs)
    l 0 (List.replicate p.length 0) (by simpa using sweep_zero p _)
    (by
      intro i obs0 _ _ h0
      obtain ⟨obs1, hr, hi⟩ := forRange_inv (fun j obs => Sweep p (fun idx => ksByte (stream.getD (idx / 4) 0) (idx % 4)) (min (4 * i + j) nb) obs)
        (fun j obs => if i * 4 + j < nb then xorAt p (i * 4 + j) (ksByte (stream.getD i 0) j) obs else .ok obs)
        4 0 obs0 (by simpa using h0)
        (by
          intro j obs2 _ hj hs
          by_cases hlt : i * 4 + j < nb
          · rw [if_pos hlt]
            have hmin : min (4 * i + j) nb = i * 4 + j := by omega
            rw [hmin] at hs
            obtain ⟨obs3, h3, s3⟩ := sweep_step p _ (i * 4 + j) obs2 hs (by omega) (ksByte (stream.getD i 0) j)
              (by congr 2 <;> omega)
            exact ⟨obs3, h3, by rw [show min (4 * i + (j + 1)) nb = i * 4 + j + 1 by omega]; exact s3⟩
          · rw [if_neg hlt]
            exact ⟨obs2, rfl, by rw [show min (4 * i + (j + 1)) nb = min (4 * i + j) nb by omega]; exact hs⟩)
      exact ⟨obs1, hr, by rw [show 4 * (i + 1) = 4 * i + (0 + 4) by omega]; exact hi⟩)
  simp only [Nat.zero_add] at hinv hrun
  exact ⟨obs, hrun, hinv⟩

theorem shl_mask_bit (r i : Nat) (hr : r < 8) (hi : r ≤ i) (hi8 : i < 8) : ((0xff : UInt8) <<< UInt8.ofNat r).toNat.testBit i = true := by
  have h : ∀ r, r < 8 → ∀ i, i < 8 → r ≤ i → ((0xff : UInt8) <<< UInt8.ofNat r).toNat.testBit i = true := by decide
  exact h r hr i hi8 hi

theorem nea3_bits (ck : Bytes) (count : W32) (bearer direction : UInt8) (p : Bytes) (length : Nat) (hlen : (length + 7) / 8 ≤ p.length) :
    ∃ obs, NEA3 ck count bearer direction p length = .ok obs ∧ obs.length = p.length ∧
      (Spec.bytesBits obs).take length = Spec.xorBits ((Spec.bytesBits p).take length)
        ((Spec.wordsBits (zucStream ck count bearer direction ((length + 31) / 32))).take length) := by
  unfold NEA3
  simp only []
  have hstream : Zuc.Zuc (toBV8 ck) (toBV8 ((put32 count ++ [(bearer <<< 3) ||| (direction <<< 2), 0, 0, 0]) ++
      (put32 count ++ [(bearer <<< 3) ||| (direction <<< 2), 0, 0, 0]))) ((length + 31) / 32) =
      zucStream ck count bearer direction ((length + 31) / 32) := rfl
  rw [hstream]
  generalize hS : zucStream ck count bearer direction ((length + 31) / 32) = stream
  have hSl : stream.length = (length + 31) / 32 := by rw [← hS]; unfold zucStream; simp [Zuc.Zuc_length]
  obtain ⟨obs, hrun, hsw⟩ := nea3_loop p stream ((length + 31) / 32) ((length + 7) / 8) hlen
  rw [hrun]
  simp only []
  rw [show min (4 * ((length + 31) / 32)) ((length + 7) / 8) = (length + 7) / 8 by omega] at hsw
  have hok := sweep_bitsOK p obs _ length hsw hlen
  have hl := hsw.1
  -- the tail fix-ups keep the first LENGTH bits
  have hfinal : ∀ obs2 : Bytes, BitsOK p (fun idx => ksByte (stream.getD (idx / 4) 0) (idx % 4)) length obs2 →
      BitsOK p (fun idx => ksByte (stream.getD (idx / 4) 0) (idx % 4)) length
        (obs2.take (length / 8 + 1) ++ List.replicate (obs2.length - (length / 8 + 1)) 0) := by
    intro obs2 h2
    refine ⟨by simp [h2.1]; omega, ?_⟩
    intro t ht
    rw [← h2.2 t ht]
    congr 2
    rw [List.getD_eq_getElem?_getD, List.getElem?_append_left (by simp [h2.1]; omega), List.getElem?_take,
      if_pos (by omega), ← List.getD_eq_getElem?_getD]
  have hspec : ∀ obs3 : Bytes, BitsOK p (fun idx => ksByte (stream.getD (idx / 4) 0) (idx % 4)) length obs3 →
      (Spec.bytesBits obs3).take length = Spec.xorBits ((Spec.bytesBits p).take length) ((Spec.wordsBits stream).take length) := by
    intro obs3 h3
    apply bitsOK_spec p obs3 _ length stream h3 hlen (by omega)
    intro t ht
    rw [ksByte_bit _ _ _ (Nat.mod_lt _ (by omega)) (Nat.mod_lt _ (by omega)),
      show 8 * (t / 8 % 4) + t % 8 = t % 32 by omega, show t / 8 / 4 = t / 32 by omega]
  by_cases h8 : length % 8 ≠ 0
  · rw [if_pos h8, if_pos (by omega)]
    simp only []
    have hmask : BitsOK p (fun idx => ksByte (stream.getD (idx / 4) 0) (idx % 4)) length
        (obs.set (length / 8) (obs.getD (length / 8) 0 &&& (0xff <<< UInt8.ofNat (8 - length % 8)))) := by
      refine ⟨by simp [hl], ?_⟩
      intro t ht
      rw [← hok.2 t ht]
      by_cases he : t / 8 = length / 8
      · rw [List.getD_eq_getElem?_getD, List.getElem?_set, if_pos he.symm]
        have : length / 8 < obs.length := by omega
        simp only [this, if_true, Option.getD_some, he]
        rw [UInt8.toNat_and, Nat.testBit_and, shl_mask_bit _ _ (by omega) (by omega) (by omega), Bool.and_true]
      · rw [List.getD_eq_getElem?_getD, List.getElem?_set, if_neg (Ne.symm he), ← List.getD_eq_getElem?_getD]
    have hf := hfinal _ hmask
    exact ⟨_, rfl, hf.1, hspec _ hf⟩
  · rw [if_neg h8]
    simp only []
    have hf := hfinal _ hok
    exact ⟨_, rfl, hf.1, hspec _ hf⟩
end NasVerif.Proofs.EncBits
