import NasVerif.Model.Snow3g
import NasVerif.Spec.Snow3G
/-! # The model of snow3g.go computes the SNOW 3G keystream of the specification (given equal S-box tables) -/
namespace NasVerif.Proofs.Snow3gRefine
open NasVerif NasVerif.Model.Snow3g

abbrev TablesEq : Prop :=
  Gen.Crypto.snow_sr = Spec.Tab.snow_sr ∧ Gen.Crypto.snow_sq = Spec.Tab.snow_sq

theorem msb_test : ∀ V : BitVec 8, (V &&& 0x80#8 != 0#8) = V.msb := by decide

theorem mulx_eq (V c : W8) : mulx V c = Spec.Snow3G.MULx V c := by
  unfold mulx Spec.Snow3G.MULx
  rw [msb_test]

theorem mulxPow_eq (V : W8) (i : Nat) (c : W8) : mulxPow V i c = Spec.Snow3G.MULxPOW V i c := by
  induction i with
  | zero => rfl
  | succ i ih => simp [mulxPow, Spec.Snow3G.MULxPOW, ih, mulx_eq]

theorem idx_eq (w : W32) (sh : Nat) : ((w >>> sh) &&& 0xff#32).toNat = ((w >>> sh).setWidth 8).toNat := by
  simp only [BitVec.toNat_and, BitVec.toNat_setWidth]
  exact Nat.and_two_pow_sub_one_eq_mod _ 8

theorem idx0_eq (w : W32) : (w &&& 0xff#32).toNat = (w.setWidth 8).toNat := by
  have := idx_eq w 0
  simpa using this

theorem sr_eq (h : TablesEq) (w : W32) (sh : Nat) : sr ((w >>> sh) &&& 0xff#32) = Spec.Snow3G.SR ((w >>> sh).setWidth 8) := by
  unfold sr Spec.Snow3G.SR; rw [idx_eq, h.1]
theorem sq_eq (h : TablesEq) (w : W32) (sh : Nat) : sq ((w >>> sh) &&& 0xff#32) = Spec.Snow3G.SQ ((w >>> sh).setWidth 8) := by
  unfold sq Spec.Snow3G.SQ; rw [idx_eq, h.2]
theorem sr0_eq (h : TablesEq) (w : W32) : sr (w &&& 0xff#32) = Spec.Snow3G.SR ((w >>> 0).setWidth 8) := by
  unfold sr Spec.Snow3G.SR; rw [idx0_eq, h.1]; simp
theorem sq0_eq (h : TablesEq) (w : W32) : sq (w &&& 0xff#32) = Spec.Snow3G.SQ ((w >>> 0).setWidth 8) := by
  unfold sq Spec.Snow3G.SQ; rw [idx0_eq, h.2]; simp

theorem s1_eq (h : TablesEq) (w : W32) : s1 w = Spec.Snow3G.S1 w := by
  unfold s1 Spec.Snow3G.S1 Spec.Snow3G.byte Spec.Snow3G.cat4 u32
  simp only [sr_eq h, sr0_eq h, mulx_eq]
  rfl

theorem s2_eq (h : TablesEq) (w : W32) : s2 w = Spec.Snow3G.S2 w := by
  unfold s2 Spec.Snow3G.S2 Spec.Snow3G.byte Spec.Snow3G.cat4 u32
  simp only [sq_eq h, sq0_eq h, mulx_eq]
  rfl

theorem mulAlpha_eq (c : W8) : mulAlpha c = Spec.Snow3G.MULa c := by
  simp [mulAlpha, Spec.Snow3G.MULa, Spec.Snow3G.cat4, u32, mulxPow_eq]
theorem divAlpha_eq (c : W8) : divAlpha c = Spec.Snow3G.DIVa c := by
  simp [divAlpha, Spec.Snow3G.DIVa, Spec.Snow3G.cat4, u32, mulxPow_eq]

def toSpec (s : State) : Spec.Snow3G.St := ⟨s.lfsr, s.fsm0, s.fsm1, s.fsm2⟩

theorem and_ff8 (x : BitVec 8) : x &&& 0xff#8 = x := by
  apply BitVec.eq_of_toNat_eq
  simp only [BitVec.toNat_and]
  have := Nat.and_two_pow_sub_one_eq_mod x.toNat 8
  simp at this ⊢
  omega

theorem low8 (x : W32) : (x &&& 0xff#32).setWidth 8 = (x >>> 0).setWidth 8 := by
  apply BitVec.eq_of_toNat_eq
  simp only [BitVec.toNat_setWidth, BitVec.toNat_and]
  have := Nat.and_two_pow_sub_one_eq_mod x.toNat 8
  simp at this ⊢
  omega

theorem feedback_eq (s : State) (F : W32) :
    (toSpec { s with lfsr := shiftIn s.lfsr (feedback s ^^^ F) }) = Spec.Snow3G.lfsrStep (toSpec s) F := by
  simp only [toSpec, Spec.Snow3G.lfsrStep, shiftIn, feedback, Spec.Snow3G.sAt, State.l, Spec.Snow3G.byte,
    mulAlpha_eq, divAlpha_eq, and_ff8, low8]

theorem lfsrInit_eq (s : State) (F : W32) : toSpec (lfsrInitializationMode s F) = Spec.Snow3G.lfsrStep (toSpec s) F :=
  feedback_eq s F

theorem lfsrKs_eq (s : State) : toSpec (lfsrKeystreamMode s) = Spec.Snow3G.lfsrStep (toSpec s) 0 := by
  have := feedback_eq s 0
  simpa [lfsrKeystreamMode] using this

theorem clockFsm_eq (h : TablesEq) (s : State) :
    (Spec.Snow3G.clockFSM (toSpec s)) = ((clockFsm s (s.l 15) (s.l 5)).2, toSpec (clockFsm s (s.l 15) (s.l 5)).1) := by
  simp [Spec.Snow3G.clockFSM, clockFsm, toSpec, Spec.Snow3G.sAt, State.l, s1_eq h, s2_eq h]

theorem initLoop_eq (h : TablesEq) (n : Nat) (s : State) : toSpec (initLoop n s) = Spec.Snow3G.initRounds n (toSpec s) := by
  induction n generalizing s with
  | zero => rfl
  | succ n ih =>
    simp only [initLoop, Spec.Snow3G.initRounds, clockFsm_eq h s]
    rw [ih, lfsrInit_eq]

theorem ksLoop_eq (h : TablesEq) (n : Nat) (s : State) : ksLoop n s = Spec.Snow3G.ksLoop n (toSpec s) := by
  induction n generalizing s with
  | zero => rfl
  | succ n ih =>
    simp only [ksLoop, Spec.Snow3G.ksLoop, clockFsm_eq h s]
    rw [ih, lfsrKs_eq]
    simp [toSpec, Spec.Snow3G.sAt, State.l]

/-- C06, SNOW 3G core: `snow3g.GetKeyStream` (as modelled) produces the keystream words z1 … zn of the specification -/
theorem GetKeyStream_eq (h : TablesEq) (k iv : List W32) (n : Nat) :
    GetKeyStream k iv n = Spec.Snow3G.keystream k iv n := by
  unfold GetKeyStream generateKeystream Spec.Snow3G.keystream
  have hinit : toSpec (newSnow3g k iv) = Spec.Snow3G.initRounds 32 (Spec.Snow3G.initSt k iv) := by
    unfold newSnow3g
    rw [initLoop_eq h]
    rfl
  simp only [ksLoop_eq h, lfsrKs_eq, ← hinit, clockFsm_eq h]

end NasVerif.Proofs.Snow3gRefine
