import NasVerif.Model.Qos
import NasVerif.Proofs.NoPanic
/-!
# Helper lemmas for C15: big-endian packing, reader progress, per-component and per-list round trips
-/
namespace NasVerif.Proofs.Qos
open NasVerif NasVerif.Model.Qos
set_option linter.unusedSimpArgs false
set_option linter.unusedVariables false

theorem u16Of_toNat (a b : UInt8) : ((a.toUInt16 <<< 8) ||| b.toUInt16).toNat = a.toNat * 256 + b.toNat := by
  have ha := a.toNat_lt
  have hb := b.toNat_lt
  simp only [UInt16.toNat_or, UInt16.toNat_shiftLeft, UInt8.toNat_toUInt16]
  have h8 : (8 : UInt16).toNat % 16 = 8 := by decide
  rw [h8, Nat.shiftLeft_eq, Nat.mod_eq_of_lt (by omega)]
  have := Nat.shiftLeft_add_eq_or_of_lt (i := 8) (b := b.toNat) (by omega) a.toNat
  rw [Nat.shiftLeft_eq] at this
  omega

theorem u16_roundtrip (v : UInt16) : ((v >>> 8).toUInt8.toUInt16 <<< 8) ||| v.toUInt8.toUInt16 = v := by
  apply UInt16.toNat_inj.mp
  rw [u16Of_toNat]
  have hv := v.toNat_lt
  simp only [UInt16.toNat_toUInt8, UInt16.toNat_shiftRight]
  have h8 : (8 : UInt16).toNat % 16 = 8 := by decide
  rw [h8, Nat.shiftRight_eq_div_pow]
  omega

theorem nat_shl_or (x y k : Nat) (hy : y < 2 ^ k) : (x <<< k) ||| y = x * 2 ^ k + y := by
  rw [← Nat.shiftLeft_add_eq_or_of_lt hy, Nat.shiftLeft_eq]

theorem u32Of_toNat (a b c d : UInt8) :
    ((a.toUInt32 <<< 24) ||| (b.toUInt32 <<< 16) ||| (c.toUInt32 <<< 8) ||| d.toUInt32).toNat =
      a.toNat * 16777216 + b.toNat * 65536 + c.toNat * 256 + d.toNat := by
  have ha := a.toNat_lt
  have hb := b.toNat_lt
  have hc := c.toNat_lt
  have hd := d.toNat_lt
  simp only [UInt32.toNat_or, UInt32.toNat_shiftLeft, UInt8.toNat_toUInt32]
  have h24 : (24 : UInt32).toNat % 32 = 24 := by decide
  have h16 : (16 : UInt32).toNat % 32 = 16 := by decide
  have h8 : (8 : UInt32).toNat % 32 = 8 := by decide
  rw [h24, h16, h8]
  have e1 : a.toNat <<< 24 % 2 ^ 32 = a.toNat <<< 24 := by rw [Nat.shiftLeft_eq]; exact Nat.mod_eq_of_lt (by omega)
  have e2 : b.toNat <<< 16 % 2 ^ 32 = b.toNat <<< 16 := by rw [Nat.shiftLeft_eq]; exact Nat.mod_eq_of_lt (by omega)
  have e3 : c.toNat <<< 8 % 2 ^ 32 = c.toNat <<< 8 := by rw [Nat.shiftLeft_eq]; exact Nat.mod_eq_of_lt (by omega)
  rw [e1, e2, e3, Nat.or_assoc, Nat.or_assoc]
  rw [nat_shl_or c.toNat d.toNat 8 (by omega), nat_shl_or b.toNat _ 16 (by omega), nat_shl_or a.toNat _ 24 (by omega)]
  omega

theorem be32_roundtrip (v : UInt32) :
    (((v >>> 24).toUInt8.toUInt32 <<< 24) ||| ((v >>> 16).toUInt8.toUInt32 <<< 16) ||| ((v >>> 8).toUInt8.toUInt32 <<< 8) ||| v.toUInt8.toUInt32) = v := by
  apply UInt32.toNat_inj.mp
  rw [u32Of_toNat]
  have hv := v.toNat_lt
  simp only [UInt32.toNat_toUInt8, UInt32.toNat_shiftRight]
  have h24 : (24 : UInt32).toNat % 32 = 24 := by decide
  have h16 : (16 : UInt32).toNat % 32 = 16 := by decide
  have h8 : (8 : UInt32).toNat % 32 = 8 := by decide
  rw [h24, h16, h8]
  simp only [Nat.shiftRight_eq_div_pow]
  omega

theorem bind_ok_inv' {α β} {x : Outcome α} {f : α → Outcome β} {b : β} (h : (x >>= f) = .ok b) : ∃ a, x = .ok a ∧ f a = .ok b := by
  cases x with
  | ok a => exact ⟨a, rfl, h⟩
  | err e => cases h
  | panic => cases h

theorem np_readU8 (b : Bytes) : NoPanic (readU8 b) := by cases b <;> simp [readU8, NoPanic]

theorem np_readU16 (b : Bytes) : NoPanic (readU16 b) := by
  match b with
  | [] => simp [readU16, NoPanic]
  | [_] => simp [readU16, NoPanic]
  | _ :: _ :: _ => simp [readU16, NoPanic]

theorem readU8_len {b r : Bytes} {v : UInt8} (h : readU8 b = .ok (v, r)) : r.length + 1 = b.length := by
  cases b with
  | nil => simp [readU8] at h
  | cons x xs => simp [readU8] at h; obtain ⟨_, rfl⟩ := h; simp

theorem readU16_len {b r : Bytes} {v : UInt16} (h : readU16 b = .ok (v, r)) : r.length + 2 = b.length := by
  match b with
  | [] => simp [readU16] at h
  | [_] => simp [readU16] at h
  | _ :: _ :: xs => simp [readU16] at h; obtain ⟨_, rfl⟩ := h; simp

theorem np_bitRate (mk : UInt8 → UInt16 → FlowParam) (b : Bytes) : NoPanic (bitRate mk b) := by
  unfold bitRate
  apply np_bind (np_readU8 b); intro x _
  apply np_bind (np_readU16 _); intro y _
  exact np_pure _

theorem np_parseParam {id : UInt8} {b : Bytes} {o : Outcome FlowParam} (h : parseParam id b = some o) : NoPanic o := by
  unfold parseParam at h
  repeat' split at h
  all_goals first
    | (cases h; first
        | exact np_bitRate _ _
        | (apply np_bind (np_readU8 b); intro _ _; exact np_pure _)
        | (apply np_bind (np_readU16 b); intro _ _; exact np_pure _))
    | cases h

theorem np_parseParamList (n : Nat) (buf : Bytes) : NoPanic (parseParamList n buf) := by
  induction n generalizing buf with
  | zero => exact np_pure _
  | succ k ih =>
    unfold parseParamList
    apply np_bind (np_readU8 buf); intro x _
    obtain ⟨id, r1⟩ := x
    apply np_bind (np_readU8 _); intro y _
    obtain ⟨len, r2⟩ := y
    dsimp only
    split
    · exact np_err _
    · next o ho =>
      apply np_bind (np_parseParam ho); intro _ _
      apply np_bind (ih _); intro z _
      obtain ⟨ps, rest⟩ := z
      exact np_pure _

theorem np_parseFlowDesc (buf : Bytes) : NoPanic (parseFlowDesc buf) := by
  unfold parseFlowDesc
  apply np_bind (np_readU8 buf); intro x _
  obtain ⟨qfi, r1⟩ := x
  apply np_bind (np_readU8 _); intro y _
  obtain ⟨o, r2⟩ := y
  apply np_bind (np_readU8 _); intro z _
  obtain ⟨n, r3⟩ := z
  dsimp only
  split
  · apply np_bind (np_parseParamList _ _); intro w _; obtain ⟨ps, rest⟩ := w; exact np_pure _
  · exact np_pure _

theorem parseParamList_len {n : Nat} {buf rest : Bytes} {ps : List FlowParam}
    (h : parseParamList n buf = .ok (ps, rest)) : rest.length ≤ buf.length := by
  induction n generalizing buf ps rest with
  | zero => simp [parseParamList, pure] at h; obtain ⟨_, rfl⟩ := h; exact Nat.le_refl _
  | succ k ih =>
    unfold parseParamList at h
    cases h1 : readU8 buf with
    | ok x1 =>
      obtain ⟨id, r1⟩ := x1
      cases h2 : readU8 r1 with
      | ok x2 =>
        obtain ⟨len, r2⟩ := x2
        simp only [h1, h2, bind, Outcome.bind] at h
        split at h
        · cases h
        · next o _ =>
          cases ho : o with
          | ok p =>
            simp only [ho] at h
            cases h3 : parseParamList k (r2.drop len.toNat) with
            | ok x3 =>
              obtain ⟨ps', rest'⟩ := x3
              simp only [h3, pure] at h
              cases h
              have := ih h3
              have := readU8_len h1
              have := readU8_len h2
              simp at *; omega
            | err e => simp [h3] at h
            | panic => simp [h3] at h
          | err e => simp [ho] at h
          | panic => simp [ho] at h
      | err e => simp [h1, h2, bind, Outcome.bind] at h
      | panic => simp [h1, h2, bind, Outcome.bind] at h
    | err e => simp [h1, bind, Outcome.bind] at h
    | panic => simp [h1, bind, Outcome.bind] at h

theorem parseFlowDesc_len {buf rest : Bytes} {d : FlowDesc} (h : parseFlowDesc buf = .ok (d, rest)) : rest.length + 3 ≤ buf.length := by
  unfold parseFlowDesc at h
  obtain ⟨⟨qfi, r1⟩, h1, h⟩ := bind_ok_inv' h
  obtain ⟨⟨o, r2⟩, h2, h⟩ := bind_ok_inv' h
  obtain ⟨⟨n, r3⟩, h3, h⟩ := bind_ok_inv' h
  have := readU8_len h1
  have := readU8_len h2
  have := readU8_len h3
  simp only at h
  split at h
  · obtain ⟨⟨ps, rest'⟩, h4, h⟩ := bind_ok_inv' h
    have := parseParamList_len h4
    simp [pure] at h; obtain ⟨_, rfl⟩ := h
    omega
  · simp [pure] at h; obtain ⟨_, rfl⟩ := h; omega

theorem unmarshalDescsLoop_total (fuel : Nat) (buf : Bytes) (acc : List FlowDesc) (hf : buf.length < fuel) :
    NoPanic (unmarshalDescsLoop fuel buf acc) := by
  induction fuel generalizing buf acc with
  | zero => omega
  | succ n ih =>
    unfold unmarshalDescsLoop
    have hp := np_parseFlowDesc buf
    split
    · next d rest h => have := parseFlowDesc_len h; exact ih _ _ (by omega)
    · exact np_pure _
    · exact np_err _
    · next h => exact absurd h hp

def KnownParamId (id : UInt8) : Prop := id = 1 ∨ id = 2 ∨ id = 3 ∨ id = 4 ∨ id = 5 ∨ id = 6 ∨ id = 7

theorem parseParam_none_iff (id : UInt8) (b : Bytes) : parseParam id b = none ↔ ¬ KnownParamId id := by
  unfold parseParam KnownParamId
  constructor
  · intro h; repeat' split at h
    all_goals first | (cases h; done) | (intro hk; rcases hk with h1 | h1 | h1 | h1 | h1 | h1 | h1 <;> contradiction)
  · intro h
    simp only [not_or] at h
    obtain ⟨h1, h2, h3, h4, h5, h6, h7⟩ := h
    simp [h1, h2, h3, h4, h5, h6, h7]

theorem readU16_be16 (v : UInt16) (r : Bytes) : readU16 (be16 v ++ r) = .ok (v, r) := by
  simp only [be16, List.cons_append, List.nil_append, readU16, u16_roundtrip]

theorem parseParam_body (p : FlowParam) : parseParam p.ident p.body = some (.ok p) := by
  cases p <;> simp [FlowParam.ident, FlowParam.body, parseParam, bitRate, readU8, bind, Outcome.bind, pure] <;>
    (try (have := readU16_be16 ‹UInt16› []; simp at this; simp [this]))

theorem body_len (p : FlowParam) : p.body.length ≤ 3 := by cases p <;> simp [FlowParam.body, be16]

theorem parseParamList_marshal (l : List FlowParam) (rest : Bytes) :
    parseParamList l.length (marshalParams l ++ rest) = .ok (l, rest) := by
  induction l with
  | nil => simp [parseParamList, marshalParams, pure]
  | cons p ps ih =>
    have hb := body_len p
    have hl : (UInt8.ofNat p.body.length).toNat = p.body.length := by simp; omega
    simp only [marshalParams, List.flatMap_cons, List.length_cons, List.cons_append, List.append_assoc, parseParamList, readU8, bind,
      Outcome.bind, hl, List.take_left, List.drop_left, parseParam_body]
    have := ih
    simp only [marshalParams] at this
    simp [this, pure]

def WFDesc (d : FlowDesc) : Prop := d.params.length ≤ 63 ∧ d.op ≤ 7

set_option maxRecDepth 100000 in

theorem desc_header : ∀ n, n < 64 →
    let nn := UInt8.ofNat n
    let e : UInt8 := if nn ≠ 0 then 1 else 0
    ((nn ≠ 0) ↔ n ≠ 0) ∧ (((e <<< 6) ||| nn ≠ 0) ↔ n ≠ 0) ∧ (((e <<< 6) ||| nn) &&& 63).toNat = n ∧ ((e = 1) ↔ n ≠ 0) := by decide

theorem op_shift : ∀ o, o < 8 → ((UInt8.ofNat o <<< 5) >>> 5 = UInt8.ofNat o) := by decide

theorem parseFlowDesc_marshal (d : FlowDesc) (hw : WFDesc d) (rest : Bytes) :
    parseFlowDesc (marshalDesc d ++ rest) = .ok (d, rest) := by
  obtain ⟨qfi, op, ps⟩ := d
  obtain ⟨hn, ho⟩ := hw
  simp only at hn ho
  have hh := desc_header ps.length (by omega)
  have hop : (op <<< 5) >>> 5 = op := by
    have := op_shift op.toNat (by have : op.toNat ≤ 7 := by simpa using UInt8.le_iff_toNat_le.mp ho
                                  omega)
    simpa using this
  simp only at hh
  obtain ⟨h1, h2, h3, h4⟩ := hh
  unfold marshalDesc parseFlowDesc
  simp only [List.cons_append, List.nil_append, readU8, bind, Outcome.bind, hop]
  by_cases hz : ps.length = 0
  · have hps : ps = [] := List.eq_nil_of_length_eq_zero hz
    subst hps
    simp [pure]
  · have e1 : (if UInt8.ofNat ps.length ≠ 0 then (1 : UInt8) else 0) = 1 := h4.mpr hz
    have hne := h2.mpr hz
    simp only [e1] at hne h3 ⊢
    simp only [if_true, hne, h3, parseParamList_marshal, pure, ne_eq, not_false_eq_true]

theorem marshalDesc_len (d : FlowDesc) : 3 ≤ (marshalDesc d).length := by simp [marshalDesc]

theorem unmarshalDescsLoop_marshal (l : List FlowDesc) (hw : ∀ d ∈ l, WFDesc d) (fuel : Nat) (hf : l.length < fuel) (acc : List FlowDesc) :
    unmarshalDescsLoop fuel (marshalDescs l) acc = .ok (acc ++ l) := by
  induction l generalizing fuel acc with
  | nil =>
    cases fuel with
    | zero => omega
    | succ n => simp [unmarshalDescsLoop, marshalDescs, parseFlowDesc, readU8, bind, Outcome.bind, pure]
  | cons d ds ih =>
    cases fuel with
    | zero => omega
    | succ n =>
      simp only [marshalDescs, List.flatMap_cons, unmarshalDescsLoop]
      have := parseFlowDesc_marshal d (hw d (by simp)) (List.flatMap marshalDesc ds)
      rw [this]
      have := ih (fun x hx => hw x (by simp [hx])) n (by simp at hf; omega) (acc ++ [d])
      simp only [marshalDescs] at this
      simp only [this]; simp

theorem marshalDescs_len (l : List FlowDesc) : 3 * l.length ≤ (marshalDescs l).length := by
  induction l with
  | nil => simp [marshalDescs]
  | cons d ds ih =>
    have := marshalDesc_len d
    simp only [marshalDescs, List.flatMap_cons, List.length_append, List.length_cons] at ih ⊢
    omega

theorem np_u16At {b : Bytes} {i : Nat} (h : i + 1 < b.length) : NoPanic (u16At b i) := by
  unfold u16At; np

theorem compLen_some {t : UInt8} {len : Nat} (h : compLen t = some len) :
    (t = 0x01 ∧ len = 0) ∨ (t = 0x10 ∧ len = 8) ∨ (t = 0x11 ∧ len = 8) ∨ (t = 0x30 ∧ len = 1) ∨ (t = 0x40 ∧ len = 2) ∨
    (t = 0x41 ∧ len = 4) ∨ (t = 0x50 ∧ len = 2) ∨ (t = 0x51 ∧ len = 4) ∨ (t = 0x60 ∧ len = 4) ∨ (t = 0x70 ∧ len = 2) ∨
    (t = 0x80 ∧ len = 3) ∨ (t = 0x81 ∧ len = 6) ∨ (t = 0x82 ∧ len = 6) ∨ (t = 0x83 ∧ len = 2) ∨ (t = 0x84 ∧ len = 2) ∨
    (t = 0x85 ∧ len = 1) ∨ (t = 0x86 ∧ len = 1) ∨ (t = 0x87 ∧ len = 2) := by
  unfold compLen at h
  repeat' split at h
  all_goals first
    | (cases h; done)
    | (cases h; rename_i hh; first | (subst hh; decide) | (rcases hh with hh | hh | hh <;> subst hh <;> decide) | (rcases hh with hh | hh <;> subst hh <;> decide))

theorem np_parseComp (t : UInt8) (len : Nat) (b : Bytes) (h : compLen t = some len) : NoPanic (parseComp t len b) := by
  by_cases hb : b.length = len
  · rcases compLen_some h with ⟨rfl, rfl⟩ | ⟨rfl, rfl⟩ | ⟨rfl, rfl⟩ | ⟨rfl, rfl⟩ | ⟨rfl, rfl⟩ | ⟨rfl, rfl⟩ | ⟨rfl, rfl⟩ | ⟨rfl, rfl⟩ |
      ⟨rfl, rfl⟩ | ⟨rfl, rfl⟩ | ⟨rfl, rfl⟩ | ⟨rfl, rfl⟩ | ⟨rfl, rfl⟩ | ⟨rfl, rfl⟩ | ⟨rfl, rfl⟩ | ⟨rfl, rfl⟩ | ⟨rfl, rfl⟩ | ⟨rfl, rfl⟩
    all_goals (simp (config := { decide := true }) only [parseComp, hb, ne_eq, not_true_eq_false, if_false, if_true]; (try unfold u16At); np)
  · unfold parseComp; rw [if_pos hb]; exact np_err _

theorem parseComps_total (fuel : Nat) (buf : Bytes) (acc : List Comp) (hf : buf.length < fuel) :
    NoPanic (parseComps fuel buf acc) := by
  induction fuel generalizing buf acc with
  | zero => omega
  | succ n ih =>
    unfold parseComps
    split
    · exact np_pure _
    · next t r =>
      split
      · exact np_err _
      · next len hl =>
        apply np_bind (np_parseComp t len _ hl); intro c _
        apply ih; simp at hf ⊢; omega

theorem np_parsePfList (n : Nat) (buf : Bytes) : NoPanic (parsePfList n buf) := by
  induction n generalizing buf with
  | zero => exact np_pure _
  | succ k ih =>
    unfold parsePfList
    apply np_bind (np_readU8 buf); intro x _
    obtain ⟨h, r1⟩ := x
    apply np_bind (np_readU8 _); intro y _
    obtain ⟨len, r2⟩ := y
    dsimp only
    apply np_bind (parseComps_total _ _ _ (by omega)); intro cs _
    apply np_bind (ih _); intro z _
    obtain ⟨pfs, rest⟩ := z
    exact np_pure _

theorem np_parsePfDeleteList (n : Nat) (buf : Bytes) : NoPanic (parsePfDeleteList n buf) := by
  induction n generalizing buf with
  | zero => exact np_pure _
  | succ k ih =>
    unfold parsePfDeleteList
    apply np_bind (np_readU8 buf); intro x _
    obtain ⟨h, r1⟩ := x
    apply np_bind (ih _); intro z _
    obtain ⟨pfs, rest⟩ := z
    exact np_pure _

theorem parsePfList_len {n : Nat} {buf rest : Bytes} {l : List PacketFilter}
    (h : parsePfList n buf = .ok (l, rest)) : rest.length ≤ buf.length := by
  induction n generalizing buf l rest with
  | zero => simp [parsePfList, pure] at h; obtain ⟨_, rfl⟩ := h; exact Nat.le_refl _
  | succ k ih =>
    unfold parsePfList at h
    obtain ⟨⟨hd, r1⟩, h1, h⟩ := bind_ok_inv' h
    obtain ⟨⟨len, r2⟩, h2, h⟩ := bind_ok_inv' h
    dsimp only at h
    obtain ⟨cs, h3, h⟩ := bind_ok_inv' h
    obtain ⟨⟨pfs, rest'⟩, h4, h⟩ := bind_ok_inv' h
    simp [pure] at h; obtain ⟨_, rfl⟩ := h
    have := ih h4
    have := readU8_len h1
    have := readU8_len h2
    simp at *; omega

theorem parsePfDeleteList_len {n : Nat} {buf rest : Bytes} {l : List PacketFilter}
    (h : parsePfDeleteList n buf = .ok (l, rest)) : rest.length ≤ buf.length := by
  induction n generalizing buf l rest with
  | zero => simp [parsePfDeleteList, pure] at h; obtain ⟨_, rfl⟩ := h; exact Nat.le_refl _
  | succ k ih =>
    unfold parsePfDeleteList at h
    obtain ⟨⟨hd, r1⟩, h1, h⟩ := bind_ok_inv' h
    obtain ⟨⟨pfs, rest'⟩, h4, h⟩ := bind_ok_inv' h
    simp [pure] at h; obtain ⟨_, rfl⟩ := h
    have := ih h4
    have := readU8_len h1
    omega

theorem np_parseRuleBody (id : UInt8) (buf : Bytes) : NoPanic (parseRuleBody id buf) := by
  unfold parseRuleBody
  apply np_bind (np_readU16 buf); intro x _
  obtain ⟨l, r1⟩ := x
  apply np_bind (np_readU8 _); intro y _
  obtain ⟨h, r2⟩ := y
  dsimp only
  apply np_bind
  · split
    · exact np_parsePfDeleteList _ _
    · exact np_parsePfList _ _
  · intro z _
    obtain ⟨pfs, r3⟩ := z
    apply np_bind (np_readU8 _); intro w _
    obtain ⟨p, r4⟩ := w
    apply np_bind (np_readU8 _); intro v _
    obtain ⟨q, r5⟩ := v
    exact np_pure _

theorem parseRuleBody_len {id : UInt8} {buf rest : Bytes} {r : Rule} (h : parseRuleBody id buf = .ok (r, rest)) :
    rest.length ≤ buf.length := by
  unfold parseRuleBody at h
  obtain ⟨⟨l, r1⟩, h1, h⟩ := bind_ok_inv' h
  obtain ⟨⟨hd, r2⟩, h2, h⟩ := bind_ok_inv' h
  dsimp only at h
  obtain ⟨⟨pfs, r3⟩, h3, h⟩ := bind_ok_inv' h
  obtain ⟨⟨p, r4⟩, h4, h⟩ := bind_ok_inv' h
  obtain ⟨⟨q, r5⟩, h5, h⟩ := bind_ok_inv' h
  simp [pure] at h; obtain ⟨_, rfl⟩ := h
  dsimp only at h4 h5
  have := readU16_len h1
  have := readU8_len h2
  have := readU8_len h4
  have := readU8_len h5
  have : r3.length ≤ r2.length := by
    split at h3
    · exact parsePfDeleteList_len h3
    · exact parsePfList_len h3
  omega

theorem unmarshalRulesLoop_total (fuel : Nat) (buf : Bytes) (acc : List Rule) (hf : buf.length < fuel) :
    NoPanic (unmarshalRulesLoop fuel buf acc) := by
  induction fuel generalizing buf acc with
  | zero => omega
  | succ n ih =>
    unfold unmarshalRulesLoop
    split
    · exact np_pure _
    · next id r =>
      have hp := np_parseRuleBody id r
      split
      · next rule rest h => have := parseRuleBody_len h; apply ih; simp at hf; omega
      · exact np_err _
      · next h => exact absurd h hp

theorem u16_roundtrip' (v : UInt16) : (v >>> 8 % 256) <<< 8 ||| v % 256 = v := by
  have := u16_roundtrip v; simpa using this

theorem u16At_be16 (v : UInt16) (pre post : Bytes) : u16At (pre ++ be16 v ++ post) pre.length = .ok v := by
  simp [u16At, be16, idx, bind, Outcome.bind, pure, u16_roundtrip']

theorem be16_u16Of (c m : UInt8) : be16 ((c.toUInt16 <<< 8) ||| m.toUInt16) = [c, m] := by
  have h := u16Of_toNat c m
  have hc := c.toNat_lt
  have hm := m.toNat_lt
  simp only [be16]
  congr 1
  · apply UInt8.toNat_inj.mp
    simp only [UInt16.toNat_toUInt8, UInt16.toNat_shiftRight, h]
    have h8 : (8 : UInt16).toNat % 16 = 8 := by decide
    rw [h8, Nat.shiftRight_eq_div_pow]; omega
  · congr 1
    apply UInt8.toNat_inj.mp
    simp only [UInt16.toNat_toUInt8, h]; omega

theorem tos_fields (c m : UInt8) :
    let v : UInt16 := (c.toUInt16 <<< 8) ||| m.toUInt16
    ((v &&& 0xff00) >>> 8).toUInt8 = c ∧ (v &&& 0x00ff).toUInt8 = m := by
  have h := u16Of_toNat c m
  have hc := c.toNat_lt
  have hm := m.toNat_lt
  intro v
  constructor
  · apply UInt8.toNat_inj.mp
    simp only [UInt16.toNat_toUInt8, UInt16.toNat_shiftRight, UInt16.toNat_and, v, h]
    have h8 : (8 : UInt16).toNat % 16 = 8 := by decide
    have hff : (0xff00 : UInt16).toNat = 0xff00 := by decide
    rw [h8, hff, Nat.shiftRight_and_distrib]
    have : (0xff00 : Nat) >>> 8 = 2 ^ 8 - 1 := by decide
    rw [this, Nat.and_two_pow_sub_one_eq_mod, Nat.shiftRight_eq_div_pow]; omega
  · apply UInt8.toNat_inj.mp
    simp only [UInt16.toNat_toUInt8, UInt16.toNat_and, v, h]
    have hff : (0x00ff : UInt16).toNat = 2 ^ 8 - 1 := by decide
    rw [hff, Nat.and_two_pow_sub_one_eq_mod]; omega

theorem u24_roundtrip (v : UInt32) (hv : v < 16777216) :
    (((v >>> 16).toUInt8.toUInt32 <<< 16) ||| ((v >>> 8).toUInt8.toUInt32 <<< 8) ||| v.toUInt8.toUInt32) = v := by
  have h := be32_roundtrip v
  have h0 : (v >>> 24).toUInt8 = 0 := by
    apply UInt8.toNat_inj.mp
    have : v.toNat < 16777216 := by simpa using UInt32.lt_iff_toNat_lt.mp hv
    simp only [UInt32.toNat_toUInt8, UInt32.toNat_shiftRight]
    have h24 : (24 : UInt32).toNat % 32 = 24 := by decide
    rw [h24, Nat.shiftRight_eq_div_pow]; simp; omega
  rw [h0] at h
  simpa using h

def WFComp : Comp → Prop
  | .ipv4Remote a m | .ipv4Local a m => a.length = 4 ∧ m.length = 4
  | .flowLabel v => v < 524288
  | .dstMac m | .srcMac m => m.length = 6
  | _ => True

theorem be32_roundtrip' (v : UInt32) : (v >>> 24 % 256) <<< 24 ||| (v >>> 16 % 256) <<< 16 ||| (v >>> 8 % 256) <<< 8 ||| v % 256 = v := by
  have := be32_roundtrip v; simpa using this

theorem u24_roundtrip' (v : UInt32) (hv : v < 16777216) : (v >>> 16 % 256) <<< 16 ||| (v >>> 8 % 256) <<< 8 ||| v % 256 = v := by
  have := u24_roundtrip v hv; simpa using this

/-- every well-formed component serialises, and its type's parser reads the contents back -/
theorem comp_roundtrip (c : Comp) (hw : WFComp c) :
    ∃ b, c.body = .ok b ∧ compLen c.type = some b.length ∧ parseComp c.type b.length b = .ok c := by
  cases c with
  | matchAll => exact ⟨[], rfl, by decide, by simp [parseComp, Comp.type, pure]⟩
  | ipv4Remote a m =>
    obtain ⟨ha, hm⟩ := hw
    refine ⟨a ++ m, by simp [Comp.body, ha, hm, pure], by simp [Comp.type, compLen, ha, hm], ?_⟩
    simp (config := { decide := true }) [parseComp, Comp.type, slice, ha, hm, bind, Outcome.bind, pure]
    have h8 : (a ++ m).length = 8 := by simp [ha, hm]
    rw [← h8, List.take_length, ← ha, List.drop_left]
  | ipv4Local a m =>
    obtain ⟨ha, hm⟩ := hw
    refine ⟨a ++ m, by simp [Comp.body, ha, hm, pure], by simp [Comp.type, compLen, ha, hm], ?_⟩
    simp (config := { decide := true }) [parseComp, Comp.type, slice, ha, hm, bind, Outcome.bind, pure]
    have h8 : (a ++ m).length = 8 := by simp [ha, hm]
    rw [← h8, List.take_length, ← ha, List.drop_left]
  | proto v => exact ⟨[v], rfl, by simp [Comp.type, compLen], by simp (config := { decide := true }) [parseComp, Comp.type, idx, bind, Outcome.bind, pure]⟩
  | localPort v =>
    refine ⟨be16 v, rfl, by simp [Comp.type, compLen, be16], ?_⟩
    have := u16At_be16 v [] []
    simp at this
    simp (config := { decide := true }) [parseComp, Comp.type, be16, bind, Outcome.bind, pure] at this ⊢
    simp [this]
  | localRange lo hi =>
    refine ⟨be16 lo ++ be16 hi, rfl, by simp [Comp.type, compLen, be16], ?_⟩
    have h1 := u16At_be16 lo [] (be16 hi)
    have h2 := u16At_be16 hi (be16 lo) []
    simp [be16] at h1 h2
    simp (config := { decide := true }) [parseComp, Comp.type, be16, bind, Outcome.bind, pure, h1, h2]
  | remotePort v =>
    refine ⟨be16 v, rfl, by simp [Comp.type, compLen, be16], ?_⟩
    have := u16At_be16 v [] []
    simp [be16] at this
    simp (config := { decide := true }) [parseComp, Comp.type, be16, bind, Outcome.bind, pure, this]
  | remoteRange lo hi =>
    refine ⟨be16 lo ++ be16 hi, rfl, by simp [Comp.type, compLen, be16], ?_⟩
    have h1 := u16At_be16 lo [] (be16 hi)
    have h2 := u16At_be16 hi (be16 lo) []
    simp [be16] at h1 h2
    simp (config := { decide := true }) [parseComp, Comp.type, be16, bind, Outcome.bind, pure, h1, h2]
  | spi v =>
    refine ⟨be32 v, rfl, by simp [Comp.type, compLen, be32], ?_⟩
    simp (config := { decide := true }) [parseComp, Comp.type, be32, idx, bind, Outcome.bind, pure, be32_roundtrip']
  | tos c m =>
    refine ⟨[c, m], by simp [Comp.body, be16_u16Of, pure], by simp [Comp.type, compLen], ?_⟩
    have ht := tos_fields c m
    have hu := u16At_be16 ((c.toUInt16 <<< 8) ||| m.toUInt16) [] []
    simp [be16_u16Of] at hu
    simp (config := { decide := true }) only [parseComp, Comp.type, bind, Outcome.bind, pure, hu, List.length_cons, List.length_nil,
      ne_eq, not_true_eq_false, if_false, if_true]
    rw [ht.1, ht.2]
  | flowLabel v =>
    have hv : v < 524288 := hw
    have hv2 : v < 16777216 := by
      have : v.toNat < 524288 := by simpa using UInt32.lt_iff_toNat_lt.mp hv
      exact UInt32.lt_iff_toNat_lt.mpr (by simp; omega)
    have hng : ¬ v ≥ 524288 := by
      intro h; exact absurd hv (UInt32.not_lt.mpr h)
    refine ⟨(be32 v).drop 1, by simp [Comp.body, hng, pure], by simp [Comp.type, compLen, be32], ?_⟩
    simp (config := { decide := true }) [parseComp, Comp.type, be32, idx, bind, Outcome.bind, pure, u24_roundtrip' v hv2]
  | dstMac m =>
    have hm : m.length = 6 := hw
    exact ⟨m, rfl, by simp [Comp.type, compLen, hm], by simp (config := { decide := true }) [parseComp, Comp.type, hm, pure]⟩
  | srcMac m =>
    have hm : m.length = 6 := hw
    exact ⟨m, rfl, by simp [Comp.type, compLen, hm], by simp (config := { decide := true }) [parseComp, Comp.type, hm, pure]⟩
  | ctagVid v =>
    refine ⟨be16 v, rfl, by simp [Comp.type, compLen, be16], ?_⟩
    have := u16At_be16 v [] []
    simp [be16] at this
    simp (config := { decide := true }) [parseComp, Comp.type, be16, bind, Outcome.bind, pure, this]
  | stagVid v =>
    refine ⟨be16 v, rfl, by simp [Comp.type, compLen, be16], ?_⟩
    have := u16At_be16 v [] []
    simp [be16] at this
    simp (config := { decide := true }) [parseComp, Comp.type, be16, bind, Outcome.bind, pure, this]
  | ctagPcp v => exact ⟨[v], rfl, by simp [Comp.type, compLen], by simp (config := { decide := true }) [parseComp, Comp.type, idx, bind, Outcome.bind, pure]⟩
  | stagPcp v => exact ⟨[v], rfl, by simp [Comp.type, compLen], by simp (config := { decide := true }) [parseComp, Comp.type, idx, bind, Outcome.bind, pure]⟩
  | etherType v =>
    refine ⟨be16 v, rfl, by simp [Comp.type, compLen, be16], ?_⟩
    have := u16At_be16 v [] []
    simp [be16] at this
    simp (config := { decide := true }) [parseComp, Comp.type, be16, bind, Outcome.bind, pure, this]

theorem comps_roundtrip (cs : List Comp) (hw : ∀ c ∈ cs, WFComp c) :
    ∃ cb, marshalComps cs = .ok cb ∧ cs.length ≤ cb.length ∧
      ∀ fuel acc, cs.length < fuel → parseComps fuel cb acc = .ok (acc ++ cs) := by
  induction cs with
  | nil => exact ⟨[], rfl, by simp, fun fuel acc hf => by cases fuel with | zero => omega | succ n => simp [parseComps, pure]⟩
  | cons c r ih =>
    obtain ⟨cb, hcb, hlen, hp⟩ := ih (fun x hx => hw x (by simp [hx]))
    obtain ⟨b, hb, hl, hpc⟩ := comp_roundtrip c (hw c (by simp))
    refine ⟨c.type :: b ++ cb, by simp [marshalComps, hb, hcb, bind, Outcome.bind, pure], by simp; omega, ?_⟩
    intro fuel acc hf
    cases fuel with
    | zero => omega
    | succ n =>
      simp only [List.cons_append, parseComps, hl, List.take_left, List.drop_left, hpc, bind, Outcome.bind]
      rw [hp n (acc ++ [c]) (by simp at hf; omega)]; simp

def WFPf (pf : PacketFilter) : Prop :=
  pf.id < 16 ∧ pf.dir < 16 ∧ (∀ c ∈ pf.comps, WFComp c) ∧ ∀ cb, marshalComps pf.comps = .ok cb → cb.length ≤ 255

def WFPfDelete (pf : PacketFilter) : Prop := pf.id < 16 ∧ pf.dir = 0 ∧ pf.comps = []

set_option maxRecDepth 100000 in

theorem pf_header : ∀ d, d < 16 → ∀ i, i < 16 →
    ((UInt8.ofNat d <<< 4) ||| UInt8.ofNat i) &&& 0x0f = UInt8.ofNat i ∧
    (((UInt8.ofNat d <<< 4) ||| UInt8.ofNat i) &&& 0xf0) >>> 4 = UInt8.ofNat d ∧ UInt8.ofNat i &&& 0x0f = UInt8.ofNat i := by decide

theorem lt16 {x : UInt8} (h : x < 16) : x.toNat < 16 := by simpa using UInt8.lt_iff_toNat_lt.mp h

theorem pfs_roundtrip (pfs : List PacketFilter) (hw : ∀ p ∈ pfs, WFPf p) :
    ∃ bytes, buildPfList pfs = .ok bytes ∧ ∀ rest, parsePfList pfs.length (bytes ++ rest) = .ok (pfs, rest) := by
  induction pfs with
  | nil => exact ⟨[], rfl, fun rest => by simp [parsePfList, pure]⟩
  | cons p r ih =>
    obtain ⟨bytes, hb, hp⟩ := ih (fun x hx => hw x (by simp [hx]))
    obtain ⟨hid, hdir, hcs, h255⟩ := hw p (by simp)
    obtain ⟨cb, hcb, hlen, hpc⟩ := comps_roundtrip p.comps hcs
    have hl := h255 cb hcb
    have hlb : (UInt8.ofNat cb.length).toNat = cb.length := by simp; omega
    have hh := pf_header p.dir.toNat (lt16 hdir) p.id.toNat (lt16 hid)
    simp only [UInt8.ofNat_toNat] at hh
    refine ⟨((p.dir <<< 4) ||| p.id) :: UInt8.ofNat cb.length :: cb ++ bytes, by simp [buildPfList, hcb, hb, bind, Outcome.bind, pure], ?_⟩
    intro rest
    simp only [List.length_cons, parsePfList, List.cons_append, List.append_assoc, readU8, bind, Outcome.bind, hlb, List.take_left,
      List.drop_left]
    rw [hpc _ [] (by omega)]
    simp only [List.nil_append, hp rest, hh.1, hh.2.1, pure]

theorem pfsDelete_roundtrip (pfs : List PacketFilter) (hw : ∀ p ∈ pfs, WFPfDelete p) (rest : Bytes) :
    parsePfDeleteList pfs.length (buildPfDeleteList pfs ++ rest) = .ok (pfs, rest) := by
  induction pfs with
  | nil => simp [parsePfDeleteList, buildPfDeleteList, pure]
  | cons p r ih =>
    obtain ⟨hid, hdir, hcs⟩ := hw p (by simp)
    have hh := pf_header 0 (by omega) p.id.toNat (lt16 hid)
    simp only [UInt8.ofNat_toNat] at hh
    have := ih (fun x hx => hw x (by simp [hx]))
    simp only [buildPfDeleteList] at this
    simp only [List.length_cons, buildPfDeleteList, List.map_cons, List.cons_append, parsePfDeleteList, readU8, bind, Outcome.bind, this,
      pure, hh.2.2]
    obtain ⟨id, dir, comps⟩ := p
    simp only at hdir hcs
    subst hdir; subst hcs; rfl

def WFRule (r : Rule) : Prop :=
  r.op ≤ 7 ∧ r.pfs.length ≤ 15 ∧ r.qfi < 64 ∧ (if r.op = 5 then ∀ p ∈ r.pfs, WFPfDelete p else ∀ p ∈ r.pfs, WFPf p)

set_option maxRecDepth 100000 in

theorem rule_header : ∀ o, o < 8 → ∀ n, n < 16 → ∀ d : Bool,
    (let h : UInt8 := (UInt8.ofNat o <<< 5) ||| (bool2bit d <<< 4) ||| UInt8.ofNat n
     h >>> 5 = UInt8.ofNat o ∧ (h &&& 0x0f).toNat = n ∧ (((h &&& 0x10) ≠ 0) ↔ d = true)) := by decide

set_option maxRecDepth 100000 in

theorem rule_qfi : ∀ q, q < 64 → ∀ s : Bool,
    (let b : UInt8 := (bool2bit s <<< 6) ||| UInt8.ofNat q
     ((b >>> 6 ≠ 0) ↔ s = true) ∧ b &&& 63 = UInt8.ofNat q) := by decide

theorem le7 {x : UInt8} (h : x ≤ 7) : x.toNat < 8 := by
  have := UInt8.le_iff_toNat_le.mp h; simp at this; omega

theorem lt64 {x : UInt8} (h : x < 64) : x.toNat < 64 := by simpa using UInt8.lt_iff_toNat_lt.mp h

theorem rule_roundtrip (r : Rule) (hw : WFRule r) :
    ∃ bytes, marshalRule r = .ok bytes ∧ 1 ≤ bytes.length ∧
      ∀ rest, ∃ t, bytes ++ rest = r.id :: t ∧ parseRuleBody r.id t = .ok (r, rest) := by
  obtain ⟨id, op, dqr, pfs, prec, seg, qfi⟩ := r
  obtain ⟨hop, hn, hq, hpf⟩ := hw
  simp only at hop hn hq hpf
  have hh := rule_header op.toNat (le7 hop) pfs.length (by omega) dqr
  have hqq := rule_qfi qfi.toNat (lt64 hq) seg
  simp only [UInt8.ofNat_toNat] at hh hqq
  obtain ⟨h1, h2, h3⟩ := hh
  obtain ⟨q1, q2⟩ := hqq
  have hdq : decide ((op <<< 5 ||| bool2bit dqr <<< 4 ||| UInt8.ofNat pfs.length) &&& 0x10 ≠ 0) = dqr := by
    cases dqr <;> simp_all
  have hsg : decide ((bool2bit seg <<< 6 ||| qfi) >>> 6 ≠ 0) = seg := by
    cases seg <;> simp_all
  by_cases h5 : op = 5
  · rw [if_pos h5] at hpf
    have hd := pfsDelete_roundtrip pfs hpf
    refine ⟨_, by simp [marshalRule, h5, bind, Outcome.bind, pure]; rfl, by simp, ?_⟩
    intro rest
    refine ⟨_, by simp only [List.cons_append]; rfl, ?_⟩
    subst h5
    simp only [parseRuleBody, be16, List.cons_append, List.nil_append, List.append_assoc, readU16, readU8, bind, Outcome.bind, h1, h2,
      if_true, hd, pure, q2, hdq, hsg]
  · rw [if_neg h5] at hpf
    obtain ⟨pb, hpb, hpp⟩ := pfs_roundtrip pfs hpf
    refine ⟨_, by simp [marshalRule, h5, hpb, bind, Outcome.bind, pure]; rfl, by simp, ?_⟩
    intro rest
    refine ⟨_, by simp only [List.cons_append]; rfl, ?_⟩
    simp only [parseRuleBody, be16, List.cons_append, List.nil_append, List.append_assoc, readU16, readU8, bind, Outcome.bind, h1, h2,
      h5, if_false, hpp, pure, q2, hdq, hsg]

theorem rules_roundtrip_loop (l : List Rule) (hw : ∀ r ∈ l, WFRule r) :
    ∃ bytes, marshalRules l = .ok bytes ∧ l.length ≤ bytes.length ∧
      ∀ fuel acc, l.length < fuel → unmarshalRulesLoop fuel bytes acc = .ok (acc ++ l) := by
  induction l with
  | nil => exact ⟨[], rfl, by simp, fun fuel acc hf => by cases fuel with | zero => omega | succ n => simp [unmarshalRulesLoop, pure]⟩
  | cons r rs ih =>
    obtain ⟨bs, hbs, hlen, hp⟩ := ih (fun x hx => hw x (by simp [hx]))
    obtain ⟨b, hb, hb1, hpr⟩ := rule_roundtrip r (hw r (by simp))
    refine ⟨b ++ bs, by simp [marshalRules, hb, hbs, bind, Outcome.bind, pure], by simp; omega, ?_⟩
    intro fuel acc hf
    cases fuel with
    | zero => omega
    | succ n =>
      obtain ⟨t, ht, hpt⟩ := hpr bs
      rw [ht]
      simp only [unmarshalRulesLoop, hpt]
      rw [hp n (acc ++ [r]) (by simp at hf; omega)]; simp

set_option maxRecDepth 100000 in

theorem desc_layout_bits : ∀ o, o < 8 → ∀ n, n < 64 →
    UInt8.ofNat o <<< 5 = UInt8.ofNat (o * 32) ∧
    (((if UInt8.ofNat n ≠ 0 then (1 : UInt8) else 0) <<< 6) ||| UInt8.ofNat n) = UInt8.ofNat ((if n = 0 then 0 else 64) + n) := by decide

set_option maxRecDepth 100000 in

theorem rule_layout_bits : ∀ o, o < 8 → ∀ n, n < 16 → ∀ d : Bool,
    ((UInt8.ofNat o <<< 5) ||| (bool2bit d <<< 4) ||| UInt8.ofNat n) = UInt8.ofNat (o * 32 + (if d then 16 else 0) + n) := by decide

set_option maxRecDepth 100000 in

theorem rule_qfi_bits : ∀ q, q < 64 → ∀ s : Bool,
    ((bool2bit s <<< 6) ||| UInt8.ofNat q) = UInt8.ofNat ((if s then 64 else 0) + q) := by decide

end NasVerif.Proofs.Qos
